package main

// Facts of the `render` engine (C05, C13, C16): the render context encoding
// (runtime and compiler copies), ast.Context / ast.Format numbering, the
// contexts handled by renderer.Show, the Text instruction's URL flags, and the
// per-byte classification of pathEscape and queryEscape. Everything is
// obtained by evaluating the implementation's own code.

import (
	"bytes"
	"fmt"
	"go/ast"
	"go/constant"
	"go/types"
	"strings"

	"golang.org/x/tools/go/packages"
)

// constInt returns the value of the package-level integer constant name.
func constInt(p *packages.Package, name string) int64 {
	o := p.Types.Scope().Lookup(name)
	if o == nil {
		panic("constant " + p.PkgPath + "." + name + " not found")
	}
	c, ok := o.(*types.Const)
	if !ok {
		panic(name + " is not a constant")
	}
	return i64(c.Val())
}

// urlEscClass evaluates the loop body of pathEscape / queryEscape for byte c.
// look: value bound to the look-ahead condition of the '%' case (nil = leave
// unknown), n1, n2: the two following bytes. Result: kept (continue) or the
// bytes written for c.
func urlEscByte(p *packages.Package, fn string, params map[string]constant.Value, c int64, look *bool, n1, n2 int64) (kept bool, rep string) {
	fd := mustFunc(p, fn)
	ls := loops(fd.Body)
	if len(ls) != 1 {
		panic(fmt.Sprintf("%s: expected one loop, found %d", fn, len(ls)))
	}
	bn := urlEscBindings(p, fn, loopBody(ls[0]))
	run := func(bufNil bool) *env {
		e := newEnv(p)
		bindParams(e, fd, params)
		e.byname["s[i]"] = constant.MakeInt64(c)
		e.byname["buf == nil"] = constant.MakeBool(bufNil)
		if look != nil {
			for _, t := range bn.conds {
				e.byname[t] = constant.MakeBool(*look)
			}
			for _, t := range bn.idx1 {
				e.byname[t] = constant.MakeInt64(n1)
			}
			for _, t := range bn.idx2 {
				e.byname[t] = constant.MakeInt64(n2)
			}
		}
		return e
	}
	e := run(true)
	k := e.run(loopBody(ls[0]).List)
	switch k {
	case stopContinue:
		return true, ""
	case stopUnknown:
	default:
		panic(fmt.Sprintf("%s: byte %d: unexpected end of loop body (%d)", fn, c, k))
	}
	if v, ok := e.varNamed("esc"); ok && constant.StringVal(v) != "" {
		return false, constant.StringVal(v)
	}
	// the hexadecimal form: buf[0], buf[1], buf[2] assigned
	buf := map[string]int64{}
	for _, ef := range e.effects {
		if strings.HasPrefix(ef.fn, "assign:buf[") && len(ef.args) == 1 && ef.args[0] != nil {
			buf[ef.fn] = i64(ef.args[0])
		}
	}
	b0, ok0 := buf["assign:buf[0]"]
	b1, ok1 := buf["assign:buf[1]"]
	b2, ok2 := buf["assign:buf[2]"]
	if !ok0 || !ok1 || !ok2 {
		panic(fmt.Sprintf("%s: byte %d: neither continue, esc nor buf[0..2] (%s; effects %v)", fn, c, e.why, e.effects))
	}
	// with buf != nil the same buf[1], buf[2] must be assigned (buf[0] stays)
	e2 := run(false)
	e2.run(loopBody(ls[0]).List)
	for _, ef := range e2.effects {
		if ef.fn == "assign:buf[0]" {
			panic(fmt.Sprintf("%s: byte %d: buf[0] reassigned when buf != nil", fn, c))
		}
		if (ef.fn == "assign:buf[1]" && i64(ef.args[0]) != b1) || (ef.fn == "assign:buf[2]" && i64(ef.args[0]) != b2) {
			panic(fmt.Sprintf("%s: byte %d: buf differs between first and later use", fn, c))
		}
	}
	return false, string([]byte{byte(b0), byte(b1), byte(b2)})
}


type urlEscBind struct{ conds, idx1, idx2 []string }

var urlEscBindCache = map[string]*urlEscBind{}

// urlEscBindings finds, in the loop body, the comparisons with len(s) other
// than the write conditions (the look-ahead bound) and the index expressions
// s[i+1], s[i+2] (recognised by evaluating the index at i = 0).
func urlEscBindings(p *packages.Package, fn string, body *ast.BlockStmt) *urlEscBind {
	if b, ok := urlEscBindCache[fn]; ok {
		return b
	}
	bn := &urlEscBind{}
	ast.Inspect(body, func(n ast.Node) bool {
		switch x := n.(type) {
		case *ast.BinaryExpr:
			t := types.ExprString(x)
			if strings.Contains(t, "len(s)") && !strings.Contains(t, "&&") && !strings.Contains(t, "last") {
				bn.conds = append(bn.conds, t)
			}
		case *ast.IndexExpr:
			if types.ExprString(x.X) == "s" {
				e0 := newEnv(p)
				e0.byname["i"] = constant.MakeInt64(0)
				if v := e0.eval(x.Index); v != nil {
					switch i64(v) {
					case 1:
						bn.idx1 = append(bn.idx1, types.ExprString(x))
					case 2:
						bn.idx2 = append(bn.idx2, types.ExprString(x))
					}
				}
			}
		}
		return true
	})
	urlEscBindCache[fn] = bn
	return bn
}

func init() {
	register("Facts_render", func(w *world, b *bytes.Buffer) error {
		rt := w.pkg("internal/runtime")
		cc := w.pkg("internal/compiler")
		ap := w.pkg("ast")

		// ---- ast.Context and ast.Format numbering
		for _, n := range []string{"ContextText", "ContextHTML", "ContextCSS", "ContextJS", "ContextJSON", "ContextMarkdown",
			"ContextTag", "ContextQuotedAttr", "ContextUnquotedAttr", "ContextCSSString", "ContextJSString", "ContextJSONString",
			"ContextTabCodeBlock", "ContextSpacesCodeBlock"} {
			fmt.Fprintf(b, "Definition gen_%s : N := %d.\n", n, constInt(ap, n))
		}
		for _, n := range []string{"FormatText", "FormatHTML", "FormatCSS", "FormatJS", "FormatJSON", "FormatMarkdown"} {
			fmt.Fprintf(b, "Definition gen_%s : N := %d.\n", n, constInt(ap, n))
		}
		fmt.Fprintf(b, "(* runtime.ReturnString: the B operand of a macro call whose result is taken as a string *)\nDefinition gen_ReturnString : Z := (%d)%%Z.\n\n", constInt(rt, "ReturnString"))

		// ---- decodeRenderContext, both copies, for every byte
		dec := func(p *packages.Package, name string) {
			fd := mustFunc(p, "decodeRenderContext")
			fmt.Fprintf(b, "(* %s decodeRenderContext(c) = (ctx, inURL, isURLSet) for every byte c *)\nDefinition %s : list (N * (N * bool * bool)) := [", p.PkgPath, name)
			for c := int64(0); c < 256; c++ {
				r, ok := callFunc(p, fd, []constant.Value{constant.MakeInt64(c)}, 0)
				if !ok || len(r) != 3 {
					panic(fmt.Sprintf("%s decodeRenderContext(%d) is not evaluable", p.PkgPath, c))
				}
				if c > 0 {
					b.WriteString(";")
				}
				if c%4 == 0 {
					b.WriteString("\n ")
				}
				fmt.Fprintf(b, " (%d, (%d, %s, %s))", c, i64(r[0]), coqBool(constant.BoolVal(r[1])), coqBool(constant.BoolVal(r[2])))
			}
			b.WriteString("].\n\n")
		}
		dec(rt, "gen_rt_decodeRenderContext")
		dec(cc, "gen_cc_decodeRenderContext")
		// encodeRenderContext(ctx, inURL, isURLSet) for the 14 contexts
		{
			fd := mustFunc(cc, "encodeRenderContext")
			fmt.Fprintf(b, "(* compiler encodeRenderContext(ctx, inURL, isURLSet), ctx in 0..15 *)\nDefinition gen_encodeRenderContext : list (N * bool * bool * N) := [")
			first := true
			for ctx := int64(0); ctx < 16; ctx++ {
				for _, u := range []bool{false, true} {
					for _, s := range []bool{false, true} {
						r, ok := callFunc(cc, fd, []constant.Value{constant.MakeInt64(ctx), constant.MakeBool(u), constant.MakeBool(s)}, 0)
						if !ok || len(r) != 1 {
							panic(fmt.Sprintf("encodeRenderContext(%d,%v,%v) is not evaluable", ctx, u, s))
						}
						if !first {
							b.WriteString(";")
						}
						first = false
						fmt.Fprintf(b, "\n  (%d, %s, %s, %d)", ctx, coqBool(u), coqBool(s), i64(r[0]))
					}
				}
			}
			b.WriteString("].\n\n")
		}

		// ---- renderer.Show: the contexts its switch handles (the default panics)
		{
			fd := findMethod(rt, "renderer", "Show")
			if fd == nil {
				panic("method renderer.Show not found")
			}
			var sw *ast.SwitchStmt
			ast.Inspect(fd.Body, func(n ast.Node) bool {
				if s, ok := n.(*ast.SwitchStmt); ok && sw == nil {
					sw = s
				}
				return true
			})
			if sw == nil || sw.Tag == nil {
				panic("renderer.Show: switch on the context not found")
			}
			var known []int64
			callee := map[int64]string{}
			for ctx := int64(0); ctx < 16; ctx++ {
				e := newEnv(rt)
				e.byname[types.ExprString(sw.Tag)] = constant.MakeInt64(ctx)
				// record the callee of the selected clause
				k := e.stmt(sw)
				if k != stopNone {
					panic(fmt.Sprintf("renderer.Show: switch not evaluable for context %d (%s)", ctx, e.why))
				}
				pan := false
				for _, ef := range e.effects {
					if ef.fn == "panic" {
						pan = true
					}
				}
				if !pan {
					known = append(known, ctx)
				}
			}
			_ = callee
			fmt.Fprintf(b, "(* renderer.Show: contexts handled by the switch (any other value panics \"scriggo: unknown context\") *)\nDefinition gen_show_known_ctx : list N := %s.\n\n", coqNList(known))
		}

		// ---- OpText: inURL, isSet := c > 0, c == 2 and emitText's encoding of c
		{
			// emitText: evaluate the `var c int8; if inURL { c = 1; if isURLSet { c = 2 } }` part
			fd := findMethod(cc, "functionBuilder", "emitText")
			if fd == nil {
				panic("method functionBuilder.emitText not found")
			}
			// locate the declaration of c and the following if statement
			var stmts []ast.Stmt
			for i, s := range fd.Body.List {
				if ds, ok := s.(*ast.DeclStmt); ok {
					if gd, ok := ds.Decl.(*ast.GenDecl); ok && len(gd.Specs) == 1 {
						if vs, ok := gd.Specs[0].(*ast.ValueSpec); ok && len(vs.Names) == 1 && vs.Names[0].Name == "c" && i+1 < len(fd.Body.List) {
							stmts = fd.Body.List[i : i+2]
						}
					}
				}
			}
			if stmts == nil {
				panic("emitText: `var c int8` followed by its assignment not found")
			}
			fmt.Fprintf(b, "(* builder emitText: the C operand for (inURL, isURLSet) *)\nDefinition gen_emitText_c : list (bool * bool * Z) := [")
			first := true
			for _, u := range []bool{false, true} {
				for _, s := range []bool{false, true} {
					e := newEnv(cc)
					bindParams(e, fd, map[string]constant.Value{"inURL": constant.MakeBool(u), "isURLSet": constant.MakeBool(s)})
					if k := e.run(stmts); k != stopNone {
						panic("emitText: operand c not evaluable: " + e.why)
					}
					v, ok := e.varNamed("c")
					if !ok {
						panic("emitText: c unknown")
					}
					if !first {
						b.WriteString("; ")
					}
					first = false
					fmt.Fprintf(b, "(%s, %s, (%d)%%Z)", coqBool(u), coqBool(s), i64(v))
				}
			}
			b.WriteString("].\n")
			// VM.run case OpText: `inURL, isSet := c > 0, c == 2`
			run := findMethod(rt, "VM", "run")
			if run == nil {
				panic("method VM.run not found")
			}
			var as *ast.AssignStmt
			ast.Inspect(run.Body, func(n ast.Node) bool {
				cl, ok := n.(*ast.CaseClause)
				if !ok || len(cl.List) != 1 || types.ExprString(cl.List[0]) != "OpText" {
					return true
				}
				for _, s := range cl.Body {
					if a, ok := s.(*ast.AssignStmt); ok && len(a.Lhs) == 2 && types.ExprString(a.Lhs[0]) == "inURL" {
						as = a
					}
				}
				return false
			})
			if as == nil {
				panic("VM.run: case OpText: `inURL, isSet := ...` not found")
			}
			fmt.Fprintf(b, "(* VM.run case OpText: (inURL, isSet) decoded from the C operand, for every int8 *)\nDefinition gen_OpText_flags : list (Z * (bool * bool)) := [")
			for c := int64(-128); c < 128; c++ {
				e := newEnv(rt)
				e.byname["c"] = constant.MakeInt64(c)
				u, s := e.eval(as.Rhs[0]), e.eval(as.Rhs[1])
				if u == nil || s == nil {
					panic("OpText flags not evaluable")
				}
				if c > -128 {
					b.WriteString(";")
				}
				if (c+128)%6 == 0 {
					b.WriteString("\n ")
				}
				fmt.Fprintf(b, " ((%d)%%Z, (%s, %s))", c, coqBool(constant.BoolVal(u)), coqBool(constant.BoolVal(s)))
			}
			b.WriteString("].\n\n")
		}

		// ---- pathEscape and queryEscape, byte by byte
		T, F := true, false
		type cls struct {
			kept bool
			rep  string
		}
		pathCls := func(q bool, c int64, look *bool, n1, n2 int64) cls {
			k, r := urlEscByte(rt, "pathEscape", map[string]constant.Value{"quoted": constant.MakeBool(q)}, c, look, n1, n2)
			return cls{k, r}
		}
		var lookBytes []int64
		for _, q := range []bool{true, false} {
			name := "gen_pathEscape_unquoted"
			if q {
				name = "gen_pathEscape_quoted"
			}
			fmt.Fprintf(b, "(* escapers.go pathEscape(quoted=%v): bytes written for byte c when it is not copied (look-ahead condition false) *)\nDefinition %s : list (N * list N) := [", q, name)
			first := true
			for c := int64(0); c < 256; c++ {
				no := pathCls(q, c, &F, 0, 0)
				yes := pathCls(q, c, &T, '0', '0')
				if no != yes {
					lookBytes = append(lookBytes, c)
					if no.kept || !yes.kept {
						panic(fmt.Sprintf("pathEscape: byte %d: unexpected look-ahead behaviour", c))
					}
				}
				if !no.kept {
					if !first {
						b.WriteString(";")
					}
					first = false
					fmt.Fprintf(b, "\n  (%d, %s)", c, coqBytes(no.rep))
				}
			}
			b.WriteString("].\n\n")
		}
		// bytes with a look-ahead rule (the same set for both values of quoted)
		set := map[int64]int{}
		for _, c := range lookBytes {
			set[c]++
		}
		var lb []int64
		for c := int64(0); c < 256; c++ {
			if set[c] == 2 {
				lb = append(lb, c)
			} else if set[c] != 0 {
				panic(fmt.Sprintf("pathEscape: byte %d has a look-ahead rule for one value of quoted only", c))
			}
		}
		fmt.Fprintf(b, "(* pathEscape: bytes kept when followed by two bytes of gen_pathEscape_look1 x gen_pathEscape_look2 inside the string *)\nDefinition gen_pathEscape_lookbytes : list N := %s.\n", coqNList(lb))
		{
			var h1, h2 []int64
			product := true
			keptAt := func(c, a, d int64) bool { return pathCls(true, c, &T, a, d).kept }
			for _, c := range lb {
				h1, h2 = nil, nil
				for a := int64(0); a < 256; a++ {
					if keptAt(c, a, '0') {
						h1 = append(h1, a)
					}
					if keptAt(c, '0', a) {
						h2 = append(h2, a)
					}
				}
				in := func(l []int64, x int64) bool {
					for _, y := range l {
						if x == y {
							return true
						}
					}
					return false
				}
				// every pair with one member taken from a representative set (all bytes x
				// {digit, letter of each case, first non hexadecimal letters, other}), both orders
				reps := []int64{'0', '9', 'a', 'f', 'g', 'A', 'F', 'G', '/', ':', '@', '`', 0, 255}
				for a := int64(0); a < 256; a++ {
					for _, d := range reps {
						for _, q := range []bool{true, false} {
							if pathCls(q, c, &T, a, d).kept != (in(h1, a) && in(h2, d)) || pathCls(q, c, &T, d, a).kept != (in(h1, d) && in(h2, a)) {
								product = false
							}
						}
					}
				}
			}
			fmt.Fprintf(b, "Definition gen_pathEscape_look1 : list N := %s.\nDefinition gen_pathEscape_look2 : list N := %s.\n", coqNList(h1), coqNList(h2))
			fmt.Fprintf(b, "(* evaluated for every pair of following bytes with one member in a representative set, both values of quoted: kept iff first in look1 and second in look2 *)\nDefinition gen_pathEscape_look_is_product : bool := %s.\n", coqBool(product))
			// the look-ahead distance: smallest len(s)-i for which the condition `i+K < len(s)` holds
			fd := mustFunc(rt, "pathEscape")
			var cond ast.Expr
			ast.Inspect(fd.Body, func(n ast.Node) bool {
				if be, ok := n.(*ast.BinaryExpr); ok && cond == nil {
					t := types.ExprString(be)
					if strings.Contains(t, "len(s)") && !strings.Contains(t, "&&") && !strings.Contains(t, "last") && strings.Contains(t, "i") && !strings.HasPrefix(t, "i < ") {
						cond = be
					}
				}
				return true
			})
			if cond == nil {
				panic("pathEscape: look-ahead bound not found")
			}
			need := int64(-1)
			for rem := int64(0); rem < 8; rem++ { // rem = len(s) - i, evaluated at i = 5
				e := newEnv(rt)
				e.byname["i"] = constant.MakeInt64(5)
				e.byname["len(s)"] = constant.MakeInt64(5 + rem)
				v := e.eval(cond)
				if v == nil {
					panic("pathEscape: look-ahead bound not evaluable: " + types.ExprString(cond))
				}
				if constant.BoolVal(v) {
					need = rem
					break
				}
			}
			fmt.Fprintf(b, "(* the look-ahead condition %s holds iff at least this many bytes remain from position i (included) *)\nDefinition gen_pathEscape_look_need : N := %d.\n\n", types.ExprString(cond), need)
		}
		// ---- the render fast path of the emitter (case *ast.Show): the condition of
		// `else if render, ok := expr.(*ast.Render); ok ...`, for every format of the
		// rendered file and every context
		{
			fd := findMethod(cc, "emitter", "emitNodes")
			if fd == nil {
				panic("method emitter.emitNodes not found")
			}
			var cond ast.Expr
			ast.Inspect(fd.Body, func(n ast.Node) bool {
				is, ok := n.(*ast.IfStmt)
				if !ok || is.Init == nil || cond != nil {
					return true
				}
				if as, ok := is.Init.(*ast.AssignStmt); ok && len(as.Rhs) == 1 {
					if ta, ok := as.Rhs[0].(*ast.TypeAssertExpr); ok && types.ExprString(ta.Type) == "*ast.Render" {
						cond = is.Cond
					}
				}
				return true
			})
			if cond == nil {
				panic("emitNodes: `else if render, ok := expr.(*ast.Render)` not found")
			}
			fmt.Fprintf(b, "(* emitter_statements.go, case *ast.Show: {{ render f }} takes the fast path (direct macro call) for (format of f, context) *)\nDefinition gen_render_fastpath : list (N * N * bool) := [")
			first := true
			for from := int64(0); from < 6; from++ {
				for ctx := int64(0); ctx < 14; ctx++ {
					e := newEnv(cc)
					e.byname["ok"] = constant.MakeBool(true)
					e.byname["ctx"] = constant.MakeInt64(ctx)
					e.byname["render.Tree.Format"] = constant.MakeInt64(from)
					v := e.eval(cond)
					if v == nil {
						panic("render fast path condition not evaluable: " + types.ExprString(cond))
					}
					if !first {
						b.WriteString(";")
					}
					first = false
					fmt.Fprintf(b, " (%d, %d, %s)", from, ctx, coqBool(constant.BoolVal(v)))
				}
			}
			b.WriteString("].\n")
			// canOptimizeShowMacro: `if ctx > ast.ContextMarkdown { return false }` ... `return from == to || ...` with to = ast.Format(ctx)
			cf := findMethod(cc, "emitter", "canOptimizeShowMacro")
			if cf == nil {
				panic("method emitter.canOptimizeShowMacro not found")
			}
			var firstIf *ast.IfStmt
			var lastRet *ast.ReturnStmt
			var toInit ast.Expr
			for _, st := range cf.Body.List {
				switch st := st.(type) {
				case *ast.IfStmt:
					if firstIf == nil {
						firstIf = st
					}
				case *ast.ReturnStmt:
					lastRet = st
				case *ast.AssignStmt:
					if len(st.Lhs) == 1 && types.ExprString(st.Lhs[0]) == "to" {
						toInit = st.Rhs[0]
					}
				}
			}
			if firstIf == nil || lastRet == nil || len(lastRet.Results) != 1 || toInit == nil {
				panic("canOptimizeShowMacro: context guard, `to := ...` or final return not found")
			}
			fmt.Fprintf(b, "(* canOptimizeShowMacro for a macro declaration: (result format of the macro, context) *)\nDefinition gen_macro_fastpath : list (N * N * bool) := [")
			first = true
			for from := int64(0); from < 6; from++ {
				for ctx := int64(0); ctx < 14; ctx++ {
					e := newEnv(cc)
					e.byname["ctx"] = constant.MakeInt64(ctx)
					res := false
					k := e.stmt(firstIf)
					switch k {
					case stopReturn:
						res = constant.BoolVal(e.ret[0])
					case stopNone:
						to := e.eval(toInit)
						if to == nil {
							panic("canOptimizeShowMacro: to not evaluable")
						}
						e.byname["to"] = to
						e.byname["from"] = constant.MakeInt64(from)
						v := e.eval(lastRet.Results[0])
						if v == nil {
							panic("canOptimizeShowMacro: result not evaluable")
						}
						res = constant.BoolVal(v)
					default:
						panic("canOptimizeShowMacro: context guard not evaluable: " + e.why)
					}
					if !first {
						b.WriteString(";")
					}
					first = false
					fmt.Fprintf(b, " (%d, %d, %s)", from, ctx, coqBool(res))
				}
			}
			b.WriteString("].\n\n")
		}

		// ---- VM.run: the renderer switch of OpCallMacro and of the macro case of
		// OpCallIndirect, and what OpReturn panics with when the converter fails
		{
			run := findMethod(rt, "VM", "run")
			clause := func(op string) *ast.CaseClause {
				var cl *ast.CaseClause
				ast.Inspect(run.Body, func(n ast.Node) bool {
					c, ok := n.(*ast.CaseClause)
					if ok && cl == nil && len(c.List) >= 1 && types.ExprString(c.List[0]) == op {
						cl = c
						return false
					}
					return true
				})
				if cl == nil {
					panic("VM.run: case " + op + " not found")
				}
				return cl
			}
			// the if statement that starts with `b == ReturnString`
			findSwitch := func(cl *ast.CaseClause) *ast.IfStmt {
				var is *ast.IfStmt
				ast.Inspect(cl, func(n ast.Node) bool {
					if i, ok := n.(*ast.IfStmt); ok && is == nil && strings.Contains(types.ExprString(i.Cond), "ReturnString") {
						is = i
						return false
					}
					return true
				})
				if is == nil {
					panic("renderer switch (b == ReturnString ...) not found")
				}
				return is
			}
			// walk the evaluated if-chain and classify the statement reached
			var classify func(e *env, st ast.Stmt) int
			classify = func(e *env, st ast.Stmt) int {
				switch st := st.(type) {
				case *ast.BlockStmt:
					for _, x := range st.List {
						if k := classify(e, x); k >= 0 {
							return k
						}
					}
					return -1
				case *ast.IfStmt:
					c := e.eval(st.Cond)
					if c == nil {
						panic("renderer switch: condition not evaluable: " + types.ExprString(st.Cond))
					}
					if constant.BoolVal(c) {
						return classify(e, st.Body)
					}
					if st.Else != nil {
						return classify(e, st.Else)
					}
					return -1
				case *ast.AssignStmt:
					if len(st.Lhs) == 1 && types.ExprString(st.Lhs[0]) == "vm.renderer" {
						r := types.ExprString(st.Rhs[0])
						switch {
						case strings.Contains(r, "strings.Builder"):
							return 1
						case strings.Contains(r, "bytes.Buffer"):
							return 2
						case strings.Contains(r, "vm.renderer.out"):
							return 3
						}
						panic("renderer switch: unknown renderer " + r)
					}
					return -1
				case *ast.ExprStmt:
					return -1
				}
				return -1
			}
			kinds := func(is *ast.IfStmt) string {
				var sb strings.Builder
				first := true
				for bb := int64(-1); bb < 16; bb++ {
					for f := int64(0); f < 6; f++ {
						e := newEnv(rt)
						e.byname["b"] = constant.MakeInt64(bb)
						e.byname["fn.Format"] = constant.MakeInt64(f)
						e.byname["vm.env.conv == nil"] = constant.MakeBool(false)
						k := classify(e, is)
						if k < 0 {
							k = 0
						}
						if !first {
							sb.WriteString(";")
						}
						first = false
						fmt.Fprintf(&sb, " ((%d)%%Z, %d, %d)", bb, f, k)
					}
				}
				return sb.String()
			}
			k1 := kinds(findSwitch(clause("OpCallMacro")))
			k2 := kinds(findSwitch(clause("OpCallIndirect")))
			fmt.Fprintf(b, "(* run.go OpCallMacro: renderer of the callee for (B operand, Format of the callee): 0 = the caller's renderer, 1 = new renderer on a strings.Builder, 2 = new renderer on a bytes.Buffer (converted at return), 3 = new renderer on the caller's writer *)\nDefinition gen_callmacro_switch : list (Z * N * N) := [%s].\n", k1)
			fmt.Fprintf(b, "(* the macro case of OpCallIndirect makes the same choice *)\nDefinition gen_callindirect_switch_same : bool := %s.\n", coqBool(k1 == k2))
			// without a converter the Markdown case panics with a fatalError
			{
				is := findSwitch(clause("OpCallMacro"))
				e := newEnv(rt)
				e.byname["b"] = constant.MakeInt64(constInt(ap, "FormatHTML"))
				e.byname["fn.Format"] = constant.MakeInt64(constInt(ap, "FormatMarkdown"))
				e.byname["vm.env.conv == nil"] = constant.MakeBool(true)
				fatal := false
				var walk func(st ast.Stmt) bool
				walk = func(st ast.Stmt) bool {
					switch st := st.(type) {
					case *ast.BlockStmt:
						for _, x := range st.List {
							if walk(x) {
								return true
							}
						}
					case *ast.IfStmt:
						c := e.eval(st.Cond)
						if c == nil {
							panic("renderer switch: condition not evaluable")
						}
						if constant.BoolVal(c) {
							return walk(st.Body)
						} else if st.Else != nil {
							return walk(st.Else)
						}
					case *ast.ExprStmt:
						if ce, ok := st.X.(*ast.CallExpr); ok && types.ExprString(ce.Fun) == "panic" {
							fatal = strings.Contains(types.ExprString(ce.Args[0]), "fatalError")
							return true
						}
					case *ast.AssignStmt:
						return len(st.Lhs) == 1 && types.ExprString(st.Lhs[0]) == "vm.renderer"
					}
					return false
				}
				walk(is)
				fmt.Fprintf(b, "(* OpCallMacro, Markdown macro in HTML without a converter: panics with a fatalError *)\nDefinition gen_noconv_is_fatal : bool := %s.\n", coqBool(fatal))
			}
			// OpReturn: the panic after `err := vm.env.conv(...)`
			{
				cl := clause("OpReturn")
				kind := ""
				ast.Inspect(cl, func(n ast.Node) bool {
					is, ok := n.(*ast.IfStmt)
					if !ok || types.ExprString(is.Cond) != "err != nil" {
						return true
					}
					for _, st := range is.Body.List {
						if es, ok := st.(*ast.ExprStmt); ok {
							if ce, ok := es.X.(*ast.CallExpr); ok && types.ExprString(ce.Fun) == "panic" && len(ce.Args) == 1 {
								t := rt.TypesInfo.TypeOf(ce.Args[0])
								kind = t.String()
							}
						}
					}
					return true
				})
				if kind == "" {
					panic("OpReturn: panic after the converter error not found")
				}
				fatal := strings.Contains(kind, "fatalError")
				if !fatal && !strings.Contains(kind, "outError") {
					panic("OpReturn: the converter error is raised as " + kind)
				}
				fmt.Fprintf(b, "(* OpReturn: the error of the Markdown converter is raised as %s *)\nDefinition gen_conv_error_is_fatal : bool := %s.\n\n", kind, coqBool(fatal))
			}
		}

		// ---- convertPanic: for each case clause of its `switch op`, the opcodes and the
		// string literals tested inside (message texts), plus the cases of the leading type switch
		{
			fd := findMethod(rt, "VM", "convertPanic")
			if fd == nil {
				panic("method VM.convertPanic not found")
			}
			var sw *ast.SwitchStmt
			var early []string
			for _, st := range fd.Body.List {
				switch st := st.(type) {
				case *ast.TypeSwitchStmt:
					for _, cl := range st.Body.List {
						for _, t := range cl.(*ast.CaseClause).List {
							early = append(early, types.ExprString(t))
						}
					}
				case *ast.SwitchStmt:
					if sw == nil {
						sw = st
					}
				}
			}
			if sw == nil {
				panic("convertPanic: switch on the operation not found")
			}
			opval := func(x ast.Expr) int64 {
				tv, ok := rt.TypesInfo.Types[x]
				if !ok || tv.Value == nil {
					panic("convertPanic: case " + types.ExprString(x) + " is not a constant")
				}
				return i64(tv.Value)
			}
			fmt.Fprintf(b, "(* errors.go convertPanic: the payload types handled before the switch on the operation *)\nDefinition gen_convertPanic_early : list (list N) := [")
			for i, t := range early {
				if i > 0 {
					b.WriteString("; ")
				}
				b.WriteString(coqBytes(t))
			}
			b.WriteString("].\n")
			fmt.Fprintf(b, "(* errors.go convertPanic: per case clause of `switch op`, the operation codes and the string literals tested in its body *)\nDefinition gen_convertPanic_cases : list (list Z * list (list N)) := [")
			for i, cl := range sw.Body.List {
				cc := cl.(*ast.CaseClause)
				var ops []string
				for _, x := range cc.List {
					ops = append(ops, fmt.Sprintf("(%d)%%Z", opval(x)))
				}
				var lits []string
				for _, st := range cc.Body {
					ast.Inspect(st, func(n ast.Node) bool {
						if bl, ok := n.(*ast.BasicLit); ok {
							if tv, ok := rt.TypesInfo.Types[bl]; ok && tv.Value != nil && tv.Value.Kind() == constant.String {
								lits = append(lits, coqBytes(constant.StringVal(tv.Value)))
							}
						}
						return true
					})
				}
				if i > 0 {
					b.WriteString(";")
				}
				fmt.Fprintf(b, "\n  ([%s], [%s])", strings.Join(ops, "; "), strings.Join(lits, "; "))
			}
			b.WriteString("].\n")
			// the same literals with how they are tested: the dynamic type the payload was
			// asserted to (0 = runtime.Error, 1 = string) and prefix (true) or equality (false);
			// literals that are not tested (result messages) are left out
			fmt.Fprintf(b, "(* errors.go convertPanic: (operation codes, payload type 0 = runtime.Error 1 = string, prefix test, literal) *)\nDefinition gen_convertPanic_rules : list (list Z * N * bool * list N) := [")
			firstRule := true
			for _, cl := range sw.Body.List {
				cc := cl.(*ast.CaseClause)
				var ops []string
				for _, x := range cc.List {
					ops = append(ops, fmt.Sprintf("(%d)%%Z", opval(x)))
				}
				var stack []ast.Node
				kindOf := func() int {
					// innermost enclosing assertion of msg to a type
					for i := len(stack) - 1; i >= 0; i-- {
						switch n := stack[i].(type) {
						case *ast.CaseClause:
							if i > 0 {
								if body, ok := stack[i-1].(*ast.BlockStmt); ok && i > 1 {
									if _, ok := stack[i-2].(*ast.TypeSwitchStmt); ok && len(n.List) == 1 {
										_ = body
										switch types.ExprString(n.List[0]) {
										case "runtime.Error":
											return 0
										case "string":
											return 1
										}
										return -1
									}
								}
							}
						case *ast.IfStmt:
							if as, ok := n.Init.(*ast.AssignStmt); ok && len(as.Rhs) == 1 {
								if ta, ok := as.Rhs[0].(*ast.TypeAssertExpr); ok && types.ExprString(ta.X) == "msg" {
									switch types.ExprString(ta.Type) {
									case "runtime.Error":
										return 0
									case "string":
										return 1
									}
									return -1
								}
							}
						}
					}
					return -1
				}
				var visit func(n ast.Node) bool
				visit = func(n ast.Node) bool {
					if n == nil {
						stack = stack[:len(stack)-1]
						return true
					}
					stack = append(stack, n)
					bl, ok := n.(*ast.BasicLit)
					if !ok {
						return true
					}
					tv, ok := rt.TypesInfo.Types[bl]
					if !ok || tv.Value == nil || tv.Value.Kind() != constant.String {
						return true
					}
					mode := -1 // 1 prefix, 0 equality
					if len(stack) >= 2 {
						switch par := stack[len(stack)-2].(type) {
						case *ast.CallExpr:
							if types.ExprString(par.Fun) == "strings.HasPrefix" && len(par.Args) == 2 && par.Args[1] == ast.Expr(bl) {
								mode = 1
							}
						case *ast.BinaryExpr:
							if par.Op.String() == "==" {
								mode = 0
							}
						case *ast.CaseClause:
							for _, x := range par.List {
								if x == ast.Expr(bl) {
									mode = 0
								}
							}
						}
					}
					if mode >= 0 {
						k := kindOf()
						if k < 0 {
							panic("convertPanic: literal " + bl.Value + " is tested on a payload of unknown type")
						}
						if !firstRule {
							b.WriteString(";")
						}
						firstRule = false
						fmt.Fprintf(b, "\n  ([%s], %d, %s, %s)", strings.Join(ops, "; "), k, coqBool(mode == 1), coqBytes(constant.StringVal(tv.Value)))
					}
					return true
				}
				for _, st := range cc.Body {
					ast.Inspect(st, visit)
				}
			}
			b.WriteString("].\n")
			// the opcodes the model names
			for _, n := range []string{"OpAdd", "OpAddr", "OpIndex", "OpIndexRef", "OpSetSlice", "OpAppendSlice", "OpCallIndirect", "OpCallNative", "OpClose", "OpConvert",
				"OpDelete", "OpMapIndex", "OpMapIndexAny", "OpDivInt", "OpDiv", "OpRemInt", "OpRem", "OpGo", "OpIf", "OpIndexString", "OpMakeChan", "OpMakeSlice",
				"OpPanic", "OpSend", "OpSetMap", "OpSlice", "OpStringSlice", "OpReturn", "OpCallMacro", "OpShow", "OpText"} {
				fmt.Fprintf(b, "Definition gen_%s : Z := (%d)%%Z.\n", n, constInt(rt, n))
			}
			// VM.Run: what is done with each kind of error
			run := findMethod(rt, "VM", "Run")
			if run == nil {
				panic("method VM.Run not found")
			}
			var kinds []string
			ast.Inspect(run.Body, func(n ast.Node) bool {
				if ts, ok := n.(*ast.TypeSwitchStmt); ok {
					for _, cl := range ts.Body.List {
						cc := cl.(*ast.CaseClause)
						act := "return"
						for _, st := range cc.Body {
							if es, ok := st.(*ast.ExprStmt); ok {
								if ce, ok := es.X.(*ast.CallExpr); ok && types.ExprString(ce.Fun) == "panic" {
									act = "panic " + types.ExprString(ce.Args[0])
								}
							}
							if as, ok := st.(*ast.AssignStmt); ok && len(as.Lhs) == 1 && types.ExprString(as.Lhs[0]) == "err" {
								act = "return " + types.ExprString(as.Rhs[0])
							}
							if is, ok := st.(*ast.IfStmt); ok {
								for _, s2 := range is.Body.List {
									if as, ok := s2.(*ast.AssignStmt); ok && types.ExprString(as.Lhs[0]) == "err" {
										act = "return " + types.ExprString(as.Rhs[0]) + " if " + types.ExprString(is.Cond)
									}
								}
							}
						}
						for _, t := range cc.List {
							kinds = append(kinds, types.ExprString(t)+" => "+act)
						}
					}
				}
				return true
			})
			fmt.Fprintf(b, "(* vm.go VM.Run: treatment of the error returned by runFunc, by dynamic type *)\nDefinition gen_Run_cases : list (list N) := [")
			for i, k := range kinds {
				if i > 0 {
					b.WriteString("; ")
				}
				b.WriteString(coqBytes(k))
			}
			b.WriteString("].\n\n")
		}

		// ---- composition of files (C16): the memo of checkRender and the URL flags of the emitter around an import
		{
			// compilation.renderImportMacro memoises the lowering of `render "path"` (a dummy import and a dummy
			// macro): it must be keyed by the rendered file (*ast.Tree), not by the path as it is written
			obj := cc.Types.Scope().Lookup("compilation")
			if obj == nil {
				panic("type compilation not found")
			}
			st, ok := obj.Type().Underlying().(*types.Struct)
			if !ok {
				panic("compilation is not a struct")
			}
			keyed := ""
			for i := 0; i < st.NumFields(); i++ {
				if f := st.Field(i); f.Name() == "renderImportMacro" {
					m, ok := f.Type().Underlying().(*types.Map)
					if !ok {
						panic("compilation.renderImportMacro is not a map")
					}
					keyed = types.TypeString(m.Key(), func(p *types.Package) string { return p.Name() })
				}
			}
			if keyed == "" {
				panic("field compilation.renderImportMacro not found")
			}
			// every index expression on the memo inside checkRender uses render.Tree (directly or through a local)
			cr := findMethod(cc, "typechecker", "checkRender")
			if cr == nil {
				panic("method typechecker.checkRender not found")
			}
			sites, byTree := 0, 0
			ast.Inspect(cr.Body, func(n ast.Node) bool {
				ix, ok := n.(*ast.IndexExpr)
				if !ok || !strings.HasSuffix(types.ExprString(ix.X), "renderImportMacro") {
					return true
				}
				sites++
				k := types.ExprString(ix.Index)
				if k == "render.Tree" {
					byTree++
				} else if id, ok := ix.Index.(*ast.Ident); ok {
					// a local defined as `tree := render.Tree`
					ast.Inspect(cr.Body, func(m ast.Node) bool {
						if as, ok := m.(*ast.AssignStmt); ok && len(as.Lhs) == 1 && len(as.Rhs) == 1 {
							if l, ok := as.Lhs[0].(*ast.Ident); ok && cc.TypesInfo.ObjectOf(l) == cc.TypesInfo.ObjectOf(id) && types.ExprString(as.Rhs[0]) == "render.Tree" {
								byTree++
								return false
							}
						}
						return true
					})
				}
				return true
			})
			if sites == 0 {
				panic("checkRender does not index compilation.renderImportMacro")
			}
			fmt.Fprintf(b, "(* compilation.go / checker_expressions.go: the memo of the lowering of a render expression is keyed by the\n   rendered file: key type %s, %d of %d index expressions of checkRender use render.Tree *)\nDefinition gen_render_memo_by_tree : bool := %s.\n\n",
				keyed, byTree, sites, coqBool(keyed == "*ast.Tree" && byTree == sites))

			// emitNodes, case *ast.Import (template): the functions of an imported or rendered file are emitted
			// with the URL flags of the emitter cleared (they belong to the attribute being emitted, not to the file)
			en := findMethod(cc, "emitter", "emitNodes")
			if en == nil {
				panic("method emitter.emitNodes not found")
			}
			found, cleared := false, false
			ast.Inspect(en.Body, func(n ast.Node) bool {
				cl, ok := n.(*ast.CaseClause)
				if !ok || len(cl.List) != 1 || types.ExprString(cl.List[0]) != "*ast.Import" {
					return true
				}
				// the statements of the block that contains the call em.emitImport(node, true)
				ast.Inspect(cl, func(m ast.Node) bool {
					bl, ok := m.(*ast.BlockStmt)
					if !ok {
						return true
					}
					for i, stmt := range bl.List {
						isCall := false
						ast.Inspect(stmt, func(x ast.Node) bool {
							if ce, ok := x.(*ast.CallExpr); ok && types.ExprString(ce.Fun) == "em.emitImport" {
								isCall = true
							}
							return true
						})
						if _, nested := stmt.(*ast.IfStmt); isCall && !nested {
							found = true
							// an assignment of false to em.inURL and em.isURLSet among the statements before the call
							u, su := false, false
							for _, prev := range bl.List[:i] {
								if as, ok := prev.(*ast.AssignStmt); ok && len(as.Lhs) == len(as.Rhs) {
									for j, l := range as.Lhs {
										if types.ExprString(as.Rhs[j]) == "false" {
											switch types.ExprString(l) {
											case "em.inURL":
												u = true
											case "em.isURLSet":
												su = true
											}
										}
									}
								}
							}
							cleared = u && su
						}
					}
					return true
				})
				return false
			})
			if !found {
				panic("emitNodes: the call em.emitImport(node, true) of case *ast.Import not found")
			}
			fmt.Fprintf(b, "(* emitter_statements.go emitNodes, case *ast.Import: em.inURL and em.isURLSet are set to false before em.emitImport *)\nDefinition gen_import_clears_url_flags : bool := %s.\n\n", coqBool(cleared))
		}

		fmt.Fprintf(b, "(* escapers.go queryEscape: bytes written for byte c when it is not copied *)\nDefinition gen_queryEscape : list (N * list N) := [")
		first := true
		for c := int64(0); c < 256; c++ {
			k, r := urlEscByte(rt, "queryEscape", nil, c, nil, 0, 0)
			if !k {
				if !first {
					b.WriteString(";")
				}
				first = false
				fmt.Fprintf(b, "\n  (%d, %s)", c, coqBytes(r))
			}
		}
		b.WriteString("].\n")
		return nil
	})
}
