package main

// Facts_show: decision trees of the static show check (checkShow, checkShowJS,
// checkShowJSON) and of the run time show functions (renderer.Show, showInURL,
// toString, showIn*), obtained by executing the implementation's code with the
// partial evaluator of eval.go for every concrete reflect.Kind and context and
// by splitting on every condition that depends on the type itself (interface
// satisfaction, identity with a well known type, the result of a recursive
// check). Loops are never executed: a loop of the checker becomes the atom
// ALoop (its body is translated separately), the recursive composites of
// showInJS/showInJSON are hand modelled (only the routing kind -> clause is
// generated).

import (
	"bytes"
	"fmt"
	"go/ast"
	"go/constant"
	"go/token"
	"go/types"
	"sort"
	"strings"

	"golang.org/x/tools/go/packages"
)

var (
	nilMarker = constant.MakeString("<nil>")
	errMarker = constant.MakeString("<err>")
)

var kindNames = []string{"Invalid", "Bool", "Int", "Int8", "Int16", "Int32", "Int64", "Uint", "Uint8", "Uint16", "Uint32", "Uint64",
	"Uintptr", "Float32", "Float64", "Complex64", "Complex128", "Array", "Chan", "Func", "Interface", "Map", "Pointer", "Slice", "String",
	"Struct", "UnsafePointer"}

// ---- trees ----

type tree struct {
	leaf    string
	atom    string
	yes, no *tree
}

func (t *tree) String() string {
	if t.atom == "" {
		return "Leaf " + paren(t.leaf)
	}
	return "Node (" + t.atom + ") (" + t.yes.String() + ") (" + t.no.String() + ")"
}

func paren(s string) string {
	if strings.Contains(s, " ") {
		return "(" + s + ")"
	}
	return s
}

// sym is the state of one symbolic run.
type sym struct {
	assign   map[string]bool
	blocked  string
	kind     int64 // reflect.Kind of the examined type / of the shown value
	keyKind  int64 // reflect.Kind of t.Key(), -1 when it must not be consulted
	panicked string
	gen      *showGen
}

func (sc *sym) ask(atom string) (bool, bool) {
	if v, ok := sc.assign[atom]; ok {
		return v, true
	}
	if sc.blocked == "" {
		sc.blocked = atom
	}
	return false, false
}

type showGen struct {
	w      *world
	rt     *packages.Package // internal/runtime
	cp     *packages.Package // internal/compiler
	others map[string]int64  // anonymous atoms
	kinds  map[string]int64
}

func (g *showGen) other(text string) string {
	n, ok := g.others[text]
	if !ok {
		n = int64(len(g.others))
		g.others[text] = n
	}
	return fmt.Sprintf("AOther %d", n)
}

// explore runs f under every assignment of the atoms it consults.
func (g *showGen) explore(kind, keyKind int64, f func(sc *sym) string) *tree {
	var rec func(assign map[string]bool, depth int) *tree
	rec = func(assign map[string]bool, depth int) *tree {
		sc := &sym{assign: assign, kind: kind, keyKind: keyKind, gen: g}
		leaf := f(sc)
		if sc.blocked == "" {
			if sc.panicked != "" {
				leaf = "OPanic"
			}
			if leaf == "" {
				panic("symbolic run ended without an outcome")
			}
			return &tree{leaf: leaf}
		}
		if depth > 30 {
			panic("symbolic run: more than 30 nested atoms")
		}
		a1 := map[string]bool{}
		a2 := map[string]bool{}
		for k, v := range assign {
			a1[k], a2[k] = v, v
		}
		a1[sc.blocked], a2[sc.blocked] = true, false
		y, n := rec(a1, depth+1), rec(a2, depth+1)
		if y.String() == n.String() {
			return y
		}
		return &tree{atom: sc.blocked, yes: y, no: n}
	}
	return rec(map[string]bool{}, 0)
}

// ---- frames ----

const (
	modeStatic  = iota // checkShow, checkShowJS, checkShowJSON
	modeDynamic        // Show, showIn*, toString
)

type showFrame struct {
	sc       *sym
	g        *showGen
	p        *packages.Package
	fd       *ast.FuncDecl
	e        *env
	mode     int
	tparam   types.Object // the reflect.Type parameter (static)
	value    types.Object // the `any` parameter (dynamic)
	swvar    types.Object // symbol bound by the enclosing type switch
	isString bool         // the value was replaced by a Go string
	class    bool         // stop at the kind switch and report the selected clause
	out      string       // outcome decided by a hook
	depth    int
}

func (g *showGen) newFrame(sc *sym, p *packages.Package, fd *ast.FuncDecl, mode int, depth int) *showFrame {
	if depth > 6 {
		panic("show functions nested more than 6 deep at " + fd.Name.Name)
	}
	fr := &showFrame{sc: sc, g: g, p: p, fd: fd, mode: mode, depth: depth}
	fr.e = newEnv(p)
	fr.e.pre = fr.pre
	fr.e.hook = fr.hook
	for _, f := range fd.Type.Params.List {
		for _, n := range f.Names {
			o := p.TypesInfo.Defs[n]
			if o == nil {
				continue
			}
			switch t := o.Type().(type) {
			case *types.Named:
				if t.Obj().Pkg() != nil && t.Obj().Pkg().Path() == "reflect" && t.Obj().Name() == "Type" {
					fr.tparam = o
				}
			case *types.Interface:
				if t.Empty() {
					fr.value = o
				}
			case *types.Alias:
				if it, ok := t.Underlying().(*types.Interface); ok && it.Empty() {
					fr.value = o
				}
			}
		}
	}
	return fr
}

func (fr *showFrame) bind(name string, v constant.Value) {
	for _, f := range fr.fd.Type.Params.List {
		for _, n := range f.Names {
			if n.Name == name {
				fr.e.vars[fr.p.TypesInfo.Defs[n]] = v
				return
			}
		}
	}
	panic(fmt.Sprintf("%s: parameter %s not found", fr.fd.Name.Name, name))
}

// finish classifies how a run of statements ended.
func (fr *showFrame) finish(k stopKind) string {
	if fr.sc.blocked != "" || fr.sc.panicked != "" {
		return ""
	}
	if fr.out != "" {
		return fr.out
	}
	switch k {
	case stopNone:
		return "END"
	case stopContinue:
		return "OContinue"
	}
	panic(fmt.Sprintf("%s: not translatable: %s (stop %d)", fr.fd.Name.Name, fr.e.why, k))
}

func (fr *showFrame) runBody() string {
	out := fr.finish(fr.e.run(fr.fd.Body.List))
	if out == "END" {
		panic(fr.fd.Name.Name + ": reached the end of the function without a return")
	}
	return out
}

func calleeOf(c *ast.CallExpr) (name string, recv ast.Expr) {
	switch f := c.Fun.(type) {
	case *ast.Ident:
		return f.Name, nil
	case *ast.SelectorExpr:
		return f.Sel.Name, f.X
	case *ast.IndexExpr:
		if id, ok := f.X.(*ast.Ident); ok {
			return id.Name, nil
		}
		if se, ok := f.X.(*ast.SelectorExpr); ok {
			return se.Sel.Name, se.X
		}
	}
	return "", nil
}

func isNamed(t types.Type, pkg, name string) bool {
	t = types.Unalias(t)
	n, ok := t.(*types.Named)
	if !ok {
		return false
	}
	if n.Obj().Pkg() == nil {
		return pkg == "" && n.Obj().Name() == name
	}
	return n.Obj().Pkg().Path() == pkg && n.Obj().Name() == name
}

func (fr *showFrame) typeOf(x ast.Expr) types.Type { return fr.p.TypesInfo.TypeOf(x) }

func (fr *showFrame) isReflectValue(x ast.Expr) bool {
	t := fr.typeOf(x)
	return t != nil && isNamed(t, "reflect", "Value")
}

func (fr *showFrame) isReflectType(x ast.Expr) bool {
	t := fr.typeOf(x)
	return t != nil && isNamed(t, "reflect", "Type")
}

var ifaceIndex = map[string]string{
	"fmt.Stringer": "i_Stringer", "native.EnvStringer": "i_EnvStringer", ".error": "i_Error",
	"native.HTMLStringer": "i_HTMLStringer", "native.HTMLEnvStringer": "i_HTMLEnvStringer",
	"native.CSSStringer": "i_CSSStringer", "native.CSSEnvStringer": "i_CSSEnvStringer",
	"native.JSStringer": "i_JSStringer", "native.JSEnvStringer": "i_JSEnvStringer",
	"native.JSONStringer": "i_JSONStringer", "native.JSONEnvStringer": "i_JSONEnvStringer",
	"native.MarkdownStringer": "i_MarkdownStringer", "native.MarkdownEnvStringer": "i_MarkdownEnvStringer",
}

var concreteIndex = map[string]string{
	"native.HTML": "w_HTML", "native.CSS": "w_CSS", "native.JS": "w_JS", "native.JSON": "w_JSON", "native.Markdown": "w_Markdown",
	"time.Time": "w_Time",
}

// classifyType maps a Go type met in the show code to (isInterface, name of
// the Coq constant).
func classifyType(t types.Type) (bool, string) {
	t = types.Unalias(t)
	switch t := t.(type) {
	case *types.Named:
		key := t.Obj().Name()
		if pk := t.Obj().Pkg(); pk != nil {
			path := pk.Path()
			if i := strings.LastIndex(path, "/"); i >= 0 {
				path = path[i+1:]
			}
			key = path + "." + key
		} else {
			key = "." + key
		}
		if _, isIface := t.Underlying().(*types.Interface); isIface {
			if c, ok := ifaceIndex[key]; ok {
				return true, c
			}
		} else if c, ok := concreteIndex[key]; ok {
			return false, c
		}
		panic("show code refers to the type " + key + " which has no descriptor flag")
	case *types.Slice:
		if b, ok := t.Elem().(*types.Basic); ok && b.Kind() == types.Uint8 {
			return false, "w_ByteSlice"
		}
	case *types.Interface:
		if t.Empty() {
			return false, "w_EmptyInterface"
		}
	}
	panic("show code refers to the type " + t.String() + " which has no descriptor flag")
}

// typeVar classifies a package level variable holding a reflect.Type
// (stringerType = reflect.TypeFor[fmt.Stringer]()).
func (fr *showFrame) typeVar(x ast.Expr) (bool, string, bool) {
	id, ok := x.(*ast.Ident)
	if !ok {
		return false, "", false
	}
	o, ok := fr.e.obj(id).(*types.Var)
	if !ok || o.Parent() != fr.p.Types.Scope() || !isNamed(o.Type(), "reflect", "Type") {
		return false, "", false
	}
	init := findVarInit(fr.p, id.Name)
	call, ok := init.(*ast.CallExpr)
	if !ok {
		panic("type variable " + id.Name + ": initialiser is not a call")
	}
	name, _ := calleeOf(call)
	if ix, ok := call.Fun.(*ast.IndexExpr); ok && name == "TypeFor" {
		isI, c := classifyType(fr.p.TypesInfo.TypeOf(ix.Index))
		return isI, c, true
	}
	panic("type variable " + id.Name + ": initialiser is not reflect.TypeFor[T]()")
}

// typePath translates an expression of type reflect.Type of the checker into
// a path relative to the parameter t.
func (fr *showFrame) typePath(x ast.Expr) string {
	switch x := x.(type) {
	case *ast.ParenExpr:
		return fr.typePath(x.X)
	case *ast.Ident:
		o := fr.e.obj(x)
		if o == fr.tparam && o != nil {
			return "PSelf"
		}
		if rhs := fr.localDef(o); rhs != nil {
			return fr.typePath(rhs)
		}
	case *ast.CallExpr:
		name, recv := calleeOf(x)
		if recv != nil && len(x.Args) == 0 && fr.typePath(recv) == "PSelf" {
			switch name {
			case "Elem":
				return "PElem"
			case "Key":
				return "PKey"
			}
		}
	case *ast.SelectorExpr:
		if x.Sel.Name == "Type" {
			if id, ok := x.X.(*ast.Ident); ok {
				if rhs, ok := fr.localDef(fr.e.obj(id)).(*ast.CallExpr); ok {
					if name, recv := calleeOf(rhs); name == "Field" && recv != nil && fr.typePath(recv) == "PSelf" {
						return "PField"
					}
				}
			}
		}
	}
	panic(fr.fd.Name.Name + ": type expression not translatable: " + types.ExprString(x))
}

// localDef returns the right hand side of the only `x := rhs` defining o.
func (fr *showFrame) localDef(o types.Object) ast.Expr {
	if o == nil {
		return nil
	}
	var rhs ast.Expr
	n := 0
	ast.Inspect(fr.fd.Body, func(nd ast.Node) bool {
		as, ok := nd.(*ast.AssignStmt)
		if !ok {
			return true
		}
		for i, l := range as.Lhs {
			if id, ok := l.(*ast.Ident); ok && fr.p.TypesInfo.Defs[id] == o && as.Tok == token.DEFINE && len(as.Lhs) == len(as.Rhs) {
				rhs = as.Rhs[i]
				n++
			} else if ok && fr.p.TypesInfo.Uses[id] == o {
				n += 2 // reassigned
			}
		}
		return true
	})
	if n == 1 {
		return rhs
	}
	return nil
}

func boolConst(v, ok bool) constant.Value {
	if !ok {
		return nil
	}
	return constant.MakeBool(v)
}

func (fr *showFrame) isValueExpr(x ast.Expr) bool {
	id, ok := x.(*ast.Ident)
	if !ok {
		return false
	}
	o := fr.e.obj(id)
	return o != nil && (o == fr.value || o == fr.swvar)
}

func (fr *showFrame) valueKind() constant.Value {
	if fr.isString {
		return constant.MakeInt64(fr.g.kinds["String"])
	}
	return constant.MakeInt64(fr.sc.kind)
}

func (fr *showFrame) isNilIdent(x ast.Expr) bool {
	id, ok := x.(*ast.Ident)
	if !ok || id.Name != "nil" {
		return false
	}
	_, isNil := fr.p.TypesInfo.Uses[id].(*types.Nil)
	return isNil
}

var dynamicInline = map[string]bool{"showInText": true, "showInHTML": true, "showInTag": true, "showInAttribute": true, "showInCSS": true,
	"showInCSSString": true, "showInJSString": true, "showInJSONString": true, "showInMarkdown": true, "showInMarkdownCodeBlock": true,
	"showInURL": true, "toString": true}

// pre gives the symbolic atoms their current value.
func (fr *showFrame) pre(x ast.Expr) constant.Value {
	sc := fr.sc
	if sc.blocked != "" || sc.panicked != "" {
		return nil
	}
	switch x := x.(type) {
	case *ast.Ident:
		if fr.isNilIdent(x) {
			return nilMarker
		}
	case *ast.CallExpr:
		name, recv := calleeOf(x)
		switch {
		case name == "Implements" && recv != nil && len(x.Args) == 1 && fr.isReflectType(recv):
			isI, c, ok := fr.typeVar(x.Args[0])
			if !ok || !isI {
				panic("Implements: argument is not a known interface type: " + types.ExprString(x))
			}
			return boolConst(sc.ask("AImpl " + fr.typePath(recv) + " " + c))
		case name == "Contains" && len(x.Args) == 2 && recv != nil && types.ExprString(recv) == "slices":
			if fr.typePath(x.Args[1]) != "PSelf" {
				panic("slices.Contains on something else than t: " + types.ExprString(x))
			}
			return boolConst(sc.ask("AVisited"))
		case name == "Kind" && recv != nil && len(x.Args) == 0 && fr.isReflectValue(recv):
			return fr.valueKind()
		case name == "Kind" && recv != nil && len(x.Args) == 0 && fr.isReflectType(recv):
			switch fr.typePath(recv) {
			case "PSelf":
				return constant.MakeInt64(sc.kind)
			case "PKey":
				if sc.keyKind < 0 {
					panic("the kind of the key is consulted for kind " + kindNames[sc.kind])
				}
				return constant.MakeInt64(sc.keyKind)
			}
			panic("Kind of " + types.ExprString(recv))
		case name == "IsValid" && recv != nil && fr.isReflectValue(recv):
			return constant.MakeBool(fr.isString || sc.kind != 0)
		case name == "Type" && recv != nil && len(x.Args) == 0 && fr.isReflectValue(recv):
			if !fr.isString && sc.kind == 0 {
				sc.panicked = "reflect: call of reflect.Value.Type on zero Value"
			}
			return nil
		case (name == "checkShowJS" || name == "checkShowJSON") && recv == nil && fr.mode == modeStatic:
			f := map[string]string{"checkShowJS": "FJS", "checkShowJSON": "FJSON"}[name]
			v, ok := sc.ask("ACheck " + f + " " + fr.typePath(x.Args[0]))
			if !ok {
				return nil
			}
			if v {
				return nilMarker
			}
			return errMarker
		case name == "Errorf" && recv != nil && types.ExprString(recv) == "fmt", name == "New" && recv != nil && types.ExprString(recv) == "errors":
			return errMarker
		case fr.mode == modeDynamic && (name == "showInJS" || name == "showInJSON") && !fr.class:
			return constant.MakeString("call:" + name)
		case fr.mode == modeDynamic && dynamicInline[name] && name != "toString":
			out := fr.inline(name, x)
			switch out {
			case "":
				return nil
			case "OOk":
				return nilMarker
			case "OErr":
				return errMarker
			}
			if strings.HasPrefix(out, "OCall ") {
				return constant.MakeString("call:" + map[string]string{"OCall FJS": "showInJS", "OCall FJSON": "showInJSON"}[out])
			}
			panic(name + ": unexpected outcome " + out)
		}
	case *ast.BinaryExpr:
		if x.Op != token.EQL && x.Op != token.NEQ {
			return nil
		}
		res := func(v, ok bool) constant.Value {
			if !ok {
				return nil
			}
			return constant.MakeBool(v == (x.Op == token.EQL))
		}
		for _, pair := range [][2]ast.Expr{{x.X, x.Y}, {x.Y, x.X}} {
			a, b := pair[0], pair[1]
			// T == wellKnownTypeVariable
			if isI, c, ok := fr.typeVar(b); ok {
				if isI {
					panic("comparison with an interface type variable: " + types.ExprString(x))
				}
				var p string
				if call, ok := a.(*ast.CallExpr); ok && fr.mode == modeDynamic {
					name, recv := calleeOf(call)
					if name != "Type" || recv == nil || !fr.isReflectValue(recv) {
						panic("not translatable: " + types.ExprString(x))
					}
					if !fr.isString && sc.kind == 0 {
						sc.panicked = "reflect: call of reflect.Value.Type on zero Value"
						return nil
					}
					p = "PSelf"
				} else {
					p = fr.typePath(a)
				}
				return res(sc.ask("AIs " + p + " " + c))
			}
			// field.PkgPath == ""
			if se, ok := a.(*ast.SelectorExpr); ok && se.Sel.Name == "PkgPath" {
				if v := fr.e.eval(b); v != nil && v.Kind() == constant.String && constant.StringVal(v) == "" {
					return res(sc.ask("AExported"))
				}
			}
			// env.conv != nil
			if se, ok := a.(*ast.SelectorExpr); ok && se.Sel.Name == "conv" && fr.isNilIdent(b) {
				v, ok := sc.ask("AConv")
				return res(!v, ok)
			}
		}
	}
	return nil
}

// inline runs another show function on the same value and returns its outcome.
func (fr *showFrame) inline(name string, call *ast.CallExpr) string {
	var fd *ast.FuncDecl
	if name == "showInURL" {
		fd = findMethod(fr.p, "renderer", name)
	} else {
		fd = findFunc(fr.p, name)
	}
	if fd == nil {
		panic("function " + name + " not found")
	}
	nf := fr.g.newFrame(fr.sc, fr.p, fd, modeDynamic, fr.depth+1)
	nf.isString = fr.isString
	// constant arguments (quoted, spaces, ctx) are passed on; the value must be the caller's value
	i := 0
	passed := false
	for _, f := range fd.Type.Params.List {
		for _, n := range f.Names {
			if i < len(call.Args) {
				a := call.Args[i]
				o := fr.p.TypesInfo.Defs[n]
				if o == nf.value {
					if !fr.isValueExpr(a) {
						panic(fmt.Sprintf("%s calls %s on %s, which is not the shown value", fr.fd.Name.Name, name, types.ExprString(a)))
					}
					passed = true
				} else if v := fr.e.eval(a); v != nil && v != nilMarker {
					nf.e.vars[o] = v
				}
			}
			i++
		}
	}
	if !passed {
		panic(fr.fd.Name.Name + " calls " + name + " without the shown value")
	}
	return nf.runBody()
}

// selectClause finds the clause of a kind switch selected for the constant tag.
func (fr *showFrame) selectClause(s *ast.SwitchStmt, tag constant.Value) (sel int, minKind int64) {
	sel, def := -1, -1
	for i, c := range s.Body.List {
		cc := c.(*ast.CaseClause)
		if cc.List == nil {
			def = i
			continue
		}
		for _, x := range cc.List {
			v := fr.e.eval(x)
			if v == nil {
				panic("kind switch: case not constant: " + types.ExprString(x))
			}
			if constant.Compare(tag, token.EQL, v) && sel < 0 {
				sel = i
			}
		}
	}
	if sel < 0 {
		sel = def
	}
	if sel < 0 || s.Body.List[sel].(*ast.CaseClause).List == nil {
		return sel, 999
	}
	minKind = 1 << 30
	for _, x := range s.Body.List[sel].(*ast.CaseClause).List {
		if k := i64(fr.e.eval(x)); k < minKind {
			minKind = k
		}
	}
	return sel, minKind
}

func containsReturn(n ast.Node) bool {
	found := false
	ast.Inspect(n, func(nd ast.Node) bool {
		switch nd.(type) {
		case *ast.ReturnStmt:
			found = true
		case *ast.FuncLit:
			return false
		}
		return true
	})
	return found
}

func (fr *showFrame) delete(x ast.Expr) {
	if id, ok := x.(*ast.Ident); ok {
		if o := fr.e.obj(id); o != nil {
			delete(fr.e.vars, o)
		}
	}
}

func (fr *showFrame) set(x ast.Expr, v constant.Value) {
	if id, ok := x.(*ast.Ident); ok && id.Name != "_" {
		if o := fr.e.obj(id); o != nil {
			fr.e.vars[o] = v
		}
	}
}

func (fr *showFrame) stop() (stopKind, bool) { return stopUnknown, true }

// typeCaseAtom is the atom of one type of a type switch case / type assertion.
func (fr *showFrame) typeCaseAtom(x ast.Expr) string {
	if fr.isNilIdent(x) {
		return "ANilValue"
	}
	isI, c := classifyType(fr.typeOf(x))
	if isI {
		return "AImpl PSelf " + c
	}
	return "AIs PSelf " + c
}

func (fr *showFrame) askType(x ast.Expr) (bool, bool) {
	if fr.isString {
		// a Go string implements none of the interfaces and is none of the well known types
		return false, true
	}
	return fr.sc.ask(fr.typeCaseAtom(x))
}

// hook executes the statements that eval.go cannot.
func (fr *showFrame) hook(s ast.Stmt) (stopKind, bool) {
	sc := fr.sc
	if sc.blocked != "" || sc.panicked != "" || fr.out != "" {
		return fr.stop()
	}
	e := fr.e
	switch s := s.(type) {
	case *ast.ReturnStmt:
		if len(s.Results) == 0 {
			panic(fr.fd.Name.Name + ": return without a result")
		}
		v := e.eval(s.Results[len(s.Results)-1])
		if sc.blocked != "" || sc.panicked != "" {
			return fr.stop()
		}
		switch {
		case v == nil:
			if fr.mode != modeDynamic {
				panic(fr.fd.Name.Name + ": returned value not translatable: " + types.ExprString(s.Results[len(s.Results)-1]))
			}
			fr.out = "OOk" // the error of a write or of an escaper
		case v.Kind() == constant.String && constant.StringVal(v) == "<nil>":
			fr.out = "OOk"
		case v.Kind() == constant.String && constant.StringVal(v) == "<err>":
			fr.out = "OErr"
		case v.Kind() == constant.String && constant.StringVal(v) == "call:showInJS":
			fr.out = "OCall FJS"
		case v.Kind() == constant.String && constant.StringVal(v) == "call:showInJSON":
			fr.out = "OCall FJSON"
		default:
			panic(fr.fd.Name.Name + ": returned value not translatable: " + v.String())
		}
		return stopReturn, true

	case *ast.ExprStmt:
		if c, ok := s.X.(*ast.CallExpr); ok {
			if id, ok := c.Fun.(*ast.Ident); ok && id.Name == "panic" {
				if _, isBuiltin := e.obj(id).(*types.Builtin); isBuiltin {
					sc.panicked = "panic(" + types.ExprString(c.Args[0]) + ")"
					return fr.stop()
				}
			}
		}
		return stopNone, false

	case *ast.RangeStmt, *ast.ForStmt:
		if fr.mode == modeStatic {
			v, ok := sc.ask("ALoop")
			if !ok {
				return fr.stop()
			}
			if v {
				return stopNone, true
			}
			fr.out = "OLoopExit"
			return fr.stop()
		}
		if containsReturn(s) {
			panic(fr.fd.Name.Name + ": a loop that returns is not translatable")
		}
		// a loop without a return only computes strings: forget what it assigns
		ast.Inspect(s, func(nd ast.Node) bool {
			if as, ok := nd.(*ast.AssignStmt); ok {
				for _, l := range as.Lhs {
					fr.delete(l)
				}
			}
			return true
		})
		return stopNone, true

	case *ast.AssignStmt:
		if len(s.Rhs) == 1 {
			if call, ok := s.Rhs[0].(*ast.CallExpr); ok {
				name, recv := calleeOf(call)
				if name == "toString" && recv == nil && len(s.Lhs) == 2 && fr.mode == modeDynamic {
					out := fr.inline("toString", call)
					if out == "" {
						return fr.stop()
					}
					fr.delete(s.Lhs[0])
					switch out {
					case "OOk":
						fr.set(s.Lhs[1], nilMarker)
					case "OErr":
						fr.set(s.Lhs[1], errMarker)
					default:
						panic("toString: outcome " + out)
					}
					return stopNone, true
				}
				if name == "decodeRenderContext" && recv == nil && len(s.Lhs) == 3 {
					arg := e.eval(call.Args[0])
					if arg == nil {
						panic("decodeRenderContext: argument unknown")
					}
					rets, ok := callFunc(fr.p, mustFunc(fr.p, name), []constant.Value{arg}, 1)
					if !ok || len(rets) != 3 {
						panic("decodeRenderContext is not evaluable")
					}
					for i, l := range s.Lhs {
						fr.set(l, rets[i])
					}
					return stopNone, true
				}
			}
			// value = v.String()
			if len(s.Lhs) == 1 && s.Tok == token.ASSIGN && fr.mode == modeDynamic {
				if id, ok := s.Lhs[0].(*ast.Ident); ok && e.obj(id) == fr.value && fr.value != nil {
					if b, ok := fr.typeOf(s.Rhs[0]).Underlying().(*types.Basic); ok && b.Info()&types.IsString != 0 {
						fr.isString = true
						return stopNone, true
					}
					panic(fr.fd.Name.Name + ": the shown value is replaced by something that is not a string")
				}
			}
		}
		return stopNone, false

	case *ast.IfStmt:
		if s.Init != nil {
			handled := false
			if as, ok := s.Init.(*ast.AssignStmt); ok && len(as.Lhs) == 2 && len(as.Rhs) == 1 {
				if ta, ok := as.Rhs[0].(*ast.TypeAssertExpr); ok && ta.Type != nil && fr.isValueExpr(ta.X) {
					v, ok := fr.askType(ta.Type)
					if !ok {
						return fr.stop()
					}
					fr.delete(as.Lhs[0])
					fr.set(as.Lhs[1], constant.MakeBool(v))
					handled = true
				}
			}
			if !handled {
				if k := e.stmt(s.Init); k != stopNone {
					return k, true
				}
			}
		}
		c := e.eval(s.Cond)
		if sc.blocked != "" || sc.panicked != "" {
			return fr.stop()
		}
		if c == nil {
			v, ok := sc.ask(fr.g.other(fr.fd.Name.Name + ": " + types.ExprString(s.Cond)))
			if !ok {
				return fr.stop()
			}
			c = constant.MakeBool(v)
		}
		if c.Kind() != constant.Bool {
			panic("condition is not boolean: " + types.ExprString(s.Cond))
		}
		if constant.BoolVal(c) {
			return e.run(s.Body.List), true
		}
		if s.Else != nil {
			return e.stmt(s.Else), true
		}
		return stopNone, true

	case *ast.SwitchStmt:
		if !fr.class || s.Tag == nil {
			return stopNone, false
		}
		call, ok := s.Tag.(*ast.CallExpr)
		if !ok {
			return stopNone, false
		}
		if name, recv := calleeOf(call); name != "Kind" || recv == nil || !fr.isReflectValue(recv) {
			return stopNone, false
		}
		_, mk := fr.selectClause(s, fr.valueKind())
		fr.out = fmt.Sprintf("OClass %d %v", mk, fr.isString)
		return fr.stop()

	case *ast.TypeSwitchStmt:
		var x ast.Expr
		var bound *ast.Ident
		switch a := s.Assign.(type) {
		case *ast.ExprStmt:
			x = a.X.(*ast.TypeAssertExpr).X
		case *ast.AssignStmt:
			x = a.Rhs[0].(*ast.TypeAssertExpr).X
			bound = a.Lhs[0].(*ast.Ident)
		}
		if s.Init != nil || !(fr.isValueExpr(x) || fr.value == nil) {
			panic(fr.fd.Name.Name + ": type switch on " + types.ExprString(x) + " is not translatable")
		}
		run := func(cc *ast.CaseClause) (stopKind, bool) {
			if bound != nil {
				// the symbol of the clause stands for the same value
				if o := fr.p.TypesInfo.Implicits[cc]; o != nil {
					old := fr.swvar
					fr.swvar = o
					defer func() { fr.swvar = old }()
				}
			}
			k := e.run(cc.Body)
			if k == stopBreak {
				k = stopNone
			}
			return k, true
		}
		var def *ast.CaseClause
		for _, c := range s.Body.List {
			cc := c.(*ast.CaseClause)
			if cc.List == nil {
				def = cc
				continue
			}
			for _, tx := range cc.List {
				v, ok := fr.askType(tx)
				if !ok {
					return fr.stop()
				}
				if v {
					k, h := run(cc)
					if fr.class && k == stopReturn && fr.out == "OOk" {
						c := "255"
						if !fr.isNilIdent(tx) {
							_, c = classifyType(fr.typeOf(tx))
						}
						fr.out = "OHandled " + c
					}
					return k, h
				}
			}
		}
		if def != nil {
			return run(def)
		}
		return stopNone, true
	}
	return stopNone, false
}

// ---- emission ----

type treeTable struct {
	prefix string
	defs   []string
	names  map[string]string
}

func (tt *treeTable) name(t *tree) string {
	s := t.String()
	if n, ok := tt.names[s]; ok {
		return n
	}
	n := fmt.Sprintf("gt_%s_%d", tt.prefix, len(tt.names))
	tt.names[s] = n
	tt.defs = append(tt.defs, fmt.Sprintf("Definition %s : dtree := %s.\n", n, s))
	return n
}

type tblEntry struct {
	key  int64
	tree *tree
}

func emitTreeTable(b *bytes.Buffer, name, comment string, entries []tblEntry) {
	tt := &treeTable{prefix: name, names: map[string]string{}}
	var rows []string
	for _, en := range entries {
		rows = append(rows, fmt.Sprintf("(%d, %s)", en.key, tt.name(en.tree)))
	}
	fmt.Fprintf(b, "(* %s *)\n", comment)
	for _, d := range tt.defs {
		b.WriteString(d)
	}
	fmt.Fprintf(b, "Definition %s : list (N * dtree) := [\n  %s].\n\n", name, strings.Join(rows, ";\n  "))
}

func init() {
	register("Facts_show", func(w *world, b *bytes.Buffer) error {
		g := &showGen{w: w, rt: w.pkg("internal/runtime"), cp: w.pkg("internal/compiler"), others: map[string]int64{}, kinds: map[string]int64{}}
		b.WriteString("From Verif Require Import ShowTree.\n\n")

		// reflect.Kind numbering, from the reflect package the code is compiled against
		var rp *types.Package
		for _, imp := range g.rt.Types.Imports() {
			if imp.Path() == "reflect" {
				rp = imp
			}
		}
		if rp == nil {
			return fmt.Errorf("internal/runtime does not import reflect")
		}
		b.WriteString("(* reflect.Kind *)\n")
		for i, n := range kindNames {
			c, ok := rp.Scope().Lookup(n).(*types.Const)
			if !ok {
				return fmt.Errorf("reflect.%s not found", n)
			}
			g.kinds[n] = i64(c.Val())
			if g.kinds[n] != int64(i) {
				return fmt.Errorf("reflect.%s = %d, expected %d", n, g.kinds[n], i)
			}
			fmt.Fprintf(b, "Definition k_%s : N := %d.\n", n, g.kinds[n])
		}
		fmt.Fprintf(b, "Definition n_kinds : N := %d.\n\n", len(kindNames))

		// ast.Context numbering
		ap := w.pkg("ast")
		type ctxc struct {
			name string
			val  int64
		}
		var ctxs []ctxc
		for _, n := range ap.Types.Scope().Names() {
			if c, ok := ap.Types.Scope().Lookup(n).(*types.Const); ok && isNamed(c.Type(), modPath+"/ast", "Context") {
				ctxs = append(ctxs, ctxc{n, i64(c.Val())})
			}
		}
		sort.Slice(ctxs, func(i, j int) bool { return ctxs[i].val < ctxs[j].val })
		b.WriteString("(* ast.Context *)\n")
		for i, c := range ctxs {
			if c.val != int64(i) {
				return fmt.Errorf("ast.Context values are not 0..n-1")
			}
			fmt.Fprintf(b, "Definition ctx_%s : N := %d.\n", strings.TrimPrefix(c.name, "Context"), c.val)
		}
		fmt.Fprintf(b, "Definition n_contexts : N := %d.\n\n", len(ctxs))
		nk := int64(len(kindNames))

		// ---- static side ----
		checkShow := mustFunc(g.cp, "checkShow")
		var entries []tblEntry
		for _, c := range ctxs {
			for k := int64(0); k < nk; k++ {
				t := g.explore(k, -1, func(sc *sym) string {
					fr := g.newFrame(sc, g.cp, checkShow, modeStatic, 0)
					fr.bind("ctx", constant.MakeInt64(c.val))
					return fr.runBody()
				})
				entries = append(entries, tblEntry{c.val*32 + k, t})
			}
		}
		emitTreeTable(b, "gen_checkShow_tbl", "checker_statements.go checkShow(t, ctx): key = ctx*32 + t.Kind()", entries)

		for _, fn := range []string{"checkShowJS", "checkShowJSON"} {
			fd := mustFunc(g.cp, fn)
			entries = nil
			for k := int64(0); k < nk; k++ {
				for kk := int64(0); kk < nk; kk++ {
					t := g.explore(k, kk, func(sc *sym) string {
						return g.newFrame(sc, g.cp, fd, modeStatic, 0).runBody()
					})
					entries = append(entries, tblEntry{k*32 + kk, t})
				}
			}
			emitTreeTable(b, "gen_"+fn+"_tbl", "checker_statements.go "+fn+"(t, types): key = t.Kind()*32 + t.Key().Kind() (the key kind is only consulted for maps)", entries)
			// the body of the loop over the struct fields
			ls := loops(fd.Body)
			if len(ls) != 1 {
				return fmt.Errorf("%s: expected one loop (over the struct fields), found %d", fn, len(ls))
			}
			t := g.explore(g.kinds["Struct"], -1, func(sc *sym) string {
				fr := g.newFrame(sc, g.cp, fd, modeStatic, 0)
				out := fr.finish(fr.e.run(loopBody(ls[0]).List))
				if out == "END" {
					out = "OContinue"
				}
				return out
			})
			fmt.Fprintf(b, "(* %s: body of the loop over the fields of a struct *)\nDefinition gen_%s_field : dtree := %s.\n\n", fn, fn, t)
		}

		// ---- dynamic side ----
		toString := mustFunc(g.rt, "toString")
		entries = nil
		for k := int64(0); k < nk; k++ {
			t := g.explore(k, -1, func(sc *sym) string {
				return g.newFrame(sc, g.rt, toString, modeDynamic, 0).runBody()
			})
			entries = append(entries, tblEntry{k, t})
		}
		emitTreeTable(b, "gen_toString_tbl", "renderer.go toString: key = kind of the value (0: nil interface)", entries)

		show := findMethod(g.rt, "renderer", "Show")
		if show == nil {
			return fmt.Errorf("method renderer.Show not found")
		}
		entries = nil
		for _, c := range ctxs {
			for url := int64(0); url < 2; url++ {
				for k := int64(0); k < nk; k++ {
					t := g.explore(k, -1, func(sc *sym) string {
						fr := g.newFrame(sc, g.rt, show, modeDynamic, 0)
						fr.bind("context", constant.MakeInt64(c.val|url<<7))
						return fr.runBody()
					})
					entries = append(entries, tblEntry{(c.val*2+url)*32 + k, t})
				}
			}
		}
		emitTreeTable(b, "gen_Show_tbl", "renderer.go renderer.Show(env, v, context) with the show functions it calls inlined (showInJS/showInJSON excepted): key = (ctx*2 + inURL)*32 + kind of the value", entries)

		for _, fn := range []string{"showInJS", "showInJSON"} {
			fd := mustFunc(g.rt, fn)
			entries = nil
			for k := int64(0); k < nk; k++ {
				t := g.explore(k, -1, func(sc *sym) string {
					fr := g.newFrame(sc, g.rt, fd, modeDynamic, 0)
					fr.class = true
					return fr.runBody()
				})
				entries = append(entries, tblEntry{k, t})
			}
			emitTreeTable(b, "gen_"+fn+"_tbl", "renderer.go "+fn+": the leading type switch and the clause of the kind switch that is selected; key = kind of the value", entries)
			// the type switch on the map key
			var ts *ast.TypeSwitchStmt
			n := 0
			ast.Inspect(fd.Body, func(nd ast.Node) bool {
				if t, ok := nd.(*ast.TypeSwitchStmt); ok {
					if n == 1 {
						ts = t
					}
					n++
				}
				return true
			})
			if ts == nil || n != 2 {
				return fmt.Errorf("%s: expected two type switches (value, map key), found %d", fn, n)
			}
			entries = nil
			for k := int64(0); k < nk; k++ {
				t := g.explore(k, -1, func(sc *sym) string {
					fr := g.newFrame(sc, g.rt, fd, modeDynamic, 0)
					fr.value = nil // the switch is on key.Interface()
					out := fr.finish(fr.e.run([]ast.Stmt{ts}))
					if out == "END" {
						out = "OOk"
					}
					return out
				})
				entries = append(entries, tblEntry{k, t})
			}
			emitTreeTable(b, "gen_"+fn+"_mapkey_tbl", "renderer.go "+fn+": conversion of a map key to a string (type switch on key.Interface() and toString); key = kind of the map key", entries)
		}

		// isEmptyValue: clause selected per kind
		iev := mustFunc(g.rt, "isEmptyValue")
		entries = nil
		for k := int64(0); k < nk; k++ {
			t := g.explore(k, -1, func(sc *sym) string {
				fr := g.newFrame(sc, g.rt, iev, modeDynamic, 0)
				fr.class = true
				out := fr.finish(fr.e.run(iev.Body.List))
				return out
			})
			entries = append(entries, tblEntry{k, t})
		}
		emitTreeTable(b, "gen_isEmptyValue_tbl", "renderer.go isEmptyValue: clause of the kind switch selected; key = kind", entries)

		// the anonymous atoms
		type oa struct {
			n    int64
			text string
		}
		var oas []oa
		for t, n := range g.others {
			oas = append(oas, oa{n, t})
		}
		sort.Slice(oas, func(i, j int) bool { return oas[i].n < oas[j].n })
		b.WriteString("(* conditions met that are neither decidable from the kind nor named atoms (they appear in a tree only when the outcome depends on them):\n")
		for _, o := range oas {
			fmt.Fprintf(b, "   AOther %d = %s\n", o.n, strings.ReplaceAll(strings.ReplaceAll(o.text, "\"", "``"), "'", "`"))
		}
		b.WriteString("*)\n")
		return nil
	})
}
