package main

// Site lists of the VM.
//
// Facts_vm_sites (C11): every blocking channel operation inside VM.run (calls of
// reflect.Select, reflect.Value.Recv/Send, native channel syntax), with the
// opcode clause it belongs to, the branch of the enclosing `done == nil` test,
// whether the done case was appended to the select cases and whether the
// chosen index of the done case leads to `return vm.stop()`. The committed
// classification checks/C11_sites.json is joined in: a site that is not
// classified there (or an entry without a site) is reported in the fact.

import (
	"bytes"
	"encoding/json"
	"fmt"
	"go/ast"
	"go/token"
	"go/types"
	"os"
	"path/filepath"
	"sort"
	"strings"

	"golang.org/x/tools/go/packages"
)


// checksDir finds <verif>/checks from the -out directory (<verif>/coq/gen).
func checksDir() string {
	out := flagOut()
	return filepath.Join(filepath.Dir(filepath.Dir(out)), "checks")
}

func flagOut() string {
	for i, a := range os.Args {
		if (a == "-out" || a == "--out") && i+1 < len(os.Args) {
			return os.Args[i+1]
		}
		if strings.HasPrefix(a, "-out=") {
			return a[5:]
		}
	}
	return "/verif/coq/gen"
}

type blockSite struct {
	op      string // name of the first expression of the case clause (OpReceive, ...)
	opNum   int64
	kind    string // Select, Recv, Send, native
	branch  string // then, else, none (of the nearest enclosing if whose condition mentions done)
	cond    string
	hasDone bool // the done case was appended to vm.cases in the same block before the call
	stops   bool // the statement after the call is `if chosen == <index of the done case> { return vm.stop() }`
	idxOK   bool
	detail  string
}

func (s blockSite) key() string { return s.op + "/" + s.kind + "/" + s.branch }

func isReflectValue(t types.Type) bool {
	n, ok := t.(*types.Named)
	return ok && n.Obj().Pkg() != nil && n.Obj().Pkg().Path() == "reflect" && n.Obj().Name() == "Value"
}

func blockingSites(p *packages.Package) []blockSite {
	fd := findMethod(p, "VM", "run")
	if fd == nil {
		panic("method VM.run not found")
	}
	var sw *ast.SwitchStmt
	ast.Inspect(fd.Body, func(n ast.Node) bool {
		if s, ok := n.(*ast.SwitchStmt); ok && sw == nil {
			if id, ok := s.Tag.(*ast.Ident); ok && id.Name == "op" {
				sw = s
				return false
			}
		}
		return true
	})
	if sw == nil {
		panic("run: `switch op` not found")
	}
	var sites []blockSite
	for _, st := range sw.Body.List {
		cc := st.(*ast.CaseClause)
		if len(cc.List) == 0 {
			continue
		}
		opName := exprString(cc.List[0])
		opNum := int64(-1)
		if tv, ok := p.TypesInfo.Types[cc.List[0]]; ok && tv.Value != nil {
			opNum = i64(tv.Value)
		}
		// walk with a stack of (if statement, branch)
		type ctx struct {
			ifs    *ast.IfStmt
			branch string
		}
		var walk func(n ast.Node, stack []ctx, block []ast.Stmt, idx int)
		record := func(kind string, call ast.Node, stack []ctx, block []ast.Stmt, idx int) {
			s := blockSite{op: opName, opNum: opNum, kind: kind, branch: "none"}
			for i := len(stack) - 1; i >= 0; i-- {
				c := exprString(stack[i].ifs.Cond)
				if strings.Contains(c, "done") {
					s.branch, s.cond = stack[i].branch, c
					break
				}
			}
			if kind == "Select" && block != nil {
				// the done case appended before, in the same block
				extra := 0
				for j := idx - 1; j >= 0; j-- {
					as, ok := block[j].(*ast.AssignStmt)
					if !ok || len(as.Lhs) != 1 || exprString(as.Lhs[0]) != "vm.cases" || len(as.Rhs) != 1 {
						continue
					}
					ap, ok := as.Rhs[0].(*ast.CallExpr)
					if !ok || exprString(ap.Fun) != "append" || len(ap.Args) < 2 || exprString(ap.Args[0]) != "vm.cases" {
						continue
					}
					if exprString(ap.Args[len(ap.Args)-1]) == "vm.env.doneCase" {
						s.hasDone = true
						extra = len(ap.Args) - 1
					}
					break
				}
				// the test that follows
				if idx+1 < len(block) {
					if is, ok := block[idx+1].(*ast.IfStmt); ok {
						c := exprString(is.Cond)
						if strings.HasPrefix(c, "chosen==") && len(is.Body.List) == 1 {
							if rs, ok := is.Body.List[0].(*ast.ReturnStmt); ok && len(rs.Results) == 1 && exprString(rs.Results[0]) == "vm.stop()" {
								s.stops = true
								rhs := c[len("chosen=="):]
								s.detail = fmt.Sprintf("appended %d, compares chosen with %s", extra, rhs)
								switch {
								case extra == 2 && rhs == "1":
									s.idxOK = true // vm.cases is empty between instructions; cas at 0, done case at 1
								case extra == 1 && rhs == "numCase":
									// numCase must be len(vm.cases) taken before the append
									for j := 0; j < len(cc.Body); j++ {
										if as, ok := cc.Body[j].(*ast.AssignStmt); ok && len(as.Lhs) == 1 && exprString(as.Lhs[0]) == "numCase" && exprString(as.Rhs[0]) == "len(vm.cases)" {
											s.idxOK = true
										}
									}
								}
							}
						}
					}
				}
			}
			sites = append(sites, s)
		}
		var walkBlock func(list []ast.Stmt, stack []ctx)
		walkBlock = func(list []ast.Stmt, stack []ctx) {
			for i, st := range list {
				walk(st, stack, list, i)
			}
		}
		walk = func(n ast.Node, stack []ctx, block []ast.Stmt, idx int) {
			switch n := n.(type) {
			case nil:
				return
			case *ast.BlockStmt:
				walkBlock(n.List, stack)
				return
			case *ast.IfStmt:
				if n.Init != nil {
					walk(n.Init, stack, block, idx)
				}
				walk(n.Cond, stack, block, idx)
				walkBlock(n.Body.List, append(stack[:len(stack):len(stack)], ctx{n, "then"}))
				if n.Else != nil {
					switch e := n.Else.(type) {
					case *ast.BlockStmt:
						walkBlock(e.List, append(stack[:len(stack):len(stack)], ctx{n, "else"}))
					default:
						walk(e, append(stack[:len(stack):len(stack)], ctx{n, "else"}), nil, 0)
					}
				}
				return
			case *ast.ForStmt:
				walk(n.Init, stack, nil, 0)
				if n.Cond != nil {
					walk(n.Cond, stack, nil, 0)
				}
				walk(n.Post, stack, nil, 0)
				walkBlock(n.Body.List, stack)
				return
			case *ast.RangeStmt:
				if t := p.TypesInfo.TypeOf(n.X); t != nil {
					if _, ok := t.Underlying().(*types.Chan); ok {
						record("native", n, stack, block, idx)
					}
				}
				walk(n.X, stack, nil, 0)
				walkBlock(n.Body.List, stack)
				return
			case *ast.SwitchStmt:
				walk(n.Init, stack, nil, 0)
				if n.Tag != nil {
					walk(n.Tag, stack, nil, 0)
				}
				for _, c := range n.Body.List {
					walkBlock(c.(*ast.CaseClause).Body, stack)
				}
				return
			case *ast.TypeSwitchStmt:
				for _, c := range n.Body.List {
					walkBlock(c.(*ast.CaseClause).Body, stack)
				}
				return
			case *ast.SelectStmt:
				record("native", n, stack, block, idx)
				return
			case *ast.SendStmt:
				record("native", n, stack, block, idx)
				return
			case *ast.FuncLit:
				return
			}
			// expressions and simple statements: look for the calls inside
			ast.Inspect(n, func(m ast.Node) bool {
				switch m := m.(type) {
				case *ast.FuncLit:
					return false
				case *ast.UnaryExpr:
					if m.Op == token.ARROW {
						record("native", m, stack, block, idx)
					}
				case *ast.CallExpr:
					if se, ok := m.Fun.(*ast.SelectorExpr); ok {
						if id, ok := se.X.(*ast.Ident); ok && id.Name == "reflect" && se.Sel.Name == "Select" {
							record("Select", m, stack, block, idx)
						} else if se.Sel.Name == "Recv" || se.Sel.Name == "Send" {
							if t := p.TypesInfo.TypeOf(se.X); t != nil && isReflectValue(t) {
								record(se.Sel.Name, m, stack, block, idx)
							}
						}
					}
				}
				return true
			})
		}
		walkBlock(cc.Body, nil)
	}
	if len(sites) == 0 {
		panic("run: no blocking channel operation found")
	}
	return sites
}

// headCheck reports whether the first statement of the instruction loop of run
// is `if done != nil && atomic.LoadInt32(&vm.env.done) == 1 { return vm.stop() }`
// with done := vm.env.doneChan.
func headCheck(p *packages.Package) (bool, string) {
	fd := findMethod(p, "VM", "run")
	doneInit := false
	var loop *ast.ForStmt
	for _, st := range fd.Body.List {
		if as, ok := st.(*ast.AssignStmt); ok && len(as.Lhs) == 1 && exprString(as.Lhs[0]) == "done" && exprString(as.Rhs[0]) == "vm.env.doneChan" {
			doneInit = true
		}
		if f, ok := st.(*ast.ForStmt); ok && loop == nil && f.Cond == nil {
			loop = f
		}
	}
	if loop == nil || len(loop.Body.List) == 0 {
		return false, "no instruction loop"
	}
	is, ok := loop.Body.List[0].(*ast.IfStmt)
	if !ok {
		return false, "the loop does not start with an if"
	}
	c := exprString(is.Cond)
	body := ""
	if len(is.Body.List) == 1 {
		if rs, ok := is.Body.List[0].(*ast.ReturnStmt); ok && len(rs.Results) == 1 {
			body = exprString(rs.Results[0])
		}
	}
	okAll := doneInit && c == "done!=nil&&atomic.LoadInt32(&vm.env.done)==1" && body == "vm.stop()"
	return okAll, c + " => " + body
}

// hasDefaultOnlyFalse reports whether every assignment to hasDefaultCase in run assigns false.
func hasDefaultOnlyFalse(p *packages.Package) bool {
	fd := findMethod(p, "VM", "run")
	ok := true
	ast.Inspect(fd.Body, func(n ast.Node) bool {
		if as, isAs := n.(*ast.AssignStmt); isAs {
			for i, l := range as.Lhs {
				if exprString(l) == "hasDefaultCase" && (i >= len(as.Rhs) || exprString(as.Rhs[i]) != "false") {
					ok = false
				}
			}
		}
		return true
	})
	return ok
}

// runFuncTail evaluates the statements of runFunc that follow its loop (the
// loop is left by `break` when the code has ended, has been stopped or has
// panicked with no frame left) for every truth value of the three conditions
// they test: stop != nil (a context with a Done channel was set), env.done == 1,
// vm.panic != nil. The result says what runFunc returns: 0 nil, 1 the error of
// the context, 2 vm.panic.
func runFuncTail(p *packages.Package) [16]int {
	fd := findMethod(p, "VM", "runFunc")
	if fd == nil {
		panic("method VM.runFunc not found")
	}
	idx := -1
	for i, st := range fd.Body.List {
		if f, ok := st.(*ast.ForStmt); ok && f.Cond == nil && f.Init == nil && f.Post == nil {
			idx = i
		}
	}
	if idx < 0 {
		panic("runFunc: the loop over runRecoverable was not found")
	}
	tail := fd.Body.List[idx+1:]
	if len(tail) == 0 {
		panic("runFunc: no statement after the loop")
	}
	var cond func(e ast.Expr, atoms map[string]bool) bool
	cond = func(e ast.Expr, atoms map[string]bool) bool {
		switch x := e.(type) {
		case *ast.ParenExpr:
			return cond(x.X, atoms)
		case *ast.UnaryExpr:
			if x.Op == token.NOT {
				return !cond(x.X, atoms)
			}
		case *ast.BinaryExpr:
			switch x.Op {
			case token.LAND:
				return cond(x.X, atoms) && cond(x.Y, atoms)
			case token.LOR:
				return cond(x.X, atoms) || cond(x.Y, atoms)
			}
		}
		s := exprString(e)
		neg := map[string]string{"stop==nil": "stop!=nil", "vm.panic==nil": "vm.panic!=nil",
			"atomic.LoadInt32(&vm.env.done)!=1": "atomic.LoadInt32(&vm.env.done)==1", "atomic.LoadInt32(&vm.env.done)==0": "atomic.LoadInt32(&vm.env.done)==1"}
		if v, ok := atoms[s]; ok {
			return v
		}
		if pos, ok := neg[s]; ok {
			return !atoms[pos]
		}
		panic("runFunc: unexpected condition after the loop: " + s)
	}
	// run returns the code of the return statement reached, -1 when the list falls through
	var run func(list []ast.Stmt, atoms map[string]bool) int
	run = func(list []ast.Stmt, atoms map[string]bool) int {
		for _, st := range list {
			switch s := st.(type) {
			case *ast.ExprStmt:
				if c, ok := s.X.(*ast.CallExpr); ok && exprString(c.Fun) == "close" {
					continue
				}
				panic("runFunc: unexpected statement after the loop: " + exprString(s.X))
			case *ast.IfStmt:
				if s.Init != nil {
					panic("runFunc: unexpected if with an init statement after the loop")
				}
				if cond(s.Cond, atoms) {
					if r := run(s.Body.List, atoms); r >= 0 {
						return r
					}
				} else if s.Else != nil {
					var r int
					switch e := s.Else.(type) {
					case *ast.BlockStmt:
						r = run(e.List, atoms)
					default:
						r = run([]ast.Stmt{e}, atoms)
					}
					if r >= 0 {
						return r
					}
				}
			case *ast.ReturnStmt:
				if len(s.Results) != 1 {
					panic("runFunc: unexpected return after the loop")
				}
				switch r := exprString(s.Results[0]); r {
				case "nil":
					return 0
				case "vm.env.ctx.Err()":
					return 1
				case "vm.panic":
					return 2
				case "vm.env.failed()":
					return 3
				default:
					panic("runFunc: unexpected result after the loop: " + r)
				}
			default:
				panic(fmt.Sprintf("runFunc: unexpected statement after the loop: %T", st))
			}
		}
		return -1
	}
	var out [16]int
	for i := 0; i < 16; i++ {
		atoms := map[string]bool{"vm.env.failed()!=nil": i&8 != 0, "stop!=nil": i&4 != 0, "atomic.LoadInt32(&vm.env.done)==1": i&2 != 0, "vm.panic!=nil": i&1 != 0}
		r := run(tail, atoms)
		if r < 0 {
			panic("runFunc: the statements after the loop do not end with a return")
		}
		out[i] = r
	}
	return out
}

func readClassification(name string) map[string]string {
	b, err := os.ReadFile(filepath.Join(checksDir(), name))
	if err != nil {
		panic(fmt.Sprintf("classification file %s: %v", name, err))
	}
	var doc struct {
		Sites map[string]struct {
			Class string `json:"class"`
		} `json:"sites"`
	}
	if err := json.Unmarshal(b, &doc); err != nil {
		panic(fmt.Sprintf("classification file %s: %v", name, err))
	}
	m := map[string]string{}
	for k, v := range doc.Sites {
		m[k] = v.Class
	}
	return m
}

func init() {
	register("Facts_vm_sites", func(w *world, b *bytes.Buffer) error {
		rt := w.pkg("internal/runtime")
		sites := blockingSites(rt)
		class := readClassification("C11_sites.json")
		kindCode := map[string]int{"Select": 0, "Recv": 1, "Send": 2, "native": 3}
		branchCode := map[string]int{"none": 0, "then": 1, "else": 2}
		condCode := func(c string) int {
			switch c {
			case "done==nil":
				return 1
			case "done==nil||hasDefaultCase":
				return 2
			}
			return 0
		}
		classCode := map[string]int{"no-context-only": 1, "guarded-by-done-case": 2}
		fmt.Fprintf(b, "(* blocking channel operations of VM.run: (opcode, kind 0 Select 1 Recv 2 Send 3 native syntax,\n   branch of the enclosing test on done 0 none 1 then 2 else, condition 1 `done == nil` 2 `done == nil || hasDefaultCase` 0 other,\n   done case appended, the done index returns vm.stop(), the compared index is the one of the done case,\n   class of checks/C11_sites.json 0 unclassified 1 no-context-only 2 guarded-by-done-case) *)\n")
		fmt.Fprintf(b, "Definition block_sites : list (N * N * N * N * bool * bool * bool * N) := [")
		seen := map[string]bool{}
		for i, s := range sites {
			if i > 0 {
				b.WriteString(";")
			}
			k := s.key()
			if seen[k] {
				panic("two blocking sites with the key " + k)
			}
			seen[k] = true
			fmt.Fprintf(b, "\n  (* %s cond `%s` %s *) (%d, %d, %d, %d, %s, %s, %s, %d)", k, s.cond, s.detail,
				s.opNum, kindCode[s.kind], branchCode[s.branch], condCode(s.cond), coqBool(s.hasDone), coqBool(s.stops), coqBool(s.idxOK), classCode[class[k]])
		}
		b.WriteString("].\n\n")
		var stale []string
		for k := range class {
			if !seen[k] {
				stale = append(stale, k)
			}
		}
		sort.Strings(stale)
		fmt.Fprintf(b, "(* entries of checks/C11_sites.json without a site in the code: %v *)\nDefinition stale_site_entries : N := %d.\n\n", stale, len(stale))
		hc, how := headCheck(rt)
		fmt.Fprintf(b, "(* the instruction loop of run starts with `%s` *)\nDefinition head_check_first : bool := %s.\n", how, coqBool(hc))
		fmt.Fprintf(b, "(* hasDefaultCase is only ever assigned false *)\nDefinition hasDefaultCase_only_false : bool := %s.\n\n", coqBool(hasDefaultOnlyFalse(rt)))
		for _, n := range []string{"OpReceive", "OpSend", "OpSelect", "OpRange"} {
			fmt.Fprintf(b, "Definition op_%s : N := %d.\n", n, vmConstInt(rt, n))
		}
		fmt.Fprintf(b, "(* in Program.Run and Template.Run of the root package, every call of vm.AllowGoroutines() comes after the\n   call of vm.SetContext (the failure signal of goroutines derives from the context set before it; seeded C12-g) *)\nDefinition goroutines_after_context : bool := %s.\n\n", coqBool(allowAfterContext(w.pkg(""))))
		tail := runFuncTail(rt)
		fmt.Fprintf(b, "\n(* what runFunc returns when its loop has been left by break, evaluated from the statements that follow\n   the loop for every value of: a context with a Done channel was set (stop != nil), env.done == 1,\n   vm.panic != nil; 0 nil, 1 the error of the context, 2 vm.panic;\n")
		fmt.Fprintf(b, "   with a fourth condition, vm.env.failed() != nil (a goroutine started by a go statement ended with an error):\n   3 the error of that goroutine *)\n")
		fmt.Fprintf(b, "Definition runfunc_tail_g (failed has_ctx done pending : bool) : N :=\n  match failed, has_ctx, done, pending with\n")
		bs := func(v bool) string { return coqBool(v) }
		for i := 15; i >= 0; i-- {
			fmt.Fprintf(b, "  | %s, %s, %s, %s => %d\n", bs(i&8 != 0), bs(i&4 != 0), bs(i&2 != 0), bs(i&1 != 0), tail[i])
		}
		b.WriteString("  end.\n\n(* no goroutine has failed *)\nDefinition runfunc_tail (has_ctx done pending : bool) : N := runfunc_tail_g false has_ctx done pending.\n")
		return nil
	})
}

// ---- Facts_vm_writes (C10) ----
//
// Every assignment, increment, append-assignment or map/slice element write in
// internal/runtime and in the root package (programs.go, templates.go, ...)
// whose mutated object is reached through a value of one of the types that are
// shared by all runs of a built artefact (Function, NativeFunction, callable,
// Registers, Program, Template, and the output of the compiler that Build keeps:
// compiler.Code, compiler.Global), every write to a package level variable
// outside init (assignments, element writes, sends and receives on package
// level channels, delete/clear/copy/close applied to them), every call of a
// sync / atomic method on such an object, and the inventory of the package
// level variables themselves (kind pkgvar: a new one must be classified).
// Joined with the committed classification checks/C10_writes.json.

var sharedTypeNames = map[string]bool{
	"github.com/open2b/scriggo/internal/runtime.Function":       true,
	"github.com/open2b/scriggo/internal/runtime.NativeFunction": true,
	"github.com/open2b/scriggo/internal/runtime.callable":       true,
	"github.com/open2b/scriggo/internal/runtime.Registers":      true,
	"github.com/open2b/scriggo.Program":                         true,
	"github.com/open2b/scriggo.Template":                        true,
	"github.com/open2b/scriggo/internal/compiler.Code":          true,
	"github.com/open2b/scriggo/internal/compiler.Global":        true,
}

func sharedType(t types.Type) bool {
	for {
		// pointers to, and slices / arrays of, a shared type lead to the shared object
		switch u := t.(type) {
		case *types.Pointer:
			t = u.Elem()
			continue
		case *types.Slice:
			t = u.Elem()
			continue
		case *types.Array:
			t = u.Elem()
			continue
		}
		break
	}
	n, ok := t.(*types.Named)
	if !ok || n.Obj().Pkg() == nil {
		return false
	}
	return sharedTypeNames[n.Obj().Pkg().Path()+"."+n.Obj().Name()]
}

// throughShared reports whether e, or an operand it is selected / indexed /
// dereferenced from, has a shared type; also whether its root is a package level variable.
func throughShared(p *packages.Package, e ast.Expr) (shared bool, global bool) {
	return throughSharedWith(p, e, nil)
}

func throughSharedWith(p *packages.Package, e ast.Expr, alias map[types.Object][2]bool) (shared bool, global bool) {
	for {
		if t := p.TypesInfo.TypeOf(e); t != nil && sharedType(t) {
			shared = true
		}
		switch x := e.(type) {
		case *ast.SelectorExpr:
			if id, ok := x.X.(*ast.Ident); ok {
				if _, isPkg := p.TypesInfo.Uses[id].(*types.PkgName); isPkg {
					if v, ok := p.TypesInfo.Uses[x.Sel].(*types.Var); ok && v.Parent() == v.Pkg().Scope() {
						global = true
					}
					return
				}
			}
			e = x.X
		case *ast.IndexExpr:
			e = x.X
		case *ast.StarExpr:
			e = x.X
		case *ast.ParenExpr:
			e = x.X
		case *ast.SliceExpr:
			e = x.X
		case *ast.Ident:
			if v, ok := p.TypesInfo.Uses[x].(*types.Var); ok && v.Pkg() != nil && v.Parent() == v.Pkg().Scope() {
				global = true
			}
			if alias != nil {
				if a, ok := alias[p.TypesInfo.Uses[x]]; ok {
					shared = shared || a[0]
					global = global || a[1]
				}
			}
			return
		case *ast.CallExpr:
			// a conversion or a method call does not lead to the object
			return
		default:
			return
		}
	}
}

type writeSite struct {
	key  string
	kind string // assign, incdec, sync-call, global, pkgvar
}

// aliasesShared lists the local variables of a function body that are defined
// (or assigned) from an address / element / range value of a shared or package
// level object of reference kind, e.g. `g := &code.Globals[i]`, `vals := fn.Values`,
// `for _, g := range p.globals` does not alias (a copy) unless the element is
// itself a pointer, slice or map. Writes through such a local reach the shared object.
func aliasesShared(p *packages.Package, body *ast.BlockStmt) map[types.Object][2]bool {
	out := map[types.Object][2]bool{}
	refKind := func(t types.Type) bool {
		if t == nil {
			return false
		}
		switch t.Underlying().(type) {
		case *types.Pointer, *types.Slice, *types.Map, *types.Chan:
			return true
		}
		return false
	}
	note := func(lhs ast.Expr, rhs ast.Expr) {
		id, ok := lhs.(*ast.Ident)
		if !ok || id.Name == "_" {
			return
		}
		obj := p.TypesInfo.Defs[id]
		if obj == nil {
			obj = p.TypesInfo.Uses[id]
		}
		if obj == nil || !refKind(obj.Type()) {
			return
		}
		if v, ok := obj.(*types.Var); ok && v.Pkg() != nil && v.Parent() == v.Pkg().Scope() {
			return
		}
		e := rhs
		for {
			if pe, ok := e.(*ast.ParenExpr); ok {
				e = pe.X
				continue
			}
			break
		}
		if u, ok := e.(*ast.UnaryExpr); ok && u.Op == token.AND {
			e = u.X
		}
		sh, gl := throughSharedWith(p, e, out)
		if sh || gl {
			prev := out[obj]
			out[obj] = [2]bool{prev[0] || sh, prev[1] || gl}
		}
	}
	// two passes so that chains of aliases are followed
	for pass := 0; pass < 2; pass++ {
		ast.Inspect(body, func(n ast.Node) bool {
			switch s := n.(type) {
			case *ast.AssignStmt:
				if len(s.Lhs) == len(s.Rhs) {
					for i := range s.Lhs {
						note(s.Lhs[i], s.Rhs[i])
					}
				}
			case *ast.RangeStmt:
				if s.Value != nil {
					// the element variable aliases only when it is of reference kind
					note(s.Value, &ast.IndexExpr{X: s.X, Index: ast.NewIdent("_")})
				}
			}
			return true
		})
	}
	return out
}

func sharedWrites(w *world) []writeSite {
	var out []writeSite
	count := map[string]int{}
	add := func(fn, what, kind string) {
		k := fn + ": " + what
		count[k]++
		if count[k] > 1 {
			k = fmt.Sprintf("%s #%d", k, count[k])
		}
		out = append(out, writeSite{k, kind})
	}
	scan := func(p *packages.Package, onlyFiles map[string]bool, prefix string) {
		for _, f := range p.Syntax {
			name := filepath.Base(p.Fset.Position(f.Pos()).Filename)
			if strings.HasSuffix(name, "_test.go") || strings.HasPrefix(name, "verif_") {
				continue
			}
			if onlyFiles != nil && !onlyFiles[name] {
				continue
			}
			for _, d := range f.Decls {
				fd, ok := d.(*ast.FuncDecl)
				if !ok || fd.Body == nil {
					continue
				}
				fname := fd.Name.Name
				if fd.Recv != nil && len(fd.Recv.List) == 1 {
					t := fd.Recv.List[0].Type
					if s, ok := t.(*ast.StarExpr); ok {
						t = s.X
					}
					fname = exprString(t) + "." + fname
				}
				fname = prefix + fname
				isInit := fd.Name.Name == "init" && fd.Recv == nil
				alias := aliasesShared(p, fd.Body)
				// applied: a builtin or a channel operation that mutates its operand e
				applied := func(e ast.Expr, what string) {
					sh, gl := throughSharedWith(p, e, alias)
					if sh {
						add(fname, what, "assign")
					} else if gl && !isInit {
						add(fname, what, "global")
					}
				}
				lhs := func(e ast.Expr, kind string) {
					// the mutated object is what the last selector / index is applied to
					var obj ast.Expr
					switch x := e.(type) {
					case *ast.SelectorExpr:
						obj = x.X
					case *ast.IndexExpr:
						obj = x.X
					case *ast.StarExpr:
						obj = x.X
					case *ast.Ident:
						if v, ok := p.TypesInfo.Uses[x].(*types.Var); ok && v.Pkg() != nil && v.Parent() == v.Pkg().Scope() && !isInit {
							add(fname, exprString(e), "global")
						}
						return
					default:
						return
					}
					sh, gl := throughSharedWith(p, obj, alias)
					if sh {
						add(fname, exprString(e), kind)
					} else if gl && !isInit {
						add(fname, exprString(e), "global")
					}
				}
				ast.Inspect(fd.Body, func(n ast.Node) bool {
					switch s := n.(type) {
					case *ast.AssignStmt:
						if s.Tok == token.DEFINE {
							return true
						}
						for _, l := range s.Lhs {
							lhs(l, "assign")
						}
					case *ast.IncDecStmt:
						lhs(s.X, "incdec")
					case *ast.SendStmt:
						applied(s.Chan, exprString(s.Chan)+"<-")
					case *ast.UnaryExpr:
						if s.Op == token.ARROW {
							applied(s.X, "<-"+exprString(s.X))
						}
					case *ast.RangeStmt:
						if t := p.TypesInfo.TypeOf(s.X); t != nil {
							if _, ok := t.Underlying().(*types.Chan); ok {
								applied(s.X, "range "+exprString(s.X))
							}
						}
					case *ast.CallExpr:
						if id, ok := s.Fun.(*ast.Ident); ok && len(s.Args) > 0 {
							if _, isBuiltin := p.TypesInfo.Uses[id].(*types.Builtin); isBuiltin {
								switch id.Name {
								case "delete", "clear", "copy", "close":
									applied(s.Args[0], id.Name+"("+exprString(s.Args[0])+")")
								}
							}
							return true
						}
						se, ok := s.Fun.(*ast.SelectorExpr)
						if !ok {
							return true
						}
						sel := p.TypesInfo.Selections[se]
						if sel == nil || sel.Kind() != types.MethodVal {
							return true
						}
						rt := sel.Recv()
						for {
							if pt, ok := rt.(*types.Pointer); ok {
								rt = pt.Elem()
								continue
							}
							break
						}
						nt, ok := rt.(*types.Named)
						if !ok || nt.Obj().Pkg() == nil {
							return true
						}
						if pk := nt.Obj().Pkg().Path(); pk != "sync" && pk != "sync/atomic" {
							return true
						}
						if sh, gl := throughSharedWith(p, se.X, alias); sh || gl {
							add(fname, exprString(se.X)+"."+se.Sel.Name+"()", "sync-call")
						}
					}
					return true
				})
			}
		}
	}
	// the package level variables themselves: each one is state that outlives a run
	inventory := func(p *packages.Package, prefix string) {
		var names []string
		sc := p.Types.Scope()
		for _, n := range sc.Names() {
			v, ok := sc.Lookup(n).(*types.Var)
			if !ok {
				continue
			}
			file := filepath.Base(p.Fset.Position(v.Pos()).Filename)
			if strings.HasSuffix(file, "_test.go") || strings.HasPrefix(file, "verif_") {
				continue
			}
			names = append(names, n)
		}
		sort.Strings(names)
		for _, n := range names {
			add(prefix+"var", n+" "+types.TypeString(sc.Lookup(n).Type(), func(q *types.Package) string { return q.Name() }), "pkgvar")
		}
	}
	scan(w.pkg("internal/runtime"), nil, "runtime.")
	scan(w.pkg(""), nil, "scriggo.")
	inventory(w.pkg("internal/runtime"), "runtime.")
	inventory(w.pkg(""), "scriggo.")
	return out
}

func init() {
	register("Facts_vm_writes", func(w *world, b *bytes.Buffer) error {
		sites := sharedWrites(w)
		by, err := os.ReadFile(filepath.Join(checksDir(), "C10_writes.json"))
		if err != nil {
			return err
		}
		var doc struct {
			Writes map[string]struct {
				Class string `json:"class"`
			} `json:"writes"`
		}
		if err := json.Unmarshal(by, &doc); err != nil {
			return err
		}
		classCode := map[string]int{"per-run-object": 1, "constructor": 2, "sync-pool": 3, "idempotent-cache": 4, "build-time": 5, "immutable-after-init": 6}
		kindCode := map[string]int{"assign": 0, "incdec": 1, "sync-call": 2, "global": 3, "pkgvar": 4}
		fmt.Fprintf(b, "(* writes whose target is reached through a value shared by all runs of a built artefact, writes to\n   package level variables, calls of sync methods on them: (kind 0 assign 1 incdec 2 sync-call 3 global 4 package level variable (inventory),\n   class of checks/C10_writes.json: 0 unclassified 1 per-run-object 2 constructor 3 sync-pool 4 idempotent-cache 5 build-time 6 immutable-after-init) *)\n")
		fmt.Fprintf(b, "Definition shared_writes : list (N * N) := [")
		seen := map[string]bool{}
		for i, s := range sites {
			if i > 0 {
				b.WriteString(";")
			}
			seen[s.key] = true
			fmt.Fprintf(b, "\n  (* %s *) (%d, %d)", strings.ReplaceAll(s.key, "*)", "* )"), kindCode[s.kind], classCode[doc.Writes[s.key].Class])
		}
		b.WriteString("].\n\n")
		var stale []string
		for k := range doc.Writes {
			if !seen[k] {
				stale = append(stale, k)
			}
		}
		sort.Strings(stale)
		fmt.Fprintf(b, "(* entries of checks/C10_writes.json without a site in the code: %s *)\nDefinition stale_write_entries : N := %d.\n", strings.ReplaceAll(fmt.Sprint(stale), "*)", "* )"), len(stale))
		return nil
	})
}

// allowAfterContext reports whether, in the methods Run of Program and
// Template, vm.AllowGoroutines is called, and only after the last call of
// vm.SetContext in source order.
func allowAfterContext(p *packages.Package) bool {
	ok := true
	found := 0
	for _, recv := range []string{"Program", "Template"} {
		fd := findMethod(p, recv, "Run")
		if fd == nil {
			return false
		}
		var lastSet, firstAllow token.Pos
		ast.Inspect(fd.Body, func(n ast.Node) bool {
			if c, isCall := n.(*ast.CallExpr); isCall {
				switch exprString(c.Fun) {
				case "vm.SetContext":
					if c.Pos() > lastSet {
						lastSet = c.Pos()
					}
				case "vm.AllowGoroutines":
					if firstAllow == 0 || c.Pos() < firstAllow {
						firstAllow = c.Pos()
					}
				}
			}
			return true
		})
		if firstAllow == 0 {
			ok = false
		} else {
			found++
			if lastSet != 0 && firstAllow < lastSet {
				ok = false
			}
		}
	}
	return ok && found == 2
}
