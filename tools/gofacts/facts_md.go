package main

// Facts for the Markdown escapers of internal/runtime/escapers.go (C26) and
// for cmd/scriggo/mdescape.go + linkdestination.go (C29).  Everything is
// obtained by running the implementation's own statements in the partial
// evaluator on one byte (and a few neighbour bytes / flags) at a time.

import (
	"bytes"
	"fmt"
	"go/ast"
	"go/constant"
	"go/token"
	"go/types"
	"sort"
	"strings"

	"golang.org/x/tools/go/packages"
)

// localObj finds the object of the local variable or parameter `name`
// declared inside fd.
func localObj(p *packages.Package, fd *ast.FuncDecl, name string) types.Object {
	var found types.Object
	ast.Inspect(fd, func(n ast.Node) bool {
		if id, ok := n.(*ast.Ident); ok && id.Name == name && found == nil {
			if o := p.TypesInfo.Defs[id]; o != nil {
				found = o
			}
		}
		return true
	})
	if found == nil {
		panic(fmt.Sprintf("%s: local variable %s not found", fd.Name.Name, name))
	}
	return found
}

// pkgBytesVar evaluates a package-level `var x = []byte("lit")` or
// `[]byte{'a', ...}` to its bytes.
func pkgBytesVar(p *packages.Package, name string) string {
	o := p.Types.Scope().Lookup(name)
	if o == nil {
		panic("package variable " + name + " not found")
	}
	init := findVarInit(p, name)
	if init == nil {
		panic("package variable " + name + " has no initialiser")
	}
	e := newEnv(p)
	if v := e.eval(init); v != nil && v.Kind() == constant.String {
		return constant.StringVal(v)
	}
	if cl, ok := init.(*ast.CompositeLit); ok {
		var out []byte
		for _, el := range cl.Elts {
			v := e.eval(el)
			if v == nil {
				panic("package variable " + name + ": element not constant")
			}
			out = append(out, byte(i64(v)))
		}
		return string(out)
	}
	panic("package variable " + name + " is not evaluable")
}

// callsTo lists the calls of fun (printed form, e.g. "strings.Index") inside n.
func callsTo(n ast.Node, fun string) []*ast.CallExpr {
	var out []*ast.CallExpr
	ast.Inspect(n, func(n ast.Node) bool {
		if c, ok := n.(*ast.CallExpr); ok && types.ExprString(c.Fun) == fun {
			out = append(out, c)
		}
		return true
	})
	return out
}

func uniqueStringLit(fd *ast.FuncDecl) string {
	var lits []string
	ast.Inspect(fd.Body, func(n ast.Node) bool {
		if b, ok := n.(*ast.BasicLit); ok && b.Kind == token.STRING {
			lits = append(lits, b.Value)
		}
		return true
	})
	if len(lits) != 1 {
		panic(fmt.Sprintf("%s: expected exactly one string literal, found %d", fd.Name.Name, len(lits)))
	}
	v := constant.MakeFromLiteral(lits[0], token.STRING, 0)
	return constant.StringVal(v)
}

const mdStale = "\x00STALE\x00"

type mdIter struct {
	kind    int64 // 0 continue, 1 esc=slash, 2 esc=nbsp, 3 html dispatch, 4 reaches the write section with the previous esc
	lastInc int64 // amount added to last by the write section
	why     string
}

// mdEscapeIter runs one iteration of markdownEscape's loop on s[i]=c.
type mdEscapeCache struct {
	fd                  *ast.FuncDecl
	ls                  []ast.Stmt
	escObj, iObj, lastO types.Object
}

var mdEscCache *mdEscapeCache

func mdEscapeIter(p *packages.Package, allowHTML bool, c, i, n, prev, next int64, slash, nbsp string) mdIter {
	if mdEscCache == nil {
		fd := mustFunc(p, "markdownEscape")
		ls := loops(fd.Body)
		if len(ls) != 2 {
			panic(fmt.Sprintf("markdownEscape: expected 2 loops, found %d", len(ls)))
		}
		mdEscCache = &mdEscapeCache{fd, ls, localObj(p, fd, "esc"), localObj(p, fd, "i"), localObj(p, fd, "last")}
	}
	fd, ls := mdEscCache.fd, mdEscCache.ls
	e := newEnv(p)
	bindParams(e, fd, map[string]constant.Value{"allowHTML": constant.MakeBool(allowHTML)})
	e.vars[p.Types.Scope().Lookup("slash")] = constant.MakeString(slash)
	e.vars[p.Types.Scope().Lookup("nbsp")] = constant.MakeString(nbsp)
	e.vars[mdEscCache.escObj] = constant.MakeString(mdStale)
	e.vars[mdEscCache.iObj] = constant.MakeInt64(i)
	e.vars[mdEscCache.lastO] = constant.MakeInt64(i)
	e.byname["s[i]"] = constant.MakeInt64(c)
	e.byname["len(s)"] = constant.MakeInt64(n)
	if i+1 < n {
		e.byname["s[i+1]"] = constant.MakeInt64(next)
		e.byname["s[i + 1]"] = constant.MakeInt64(next)
	}
	if i > 0 {
		e.byname["s[i-1]"] = constant.MakeInt64(prev)
		e.byname["s[i - 1]"] = constant.MakeInt64(prev)
	}
	e.byname["err != nil"] = constant.MakeBool(false)
	k := e.run(loopBody(ls[0]).List)
	switch k {
	case stopContinue:
		return mdIter{kind: 0}
	case stopNone:
		v, ok := e.varNamed("esc")
		if !ok {
			panic(fmt.Sprintf("markdownEscape byte %d: esc unknown at the end of the iteration", c))
		}
		lv, ok := e.vars[mdEscCache.lastO]
		if !ok {
			panic(fmt.Sprintf("markdownEscape byte %d: last unknown at the end of the iteration", c))
		}
		r := mdIter{lastInc: i64(lv) - i}
		switch constant.StringVal(v) {
		case slash:
			r.kind = 1
		case nbsp:
			r.kind = 2
		case mdStale:
			r.kind = 4
		default:
			panic(fmt.Sprintf("markdownEscape byte %d: unexpected esc %q", c, constant.StringVal(v)))
		}
		return r
	case stopUnknown:
		if strings.Contains(e.why, "isHTMLComment") {
			return mdIter{kind: 3, why: e.why}
		}
		panic(fmt.Sprintf("markdownEscape byte %d (allowHTML=%v, i=%d, len=%d): not evaluable: %s", c, allowHTML, i, n, e.why))
	}
	panic(fmt.Sprintf("markdownEscape byte %d: unexpected end of the iteration (%d)", c, k))
}

func init() {
	register("Facts_md", func(w *world, b *bytes.Buffer) error {
		p := w.pkg("internal/runtime")
		slash := pkgBytesVar(p, "slash")
		nbsp := pkgBytesVar(p, "nbsp")
		fmt.Fprintf(b, "(* escapers.go: var slash, var nbsp *)\nDefinition gen_md_slash : list N := %s.\nDefinition gen_md_nbsp : list N := %s.\n\n", coqBytes(slash), coqBytes(nbsp))

		// kind of every byte, evaluated at the first position of a 3-byte string
		// (the blank case decides esc = nbsp there without looking at neighbours).
		kinds := map[bool][]int64{}
		for _, a := range []bool{false, true} {
			ks := make([]int64, 256)
			for c := int64(0); c < 256; c++ {
				ks[c] = mdEscapeIter(p, a, c, 0, 3, 'a', 'a', slash, nbsp).kind
			}
			kinds[a] = ks
			name := "gen_md_kind_noHTML"
			if a {
				name = "gen_md_kind_HTML"
			}
			emitByteNTable(b, name, fmt.Sprintf("escapers.go markdownEscape(allowHTML=%v): kind of byte c at the first position: 1 esc=slash, 2 esc=nbsp (blank case), 3 HTML dispatch (comment / CDATA / tag), 4 reaches the write section without assigning esc (absent = continue)", a), func(c int64) (int64, bool) {
				return ks[c], ks[c] != 0
			})
		}
		// bytes after which the write section increments last (the byte itself is dropped)
		emitByteSet(b, "gen_md_last_inc", "escapers.go markdownEscape: bytes for which the write section does last++", func(c int64) bool {
			r := false
			for _, a := range []bool{false, true} {
				it := mdEscapeIter(p, a, c, 0, 3, 'a', 'a', slash, nbsp)
				if it.kind == 1 || it.kind == 2 || it.kind == 4 {
					if it.lastInc != 0 && it.lastInc != 1 {
						panic(fmt.Sprintf("markdownEscape byte %d: last advanced by %d", c, it.lastInc))
					}
					if a && r != (it.lastInc == 1) {
						panic(fmt.Sprintf("markdownEscape byte %d: last++ depends on allowHTML", c))
					}
					r = it.lastInc == 1
				}
			}
			return r
		})
		// the blank case: behaviour at the edges and the neighbour bytes that force NBSP in the interior
		var blanks []int64
		for c := int64(0); c < 256; c++ {
			if kinds[false][c] == 2 || kinds[true][c] == 2 {
				if kinds[false][c] != kinds[true][c] {
					return fmt.Errorf("markdownEscape: blank byte %d depends on allowHTML", c)
				}
				blanks = append(blanks, c)
			}
		}
		edges := true
		for _, c := range blanks {
			for _, a := range []bool{false, true} {
				for _, pos := range [][2]int64{{0, 1}, {0, 2}, {0, 3}, {1, 2}, {2, 3}, {6, 7}} {
					if mdEscapeIter(p, a, c, pos[0], pos[1], 'a', 'a', slash, nbsp).kind != 2 {
						edges = false
					}
				}
			}
		}
		fmt.Fprintf(b, "(* escapers.go markdownEscape: a blank byte at the first or the last position gets esc = nbsp (evaluated at several positions and lengths) *)\nDefinition gen_md_blank_edges_nbsp : bool := %s.\n\n", coqBool(edges))
		emitBlank := func(name, comment string, f func(c, d int64) bool) {
			fmt.Fprintf(b, "(* %s *)\nDefinition %s : list (N * list N) := [", comment, name)
			for k, c := range blanks {
				var xs []int64
				for d := int64(0); d < 256; d++ {
					if f(c, d) {
						xs = append(xs, d)
					}
				}
				if k > 0 {
					b.WriteString(";")
				}
				fmt.Fprintf(b, "\n  (%d, %s)", c, coqNList(xs))
			}
			b.WriteString("].\n\n")
		}
		interior := func(c, prev, next int64) bool { // true = NBSP
			r := mdEscapeIter(p, false, c, 1, 3, prev, next, slash, nbsp).kind
			for _, q := range []struct {
				a    bool
				i, n int64
			}{{true, 1, 3}, {false, 5, 9}, {true, 3, 5}} {
				if mdEscapeIter(p, q.a, c, q.i, q.n, prev, next, slash, nbsp).kind != r {
					panic(fmt.Sprintf("markdownEscape: blank byte %d between %d and %d: decision depends on allowHTML or on the position", c, prev, next))
				}
			}
			switch r {
			case 0:
				return false
			case 2:
				return true
			}
			panic(fmt.Sprintf("markdownEscape: blank byte %d: unexpected kind %d in the interior", c, r))
		}
		emitBlank("gen_md_blank_next_nbsp", "escapers.go markdownEscape: for blank byte c in the interior (previous byte 'a'), the next bytes d for which esc = nbsp", func(c, d int64) bool { return interior(c, 'a', d) })
		emitBlank("gen_md_blank_prev_nbsp", "escapers.go markdownEscape: for blank byte c in the interior (next byte 'a'), the previous bytes d for which esc = nbsp", func(c, d int64) bool { return interior(c, d, 'a') })
		// the decision is the disjunction of the two neighbour conditions: checked on a grid of neighbour pairs
		indep := true
		probe := []int64{0, 9, 10, 13, 32, 'a', '\\', 0xa0, 0xc2, 255}
		for _, c := range blanks {
			for _, x := range probe {
				for _, y := range probe {
					if interior(c, x, y) != (interior(c, x, 'a') || interior(c, 'a', y)) {
						indep = false
					}
				}
			}
		}
		fmt.Fprintf(b, "(* the interior decision equals (previous forces) || (next forces) on a grid of %d x %d neighbour pairs *)\nDefinition gen_md_blank_neighbours_independent : bool := %s.\n\n", len(probe), len(probe), coqBool(indep))

		// HTML comment / CDATA openers
		for _, q := range []struct{ fn, name string }{{"isHTMLComment", "comment"}, {"isCDATA", "cdata"}} {
			fd := mustFunc(p, q.fn)
			lit := uniqueStringLit(fd)
			minlen := int64(-1)
			for n := int64(0); n <= 64 && minlen < 0; n++ {
				e := newEnv(p)
				e.vars[localObj(p, fd, "p")] = constant.MakeInt64(0)
				e.byname["len(s)"] = constant.MakeInt64(n)
				k := e.run(fd.Body.List)
				if k == stopReturn {
					if len(e.ret) != 1 || constant.BoolVal(e.ret[0]) {
						return fmt.Errorf("%s: returns true without comparing", q.fn)
					}
					continue
				}
				minlen = n
			}
			if minlen < 0 {
				return fmt.Errorf("%s: length guard not found", q.fn)
			}
			// the loop count: `for i := range K`
			ls := loops(fd.Body)
			cnt := int64(-1)
			if len(ls) == 1 {
				if rs, ok := ls[0].(*ast.RangeStmt); ok {
					if v := newEnv(p).eval(rs.X); v != nil && v.Kind() == constant.Int {
						cnt = i64(v)
					}
				}
			}
			if cnt < 0 {
				return fmt.Errorf("%s: `for i := range K` not found", q.fn)
			}
			fmt.Fprintf(b, "(* escapers.go %s: the literal compared, the smallest len(s)-p that passes the length guard, the number of bytes compared *)\nDefinition gen_md_%s_open : list N := %s.\nDefinition gen_md_%s_minlen : N := %d.\nDefinition gen_md_%s_count : N := %d.\n\n", q.fn, q.name, coqBytes(lit), q.name, minlen, q.name, cnt)
		}

		// the comment and CDATA branches of markdownEscape: index arithmetic
		fd := mustFunc(p, "markdownEscape")
		idx := callsTo(fd.Body, "strings.Index")
		if len(idx) != 2 {
			return fmt.Errorf("markdownEscape: expected 2 calls of strings.Index, found %d", len(idx))
		}
		branch := func(comment bool) (openAdv, closeAdv, lastOff int64, pat string) {
			e := newEnv(p)
			bindParams(e, fd, map[string]constant.Value{"allowHTML": constant.MakeBool(true)})
			const i0, p0 = 10, 7
			iobj, lobj := localObj(p, fd, "i"), localObj(p, fd, "last")
			e.vars[iobj] = constant.MakeInt64(i0)
			e.vars[lobj] = constant.MakeInt64(i0)
			e.byname["s[i]"] = constant.MakeInt64('<')
			e.byname["isHTMLComment(s, i)"] = constant.MakeBool(comment)
			e.byname["isCDATA(s, i)"] = constant.MakeBool(!comment)
			e.byname["err != nil"] = constant.MakeBool(false)
			which := idx[0]
			if !comment {
				which = idx[1]
			}
			e.byname[types.ExprString(which)] = constant.MakeInt64(-1)
			// with p = -1 the branch must return (the error); remember i there
			k := e.run(loopBody(loops(fd.Body)[0]).List)
			if k != stopUnknown && k != stopReturn {
				panic(fmt.Sprintf("markdownEscape: branch with a missing terminator does not return (%d)", k))
			}
			openAdv = i64(e.vars[iobj]) - i0
			e2 := newEnv(p)
			bindParams(e2, fd, map[string]constant.Value{"allowHTML": constant.MakeBool(true)})
			e2.vars[iobj] = constant.MakeInt64(i0)
			e2.vars[lobj] = constant.MakeInt64(i0)
			for k, v := range e.byname {
				e2.byname[k] = v
			}
			e2.byname[types.ExprString(which)] = constant.MakeInt64(p0)
			if k := e2.run(loopBody(loops(fd.Body)[0]).List); k != stopContinue {
				panic(fmt.Sprintf("markdownEscape: comment/CDATA branch does not end with continue (%d: %s)", k, e2.why))
			}
			closeAdv = i64(e2.vars[iobj]) - i0 - openAdv - p0
			lastOff = i64(e2.vars[lobj]) - i64(e2.vars[iobj])
			if len(which.Args) != 2 {
				panic("strings.Index: 2 arguments expected")
			}
			pv := e.eval(which.Args[1])
			if pv == nil {
				panic("strings.Index: pattern not constant")
			}
			return openAdv, closeAdv, lastOff, constant.StringVal(pv)
		}
		oa, ca, lo, pat := branch(true)
		fmt.Fprintf(b, "(* escapers.go markdownEscape, comment branch: i += %d; p = Index(s[i:], pat); i += p + %d; last - i afterwards = %d (last untouched when = -(open+p+close)) *)\n", oa, ca, lo)
		fmt.Fprintf(b, "Definition gen_md_comment_open_adv : N := %d.\nDefinition gen_md_comment_close : list N := %s.\nDefinition gen_md_comment_close_adv : N := %d.\n", oa, coqBytes(pat), ca)
		fmt.Fprintf(b, "Definition gen_md_comment_keeps_last : bool := %s.\n\n", coqBool(lo == -(oa+7+ca)))
		oa, ca, lo, pat = branch(false)
		fmt.Fprintf(b, "(* escapers.go markdownEscape, CDATA branch: i += %d; p = Index(s[i:], pat); i += p + %d; last = i + %d *)\n", oa, ca, lo)
		fmt.Fprintf(b, "Definition gen_md_cdata_open_adv : N := %d.\nDefinition gen_md_cdata_close : list N := %s.\nDefinition gen_md_cdata_close_adv : N := %d.\nDefinition gen_md_cdata_last_off : N := %d.\n", oa, coqBytes(pat), ca, lo)
		// the recursive call passes allowHTML = false
		rec := callsTo(fd.Body, "markdownEscape")
		recFalse := len(rec) == 1 && len(rec[0].Args) == 3
		if recFalse {
			v := newEnv(p).eval(rec[0].Args[2])
			recFalse = v != nil && v.Kind() == constant.Bool && !constant.BoolVal(v)
		}
		fmt.Fprintf(b, "Definition gen_md_cdata_recursive_call_allowHTML_false : bool := %s.\n\n", coqBool(recFalse))

		// the tag loop: (quote, byte) -> break / new quote, for every reachable quote value
		ls := loops(fd.Body)
		qobj := localObj(p, fd, "quote")
		step := func(q, c int64) int64 { // 256 = break
			e := newEnv(p)
			e.vars[qobj] = constant.MakeInt64(q)
			e.byname["s[i]"] = constant.MakeInt64(c)
			switch k := e.run(loopBody(ls[1]).List); k {
			case stopBreak:
				return 256
			case stopNone:
				return i64(e.vars[qobj])
			default:
				panic(fmt.Sprintf("markdownEscape tag loop, quote %d byte %d: not evaluable (%d: %s)", q, c, k, e.why))
			}
		}
		reach := []int64{0}
		seen := map[int64]bool{0: true}
		for k := 0; k < len(reach); k++ {
			for c := int64(0); c < 256; c++ {
				if r := step(reach[k], c); r != 256 && !seen[r] {
					seen[r] = true
					reach = append(reach, r)
				}
			}
		}
		sort.Slice(reach, func(i, j int) bool { return reach[i] < reach[j] })
		fmt.Fprintf(b, "(* escapers.go markdownEscape, tag loop: for every reachable value q of quote, the bytes c that change the state: (c, 256) = break, (c, q2) = quote becomes q2 *)\nDefinition gen_md_tag_step : list (N * list (N * N)) := [")
		for k, q := range reach {
			if k > 0 {
				b.WriteString(";")
			}
			fmt.Fprintf(b, "\n  (%d, [", q)
			first := true
			for c := int64(0); c < 256; c++ {
				if r := step(q, c); r != q {
					if !first {
						b.WriteString("; ")
					}
					first = false
					fmt.Fprintf(b, "(%d, %d)", c, r)
				}
			}
			b.WriteString("])")
		}
		b.WriteString("].\n\n")

		// markdownCodeBlockEscape
		cb := mustFunc(p, "markdownCodeBlockEscape")
		cls := loops(cb.Body)
		if len(cls) != 1 {
			return fmt.Errorf("markdownCodeBlockEscape: expected 1 loop, found %d", len(cls))
		}
		cbI, cbL := localObj(p, cb, "i"), localObj(p, cb, "last")
		cbIter := func(c, next int64, n int64) (isNL bool, iAdv int64) {
			e := newEnv(p)
			iobj, lobj := cbI, cbL
			e.vars[iobj] = constant.MakeInt64(0)
			e.vars[lobj] = constant.MakeInt64(-5)
			e.byname["s[i]"] = constant.MakeInt64(c)
			e.byname["len(s)"] = constant.MakeInt64(n)
			if n > 1 {
				e.byname["s[i+1]"] = constant.MakeInt64(next)
				e.byname["s[i + 1]"] = constant.MakeInt64(next)
			}
			e.byname["err != nil"] = constant.MakeBool(false)
			e.byname["spaces"] = constant.MakeBool(false)
			if k := e.run(loopBody(cls[0]).List); k != stopNone {
				panic(fmt.Sprintf("markdownCodeBlockEscape byte %d: not evaluable (%d: %s)", c, k, e.why))
			}
			iv, lv := i64(e.vars[iobj]), i64(e.vars[lobj])
			if lv == -5 {
				if iv != 0 {
					panic("markdownCodeBlockEscape: i changes without a write")
				}
				return false, 0
			}
			if lv != iv+1 {
				panic(fmt.Sprintf("markdownCodeBlockEscape byte %d: last = %d after the write, i = %d", c, lv, iv))
			}
			return true, iv
		}
		emitByteSet(b, "gen_mdcb_newline", "escapers.go markdownCodeBlockEscape: bytes after which the indent is written (last = i+1)", func(c int64) bool {
			nl, _ := cbIter(c, 'a', 2)
			nl1, _ := cbIter(c, 'a', 1)
			if nl != nl1 {
				panic("markdownCodeBlockEscape: decision depends on the length")
			}
			return nl
		})
		emitByteSet(b, "gen_mdcb_pair_next", "escapers.go markdownCodeBlockEscape: bytes d such that a newline followed by d is written as a pair before the indent (i advanced)", func(d int64) bool {
			r := false
			for c := int64(0); c < 256; c++ {
				if nl, adv := cbIter(c, d, 2); nl && adv != 0 {
					if adv != 1 {
						panic("markdownCodeBlockEscape: i advanced by more than one")
					}
					r = true
				}
			}
			return r
		})
		// the indents: w.Write(X) in the two branches of `if spaces`
		var ind [2]string
		found := false
		ast.Inspect(loopBody(cls[0]), func(n ast.Node) bool {
			is, ok := n.(*ast.IfStmt)
			if !ok || types.ExprString(is.Cond) != "spaces" || is.Else == nil {
				return true
			}
			get := func(n ast.Node) string {
				cs := callsTo(n, "w.Write")
				if len(cs) != 1 || len(cs[0].Args) != 1 {
					panic("markdownCodeBlockEscape: expected one w.Write(x) in each branch of `if spaces`")
				}
				id, ok := cs[0].Args[0].(*ast.Ident)
				if !ok {
					panic("markdownCodeBlockEscape: w.Write argument is not a variable")
				}
				return pkgBytesVar(p, id.Name)
			}
			ind[0], ind[1] = get(is.Else), get(is.Body)
			found = true
			return false
		})
		if !found {
			return fmt.Errorf("markdownCodeBlockEscape: `if spaces { … } else { … }` not found")
		}
		fmt.Fprintf(b, "(* escapers.go markdownCodeBlockEscape: the indent written after a newline for spaces = false / true *)\nDefinition gen_mdcb_indent_tab : list N := %s.\nDefinition gen_mdcb_indent_spaces : list N := %s.\n", coqBytes(ind[0]), coqBytes(ind[1]))
		return nil
	})
}

// ---- C29: cmd/scriggo mdescape.go and the guard of appendReplacement ----

func init() {
	register("Facts_linkdest", func(w *world, b *bytes.Buffer) error {
		p := w.pkg("cmd/scriggo")
		emitByteSet(b, "gen_mdurl_escapable", "mdescape.go isMarkdownEscapable", boolFunc(p, "isMarkdownEscapable"))

		// markdownURLEscape: the byte searched, the byte written, and the next bytes that double it
		ue := mustFunc(p, "markdownURLEscape")
		ib := callsTo(ue.Body, "strings.IndexByte")
		if len(ib) != 1 || len(ib[0].Args) != 2 {
			return fmt.Errorf("markdownURLEscape: expected one strings.IndexByte(s, c)")
		}
		sv := newEnv(p).eval(ib[0].Args[1])
		if sv == nil {
			return fmt.Errorf("markdownURLEscape: searched byte not constant")
		}
		fmt.Fprintf(b, "(* mdescape.go markdownURLEscape: the byte searched by strings.IndexByte *)\nDefinition gen_mdurl_esc_search : N := %d.\n\n", i64(sv))
		uls := loops(ue.Body)
		if len(uls) != 1 {
			return fmt.Errorf("markdownURLEscape: expected 1 loop, found %d", len(uls))
		}
		ueIter := func(n, next int64) (written []int64, sAdv bool) {
			e := newEnv(p)
			e.byname[types.ExprString(ib[0])] = constant.MakeInt64(0)
			e.byname["len(s)"] = constant.MakeInt64(n)
			if n > 1 {
				e.byname["s[i+1]"] = constant.MakeInt64(next)
				e.byname["s[i + 1]"] = constant.MakeInt64(next)
			}
			k := e.run(loopBody(uls[0]).List)
			if k != stopNone {
				panic(fmt.Sprintf("markdownURLEscape: loop body not evaluable (%d: %s)", k, e.why))
			}
			for _, ef := range e.effects {
				switch ef.fn {
				case "b.WriteByte":
					if len(ef.args) != 1 || ef.args[0] == nil {
						panic("markdownURLEscape: b.WriteByte of a non-constant")
					}
					written = append(written, i64(ef.args[0]))
				case "b.WriteString":
				default:
					panic("markdownURLEscape: unexpected call " + ef.fn)
				}
			}
			return written, true
		}
		wl, _ := ueIter(1, 0)
		if len(wl) != 1 {
			return fmt.Errorf("markdownURLEscape: a final backslash is not doubled by one WriteByte")
		}
		fmt.Fprintf(b, "(* mdescape.go markdownURLEscape: the byte written after a final searched byte *)\nDefinition gen_mdurl_esc_written : N := %d.\n\n", wl[0])
		emitByteSet(b, "gen_mdurl_esc_doubles", "mdescape.go markdownURLEscape: next bytes d after which the searched byte is doubled (the same byte is written)", func(d int64) bool {
			ws, _ := ueIter(2, d)
			if len(ws) > 1 || (len(ws) == 1 && ws[0] != wl[0]) {
				panic("markdownURLEscape: unexpected bytes written")
			}
			return len(ws) == 1
		})

		// markdownUnescape: one iteration on (s[i], s[i+1]) in the interior
		un := mustFunc(p, "markdownUnescape")
		nls := loops(un.Body)
		if len(nls) != 1 {
			return fmt.Errorf("markdownUnescape: expected 1 loop, found %d", len(nls))
		}
		iobj, lobj := localObj(p, un, "i"), localObj(p, un, "last")
		// class: 0 nothing, 1 the next byte is written and skipped, 2 a constant byte is written and the next skipped
		unIter := func(c, d int64, hasNext bool) (class int64, wr int64) {
			e := newEnv(p)
			e.vars[iobj] = constant.MakeInt64(3)
			e.vars[lobj] = constant.MakeInt64(3)
			e.byname["s[i]"] = constant.MakeInt64(c)
			if hasNext {
				e.byname["len(s)"] = constant.MakeInt64(9)
				e.byname["s[i+1]"] = constant.MakeInt64(d)
				e.byname["s[i + 1]"] = constant.MakeInt64(d)
			} else {
				e.byname["len(s)"] = constant.MakeInt64(4)
			}
			k := e.run(loopBody(nls[0]).List)
			if k != stopNone && k != stopContinue {
				panic(fmt.Sprintf("markdownUnescape (%d,%d): not evaluable (%d: %s)", c, d, k, e.why))
			}
			adv := i64(e.vars[iobj]) - 3
			if len(e.effects) == 0 {
				if adv != 0 || i64(e.vars[lobj]) != 3 {
					panic("markdownUnescape: index moved without a write")
				}
				return 0, 0
			}
			if len(e.effects) != 1 || adv != 1 || i64(e.vars[lobj]) != 5 {
				panic(fmt.Sprintf("markdownUnescape (%d,%d): unexpected effects %v, i+%d", c, d, e.effects, adv))
			}
			ef := e.effects[0]
			switch ef.fn {
			case "b.Write":
				return 1, 0
			case "b.WriteByte":
				if ef.args[0] == nil {
					panic("markdownUnescape: WriteByte of a non-constant")
				}
				return 2, i64(ef.args[0])
			}
			panic("markdownUnescape: unexpected call " + ef.fn)
		}
		// the slice written in class 1 is s[i+1 : i+2]: checked on the printed form
		okSlice := false
		for _, cexp := range callsTo(un.Body, "b.Write") {
			if len(cexp.Args) == 1 {
				t := strings.ReplaceAll(types.ExprString(cexp.Args[0]), " ", "")
				if t == "s[i+1:i+2]" {
					okSlice = true
				}
			}
		}
		fmt.Fprintf(b, "(* mdescape.go markdownUnescape: the escape case writes s[i+1 : i+2] *)\nDefinition gen_mdurl_unesc_writes_next : bool := %s.\n\n", coqBool(okSlice))
		var cls [256][256]int8
		var wrs [256][256]int64
		for c := int64(0); c < 256; c++ {
			for d := int64(0); d < 256; d++ {
				cl, wr := unIter(c, d, true)
				cls[c][d], wrs[c][d] = int8(cl), wr
			}
		}
		fmt.Fprintf(b, "(* mdescape.go markdownUnescape: pairs (c, d) for which d is written in place of c d *)\nDefinition gen_mdurl_unesc_escape : list (N * list N) := [")
		first := true
		for c := int64(0); c < 256; c++ {
			var ds []int64
			for d := int64(0); d < 256; d++ {
				if cls[c][d] == 1 {
					ds = append(ds, d)
				}
			}
			if len(ds) > 0 {
				if !first {
					b.WriteString(";")
				}
				first = false
				fmt.Fprintf(b, "\n  (%d, %s)", c, coqNList(ds))
			}
		}
		b.WriteString("].\n\n")
		fmt.Fprintf(b, "(* mdescape.go markdownUnescape: triples (c, d, w): the pair c d is replaced by the byte w *)\nDefinition gen_mdurl_unesc_subst : list (N * (N * N)) := [")
		first = true
		for c := int64(0); c < 256; c++ {
			for d := int64(0); d < 256; d++ {
				if cls[c][d] == 2 {
					if !first {
						b.WriteString("; ")
					}
					first = false
					fmt.Fprintf(b, "(%d, (%d, %d))", c, d, wrs[c][d])
				}
			}
		}
		b.WriteString("].\n\n")
		lastOK := true
		for c := int64(0); c < 256; c++ {
			if cl, _ := unIter(c, 0, false); cl != 0 {
				lastOK = false
			}
		}
		fmt.Fprintf(b, "(* mdescape.go markdownUnescape: the last byte of the input is never part of a pair *)\nDefinition gen_mdurl_unesc_last_plain : bool := %s.\n\n", coqBool(lastOK))

		// appendReplacement: the guard returns exactly when start < 0 || stop <= start || stop > len(src)
		ar := findMethod(p, "linkDestinationReplacer", "appendReplacement")
		if ar == nil {
			return fmt.Errorf("linkDestinationReplacer.appendReplacement not found")
		}
		guard := true
		for st := int64(-2); st <= 5; st++ {
			for sp := int64(-2); sp <= 6; sp++ {
				for n := int64(0); n <= 5; n++ {
					e := newEnv(p)
					bindParams(e, ar, map[string]constant.Value{"start": constant.MakeInt64(st), "stop": constant.MakeInt64(sp)})
					e.byname["len(src)"] = constant.MakeInt64(n)
					k := e.run(ar.Body.List[:1])
					returns := k == stopReturn
					if k != stopReturn && k != stopNone {
						return fmt.Errorf("appendReplacement: first statement is not the range guard (%s)", e.why)
					}
					if returns != (st < 0 || sp <= st || sp > n) {
						guard = false
					}
				}
			}
		}
		fmt.Fprintf(b, "(* linkdestination.go appendReplacement: the first statement returns iff start < 0 || stop <= start || stop > len(src) (grid -2..5 x -2..6 x 0..5) *)\nDefinition gen_ld_guard_ok : bool := %s.\n\n", coqBool(guard))

		// applyReplacements: the loop skips r iff r.start < prev, and prev becomes r.stop
		ap := findMethod(p, "linkDestinationReplacer", "applyReplacements")
		if ap == nil {
			return fmt.Errorf("linkDestinationReplacer.applyReplacements not found")
		}
		als := loops(ap.Body)
		if len(als) != 1 {
			return fmt.Errorf("applyReplacements: expected 1 loop, found %d", len(als))
		}
		pobj := localObj(p, ap, "prev")
		skipOK := true
		for st := int64(-2); st <= 5; st++ {
			for pv := int64(0); pv <= 5; pv++ {
				e := newEnv(p)
				e.vars[pobj] = constant.MakeInt64(pv)
				e.byname["r.start"] = constant.MakeInt64(st)
				e.byname["r.stop"] = constant.MakeInt64(77)
				k := e.run(loopBody(als[0]).List)
				switch k {
				case stopContinue:
					if !(st < pv) || i64(e.vars[pobj]) != pv {
						skipOK = false
					}
				case stopNone:
					if st < pv || i64(e.vars[pobj]) != 77 || len(e.effects) != 2 || e.effects[0].fn != "dst.Write" || e.effects[1].fn != "dst.WriteString" {
						skipOK = false
					}
				default:
					return fmt.Errorf("applyReplacements: loop body not evaluable (%s)", e.why)
				}
			}
		}
		fmt.Fprintf(b, "(* linkdestination.go applyReplacements: an element is skipped iff r.start < prev; otherwise dst.Write, dst.WriteString and prev = r.stop *)\nDefinition gen_ld_apply_loop_ok : bool := %s.\n", coqBool(skipOK))
		return nil
	})
}
