package main

// Facts about the syntax tree package:
//
//   - the schema: every struct type of package ast that is a node (its pointer
//     implements ast.Node) or is reachable from one through fields, with its
//     fields flattened and classified from go/types (scalar / optional child /
//     list of children) together with the kinds each field admits;
//   - the per-kind selectors that astutil/clone.go applies: an abstract
//     interpretation of the case clauses of CloneNode and CloneExpression (and
//     of the ast constructors they call) that records, for every field of the
//     record a case builds, where its value comes from;
//   - the per-kind selectors of astutil/walk.go: the fields each case of Walk
//     passes to Walk, in order;
//   - the operator tables (precedence, spelling, unary/binary) used by C27.
//
// Anything the interpreter does not understand is an error naming the place.

import (
	"bytes"
	"fmt"
	"go/ast"
	"go/constant"
	"go/token"
	"go/types"
	"os"
	"path/filepath"
	"sort"
	"strings"

	"golang.org/x/tools/go/packages"
)

// ---------------------------------------------------------------- schema

type astField struct {
	name   string
	id     int
	class  int // 0 scalar, 1 optional child, 2 list of children
	static []string
	typ    types.Type
	ref    bool // scalar held by reference (a byte slice)
}

type astKind struct {
	name   string
	id     int
	named  *types.Named
	isNode bool
	isExpr bool
	fields []*astField
	byName map[string]*astField
}

type astSchema struct {
	pkg      *types.Package
	kinds    []*astKind
	byName   map[string]*astKind
	nodeI    *types.Interface
	exprI    *types.Interface
	posNamed *types.Named
}

func astInternalField(name string) bool {
	return name == "Upvars" || name == "Reflect" || name == "IR" || strings.HasPrefix(name, "IR.")
}

func (s *astSchema) pkgStruct(t types.Type) (*types.Named, bool) {
	n, ok := t.(*types.Named)
	if !ok || n.Obj().Pkg() != s.pkg {
		return nil, false
	}
	_, ok = n.Underlying().(*types.Struct)
	return n, ok
}

func buildAstSchema(p *packages.Package) *astSchema {
	s := &astSchema{pkg: p.Types, byName: map[string]*astKind{}}
	scope := p.Types.Scope()
	iface := func(name string) *types.Interface {
		o := scope.Lookup(name)
		if o == nil {
			panic("ast." + name + " not found")
		}
		i, ok := o.Type().Underlying().(*types.Interface)
		if !ok {
			panic("ast." + name + " is not an interface")
		}
		return i
	}
	s.nodeI, s.exprI = iface("Node"), iface("Expression")
	// the type returned by Node.Pos is the position record, not a node
	for i := 0; i < s.nodeI.NumMethods(); i++ {
		m := s.nodeI.Method(i)
		if m.Name() == "Pos" {
			r := m.Type().(*types.Signature).Results().At(0).Type()
			if pt, ok := r.(*types.Pointer); ok {
				s.posNamed, _ = pt.Elem().(*types.Named)
			}
		}
	}
	if s.posNamed == nil {
		panic("ast.Node.Pos() *Position not found")
	}
	cand := map[string]*astKind{}
	for _, name := range scope.Names() {
		tn, ok := scope.Lookup(name).(*types.TypeName)
		if !ok {
			continue
		}
		n, ok := s.pkgStruct(tn.Type())
		if !ok {
			continue
		}
		k := &astKind{name: name, named: n, byName: map[string]*astField{}}
		ptr := types.NewPointer(n)
		k.isNode = types.Implements(ptr, s.nodeI) && n != s.posNamed
		k.isExpr = types.Implements(ptr, s.exprI)
		cand[name] = k
	}
	implementers := func(i *types.Interface) []string {
		var out []string
		for name, k := range cand {
			if k.isNode && types.Implements(types.NewPointer(k.named), i) {
				out = append(out, name)
			}
		}
		sort.Strings(out)
		return out
	}
	var flatten func(k *astKind, st *types.Struct, prefix string)
	flatten = func(k *astKind, st *types.Struct, prefix string) {
		for i := 0; i < st.NumFields(); i++ {
			f := st.Field(i)
			name := prefix + f.Name()
			if astInternalField(name) {
				continue
			}
			t := f.Type()
			af := &astField{name: name, typ: t}
			switch u := t.(type) {
			case *types.Pointer:
				if n, ok := s.pkgStruct(u.Elem()); ok {
					af.class, af.static = 1, []string{n.Obj().Name()}
				}
			case *types.Slice:
				et := u.Elem()
				if pt, ok := et.(*types.Pointer); ok {
					if n, ok := s.pkgStruct(pt.Elem()); ok {
						af.class, af.static = 2, []string{n.Obj().Name()}
					}
				} else if n, ok := s.pkgStruct(et); ok {
					af.class, af.static = 2, []string{n.Obj().Name()}
				} else if it, ok := et.Underlying().(*types.Interface); ok && !it.Empty() {
					af.class, af.static = 2, implementers(it)
				} else if b, ok := et.Underlying().(*types.Basic); ok && b.Kind() == types.Uint8 {
					af.ref = true
				} else {
					panic(fmt.Sprintf("ast.%s.%s: unsupported slice type %s", k.name, name, t))
				}
			case *types.Named:
				if _, ok := s.pkgStruct(u); ok {
					flatten(k, u.Underlying().(*types.Struct), name+".")
					continue
				}
				if it, ok := u.Underlying().(*types.Interface); ok && u.Obj().Pkg() == s.pkg {
					af.class, af.static = 1, implementers(it)
				}
			case *types.Struct:
				flatten(k, u, name+".")
				continue
			case *types.Map, *types.Chan, *types.Signature:
				panic(fmt.Sprintf("ast.%s.%s: unsupported field type %s (not classified internal)", k.name, name, t))
			}
			k.fields = append(k.fields, af)
			k.byName[name] = af
		}
	}
	for _, k := range cand {
		flatten(k, k.named.Underlying().(*types.Struct), "")
	}
	// kinds: the nodes and what is reachable from them
	incl := map[string]bool{}
	var visit func(name string)
	visit = func(name string) {
		if incl[name] {
			return
		}
		incl[name] = true
		for _, f := range cand[name].fields {
			for _, st := range f.static {
				visit(st)
			}
		}
	}
	for name, k := range cand {
		if k.isNode {
			visit(name)
		}
	}
	var names []string
	for n := range incl {
		names = append(names, n)
	}
	sort.Strings(names)
	for i, n := range names {
		k := cand[n]
		k.id = i
		for j, f := range k.fields {
			f.id = j
		}
		s.kinds = append(s.kinds, k)
		s.byName[n] = k
	}
	return s
}

// kindOfType returns the kind named by a pointer-to-struct (or struct) type of package ast.
func (s *astSchema) kindOfType(t types.Type) *astKind {
	if p, ok := t.(*types.Pointer); ok {
		t = p.Elem()
	}
	if n, ok := s.pkgStruct(t); ok {
		return s.byName[n.Obj().Name()]
	}
	return nil
}

// ---------------------------------------------------------------- abstract values

type aval interface{}

type aNil struct{}

// aPath is the original value found at path from the root record of the
// case ("*" steps into the elements of a list).
type aPath struct {
	path []string
	typ  types.Type
}

// aVia is the result of a clone function applied to the original at path.
type aVia struct {
	path    []string
	fn      string
	nilsafe bool
}

// aRec is a record built by a composite literal.
type aRec struct {
	kind    *astKind
	fields  map[string]aval
	guarded bool // built under a nil check of its source
}

// aView is a by-value struct embedded in a record (fields prefix.x of rec).
type aView struct {
	rec    *aRec
	prefix string
}

type aMade struct{ filled bool } // make([]T, n) or an empty list

type aList struct {
	src  []string
	elem aval
}

type aIndex struct{ src []string }

type aConst struct{ text string }

type aCopied struct{ path []string } // a fresh copy of the byte slice at path

type aBad struct{ why string }

func pathStr(p []string) string { return strings.Join(p, "/") }

func hasPrefix(p, pre []string) bool {
	if len(p) < len(pre) {
		return false
	}
	for i := range pre {
		if p[i] != pre[i] {
			return false
		}
	}
	return true
}

func appendPath(p []string, e ...string) []string {
	out := make([]string, 0, len(p)+len(e))
	out = append(out, p...)
	return append(out, e...)
}

// ---------------------------------------------------------------- interpreter

type cloneCtxKey struct {
	ctx  int
	kind string
}

type cloneInterp struct {
	w       *world
	s       *astSchema
	util    *packages.Package // astutil
	astp    *packages.Package // ast
	fset    *token.FileSet
	ctxOfFn map[string]int
	table   map[cloneCtxKey]*ccaseOut
	ctxSig  map[string]int // inline contexts deduplicated by their content
	nextCtx int
	nilRoot map[string]bool // dispatcher returns nil for a nil interface argument
}

type ccaseOut struct {
	kind *astKind
	kids []string // Coq text per child field
	scal []string
	text string
}

type frame struct {
	ci      *cloneInterp
	pkg     *packages.Package
	vars    map[types.Object]aval
	guards  [][]string
	loops   [][]string
	ret     aval
	done    bool
	parent  *frame
	nilsafe map[string]bool // paths checked against nil with an early return
	where   string
}

func (f *frame) pos(n ast.Node) string {
	p := f.ci.fset.Position(n.Pos())
	return fmt.Sprintf("%s:%d", filepath.Base(p.Filename), p.Line)
}

func (f *frame) fail(n ast.Node, format string, a ...any) {
	panic(fmt.Sprintf("%s (%s): %s", f.pos(n), f.where, fmt.Sprintf(format, a...)))
}

func (f *frame) lookup(o types.Object) (aval, bool) {
	for fr := f; fr != nil; fr = fr.parent {
		if v, ok := fr.vars[o]; ok {
			return v, true
		}
	}
	return nil, false
}

func (f *frame) set(o types.Object, v aval) {
	for fr := f; fr != nil; fr = fr.parent {
		if _, ok := fr.vars[o]; ok {
			fr.vars[o] = v
			return
		}
	}
	f.vars[o] = v
}

func (f *frame) guarded(p []string) bool {
	for fr := f; fr != nil; fr = fr.parent {
		for _, g := range fr.guards {
			if hasPrefix(p, g) {
				return true
			}
		}
		if fr.nilsafe[pathStr(p)] {
			return true
		}
	}
	return false
}

func (f *frame) obj(id *ast.Ident) types.Object {
	if o := f.pkg.TypesInfo.Defs[id]; o != nil {
		return o
	}
	return f.pkg.TypesInfo.Uses[id]
}

func (f *frame) typeOf(x ast.Expr) types.Type { return f.pkg.TypesInfo.TypeOf(x) }

// fieldStep extends a path (or a record view) by the field selection sel.
func (f *frame) selectField(x ast.Expr, base aval, sel *types.Selection, n ast.Node) aval {
	// walk the implicit embedded fields, then the field itself
	idx := sel.Index()
	t := sel.Recv()
	cur := base
	for _, i := range idx {
		for {
			if p, ok := t.(*types.Pointer); ok {
				t = p.Elem()
				continue
			}
			break
		}
		st, ok := t.Underlying().(*types.Struct)
		if !ok {
			f.fail(n, "selection through non-struct %s", t)
		}
		fld := st.Field(i)
		cur = f.step(cur, fld, n)
		t = fld.Type()
	}
	return cur
}

func isByValueStruct(t types.Type) bool {
	_, ok := t.Underlying().(*types.Struct)
	return ok
}

func (f *frame) step(cur aval, fld *types.Var, n ast.Node) aval {
	name := fld.Name()
	switch c := cur.(type) {
	case aPath:
		p := c.path
		// a by-value struct holder joins its fields with a dot
		if c.typ != nil && isByValueStruct(c.typ) && len(p) > 0 && p[len(p)-1] != "*" {
			q := appendPath(p[:len(p)-1], p[len(p)-1]+"."+name)
			return aPath{q, fld.Type()}
		}
		return aPath{appendPath(p, name), fld.Type()}
	case *aRec:
		if isByValueStruct(fld.Type()) {
			return aView{c, name + "."}
		}
		v, ok := c.fields[name]
		if !ok {
			return aNil{}
		}
		return v
	case aView:
		if isByValueStruct(fld.Type()) {
			return aView{c.rec, c.prefix + name + "."}
		}
		v, ok := c.rec.fields[c.prefix+name]
		if !ok {
			return aNil{}
		}
		return v
	case aNil:
		f.fail(n, "field %s of a nil value", name)
	}
	f.fail(n, "field %s of %T", name, cur)
	return nil
}

func (f *frame) eval(x ast.Expr) aval {
	switch x := x.(type) {
	case *ast.ParenExpr:
		return f.eval(x.X)
	case *ast.Ident:
		if x.Name == "nil" {
			return aNil{}
		}
		if tv, ok := f.pkg.TypesInfo.Types[x]; ok && tv.Value != nil {
			return aConst{constText(tv.Value)}
		}
		o := f.obj(x)
		if v, ok := f.lookup(o); ok {
			return v
		}
		f.fail(x, "unknown variable %s", x.Name)
	case *ast.BasicLit:
		tv := f.pkg.TypesInfo.Types[x]
		return aConst{constText(tv.Value)}
	case *ast.TypeAssertExpr:
		return f.eval(x.X)
	case *ast.StarExpr:
		return f.eval(x.X)
	case *ast.SelectorExpr:
		if tv, ok := f.pkg.TypesInfo.Types[x]; ok && tv.Value != nil {
			return aConst{constText(tv.Value)}
		}
		sel := f.pkg.TypesInfo.Selections[x]
		if sel == nil {
			f.fail(x, "unsupported qualified identifier %s", exprText(f.ci.fset, x))
		}
		if sel.Kind() != types.FieldVal {
			f.fail(x, "method value %s", exprText(f.ci.fset, x))
		}
		return f.selectField(x, f.eval(x.X), sel, x)
	case *ast.IndexExpr:
		base := f.eval(x.X)
		idx := f.eval(x.Index)
		ix, ok := idx.(aIndex)
		if !ok {
			f.fail(x, "index %s is not a range index", exprText(f.ci.fset, x.Index))
		}
		switch b := base.(type) {
		case aPath:
			if pathStr(b.path) != pathStr(ix.src) {
				f.fail(x, "index of a range over %s applied to %s", pathStr(ix.src), pathStr(b.path))
			}
			return aPath{appendPath(b.path, "*"), f.typeOf(x)}
		case aList:
			return b.elem
		}
		f.fail(x, "index of %T", base)
	case *ast.UnaryExpr:
		if x.Op == token.AND {
			if cl, ok := x.X.(*ast.CompositeLit); ok {
				return f.composite(cl)
			}
		}
		f.fail(x, "unsupported unary expression %s", exprText(f.ci.fset, x))
	case *ast.CompositeLit:
		return f.composite(x)
	case *ast.CallExpr:
		return f.call(x)
	}
	f.fail(x, "unsupported expression %s (%T)", exprText(f.ci.fset, x), x)
	return nil
}

func constText(v constant.Value) string {
	switch v.Kind() {
	case constant.String:
		return constant.StringVal(v)
	case constant.Bool:
		if constant.BoolVal(v) {
			return "true"
		}
		return "false"
	}
	return v.ExactString()
}

func (f *frame) composite(cl *ast.CompositeLit) aval {
	t := f.typeOf(cl)
	if _, ok := t.Underlying().(*types.Slice); ok {
		if len(cl.Elts) != 0 {
			f.fail(cl, "non-empty slice literal")
		}
		return aMade{}
	}
	k := f.ci.s.kindOfType(t)
	if k == nil {
		f.fail(cl, "composite literal of %s", t)
	}
	r := &aRec{kind: k, fields: map[string]aval{}}
	st := k.named.Underlying().(*types.Struct)
	for i, e := range cl.Elts {
		var fld *types.Var
		var val ast.Expr
		if kv, ok := e.(*ast.KeyValueExpr); ok {
			name := kv.Key.(*ast.Ident).Name
			for j := 0; j < st.NumFields(); j++ {
				if st.Field(j).Name() == name {
					fld = st.Field(j)
				}
			}
			val = kv.Value
		} else {
			fld, val = st.Field(i), e
		}
		if fld == nil {
			f.fail(e, "field not found")
		}
		f.setField(r, "", fld, val)
	}
	// built under a nil check that covers everything it is built from
	var ps [][]string
	pathsOf(r, &ps)
	if len(ps) > 0 {
		for _, g := range f.allGuards() {
			all := true
			for _, p := range ps {
				all = all && hasPrefix(p, g)
			}
			if all {
				r.guarded = true
			}
		}
	}
	return r
}

// setField stores the value of expression val into field fld (below prefix) of r.
func (f *frame) setField(r *aRec, prefix string, fld *types.Var, val ast.Expr) {
	name := prefix + fld.Name()
	if isByValueStruct(fld.Type()) {
		// a struct held by value: copy its (flattened) fields
		st := fld.Type().Underlying().(*types.Struct)
		if cl, ok := val.(*ast.CompositeLit); ok {
			if len(cl.Elts) != 0 {
				f.fail(val, "non-empty by-value struct literal")
			}
			return // zero value
		}
		v := f.eval(val)
		p, ok := v.(aPath)
		if !ok {
			f.fail(val, "by-value struct from %T", v)
		}
		for j := 0; j < st.NumFields(); j++ {
			sub := st.Field(j)
			if isByValueStruct(sub.Type()) {
				f.fail(val, "nested by-value struct")
			}
			r.fields[name+"."+sub.Name()] = f.step(p, sub, val)
		}
		return
	}
	r.fields[name] = f.eval(val)
}

var cloneDispatchers = map[string]bool{}

func (f *frame) call(c *ast.CallExpr) aval {
	// conversions
	if tv, ok := f.pkg.TypesInfo.Types[c.Fun]; ok && tv.IsType() {
		return f.eval(c.Args[0])
	}
	switch fn := c.Fun.(type) {
	case *ast.Ident:
		switch fn.Name {
		case "make":
			return aMade{filled: len(c.Args) == 2}
		case "len", "cap":
			return aConst{"?"}
		case "append":
			base := f.eval(c.Args[0])
			if len(c.Args) != 2 || len(f.loops) == 0 {
				f.fail(c, "append outside a range loop")
			}
			src := f.loops[len(f.loops)-1]
			if l, ok := base.(aList); ok && pathStr(l.src) != pathStr(src) {
				return aBad{"list appended from two sources"}
			}
			return aList{src, f.eval(c.Args[1])}
		case "panic":
			f.done = true
			f.ret = nil
			return aNil{}
		}
		o := f.obj(fn)
		if fo, ok := o.(*types.Func); ok {
			return f.callFunc(c, fo, nil)
		}
	case *ast.SelectorExpr:
		if sel := f.pkg.TypesInfo.Selections[fn]; sel != nil {
			// method call
			recv := f.eval(fn.X)
			return f.callMethod(c, fn, sel, recv)
		}
		if fo, ok := f.pkg.TypesInfo.Uses[fn.Sel].(*types.Func); ok {
			if fo.Pkg().Path() == "fmt" {
				return aConst{"?"}
			}
			return f.callFunc(c, fo, nil)
		}
	}
	f.fail(c, "unsupported call %s", exprText(f.ci.fset, c))
	return nil
}

func (ci *cloneInterp) declOf(fo *types.Func) (*packages.Package, *ast.FuncDecl) {
	for _, p := range []*packages.Package{ci.util, ci.astp} {
		if p.Types != fo.Pkg() {
			continue
		}
		for _, file := range p.Syntax {
			for _, d := range file.Decls {
				if fd, ok := d.(*ast.FuncDecl); ok && p.TypesInfo.Defs[fd.Name] == fo {
					return p, fd
				}
			}
		}
	}
	return nil, nil
}

// hasTypeSwitchOnParam reports whether fd dispatches on the dynamic type of its first parameter.
func hasTypeSwitch(fd *ast.FuncDecl) *ast.TypeSwitchStmt {
	for _, s := range fd.Body.List {
		if ts, ok := s.(*ast.TypeSwitchStmt); ok {
			return ts
		}
	}
	return nil
}

func (f *frame) callFunc(c *ast.CallExpr, fo *types.Func, recv aval) aval {
	pkg, fd := f.ci.declOf(fo)
	if fd == nil {
		f.fail(c, "function %s has no source", fo.FullName())
	}
	if hasTypeSwitch(fd) != nil && recv == nil {
		// a clone dispatcher applied to an original value
		if len(c.Args) != 1 {
			f.fail(c, "dispatcher %s with %d arguments", fo.Name(), len(c.Args))
		}
		arg := f.eval(c.Args[0])
		p, ok := arg.(aPath)
		if !ok {
			if _, isNil := arg.(aNil); isNil {
				return aNil{}
			}
			f.fail(c, "%s applied to %T", fo.Name(), arg)
		}
		_, isIface := f.typeOf(c.Args[0]).Underlying().(*types.Interface)
		safe := f.guarded(p.path) || (isIface && f.ci.nilRoot[fo.Name()])
		return aVia{p.path, fo.Name(), safe}
	}
	// interpret the body inline
	nf := &frame{ci: f.ci, pkg: pkg, vars: map[types.Object]aval{}, nilsafe: map[string]bool{}, where: f.where + ">" + fo.Name()}
	// the callee sees the guards and loops of the caller
	nf.guards = append(nf.guards, f.allGuards()...)
	nf.loops = f.loops
	i := 0
	for _, fl := range fd.Type.Params.List {
		for _, nm := range fl.Names {
			if i >= len(c.Args) {
				f.fail(c, "too few arguments")
			}
			nf.vars[pkg.TypesInfo.Defs[nm]] = f.eval(c.Args[i])
			i++
		}
	}
	if recv != nil {
		nf.vars[pkg.TypesInfo.Defs[fd.Recv.List[0].Names[0]]] = recv
	}
	nf.block(fd.Body.List)
	if nf.ret == nil {
		return aNil{}
	}
	return nf.ret
}

func (f *frame) allGuards() [][]string {
	var out [][]string
	for fr := f; fr != nil; fr = fr.parent {
		out = append(out, fr.guards...)
		for p := range fr.nilsafe {
			out = append(out, strings.Split(p, "/"))
		}
	}
	return out
}

func (f *frame) callMethod(c *ast.CallExpr, fn *ast.SelectorExpr, sel *types.Selection, recv aval) aval {
	fo := sel.Obj().(*types.Func)
	// receiver: follow the implicit embedded fields
	idx := sel.Index()
	t := sel.Recv()
	if _, isIface := t.Underlying().(*types.Interface); isIface {
		// dynamic type: the kind of the root record
		var k *astKind
		switch r := recv.(type) {
		case aPath:
			if len(r.path) != 0 {
				f.fail(c, "interface method on a non-root value")
			}
			k = f.rootKind()
		case *aRec:
			k = r.kind
		default:
			f.fail(c, "interface method on %T", recv)
		}
		pt := types.NewPointer(k.named)
		obj, index, _ := types.LookupFieldOrMethod(pt, true, fo.Pkg(), fo.Name())
		m, ok := obj.(*types.Func)
		if !ok {
			f.fail(c, "method %s not found on %s", fo.Name(), k.name)
		}
		fo, idx, t = m, index, pt
	}
	cur := recv
	for _, i := range idx[:len(idx)-1] {
		for {
			if p, ok := t.(*types.Pointer); ok {
				t = p.Elem()
				continue
			}
			break
		}
		fld := t.Underlying().(*types.Struct).Field(i)
		cur = f.step(cur, fld, c)
		t = fld.Type()
	}
	return f.callFunc(c, fo, cur)
}

func (f *frame) rootKind() *astKind {
	for fr := f; fr != nil; fr = fr.parent {
		if k, ok := fr.vars[nil].(*astKind); ok {
			return k
		}
	}
	return nil
}

func (f *frame) block(list []ast.Stmt) {
	for _, s := range list {
		if f.done {
			return
		}
		f.stmt(s)
	}
}

func (f *frame) child() *frame {
	return &frame{ci: f.ci, pkg: f.pkg, vars: map[types.Object]aval{}, parent: f, loops: f.loops, nilsafe: map[string]bool{}, where: f.where}
}

func (f *frame) finish(c *frame) {
	if c.done {
		f.done, f.ret = true, c.ret
	}
}

func (f *frame) stmt(s ast.Stmt) {
	switch s := s.(type) {
	case *ast.DeclStmt:
		gd := s.Decl.(*ast.GenDecl)
		for _, sp := range gd.Specs {
			vs, ok := sp.(*ast.ValueSpec)
			if !ok {
				f.fail(s, "unsupported declaration")
			}
			for i, nm := range vs.Names {
				var v aval = aNil{}
				if i < len(vs.Values) {
					v = f.eval(vs.Values[i])
				} else if _, isSlice := f.pkg.TypesInfo.Defs[nm].Type().Underlying().(*types.Slice); isSlice {
					v = aMade{}
				}
				f.vars[f.pkg.TypesInfo.Defs[nm]] = v
			}
		}
	case *ast.AssignStmt:
		if len(s.Lhs) != len(s.Rhs) {
			f.fail(s, "unsupported assignment")
		}
		for i := range s.Lhs {
			f.assign(s, s.Lhs[i], s.Rhs[i], s.Tok == token.DEFINE)
		}
	case *ast.ExprStmt:
		call, ok := s.X.(*ast.CallExpr)
		if !ok {
			f.fail(s, "unsupported statement")
		}
		if id, ok := call.Fun.(*ast.Ident); ok && id.Name == "copy" {
			src, ok := f.eval(call.Args[1]).(aPath)
			dst, ok2 := call.Args[0].(*ast.Ident)
			if !ok || !ok2 {
				f.fail(s, "unsupported copy")
			}
			f.set(f.obj(dst), aCopied{src.path})
			return
		}
		f.eval(call)
	case *ast.ReturnStmt:
		f.done = true
		if len(s.Results) == 1 {
			f.ret = f.eval(s.Results[0])
		} else if len(s.Results) == 0 {
			f.ret = nil
		} else {
			f.fail(s, "multiple results")
		}
	case *ast.IfStmt:
		if s.Init != nil || s.Else != nil {
			f.fail(s, "unsupported if statement")
		}
		be, ok := s.Cond.(*ast.BinaryExpr)
		if !ok || (be.Op != token.NEQ && be.Op != token.EQL) {
			f.fail(s, "unsupported condition %s", exprText(f.ci.fset, s.Cond))
		}
		if id, ok := be.Y.(*ast.Ident); !ok || id.Name != "nil" {
			f.fail(s, "unsupported condition %s", exprText(f.ci.fset, s.Cond))
		}
		v := f.eval(be.X)
		if be.Op == token.NEQ {
			c := f.child()
			switch v := v.(type) {
			case aPath:
				c.guards = append(c.guards, v.path)
			case aNil:
				return
			}
			c.block(s.Body.List)
			f.finish(c)
			return
		}
		// x == nil
		switch v := v.(type) {
		case aNil:
			c := f.child()
			c.block(s.Body.List)
			f.finish(c)
		case aMade:
			c := f.child()
			c.block(s.Body.List)
			f.finish(c)
		case aPath:
			// `if x == nil { return nil }`: the code tolerates an absent value
			if len(s.Body.List) == 1 {
				if r, ok := s.Body.List[0].(*ast.ReturnStmt); ok && len(r.Results) == 1 {
					if id, ok := r.Results[0].(*ast.Ident); ok && id.Name == "nil" {
						f.nilsafe[pathStr(v.path)] = true
						return
					}
				}
			}
			// otherwise a default for a missing value: not taken for a present one
		default:
			// value present: body skipped
		}
	case *ast.RangeStmt:
		src, ok := f.eval(s.X).(aPath)
		if !ok {
			f.fail(s, "range over %s", exprText(f.ci.fset, s.X))
		}
		c := f.child()
		c.loops = append(append([][]string{}, f.loops...), src.path)
		if id, ok := s.Key.(*ast.Ident); ok && id.Name != "_" {
			c.vars[f.pkg.TypesInfo.Defs[id]] = aIndex{src.path}
		}
		if s.Value != nil {
			if id, ok := s.Value.(*ast.Ident); ok && id.Name != "_" {
				o := f.pkg.TypesInfo.Defs[id]
				c.vars[o] = aPath{appendPath(src.path, "*"), o.Type()}
			}
		}
		c.block(s.Body.List)
		f.finish(c)
	case *ast.TypeSwitchStmt:
		f.typeSwitch(s)
	case *ast.BlockStmt:
		c := f.child()
		c.block(s.List)
		f.finish(c)
	case *ast.EmptyStmt:
	default:
		f.fail(s, "unsupported statement %T", s)
	}
}

func (f *frame) assign(s ast.Stmt, lhs, rhs ast.Expr, define bool) {
	switch l := lhs.(type) {
	case *ast.Ident:
		v := f.eval(rhs)
		if define {
			if o := f.pkg.TypesInfo.Defs[l]; o != nil {
				f.vars[o] = v
				return
			}
		}
		f.set(f.obj(l), v)
	case *ast.IndexExpr:
		// x[i] = v
		id, ok := l.X.(*ast.Ident)
		if !ok {
			f.fail(s, "unsupported indexed assignment")
		}
		ix, ok := f.eval(l.Index).(aIndex)
		if !ok {
			f.fail(s, "index is not a range index")
		}
		o := f.obj(id)
		cur, _ := f.lookup(o)
		if cl, ok := cur.(aList); ok && pathStr(cl.src) != pathStr(ix.src) {
			f.set(o, aBad{"list written from " + pathStr(cl.src) + " and " + pathStr(ix.src)})
			return
		}
		if _, ok := cur.(aBad); ok {
			return
		}
		f.set(o, aList{ix.src, f.eval(rhs)})
	case *ast.SelectorExpr:
		// x.F = v or x[i].F = v
		var target aval
		if ie, ok := l.X.(*ast.IndexExpr); ok {
			id, ok := ie.X.(*ast.Ident)
			if !ok {
				f.fail(s, "unsupported assignment")
			}
			ix, ok := f.eval(ie.Index).(aIndex)
			if !ok {
				f.fail(s, "index is not a range index")
			}
			o := f.obj(id)
			cur, _ := f.lookup(o)
			cl, isList := cur.(aList)
			if !isList {
				et := f.typeOf(ie)
				k := f.ci.s.kindOfType(et)
				if k == nil || !isByValueStruct(et) {
					f.fail(s, "field assignment to an element of %s", et)
				}
				cl = aList{ix.src, &aRec{kind: k, fields: map[string]aval{}}}
				f.set(o, cl)
			} else if pathStr(cl.src) != pathStr(ix.src) {
				f.set(o, aBad{"list written from two sources"})
				return
			}
			target = cl.elem
		} else {
			target = f.eval(l.X)
		}
		sel := f.pkg.TypesInfo.Selections[l]
		if sel == nil || sel.Kind() != types.FieldVal {
			f.fail(s, "unsupported assignment target")
		}
		// resolve the holder of the last field
		idx := sel.Index()
		t := sel.Recv()
		cur := target
		for n, i := range idx {
			for {
				if p, ok := t.(*types.Pointer); ok {
					t = p.Elem()
					continue
				}
				break
			}
			fld := t.Underlying().(*types.Struct).Field(i)
			if n == len(idx)-1 {
				switch h := cur.(type) {
				case *aRec:
					f.setField(h, "", fld, rhs)
				case aView:
					f.setField(h.rec, h.prefix, fld, rhs)
				default:
					f.fail(s, "assignment to a field of %T", cur)
				}
				return
			}
			cur = f.step(cur, fld, s)
			t = fld.Type()
		}
	default:
		f.fail(s, "unsupported assignment target %T", lhs)
	}
}

// typeSwitch selects the clause for the root kind, in source order, as Go does.
func (f *frame) typeSwitch(ts *ast.TypeSwitchStmt) {
	k := f.rootKind()
	pt := types.NewPointer(k.named)
	var bound *ast.Ident
	if as, ok := ts.Assign.(*ast.AssignStmt); ok {
		bound = as.Lhs[0].(*ast.Ident)
	}
	var deflt *ast.CaseClause
	for _, c := range ts.Body.List {
		cc := c.(*ast.CaseClause)
		if cc.List == nil {
			deflt = cc
			continue
		}
		for _, te := range cc.List {
			t := f.typeOf(te)
			match := false
			if it, ok := t.Underlying().(*types.Interface); ok {
				match = types.Implements(pt, it)
			} else {
				match = types.Identical(t, pt)
			}
			if match {
				f.runClause(cc, bound)
				return
			}
		}
	}
	if deflt != nil {
		f.runClause(deflt, bound)
	}
}

func (f *frame) runClause(cc *ast.CaseClause, bound *ast.Ident) {
	c := f.child()
	if bound != nil {
		if o := f.pkg.TypesInfo.Implicits[cc]; o != nil {
			c.vars[o] = aPath{nil, o.Type()}
		}
	}
	c.block(cc.Body)
	f.finish(c)
}

// ---------------------------------------------------------------- from abstract values to the Coq table

func (ci *cloneInterp) ctxOf(fn string) int {
	c, ok := ci.ctxOfFn[fn]
	if !ok {
		panic("unknown clone dispatcher " + fn)
	}
	return c
}

// pathsOf collects the source paths mentioned in v.
func pathsOf(v aval, out *[][]string) {
	switch v := v.(type) {
	case aPath:
		*out = append(*out, v.path)
	case aVia:
		*out = append(*out, v.path)
	case aCopied:
		*out = append(*out, v.path)
	case aList:
		*out = append(*out, v.src)
	case *aRec:
		for _, x := range v.fields {
			pathsOf(x, out)
		}
	}
}

func (ci *cloneInterp) staticKind(root *astKind, path []string) *astKind {
	k := root
	for _, e := range path {
		if e == "*" {
			continue
		}
		fld := k.byName[e]
		if fld == nil {
			panic(fmt.Sprintf("field %s not in the schema of %s", e, k.name))
		}
		if len(fld.static) != 1 {
			return nil
		}
		k = ci.s.byName[fld.static[0]]
	}
	return k
}

// toCase converts a built record into a table case; the paths inside r are
// relative to root and must start with prefix.
func (ci *cloneInterp) toCase(root *astKind, srcKind *astKind, r *aRec, prefix []string) *ccaseOut {
	out := &ccaseOut{kind: r.kind}
	for _, fld := range r.kind.fields {
		v := r.fields[fld.name]
		if fld.class == 0 {
			out.scal = append(out.scal, fmt.Sprintf("(%d, %s)", fld.id, ci.toSval(srcKind, fld, v, prefix)))
		} else {
			out.kids = append(out.kids, fmt.Sprintf("(%d, %s)", fld.id, ci.toCval(root, srcKind, fld, v, prefix)))
		}
	}
	out.text = fmt.Sprintf("mkCcase %d [%s] [%s]", r.kind.id, strings.Join(out.kids, "; "), strings.Join(out.scal, "; "))
	return out
}

func (ci *cloneInterp) srcField(srcKind *astKind, path, prefix []string, wantElem bool) (*astField, bool) {
	if srcKind == nil || !hasPrefix(path, prefix) {
		return nil, false
	}
	rest := path[len(prefix):]
	if len(rest) == 0 {
		return nil, false
	}
	fld := srcKind.byName[rest[0]]
	if fld == nil {
		return nil, false
	}
	if wantElem {
		return fld, len(rest) == 2 && rest[1] == "*"
	}
	return fld, len(rest) == 1
}

func (ci *cloneInterp) toSval(srcKind *astKind, dst *astField, v aval, prefix []string) string {
	switch v := v.(type) {
	case nil, aNil, aMade:
		return "SConst " + coqBytes(zeroText(dst.typ))
	case aConst:
		return "SConst " + coqBytes(v.text)
	case aPath:
		if f, ok := ci.srcField(srcKind, v.path, prefix, false); ok && f.class == 0 {
			if f.ref {
				return fmt.Sprintf("SAlias %d", f.id)
			}
			return fmt.Sprintf("SCopy %d", f.id)
		}
	case aCopied:
		if f, ok := ci.srcField(srcKind, v.path, prefix, false); ok && f.class == 0 {
			return fmt.Sprintf("SCopy %d", f.id)
		}
	}
	return "SBad"
}

// zeroText is the canonical text of the zero value of a scalar field.
func zeroText(t types.Type) string {
	if b, ok := t.Underlying().(*types.Basic); ok {
		switch {
		case b.Info()&types.IsBoolean != 0:
			return "false"
		case b.Info()&types.IsNumeric != 0:
			return "0"
		}
	}
	return ""
}

func (ci *cloneInterp) inlineCtx(srcKind *astKind, c *ccaseOut) int {
	sig := srcKind.name + "|" + c.text
	if id, ok := ci.ctxSig[sig]; ok {
		return id
	}
	id := ci.nextCtx
	ci.nextCtx++
	ci.ctxSig[sig] = id
	ci.table[cloneCtxKey{id, srcKind.name}] = c
	return id
}

func (ci *cloneInterp) toCval(root, srcKind *astKind, dst *astField, v aval, prefix []string) string {
	switch v := v.(type) {
	case nil, aNil, aMade:
		if m, ok := v.(aMade); ok && m.filled {
			return fmt.Sprintf("CBad (* %s: site 1 %T *)", dst.name, v)
		}
		return "CNil"
	case aVia:
		if f, ok := ci.srcField(srcKind, v.path, prefix, false); ok && f.class == 1 {
			return fmt.Sprintf("CVia %d %d %s", f.id, ci.ctxOf(v.fn), coqBool(v.nilsafe))
		}
	case aPath:
		if f, ok := ci.srcField(srcKind, v.path, prefix, false); ok && f.class != 0 {
			return fmt.Sprintf("CShare %d", f.id)
		}
	case aList:
		f, ok := ci.srcField(srcKind, v.src, prefix, false)
		if !ok || f.class != 2 {
			return fmt.Sprintf("CBad (* %s: site 2 %T *)", dst.name, v)
		}
		switch e := v.elem.(type) {
		case aVia:
			if f2, ok := ci.srcField(srcKind, e.path, prefix, true); ok && f2 == f {
				return fmt.Sprintf("CVia %d %d true", f.id, ci.ctxOf(e.fn))
			}
		case aPath:
			if f2, ok := ci.srcField(srcKind, e.path, prefix, true); ok && f2 == f {
				return fmt.Sprintf("CShare %d", f.id)
			}
		case *aRec:
			ek := ci.staticKind(root, appendPath(v.src, "*"))
			if ek == nil {
				return fmt.Sprintf("CBad (* %s: site 3 %T *)", dst.name, v)
			}
			var ps [][]string
			pathsOf(e, &ps)
			np := appendPath(v.src, "*")
			for _, p := range ps {
				if !hasPrefix(p, np) {
					return fmt.Sprintf("CBad (* %s: site 4 %T *)", dst.name, v)
				}
			}
			c := ci.toCase(root, ek, e, np)
			return fmt.Sprintf("CVia %d %d true", f.id, ci.inlineCtx(ek, c))
		}
	case *aRec:
		var ps [][]string
		pathsOf(v, &ps)
		if len(ps) == 0 {
			// built from constants only
			c := ci.toCase(root, nil, v, prefix)
			sig := "new|" + c.text
			id, ok := ci.ctxSig[sig]
			if !ok {
				id = ci.nextCtx
				ci.nextCtx++
				ci.ctxSig[sig] = id
				ci.table[cloneCtxKey{id, v.kind.name}] = c
			}
			return fmt.Sprintf("CNew %d %d", id, v.kind.id)
		}
		// all the paths must go through one field of the source
		for _, p := range ps {
			if !hasPrefix(p, prefix) || len(p) == len(prefix) || !hasPrefix(p, appendPath(prefix, ps[0][len(prefix)])) {
				return fmt.Sprintf("CBad (* %s: site 5 %T *)", dst.name, v)
			}
		}
		fname := ps[0][len(prefix)]
		f := srcKind.byName[fname]
		if f == nil || f.class != 1 {
			return fmt.Sprintf("CBad (* %s: site 6 %T *)", dst.name, v)
		}
		np := appendPath(prefix, fname)
		ek := ci.staticKind(root, np)
		if ek == nil {
			return fmt.Sprintf("CBad (* %s: site 7 %T *)", dst.name, v)
		}
		c := ci.toCase(root, ek, v, np)
		return fmt.Sprintf("CVia %d %d %s", f.id, ci.inlineCtx(ek, c), coqBool(v.guarded))
	}
	return fmt.Sprintf("CBad (* %s: site 8 %T *)", dst.name, v)
}

// runDispatcher interprets dispatcher fn for root kind k and returns the record it builds
// (nil when it panics), or the dispatcher it delegates to.
func (ci *cloneInterp) runDispatcher(fn string, k *astKind) (res aval) {
	fd := mustFunc(ci.util, fn)
	f := &frame{ci: ci, pkg: ci.util, vars: map[types.Object]aval{}, nilsafe: map[string]bool{}, where: fn + "/" + k.name}
	f.vars[nil] = k
	for _, fl := range fd.Type.Params.List {
		for _, nm := range fl.Names {
			o := ci.util.TypesInfo.Defs[nm]
			f.vars[o] = aPath{nil, o.Type()}
		}
	}
	f.block(fd.Body.List)
	if f.nilsafe[""] {
		ci.nilRoot[fn] = true
	}
	return f.ret
}

func genCloneTable(w *world, s *astSchema, b *bytes.Buffer) {
	util := w.pkg("ast/astutil")
	ci := &cloneInterp{w: w, s: s, util: util, astp: w.pkg("ast"), fset: util.Fset,
		ctxOfFn: map[string]int{}, table: map[cloneCtxKey]*ccaseOut{}, ctxSig: map[string]int{}, nilRoot: map[string]bool{}}
	// dispatchers: the functions of astutil/clone.go with a type switch
	var disp []string
	for _, file := range util.Syntax {
		if filepath.Base(util.Fset.Position(file.Pos()).Filename) != "clone.go" {
			continue
		}
		for _, d := range file.Decls {
			if fd, ok := d.(*ast.FuncDecl); ok && fd.Recv == nil && hasTypeSwitch(fd) != nil {
				disp = append(disp, fd.Name.Name)
			}
		}
	}
	want := []string{"CloneNode", "CloneExpression"}
	for i, n := range want {
		found := false
		for _, d := range disp {
			found = found || d == n
		}
		if !found {
			panic("astutil/clone.go: dispatcher " + n + " not found")
		}
		ci.ctxOfFn[n] = i
	}
	for _, d := range disp {
		if _, ok := ci.ctxOfFn[d]; !ok {
			ci.ctxOfFn[d] = len(ci.ctxOfFn)
		}
	}
	ci.nextCtx = len(ci.ctxOfFn)
	// a first pass finds out which dispatchers tolerate a nil argument
	for fn := range ci.ctxOfFn {
		ci.runDispatcher(fn, s.byName["Identifier"])
	}
	ci.table, ci.ctxSig, ci.nextCtx = map[cloneCtxKey]*ccaseOut{}, map[string]int{}, len(ci.ctxOfFn)
	type deleg struct {
		key cloneCtxKey
		to  string
	}
	var delegs []deleg
	fns := make([]string, 0, len(ci.ctxOfFn))
	for fn := range ci.ctxOfFn {
		fns = append(fns, fn)
	}
	sort.Slice(fns, func(i, j int) bool { return ci.ctxOfFn[fns[i]] < ci.ctxOfFn[fns[j]] })
	for _, fn := range fns {
		for _, k := range s.kinds {
			if !k.isNode {
				continue
			}
			if fn == "CloneExpression" && !k.isExpr {
				continue // not admitted by the parameter type
			}
			res := ci.runDispatcher(fn, k)
			key := cloneCtxKey{ci.ctxOfFn[fn], k.name}
			switch r := res.(type) {
			case *aRec:
				ci.table[key] = ci.toCase(k, k, r, nil)
			case aVia:
				if len(r.path) != 0 {
					panic(fmt.Sprintf("%s/%s returns the clone of a child", fn, k.name))
				}
				delegs = append(delegs, deleg{key, r.fn})
			case nil:
				// no case: panics
			default:
				panic(fmt.Sprintf("%s/%s returns %T", fn, k.name, res))
			}
		}
	}
	for _, d := range delegs {
		if c, ok := ci.table[cloneCtxKey{ci.ctxOf(d.to), d.key.kind}]; ok {
			ci.table[d.key] = c
		}
	}
	fmt.Fprintf(b, "(* astutil/clone.go: contexts %v; further contexts are records built inline. *)\n", ci.ctxOfFn)
	fmt.Fprintf(b, "Definition ast_clone_root_nilsafe : list (N * bool) := [")
	for i, fn := range fns {
		if i > 0 {
			b.WriteString("; ")
		}
		fmt.Fprintf(b, "(%d, %s)", ci.ctxOfFn[fn], coqBool(ci.nilRoot[fn]))
	}
	b.WriteString("].\n")
	var keys []cloneCtxKey
	for k := range ci.table {
		keys = append(keys, k)
	}
	sort.Slice(keys, func(i, j int) bool {
		if keys[i].ctx != keys[j].ctx {
			return keys[i].ctx < keys[j].ctx
		}
		return keys[i].kind < keys[j].kind
	})
	fmt.Fprintf(b, "Definition ast_clone_table : list ((N * N) * ccase) := [")
	for i, k := range keys {
		if i > 0 {
			b.WriteString(";")
		}
		fmt.Fprintf(b, "\n  (* ctx %d, %s *) ((%d, %d), %s)", k.ctx, k.kind, k.ctx, s.byName[k.kind].id, ci.table[k].text)
	}
	b.WriteString("].\n\n")
}

// ---------------------------------------------------------------- walk

type walkItem struct {
	path    []string // with "*" for list elements and "*#n" loop marks removed into loop
	loop    []int    // loop instances enclosing the call
	nilsafe bool
	guards  [][]string // paths checked against nil around the call
}

type walkInterp struct {
	s      *astSchema
	util   *packages.Package
	table  map[cloneCtxKey]string
	ctxSig map[string]int
	next   int
	loopID int
}

func (wi *walkInterp) fail(n ast.Node, format string, a ...any) {
	p := wi.util.Fset.Position(n.Pos())
	panic(fmt.Sprintf("%s:%d: %s", filepath.Base(p.Filename), p.Line, fmt.Sprintf(format, a...)))
}

type wenv struct {
	vars   map[types.Object][]string
	guards [][]string
}

func (wi *walkInterp) path(e *wenv, x ast.Expr) ([]string, bool) {
	switch x := x.(type) {
	case *ast.Ident:
		o := wi.util.TypesInfo.Uses[x]
		p, ok := e.vars[o]
		return p, ok
	case *ast.SelectorExpr:
		sel := wi.util.TypesInfo.Selections[x]
		if sel == nil || sel.Kind() != types.FieldVal {
			return nil, false
		}
		p, ok := wi.path(e, x.X)
		if !ok {
			return nil, false
		}
		t := sel.Recv()
		for _, i := range sel.Index() {
			for {
				if pp, ok := t.(*types.Pointer); ok {
					t = pp.Elem()
					continue
				}
				break
			}
			fld := t.Underlying().(*types.Struct).Field(i)
			p = appendPath(p, fld.Name())
			t = fld.Type()
		}
		return p, true
	}
	return nil, false
}

func (wi *walkInterp) stmts(e *wenv, list []ast.Stmt, loops []int, out *[]walkItem) {
	for _, s := range list {
		switch s := s.(type) {
		case *ast.ExprStmt:
			call, ok := s.X.(*ast.CallExpr)
			if !ok {
				wi.fail(s, "unsupported statement")
			}
			id, ok := call.Fun.(*ast.Ident)
			if !ok || id.Name != "Walk" || len(call.Args) != 2 {
				wi.fail(s, "unsupported call %s", exprText(wi.util.Fset, call))
			}
			p, ok := wi.path(e, call.Args[1])
			if !ok {
				wi.fail(s, "Walk of %s", exprText(wi.util.Fset, call.Args[1]))
			}
			_, isIface := wi.util.TypesInfo.TypeOf(call.Args[1]).Underlying().(*types.Interface)
			safe := isIface
			for _, g := range e.guards {
				if pathStr(g) == pathStr(p) {
					safe = true
				}
			}
			*out = append(*out, walkItem{p, append([]int{}, loops...), safe, e.guards})
		case *ast.IfStmt:
			be, ok := s.Cond.(*ast.BinaryExpr)
			if !ok || be.Op != token.NEQ || s.Else != nil || s.Init != nil {
				wi.fail(s, "unsupported if statement")
			}
			if id, ok := be.Y.(*ast.Ident); !ok || id.Name != "nil" {
				wi.fail(s, "unsupported condition")
			}
			p, ok := wi.path(e, be.X)
			if !ok {
				wi.fail(s, "unsupported condition")
			}
			e2 := &wenv{vars: e.vars, guards: append(append([][]string{}, e.guards...), p)}
			wi.stmts(e2, s.Body.List, loops, out)
		case *ast.RangeStmt:
			p, ok := wi.path(e, s.X)
			if !ok {
				wi.fail(s, "range over %s", exprText(wi.util.Fset, s.X))
			}
			wi.loopID++
			e2 := &wenv{vars: map[types.Object][]string{}, guards: e.guards}
			for k, v := range e.vars {
				e2.vars[k] = v
			}
			if s.Key != nil {
				if id, ok := s.Key.(*ast.Ident); ok && id.Name != "_" {
					wi.fail(s, "range index used")
				}
			}
			if id, ok := s.Value.(*ast.Ident); ok && id.Name != "_" {
				e2.vars[wi.util.TypesInfo.Defs[id]] = appendPath(p, fmt.Sprintf("*%d", wi.loopID))
			}
			wi.stmts(e2, s.Body.List, append(append([]int{}, loops...), wi.loopID), out)
		default:
			wi.fail(s, "unsupported statement %T", s)
		}
	}
}

// group converts items (paths relative to a record of kind k) into Coq witems.
func (wi *walkInterp) group(k *astKind, items []walkItem) string {
	var out []string
	for i := 0; i < len(items); {
		it := items[i]
		fld := k.byName[it.path[0]]
		if fld == nil || fld.class == 0 {
			panic(fmt.Sprintf("walk: %s.%s is not a child field", k.name, it.path[0]))
		}
		rest := it.path[1:]
		mark := ""
		if len(rest) > 0 && strings.HasPrefix(rest[0], "*") {
			mark, rest = rest[0], rest[1:]
		}
		if (fld.class == 2) != (mark != "") {
			panic(fmt.Sprintf("walk: %s.%s: list/element mismatch", k.name, it.path[0]))
		}
		if len(rest) == 0 {
			out = append(out, fmt.Sprintf("WVia %d 0 %s", fld.id, coqBool(it.nilsafe || fld.class == 2)))
			i++
			continue
		}
		// a run of items below the same field (and loop instance)
		var sub []walkItem
		j := i
		for j < len(items) && items[j].path[0] == it.path[0] {
			r := items[j].path[1:]
			m := ""
			if len(r) > 0 && strings.HasPrefix(r[0], "*") {
				m, r = r[0], r[1:]
			}
			if m != mark || len(r) == 0 {
				break
			}
			var gs [][]string
			for _, g := range items[j].guards {
				if len(g) > 0 && g[0] == it.path[0] {
					gs = append(gs, g[len(items[j].path)-len(r):])
				}
			}
			sub = append(sub, walkItem{r, nil, items[j].nilsafe, gs})
			j++
		}
		if len(fld.static) != 1 {
			panic(fmt.Sprintf("walk: %s.%s: descent through a field of several kinds", k.name, it.path[0]))
		}
		ek := wi.s.byName[fld.static[0]]
		text := fmt.Sprintf("mkWcase false [%s]", wi.group(ek, sub))
		sig := ek.name + "|" + text
		id, ok := wi.ctxSig[sig]
		if !ok {
			id = wi.next
			wi.next++
			wi.ctxSig[sig] = id
			wi.table[cloneCtxKey{id, ek.name}] = text
		}
		// descending through a single pointer dereferences it, unless checked
		safe := fld.class == 2
		for _, g := range it.guards {
			if len(g) == 1 && g[0] == it.path[0] {
				safe = true
			}
		}
		out = append(out, fmt.Sprintf("WVia %d %d %s", fld.id, id, coqBool(safe)))
		i = j
	}
	return strings.Join(out, "; ")
}

func genWalkTable(w *world, s *astSchema, b *bytes.Buffer) {
	util := w.pkg("ast/astutil")
	wi := &walkInterp{s: s, util: util, table: map[cloneCtxKey]string{}, ctxSig: map[string]int{}, next: 1}
	fd := mustFunc(util, "Walk")
	ts := hasTypeSwitch(fd)
	if ts == nil {
		panic("astutil.Walk: type switch not found")
	}
	// what precedes the switch must be the nil checks and the Visit call; what follows the final Visit(nil)
	for _, k := range s.kinds {
		if !k.isNode {
			continue
		}
		pt := types.NewPointer(k.named)
		var clause *ast.CaseClause
	search:
		for _, c := range ts.Body.List {
			cc := c.(*ast.CaseClause)
			for _, te := range cc.List {
				t := util.TypesInfo.TypeOf(te)
				if it, ok := t.Underlying().(*types.Interface); ok {
					if types.Implements(pt, it) {
						clause = cc
						break search
					}
				} else if types.Identical(t, pt) {
					clause = cc
					break search
				}
			}
		}
		if clause == nil {
			continue // default: panics
		}
		e := &wenv{vars: map[types.Object][]string{}}
		if o := util.TypesInfo.Implicits[clause]; o != nil {
			e.vars[o] = nil
		}
		var items []walkItem
		wi.stmts(e, clause.Body, nil, &items)
		wi.table[cloneCtxKey{0, k.name}] = fmt.Sprintf("mkWcase true [%s]", wi.group(k, items))
	}
	var keys []cloneCtxKey
	for k := range wi.table {
		keys = append(keys, k)
	}
	sort.Slice(keys, func(i, j int) bool {
		if keys[i].ctx != keys[j].ctx {
			return keys[i].ctx < keys[j].ctx
		}
		return keys[i].kind < keys[j].kind
	})
	fmt.Fprintf(b, "(* astutil/walk.go: context 0 is Walk; further contexts are records descended into without a visit. *)\n")
	fmt.Fprintf(b, "Definition ast_walk_table : list ((N * N) * wcase) := [")
	for i, k := range keys {
		if i > 0 {
			b.WriteString(";")
		}
		fmt.Fprintf(b, "\n  (* ctx %d, %s *) ((%d, %d), %s)", k.ctx, k.kind, k.ctx, s.byName[k.kind].id, wi.table[k])
	}
	b.WriteString("].\n\n")
}

// ---------------------------------------------------------------- emission

func genAstSchema(s *astSchema, b *bytes.Buffer, outDir string) {
	fmt.Fprintf(b, "From Verif Require Import AstSchema.\n\n")
	fmt.Fprintf(b, "(* ast/ast.go: record types reachable from the nodes; fields flattened; internal (IR, Upvars, Reflect) fields left out. *)\n")
	fmt.Fprintf(b, "Definition ast_schema : list kind_decl := [")
	var kindsTxt strings.Builder
	for i, k := range s.kinds {
		if i > 0 {
			b.WriteString(";")
		}
		fmt.Fprintf(b, "\n  (* %s *) mkKind %d %s %s %s [", k.name, k.id, coqBytes(k.name), coqBool(k.isNode), coqBool(k.isExpr))
		fmt.Fprintf(&kindsTxt, "%s\t%v\t%v", k.name, k.isNode, k.isExpr)
		for j, f := range k.fields {
			if j > 0 {
				b.WriteString(";")
			}
			var st []int64
			for _, n := range f.static {
				st = append(st, int64(s.byName[n].id))
			}
			fmt.Fprintf(b, "\n      mkField %d %s %d %s", f.id, coqBytes(f.name), f.class, coqNList(st))
			fmt.Fprintf(&kindsTxt, "\t%s:%d", f.name, f.class)
		}
		b.WriteString("]")
		kindsTxt.WriteString("\n")
	}
	b.WriteString("].\n\n")
	if outDir != "" {
		writeIfChanged(filepath.Join(outDir, "ast_kinds.txt"), []byte(kindsTxt.String()))
	}
}

var gofactsOutDir = func() string {
	for i, a := range os.Args {
		if a == "-out" && i+1 < len(os.Args) {
			return os.Args[i+1]
		}
		if strings.HasPrefix(a, "-out=") {
			return a[5:]
		}
	}
	return "/verif/coq/gen"
}

func init() {
	register("Facts_Ast", func(w *world, b *bytes.Buffer) error {
		s := buildAstSchema(w.pkg("ast"))
		genAstSchema(s, b, gofactsOutDir())
		genCloneTable(w, s, b)
		genWalkTable(w, s, b)
		return nil
	})
}

// ---------------------------------------------------------------- operators (C27)

func namedConsts(p *packages.Package, typeName string) (names []string, vals map[string]int64) {
	vals = map[string]int64{}
	scope := p.Types.Scope()
	for _, n := range scope.Names() {
		c, ok := scope.Lookup(n).(*types.Const)
		if !ok {
			continue
		}
		nt, ok := c.Type().(*types.Named)
		if !ok || nt.Obj().Name() != typeName || nt.Obj().Pkg() != p.Types {
			continue
		}
		v, ok := constant.Int64Val(c.Val())
		if !ok {
			continue
		}
		names = append(names, n)
		vals[n] = v
	}
	sort.Slice(names, func(i, j int) bool { return vals[names[i]] < vals[names[j]] })
	return
}

func coqBytesPairList(b *bytes.Buffer, name, comment string, rows [][2]string) {
	fmt.Fprintf(b, "(* %s *)\nDefinition %s : list (list N * N) := [", comment, name)
	for i, r := range rows {
		if i > 0 {
			b.WriteString(";")
		}
		fmt.Fprintf(b, "\n  (%s, %s)", coqBytes(r[0]), r[1])
	}
	b.WriteString("].\n\n")
}

func init() {
	register("Facts_AstOps", func(w *world, b *bytes.Buffer) error {
		ap := w.pkg("ast")
		cp := w.pkg("internal/compiler")
		names, vals := namedConsts(ap, "OperatorType")
		if len(names) == 0 {
			return fmt.Errorf("ast.OperatorType constants not found")
		}
		// OperatorType.String: the string table it indexes
		sm := findMethod(ap, "OperatorType", "String")
		if sm == nil {
			return fmt.Errorf("ast.OperatorType.String not found")
		}
		var table []string
		ast.Inspect(sm.Body, func(n ast.Node) bool {
			ix, ok := n.(*ast.IndexExpr)
			if !ok {
				return true
			}
			cl, ok := ix.X.(*ast.CompositeLit)
			if !ok {
				return true
			}
			for _, e := range cl.Elts {
				tv := ap.TypesInfo.Types[e]
				if tv.Value == nil || tv.Value.Kind() != constant.String {
					panic("OperatorType.String: non constant table entry")
				}
				table = append(table, constant.StringVal(tv.Value))
			}
			return false
		})
		if table == nil {
			return fmt.Errorf("ast.OperatorType.String: string table not found")
		}
		fmt.Fprintf(b, "(* ast.OperatorType constants *)\nDefinition gen_op_names : list (N * list N) := [")
		for i, n := range names {
			if i > 0 {
				b.WriteString(";")
			}
			fmt.Fprintf(b, "\n  (%d, %s)", vals[n], coqBytes(n))
		}
		b.WriteString("].\n\n")
		fmt.Fprintf(b, "(* ast.OperatorType.String *)\nDefinition gen_op_string : list (N * list N) := [")
		for _, n := range names {
			if v := vals[n]; int(v) >= len(table) {
				return fmt.Errorf("OperatorType.String: %s (%d) is outside the table of %d entries", n, v, len(table))
			}
		}
		// the whole table: it has entries (empty strings) for operators of the compiler that package ast does not name
		for v := range table {
			if v > 0 {
				b.WriteString(";")
			}
			fmt.Fprintf(b, "\n  (%d, %s)", v, coqBytes(table[v]))
		}
		b.WriteString("].\n\n")
		// precedences, by evaluating the Precedence methods
		bm := findMethod(ap, "BinaryOperator", "Precedence")
		um := findMethod(ap, "UnaryOperator", "Precedence")
		if bm == nil || um == nil {
			return fmt.Errorf("Precedence methods not found")
		}
		recvName := func(fd *ast.FuncDecl) string { return fd.Recv.List[0].Names[0].Name }
		fmt.Fprintf(b, "(* ast.BinaryOperator.Precedence, for the operators on which it returns *)\nDefinition gen_bin_prec : list (N * N) := [")
		first := true
		for _, n := range names {
			e := newEnv(ap)
			e.byname[recvName(bm)+".Op"] = constant.MakeInt64(vals[n])
			if k := e.run(bm.Body.List); k == stopReturn && len(e.ret) == 1 && e.ret[0] != nil {
				if !first {
					b.WriteString(";")
				}
				first = false
				fmt.Fprintf(b, " (%d, %d)", vals[n], i64(e.ret[0]))
			}
		}
		b.WriteString("].\n\n")
		{
			e := newEnv(ap)
			if k := e.run(um.Body.List); k != stopReturn || len(e.ret) != 1 || e.ret[0] == nil {
				return fmt.Errorf("UnaryOperator.Precedence is not a constant")
			}
			fmt.Fprintf(b, "(* ast.UnaryOperator.Precedence *)\nDefinition gen_un_prec : N := %d.\n\n", i64(e.ret[0]))
		}
		// the parser: tokens accepted as unary / binary operators by parseExpr and the operator each yields
		tnames, tvals := namedConsts(cp, "tokenTyp")
		_ = tnames
		tstr := map[string]string{}
		if init := findVarInit(cp, "tokenString"); init != nil {
			if cl, ok := init.(*ast.CompositeLit); ok {
				for _, e := range cl.Elts {
					kv := e.(*ast.KeyValueExpr)
					tv := cp.TypesInfo.Types[kv.Value]
					if id, ok := kv.Key.(*ast.Ident); ok && tv.Value != nil {
						tstr[id.Name] = constant.StringVal(tv.Value)
					}
				}
			}
		}
		if len(tstr) == 0 {
			return fmt.Errorf("compiler.tokenString not found")
		}
		pe := findMethod(cp, "parsing", "parseExpr")
		oft := mustFunc(cp, "operatorFromTokenType")
		if pe == nil {
			return fmt.Errorf("compiler.parsing.parseExpr not found")
		}
		opName := map[int64]string{}
		for _, n := range names {
			opName[vals[n]] = n
		}
		collect := func(binary bool) ([][2]string, error) {
			var rows [][2]string
			var err error
			found := false
			ast.Inspect(pe.Body, func(n ast.Node) bool {
				cc, ok := n.(*ast.CaseClause)
				if !ok {
					return true
				}
				has := false
				for _, s := range cc.Body {
					ast.Inspect(s, func(m ast.Node) bool {
						if _, nested := m.(*ast.CaseClause); nested {
							return false
						}
						if c, ok := m.(*ast.CallExpr); ok {
							if id, ok := c.Fun.(*ast.Ident); ok && id.Name == "operatorFromTokenType" && len(c.Args) == 2 {
								if a, ok := c.Args[1].(*ast.Ident); ok && a.Name == fmt.Sprint(binary) {
									has = true
								}
							}
						}
						return true
					})
				}
				if !has {
					return true
				}
				found = true
				for _, te := range cc.List {
					id, ok := te.(*ast.Ident)
					if !ok {
						err = fmt.Errorf("parseExpr: non identifier case")
						return false
					}
					r, ok := callFunc(cp, oft, []constant.Value{constant.MakeInt64(tvals[id.Name]), constant.MakeBool(binary)}, 0)
					if !ok || len(r) != 1 {
						err = fmt.Errorf("operatorFromTokenType(%s, %v) not evaluable", id.Name, binary)
						return false
					}
					sp, ok := tstr[id.Name]
					if !ok {
						err = fmt.Errorf("tokenString[%s] not found", id.Name)
						return false
					}
					rows = append(rows, [2]string{sp, fmt.Sprint(i64(r[0]))})
				}
				return true
			})
			if err == nil && !found {
				err = fmt.Errorf("parseExpr: no case calls operatorFromTokenType(tok.typ, %v)", binary)
			}
			return rows, err
		}
		un, err := collect(false)
		if err != nil {
			return err
		}
		bin, err := collect(true)
		if err != nil {
			return err
		}
		// the two operators that parseExpr builds without operatorFromTokenType
		special := func(opConst string) (string, error) {
			var toks []string
			ast.Inspect(pe.Body, func(n ast.Node) bool {
				cc, ok := n.(*ast.CaseClause)
				if !ok {
					return true
				}
				mentions := false
				for _, s := range cc.Body {
					ast.Inspect(s, func(m ast.Node) bool {
						if _, nested := m.(*ast.CaseClause); nested {
							return false
						}
						if se, ok := m.(*ast.SelectorExpr); ok && se.Sel.Name == opConst {
							mentions = true
						}
						return true
					})
				}
				if mentions && toks == nil {
					for _, te := range cc.List {
						if id, ok := te.(*ast.Ident); ok {
							toks = append(toks, id.Name)
						}
					}
				}
				return true
			})
			if toks == nil {
				return "", fmt.Errorf("parseExpr: no case builds ast.%s", opConst)
			}
			return strings.Join(toks, ","), nil
		}
		rt, err := special("OperatorReceive")
		if err != nil {
			return err
		}
		if !strings.Contains(","+rt+",", ",tokenArrow,") {
			return fmt.Errorf("parseExpr: OperatorReceive is not built under tokenArrow (%s)", rt)
		}
		un = append(un, [2]string{tstr["tokenArrow"], fmt.Sprint(vals["OperatorReceive"])})
		nt, err := special("OperatorNotContains")
		if err != nil {
			return err
		}
		if !strings.Contains(","+nt+",", ",tokenExtendedNot,") {
			return fmt.Errorf("parseExpr: OperatorNotContains is not built under tokenExtendedNot (%s)", nt)
		}
		bin = append(bin, [2]string{tstr["tokenExtendedNot"] + " " + tstr["tokenContains"], fmt.Sprint(vals["OperatorNotContains"])})
		coqBytesPairList(b, "gen_unary_tokens", "parseExpr: spelling of the tokens accepted where an operand is expected -> the unary operator built (tokenString, operatorFromTokenType(tok, false); <- under tokenArrow)", un)
		coqBytesPairList(b, "gen_binary_tokens", "parseExpr: spelling of the tokens accepted after an operand -> the binary operator built (operatorFromTokenType(tok, true); `not` followed by `contains`)", bin)
		for _, n := range []string{"OperatorReceive", "OperatorExtendedNot", "OperatorNotContains", "OperatorPointer"} {
			v, ok := vals[n]
			if !ok {
				return fmt.Errorf("ast.%s not found", n)
			}
			fmt.Fprintf(b, "Definition gen_%s : N := %d.\n", n, v)
		}
		return nil
	})
}
