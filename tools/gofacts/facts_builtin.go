package main

// Facts of package builtin used by C25: the per-byte behaviour of both loops
// of QueryEscape, the buffer size expression, the JSON whitespace table with
// its array length as seen through the bodies of onlyJSONWhitespace and
// trimJSONSpace, the ASCII part of isSeparator, and the constants of
// Abbreviate. Everything is obtained by evaluating the implementation's own
// statements on concrete values (eval.go).

import (
	"bytes"
	"fmt"
	"go/ast"
	"go/constant"
	"go/token"
	"go/types"
	"strings"

	"golang.org/x/tools/go/packages"
)

// stepStmts executes list statement by statement, choosing the branch of an
// `if` itself so that after(e) is called after every simple statement (used to
// read the value of an index variable at the time of each array write).
func stepStmts(e *env, list []ast.Stmt, after func()) stopKind {
	for _, s := range list {
		switch s := s.(type) {
		case *ast.BlockStmt:
			if k := stepStmts(e, s.List, after); k != stopNone {
				return k
			}
			continue
		case *ast.IfStmt:
			if s.Init != nil {
				if k := e.stmt(s.Init); k != stopNone {
					return k
				}
				after()
			}
			c := e.eval(s.Cond)
			if c == nil {
				return e.unknown("if %s", types.ExprString(s.Cond))
			}
			var k stopKind
			if constant.BoolVal(c) {
				k = stepStmts(e, s.Body.List, after)
			} else if s.Else != nil {
				k = stepStmts(e, []ast.Stmt{s.Else}, after)
			}
			if k != stopNone {
				return k
			}
			continue
		}
		k := e.stmt(s)
		after()
		if k != stopNone {
			return k
		}
	}
	return stopNone
}

func mkInt(i int64) constant.Value { return constant.MakeInt64(i) }

func init() {
	register("Facts_builtin", func(w *world, b *bytes.Buffer) error {
		p := w.pkg("builtin")
		if err := factsQueryEscape(p, b); err != nil {
			return err
		}
		if err := factsJSONSpace(p, b); err != nil {
			return err
		}
		if err := factsIsSeparator(p, b); err != nil {
			return err
		}
		return factsAbbreviate(p, b)
	})
}

func factsQueryEscape(p *packages.Package, b *bytes.Buffer) error {
	fd := mustFunc(p, "QueryEscape")
	ls := loops(fd.Body)
	if len(ls) != 2 {
		return fmt.Errorf("QueryEscape: expected 2 loops, found %d", len(ls))
	}
	// pass 1: for byte c either `continue`, or numHex += K and last = i + D.
	fmt.Fprintf(b, "(* builtin.go QueryEscape, first loop: bytes for which the body does not `continue`, with (increment of numHex, last - i) *)\nDefinition gen_QueryEscape_pass1 : list (N * (N * N)) := [")
	first := true
	for c := int64(0); c < 256; c++ {
		e := newEnv(p)
		e.byname["s[i]"] = mkInt(c)
		e.byname["i"] = mkInt(7)
		e.byname["last"] = mkInt(0)
		e.byname["numHex"] = mkInt(0)
		k := e.run(loopBody(ls[0]).List)
		if k == stopContinue {
			continue
		}
		if k != stopNone {
			return fmt.Errorf("QueryEscape pass 1, byte %d: not evaluable (%s)", c, e.why)
		}
		nh, ok1 := e.varNamed("numHex")
		la, ok2 := e.varNamed("last")
		if !ok1 || !ok2 {
			return fmt.Errorf("QueryEscape pass 1, byte %d: numHex/last not assigned", c)
		}
		if i64(nh) < 0 || i64(la)-7 < 0 {
			return fmt.Errorf("QueryEscape pass 1, byte %d: negative numHex/last", c)
		}
		if !first {
			b.WriteString(";")
		}
		first = false
		fmt.Fprintf(b, " (%d, (%d, %d))", c, i64(nh), i64(la)-7)
	}
	b.WriteString("].\n\n")
	// buffer length: make([]byte, E) with E linear in len(s) and numHex.
	var mk *ast.CallExpr
	ast.Inspect(fd.Body, func(n ast.Node) bool {
		if ce, ok := n.(*ast.CallExpr); ok {
			if id, ok := ce.Fun.(*ast.Ident); ok && id.Name == "make" && len(ce.Args) == 2 && mk == nil {
				mk = ce
			}
		}
		return true
	})
	if mk == nil {
		return fmt.Errorf("QueryEscape: make([]byte, n) not found")
	}
	bufLen := func(l, h int64) (int64, error) {
		e := newEnv(p)
		e.byname["len(s)"] = mkInt(l)
		e.byname["numHex"] = mkInt(h)
		v := e.eval(mk.Args[1])
		if v == nil {
			return 0, fmt.Errorf("QueryEscape: buffer length %s not evaluable", types.ExprString(mk.Args[1]))
		}
		return i64(v), nil
	}
	b0, err := bufLen(0, 0)
	if err != nil {
		return err
	}
	b1, _ := bufLen(1, 0)
	b2, _ := bufLen(0, 1)
	for _, t := range [][2]int64{{5, 7}, {100, 3}, {1, 1}} {
		if v, _ := bufLen(t[0], t[1]); v != b0+(b1-b0)*t[0]+(b2-b0)*t[1] {
			return fmt.Errorf("QueryEscape: buffer length is not linear in len(s), numHex")
		}
	}
	if b0 < 0 || b1 < b0 || b2 < b0 {
		return fmt.Errorf("QueryEscape: buffer length has negative coefficients")
	}
	fmt.Fprintf(b, "(* builtin.go QueryEscape: len(b) = base + per_len*len(s) + per_hex*numHex *)\nDefinition gen_QueryEscape_buf_base : N := %d.\nDefinition gen_QueryEscape_buf_per_len : N := %d.\nDefinition gen_QueryEscape_buf_per_hex : N := %d.\n\n", b0, b1-b0, b2-b0)
	// pass 2: the writes b[j+k] = v (k relative to the j at the start of the body) and the total advance of j.
	fmt.Fprintf(b, "(* builtin.go QueryEscape, second loop: for byte c the list of (offset from j, value) written to b, and the advance of j *)\nDefinition gen_QueryEscape_pass2 : list (N * (list (N * N) * N)) := [")
	for c := int64(0); c < 256; c++ {
		e2 := newEnv(p)
		e2.byname["s[i]"] = mkInt(c)
		e2.byname["j"] = mkInt(0)
		type wr struct{ off, val int64 }
		var ws []wr
		var werr error
		seen := 0
		jBefore := int64(0)
		curJ := func() int64 {
			if v, ok := e2.varNamed("j"); ok {
				return i64(v)
			}
			return 0
		}
		k2 := stepStmts(e2, loopBody(ls[1]).List, func() {
			// the effects added by the statement just executed happened with j = jBefore
			for ; seen < len(e2.effects); seen++ {
				ef := e2.effects[seen]
				if ef.fn != "assign:b[j]" || len(ef.args) != 1 || ef.args[0] == nil {
					werr = fmt.Errorf("QueryEscape pass 2, byte %d: unexpected effect %s", c, ef.fn)
					return
				}
				ws = append(ws, wr{jBefore, i64(ef.args[0])})
			}
			jBefore = curJ()
		})
		if werr != nil {
			return werr
		}
		if k2 != stopNone {
			return fmt.Errorf("QueryEscape pass 2, byte %d: body not evaluable (%s)", c, e2.why)
		}
		jv := mkInt(curJ())
		if c > 0 {
			b.WriteString(";")
		}
		fmt.Fprintf(b, "\n  (%d, ([", c)
		for i, x := range ws {
			if i > 0 {
				b.WriteString("; ")
			}
			fmt.Fprintf(b, "(%d, %d)", x.off, x.val)
		}
		fmt.Fprintf(b, "], %d))", i64(jv))
	}
	b.WriteString("].\n\n")
	return nil
}

func factsJSONSpace(p *packages.Package, b *bytes.Buffer) error {
	o := p.Types.Scope().Lookup("lookupJSONSpace")
	if o == nil {
		return fmt.Errorf("lookupJSONSpace not found")
	}
	at, ok := o.Type().Underlying().(*types.Array)
	if !ok {
		return fmt.Errorf("lookupJSONSpace is not an array")
	}
	fmt.Fprintf(b, "(* builtin.go: len(lookupJSONSpace) *)\nDefinition gen_lookupJSONSpace_len : N := %d.\n\n", at.Len())
	// onlyJSONWhitespace: loop body on s[i] = c: true = `return false`, false = goes on; absent = not evaluable (index out of range)
	body := mustLoop(p, "onlyJSONWhitespace", 0)
	fmt.Fprintf(b, "(* builtin.go onlyJSONWhitespace, loop body for s[i] = c: true when it returns false; absent when lookupJSONSpace[c] is out of range *)\nDefinition gen_onlyJSONWhitespace_step : list (N * bool) := [")
	first := true
	for c := int64(0); c < 256; c++ {
		e := newEnv(p)
		e.byname["s[i]"] = mkInt(c)
		k := e.run(body.List)
		var v bool
		switch k {
		case stopReturn:
			if len(e.ret) != 1 || constant.BoolVal(e.ret[0]) {
				return fmt.Errorf("onlyJSONWhitespace: byte %d: loop body returns something other than false", c)
			}
			v = true
		case stopNone:
			v = false
		default:
			continue
		}
		if !first {
			b.WriteString(";")
		}
		first = false
		fmt.Fprintf(b, " (%d, %s)", c, coqBool(v))
	}
	b.WriteString("].\n\n")
	// trimJSONSpace: the two loop conditions.
	fd := mustFunc(p, "trimJSONSpace")
	ls := loops(fd.Body)
	if len(ls) != 2 {
		return fmt.Errorf("trimJSONSpace: expected 2 loops, found %d", len(ls))
	}
	for n, nm := range []string{"lead", "trail"} {
		fs, ok := ls[n].(*ast.ForStmt)
		if !ok || fs.Cond == nil {
			return fmt.Errorf("trimJSONSpace: loop %d is not a conditional for", n)
		}
		idx := []string{"data[i]", "data[j]"}[n]
		fmt.Fprintf(b, "(* builtin.go trimJSONSpace, condition of loop %d with i <= j and %s = c: true = the loop goes on; absent = index out of range *)\nDefinition gen_trimJSONSpace_%s : list (N * bool) := [", n, idx, nm)
		first := true
		for c := int64(0); c < 256; c++ {
			e := newEnv(p)
			e.byname["i"] = mkInt(2)
			e.byname["j"] = mkInt(5)
			e.byname[idx] = mkInt(c)
			v := e.eval(fs.Cond)
			if v == nil {
				continue
			}
			if !first {
				b.WriteString(";")
			}
			first = false
			fmt.Fprintf(b, " (%d, %s)", c, coqBool(constant.BoolVal(v)))
		}
		b.WriteString("].\n")
		// is the element read guarded by i <= j ?  (i > j with an unknown element must give false)
		e := newEnv(p)
		e.byname["i"] = mkInt(6)
		e.byname["j"] = mkInt(5)
		v := e.eval(fs.Cond)
		guarded := v != nil && !constant.BoolVal(v)
		fmt.Fprintf(b, "(* the condition is false when i > j without reading the element *)\nDefinition gen_trimJSONSpace_%s_guarded : bool := %s.\n\n", nm, coqBool(guarded))
	}
	return nil
}

func factsIsSeparator(p *packages.Package, b *bytes.Buffer) error {
	fd := mustFunc(p, "isSeparator")
	var seps []int64
	limit := int64(-1)
	for r := int64(0); r < 1024; r++ {
		res, ok := callFunc(p, fd, []constant.Value{mkInt(r)}, 0)
		if !ok || len(res) != 1 {
			if limit < 0 {
				limit = r
			}
			continue
		}
		if limit >= 0 {
			return fmt.Errorf("isSeparator: rune %d is decided without package unicode but %d is not", r, limit)
		}
		if constant.BoolVal(res[0]) {
			seps = append(seps, r)
		}
	}
	if limit <= 0 {
		return fmt.Errorf("isSeparator: no rune needs package unicode (limit %d)", limit)
	}
	fmt.Fprintf(b, "(* builtin.go isSeparator: runes below this bound are decided without package unicode *)\nDefinition gen_isSeparator_ascii_bound : N := %d.\n", limit)
	fmt.Fprintf(b, "(* the runes below the bound for which isSeparator is true *)\nDefinition gen_isSeparator_ascii : list N := %s.\n\n", coqNList(seps))
	return nil
}

func factsAbbreviate(p *packages.Package, b *bytes.Buffer) error {
	fd := mustFunc(p, "Abbreviate")
	// the constant `spaces`
	var spaces *string
	ast.Inspect(fd.Body, func(n ast.Node) bool {
		if id, ok := n.(*ast.Ident); ok && id.Name == "spaces" {
			if c, ok := p.TypesInfo.Defs[id].(*types.Const); ok {
				s := constant.StringVal(c.Val())
				spaces = &s
			}
		}
		return true
	})
	if spaces == nil {
		return fmt.Errorf("Abbreviate: constant spaces not found")
	}
	for i := 0; i < len(*spaces); i++ {
		if (*spaces)[i] >= 0x80 {
			return fmt.Errorf("Abbreviate: spaces contains a non-ASCII byte (the model treats TrimRight/LastIndexAny bytewise)")
		}
	}
	fmt.Fprintf(b, "(* builtin.go Abbreviate: const spaces *)\nDefinition gen_Abbreviate_spaces : list N := %s.\n", coqBytes(*spaces))
	// smallest n for which a long string is not replaced by "": run the body with len(s) = rune count = 1000.
	minN := int64(-100)
	for n := int64(-4); n <= 12; n++ {
		e := newEnv(p)
		e.byname["len(s)"] = mkInt(1000)
		e.byname["utf8.RuneCountInString(s)"] = mkInt(1000)
		e.byname["n"] = mkInt(n)
		k := e.run(fd.Body.List)
		if k == stopReturn && len(e.ret) == 1 && e.ret[0].Kind() == constant.String && constant.StringVal(e.ret[0]) == "" {
			if minN != -100 {
				return fmt.Errorf("Abbreviate: the n for which \"\" is returned are not an initial segment")
			}
			continue
		}
		if k != stopUnknown {
			return fmt.Errorf("Abbreviate: n = %d: unexpected evaluation result %d", n, k)
		}
		if minN == -100 {
			minN = n
		}
	}
	if minN == -100 || minN == -4 {
		return fmt.Errorf("Abbreviate: threshold below which \"\" is returned not found")
	}
	fmt.Fprintf(b, "(* smallest n for which a string longer than n is not replaced by the empty string *)\nDefinition gen_Abbreviate_min_n : Z := %d%%Z.\n", minN)
	// the rune index at which n2 is recorded: n2 = i when p = n - mark
	ls := loops(fd.Body)
	if len(ls) != 1 {
		return fmt.Errorf("Abbreviate: expected 1 loop, found %d", len(ls))
	}
	mark := int64(-100)
	for pv := int64(0); pv <= 24; pv++ {
		e := newEnv(p)
		e.byname["n"] = mkInt(20)
		e.byname["p"] = mkInt(pv)
		e.byname["i"] = mkInt(77)
		e.byname["n2"] = mkInt(0)
		k := e.run(loopBody(ls[0]).List)
		if k != stopNone {
			return fmt.Errorf("Abbreviate: loop body not evaluable for p = %d (%s)", pv, e.why)
		}
		if v, ok := e.varNamed("n2"); ok && i64(v) == 77 {
			if mark != -100 {
				return fmt.Errorf("Abbreviate: n2 is assigned for more than one p")
			}
			mark = 20 - pv
		}
		if v, ok := e.varNamed("p"); !ok || i64(v) != pv+1 {
			return fmt.Errorf("Abbreviate: loop body does not increment p by one")
		}
	}
	if mark == -100 {
		return fmt.Errorf("Abbreviate: assignment of n2 not found")
	}
	fmt.Fprintf(b, "(* the loop records n2 = i (byte index of the current rune) when p = n - this *)\nDefinition gen_Abbreviate_mark : Z := %d%%Z.\n", mark)
	// the stripped final bytes and the suffix
	var strip []int64
	var stripIf *ast.IfStmt
	ast.Inspect(fd.Body, func(n ast.Node) bool {
		if is, ok := n.(*ast.IfStmt); ok && is.Init != nil && strings.Contains(types.ExprString(is.Cond), "s[l]") {
			stripIf = is
		}
		return true
	})
	if stripIf == nil {
		return fmt.Errorf("Abbreviate: `if l := len(s) - 1; ... s[l] ...` not found")
	}
	for c := int64(0); c < 256; c++ {
		e := newEnv(p)
		e.byname["l"] = mkInt(5)
		e.byname["s[l]"] = mkInt(c)
		v := e.eval(stripIf.Cond)
		if v == nil {
			return fmt.Errorf("Abbreviate: strip condition not evaluable for byte %d", c)
		}
		if constant.BoolVal(v) {
			strip = append(strip, c)
		}
	}
	{
		e := newEnv(p)
		e.byname["l"] = mkInt(-1)
		v := e.eval(stripIf.Cond)
		if v == nil || constant.BoolVal(v) {
			return fmt.Errorf("Abbreviate: strip condition does not exclude l = -1 before reading s[l]")
		}
	}
	fmt.Fprintf(b, "(* final bytes removed (one of them, once) before the suffix is appended *)\nDefinition gen_Abbreviate_strip : list N := %s.\n", coqNList(strip))
	var lastRet *ast.ReturnStmt
	for _, s := range fd.Body.List {
		if r, ok := s.(*ast.ReturnStmt); ok {
			lastRet = r
		}
	}
	if lastRet == nil || len(lastRet.Results) != 1 {
		return fmt.Errorf("Abbreviate: final return not found")
	}
	e := newEnv(p)
	e.byname["s"] = constant.MakeString("Q")
	v := e.eval(lastRet.Results[0])
	if v == nil || v.Kind() != constant.String || !strings.HasPrefix(constant.StringVal(v), "Q") {
		return fmt.Errorf("Abbreviate: final return is not s + suffix")
	}
	fmt.Fprintf(b, "(* the final return is s followed by this *)\nDefinition gen_Abbreviate_suffix : list N := %s.\n\n", coqBytes(constant.StringVal(v)[1:]))
	_ = token.ADD
	return nil
}
