package main

// Facts_esc: what queryEscape and pathEscape (internal/runtime/escapers.go)
// write for each byte, obtained by running their loop bodies in the partial
// evaluator, and the complete list of runes for which jsStringEscape has an
// escape (every rune 0..0x10FFFF is evaluated).

import (
	"bytes"
	"crypto/sha256"
	"encoding/hex"
	"flag"
	"fmt"
	"go/ast"
	"go/constant"
	"go/types"
	"os"
	"path/filepath"
	"sort"
	"strconv"
	"strings"

	"golang.org/x/tools/go/packages"
)

// pctLoopByte runs loop #0 of fn with s[i] = c. It returns
//
//	kind 0: the body `continue`s (the byte is passed through),
//	kind 1: esc holds a non-empty string (returned in out),
//	kind 2: esc is empty and buf[0..2] were assigned (returned in out).
func pctLoopByte(p *packages.Package, fn string, params map[string]constant.Value, c int64, extra map[string]constant.Value) (int, string) {
	fd := mustFunc(p, fn)
	ls := loops(fd.Body)
	if len(ls) < 1 {
		panic(fn + ": loop not found")
	}
	e := newEnv(p)
	bindParams(e, fd, params)
	e.byname["s[i]"] = constant.MakeInt64(c)
	e.byname["buf == nil"] = constant.MakeBool(true)
	for k, v := range extra {
		e.byname[k] = v
	}
	k := e.run(loopBody(ls[0]).List)
	switch k {
	case stopContinue:
		return 0, ""
	case stopUnknown:
		if v, ok := e.varNamed("esc"); ok && constant.StringVal(v) != "" {
			return 1, constant.StringVal(v)
		}
		buf := map[string]int64{}
		for _, ef := range e.effects {
			if len(ef.fn) > 7 && ef.fn[:7] == "assign:" && len(ef.args) == 1 && ef.args[0] != nil {
				buf[ef.fn[7:]] = i64(ef.args[0])
			}
		}
		b0, ok0 := buf["buf[0]"]
		b1, ok1 := buf["buf[1]"]
		b2, ok2 := buf["buf[2]"]
		if !ok0 || !ok1 || !ok2 {
			panic(fmt.Sprintf("%s: byte %d: reaches the write section without esc and without buf[0..2] (%s; effects %v)", fn, c, e.why, e.effects))
		}
		return 2, string([]byte{byte(b0), byte(b1), byte(b2)})
	}
	panic(fmt.Sprintf("%s: byte %d: unexpected end of loop body (%d)", fn, c, k))
}

func init() {
	register("Facts_esc", func(w *world, b *bytes.Buffer) error {
		p := w.pkg("internal/runtime")
		T, F := constant.MakeBool(true), constant.MakeBool(false)

		emitByteTable(b, "gen_queryEscape_tbl", "escapers.go queryEscape: the three bytes of buf written for byte c (absent = passed through)", func(c int64) (string, bool) {
			k, out := pctLoopByte(p, "queryEscape", nil, c, nil)
			switch k {
			case 0:
				return "", false
			case 2:
				return out, true
			}
			panic(fmt.Sprintf("queryEscape: byte %d: unexpected esc string", c))
		})

		// pathEscape, every byte but '%', for quoted = true / false.
		for _, q := range []struct {
			v    constant.Value
			name string
		}{{T, "gen_pathEscape_quoted_tbl"}, {F, "gen_pathEscape_unquoted_tbl"}} {
			emitByteTable(b, q.name, "escapers.go pathEscape("+q.v.String()+"): esc string or buf written for byte c other than '%' (absent = passed through)", func(c int64) (string, bool) {
				if c == '%' {
					return "", false
				}
				k, out := pctLoopByte(p, "pathEscape", map[string]constant.Value{"quoted": q.v}, c, nil)
				return out, k != 0
			})
		}
		// pathEscape on '%': with two following bytes d1 d2 (i+2 < len(s)) and without.
		// keep1 = bytes d1 for which '%' d1 '0' is passed through, keep2 = bytes d2 for
		// which '%' '0' d2 is; on a grid of sample pairs the decision must be the product.
		i0 := constant.MakeInt64(0)
		for _, q := range []struct {
			v    constant.Value
			name string
		}{{T, "quoted"}, {F, "unquoted"}} {
			params := map[string]constant.Value{"quoted": q.v}
			esc := map[string]bool{}
			pct := func(n, d1, d2 int64) bool {
				ex := map[string]constant.Value{"i": i0, "len(s)": constant.MakeInt64(n)}
				if n >= 3 {
					ex["s[i + 1]"] = constant.MakeInt64(d1)
					ex["s[i + 2]"] = constant.MakeInt64(d2)
				}
				k, out := pctLoopByte(p, "pathEscape", params, '%', ex)
				if k != 0 {
					esc[out] = true
				}
				return k == 0
			}
			var keep1, keep2 []int64
			in1, in2 := map[int64]bool{}, map[int64]bool{}
			for d := int64(0); d < 256; d++ {
				if pct(3, d, '0') {
					keep1 = append(keep1, d)
					in1[d] = true
				}
				if pct(3, '0', d) {
					keep2 = append(keep2, d)
					in2[d] = true
				}
			}
			grid := []int64{0, ' ', '%', '/', '0', '9', ':', '@', 'A', 'F', 'G', 'Z', '`', 'a', 'f', 'g', 'z', 0x7f, 0x80, 0xff}
			for _, d1 := range grid {
				for _, d2 := range grid {
					if pct(3, d1, d2) != (in1[d1] && in2[d2]) {
						return fmt.Errorf("pathEscape: whether '%%' is kept is not a product of conditions on the two following bytes (%d, %d)", d1, d2)
					}
				}
			}
			// fewer than two following bytes: s[i+1], s[i+2] must not be needed
			for _, n := range []int64{1, 2} {
				if pct(n, 0, 0) {
					return fmt.Errorf("pathEscape: a '%%' with fewer than two following bytes is passed through")
				}
			}
			if len(esc) != 1 {
				return fmt.Errorf("pathEscape: the escape of '%%' depends on the following bytes: %v", esc)
			}
			var e1 string
			for k := range esc {
				e1 = k
			}
			fmt.Fprintf(b, "(* escapers.go pathEscape(%s): '%%' followed by d1 d2 is passed through iff d1 is in keep1 and d2 in keep2 (evaluated per byte against a hex digit, and on a grid of pairs); otherwise, and when fewer than two bytes follow, pct_esc is written *)\n", q.name)
			fmt.Fprintf(b, "Definition gen_pathEscape_%s_pct_keep1 : list N := %s.\nDefinition gen_pathEscape_%s_pct_keep2 : list N := %s.\nDefinition gen_pathEscape_%s_pct_esc : list N := %s.\n\n",
				q.name, coqNList(keep1), q.name, coqNList(keep2), q.name, coqBytes(e1))
		}

		// jsStringEscape: every rune, so that the table of Facts_escapers is known to be complete.
		jfd := mustFunc(p, "jsStringEscape")
		jls := loops(jfd.Body)
		if len(jls) < 1 {
			return fmt.Errorf("jsStringEscape: loop not found")
		}
		jrs, ok := jls[0].(*ast.RangeStmt)
		if !ok || jrs.Value == nil {
			return fmt.Errorf("jsStringEscape: the loop is not a range over runes")
		}
		jid, ok := jrs.Value.(*ast.Ident)
		if !ok {
			return fmt.Errorf("jsStringEscape: range value is not an identifier")
		}
		jobj := p.TypesInfo.Defs[jid]
		// closed len(...) calls of the body are evaluated once (the evaluator would
		// otherwise re-read the table literal for each of the 1.1 million runes)
		pre := map[string]constant.Value{}
		ast.Inspect(jrs.Body, func(n ast.Node) bool {
			if ce, ok := n.(*ast.CallExpr); ok {
				if id, ok := ce.Fun.(*ast.Ident); ok && id.Name == "len" {
					if v := newEnv(p).eval(ce); v != nil {
						pre[types.ExprString(ce)] = v
					}
				}
			}
			return true
		})
		// The 1.1 million evaluations take a few seconds; their result is a function of
		// the package's source files, so it is kept next to the generated files under a
		// key that is the hash of those files (any edit of the package re-evaluates).
		key := jsRunesKey(p)
		cacheDir := os.TempDir()
		if f := flag.Lookup("out"); f != nil && f.Value.String() != "" {
			cacheDir = f.Value.String() // the -out directory of main
		}
		cachePath := filepath.Join(cacheDir, ".cache_jsStringEscape_runes")
		runes, hit := readRunesCache(cachePath, key)
		if !hit {
			runes = nil
			for c := int64(0); c <= 0x10FFFF; c++ {
				e := newEnv(p)
				e.vars[jobj] = constant.MakeInt64(c)
				for k, v := range pre {
					e.byname[k] = v
				}
				switch k := e.run(jrs.Body.List); k {
				case stopContinue:
				case stopUnknown:
					if v, ok := e.varNamed("esc"); !ok || constant.StringVal(v) == "" {
						return fmt.Errorf("jsStringEscape: rune %d: stopped (%s) without a known non-empty esc", c, e.why)
					}
					runes = append(runes, c)
				default:
					return fmt.Errorf("jsStringEscape: rune %d: unexpected end of loop body (%d)", c, k)
				}
			}
			writeRunesCache(cachePath, key, runes)
		}
		sort.Slice(runes, func(i, j int) bool { return runes[i] < runes[j] })
		fmt.Fprintf(b, "(* escapers.go jsStringEscape: all runes in 0..0x10FFFF for which the loop body reaches the write section *)\nDefinition gen_jsStringEscape_runes : list N := %s.\n\n", coqNList(runes))
		return nil
	})
}

const jsRunesCacheVersion = "jsrunes-v1"

// jsRunesKey hashes every source file of the package (and the evaluator's version).
func jsRunesKey(p *packages.Package) string {
	h := sha256.New()
	h.Write([]byte(jsRunesCacheVersion))
	files := append([]string{}, p.GoFiles...)
	sort.Strings(files)
	for _, f := range files {
		data, err := os.ReadFile(f)
		if err != nil {
			return "" // no caching
		}
		fmt.Fprintf(h, "\x00%s\x00%d\x00", filepath.Base(f), len(data))
		h.Write(data)
	}
	return hex.EncodeToString(h.Sum(nil))
}

func readRunesCache(path, key string) ([]int64, bool) {
	if key == "" {
		return nil, false
	}
	data, err := os.ReadFile(path)
	if err != nil {
		return nil, false
	}
	lines := strings.Split(strings.TrimSpace(string(data)), "\n")
	if len(lines) != 2 || lines[0] != key {
		return nil, false
	}
	var out []int64
	for _, f := range strings.Fields(lines[1]) {
		v, err := strconv.ParseInt(f, 10, 64)
		if err != nil {
			return nil, false
		}
		out = append(out, v)
	}
	return out, true
}

func writeRunesCache(path, key string, runes []int64) {
	if key == "" {
		return
	}
	var b strings.Builder
	b.WriteString(key + "\n")
	for _, r := range runes {
		fmt.Fprintf(&b, "%d ", r)
	}
	b.WriteString("\n")
	_ = os.WriteFile(path, []byte(b.String()), 0o644)
}
