package main

// Facts_vmexec (C01, engine vmexec): the loop-free, non-arithmetic cases of
// VM.run (internal/runtime/run.go) translated whole into Gallina functions
// over the hand-written machine state of coq/model/VmBase.v:
//
//	gen_x_OpMove, gen_x_OpLoad, gen_x_OpConcat, gen_x_OpLen,
//	gen_x_OpIndexString, gen_x_OpGoto : func -> state -> instr -> xres state
//
// every register access (vm.int, vm.intk, vm.setString, ...) becomes the
// accessor of VmBase.v with the operand and the k flag the code passes, in the
// code's evaluation order; conversions become `wrap`; switches over
// registerType(a) / the decoded value index become if-chains over the case
// constants; the decode* helpers are inlined through the integer translator of
// facts_alu.go.  Also: the frame pointer arithmetic and the stack growth test
// of OpCallFunc, the Condition numbering, stackSize.
//
// Not translated (hand-written in VmExecM.v): the fetch loop, OpCallFunc's
// frame push, OpReturn, OpCallNative/callNative, OpTypify, OpIfString.

import (
	"bytes"
	"fmt"
	"go/ast"
	"go/constant"
	"go/token"
	"go/types"
	"sort"
	"strings"

	"golang.org/x/tools/go/packages"
)

// xtr translates one case clause into a Gallina term of type `xres state`.
type xtr struct {
	p      *packages.Package
	e      *env                    // concrete evaluator for constants
	locals map[types.Object]string // pure Gallina expressions (Z, str or gval typed)
	n      int                     // fresh names
	opname string
}

func (x *xtr) fresh(prefix string) string {
	x.n++
	return fmt.Sprintf("%s%d", prefix, x.n)
}

func (x *xtr) operand(name string) (string, bool) {
	switch name {
	case "a":
		return "(i_a i)", true
	case "b":
		return "(i_b i)", true
	case "c":
		return "(i_c i)", true
	}
	return "", false
}

// kflag translates the k argument of intk/stringk/generalk.
func (x *xtr) kflag(e ast.Expr) (string, error) {
	switch types.ExprString(e) {
	case "op < 0":
		return "(kneg i)", nil
	case "true":
		return "true", nil
	case "false":
		return "false", nil
	}
	return "", fmt.Errorf("k flag %s", types.ExprString(e))
}

// binds accumulates the monadic prefix: each entry is `xbind (M) (fun v =>`.
type binds struct {
	pre []string
}

func (b *binds) bind(m, v string) { b.pre = append(b.pre, fmt.Sprintf("xbind %s (fun %s =>", m, v)) }

func (b *binds) wrap(body string) string {
	s := body
	for i := len(b.pre) - 1; i >= 0; i-- {
		s = b.pre[i] + "\n    " + s + ")"
	}
	return s
}

func isString(t types.Type) bool {
	bt, ok := t.Underlying().(*types.Basic)
	return ok && bt.Info()&types.IsString != 0
}

// expr translates a Go expression to a pure Gallina expression, adding to bs
// the reads it performs, in evaluation order.
func (x *xtr) expr(e ast.Expr, bs *binds) (string, error) {
	info := x.p.TypesInfo
	if v := x.e.eval(e); v != nil && v.Kind() == constant.Int {
		return fmt.Sprintf("(%s)", v.ExactString()), nil
	}
	switch e := e.(type) {
	case *ast.ParenExpr:
		return x.expr(e.X, bs)
	case *ast.Ident:
		if o := x.e.obj(e); o != nil {
			if t, ok := x.locals[o]; ok {
				return t, nil
			}
		}
		if t, ok := x.operand(e.Name); ok {
			return t, nil
		}
		return "", fmt.Errorf("identifier %s", e.Name)
	case *ast.BinaryExpr:
		l, err := x.expr(e.X, bs)
		if err != nil {
			return "", err
		}
		r, err := x.expr(e.Y, bs)
		if err != nil {
			return "", err
		}
		if e.Op == token.ADD && isString(info.TypeOf(e)) {
			return fmt.Sprintf("(%s ++ %s)", l, r), nil
		}
		if e.Op == token.EQL && ityOf(info.TypeOf(e.X)) != "" {
			return fmt.Sprintf("(%s =? %s)", l, r), nil
		}
		return "", fmt.Errorf("binary operator %s on %s", e.Op, info.TypeOf(e.X))
	case *ast.IndexExpr:
		// vm.fn.Values.Int[i] / String[i] / General[i]; s[i] on a string
		if se, ok := e.X.(*ast.SelectorExpr); ok && types.ExprString(se.X) == "vm.fn.Values" {
			ix, err := x.expr(e.Index, bs)
			if err != nil {
				return "", err
			}
			v := x.fresh("v")
			switch se.Sel.Name {
			case "Int":
				bs.bind(fmt.Sprintf("(const_int f %s)", ix), v)
			case "String":
				bs.bind(fmt.Sprintf("(const_str f %s)", ix), v)
			case "General":
				bs.bind(fmt.Sprintf("(const_gen f %s)", ix), v)
			default:
				return "", fmt.Errorf("unsupported:constant table %s", se.Sel.Name)
			}
			return v, nil
		}
		if isString(info.TypeOf(e.X)) {
			s, err := x.expr(e.X, bs)
			if err != nil {
				return "", err
			}
			ix, err := x.expr(e.Index, bs)
			if err != nil {
				return "", err
			}
			v := x.fresh("v")
			bs.bind(fmt.Sprintf("(str_index %s %s)", s, ix), v)
			return v, nil
		}
		return "", fmt.Errorf("index expression %s", types.ExprString(e))
	case *ast.CallExpr:
		// conversion
		if tv, ok := info.Types[e.Fun]; ok && tv.IsType() && len(e.Args) == 1 {
			to := ityOf(tv.Type)
			if to == "" {
				return "", fmt.Errorf("conversion to %s", tv.Type)
			}
			a, err := x.expr(e.Args[0], bs)
			if err != nil {
				return "", err
			}
			return fmt.Sprintf("(wrap %s %s)", to, a), nil
		}
		if id, ok := e.Fun.(*ast.Ident); ok && id.Name == "len" && len(e.Args) == 1 && isString(info.TypeOf(e.Args[0])) {
			a, err := x.expr(e.Args[0], bs)
			if err != nil {
				return "", err
			}
			return fmt.Sprintf("(str_len %s)", a), nil
		}
		if se, ok := e.Fun.(*ast.SelectorExpr); ok {
			if t := info.TypeOf(se.X); t != nil && t.String() == "reflect.Value" {
				// a method of a reflect.Value (slices, maps, ...): outside the model
				return "", fmt.Errorf("unsupported:reflect.Value.%s", se.Sel.Name)
			}
			if id, ok := se.X.(*ast.Ident); ok && id.Name == "vm" {
				var reg string
				if len(e.Args) >= 1 {
					r, err := x.expr(e.Args[0], bs)
					if err != nil {
						return "", err
					}
					reg = r
				}
				v := x.fresh("v")
				switch se.Sel.Name {
				case "int":
					bs.bind(fmt.Sprintf("(rd_int s %s)", reg), v)
				case "string":
					bs.bind(fmt.Sprintf("(rd_str s %s)", reg), v)
				case "general":
					bs.bind(fmt.Sprintf("(rd_gen s %s)", reg), v)
				case "intk", "stringk", "generalk":
					k, err := x.kflag(e.Args[1])
					if err != nil {
						return "", err
					}
					switch se.Sel.Name {
					case "intk":
						bs.bind(fmt.Sprintf("(rd_intk s %s %s)", reg, k), v)
					case "stringk":
						bs.bind(fmt.Sprintf("(rd_strk f s %s %s)", reg, k), v)
					default:
						bs.bind(fmt.Sprintf("(rd_genk f s %s %s)", reg, k), v)
					}
				default:
					return "", fmt.Errorf("unsupported:vm.%s", se.Sel.Name)
				}
				return v, nil
			}
		}
		// a pure helper function (decodeUint24, ...): inline through the integer translator
		if id, ok := e.Fun.(*ast.Ident); ok {
			if fd := findFunc(x.p, id.Name); fd != nil {
				rs, err := x.callPure(fd, e.Args, bs)
				if err != nil {
					return "", err
				}
				if len(rs) != 1 {
					return "", fmt.Errorf("call %s has %d results", id.Name, len(rs))
				}
				return rs[0], nil
			}
		}
		return "", fmt.Errorf("call %s", types.ExprString(e.Fun))
	}
	return "", fmt.Errorf("expression %s", types.ExprString(e))
}

// callPure inlines a loop-free integer function; its results are bound as values.
func (x *xtr) callPure(fd *ast.FuncDecl, args []ast.Expr, bs *binds) ([]string, error) {
	var terms []string
	for _, a := range args {
		t, err := x.expr(a, bs)
		if err != nil {
			return nil, err
		}
		terms = append(terms, fmt.Sprintf("(Some %s)", t))
	}
	rs, err := translateFunc(x.p, fd, terms)
	if err != nil {
		return nil, err
	}
	var out []string
	for _, r := range rs {
		v := x.fresh("v")
		bs.bind(fmt.Sprintf("(xsome %s)", r), v)
		out = append(out, v)
	}
	return out, nil
}

const xUnsupported = "(XFault (FUnsupported (i_op i)))"

// stmts translates a statement list followed by the continuation `rest`
// (statements of the enclosing lists still to run).
func (x *xtr) stmts(list []ast.Stmt, rest [][]ast.Stmt) (string, error) {
	if len(list) == 0 {
		if len(rest) == 0 {
			return "(XOk s)", nil
		}
		return x.stmts(rest[0], rest[1:])
	}
	st, tail := list[0], list[1:]
	cont := func() (string, error) { return x.stmts(tail, rest) }
	unsupported := func(err error) (string, bool) {
		if err != nil && strings.HasPrefix(err.Error(), "unsupported:") {
			return xUnsupported, true
		}
		return "", false
	}
	switch st := st.(type) {
	case *ast.EmptyStmt:
		return cont()
	case *ast.DeclStmt:
		// `var length int`: the zero value
		gd := st.Decl.(*ast.GenDecl)
		for _, sp := range gd.Specs {
			vs, ok := sp.(*ast.ValueSpec)
			if !ok || len(vs.Values) != 0 {
				return "", fmt.Errorf("declaration %s", x.opname)
			}
			for _, n := range vs.Names {
				o := x.p.TypesInfo.Defs[n]
				switch {
				case ityOf(o.Type()) != "":
					x.locals[o] = "0"
				case isString(o.Type()):
					x.locals[o] = "[]"
				default:
					return "", fmt.Errorf("declaration of %s %s", n.Name, o.Type())
				}
			}
		}
		return cont()
	case *ast.AssignStmt:
		var bs binds
		// vm.pc = E
		if len(st.Lhs) == 1 && types.ExprString(st.Lhs[0]) == "vm.pc" && st.Tok == token.ASSIGN {
			v, err := x.expr(st.Rhs[0], &bs)
			if err != nil {
				return "", err
			}
			if !nothingLeft(tail, rest) {
				return "", fmt.Errorf("statements after vm.pc = ...")
			}
			return bs.wrap(fmt.Sprintf("(XOk (set_pc s %s))", v)), nil
		}
		// x, y := f(a, b)
		if len(st.Rhs) == 1 && len(st.Lhs) > 1 {
			ce, ok := st.Rhs[0].(*ast.CallExpr)
			if !ok {
				return "", fmt.Errorf("tuple assignment")
			}
			id, ok := ce.Fun.(*ast.Ident)
			if !ok {
				return "", fmt.Errorf("tuple assignment from %s", types.ExprString(ce.Fun))
			}
			fd := findFunc(x.p, id.Name)
			if fd == nil {
				return "", fmt.Errorf("function %s not found", id.Name)
			}
			rs, err := x.callPure(fd, ce.Args, &bs)
			if err != nil {
				return "", err
			}
			if len(rs) != len(st.Lhs) {
				return "", fmt.Errorf("tuple assignment arity")
			}
			for i, l := range st.Lhs {
				x.locals[x.e.obj(l.(*ast.Ident))] = rs[i]
			}
			c, err := cont()
			if err != nil {
				return "", err
			}
			return bs.wrap(c), nil
		}
		if len(st.Lhs) != 1 || len(st.Rhs) != 1 {
			return "", fmt.Errorf("assignment form")
		}
		id, ok := st.Lhs[0].(*ast.Ident)
		if !ok {
			return "", fmt.Errorf("assignment to %s", types.ExprString(st.Lhs[0]))
		}
		v, err := x.expr(st.Rhs[0], &bs)
		if err != nil {
			if u, ok := unsupported(err); ok {
				return u, nil
			}
			return "", err
		}
		x.locals[x.e.obj(id)] = v
		c, err := cont()
		if err != nil {
			return "", err
		}
		return bs.wrap(c), nil
	case *ast.ExprStmt:
		ce, ok := st.X.(*ast.CallExpr)
		if !ok {
			return "", fmt.Errorf("expression statement")
		}
		name := types.ExprString(ce.Fun)
		var wr string
		switch name {
		case "vm.setInt":
			wr = "wr_int"
		case "vm.setString":
			wr = "wr_str"
		case "vm.setGeneral":
			wr = "wr_gen"
		case "vm.setFloat":
			return xUnsupported, nil
		default:
			return "", fmt.Errorf("call %s", name)
		}
		var bs binds
		reg, err := x.expr(ce.Args[0], &bs)
		if err != nil {
			return "", err
		}
		v, err := x.expr(ce.Args[1], &bs)
		if err != nil {
			if u, ok := unsupported(err); ok {
				return u, nil
			}
			return "", err
		}
		if nothingLeft(tail, rest) {
			return bs.wrap(fmt.Sprintf("(%s s %s %s)", wr, reg, v)), nil
		}
		return "", fmt.Errorf("statements after a register write")
	case *ast.IfStmt:
		// the copy of array and struct values in OpMove: such values do not
		// exist in the model (gval has bool, integers and strings only)
		if st.Init != nil {
			if as, ok := st.Init.(*ast.AssignStmt); ok && len(as.Rhs) == 1 && strings.HasSuffix(types.ExprString(as.Rhs[0]), ".Kind()") {
				cond := types.ExprString(st.Cond)
				if cond == "k == reflect.Array || k == reflect.Struct" && st.Else == nil {
					return cont()
				}
				// ... followed by the copy of a value read through an indirect register (b < 0): the
				// programs of the model have no indirect registers (closures are outside the subset)
				if el, ok := st.Else.(*ast.IfStmt); ok && cond == "k == reflect.Array || k == reflect.Struct" && el.Else == nil && el.Init == nil &&
					types.ExprString(el.Cond) == "b < 0 && op > 0 && rv.CanAddr() && k != reflect.Interface" {
					return cont()
				}
			}
			return "", fmt.Errorf("if with init statement: %s", types.ExprString(st.Cond))
		}
		var bs binds
		c, err := x.expr(st.Cond, &bs)
		if err != nil {
			return "", err
		}
		saved := x.copyLocals()
		th, err := x.stmts(st.Body.List, append([][]ast.Stmt{tail}, rest...))
		if err != nil {
			return "", err
		}
		x.locals = saved
		var el string
		if st.Else == nil {
			el, err = cont()
		} else if blk, ok := st.Else.(*ast.BlockStmt); ok {
			el, err = x.stmts(blk.List, append([][]ast.Stmt{tail}, rest...))
		} else {
			el, err = x.stmts([]ast.Stmt{st.Else}, append([][]ast.Stmt{tail}, rest...))
		}
		if err != nil {
			if u, ok := unsupported(err); ok {
				el = u
			} else {
				return "", err
			}
		}
		return bs.wrap(fmt.Sprintf("(if %s then %s\n    else %s)", c, th, el)), nil
	case *ast.SwitchStmt:
		if st.Init != nil || st.Tag == nil {
			return "", fmt.Errorf("switch form")
		}
		var bs binds
		tag, err := x.expr(st.Tag, &bs)
		if err != nil {
			return "", err
		}
		var b strings.Builder
		closing := 0
		def := -1
		for i, cl := range st.Body.List {
			cc := cl.(*ast.CaseClause)
			if cc.List == nil {
				def = i
				continue
			}
			var conds []string
			for _, v := range cc.List {
				cv := x.e.eval(v)
				if cv == nil {
					return "", fmt.Errorf("case %s is not constant", types.ExprString(v))
				}
				conds = append(conds, fmt.Sprintf("(%s =? %s)", tag, cv.ExactString()))
			}
			saved := x.copyLocals()
			body, err := x.stmts(cc.Body, append([][]ast.Stmt{tail}, rest...))
			x.locals = saved
			if err != nil {
				if u, ok := unsupported(err); ok {
					body = u
				} else {
					return "", err
				}
			}
			fmt.Fprintf(&b, "(if %s then %s\n    else ", strings.Join(conds, " || "), body)
			closing++
		}
		var last string
		if def >= 0 {
			last, err = x.stmts(st.Body.List[def].(*ast.CaseClause).Body, append([][]ast.Stmt{tail}, rest...))
		} else {
			last, err = cont()
		}
		if err != nil {
			if u, ok := unsupported(err); ok {
				last = u
			} else {
				return "", err
			}
		}
		b.WriteString(last)
		b.WriteString(strings.Repeat(")", closing))
		return bs.wrap(b.String()), nil
	}
	return "", fmt.Errorf("statement %T", st)
}

func nothingLeft(tail []ast.Stmt, rest [][]ast.Stmt) bool {
	if len(tail) != 0 {
		return false
	}
	for _, r := range rest {
		if len(r) != 0 {
			return false
		}
	}
	return true
}

func (x *xtr) copyLocals() map[types.Object]string {
	m := map[types.Object]string{}
	for k, v := range x.locals {
		m[k] = v
	}
	return m
}

// runHasDefault reports whether the `switch op` of VM.run has a default clause.
func runHasDefault(p *packages.Package) bool {
	fd := findMethod(p, "VM", "run")
	has := false
	ast.Inspect(fd.Body, func(n ast.Node) bool {
		sw, ok := n.(*ast.SwitchStmt)
		if !ok {
			return true
		}
		if id, ok := sw.Tag.(*ast.Ident); !ok || id.Name != "op" {
			return true
		}
		for _, c := range sw.Body.List {
			if c.(*ast.CaseClause).List == nil {
				has = true
			}
		}
		return false
	})
	return has
}

func translateCase(p *packages.Package, opname string, cc *ast.CaseClause) (string, error) {
	x := &xtr{p: p, e: newEnv(p), locals: map[types.Object]string{}, opname: opname}
	return x.stmts(cc.Body, nil)
}

// leafTerm translates an integer expression with the symbolic translator of
// facts_alu.go, the given sub-expressions (by source text) being parameters.
func leafTerm(p *packages.Package, e ast.Expr, leaves map[string]string) (string, error) {
	s := &symEnv{e: newEnv(p), locals: map[types.Object]string{}}
	s.leaf = func(x ast.Expr) (string, bool) {
		t, ok := leaves[types.ExprString(x)]
		return t, ok
	}
	return s.term(e)
}

func init() {
	register("Facts_vmexec", func(w *world, b *bytes.Buffer) error {
		rt := w.pkg("internal/runtime")
		sc := rt.Types.Scope()
		fmt.Fprintf(b, "From Verif Require Import GoInt VmBase.\nOpen Scope Z_scope.\n\n")
		// constants
		for _, n := range []string{"stackSize", "NoVariadicArgs"} {
			v, err := intConst(rt, n)
			if err != nil {
				return err
			}
			fmt.Fprintf(b, "Definition gen_x_%s : Z := %d.\n", n, v)
		}
		if c, ok := rt.Imports["reflect"].Types.Scope().Lookup("String").(*types.Const); ok {
			fmt.Fprintf(b, "Definition gen_x_kind_String : Z := %d.\n", i64(c.Val()))
		} else {
			return fmt.Errorf("reflect.String not found")
		}
		fmt.Fprintf(b, "\n(* runtime.Condition numbering *)\n")
		for _, n := range sc.Names() {
			if c, ok := sc.Lookup(n).(*types.Const); ok && strings.HasPrefix(n, "Condition") && c.Type().String() == rt.PkgPath+".Condition" {
				fmt.Fprintf(b, "Definition gen_x_%s : Z := %d.\n", n, i64(c.Val()))
			}
		}
		// whole cases
		cases := opcodeCases(rt)
		// the operations that also have a `case -OpX` (the immediate form); a
		// negative operation without one matches no case of the switch
		{
			var negs []string
			seen := map[string]bool{}
			for _, cc := range cases {
				for _, e := range cc.List {
					if ue, ok := e.(*ast.UnaryExpr); ok && ue.Op == token.SUB {
						if id, ok := ue.X.(*ast.Ident); ok && !seen[id.Name] {
							if c, ok := sc.Lookup(id.Name).(*types.Const); ok {
								seen[id.Name] = true
								negs = append(negs, fmt.Sprintf("%d", i64(c.Val())))
							}
						}
					}
				}
			}
			sort.Slice(negs, func(i, j int) bool { return len(negs[i]) < len(negs[j]) || len(negs[i]) == len(negs[j]) && negs[i] < negs[j] })
			fmt.Fprintf(b, "\n(* VM.run: operations with a `case -Op` *)\nDefinition gen_x_neg_ops : list Z := [%s].\n", strings.Join(negs, "; "))
			fmt.Fprintf(b, "Definition gen_x_has_default : bool := %v.\n", runHasDefault(rt))
		}
		fmt.Fprintf(b, "\n(* VM.run: the cases below translated statement by statement; f = vm.fn, s = the machine state, i = the instruction *)\n")
		for _, opn := range []string{"OpMove", "OpLoad", "OpConcat", "OpLen", "OpIndexString", "OpGoto"} {
			cc := cases[opn]
			if cc == nil {
				return fmt.Errorf("VM.run: case %s not found", opn)
			}
			t, err := translateCase(rt, opn, cc)
			if err != nil {
				return fmt.Errorf("VM.run case %s: %v", opn, err)
			}
			fmt.Fprintf(b, "Definition gen_x_%s (f : func) (s : state) (i : instr) : xres state :=\n    %s.\n\n", opn, t)
		}
		// OpCallFunc: frame pointer arithmetic, growth tests, return address
		cc := cases["OpCallFunc"]
		if cc == nil {
			return fmt.Errorf("VM.run: case OpCallFunc not found")
		}
		fields := map[string]int{"Op": 0, "A": 1, "B": 2, "C": 3}
		seenFp := map[int]bool{}
		seenGrow := map[int]bool{}
		retpc, newpc := false, false
		for _, st := range cc.Body {
			switch st := st.(type) {
			case *ast.AssignStmt:
				lhs := types.ExprString(st.Lhs[0])
				if st.Tok == token.DEFINE && lhs == "call" {
					// callFrame{..., pc: vm.pc + 1}
					cl, ok := st.Rhs[0].(*ast.CompositeLit)
					if !ok {
						return fmt.Errorf("OpCallFunc: call is not a composite literal")
					}
					for _, el := range cl.Elts {
						kv, ok := el.(*ast.KeyValueExpr)
						if !ok {
							return fmt.Errorf("OpCallFunc: positional callFrame literal")
						}
						switch types.ExprString(kv.Key) {
						case "pc":
							t, err := leafTerm(rt, kv.Value, map[string]string{"vm.pc": "p_pc"})
							if err != nil {
								return fmt.Errorf("OpCallFunc: return pc: %v", err)
							}
							fmt.Fprintf(b, "(* OpCallFunc: the pc saved in the call frame; p_pc = vm.pc after the fetch increment *)\nDefinition gen_x_callfunc_retpc (p_pc : option Z) : option Z := %s.\n", t)
							retpc = true
						case "fp":
							if types.ExprString(kv.Value) != "vm.fp" {
								return fmt.Errorf("OpCallFunc: call frame fp is %s", types.ExprString(kv.Value))
							}
						case "cl":
						default:
							return fmt.Errorf("OpCallFunc: call frame field %s", types.ExprString(kv.Key))
						}
					}
					continue
				}
				if st.Tok == token.ADD_ASSIGN && strings.HasPrefix(lhs, "vm.fp[") {
					ix := int(i64(newEnv(rt).eval(st.Lhs[0].(*ast.IndexExpr).Index)))
					// the field of off that feeds it
					var fld string
					ast.Inspect(st.Rhs[0], func(n ast.Node) bool {
						if se, ok := n.(*ast.SelectorExpr); ok && types.ExprString(se.X) == "off" {
							fld = se.Sel.Name
						}
						return true
					})
					fi, ok := fields[fld]
					if !ok {
						return fmt.Errorf("OpCallFunc: vm.fp[%d] += %s", ix, types.ExprString(st.Rhs[0]))
					}
					// vm.fp[ix] + rhs at the type of vm.fp[ix]
					sum := &ast.BinaryExpr{X: st.Lhs[0], Op: token.ADD, Y: st.Rhs[0]}
					rt.TypesInfo.Types[sum] = types.TypeAndValue{Type: rt.TypesInfo.TypeOf(st.Lhs[0])}
					t, err := leafTerm(rt, sum, map[string]string{lhs: "p_fp", "off." + fld: "p_off"})
					delete(rt.TypesInfo.Types, sum)
					if err != nil {
						return fmt.Errorf("OpCallFunc: %s: %v", lhs, err)
					}
					fmt.Fprintf(b, "(* OpCallFunc: %s += %s *)\nDefinition gen_x_callfunc_field%d : Z := %d.\nDefinition gen_x_callfunc_fp%d (p_fp p_off : option Z) : option Z := %s.\n", lhs, types.ExprString(st.Rhs[0]), ix, fi, ix, t)
					seenFp[ix] = true
					continue
				}
				if st.Tok == token.ASSIGN && lhs == "vm.pc" {
					v := newEnv(rt).eval(st.Rhs[0])
					if v == nil {
						return fmt.Errorf("OpCallFunc: vm.pc = %s", types.ExprString(st.Rhs[0]))
					}
					fmt.Fprintf(b, "Definition gen_x_callfunc_pc : Z := %s.\n", v.ExactString())
					newpc = true
				}
			case *ast.IfStmt:
				// if vm.fp[N]+Addr(fn.NumReg[N]) > vm.st[N] { vm.moreXStack() }
				be, ok := st.Cond.(*ast.BinaryExpr)
				if !ok {
					return fmt.Errorf("OpCallFunc: condition %s", types.ExprString(st.Cond))
				}
				var ix = -1
				ast.Inspect(be.Y, func(n ast.Node) bool {
					if ie, ok := n.(*ast.IndexExpr); ok && types.ExprString(ie.X) == "vm.st" {
						ix = int(i64(newEnv(rt).eval(ie.Index)))
					}
					return true
				})
				if ix < 0 {
					return fmt.Errorf("OpCallFunc: condition %s", types.ExprString(st.Cond))
				}
				leaves := map[string]string{
					fmt.Sprintf("vm.fp[%d]", ix):     "p_fp",
					fmt.Sprintf("fn.NumReg[%d]", ix): "p_numreg",
					fmt.Sprintf("vm.st[%d]", ix):     "p_st",
				}
				t, err := leafTerm(rt, st.Cond, leaves)
				if err != nil {
					return fmt.Errorf("OpCallFunc: growth test %d: %v", ix, err)
				}
				fmt.Fprintf(b, "(* OpCallFunc: %s *)\nDefinition gen_x_callfunc_grow%d (p_fp p_numreg p_st : option Z) : option bool := %s.\n", types.ExprString(st.Cond), ix, t)
				// the method called: top := len(regs) * 2; vm.st[N] = Addr(top)
				if len(st.Body.List) != 1 {
					return fmt.Errorf("OpCallFunc: growth body")
				}
				call, ok := st.Body.List[0].(*ast.ExprStmt)
				if !ok {
					return fmt.Errorf("OpCallFunc: growth body")
				}
				mname := strings.TrimSuffix(strings.TrimPrefix(types.ExprString(call.X), "vm."), "()")
				md := findMethod(rt, "VM", mname)
				if md == nil {
					return fmt.Errorf("method VM.%s not found", mname)
				}
				var topExpr, stExpr ast.Expr
				var stIx = -1
				for _, ms := range md.Body.List {
					as, ok := ms.(*ast.AssignStmt)
					if !ok {
						continue
					}
					l := types.ExprString(as.Lhs[0])
					if l == "top" && as.Tok == token.DEFINE {
						topExpr = as.Rhs[0]
					}
					if strings.HasPrefix(l, "vm.st[") {
						stIx = int(i64(newEnv(rt).eval(as.Lhs[0].(*ast.IndexExpr).Index)))
						stExpr = as.Rhs[0]
					}
				}
				if topExpr == nil || stExpr == nil || stIx != ix {
					return fmt.Errorf("VM.%s: `top := len(..) * 2` / `vm.st[%d] = ..` not found", mname, ix)
				}
				var lenText string
				ast.Inspect(topExpr, func(n ast.Node) bool {
					if ce, ok := n.(*ast.CallExpr); ok && types.ExprString(ce.Fun) == "len" {
						lenText = types.ExprString(ce)
					}
					return true
				})
				tt, err := leafTerm(rt, topExpr, map[string]string{lenText: "p_len"})
				if err != nil {
					return fmt.Errorf("VM.%s: %v", mname, err)
				}
				t2, err := leafTerm(rt, stExpr, map[string]string{"top": tt})
				if err != nil {
					return fmt.Errorf("VM.%s: %v", mname, err)
				}
				fmt.Fprintf(b, "(* VM.%s: the new vm.st[%d]; p_len = len of the register slice (= the old vm.st[%d]) *)\nDefinition gen_x_morestack%d (p_len : option Z) : option Z := %s.\n", mname, ix, ix, ix, t2)
				seenGrow[ix] = true
			}
		}
		for ix := 0; ix < 4; ix++ {
			if !seenFp[ix] || !seenGrow[ix] {
				return fmt.Errorf("OpCallFunc: frame pointer %d: shift or growth test not found", ix)
			}
		}
		if !retpc || !newpc {
			return fmt.Errorf("OpCallFunc: return pc or vm.pc = 0 not found")
		}
		return nil
	})
}
