package main

// Facts_writes (C13): the loop-free functions of internal/runtime that issue
// several Write calls for one value are EXECUTED by the partial evaluator with
// a simulated writer that fails at its k-th call, for every k: what is
// generated is, per run, how many calls were made, how many of them after the
// failing one, and what the function returned.

import (
	"bytes"
	"fmt"
	"go/ast"
	"go/constant"
	"go/types"

	"golang.org/x/tools/go/packages"
)

func init() {
	register("Facts_writes", func(w *world, b *bytes.Buffer) error {
		rt := w.pkg("internal/runtime")
		// ---- escapeBytes (C13): the function is executed for each value of addQuote, for a base64 encoder that
		// writes at Close or not, and for a writer that fails at its k-th call (k = 0: never). The calls on w
		// and on the encoder are simulated (the encoder keeps the first error and writes nothing after it);
		// a row records how many calls were made after the failing one and what the function returned.
		{
			fd := mustFunc(rt, "escapeBytes")
			fmt.Fprintf(b, "(* escapers.go escapeBytes executed with a writer failing at its k-th call (0: never):\n   (addQuote, the encoder writes at Close, k, calls made, calls made after the failing one, result: 0 nil, 1 the error of the failing call, 2 another error) *)\nDefinition gen_escapeBytes_runs : list (bool * bool * N * N * N * N) := [")
			first := true
			for _, addQuote := range []bool{false, true} {
				for _, closeWrites := range []bool{false, true} {
					for failAt := 0; failAt <= 5; failAt++ {
						calls, after, res := runEscapeBytes(rt, fd, addQuote, closeWrites, failAt)
						if failAt > calls && failAt > 0 {
							break // the failing call is beyond the last one: same as never
						}
						if !first {
							b.WriteString(";")
						}
						first = false
						fmt.Fprintf(b, "\n  (%s, %s, %d, %d, %d, %d)", coqBool(addQuote), coqBool(closeWrites), failAt, calls, after, res)
					}
				}
			}
			b.WriteString("].\n\n")
		}

		return nil
	})
}

// runEscapeBytes executes escapeBytes(w, b, addQuote) with the partial evaluator: every call of a method of w
// is a Write call that fails from the failAt-th one on; encoder.Write stands for one call on w unless the
// encoder already holds an error, encoder.Close for one more when closeWrites. Errors are the constant
// strings "<nil>", "E<k>" (the error of the k-th call).
func runEscapeBytes(p *packages.Package, fd *ast.FuncDecl, addQuote, closeWrites bool, failAt int) (calls, after, res int) {
	e := newEnv(p)
	encErr := "<nil>"
	var encoderObj types.Object
	for _, f := range fd.Type.Params.List {
		for _, n := range f.Names {
			if n.Name == "addQuote" {
				e.vars[p.TypesInfo.Defs[n]] = constant.MakeBool(addQuote)
			}
		}
	}
	write := func() string {
		calls++
		if failAt > 0 && calls > failAt {
			after++
		}
		if failAt > 0 && calls >= failAt {
			return fmt.Sprintf("E%d", calls)
		}
		return "<nil>"
	}
	// the value of a call expression, or "" when it is not one of the simulated calls
	call := func(x ast.Expr) (string, bool) {
		c, ok := x.(*ast.CallExpr)
		if !ok {
			return "", false
		}
		name, recv := calleeOf(c)
		if recv == nil {
			return "", false
		}
		switch r := types.ExprString(recv); {
		case r == "w" && (name == "WriteString" || name == "Write"):
			return write(), true
		case r == "base64" && name == "NewEncoder":
			return "encoder", true
		case encoderObj != nil && r == encoderObj.Name() && name == "Write":
			if encErr == "<nil>" {
				encErr = write()
			}
			return encErr, true
		case encoderObj != nil && r == encoderObj.Name() && name == "Close":
			if encErr == "<nil>" && closeWrites {
				encErr = write()
			}
			return encErr, true
		}
		return "", false
	}
	e.pre = func(x ast.Expr) constant.Value {
		// a simulated call in expression position (return encoder.Close()): its error
		if c, ok := x.(*ast.CallExpr); ok {
			if v, ok := call(c); ok && v != "encoder" {
				return constant.MakeString(v)
			}
		}
		if id, ok := x.(*ast.Ident); ok && id.Name == "nil" {
			if _, isNil := p.TypesInfo.Uses[id].(*types.Nil); isNil {
				return constant.MakeString("<nil>")
			}
		}
		return nil
	}
	e.hook = func(st ast.Stmt) (stopKind, bool) {
		switch st := st.(type) {
		case *ast.DeferStmt, *ast.GoStmt, *ast.ForStmt, *ast.RangeStmt:
			panic(fmt.Sprintf("escapeBytes: not translatable: %T statement", st))
		case *ast.AssignStmt:
			if len(st.Rhs) != 1 {
				return stopNone, false
			}
			v, ok := call(st.Rhs[0])
			if !ok {
				return stopNone, false
			}
			// the error is the last result of the call
			l := st.Lhs[len(st.Lhs)-1]
			if id, ok := l.(*ast.Ident); ok && id.Name != "_" {
				o := e.obj(id)
				if v == "encoder" {
					encoderObj = o
				} else {
					e.vars[o] = constant.MakeString(v)
				}
			}
			return stopNone, true
		case *ast.ExprStmt:
			if _, ok := call(st.X); ok {
				return stopNone, true
			}
		}
		return stopNone, false
	}
	k := e.run(fd.Body.List)
	if k != stopReturn || len(e.ret) != 1 || e.ret[0].Kind() != constant.String {
		panic("escapeBytes: not translatable: " + e.why)
	}
	switch r := constant.StringVal(e.ret[0]); {
	case r == "<nil>":
		res = 0
	case failAt > 0 && r == fmt.Sprintf("E%d", failAt):
		res = 1
	default:
		res = 2
	}
	return calls, after, res
}
