package main

// Facts about the template lexer (internal/compiler/lexer.go, tokens.go) and
// the Unicode predicates it calls, for the engine `lexer`.

import (
	"bytes"
	"fmt"
	"go/ast"
	"go/constant"
	"go/types"
	"sort"
	"strings"
	"unicode"

	"golang.org/x/tools/go/packages"
)

// enumConsts emits one Definition per package-level constant of the named type.
func enumConsts(b *bytes.Buffer, p *packages.Package, typeName, prefix string) int {
	sc := p.Types.Scope()
	type kv struct {
		name string
		v    int64
	}
	var all []kv
	for _, n := range sc.Names() {
		c, ok := sc.Lookup(n).(*types.Const)
		if !ok {
			continue
		}
		nt, ok := c.Type().(*types.Named)
		if !ok || nt.Obj().Name() != typeName || nt.Obj().Pkg() != p.Types {
			continue
		}
		v, ok := constant.Int64Val(c.Val())
		if !ok {
			continue
		}
		all = append(all, kv{n, v})
	}
	sort.Slice(all, func(i, j int) bool { return all[i].v < all[j].v || all[i].v == all[j].v && all[i].name < all[j].name })
	for _, e := range all {
		fmt.Fprintf(b, "Definition %s%s : N := %d.\n", prefix, e.name, e.v)
	}
	b.WriteString("\n")
	return len(all)
}

func bytesVar(p *packages.Package, name string) string {
	x := findVarInit(p, name)
	if x == nil {
		panic("variable " + name + " not found")
	}
	// []byte("lit")
	if ce, ok := x.(*ast.CallExpr); ok && len(ce.Args) == 1 {
		if tv, ok := p.TypesInfo.Types[ce.Args[0]]; ok && tv.Value != nil && tv.Value.Kind() == constant.String {
			return constant.StringVal(tv.Value)
		}
	}
	panic("variable " + name + " is not []byte(\"literal\")")
}

func ranges(pred func(r rune) bool) [][2]int64 {
	var out [][2]int64
	start := int64(-1)
	for r := rune(0); r <= unicode.MaxRune+1; r++ {
		in := r <= unicode.MaxRune && pred(r)
		if in && start < 0 {
			start = int64(r)
		} else if !in && start >= 0 {
			out = append(out, [2]int64{start, int64(r) - 1})
			start = -1
		}
	}
	return out
}

func emitRanges(b *bytes.Buffer, name, comment string, rs [][2]int64) {
	fmt.Fprintf(b, "(* %s: %d ranges *)\nDefinition %s : list (N * N) := [", comment, len(rs), name)
	for i, r := range rs {
		if i > 0 {
			b.WriteString(";")
		}
		if i%8 == 0 {
			b.WriteString("\n ")
		}
		fmt.Fprintf(b, " (%d, %d)", r[0], r[1])
	}
	b.WriteString("].\n\n")
}

// stringLits collects the string literals of the case clauses inside n.
func caseStringLits(p *packages.Package, n ast.Node) []string {
	seen := map[string]bool{}
	var out []string
	ast.Inspect(n, func(x ast.Node) bool {
		if cc, ok := x.(*ast.CaseClause); ok {
			for _, e := range cc.List {
				if tv, ok := p.TypesInfo.Types[e]; ok && tv.Value != nil && tv.Value.Kind() == constant.String {
					s := constant.StringVal(tv.Value)
					if !seen[s] {
						seen[s] = true
						out = append(out, s)
					}
				}
			}
		}
		return true
	})
	return out
}

func allStringLits(p *packages.Package, n ast.Node) []string {
	seen := map[string]bool{}
	var out []string
	ast.Inspect(n, func(x ast.Node) bool {
		if e, ok := x.(ast.Expr); ok {
			if tv, ok := p.TypesInfo.Types[e]; ok && tv.Value != nil && tv.Value.Kind() == constant.String {
				s := constant.StringVal(tv.Value)
				if !seen[s] {
					seen[s] = true
					out = append(out, s)
				}
			}
		}
		return true
	})
	return out
}

// productPredicate describes a predicate over byte strings of the form
// len(s) >= n && s[0] in S0 && ... && s[n-1] in S(n-1), obtained by
// evaluating fn around an accepted witness.
func productPredicate(b *bytes.Buffer, p *packages.Package, fn, witness, name string) {
	fd := mustFunc(p, fn)
	call := func(s string) bool {
		r, ok := callFunc(p, fd, []constant.Value{constant.MakeString(s)}, 0)
		if !ok || len(r) != 1 {
			panic(fmt.Sprintf("%s(%q) is not evaluable", fn, s))
		}
		return constant.BoolVal(r[0])
	}
	if !call(witness) {
		panic(fmt.Sprintf("%s(%q) is false", fn, witness))
	}
	n := len(witness)
	for n > 0 && call(witness[:n-1]) {
		n--
	}
	w := witness[:n]
	if !call(w + "\x00\xff") {
		panic(fmt.Sprintf("%s: accepts %q but not a longer string", fn, w))
	}
	fmt.Fprintf(b, "(* lexer.go %s(s): len(s) >= %d and s[k] in the k-th set (evaluated around the witness %q) *)\n", fn, n, w)
	fmt.Fprintf(b, "Definition %s_len : N := %d.\nDefinition %s_sets : list (list N) := [", name, n, name)
	for k := 0; k < n; k++ {
		var xs []int64
		for c := 0; c < 256; c++ {
			s := []byte(w)
			s[k] = byte(c)
			if call(string(s)) {
				xs = append(xs, int64(c))
			}
		}
		if k > 0 {
			b.WriteString(";")
		}
		fmt.Fprintf(b, "\n  %s", coqNList(xs))
	}
	b.WriteString("].\n\n")
}

func init() {
	register("Facts_lexer", func(w *world, b *bytes.Buffer) error {
		p := w.pkg("internal/compiler")
		ap := w.pkg("ast")
		fmt.Fprintf(b, "(* tokens.go: tokenTyp *)\n")
		if enumConsts(b, p, "tokenTyp", "gen_") < 100 {
			return fmt.Errorf("tokenTyp: fewer than 100 constants found")
		}
		fmt.Fprintf(b, "(* ast.go: Context and Format *)\n")
		if enumConsts(b, ap, "Context", "gen_") < 14 {
			return fmt.Errorf("ast.Context: fewer than 14 constants found")
		}
		if enumConsts(b, ap, "Format", "gen_") < 6 {
			return fmt.Errorf("ast.Format: fewer than 6 constants found")
		}
		for _, fn := range []string{"isSpace", "isASCIISpace", "isAlpha", "isStartChar", "isBinDigit", "isOctDigit", "isDecDigit", "isHexDigit"} {
			emitByteSet(b, "gen_lex_"+fn, "lexer.go "+fn, boolFunc(p, fn))
		}
		productPredicate(b, p, "isEndScript", "</script>", "gen_isEndScript")
		productPredicate(b, p, "isEndStyle", "</style>", "gen_isEndStyle")

		// isMarkdownEndURL: c0 in skip => decided by the next byte (true if none), else by c0.
		{
			fd := mustFunc(p, "isMarkdownEndURL")
			call := func(s string) bool {
				r, ok := callFunc(p, fd, []constant.Value{constant.MakeString(s)}, 0)
				if !ok || len(r) != 1 {
					panic(fmt.Sprintf("isMarkdownEndURL(%q) is not evaluable", s))
				}
				return constant.BoolVal(r[0])
			}
			if !call("") {
				return fmt.Errorf("isMarkdownEndURL(\"\") is false")
			}
			var skip, final []int64
			S := map[int]bool{}
			memo := map[string]bool{}
			mcall := func(s string) bool {
				if v, ok := memo[s]; ok {
					return v
				}
				v := call(s)
				memo[s] = v
				return v
			}
			// a first byte that defers the decision to the second one
			skipByte := -1
			for c0 := 0; c0 < 256 && skipByte < 0; c0++ {
				if !mcall(string([]byte{byte(c0)})) {
					continue // a skipping byte alone gives true
				}
				t, f := false, false
				for c1 := 0; c1 < 256 && !(t && f); c1++ {
					if mcall(string([]byte{byte(c0), byte(c1)})) {
						t = true
					} else {
						f = true
					}
				}
				if t && f {
					skipByte = c0
				}
			}
			if skipByte < 0 {
				return fmt.Errorf("isMarkdownEndURL: no first byte defers to the second")
			}
			in, out := -1, -1
			for c := 0; c < 256; c++ {
				if mcall(string([]byte{byte(skipByte), byte(c)})) {
					S[c] = true
					final = append(final, int64(c))
					if c != skipByte {
						in = c
					}
				} else {
					out = c
				}
			}
			if in < 0 || out < 0 {
				return fmt.Errorf("isMarkdownEndURL: degenerate final set")
			}
			probes := []int{in, out, 0, 255, 'a', ' ', '.', '?'}
			for c0 := 0; c0 < 256; c0++ {
				isSkip := mcall(string([]byte{byte(c0)}))
				for _, c1 := range probes {
					if mcall(string([]byte{byte(c0), byte(c1)})) != S[c1] {
						isSkip = false
					}
				}
				if isSkip {
					skip = append(skip, int64(c0))
					// a skipping byte must defer for every second byte
					for c1 := 0; c1 < 256; c1++ {
						if mcall(string([]byte{byte(c0), byte(c1)})) != S[c1] {
							return fmt.Errorf("isMarkdownEndURL: byte %d defers to the second byte only sometimes", c0)
						}
					}
					continue
				}
				want := S[c0]
				if mcall(string([]byte{byte(c0)})) != want {
					return fmt.Errorf("isMarkdownEndURL: byte %d alone disagrees with the final set", c0)
				}
				for _, c1 := range probes {
					if mcall(string([]byte{byte(c0), byte(c1)})) != want {
						return fmt.Errorf("isMarkdownEndURL: not of the expected form at bytes %d %d", c0, c1)
					}
				}
			}
			fmt.Fprintf(b, "(* lexer.go isMarkdownEndURL(s): true if s is empty; if s[0] is in skip: true if len(s)=1 else s[1] in final; else s[0] in final (form checked on every first byte with probe second bytes) *)\n")
			fmt.Fprintf(b, "Definition gen_mdEndURL_skip : list N := %s.\nDefinition gen_mdEndURL_final : list N := %s.\n\n", coqNList(skip), coqNList(final))
		}

		// containsURL: the switch on attr (the namespace / data- prefix logic is modelled by hand).
		{
			fd := mustFunc(p, "containsURL")
			var sw *ast.SwitchStmt
			for _, s := range fd.Body.List {
				if x, ok := s.(*ast.SwitchStmt); ok {
					sw = x
				}
			}
			if sw == nil {
				return fmt.Errorf("containsURL: switch not found")
			}
			var attrs []string
			for _, c := range sw.Body.List {
				for _, e := range c.(*ast.CaseClause).List {
					tv, ok := p.TypesInfo.Types[e]
					if !ok || tv.Value == nil || tv.Value.Kind() != constant.String {
						return fmt.Errorf("containsURL: non constant case")
					}
					attrs = append(attrs, constant.StringVal(tv.Value))
				}
			}
			lits := allStringLits(p, sw)
			var tagParam, attrParam types.Object
			for _, f := range fd.Type.Params.List {
				for _, n := range f.Names {
					if n.Name == "tag" {
						tagParam = p.TypesInfo.Defs[n]
					}
					if n.Name == "attr" {
						attrParam = p.TypesInfo.Defs[n]
					}
				}
			}
			if tagParam == nil || attrParam == nil {
				return fmt.Errorf("containsURL: parameters tag, attr not found")
			}
			evalSw := func(tag, attr string) bool {
				e := newEnv(p)
				e.vars[tagParam] = constant.MakeString(tag)
				e.vars[attrParam] = constant.MakeString(attr)
				switch e.stmt(sw) {
				case stopReturn:
					return constant.BoolVal(e.ret[0])
				case stopNone:
					// falls to the statement after the switch, which must be `return false`
					return false
				}
				panic(fmt.Sprintf("containsURL switch not evaluable for tag=%q attr=%q: %s", tag, attr, e.why))
			}
			last, ok := fd.Body.List[len(fd.Body.List)-1].(*ast.ReturnStmt)
			if !ok || len(last.Results) != 1 || types.ExprString(last.Results[0]) != "false" {
				return fmt.Errorf("containsURL: does not end with return false")
			}
			if evalSw("\x00", "\x00") {
				return fmt.Errorf("containsURL: true for an unknown attribute")
			}
			fmt.Fprintf(b, "(* lexer.go containsURL, the switch on attr: attribute -> (true for any tag, tags for which it is true); other attributes: false *)\n")
			fmt.Fprintf(b, "Definition gen_containsURL_tbl : list (list N * (bool * list (list N))) := [")
			sort.Strings(attrs)
			first := true
			for _, a := range attrs {
				any := evalSw("\x00", a)
				var tags []string
				for _, t := range lits {
					if evalSw(t, a) && !any {
						tags = append(tags, t)
					}
				}
				sort.Strings(tags)
				if !first {
					b.WriteString(";")
				}
				first = false
				fmt.Fprintf(b, "\n  (%s, (%s, [", coqBytes(a), coqBool(any))
				for i, t := range tags {
					if i > 0 {
						b.WriteString("; ")
					}
					b.WriteString(coqBytes(t))
				}
				b.WriteString("]))")
			}
			b.WriteString("].\n\n")
		}

		// keywords: lexIdentifierOrKeyword's switches evaluated on every case literal
		{
			fd := findMethod(p, "lexer", "lexIdentifierOrKeyword")
			if fd == nil {
				return fmt.Errorf("method lexer.lexIdentifierOrKeyword not found")
			}
			lits := caseStringLits(p, fd.Body)
			sort.Strings(lits)
			if len(lits) < 30 {
				return fmt.Errorf("lexIdentifierOrKeyword: fewer than 30 keywords found")
			}
			identTyp := p.Types.Scope().Lookup("tokenIdentifier").(*types.Const).Val()
			var idObj, typObj types.Object
			ast.Inspect(fd.Body, func(n ast.Node) bool {
				if id, ok := n.(*ast.Ident); ok {
					if o := p.TypesInfo.Defs[id]; o != nil {
						if id.Name == "id" {
							idObj = o
						}
						if id.Name == "typ" {
							typObj = o
						}
					}
				}
				return true
			})
			if idObj == nil || typObj == nil {
				return fmt.Errorf("lexIdentifierOrKeyword: variables id, typ not found")
			}
			kw := func(s string, tmpl bool) int64 {
				e := newEnv(p)
				e.vars[idObj] = constant.MakeString(s)
				e.vars[typObj] = identTyp
				e.byname["l.templateSyntax"] = constant.MakeBool(tmpl)
				n := 0
				for _, st := range fd.Body.List {
					switch x := st.(type) {
					case *ast.SwitchStmt:
						n++
						if k := e.stmt(x); k != stopNone {
							panic(fmt.Sprintf("keyword switch not evaluable for %q: %s", s, e.why))
						}
					case *ast.IfStmt:
						// if l.templateSyntax && typ == tokenIdentifier { switch id {...} }
						if strings.Contains(types.ExprString(x.Cond), "templateSyntax") {
							n++
							if k := e.stmt(x); k != stopNone {
								panic(fmt.Sprintf("template keyword switch not evaluable for %q: %s", s, e.why))
							}
						}
					}
				}
				if n != 2 {
					panic(fmt.Sprintf("lexIdentifierOrKeyword: expected a switch and a templateSyntax if, found %d", n))
				}
				return i64(e.vars[typObj])
			}
			if kw("\x00nokeyword", true) != i64(identTyp) {
				return fmt.Errorf("lexIdentifierOrKeyword: unknown word is not an identifier")
			}
			for _, tm := range []bool{true, false} {
				nm := "gen_keywords_template"
				if !tm {
					nm = "gen_keywords_program"
				}
				fmt.Fprintf(b, "(* lexer.go lexIdentifierOrKeyword with templateSyntax=%v: word -> token type (other words: tokenIdentifier) *)\nDefinition %s : list (list N * N) := [", tm, nm)
				first := true
				for _, s := range lits {
					if t := kw(s, tm); t != i64(identTyp) {
						if !first {
							b.WriteString(";")
						}
						first = false
						fmt.Fprintf(b, "\n  (%s, %d)", coqBytes(s), t)
					}
				}
				b.WriteString("].\n\n")
			}
		}

		for _, v := range []string{"cdataStart", "cdataEnd", "jsMimeType", "jsonLDMimeType", "cssMimeType", "moduleType", "http", "https"} {
			fmt.Fprintf(b, "Definition gen_lex_%s : list N := %s.\n", v, coqBytes(bytesVar(p, v)))
		}
		bom := p.Types.Scope().Lookup("BOM").(*types.Const)
		fmt.Fprintf(b, "Definition gen_lex_BOM : N := %s.\n\n", bom.Val().ExactString())
		// formatTypeName
		{
			x := findVarInit(p, "formatTypeName")
			cl, ok := x.(*ast.CompositeLit)
			if !ok {
				return fmt.Errorf("formatTypeName is not a composite literal")
			}
			fmt.Fprintf(b, "(* compiler.go formatTypeName *)\nDefinition gen_formatTypeName : list (list N) := [")
			for i, el := range cl.Elts {
				tv := p.TypesInfo.Types[el]
				if tv.Value == nil {
					return fmt.Errorf("formatTypeName: element %d is not constant", i)
				}
				if i > 0 {
					b.WriteString("; ")
				}
				b.WriteString(coqBytes(constant.StringVal(tv.Value)))
			}
			b.WriteString("].\n\n")
		}
		return nil
	})

	// The Unicode predicates of the Go standard library that the lexer calls.
	register("Facts_unicode", func(w *world, b *bytes.Buffer) error {
		fmt.Fprintf(b, "(* Go standard library package unicode, version %s, as linked into gofacts *)\n", unicode.Version)
		emitRanges(b, "gen_unicode_letter", "unicode.IsLetter", ranges(unicode.IsLetter))
		emitRanges(b, "gen_unicode_digit", "unicode.IsDigit", ranges(unicode.IsDigit))
		emitRanges(b, "gen_unicode_graphic", "unicode.IsGraphic", ranges(unicode.IsGraphic))
		emitRanges(b, "gen_unicode_space", "unicode.IsSpace", ranges(unicode.IsSpace))
		emitRanges(b, "gen_unicode_nonchar", "unicode.Is(unicode.Noncharacter_Code_Point, r)", ranges(func(r rune) bool { return unicode.Is(unicode.Noncharacter_Code_Point, r) }))
		// runes outside ASCII whose lower case is ASCII
		fmt.Fprintf(b, "(* non-ASCII runes r with unicode.ToLower(r) < 128: (r, lower) *)\nDefinition gen_unicode_tolower_ascii : list (N * N) := [")
		first := true
		for r := rune(128); r <= unicode.MaxRune; r++ {
			if l := unicode.ToLower(r); l < 128 {
				if !first {
					b.WriteString("; ")
				}
				first = false
				fmt.Fprintf(b, "(%d, %d)", r, l)
			}
		}
		b.WriteString("].\n")
		// simple folding: non-ASCII runes in the fold orbit of an ASCII rune
		fmt.Fprintf(b, "(* non-ASCII runes in the unicode.SimpleFold orbit of an ASCII rune: (r, ascii lower case) *)\nDefinition gen_unicode_fold_ascii : list (N * N) := [")
		first = true
		for a := rune(0); a < 128; a++ {
			if unicode.ToLower(a) != a {
				continue
			}
			for r := unicode.SimpleFold(a); r != a; r = unicode.SimpleFold(r) {
				if r >= 128 {
					if !first {
						b.WriteString("; ")
					}
					first = false
					fmt.Fprintf(b, "(%d, %d)", r, a)
				}
			}
		}
		b.WriteString("].\n")
		return nil
	})
}
