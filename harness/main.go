// Command harness runs the implementation side of the correspondence checks
// and the implementation-level sweeps. Each engine registers sub-commands.
//
//	harness <command> [-seed N] [-n N] [-tier quick|thorough]
//
// A `cases` command prints one line per case: fields separated by TAB, the
// last field being the implementation's canonical result; the fields before
// it are what the model driver receives. A `sweep` command prints
// `FAIL\t<signature>\t<json>` lines for property failures found on the real
// code, and a final `STATS\t<json>` line.
package main

import (
	"bufio"
	"encoding/hex"
	"encoding/json"
	"flag"
	"fmt"
	"math/rand"
	"os"
	"sort"
)

type cmdFunc func(c *ctx)

type ctx struct {
	seed  int64
	n     int
	tier  string
	arg   string
	rng   *rand.Rand
	out   *bufio.Writer
	stats map[string]int
	samples []any
}

var commands = map[string]cmdFunc{}

func register(name string, f cmdFunc) { commands[name] = f }

func main() {
	if len(os.Args) < 2 {
		names := []string{}
		for n := range commands {
			names = append(names, n)
		}
		sort.Strings(names)
		fmt.Fprintln(os.Stderr, "usage: harness <command> [flags]; commands:", names)
		os.Exit(2)
	}
	name := os.Args[1]
	f, ok := commands[name]
	if !ok {
		fmt.Fprintln(os.Stderr, "unknown command", name)
		os.Exit(2)
	}
	fs := flag.NewFlagSet(name, flag.ExitOnError)
	c := &ctx{stats: map[string]int{}}
	fs.Int64Var(&c.seed, "seed", 1, "PRNG seed")
	fs.IntVar(&c.n, "n", 1000, "number of generated cases")
	fs.StringVar(&c.tier, "tier", "quick", "quick or thorough")
	fs.StringVar(&c.arg, "arg", "", "command specific argument (e.g. a replay file)")
	fs.Parse(os.Args[2:])
	c.rng = rand.New(rand.NewSource(c.seed))
	c.out = bufio.NewWriterSize(os.Stdout, 1<<20)
	defer c.out.Flush()
	f(c)
	c.emitStats()
}

func (c *ctx) thorough() bool { return c.tier == "thorough" }

// line writes one TAB separated record.
func (c *ctx) line(fields ...string) {
	for i, f := range fields {
		if i > 0 {
			c.out.WriteByte('\t')
		}
		c.out.WriteString(f)
	}
	c.out.WriteByte('\n')
}

func (c *ctx) fail(signature string, detail any) {
	b, _ := json.Marshal(detail)
	c.line("FAIL", signature, string(b))
	c.stats["failures"]++
}

func (c *ctx) count(key string) { c.stats[key]++ }

func (c *ctx) sample(v any) {
	if len(c.samples) < 5 {
		c.samples = append(c.samples, v)
	}
}

func (c *ctx) emitStats() {
	m := map[string]any{"counts": c.stats, "samples": c.samples}
	b, _ := json.Marshal(m)
	c.line("STATS", string(b))
}

func hx(s string) string  { return hex.EncodeToString([]byte(s)) }
func hxb(b []byte) string { return hex.EncodeToString(b) }
func unhx(s string) string {
	b, err := hex.DecodeString(s)
	if err != nil {
		panic(err)
	}
	return string(b)
}

// protect runs f and maps a panic to ("panic", message).
func protect(f func() string) (res string) {
	defer func() {
		if r := recover(); r != nil {
			res = "panic"
		}
	}()
	return f()
}

func panicText(f func()) (msg string) {
	defer func() {
		if r := recover(); r != nil {
			msg = fmt.Sprint(r)
		}
	}()
	f()
	return ""
}
