package hlib

import "math/rand"

// Generators for byte strings (bytesgen). All randomness comes from c.rng.

// enumStrings calls f on every string over alphabet of length <= maxLen.
func EnumStrings(alphabet []byte, maxLen int, f func(s string)) {
	buf := make([]byte, 0, maxLen)
	var rec func()
	rec = func() {
		f(string(buf))
		if len(buf) == maxLen {
			return
		}
		for _, a := range alphabet {
			buf = append(buf, a)
			rec()
			buf = buf[:len(buf)-1]
		}
	}
	rec()
}

// escapeDict are bytes and sequences relevant to some escaper or decoder.
var EscapeDict = []string{
	"<", ">", "&", "\"", "'", "\\", "/", "=", "`", " ", "\t", "\n", "\r", "\f", "\x00", "\x0b", "\x7f",
	"(", ")", "+", ":", ";", "{", "}", "%", "#", "?", "a", "b", "c", "f", "g", "A", "B", "F", "G", "0", "9", "x", "u", "n",
	" ", " ", "é", "ό", "\xc3", "\xa9", "\xff", "\xf0\x9f\x98\x80", "\xed\xa0\x80", "\xc0\x80",
	"&amp;", "&lt;", "&#34;", "&#x27;", "&amp", "&#", "&#x", "\\u0026", "\\3c", "\\3c ", "%2F", "%zz", "%", "</script>", "<!--", "-->", "]]>",
	"*", "_", "[", "]", "!", "|", "~", "-", ".", "1.", "    ", "  ",
}

func RandString(r *rand.Rand, maxParts int) string {
	n := r.Intn(maxParts + 1)
	var b []byte
	for i := 0; i < n; i++ {
		switch r.Intn(10) {
		case 0:
			b = append(b, byte(r.Intn(256)))
		case 1:
			b = append(b, byte(32+r.Intn(95)))
		case 2:
			b = append(b, []byte(string(rune(r.Intn(0x3000))))...)
		default:
			b = append(b, EscapeDict[r.Intn(len(EscapeDict))]...)
		}
	}
	return string(b)
}

// allASCIISuccessors calls f on d+c for every dictionary entry d and every byte c.
func DictTimesSuccessors(f func(s string)) {
	for _, d := range EscapeDict {
		f(d)
		for c := 0; c < 256; c++ {
			f(d + string([]byte{byte(c)}))
		}
	}
}
