// Package hlib is the shared part of the implementation-side harnesses: the
// command registry, the line protocol, seeded generators.
//
//	h_<engine> <command> [-seed N] [-n N] [-tier quick|thorough] [-arg X]
//
// A `cases` command prints one line per case: fields separated by TAB, the
// last field being the implementation's canonical result; the fields before
// it are what the model driver receives. A `sweep` command prints
// `FAIL\t<signature>\t<json>` lines for property failures found on the real
// code. Every command ends with a `STATS\t<json>` line.
package hlib

import (
	"bufio"
	"encoding/hex"
	"encoding/json"
	"flag"
	"fmt"
	"math/rand"
	"os"
	"sort"
)

type CmdFunc func(c *Ctx)

type Ctx struct {
	Seed    int64
	N       int
	Tier    string
	Arg     string
	Rng     *rand.Rand
	Out     *bufio.Writer
	Stats   map[string]int
	Samples []any
}

var commands = map[string]CmdFunc{}

func Register(name string, f CmdFunc) { commands[name] = f }

func Main() {
	if len(os.Args) < 2 {
		names := []string{}
		for n := range commands {
			names = append(names, n)
		}
		sort.Strings(names)
		fmt.Fprintln(os.Stderr, "usage: <harness> <command> [flags]; commands:", names)
		os.Exit(2)
	}
	name := os.Args[1]
	f, ok := commands[name]
	if !ok {
		fmt.Fprintln(os.Stderr, "unknown command", name)
		os.Exit(2)
	}
	fs := flag.NewFlagSet(name, flag.ExitOnError)
	c := &Ctx{Stats: map[string]int{}}
	fs.Int64Var(&c.Seed, "seed", 1, "PRNG seed")
	fs.IntVar(&c.N, "n", 1000, "number of generated cases")
	fs.StringVar(&c.Tier, "tier", "quick", "quick or thorough")
	fs.StringVar(&c.Arg, "arg", "", "command specific argument (a replay file)")
	fs.Parse(os.Args[2:])
	c.Rng = rand.New(rand.NewSource(c.Seed))
	c.Out = bufio.NewWriterSize(os.Stdout, 1<<20)
	defer c.Out.Flush()
	f(c)
	c.emitStats()
}

func (c *Ctx) Thorough() bool { return c.Tier == "thorough" }

// Line writes one TAB separated record.
func (c *Ctx) Line(fields ...string) {
	for i, f := range fields {
		if i > 0 {
			c.Out.WriteByte('\t')
		}
		c.Out.WriteString(f)
	}
	c.Out.WriteByte('\n')
}

// Fail reports a failure of the property on the implementation. The signature
// names the kind of failure (it is what KNOWN_FINDINGS.txt matches on);
// detail should contain the input needed to reproduce it.
func (c *Ctx) Fail(signature string, detail any) {
	b, _ := json.Marshal(detail)
	c.Line("FAIL", signature, string(b))
	c.Stats["failures"]++
}

func (c *Ctx) Count(key string)      { c.Stats[key]++ }
func (c *Ctx) Add(key string, n int) { c.Stats[key] += n }

func (c *Ctx) Sample(v any) {
	if len(c.Samples) < 5 {
		c.Samples = append(c.Samples, v)
	}
}

func (c *Ctx) emitStats() {
	m := map[string]any{"counts": c.Stats, "samples": c.Samples}
	b, _ := json.Marshal(m)
	c.Line("STATS", string(b))
}

// ReplayInput returns the "input" object of the replay file given with -arg
// (nil when not replaying).
func (c *Ctx) ReplayInput() map[string]any {
	if c.Arg == "" {
		return nil
	}
	b, err := os.ReadFile(c.Arg)
	if err != nil {
		fmt.Fprintln(os.Stderr, "replay:", err)
		os.Exit(2)
	}
	var m struct {
		Input map[string]any `json:"input"`
	}
	if err := json.Unmarshal(b, &m); err != nil {
		fmt.Fprintln(os.Stderr, "replay:", err)
		os.Exit(2)
	}
	if m.Input == nil {
		m.Input = map[string]any{}
	}
	return m.Input
}

func Hx(s string) string  { return hex.EncodeToString([]byte(s)) }
func Hxb(b []byte) string { return hex.EncodeToString(b) }
func Unhx(s string) string {
	b, err := hex.DecodeString(s)
	if err != nil {
		panic(err)
	}
	return string(b)
}

// Protect runs f and maps a panic to "panic".
func Protect(f func() string) (res string) {
	defer func() {
		if r := recover(); r != nil {
			res = "panic"
		}
	}()
	return f()
}

// PanicText runs f and returns the text of the panic it raised, or "".
func PanicText(f func()) (msg string) {
	defer func() {
		if r := recover(); r != nil {
			msg = fmt.Sprint(r)
			if msg == "" {
				msg = "panic"
			}
		}
	}()
	f()
	return ""
}
