package main

import (
	"fmt"
	"html"
	"strings"

	"github.com/open2b/scriggo"
	"github.com/open2b/scriggo/builtin"
)

func htmlEscapeResult(s string) string {
	return protect(func() string { return "ok:" + hx(string(scriggo.HTMLEscape(s))) })
}

func htmlEscapeInputs(c *ctx, f func(s string)) {
	alpha := []byte{'<', '>', '&', '"', '\'', 'a', 0xC3}
	maxLen := 5
	if c.thorough() {
		maxLen = 7
	}
	enumStrings(alpha, maxLen, f)
	dictTimesSuccessors(f)
	for i := 0; i < c.n; i++ {
		f(randString(c.rng, 40))
	}
}

func init() {
	// correspondence: scriggo.HTMLEscape vs the Coq model HTMLEscape
	register("C24-cases", func(c *ctx) {
		htmlEscapeInputs(c, func(s string) {
			c.line("HTMLEscape", hx(s), htmlEscapeResult(s))
			c.count("cases")
		})
	})
	// sweep: the property itself on the real code, with Go's html.UnescapeString as decoder
	register("C24-sweep", func(c *ctx) {
		seen := 0
		htmlEscapeInputs(c, func(s string) {
			c.count("evaluations")
			var out, out2 string
			if msg := panicText(func() { out = string(scriggo.HTMLEscape(s)); out2 = string(builtin.HtmlEscape(s)) }); msg != "" {
				c.fail("panic", map[string]string{"fn": "HTMLEscape", "in": hx(s), "panic": msg})
				return
			}
			if why := checkFiveEntities(s, out); why != "" {
				c.fail("not-five-entities", map[string]string{"fn": "HTMLEscape", "in": hx(s), "out": hx(out), "why": why})
				return
			}
			if out2 != out {
				c.fail("builtin-differs", map[string]string{"fn": "builtin.HtmlEscape", "in": hx(s), "out": hx(out2), "want": hx(out)})
				return
			}
			if html.UnescapeString(out) != s {
				c.fail("does-not-decode", map[string]string{"fn": "HTMLEscape", "in": hx(s), "out": hx(out), "decoded": hx(html.UnescapeString(out))})
				return
			}
			if out != s {
				c.count("nontrivial")
				if seen < 3 {
					seen++
					c.sample(map[string]string{"in": s, "out": out})
				}
			}
		})
	})
}

// checkFiveEntities checks the property's statement directly: out is s with
// each of the five characters replaced by an entity that decodes to it, every
// other byte in place.
func checkFiveEntities(s, out string) string {
	j := 0
	for i := 0; i < len(s); i++ {
		switch c := s[i]; c {
		case '"', '\'', '&', '<', '>':
			if j >= len(out) || out[j] != '&' {
				return fmt.Sprintf("byte %d (%q) not replaced by an entity", i, c)
			}
			k := strings.IndexByte(out[j:], ';')
			if k < 0 || k > 9 {
				return fmt.Sprintf("byte %d: entity not terminated", i)
			}
			if html.UnescapeString(out[j:j+k+1]) != string(c) {
				return fmt.Sprintf("byte %d: %q does not decode to %q", i, out[j:j+k+1], c)
			}
			j += k + 1
		default:
			if j >= len(out) || out[j] != c {
				return fmt.Sprintf("byte %d (%#x) changed or missing", i, c)
			}
			j++
		}
	}
	if j != len(out) {
		return "trailing output"
	}
	return ""
}
