// run

package main

import "fmt"

var g15 = 2

type T struct{ A, B int }

func main() {
	p41 := &g15
	*p41 *= 3
	fmt.Println("ptrop", *p41, g15)
	p48 := &(*p41)
	*p48 *= 4
	*p48++
	(*p48)--
	fmt.Println("ptrop", *p48, (*p41))
	s := "x"
	ps := &s
	qs := &*ps
	*qs += "y"
	t := &T{1, 2}
	u := &*t
	u.B = 5
	fmt.Println(s, *t, u == t)
	func() {
		defer func() { fmt.Println(recover()) }()
		var n *int
		m := &*n
		fmt.Println(m)
	}()
}
