// run

package main

import "fmt"

type T struct{ A int }

func main() {
	for _, v := range []any{5, "s", T{3}, nil, 2.5, []int{1}} {
		switch x := v.(type) {
		case string:
			fmt.Println("string", x)
		case int:
			p := &x
			pp := &p
			**pp = 7
			fmt.Println("int", x, *p)
		case T:
			q := &x
			q.A++
			f := func() { x.A *= 10 }
			f()
			fmt.Println("T", x.A, v.(T).A)
		case nil, float64:
			g := func() any { return x }
			fmt.Println("nil or float", g(), x == nil)
			y := &x
			*y = 1
			fmt.Println(x)
		default:
			h := func() { x = nil }
			h()
			fmt.Println("default", x)
		}
	}
	var v any = 5
	switch x := v.(type) {
	case int:
		f := func() { x++ }
		f()
		fmt.Println("int", x)
	}
}
