// run

package main

import "fmt"

func safe(x int) (r int) {
	defer func() {
		if e := recover(); e != nil {
			r = -x
		}
	}()
	if x%2 == 0 {
		panic(fmt.Sprint("even ", x))
	}
	return x
}

// the function that owns the loop recovers: its loop ends, the caller's loop goes on
func owner(xs []int) (out []int) {
	defer func() {
		if e := recover(); e != nil {
			out = append(out, -100)
		}
	}()
	for _, x := range xs {
		if x == 3 {
			var m map[int]int
			m[1] = 1
		}
		out = append(out, x)
	}
	out = append(out, 999)
	return out
}

func nestedLoops() (n int) {
	for i := range []int{0, 1, 2} {
		for _, s := range []string{"a", "b"} {
			for k := 0; k < 2; k++ {
				n += safe(i*4 + len(s) + k)
			}
		}
	}
	return n
}

func deferInLoop() (log []string) {
	defer func() {
		log = append(log, fmt.Sprint("outer:", recover()))
	}()
	for _, x := range []int{1, 2, 3} {
		defer func() { log = append(log, fmt.Sprint("d", x)) }()
		if x == 2 {
			panic("boom")
		}
	}
	return log
}

func recursive(n int) (r int) {
	defer func() {
		if e := recover(); e != nil {
			r = -n
		}
	}()
	for _, d := range []int{1, 2} {
		if n <= 0 {
			panic("bottom")
		}
		r += recursive(n-d) + d
		if r > 1000 {
			break
		}
	}
	return r
}

func mapAndString() (out string) {
	for k, v := range map[string]int{"only": 1} {
		out += fmt.Sprint(k, safe(v+1), ";")
	}
	for i, r := range "héy" {
		out += fmt.Sprint(i, string(r), safe(i+2), ";")
	}
	ch := make(chan int, 3)
	ch <- 1
	ch <- 2
	ch <- 3
	close(ch)
	for v := range ch {
		out += fmt.Sprint(safe(v), ",")
	}
	return out
}

func breakContinueAfterRecover() (out []int) {
outer:
	for _, a := range []int{1, 2, 3, 4} {
		for _, b := range []int{10, 20} {
			v := safe(a)
			if v < 0 {
				continue outer
			}
			if a == 3 && b == 20 {
				break outer
			}
			out = append(out, v*b)
		}
	}
	return out
}

func unrecovered() {
	defer func() { fmt.Println("main-level recover:", recover()) }()
	for _, x := range []int{1, 2} {
		func() {
			defer func() { fmt.Println("deferred in body", x) }()
			if x == 2 {
				panic("not recovered in body")
			}
		}()
	}
	fmt.Println("unreachable")
}

func main() {
	for _, x := range []int{1, 2, 3} {
		fmt.Println(safe(x))
	}
	fmt.Println(owner([]int{1, 2, 3, 4}))
	for i, xs := range [][]int{{1, 3, 5}, {7}} {
		fmt.Println(i, owner(xs))
	}
	fmt.Println(nestedLoops())
	fmt.Println(deferInLoop())
	fmt.Println(recursive(3))
	fmt.Println(mapAndString())
	fmt.Println(breakContinueAfterRecover())
	unrecovered()
	total := 0
	for i := range [5]int{} {
		func() {
			defer func() { recover() }()
			for j := range [3]int{} {
				if (i+j)%3 == 0 {
					panic(j)
				}
				total += i*10 + j
			}
		}()
	}
	fmt.Println(total)
	fmt.Println("end")
}
