// run

package main

import "fmt"

type T struct {
	S []int
	M map[string]int
	P *int
	I any
}

func main() {
	ss := [][]int{{1}, {2}}
	x := ss[0]
	ss[0] = []int{5}
	fmt.Println(x, ss)
	a, b := 1, 2
	ps := []*int{&a}
	p := ps[0]
	ps[0] = &b
	fmt.Println(*p)
	is := []any{1}
	i := is[0]
	is[0] = "s"
	fmt.Println(i)
	t := T{S: []int{1}, I: 1, P: &a}
	s1, i1, p1 := t.S, t.I, t.P
	t.S, t.I, t.P = []int{2}, 2, &b
	fmt.Println(s1, i1, *p1)
	arr := [2][]int{{1}, {2}}
	e := arr[1]
	arr[1] = nil
	fmt.Println(e)
	m := map[string][]int{"a": {1}}
	v := m["a"]
	m["a"] = nil
	fmt.Println(v)
	pt := &t
	s2 := pt.S
	pt.S = nil
	fmt.Println(s2)
}

func init() {
	s := []int{1}
	f := func() { _ = s }
	f()
	t := s
	var u []int
	u = s
	v, w := s, 1
	s = []int{2}
	fmt.Println(t, u, v, w, s)
	var x, y []int
	x, y = s, s
	s = nil
	fmt.Println(x, y)
	var i any = 1
	g := func() { _ = i }
	g()
	j := i
	i = "2"
	fmt.Println(j, i)
	a, b := []int{1, 2, 3}, []int{9}
	c := func() { fmt.Println("c", a) }
	b, a = a, b
	c()
	fmt.Println(a, b)
}
