// run

package main

import "fmt"

func f(x int) {
	switch x {
	case 0:
		fmt.Println("zero")
		goto lab
	lab:
		fallthrough
	case 1:
		fmt.Println("one")
		{
			fmt.Println("block")
		}
		fallthrough
	case 2:
		if x > 0 {
			switch {
			case true:
				fmt.Println("inner")
				fallthrough
			default:
				fmt.Println("inner default")
			}
		}
		fmt.Println("two")
	default:
		fmt.Println("d")
	}
}

func main() {
	f(0)
	fmt.Println("--")
	f(1)
	fmt.Println("--")
	f(2)
	fmt.Println("--")
	f(3)
}
