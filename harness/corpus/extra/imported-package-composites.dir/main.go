package main

import (
	"fmt"
	"prog/a"
)

func main() {
	a.C.Name = "n"
	a.C.Pos.X = 5
	a.C.Pos.Y++
	a.C.Ar[1] = 7
	a.Grid[0][1] = 3
	p := &a.C.Pos
	p.Y += 10
	q := &a.Grid[1]
	q[0] = 4
	a.Bump()
	cp := a.C
	cp.Pos.X = 100
	fmt.Println(a.Show())
	f := func() { a.C.Ar[0]--; a.Grid[0][0]++ }
	f()
	fmt.Println(a.C, a.Grid, cp.Pos, len(a.Grid), a.C.Pos == a.P{6, 11})
}
