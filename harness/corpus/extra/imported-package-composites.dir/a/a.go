package a

type P struct{ X, Y int }
type Cfg struct {
	Name string
	Pos  P
	Ar   [3]int
}

var C Cfg
var Grid [2][2]int

func Show() (Cfg, [2][2]int) { return C, Grid }
func Bump()                   { C.Pos.X++; Grid[1][1] += 2 }
