package main

import (
	"fmt"
	"prog/lib/a"
)

var top = 7

func mk() func() int {
	return func() int { a.G17 += top; return a.G17 }
}

func main() {
	v := 0
	inc := func() { v += a.G17 << 12 }
	inc()
	inc()
	fmt.Println(v)
	func() {
		w := 1
		func() {
			a.G17++
			w += a.G17
			func() { a.G15 *= 2; w++; top++ }()
		}()
		fmt.Println(w, a.G17, a.G15, top)
	}()
	f := mk()
	fmt.Println(f(), f(), a.G17)
	p := &a.G17
	g := func() { *p = 100 }
	g()
	fmt.Println(a.G17, a.Get()())
}
