package a

var G15 float64 = 1.5

var G17 int = 4

func Get() func() int {
	k := 2
	return func() int { k++; return G17 + k }
}
