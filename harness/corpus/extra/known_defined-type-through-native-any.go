// run

package main

import "fmt"

type Celsius float64

func main() {
	c := Celsius(36.6)
	fmt.Printf("%T\n", c)
}
