// run

package main

import "fmt"

func main() {
	// append below, at and above the capacity, for several element types:
	// whether the result shares the array with the operand is observable
	{
		s := make([]int, 2, 3)
		t := append(s, 7)
		t[0] = 9
		u := append(t, 8)
		u[1] = 5
		fmt.Println(s[0], t[0], t[1], len(t), len(u), u[1])
	}
	{
		s := make([]rune, 2, 3)
		t := append(s, 'a')
		t[0] = 'z'
		u := append(t, 'b')
		u[1] = 'y'
		fmt.Println(s[0], t[0], t[1], len(t), len(u), u[1])
	}
	{
		s := make([]byte, 2, 3)
		t := append(s, 1)
		t[0] = 9
		u := append(t, 2)
		u[1] = 5
		fmt.Println(s[0], t[0], t[1], len(t), len(u), u[1])
	}
	{
		s := make([]string, 2, 3)
		t := append(s, "a")
		t[0] = "z"
		u := append(t, "b")
		u[1] = "y"
		fmt.Println(s[0], t[0], t[1], len(t), len(u), u[1])
	}
	{
		s := make([]float64, 1, 2)
		t := append(s, 1.5)
		t[0] = 2.5
		fmt.Println(s[0], t[0], len(t))
	}
	{
		s := make([]any, 1, 2)
		t := append(s, "x")
		t[0] = 3
		fmt.Println(s[0], t[0], len(t))
	}
	{
		s := make([]rune, 0, 2)
		t := append(s, 'a', 'b')
		s = s[:2]
		t[1] = 'c'
		fmt.Println(string(s), string(t))
		v := append(s[:1], []rune("xy")...)
		fmt.Println(string(v), len(v))
	}
}
