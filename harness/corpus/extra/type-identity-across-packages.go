// rundir
