// run

package main

import "fmt"

func main() {
	fn := func() (r [4]int, s [4]float64) {
		func() {
			defer func() {
				fmt.Println("outer", recover())
			}()
			r[2] = 5
			panic("x")
		}()
		return r, s
	}
	a, b := fn()
	fmt.Println(a, b)
	func() { _ = fn }()
}
