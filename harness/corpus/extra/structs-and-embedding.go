// run

package main

import "fmt"

type Inner struct{ A, B int }
type Mid struct {
	Inner
	C int
}
type Outer struct {
	Mid
	*Inner2
	Name string
}
type Inner2 struct{ Z []int }

type Pair struct {
	K string
	V any
}

type Matrix [2][2]float64

type Conf struct {
	Opts  map[string][]Pair
	Limit *int
	Hooks []func(string) string
}

func total(o Outer) int { return o.A + o.B + o.C + len(o.Z) }

func mutate(o *Outer) {
	o.A *= 2
	o.Mid.B += 5
	o.Mid.Inner.A++
	o.Z = append(o.Z, 1)
}

func main() {
	o := Outer{Mid: Mid{Inner{1, 2}, 3}, Inner2: &Inner2{}, Name: "o"}
	o2 := o
	mutate(&o)
	fmt.Println(o.A, o.B, o.C, len(o.Z), total(o), o2.A, len(o2.Z), o2.Inner2 == o.Inner2)
	anon := struct {
		X, Y int
		In   struct{ Q string }
	}{1, 2, struct{ Q string }{"q"}}
	anon.In.Q += "!"
	an2 := anon
	an2.X = 9
	fmt.Println(anon.X, anon.In.Q, an2.X, anon == an2, anon.In == an2.In)
	ps := map[Pair]int{}
	ps[Pair{"a", 1}]++
	ps[Pair{"a", 1}]++
	ps[Pair{"a", "1"}]++
	fmt.Println(len(ps), ps[Pair{"a", 1}], ps[Pair{K: "a", V: "1"}])
	var m Matrix
	m[0][1] = 2.5
	m2 := m
	m2[0][1] *= 2
	fmt.Println(m[0][1], m2[0][1], m == m2, len(m), len(m[0]))
	lim := 3
	c := Conf{Opts: map[string][]Pair{}, Limit: &lim}
	c.Opts["x"] = append(c.Opts["x"], Pair{"k", 1}, Pair{"j", nil})
	c.Opts["x"][0].V = []int{1, 2}
	*c.Limit += 2
	c.Hooks = append(c.Hooks, func(s string) string { return s + "1" }, func(s string) string { return s + "2" })
	res := "r"
	for _, h := range c.Hooks {
		res = h(res)
	}
	fmt.Println(len(c.Opts["x"]), c.Opts["x"][0].V, c.Opts["x"][1].V == nil, lim, res)
	type local struct {
		id   int
		next []local2
	}
	_ = local{}
	arr := [3]Inner{{1, 1}, {2, 2}}
	parr := &arr
	parr[2].A = 7
	for i := range parr {
		parr[i].B *= 10
	}
	sl := arr[:]
	sl[0].A = 100
	fmt.Println(arr[0].A, arr[0].B, arr[2].A, arr[1].B)
	var iface any = o
	if oo, ok := iface.(Outer); ok {
		oo.Name = "changed"
		fmt.Println(oo.Name, o.Name, oo.A)
	}
	var pi any = &o
	pi.(*Outer).Name = "viaptr"
	fmt.Println(o.Name)
	pairs := []Pair{{"b", 2}, {"a", 1}}
	for i := 0; i < len(pairs); i++ {
		for j := i + 1; j < len(pairs); j++ {
			if pairs[j].K < pairs[i].K {
				pairs[i], pairs[j] = pairs[j], pairs[i]
			}
		}
	}
	fmt.Println(pairs[0].K, pairs[1].K, pairs[0].V)
}

type local2 struct{ x int }
