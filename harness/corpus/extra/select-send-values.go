// run

package main

import "fmt"

func main() {
	a := make(chan int, 1)
	b := make(chan int, 1)
	s := make(chan string, 1)
	t := make(chan string, 1)
	f := make(chan float64, 1)
	g := make(chan []int, 1)
	h := make(chan []int, 1)
	x := 10
	for i := 0; i < 7; i++ {
		select {
		case a <- x + 1:
		case b <- x + 2:
		case s <- "s":
		case t <- "t":
		case f <- 2.5:
		case g <- []int{1}:
		case h <- []int{1, 2}:
		}
	}
	fmt.Println(<-a, <-b, <-s, <-t, <-f, len(<-g), len(<-h))
}
