module prog

go 1.25.0
