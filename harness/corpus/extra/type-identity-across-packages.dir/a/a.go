package a

type T1 []bool

type T2 struct {
	F3 uint
	F4 struct{ F5 T1 }
	F6 uintptr
}
