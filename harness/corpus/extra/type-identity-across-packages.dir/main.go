package main

import (
	"fmt"

	. "prog/a"
)

type L struct{ F5 T1 }

func main() {
	v := T2{}
	var a any = v.F4
	fmt.Println(a == nil)
	v.F4 = struct{ F5 T1 }{}
	x, ok := a.(struct{ F5 T1 })
	fmt.Println(x, ok)
	y := a.(struct{ F5 T1 })
	fmt.Println(y)
	l := L(v.F4)
	a = l
	_, ok1 := a.(L)
	_, ok2 := a.(struct{ F5 T1 })
	fmt.Println(ok1, ok2, l.F5 == nil)
	var fn any = func(T1) T2 { return T2{} }
	_, ok3 := fn.(func(T1) T2)
	var m any = map[string]T1{}
	_, ok4 := m.(map[string]T1)
	var ch any = make(chan T2)
	_, ok5 := ch.(chan T2)
	var pa any = &[2]T1{}
	_, ok6 := pa.(*[2]T1)
	fmt.Println(ok3, ok4, ok5, ok6)
	switch a.(type) {
	case struct{ F5 T1 }:
		fmt.Println("struct")
	case L:
		fmt.Println("L")
	}
}
