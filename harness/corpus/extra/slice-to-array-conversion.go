// run

package main

import "fmt"

type A2 [2]int
type S []int
type E int
type AE [2]E

func try(f func()) {
	defer func() { fmt.Println("rec:", recover()) }()
	f()
}

func main() {
	sl := []int{1, 2, 3}
	a := [2]int(sl)
	a[0] = 9
	fmt.Println(a, sl)
	b := A2(sl[1:])
	fmt.Println(b, len(b))
	var s S = S{7, 8}
	c := [2]int(s)
	d := A2(s)
	fmt.Println(c, d)
	es := []E{1, 2}
	fmt.Println(AE(es), [2]E(es))
	var nilsl []int
	z := [0]int(nilsl)
	fmt.Println(z, len(z))
	try(func() { _ = [4]int(sl) })
	try(func() { _ = [1]int(nilsl) })
	p := (*[0]int)(nilsl)
	fmt.Println(p == nil)
	n := 2
	fmt.Println([2]int(sl[:n]) == [2]int{1, 2})
	m := map[[2]int]bool{[2]int(sl): true}
	fmt.Println(m)
}
