// run

package main

import "fmt"

type T1 []bool
type T2 struct{ A int }

func main() {
	var ch any = make(chan T2)
	_, ok1 := ch.(chan T2)
	var rc any = (<-chan T2)(make(chan T2))
	_, ok2 := rc.(<-chan T2)
	var sl any = []T2{}
	_, ok3 := sl.([]T2)
	var ar any = [2]T2{}
	_, ok4 := ar.([2]T2)
	var mp any = map[T2]T1{}
	_, ok5 := mp.(map[T2]T1)
	var pt any = &T2{}
	_, ok6 := pt.(*T2)
	var fn any = func(T2) T1 { return nil }
	_, ok7 := fn.(func(T2) T1)
	var st any = struct{ X T2 }{}
	_, ok8 := st.(struct{ X T2 })
	var pp any = new(*T2)
	_, ok9 := pp.(**T2)
	var cs any = make(chan []T2, 1)
	_, ok10 := cs.(chan []T2)
	fmt.Println(ok1, ok2, ok3, ok4, ok5, ok6, ok7, ok8, ok9, ok10)
	switch ch.(type) {
	case chan T2:
		fmt.Println("chan T2")
	default:
		fmt.Println("other")
	}
	c1 := make(chan T2, 1)
	var c2 chan T2 = c1
	c2 <- T2{5}
	fmt.Println((<-c1).A, c1 == c2)
}
