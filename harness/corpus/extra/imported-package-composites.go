// rundir
