// run

package main

import "fmt"

func main() {
	s := []int{5: 1, 0: 7}
	fmt.Println(len(s), s)
}
