// run

package main

import "fmt"

// Every slice expression whose indexes are out of range panics, also when the
// low and high indexes are equal, and the statements after it do not run. The
// message of Scriggo has no bounds (issue 321), so only the fact is printed.
func try(name string, f func() int) {
	defer func() {
		r := recover()
		fmt.Println(name, r != nil)
	}()
	fmt.Println(name, "len", f())
}

func main() {
	s := "hello"
	b := make([]byte, 5)
	a := [4]int{1, 2, 3, 4}
	p := &a
	sl := a[:2]
	for _, n := range []int{0, 2, 4, 5, 6, 9, -1} {
		n := n
		try(fmt.Sprint("string[n:n] ", n), func() int { return len(s[n:n]) })
		try(fmt.Sprint("string[n:] ", n), func() int { return len(s[n:]) })
		try(fmt.Sprint("string[:n] ", n), func() int { return len(s[:n]) })
		try(fmt.Sprint("string[1:n] ", n), func() int { return len(s[1:n]) })
		try(fmt.Sprint("bytes[n:n] ", n), func() int { return len(b[n:n]) })
		try(fmt.Sprint("bytes[n:n:n] ", n), func() int { return len(b[n:n:n]) })
		try(fmt.Sprint("bytes[:2:n] ", n), func() int { return cap(b[:2:n]) })
		try(fmt.Sprint("array[n:n] ", n), func() int { return len(a[n:n]) })
		try(fmt.Sprint("ptr[n:n] ", n), func() int { return len(p[n:n]) })
		try(fmt.Sprint("ptr[n:] ", n), func() int { return len(p[n:]) })
		try(fmt.Sprint("slice[n:n] ", n), func() int { return len(sl[n:n]) })
		try(fmt.Sprint("slice[:n] ", n), func() int { return len(sl[:n]) })
		try(fmt.Sprint("slice[n:3] ", n), func() int { return len(sl[n:3]) })
	}
	var ns []int
	var es string
	try("nil[0:0]", func() int { return len(ns[0:0]) })
	try("nil[1:1]", func() int { k := 1; return len(ns[k:k]) })
	try("empty[0:0]", func() int { k := 0; return len(es[k:k]) })
	try("empty[1:1]", func() int { k := 1; return len(es[k:k]) })
}
