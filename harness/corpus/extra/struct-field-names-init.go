// run

package main

import "fmt"

type T struct{ X, Y int }

var X = f()

func f() int { return s.X + 1 }

var s = T{X: 41, Y: Y}

var Y = 2

var m = map[string]int{key: 1, "b": val}
var key = mk()
var val = 7

func mk() string { return fmt.Sprint("k", val) }

var arr = [...]int{idx: 5, 1}

const idx = 2

var sl = []string{one: "a", two: key}

const (
	one = iota
	two
)

func main() {
	fmt.Println(X, s, Y, m, key, arr, sl, len(sl))
}
