// run

package main

import (
	"fmt"

	"github.com/open2b/scriggo/test/compare/testpkg"
)

func v(xs ...int) bool { return xs == nil }

func w(s string, xs ...interface{}) (bool, int) { return xs == nil, len(xs) }

func one() string { return "o" }

func main() {
	// A variadic function called without variadic arguments receives nil.
	fmt.Println(v(), v(1), v(nil...), v([]int{}...))
	fmt.Println(w("a"))
	fmt.Println(w(one()))
	fmt.Println(w("a", nil))
	func(xs ...string) { fmt.Println(xs == nil, len(xs)) }()
	f := v
	fmt.Println(f(), f(2))
	defer func(xs ...int) { fmt.Println("deferred", xs == nil) }()

	// A method value with a value receiver is bound to a copy of the receiver.
	t := testpkg.True{T: true}
	pt := &t
	m1 := t.IsTrue
	m2 := pt.IsTrue
	t.T = false
	fmt.Println(m1(), m2(), t.IsTrue(), pt.IsTrue())
	ts := []testpkg.True{{T: true}}
	m3 := ts[0].IsTrue
	ts[0].T = false
	fmt.Println(m3(), ts[0].IsTrue())

	// A value method called through a nil pointer is a nil pointer dereference.
	func() {
		defer func() { fmt.Println("recovered:", recover()) }()
		var np *testpkg.True
		fmt.Println(np.IsTrue())
	}()
	func() {
		defer func() { fmt.Println("recovered:", recover()) }()
		var np *testpkg.True
		h := np.IsTrue
		fmt.Println("not reached", h())
	}()

	// Variadic methods, also through method values.
	c := testpkg.T900{}
	c.M()
	c.M("x", "y")
	c.M([]string{"s"}...)
	fmt.Println(c.Len("a"), c.Len("a", 1, 2), c.Len("a", []int{4, 5, 6}...))
	mv := c.Len
	fmt.Println(mv("a"), mv("a", 1))
	defer c.M("deferred", "call")
}
