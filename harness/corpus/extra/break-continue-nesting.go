// run

package main

import "fmt"

func main() {
	for i := 0; i < 2; i++ {
		for _, x := range []int{1, 2, 3} {
			if x == 2 {
				break
			}
			fmt.Println("x", x)
		}
		fmt.Println("after", i)
	}
	for _, y := range []int{1, 2} {
		for j := 0; j < 3; j++ {
			if j == 1 {
				break
			}
			fmt.Println("j", j)
		}
		fmt.Println("after", y)
	}
	for _, y := range []int{1, 2} {
		switch y {
		case 1:
			break
		}
		fmt.Println("sw", y)
	}
	switch 1 {
	case 1:
		for _, y := range []int{1, 2} {
			if y == 1 {
				continue
			}
			if y == 2 {
				break
			}
		}
		fmt.Println("in case")
	}
	for _, y := range []int{1, 2, 3} {
		for _, z := range []int{1, 2, 3} {
			if z == 2 {
				continue
			}
			if z == 3 {
				break
			}
			fmt.Println(y, z)
		}
	}
	for i := 0; i < 2; i++ {
		f := func() {
			for _, x := range []int{1, 2, 3} {
				if x == 2 {
					break
				}
				fmt.Println("fx", x)
			}
		}
		f()
		fmt.Println("after f", i)
	}
	c := make(chan int, 1)
	c <- 1
	n := 0
	select {
	case v := <-c:
		if v == 1 {
			break
		}
		fmt.Println("not reached")
	}
	n++
	fmt.Println("after select", n)
	for i := 0; i < 3; i++ {
		for {
			break
		}
		if i == 0 {
			continue
		}
		fmt.Println("i", i)
	}
	m := 0
	for i := 0; ; i++ {
		m++
		if m > 20 {
			fmt.Println("runaway")
			break
		}
		if i < 3 {
			continue
		}
		fmt.Println("i3", i)
		break
	}
	for _, x := range []int{1, 2} {
		for {
			break
		}
		if x == 1 {
			continue
		}
		fmt.Println("x", x)
	}
	k := 0
	for {
		k++
		if k < 3 {
			continue
		}
		break
	}
	fmt.Println("k", k)
}
