// run

package main

import (
	"fmt"
	"strings"
)

func F(n int) (s string, err error) {
	defer func() {
		if r := recover(); r != nil {
			err = fmt.Errorf("F: %v", r)
		}
	}()
	s = strings.Repeat("x", n)
	return s, nil
}

func main() {
	second()
	fmt.Println(F(2))
	fmt.Println(F(-1))
}


func boom() { panic("bad") }

func A(f func()) (err error) {
	defer func() {
		if r := recover(); r != nil {
			err = fmt.Errorf("A: %v", r)
		}
	}()
	for range []int{1} {
		f()
	}
	return nil
}

func B(fs []func()) (err error) {
	defer func() {
		if r := recover(); r != nil {
			err = fmt.Errorf("B: %v", r)
		}
	}()
	for range fs {
		boom()
	}
	return nil
}

func C(fs []func()) (err error) {
	defer func() {
		if r := recover(); r != nil {
			err = fmt.Errorf("C: %v", r)
		}
	}()
	for _, f := range fs {
		f()
	}
	return nil
}

func second() {
	fmt.Println(A(func() { panic("bad") }))
	fmt.Println(A(boom))
	fmt.Println(B([]func(){boom}))
	fmt.Println(C([]func(){boom}))
	fmt.Println(C([]func(){func() { panic("lit") }}))
}
