// run

package main

import "fmt"

func main() {
outer:
	for i := 0; i < 3; i++ {
		for j := 0; j < 3; j++ {
			if j == 1 {
				continue outer
			}
			if i == 2 {
				break outer
			}
			fmt.Println("a", i, j)
		}
	}
sw:
	switch 1 {
	case 1:
		for k := 0; k < 3; k++ {
			if k == 1 {
				break sw
			}
			fmt.Println("k", k)
		}
		fmt.Println("not reached")
	}
L:
	for i := 0; i < 2; i++ {
		switch i {
		case 0:
			continue L
		case 1:
			break L
		}
		fmt.Println("not reached", i)
	}
R1:
	for _, x := range []int{1, 2, 3} {
		for _, y := range []int{1, 2, 3} {
			if y == 2 {
				continue R1
			}
			if x == 3 {
				break R1
			}
			fmt.Println("r", x, y)
		}
	}
F:
	for i := 0; i < 4; i++ {
		for _, x := range []int{1, 2} {
			for _, y := range "ab" {
				if i == 1 {
					continue F
				}
				if i == 3 {
					break F
				}
				fmt.Println("f", i, x, string(y))
			}
		}
		fmt.Println("end body", i)
	}
R2:
	for _, x := range []int{1, 2, 3} {
	G:
		for j := 0; j < 3; j++ {
			for _, z := range []string{"p", "q"} {
				if j == 1 {
					continue G
				}
				if x == 2 && j == 2 {
					continue R2
				}
				if x == 3 {
					break R2
				}
				fmt.Println("g", x, j, z)
			}
			fmt.Println("end G body", x, j)
		}
	}
	ch := make(chan int, 1)
H:
	for i := 0; i < 3; i++ {
		for _, x := range []int{7, 8} {
			switch {
			case x == 8 && i == 0:
				continue H
			case i == 2:
				break H
			}
			ch <- x
			select {
			case v := <-ch:
				if v == 8 {
					break
				}
				fmt.Println("sel", i, v)
			}
		}
	}
M:
	for i := 0; i < 2; i++ {
	N:
		for j := 0; j < 2; j++ {
			for range []int{0, 1, 2} {
				if i == 0 && j == 0 {
					continue N
				}
				if i == 0 && j == 1 {
					continue M
				}
				if i == 1 && j == 0 {
					break N
				}
				fmt.Println("unreached")
			}
			fmt.Println("after inner range", i, j)
		}
		fmt.Println("after N", i)
	}
	var mm map[string]int
X:
	for k := range mm {
		for range mm {
			_ = k
			break X
		}
	}
	t := 0
Y:
	for _, s := range []string{"ab", "cd"} {
		for _, r := range s {
			func() {
				for i := 0; i < 2; i++ {
					t += i
				}
			}()
			if r == 'c' {
				break Y
			}
			t += 10
		}
	}
	fmt.Println("done", t)
}
