// run

package main

import (
	"fmt"
	"strings"
)

type In struct{ A [3]int }
type S struct {
	X  int
	In In
	B  strings.Builder
}

func fieldPtr(s S) (*int, S) {
	p := &s.X
	s = S{X: 5}
	*p += 1
	return p, s
}

func named() (r [2]int, p *int) {
	p = &r[1]
	r = [2]int{7, 8}
	*p *= 2
	return
}

func main() {
	first()
	arr := [4]int{1, 2, 3, 4}
	sl := arr[1:3]
	arr = [4]int{9, 9, 9, 9}
	sl[0] = 5
	fmt.Println(arr, sl)
	var s S
	p := &s.In.A[2]
	s = S{X: 1}
	*p = 42
	s.In = In{}
	s.In.A[2]++
	fmt.Println(s.X, s.In, *p)
	q, s2 := fieldPtr(s)
	fmt.Println(*q, s2.X)
	r, rp := named()
	fmt.Println(r, *rp)
	var ptrs []*int
	for i := 0; i < 3; i++ {
		v := [2]int{i, i * 10}
		ptrs = append(ptrs, &v[1])
		v = [2]int{100 + i, 200 + i}
	}
	for _, p := range ptrs {
		fmt.Print(*p, " ")
	}
	fmt.Println()
	for _, e := range []S{{X: 1}, {X: 2}} {
		px := &e.X
		e = S{X: 50}
		*px += 1
		fmt.Print(e.X, " ")
	}
	fmt.Println()
	s.B.WriteString("a")
	s = S{}
	s.B.WriteString("b")
	fmt.Println(s.B.String())
	grid := [2][2]int{}
	row := &grid[1]
	cell := &grid[1][1]
	grid = [2][2]int{{1, 2}, {3, 4}}
	row[0] += 10
	*cell += 100
	fmt.Println(grid, *row, *cell)
	f := func() *int { return &arr[0] }
	arr = [4]int{}
	*f() = 3
	fmt.Println(arr)
	t := struct{ a, b int }{1, 2}
	pa := &t.a
	t2 := t
	t = struct{ a, b int }{3, 4}
	*pa = 9
	fmt.Println(t, t2)
}


func first() {
	v := [4]int{1}
	p := &v[1]
	*p = 7
	fmt.Println(*p, v)
	v = [4]int{1}
	fmt.Println(*p, v)
	v[1] = 3
	fmt.Println(*p, v)
	w := [2]int{}
	q := &w
	w = [2]int{5, 6}
	fmt.Println(*q, q[1])
	type S struct{ A, B int }
	s := S{1, 2}
	ps := &s.B
	s = S{3, 4}
	fmt.Println(*ps, s)
	s.B = 9
	fmt.Println(*ps)
}
