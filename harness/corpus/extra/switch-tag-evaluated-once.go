// run

package main

import "fmt"

var n int

func tag() int       { n++; return 3 }
func itag() any      { n++; return "x" }
func stag() string   { n++; return "b" }

type T struct{ a, b int }

func main() {
	switch tag() {
	case 1, 2:
		fmt.Println("one")
	case 3:
		fmt.Println("three")
		fallthrough
	case 4:
		fmt.Println("four")
	default:
		fmt.Println("def")
	}
	switch x := itag(); x {
	case 1:
		fmt.Println("int")
	case "x":
		fmt.Println("str x")
	}
	switch stag() + "c" {
	case "a":
	case "bc":
		fmt.Println("bc")
	}
	v := 5
	switch v {
	case 1:
	case 5:
		v = 7
		fmt.Println("five", v)
	}
	switch (T{1, 2}) {
	case T{1, 2}:
		fmt.Println("T")
	}
	var e error
	switch e {
	case nil:
		fmt.Println("nil")
	}
	switch f := 2.5; f * 2 {
	case 5:
		fmt.Println("5.0")
	}
	switch {
	case v > 3:
		fmt.Println("v>3")
	}
	switch 3 {
	case 3:
		fmt.Println("const")
	}
	var u8 uint8 = 200
	switch u8 + 100 {
	case 44:
		fmt.Println("wrap")
	}
	ch := make(chan int, 1)
	ch <- 4
	switch <-ch {
	case 1, 2, 3:
	case 4:
		fmt.Println("recv once")
	}
	fmt.Println(n)
}
