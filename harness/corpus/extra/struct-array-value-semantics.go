// run

package main

import "fmt"

type P struct {
	K string
	N [2]int
}

func mod(p P) P        { p.K = "m"; p.N[0] = 9; return p }
func modArr(a [2]int)  { a[0] = 7 }
func ret(ps []P) P     { return ps[0] }
func retArr(ps []P) [2]int { return ps[0].N }

func main() {
	ps := []P{{"a", [2]int{1, 2}}, {"b", [2]int{3, 4}}}
	ps[0], ps[1] = ps[1], ps[0]
	fmt.Println(ps[0].K, ps[1].K)
	ps[0].N, ps[1].N = ps[1].N, ps[0].N
	fmt.Println(ps[0].N, ps[1].N)
	r := mod(ps[0])
	modArr(ps[0].N)
	fmt.Println(ps[0].K, ps[0].N, r.K, r.N)
	x := ret(ps)
	x.K = "x"
	y := retArr(ps)
	y[0] = 100
	fmt.Println(ps[0].K, ps[0].N)
	m := map[string]P{"k": ps[0]}
	v := m["k"]
	v.N[1] = 50
	fmt.Println(m["k"].N, ps[0].N)
	arr := [2]P{ps[0], ps[1]}
	arr[0].K = "arr"
	cp := arr
	cp[1].K = "cp"
	fmt.Println(ps[0].K, arr[0].K, arr[1].K, cp[1].K)
	a, b := ps[0], ps[0]
	a.K, b.K = "A", "B"
	fmt.Println(ps[0].K, a.K, b.K)
	var iface any = ps[0]
	ps[0].K = "changed"
	fmt.Println(iface.(P).K)
	ch := make(chan P, 1)
	ch <- ps[0]
	ps[0].K = "after send"
	fmt.Println((<-ch).K)
	fs := []func() P{func() P { return ps[1] }}
	g := fs[0]()
	g.K = "g"
	fmt.Println(ps[1].K)
	sl := append([]P{}, ps[0])
	sl[0].K = "appended"
	fmt.Println(ps[0].K)
	st := struct{ In P }{ps[1]}
	st.In.K = "st"
	fmt.Println(ps[1].K)
}
