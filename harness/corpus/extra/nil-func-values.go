// run

package main

import "fmt"

func ret() func() { return nil }

func main() {
	var fn func()
	fmt.Println(fn == nil, fn != nil)
	if fn == nil {
		fmt.Println("nil branch")
	}
	fn = func() {}
	fmt.Println(fn != nil, fn == nil)
	fn = nil
	fmt.Println(fn == nil)
	g := ret()
	fmt.Println(g == nil)
	var fs []func()
	fs = append(fs, nil)
	fmt.Println(fs[0] == nil)
	m := map[string]func(){}
	fmt.Println(m["x"] == nil)
	var ff func(int) int
	h := func() bool { return ff == nil }
	fmt.Println(h())
	type S struct{ F func() }
	var s S
	fmt.Println(s.F == nil)
	defer func() { fmt.Println("rec", recover() != nil) }()
	fn()
}
