// run

package main

import "fmt"

func main() {
	s := make([]int, 3)
	i := 0
	i, s[i] = 2, 5
	fmt.Println(i, s)
}
