// run

package main

import "fmt"

var n int

func tag() int { n++; return 3 }

func main() {
	switch tag() {
	case 1:
		fmt.Println("one")
	case 2:
		fmt.Println("two")
	case 3:
		fmt.Println("three")
	}
	fmt.Println(n)
}
