// run

package main

import "fmt"

type T struct{ f int }

func main() {
	s := make([]int, 3)
	i := 0
	i, s[i] = 2, 5
	fmt.Println(i, s)
	t := []int{7, 8}
	s, s[0] = t, 9
	fmt.Println(s, t)
	m := map[string]int{}
	k := "a"
	k, m[k] = "b", 1
	fmt.Println(k, m)
	m2 := map[string]int{}
	m, m["x"] = m2, 3
	fmt.Println(len(m), len(m2))
	x, y := 1, 2
	p := &x
	p, *p = &y, 10
	fmt.Println(x, y, *p)
	t1, t2 := &T{1}, &T{2}
	q := t1
	q, q.f = t2, 30
	fmt.Println(t1.f, t2.f, q.f)
	var a [3]int
	j := 1
	j, a[j] = 2, 4
	fmt.Println(j, a)
	var st T
	st.f, j = 5, 0
	fmt.Println(st.f, j)
	a[j], j = 6, 2
	fmt.Println(a, j)
	i = 0
	s[i], i = 1, 1
	fmt.Println(s, i)
	func() {
		c := 0
		z := []int{0, 0, 0}
		g := func() { c++ }
		c, z[c] = 2, 7
		g()
		fmt.Println(c, z)
	}()
	a[0], a[1], a[2] = a[2], a[0], a[1]
	fmt.Println(a)
}
