// run

package main

import "fmt"

type Pt struct{ X, Y int }

func named() (r any, err error) {
	defer func() { _ = r; _ = err }()
	r = 5
	return "x", nil
}

func named1() (r int, s string) {
	defer func() { r++ }()
	return 10, "s"
}

func named2() (r any) {
	f := func() { r = 7 }
	f()
	return
}

func named3() (r []int, m map[string]int) {
	defer func() { r = append(r, 9) }()
	return []int{1}, map[string]int{"a": 1}
}

func main() {
	// range values are copies
	pts := []Pt{{1, 1}, {2, 2}}
	for _, pt := range pts {
		pt.X = 50
	}
	for i := range pts {
		pts[i].Y = 60
	}
	fmt.Println(pts[0].X, pts[0].Y, pts[1].X, pts[1].Y)
	m := map[string]Pt{"a": {1, 1}}
	for _, v := range m {
		v.X = 50
	}
	w := m["a"]
	w.X = 3
	fmt.Println(m["a"].X, w.X)
	pa := [2]Pt{{1, 1}, {2, 2}}
	for _, v := range pa {
		v.X = 50
	}
	arrs := [][2]int{{1, 2}}
	for _, a := range arrs {
		a[0] = 9
	}
	fmt.Println(pa[0].X, arrs[0][0])
	ch := make(chan Pt, 1)
	ch <- pts[0]
	close(ch)
	for r := range ch {
		r.X = 44
	}
	fmt.Println(pts[0].X)
	// multi-value assignment to interface targets
	var a, b any = 1, "x"
	fmt.Println(a, b)
	var c, d any = 2.5, true
	fmt.Println(c, d)
	var e, f any
	e, f = 7, []int{1}
	fmt.Println(e, f)
	x, y := 1, 2
	var q, r any = x, y+1
	fmt.Println(q, r, q == r, q == 1)
	var o, p interface{} = nil, 3
	fmt.Println(o, p)
	fmt.Println(named())
	fmt.Println(named1())
	fmt.Println(named2())
	fmt.Println(named3())
	// interface variables that escape
	var i any = "str"
	func() { _ = i }()
	st, ok := i.(string)
	fmt.Println(st, ok)
	s2 := i.(string)
	fmt.Println(s2, i == "str", i != nil, i)
	switch v := i.(type) {
	case int:
		fmt.Println("int", v)
	case string:
		fmt.Println("string", v)
	}
	var n any
	func() { _ = n }()
	_, okn := n.(int)
	fmt.Println(n == nil, okn)
	n = 5
	k, okk := n.(int)
	fmt.Println(k+1, okk)
	n = Pt{3, 0}
	pv, okp := n.(Pt)
	fmt.Println(pv.X, okp)
	g := func() { n = nil }
	g()
	fmt.Println(n == nil, n)
	var sl []any
	h := func() { sl = append(sl, n, a, nil) }
	h()
	fmt.Println(sl, len(sl))
}

type Pt2 struct{ X, Y int }

func init() {
	m := map[string]int{"key": 1}
	for k := range m {
		s := "x"
		t := s + "y"
		fmt.Println(k, s, t)
	}
	for k, v := range m {
		s := "x"
		fmt.Println(k, v, s)
	}
	mf := map[float64]string{1.5: "a"}
	for k, v := range mf {
		f := 2.5
		s := "s"
		fmt.Println(k, v, f, s)
	}
	mp := map[Pt2]bool{{1, 2}: true}
	for k := range mp {
		q := Pt2{7, 8}
		fmt.Println(k.X, q.X)
	}
	ch := make(chan Pt2, 1)
	ch <- Pt2{1, 2}
	close(ch)
	for r := range ch {
		r.X = 44
		fmt.Println(r.X, cap(ch))
	}
	cs := make(chan string, 1)
	cs <- "a"
	close(cs)
	for s := range cs {
		u := "u"
		fmt.Println(s, u)
	}
}
