// run

package main

import "fmt"

type ID int
type P struct{ X int }

func main() {
	second()
	m := map[interface{}]string{}
	k := ID(1)
	m[k] = "id"
	m[1] = "int"
	fmt.Println(len(m), m[k], m[ID(1)], m[1])
	var e interface{} = k
	fmt.Println(m[e])
	m2 := map[interface{}]string{ID(1): "id", 1: "int"}
	fmt.Println(len(m2), m2[k], m2[ID(1)], m2[e], m2[1])
	m3 := map[interface{}]int{}
	m3[P{1}]++
	m3[P{1}]++
	m3[struct{ X int }{1}]++
	fmt.Println(len(m3), m3[P{1}])
	_, ok := m[k]
	delete(m, k)
	fmt.Println(ok, len(m))
	type K struct {
		A interface{}
		B int
	}
	m4 := map[K]int{}
	m4[K{ID(1), 2}] = 5
	fmt.Println(m4[K{ID(1), 2}], m4[K{1, 2}], len(m4))
	arr := [2]interface{}{ID(1), k}
	fmt.Println(arr[0] == arr[1], arr == [2]interface{}{k, ID(1)})
}


func second() {
	m := map[interface{}]string{1: "a", "s": "b", 2.5: "c"}
	i, s, f := 1, "s", 2.5
	v1, ok1 := m[i]
	v2, ok2 := m[s]
	v3, ok3 := m[f]
	v4, ok4 := m[1]
	_, ok5 := m[int8(1)]
	fmt.Println(v1, ok1, v2, ok2, v3, ok3, v4, ok4, ok5)
	delete(m, i)
	delete(m, "s")
	delete(m, f)
	delete(m, 7)
	fmt.Println(len(m))
	me := map[error]int{}
	e := fmt.Errorf("x")
	me[e]++
	n, ok := me[e]
	delete(me, e)
	fmt.Println(n, ok, len(me))
}
