// run

package main

import "fmt"

type In struct{ X, Y int }
type T struct {
	A  int
	In In
	Ar [3]int
	Ms [2]In
}

var g T
var arr [4]int
var grid [2][2]In
var ps [2]*In

func show() { fmt.Println(g, arr, grid) }

func mutate(t T) T { t.In.X = -1; t.Ar[0] = -1; return t }

func main() {
	x := g.In
	x.X = 1
	y := arr
	y[0] = 1
	row := grid[0]
	row[0].X = 1
	show()
	s := arr[1:3]
	s[0] = 7
	s = append(s, 8)
	fmt.Println(arr, s)
	g.Ms[1].Y = 3
	g.Ms[0], g.Ms[1] = g.Ms[1], g.Ms[0]
	grid[1][1].X, grid[0][0].Y = 4, 5
	grid[0][0].X++
	m := mutate(g)
	fmt.Println(m.In, m.Ar, g.In, g.Ar)
	for i := range arr {
		arr[i] *= 2
	}
	for i, v := range arr {
		arr[3-i] = v
	}
	for i := range grid {
		for j := range grid[i] {
			grid[i][j].Y += i*10 + j
		}
	}
	show()
	pg := &g
	pg.In.X = 11
	pi := &g.In
	pi.Y = 12
	pe := &grid[1][0]
	pe.X = 13
	pa := &arr
	pa[0] = 14
	ps[0] = &In{}
	ps[0].X = 15
	ps[1] = pi
	ps[1].X++
	show()
	fmt.Println(*ps[0], *ps[1], g == T{}, g.In == In{12, 12}, arr == [4]int{14, 8, 8, 0}, len(arr), cap(arr[:2]))
	f := func() {
		g.Ar[2]++
		arr[1]--
		grid[0][1].X = 99
		l := g
		l.A = 5
	}
	f()
	f()
	show()
	func() {
		defer func() { fmt.Println(recover()) }()
		i := 5
		arr[i] = 1
	}()
	func() {
		defer func() { fmt.Println(recover()) }()
		ps[0] = nil
		ps[0].X = 1
	}()
	var local struct {
		In In
		Ar [2]int
	}
	h := func() { local.In.X++; local.Ar[1] += 2; p := &local.Ar; p[0] = 9 }
	h()
	h()
	fmt.Println(local)
	const k = len(arr)
	fmt.Println(k, len(g.Ar), len(grid[0]))
	g.Ar = [3]int{1, 2, 3}
	g.In = In{}
	arr = [4]int{}
	grid[1] = [2]In{{1, 1}}
	show()
}
