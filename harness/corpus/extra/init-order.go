// run

package main

import "fmt"

var a = f()
var b = g(1)
var c, d = h(), 5
var e = func() int { return z + 1 }()
var z = 10
var m = map[string]int{"k": k()}
var n = 2
var q = r1()
var w = 7

func f() int { return b + 1 }
func g(x int) int { return x + n }
func h() int { return d * 2 }
func k() int { return k2() }
func k2() int { return n * 100 }
func r1() int { return r2(3) }
func r2(i int) int {
	if i == 0 {
		return w
	}
	return r1x(i - 1)
}
func r1x(i int) int { return r2(i) }

func main() {
	fmt.Println(a, b, c, d, e, z, m, n, q, w)
}
