// run

package main

import "fmt"

func main() {
	var fs [3]func() int
	for i := 0; i < 3; i++ {
		fs[i] = func() int { return i }
	}
	fmt.Println(fs[0](), fs[1](), fs[2]())
}
