// run

package main

import "fmt"

func try(f func()) {
	defer func() { fmt.Println(recover()) }()
	f()
}

func main() {
	s := []int{1, 2}
	a := [2]int{1, 2}
	p := &a
	str := "ab"
	m := []struct{ X int }{{1}}
	for _, i := range []int{-1, 2, -5} {
		i := i
		try(func() { _ = s[i] })
		try(func() { s[i] = 1 })
		try(func() { _ = a[i] })
		try(func() { a[i] = 1 })
		try(func() { _ = p[i] })
		try(func() { p[i] = 1 })
		try(func() { _ = str[i] })
		try(func() { _ = &s[i] })
		try(func() { m[i].X = 2 })
		try(func() { _ = m[i].X })
		try(func() { s[i]++ })
	}
}
