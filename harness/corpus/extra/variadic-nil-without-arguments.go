// run

package main

import "fmt"

func f(a ...int) { fmt.Println(a == nil, len(a), a) }

func g(s string, a ...string) bool { return a == nil }

func two() (int, int) { return 1, 2 }

func h(x int, a ...int) { fmt.Println(x, a == nil, a) }

func main() {
	f()
	f(1)
	f([]int{}...)
	f(nil...)
	fmt.Println(g("a"), g("a", "b"))
	k := func(a ...any) { fmt.Println(a == nil) }
	k()
	k(nil)
	h(two())
	h(1)
}
