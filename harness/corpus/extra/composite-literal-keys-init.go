// run

package main

import "fmt"

type P struct{ A, B int }
type L []P
type M map[P]P
type PP = P
type Q PP

var A = g()

func g() int { return l[0].A + m[P{A: 1, B: B}].B + q.A + ptrs[0].B + len(anon) }

var l = L{{A: 1, B: B}, {B: 3}}
var m = M{{A: 1, B: B}: {A: B, B: 9}}
var q = Q{A: 5}
var ptrs = []*P{{A: 1, B: 6}}
var anon = []struct{ A, k int }{{A: 1, k: B}}
var B = 2

var table = map[string]int{k1: 1, k2: two()}
var k1, k2 = "x", "y" + k1

func two() int { return B }

func local() int {
	type P struct{ B string }
	B := "shadow"
	p := P{B: B}
	return len(p.B)
}

func main() {
	fmt.Println(A, l, m, q, *ptrs[0], anon, B, table, local())
}
