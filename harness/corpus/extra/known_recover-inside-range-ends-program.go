// run

package main

import "fmt"

func safe(x int) (r int) {
	defer func() {
		if e := recover(); e != nil {
			r = -1
		}
	}()
	if x == 2 {
		panic("two")
	}
	return x
}

func main() {
	for _, x := range []int{1, 2, 3} {
		fmt.Println(safe(x))
	}
	fmt.Println("after range")
}
