// run

package main

import "fmt"

func main() {
	xs := []int64{65, 0x10FFFF, 0x110000, 0xD800, -1, 1 << 31, 1<<32 + 65, 1 << 40, -(1 << 33) + 66, 0x7FFFFFFFFFFFFFFF}
	for _, x := range xs {
		fmt.Printf("%q %q ", string(x), string(rune(x)))
	}
	fmt.Println()
	var i int = 1<<32 + 66
	var u uint64 = 1<<63 + 67
	var i32 int32 = 0x10FFFF
	var u8 uint8 = 200
	fmt.Printf("%q %q %q %q\n", string(i), string(u), string(i32), string(u8))
}
