// run

package main

import "fmt"

func named() { fmt.Println("named") }

func main() {
	var fs []func()
	x := 1
	fs = append(fs, func() { fmt.Println("lit", x) })
	fs = append(fs, named, func() { x++ })
	fmt.Println(len(fs))
	fs[0]()
	fs[1]()
	fs[2]()
	fs[0]()
	var gs []func(int) int
	for i := 0; i < 3; i++ {
		k := i
		gs = append(gs, func(n int) int { return n + k })
	}
	for _, g := range gs {
		fmt.Println(g(10))
	}
	s := make([]any, 2, 10)
	s[0], s[1] = 1, 2
	t := append(s, 3)
	_ = t
	u := append(s[:2], nil)
	fmt.Println(t[2], u[2], len(u))
}

func init() {
	var is []any
	is = append(is, nil, 1, nil)
	fmt.Println(is, len(is))
	var ps []*int
	ps = append(ps, nil)
	fmt.Println(ps[0] == nil, len(ps))
	var ms []map[string]int
	ms = append(ms, nil, map[string]int{"a": 1})
	fmt.Println(ms[0] == nil, len(ms[1]))
	var ss [][]int
	ss = append(ss, nil, nil)
	fmt.Println(len(ss), ss[0] == nil)
	var es []error
	es = append(es, nil)
	fmt.Println(es[0] == nil)
	var cs []chan int
	cs = append(cs, nil)
	fmt.Println(cs[0] == nil)
}
