// run

package main

import (
	"fmt"
)

func h(n int) (r string, k int) {
	defer func() {
		if e := recover(); e != nil {
			k = 7
			r = fmt.Sprint("recovered:", e)
		}
	}()
	if n == 0 {
		panic("p")
	}
	return "ok", n
}

func safeDiv(a, b int) (q int, err error) {
	defer func() {
		if r := recover(); r != nil {
			err = fmt.Errorf("caught: %v", r)
		}
	}()
	q = a / b
	return
}

func nested(n int) (res []string) {
	defer func() {
		if r := recover(); r != nil {
			res = append(res, fmt.Sprint("outer:", r))
		}
	}()
	defer func() {
		res = append(res, "second")
	}()
	inner := func() {
		defer func() {
			res = append(res, "inner-defer")
		}()
		if n > 0 {
			panic("deep")
		}
	}
	inner()
	res = append(res, "after-inner")
	return res
}

func multi(n int) (a int, b string, c float64, d []int, e map[string]int) {
	x, y, z := 1, "s", 2.5
	defer func(p int, q string) {
		if r := recover(); r != nil {
			a, b, c = p+x, q+y, z
			d = append(d, 9)
			e = map[string]int{"r": 1}
		}
	}(10, "q")
	d = []int{1}
	if n > 0 {
		var m map[string]int
		m["a"] = 1
	}
	return 1, "b", 1.5, d, nil
}

func viaCallee(n int) (out int) {
	defer func() {
		if recover() != nil {
			out = -1
		}
	}()
	return callee(n)
}

func callee(n int) int {
	locals := [4]int{1, 2, 3, 4}
	if n == 0 {
		var p *int
		return *p + locals[0]
	}
	return n * locals[1]
}

func rethrow() (s string) {
	defer func() {
		r := recover()
		s = fmt.Sprint("final:", r)
	}()
	defer func() {
		if r := recover(); r != nil {
			panic(fmt.Sprint("again:", r))
		}
	}()
	panic("first")
}

func loopDefers() (total int) {
	for i := 0; i < 3; i++ {
		defer func(n int) {
			if r := recover(); r != nil {
				total += 100
			}
			total += n
		}(i)
	}
	panic("x")
}

func main() {
	fmt.Println(h(3))
	fmt.Println(h(0))
	fmt.Println(safeDiv(6, 3))
	fmt.Println(safeDiv(1, 0))
	fmt.Println(nested(0))
	fmt.Println(nested(1))
	fmt.Println(multi(0))
	fmt.Println(multi(1))
	fmt.Println(viaCallee(3), viaCallee(0))
	fmt.Println(rethrow())
	fmt.Println(loopDefers())
}
