// run

package main

import (
	"fmt"
	"time"
)

func main() {
	t := fmt.Stringer(time.Second)
	fmt.Println(t, t.String())
	var s fmt.Stringer = 3 * time.Millisecond
	fmt.Println(s)
	u := fmt.Stringer(time.Duration(5) * time.Minute)
	fmt.Println(u)
	fmt.Println(any(time.Second), fmt.Stringer(time.Duration(1)))
}
