// rundir
