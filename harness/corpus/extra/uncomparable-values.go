// run

package main

import "fmt"

func try(name string, f func()) {
	defer func() { fmt.Println(name, recover()) }()
	f()
}

func main() {
	var a, b any = []int{1}, []int{1}
	try("eq", func() { fmt.Println(a == b) })
	m := map[any]int{}
	try("set", func() { m[a] = 1 })
	try("get", func() { _ = m[a] })
	try("del", func() { delete(m, a) })
	try("get2", func() { _, ok := m[a]; _ = ok })
	var f1, f2 any = func() {}, func() {}
	try("func", func() { fmt.Println(f1 == f2) })
	var m1, m2 any = map[string]int{}, map[string]int{}
	try("map", func() { fmt.Println(m1 == m2) })
	try("switch", func() {
		switch a {
		case b:
			fmt.Println("same")
		}
	})
	arr := [1]any{[]int{1}}
	arr2 := [1]any{[]int{1}}
	try("array", func() { fmt.Println(arr == arr2) })
	fmt.Println("end")
}
