package main

import (
	"fmt"

	"prog/lib"
)

func main() {
	x := 1
	defer lib.Log("d1")
	defer lib.Log("d2", x, 2)
	defer lib.Log(lib.Pair())
	defer lib.Log("sl", []int{1, 2}...)
	x = 100
	for i := 0; i < 2; i++ {
		defer lib.Log("loop", i)
	}
	lib.Log("direct", x)
	n := 0
	func() {
		defer lib.Add(&n, 5)
		n = 1
	}()
	fmt.Println(n, lib.Result(), lib.Count)
}
