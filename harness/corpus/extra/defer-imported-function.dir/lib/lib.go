package lib

import "fmt"

var Count int

func Log(pre string, xs ...int) {
	Count++
	fmt.Println("lib.Log", pre, xs, xs == nil, Count)
}

func Pair() (string, int) { return "p", 5 }

func Result() (n int) {
	defer Add(&n, 2)
	return 40
}

func Add(p *int, d int) { *p += d }
