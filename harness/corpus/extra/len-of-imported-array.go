// rundir
