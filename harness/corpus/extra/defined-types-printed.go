// run

package main

import "fmt"

type Celsius float64
type Names []string
type Pt struct{ X, Y int }
type Line struct {
	A, B Pt
	Tag  string
	p    *Pt
}
type Reg map[string]Pt
type ID int

func main() {
	c := Celsius(36.6)
	n := Names{"a", "b"}
	p := Pt{1, 2}
	l := Line{Pt{1, 2}, Pt{3, 4}, "t", nil}
	r := Reg{"k": {5, 6}}
	var id ID = 7
	fmt.Println(c, n, p, l, r, id)
	fmt.Printf("%v|%+v|%d|%5.1f|%q|%x|%08.3f|%s\n", p, p, id, c, n, id, c, n)
	fmt.Println(&p == nil, []Pt{p, p}, [2]ID{1, 2}, map[ID]Celsius{1: 2.5})
	var e any = p
	fmt.Println(e, fmt.Sprint(e) == "{1 2}", fmt.Sprintf("%v", []any{c, id, n}))
	pp := &p
	fmt.Printf("%v %+v\n", *pp, pp.X)
	var np *Pt
	fmt.Println(np == nil, fmt.Sprint(np))
}
