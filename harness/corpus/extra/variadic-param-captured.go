// run

package main

import "fmt"

type T struct{ A int }

func f(a ...bool) {
	defer func() { fmt.Println("d", a) }()
	var v bool
	_ = v
	fmt.Println("f", a)
}

func g(n int, xs ...T) func() int {
	p := &xs
	*p = append(*p, T{n})
	return func() int { xs = append(xs, T{1}); return len(xs) }
}

func main() {
	f()
	f(true)
	fmt.Println(g(1)(), g(2, T{}, T{})())
	h := func(s ...string) { func() { s = append(s, "z") }(); fmt.Println(s) }
	h("a")
	h([]string{"b", "c"}...)
}
