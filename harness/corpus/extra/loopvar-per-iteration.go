// run

package main

import "fmt"

func main() {
	var fs []func() int
	for _, v := range []int{1, 2, 3} {
		fs = append(fs, func() int { return v })
	}
	for i, v := range []string{"a", "b"} {
		fs = append(fs, func() int { return i*10 + len(v) })
	}
	for i := 0; i < 3; i++ {
		fs = append(fs, func() int { i += 100; return i })
	}
	for i, j := 0, 10; i < 2; i, j = i+1, j-1 {
		fs = append(fs, func() int { return i*100 + j })
	}
	for k := range map[string]int{"q": 1} {
		fs = append(fs, func() int { return len(k) })
	}
	for _, f := range fs {
		fmt.Print(f(), " ")
	}
	fmt.Println()
	// the loop variable modified in the body through a closure is seen by the post statement
	for i := 0; i < 6; i++ {
		inc := func() { i++ }
		inc()
		fmt.Print(i, " ")
	}
	fmt.Println()
	var ps []*int
	for i := 0; i < 3; i++ {
		ps = append(ps, &i)
	}
	fmt.Println(*ps[0], *ps[1], *ps[2])
	var qs []*int
	for _, v := range []int{7, 8} {
		qs = append(qs, &v)
	}
	fmt.Println(*qs[0], *qs[1])
	n := 0
	for i := 0; i < 3; i++ {
		defer func() { n += i }()
	}
	for i := 0; i < 3; i++ {
		if i == 1 {
			continue
		}
		fs = append(fs, func() int { return i })
	}
	fmt.Println(fs[len(fs)-2](), fs[len(fs)-1]())
	var gs []func() int
	for i := 0; i < 2; i++ {
		for j := 0; j < 2; j++ {
			gs = append(gs, func() int { return i*2 + j })
		}
	}
	for _, g := range gs {
		fmt.Print(g(), " ")
	}
	fmt.Println()
}
