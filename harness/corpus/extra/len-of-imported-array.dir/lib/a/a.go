package a

type T1 [4]int

var G14 T1 = T1{6}
