package main

import (
	"fmt"
	"prog/lib/a"
)

func main() {
	var v = int8(len(a.G14))
	fmt.Println(v, len(a.G14), cap(a.G14))
}
