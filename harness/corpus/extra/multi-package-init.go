// rundir
