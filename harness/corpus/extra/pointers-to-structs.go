// run

package main

import "fmt"

type Inner struct{ A, B int }

type T struct{ A int }

type P struct{ K string }

func main() {
	arr := [3]Inner{{1, 1}, {2, 2}}
	parr := &arr
	parr[2].A = 7
	for i := range parr {
		parr[i].B *= 10
	}
	sl := arr[:]
	sl[0].A = 100
	fmt.Println(arr[0].A, arr[0].B, arr[2].A, arr[1].B)
	o := T{1}
	var pi any = &o
	pi.(*T).A = 5
	q := pi.(*T)
	q.A++
	fmt.Println(o.A)
	x := 1
	var px any = &x
	*(px.(*int)) = 5
	fmt.Println(x)
	fs := []func() P{func() P { return P{"f"} }}
	fmt.Println(fs[0]().K)
	var f func(P) P = func(p P) P { p.K += "!"; return p }
	in := P{"x"}
	fmt.Println(f(in).K, in.K)
}
