// run

package main

import "fmt"

type S struct {
	F func() int
	N string
}

var gs S
var gfs [2]func() int

func mk(n int) func() int { return func() int { return n } }

func main() {
	first()
	s := S{F: mk(1)}
	g := s.F
	s.F = mk(2)
	fmt.Println(g(), s.F())
	ps := &s
	g = ps.F
	ps.F = mk(3)
	fmt.Println(g(), s.F())
	fs := []func() int{mk(4), nil}
	g = fs[0]
	fs[0] = mk(5)
	fmt.Println(g(), fs[0](), fs[1] == nil)
	m := map[string]func() int{"a": mk(6)}
	g = m["a"]
	m["a"] = mk(7)
	fmt.Println(g(), m["a"](), m["zz"] == nil)
	gs.F = mk(8)
	g = gs.F
	gs.F = mk(9)
	fmt.Println(g(), gs.F())
	gfs[0] = mk(10)
	g = gfs[0]
	gfs[0] = mk(11)
	fmt.Println(g(), gfs[0](), gfs[1] == nil)
	var nf func() int
	c := func() bool { return nf == nil }
	fmt.Println(c(), nf == nil)
	nf = mk(12)
	k := nf
	nf = nil
	fmt.Println(c(), k(), k != nil)
	rec := 0
	var fact func(int) int
	fact = func(n int) int {
		rec++
		if n <= 1 {
			return 1
		}
		return n * fact(n-1)
	}
	f2 := fact
	fmt.Println(f2(5), rec)
	fact = func(n int) int { return -1 }
	fmt.Println(f2(3))
	for _, f := range []func() int{mk(13), mk(14)} {
		g = f
	}
	fmt.Println(g())
	ch := make(chan func() int, 1)
	ch <- mk(15)
	fmt.Println((<-ch)())
}


var gf = func() int { return 10 }

func first() {
	fn := func() int { return 1 }
	h := func() { _ = fn }
	h()
	k := fn
	fn = func() int { return 2 }
	fmt.Println(k(), fn())
	kg := gf
	gf = func() int { return 20 }
	fmt.Println(kg(), gf())
	fs := []func() int{fn}
	fn = func() int { return 3 }
	fmt.Println(fs[0](), fn())
	var i interface{} = fn
	fn = func() int { return 4 }
	fmt.Println(i.(func() int)(), fn())
	set := func(f func() int) { fn = f }
	old := fn
	set(func() int { return 5 })
	fmt.Println(old(), fn())
}
