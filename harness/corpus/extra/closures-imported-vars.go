// rundir
