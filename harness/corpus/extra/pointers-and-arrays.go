// run

package main

import "fmt"

type T struct {
	a int
	s []int
}

func main() {
	x := 5
	q := &x
	*q += 2
	*q++
	fmt.Println(x)
	qq := &q
	*q += 2
	*q++
	**qq *= 2
	fmt.Println(x, *q, **qq)
	y := 1
	*qq = &y
	*q = 100
	fmt.Println(x, y)
	f := 1.5
	pf := &f
	ppf := &pf
	*pf *= 2
	fmt.Println(f, **ppf)
	s := "a"
	ps := &s
	pps := &ps
	*ps += "b"
	fmt.Println(s, **pps, len(*ps))
	t := T{1, []int{1}}
	pt := &t
	ppt := &pt
	pt.a++
	(*pt).s = append((*pt).s, 2)
	(*ppt).a += 10
	fmt.Println(t.a, t.s, (**ppt).a)
	arr := [2]int{1, 2}
	pa := &arr
	ppa := &pa
	pa[0]++
	(*ppa)[1] += 5
	fmt.Println(arr, *pa, len(pa), len(*ppa))
	for i, v := range pa {
		fmt.Print(i, v, " ")
	}
	for i, v := range *ppa {
		fmt.Print(i, v, " ")
	}
	fmt.Println()
	var np *int
	npp := &np
	defer func() { fmt.Println("recovered", recover() != nil) }()
	fmt.Println(**npp)
}

type S struct{ a [2]int }

var ga [3]int
var gp = &ga

func fill(p *[3]int) {
	for i := range p {
		p[i] = i * i
	}
}

func init() {
	ar := [3]int{1, 2, 3}
	for i, x := range ar {
		ar[2] = 10
		if i == 2 {
			fmt.Println(x)
		}
	}
	p := &ar
	for i, x := range p {
		p[2] = 20
		if i == 2 {
			fmt.Println(x)
		}
	}
	fill(p)
	fmt.Println(ar)
	gp[1] = 5
	fill(gp)
	ga[0] = 7
	fmt.Println(ga, *gp)
	i, j := 0, 1
	p[i], p[j] = p[j], p[i]
	fmt.Println(ar)
	i, p[i] = 2, 40
	fmt.Println(ar, i)
	pp := &p
	(*pp)[1] = 8
	(**pp)[2] = 9
	fmt.Println(ar)
	s2 := p[1:]
	s2[0] = 77
	s2 = append(s2, 1)
	s2[1] = 66
	fmt.Println(ar, s2, len(p[:2]), cap(p[:2]))
	m := map[string]*[2]int{"k": {1, 2}}
	m["k"][1] = 5
	fmt.Println(*m["k"])
	st := &S{}
	st.a[1] = 3
	q := &st.a
	q[0]++
	fmt.Println(st.a)
	cp := *p
	cp[0] = -1
	fmt.Println(ar[0], cp[0])
	f := func() *[3]int { return p }
	f()[0] = 123
	fmt.Println(ar)
	x := 5
	xq := &x
	xqq := &xq
	fmt.Println(*xq)
	*xq = 7
	fmt.Println(x, **xqq)
	np := new([2]string)
	np[1] = "x"
	fmt.Println(*np, len(np), cap(np))
}
