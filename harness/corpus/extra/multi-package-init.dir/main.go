package main

import (
	"fmt"
	"prog/lib"
	"prog/util"
)

var top = lib.Count * 2

func init() { fmt.Println("main init", top) }

func main() {
	a := lib.New("x")
	b := lib.New("y")
	fmt.Println(a.ID, b.Name, lib.Total([]lib.Item{a, b}), lib.Count, lib.Version, len(lib.Names))
	lib.Names = append(lib.Names, "c")
	lib.Count = 0
	fmt.Println(lib.New("z").ID, util.Next(), lib.Names[2])
	var it lib.Item
	it.Name = "direct"
	fmt.Println(it.ID, it.Name)
}
