package util

import "fmt"

var counter = start()

func start() int { fmt.Println("util var init"); return 100 }

func init() { fmt.Println("util init") }

func Next() int { counter++; return counter }
