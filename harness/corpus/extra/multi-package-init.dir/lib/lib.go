package lib

import (
	"fmt"
	"prog/util"
)

var Count = util.Next() + 10
var Names = []string{"a", "b"}

const Version = "v1"

type Item struct {
	ID   int
	Name string
}

func init() { fmt.Println("lib init", Count) }

func New(name string) Item {
	Count++
	return Item{ID: Count, Name: name}
}

func Total(items []Item) (t int) {
	for _, it := range items {
		t += it.ID
	}
	return
}
