module verif/harness

go 1.25.0

require github.com/open2b/scriggo v0.0.0

require gopkg.in/yaml.v3 v3.0.1

replace github.com/open2b/scriggo => /repo

require (
	github.com/yuin/goldmark v1.7.16
	golang.org/x/net v0.34.0
)
