package main

// Recorded findings (KNOWN_FINDINGS.txt): each has a feature switch that keeps
// the generator away from it, a recogniser that attributes its signature only
// to programs showing exactly that deviation, and a fixed probe program that is
// evaluated on every run (so that the KNOWN-FINDING line appears while the
// deviation exists, and disappears when it is repaired).

import (
	"regexp"
	"strings"
)

type finding struct {
	sig   string
	off   string // the generator option that is off by default
	norm  func(gcOut, gcEnd string) (string, string)
	probe map[string]string
}

var sliceBoundsRE = regexp.MustCompile(`slice bounds out of range \[[^\]]*\]( with (capacity|length) \d+)?`)

var findings = []finding{
	{
		// deliberate: internal/runtime/errors.go maps every slice-bounds panic to the bare message (issue 321)
		sig: "slice-bounds-panic-text", off: "slice-bounds-panic",
		norm: func(out, end string) (string, string) {
			return sliceBoundsRE.ReplaceAllString(out, "slice bounds out of range"), sliceBoundsRE.ReplaceAllString(end, "slice bounds out of range")
		},
		probe: map[string]string{"main.go": `package main

import "fmt"

func main() {
	defer func() { fmt.Println(recover()) }()
	s := []int{1, 2}
	n := 3
	_ = s[n:]
}
`},
	},
}

// the finding global-composite-nested-write (nested writes below a non-local variable of struct or array type
// were lost) is repaired: the generator writes and addresses such elements and fields again (its probe is the
// regression harness/corpus/extra/global-composites.go)

// the finding escaping-func-variable-aliased (a copy of a captured or package-level function variable followed
// later assignments) is repaired: the generator assigns to function variables again (regression
// harness/corpus/extra/func-variable-copies.go)

// knownFinding returns the signature of a recorded finding when the outcomes
// differ exactly by that deviation ("" otherwise).
func knownFindingOf(gc, sc outcome) string {
	for _, f := range findings {
		if f.norm == nil {
			continue
		}
		o, e := f.norm(gc.Out, gc.End)
		if (o != gc.Out || e != gc.End) && o == sc.Out && e == sc.End {
			return f.sig
		}
	}
	return ""
}

func knownFinding(p *Prog, class string) string { return "" }

func defaultOpts() Opts {
	o := Opts{Off: map[string]bool{}}
	for _, f := range findings {
		if f.off != "" {
			o.Off[f.off] = true
		}
	}
	return o
}

var _ = strings.Contains
