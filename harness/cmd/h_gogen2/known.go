package main

// knownFinding returns the signature of a recorded finding when the reduced
// program shows exactly that defect ("" otherwise).
func knownFinding(p *Prog, class string) string {
	return ""
}
