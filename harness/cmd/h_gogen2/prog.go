package main

// The representation of a generated program: packages of top-level nodes,
// every node a piece of text with expression holes and nested nodes.  The
// generator builds it, the renderer prints it for Scriggo (package main) and
// for the gc batch (package pNNNN, func Main), the reducer removes nodes and
// replaces expressions by literals.

import (
	"fmt"
	"sort"
	"strings"
)

// E is an expression (or any text with expression holes).  Lit, when not
// empty, is a literal of the same type that may replace the expression.
type E struct {
	P      []any // string or *E
	Lit    string
	UseLit bool
	C      bool // a constant expression (the generator never combines two of them)
}

func ex(lit string, parts ...any) *E {
	e := &E{Lit: lit}
	for _, p := range parts {
		switch p := p.(type) {
		case string:
			e.P = append(e.P, p)
		case *E:
			if p != nil {
				e.P = append(e.P, p)
			}
		default:
			e.P = append(e.P, fmt.Sprint(p))
		}
	}
	return e
}

// tx is text without a literal alternative.
func tx(parts ...any) *E { return ex("", parts...) }

func (e *E) write(b *strings.Builder) {
	if e == nil {
		return
	}
	if e.UseLit {
		b.WriteString(e.Lit)
		return
	}
	for _, p := range e.P {
		switch p := p.(type) {
		case string:
			b.WriteString(p)
		case *E:
			p.write(b)
		default:
			fmt.Fprint(b, p)
		}
	}
}

func (e *E) String() string {
	var b strings.Builder
	e.write(&b)
	return b.String()
}

// holes appends the replaceable expressions of e (outermost first).
func (e *E) holes(dst []*E) []*E {
	if e == nil || e.UseLit {
		return dst
	}
	if e.Lit != "" {
		dst = append(dst, e)
	}
	for _, p := range e.P {
		if s, ok := p.(*E); ok {
			dst = s.holes(dst)
		}
	}
	return dst
}

// all appends every expression below e, replaced or not.
func (e *E) all(dst []*E) []*E {
	if e == nil {
		return dst
	}
	dst = append(dst, e)
	for _, p := range e.P {
		if s, ok := p.(*E); ok {
			dst = s.all(dst)
		}
	}
	return dst
}

// Node is a statement or a declaration.
type Node struct {
	Pre     *E
	Kids    []*Node
	Post    string
	Decl    []string // names the node declares for the nodes after it
	Fixed   bool     // never removed on its own (clause separators, loop steps, synchronisation)
	Feat    []string
	Label   string // a label in front of the statement, printed only when the body mentions it
	Removed bool
}

func (n *Node) write(b *strings.Builder, ind int) {
	if n.Removed {
		return
	}
	var body strings.Builder
	n.Pre.write(&body)
	body.WriteByte('\n')
	for _, k := range n.Kids {
		k.write(&body, ind+1)
	}
	if n.Post != "" {
		body.WriteString(n.Post)
		body.WriteByte('\n')
	}
	s := body.String()
	if n.Label != "" && wordIn(n.Label, s) {
		b.WriteString(n.Label + ":\n")
	}
	b.WriteString(s)
}

func wordIn(w, s string) bool {
	for i := 0; ; {
		j := strings.Index(s[i:], w)
		if j < 0 {
			return false
		}
		j += i
		before := j == 0 || !isIdent(s[j-1])
		after := j+len(w) == len(s) || !isIdent(s[j+len(w)])
		if before && after {
			return true
		}
		i = j + 1
	}
}

func isIdent(c byte) bool {
	return c == '_' || '0' <= c && c <= '9' || 'a' <= c && c <= 'z' || 'A' <= c && c <= 'Z'
}

// Pkg is one package of the program: Path "" is the main package.
type Pkg struct {
	Path    string // "" (main), "a", "b/c"
	Name    string
	Imports []string // import lines, e.g. `"fmt"`, `"MOD/a"`, `. "MOD/b"`, `_ "MOD/c"`
	Nodes   []*Node
	Raw     string // a recorded source (replay): rendered by textual substitution
}

type Prog struct {
	Seed int64
	Size int
	Pkgs []*Pkg
	opts Opts
}

const modToken = "MOD"

// render prints one package; mod is the module path prefix the imports of the
// program's own packages get; mainAs, when not empty, renames package main and
// its main function (gc batch).
func (p *Pkg) render(mod, pkgName, mainFunc string) string {
	if p.Raw != "" {
		s := strings.ReplaceAll(p.Raw, "\"prog/", "\""+mod+"/")
		if p.Path == "" && pkgName != "" {
			s = strings.Replace(s, "package main\n", "package "+pkgName+"\n", 1)
			s = strings.Replace(s, "\nfunc main() {", "\nfunc "+mainFunc+"() {", 1)
		}
		return s
	}
	var b strings.Builder
	name := p.Name
	if p.Path == "" && pkgName != "" {
		name = pkgName
	}
	b.WriteString("package " + name + "\n\n")
	if len(p.Imports) > 0 {
		b.WriteString("import (\n")
		for _, im := range p.Imports {
			b.WriteString("\t" + strings.Replace(im, modToken+"/", mod+"/", 1) + "\n")
		}
		b.WriteString(")\n\n")
	}
	for _, n := range p.Nodes {
		if !n.Removed {
			n.write(&b, 0)
			b.WriteByte('\n')
		}
	}
	s := b.String()
	if p.Path == "" && mainFunc != "" {
		s = strings.Replace(s, "\nfunc main() {", "\nfunc "+mainFunc+"() {", 1)
	}
	return s
}

// Files returns the program as Scriggo/standalone gc sees it.
func (p *Prog) Files() map[string]string {
	fs := map[string]string{"go.mod": "module prog\n\ngo 1.25.0\n"}
	for _, k := range p.Pkgs {
		if k.Path == "" {
			fs["main.go"] = k.render("prog", "", "")
		} else {
			fs[k.Path+"/"+k.Name+".go"] = k.render("prog", "", "")
		}
	}
	return fs
}

// Source is the whole program as one text (for reports and signatures).
func (p *Prog) Source() string { return filesText(p.Files()) }

func filesText(fs map[string]string) string {
	var names []string
	for n := range fs {
		if n != "go.mod" {
			names = append(names, n)
		}
	}
	sort.Slice(names, func(i, j int) bool {
		if (names[i] == "main.go") != (names[j] == "main.go") {
			return names[i] == "main.go"
		}
		return names[i] < names[j]
	})
	var b strings.Builder
	for _, n := range names {
		if len(names) > 1 {
			b.WriteString("// ---- " + n + "\n")
		}
		b.WriteString(fs[n])
	}
	return b.String()
}

// walk calls f on every live node.
func (p *Prog) walk(f func(n *Node)) {
	var rec func(n *Node)
	rec = func(n *Node) {
		if n.Removed {
			return
		}
		f(n)
		for _, k := range n.Kids {
			rec(k)
		}
	}
	for _, k := range p.Pkgs {
		for _, n := range k.Nodes {
			rec(n)
		}
	}
}

// features of the live nodes.
func (p *Prog) features() map[string]int {
	m := map[string]int{}
	p.walk(func(n *Node) {
		for _, f := range n.Feat {
			m[f]++
		}
	})
	return m
}

func countLines(s string) int { return strings.Count(s, "\n") }
