package main

// C01-rich-sweep: generated programs over the whole language the interpreter
// supports, gc as the judge.  A program on which stdout or the way the program
// ends differs is reduced (reduce.go) and reported under a signature made of
// the features of the reduced program.

import (
	"fmt"
	"os"
	"path/filepath"
	"sort"
	"strings"
	"time"

	. "verif/harness/hlib"
)

func main() {
	if len(os.Args) > 1 && os.Args[1] == "rich-worker" {
		workerMain()
		return
	}
	Main()
}

// evaluate runs the programs under both toolchains.
func evaluate(progs []*Prog) (gc, sc []outcome, err error) {
	files := make([]map[string]string, len(progs))
	for i, p := range progs {
		files[i] = p.Files()
	}
	ch := make(chan []outcome, 1)
	t0 := time.Now()
	go func() {
		r := runAllScriggo(files, 3)
		if os.Getenv("RICH_DEBUG") != "" {
			fmt.Fprintf(os.Stderr, "TIMING scriggo on %d programs: %v\n", len(files), time.Since(t0))
		}
		ch <- r
	}()
	gc, err = runGc(progs)
	if os.Getenv("RICH_DEBUG") != "" {
		fmt.Fprintf(os.Stderr, "TIMING gc on %d programs: %v\n", len(files), time.Since(t0))
	}
	sc = <-ch
	return gc, sc, err
}

// differs reports whether the two outcomes are a divergence of the interpreter.
func differs(gc, sc outcome) bool {
	if strings.HasPrefix(gc.End, "invalid:") || strings.HasPrefix(gc.End, "crash:") || gc.End == "timeout" {
		return false // not a valid deterministic terminating program: the generator's fault
	}
	return gc.Out != sc.Out || gc.End != sc.End
}

// diffClass names what differs.
func diffClass(gc, sc outcome) string {
	cls := func(e string) string {
		if i := strings.Index(e, ":"); i >= 0 {
			return e[:i]
		}
		return e
	}
	switch {
	case cls(sc.End) == "build-error":
		return "build-error"
	case cls(sc.End) == "host-panic" || cls(sc.End) == "crash":
		return "host-panic"
	case sc.End == "timeout":
		return "timeout"
	case cls(sc.End) != cls(gc.End):
		return "ends-" + cls(sc.End) + "-not-" + cls(gc.End)
	case gc.Out != sc.Out:
		return "output"
	}
	return "panic-value"
}

// priority of features in a signature: the most specific first.
var featOrder = []string{
	"goroutine", "select", "chan-range", "chan", "close",
	"repanic", "defer-panic", "recover", "panic", "defer", "named-result",
	"goto", "label", "fallthrough", "typeswitch", "assert", "switch",
	"range-map", "range-string", "range-ptr-array", "range-array", "range-chan", "range", "loopvar",
	"closure", "funcvalue", "variadic", "multi-result", "recursion",
	"ptr-ptr", "ptr-field", "ptr-elem", "ptr-array", "ptr",
	"embedded", "anon-struct", "struct-key", "array-key", "struct-cmp", "struct",
	"iface", "error", "stringer",
	"map", "append", "slice3", "reslice", "copy", "slice", "array",
	"tuple-assign", "swap", "opassign", "incdec", "shadow",
	"conv-string", "conv", "iota", "const", "float", "string", "rune", "shift", "div", "int",
	"for", "if", "call",
	// what surrounds the statements comes last: it names the signature only when nothing else is left
	"dotimport", "multipkg", "initorder", "init",
}

func signature(class string, p *Prog) string {
	fs := p.features()
	var sel []string
	for _, f := range featOrder {
		if fs[f] > 0 {
			sel = append(sel, f)
			if len(sel) == 3 {
				break
			}
		}
	}
	if len(sel) == 0 {
		for f := range fs {
			sel = append(sel, f)
		}
		sort.Strings(sel)
		if len(sel) > 3 {
			sel = sel[:3]
		}
	}
	name := "rich-differs"
	if class == "build-error" || class == "host-panic" || class == "timeout" {
		name = "rich-" + class
	}
	return name + ":" + strings.Join(sel, "-")
}

func genSize(c *Ctx) int {
	if s := os.Getenv("RICH_SIZE"); s != "" {
		n := 0
		fmt.Sscan(s, &n)
		return n
	}
	return 28 + c.Rng.Intn(30)
}

func init() {
	Register("C01-rich-sweep", func(c *Ctx) {
		start := time.Now()
		if in := c.ReplayInput(); in != nil {
			replay(c, in)
			return
		}
		n := c.N
		if n <= 0 {
			return
		}
		deadline := start.Add(26 * time.Second)
		if c.Thorough() {
			deadline = start.Add(9 * time.Minute)
		}
		if s := os.Getenv("RICH_DEADLINE"); s != "" {
			n := 0
			fmt.Sscan(s, &n)
			deadline = start.Add(time.Duration(n) * time.Second)
		}
		// the probes of the recorded findings
		var probes []*Prog
		for _, f := range findings {
			fm := map[string]any{}
			for n, src := range f.probe {
				fm[n] = src
			}
			probes = append(probes, progFromFiles(fm))
		}
		if pgc, psc, err := evaluate(probes); err == nil {
			for i, f := range findings {
				c.Count("evaluations")
				if differs(pgc[i], psc[i]) {
					sig := f.sig // a probe is a fixed program written for exactly this finding
					c.Fail(sig, map[string]any{"sig": sig, "files": probes[i].Files(), "gc_out": clip(pgc[i].Out, 600), "gc_end": pgc[i].End, "scriggo_out": clip(psc[i].Out, 600), "scriggo_end": clip(psc[i].End, 300)})
				}
			}
		}
		reduced := 0
		batch := 24
		if c.Thorough() {
			batch = 60
		}
		seen := map[string]bool{}
		for done := 0; done < n && time.Now().Before(deadline) && c.Stats["failures"] < 12; {
			k := batch
			if n-done < k {
				k = n - done
			}
			progs := make([]*Prog, k)
			for i := range progs {
				progs[i] = genProgram(c.Rng.Int63(), genSize(c), defaultOpts())
			}
			done += k
			gc, sc, err := evaluate(progs)
			if err != nil {
				c.Fail("gc-unavailable", map[string]string{"error": err.Error()})
				return
			}
			for i, p := range progs {
				c.Count("evaluations")
				if strings.HasPrefix(gc[i].End, "invalid:") || strings.HasPrefix(gc[i].End, "crash:") || gc[i].End == "timeout" {
					// the generator's promise (well-typed, terminating) is broken: counted, shown, never a failure of the property
					c.Count("generator-" + strings.SplitN(gc[i].End, ":", 2)[0])
					c.Sample(map[string]any{"generator-problem": gc[i].End, "prog_seed": p.Seed, "size": p.Size})
					if os.Getenv("RICH_DEBUG") != "" {
						fmt.Fprintf(os.Stderr, "GENERATOR %d %d %s\n", p.Seed, p.Size, gc[i].End)
					}
					continue
				}
				if len(gc[i].Out) > 0 {
					c.Count("nontrivial")
				}
				c.Count("gc-end:" + strings.SplitN(gc[i].End, ":", 2)[0])
				for f := range p.features() {
					c.Count("feat:" + f)
				}
				if !differs(gc[i], sc[i]) {
					continue
				}
				class := diffClass(gc[i], sc[i])
				q, qgc, qsc := p, gc[i], sc[i]
				if reduced < 4 && time.Now().Before(deadline.Add(60*time.Second)) && os.Getenv("RICH_NOREDUCE") == "" {
					reduced++
					q, qgc, qsc = reduce(p, gc[i], sc[i], 75*time.Second)
					class = diffClass(qgc, qsc)
				}
				sig := signature(class, q)
				if q == p && reduced >= 4 {
					sig += ":unreduced"
				}
				if k := knownFindingOf(qgc, qsc); k != "" {
					sig = k
				}
				key := sig + "\x00" + q.Source()
				if seen[key] {
					continue
				}
				seen[key] = true
				c.Fail(sig, map[string]any{
					"sig": sig, "prog_seed": p.Seed, "size": p.Size, "files": q.Files(), "lines": countLines(q.Source()),
					"gc_out": clip(qgc.Out, 1500), "gc_end": qgc.End, "scriggo_out": clip(qsc.Out, 1500), "scriggo_end": clip(qsc.End, 600),
				})
			}
			if done <= batch {
				c.Sample(map[string]any{"source": clip(progs[0].Source(), 1500), "gc": clip(gc[0].String(), 300)})
			}
		}
		c.Add("wall_ms", int(time.Since(start).Milliseconds()))
	})

	// rich-files evaluates the program in a directory (main.go, sub-directories): -arg dir
	Register("rich-files", func(c *Ctx) {
		fm := map[string]any{}
		filepath.Walk(c.Arg, func(path string, info os.FileInfo, err error) error {
			if err == nil && !info.IsDir() && strings.HasSuffix(path, ".go") {
				b, _ := os.ReadFile(path)
				rel, _ := filepath.Rel(c.Arg, path)
				fm[filepath.ToSlash(rel)] = string(b)
			}
			return nil
		})
		c.Arg = ""
		p := progFromFiles(fm)
		gc, sc, err := evaluate([]*Prog{p})
		if err != nil {
			fmt.Fprintln(c.Out, "error:", err)
			return
		}
		fmt.Fprintf(c.Out, "differs: %v\n---- gc: %s\n%s\n---- scriggo: %s\n%s\n", differs(gc[0], sc[0]), gc[0].End, gc[0].Out, sc[0].End, sc[0].Out)
	})

	// rich-one evaluates and reduces the program of a seed (debugging aid): -seed S -n size
	Register("rich-one", func(c *Ctx) {
		p := genProgram(c.Seed, c.N, defaultOpts())
		gc, sc, err := evaluate([]*Prog{p})
		if err != nil {
			fmt.Fprintln(c.Out, "error:", err)
			return
		}
		if !differs(gc[0], sc[0]) {
			fmt.Fprintln(c.Out, "no difference; gc:", gc[0].End, "scriggo:", sc[0].End)
			return
		}
		t0 := time.Now()
		q, qgc, qsc := p, gc[0], sc[0]
		if os.Getenv("RICH_NOREDUCE") == "" {
			q, qgc, qsc = reduce(p, gc[0], sc[0], 120*time.Second)
		}
		fmt.Fprintf(c.Out, "%s\n---- signature %s (reduced in %v, %d -> %d lines)\n---- gc: %s\n%s\n---- scriggo: %s\n%s\n", q.Source(), signature(diffClass(qgc, qsc), q), time.Since(t0).Round(time.Second), countLines(p.Source()), countLines(q.Source()), qgc.End, qgc.Out, qsc.End, qsc.Out)
	})

	// rich-gen prints the program of a seed (debugging aid): -seed S -n size
	Register("rich-gen", func(c *Ctx) {
		p := genProgram(c.Seed, c.N, defaultOpts())
		fmt.Fprintln(c.Out, p.Source())
	})
}

// replay re-executes the recorded (reduced) program.
func replay(c *Ctx, in map[string]any) {
	fm, ok := in["files"].(map[string]any)
	if !ok {
		return // a replay of another sweep
	}
	p := progFromFiles(fm)
	gc, sc, err := evaluate([]*Prog{p})
	if err != nil {
		c.Fail("gc-unavailable", map[string]string{"error": err.Error()})
		return
	}
	c.Count("evaluations")
	if differs(gc[0], sc[0]) {
		sig, _ := in["sig"].(string)
		if sig == "" {
			sig = "rich-differs:replay"
		}
		if k := knownFindingOf(gc[0], sc[0]); k != "" {
			sig = k
		}
		c.Fail(sig, map[string]any{"files": p.Files(), "gc_out": clip(gc[0].Out, 1500), "gc_end": gc[0].End, "scriggo_out": clip(sc[0].Out, 1500), "scriggo_end": clip(sc[0].End, 600)})
	}
}

// progFromFiles wraps recorded source files as an (unreducible) program.
func progFromFiles(fm map[string]any) *Prog {
	p := &Prog{}
	var names []string
	for n := range fm {
		names = append(names, n)
	}
	sort.Strings(names)
	for _, n := range names {
		s, _ := fm[n].(string)
		if n == "go.mod" {
			continue
		}
		k := &Pkg{Raw: s}
		if n != "main.go" {
			i := strings.LastIndex(n, "/")
			k.Path = n[:i]
			k.Name = strings.TrimSuffix(n[i+1:], ".go")
		} else {
			k.Name = "main"
		}
		p.Pkgs = append(p.Pkgs, k)
	}
	return p
}
