package main

// The generator: typed, scoped, terminating and deterministic by construction.
//
// Rules that keep the programs deterministic under the Go specification (they
// are part of the trusted base of the sweep):
//   - every loop has a bound fixed in its header or by a counter the body does
//     not touch; recursion carries a depth argument; the estimated number of
//     executed statements (loop multiplicity x callee cost) is bounded;
//   - an operation that may panic (division, index, assertion, nil map write)
//     is either guarded so that it cannot, or it is the only such operation of
//     its statement and the statement runs under a deferred recover;
//   - a call of a function that writes non-local state is the whole right-hand
//     side of an assignment to plain variables; functions called inside larger
//     expressions are pure (no writes outside, no output, no panic);
//   - maps are printed through sorted keys (fmt sorts; the helpers sort);
//     map iteration only aggregates commutatively or collects and sorts;
//   - no address, no %T, no value of a program-defined struct type reaches fmt:
//     composite values are printed field-wise by generated helpers;
//   - goroutines communicate through channels with enough buffer or matched
//     operations and the printing happens in one goroutine in an order fixed by
//     the synchronisation.

import (
	"fmt"
	"math/rand"
	"strings"
)

type Opts struct {
	Off map[string]bool
}

func (o Opts) on(f string) bool { return !o.Off[f] }

type Var struct {
	Name string
	T    *Type
	RO   bool // not assignable
	Nil  bool // may hold nil although its kind is one the generator keeps non-nil (pointer, map, func, chan)
}

type Fn struct {
	Name   string
	T      *Type
	Pure   bool
	Panics bool
	Cost   int
	Named  []string // names of the results when they are named
}

type gen struct {
	r      *rand.Rand
	opts   Opts
	budget int
	nid    int
	prog   *Prog
	pkg    *Pkg
	cur    string
	dot    map[string]bool
	upper  bool // names of this package are exported

	scopes [][]*Var
	named  []*Type
	fns    []*Fn // functions that may be called from the code being generated
	consts []*Var

	showFns  map[string]string
	anyTypes []*Type
	helpers  []*Node
	needF2I  bool

	fn        *Fn // function being generated
	mult      int
	cost      int
	canPanic  bool
	inGo      bool
	loopDepth int
	depth     int // block nesting
	fnDepth   int // closure nesting
	labels    []string
	noReturn  bool // inside a deferred closure etc.: no return statements of the outer function
	useTime   bool
	pure      bool // generating a pure function
	pureBase  int  // index of the scope of the pure function
	anyShow   string
	symPkg    map[string]string
	imported  []string // packages the current package imports by name
	fnBase    int      // index of the first scope of the function being generated
}

const costLimit = 30000

func (g *gen) rnd(n int) int       { return g.r.Intn(n) }
func (g *gen) chance(pct int) bool { return g.r.Intn(100) < pct }

func (g *gen) name(prefix string) string {
	g.nid++
	if g.upper {
		prefix = strings.ToUpper(prefix[:1]) + prefix[1:]
	}
	return fmt.Sprintf("%s%d", prefix, g.nid)
}

func (g *gen) ts(t *Type) string { return t.str(g.cur, g.dot) }

// canSee: the current package imports pkg by name (or is it).
func (g *gen) canSee(pkg string) bool {
	if pkg == g.cur {
		return true
	}
	for _, p := range g.imported {
		if p == pkg {
			return true
		}
	}
	return false
}

func (g *gen) push()          { g.scopes = append(g.scopes, nil) }
func (g *gen) pop()           { g.scopes = g.scopes[:len(g.scopes)-1] }
func (g *gen) declare(v *Var) { g.scopes[len(g.scopes)-1] = append(g.scopes[len(g.scopes)-1], v) }

func (g *gen) vars() []*Var {
	var vs []*Var
	for _, s := range g.scopes {
		vs = append(vs, s...)
	}
	return vs
}

func (g *gen) spend(n int) { g.cost += n * g.mult }

// ---- types ----------------------------------------------------------------

func (g *gen) basicType() *Type {
	switch g.rnd(10) {
	case 0, 1, 2:
		return tInt
	case 3, 4:
		return intTypes[g.rnd(len(intTypes))]
	case 5:
		return tString
	case 6:
		return tBool
	case 7:
		if g.chance(30) {
			return tFloat32
		}
		return tFloat64
	case 8:
		return tString
	}
	return tInt
}

// randType returns a type of depth <= d.
func (g *gen) randType(d int) *Type {
	if d <= 0 || g.chance(35) {
		if len(g.named) > 0 && g.chance(25) {
			t := g.named[g.rnd(len(g.named))]
			if t.depth() <= d+1 {
				return t
			}
		}
		return g.basicType()
	}
	switch g.rnd(12) {
	case 0, 1:
		return &Type{K: KSlice, Elem: g.randType(d - 1)}
	case 2:
		return &Type{K: KArray, N: 1 + g.rnd(4), Elem: g.randType(d - 1)}
	case 3, 4:
		return &Type{K: KMap, Key: g.keyType(d - 1), Elem: g.randType(d - 1)}
	case 5, 6:
		return &Type{K: KPtr, Elem: g.randType(d - 1)}
	case 7:
		if len(g.named) > 0 {
			return g.named[g.rnd(len(g.named))]
		}
		return g.structType(d - 1)
	case 8:
		return g.structType(d - 1)
	case 9:
		switch g.rnd(3) {
		case 0:
			return tAny
		case 1:
			return tError
		}
		if g.opts.on("stringer") {
			return tStringer
		}
		return tAny
	case 10:
		return g.funcType(d - 1)
	}
	return g.basicType()
}

func (g *gen) keyType(d int) *Type {
	for i := 0; i < 8; i++ {
		t := g.randType(d)
		if t.comparable() && !t.hasFloat() && t.under().K != KPtr && t.under().K != KChan {
			return t
		}
	}
	if g.chance(50) {
		return tString
	}
	return tInt
}

func (g *gen) structType(d int) *Type {
	t := &Type{K: KStruct}
	n := 1 + g.rnd(3)
	for i := 0; i < n; i++ {
		t.Fields = append(t.Fields, Field{Name: g.name("f"), T: g.randType(d)})
	}
	return t
}

func (g *gen) funcType(d int) *Type {
	t := &Type{K: KFunc}
	for i, n := 0, g.rnd(3); i < n; i++ {
		t.Params = append(t.Params, g.simpleType())
	}
	for i, n := 0, g.rnd(3); i < n; i++ {
		t.Results = append(t.Results, g.simpleType())
	}
	return t
}

// simpleType: basic, or a shallow composite.
func (g *gen) simpleType() *Type {
	if g.chance(70) {
		return g.basicType()
	}
	return g.randType(1)
}

// ---- literals ---------------------------------------------------------------

var intBounds = map[string][2]string{
	"int8": {"-128", "127"}, "int16": {"-32768", "32767"}, "int32": {"-2147483648", "2147483647"},
	"int64": {"-9223372036854775808", "9223372036854775807"}, "int": {"-9223372036854775808", "9223372036854775807"},
	"uint8": {"0", "255"}, "uint16": {"0", "65535"}, "uint32": {"0", "4294967295"},
	"uint64": {"0", "18446744073709551615"}, "uint": {"0", "18446744073709551615"}, "uintptr": {"0", "18446744073709551615"},
}

func (g *gen) intLitText(t *Type) string {
	u := t.under()
	switch g.rnd(12) {
	case 0:
		return intBounds[u.Name][0]
	case 1:
		return intBounds[u.Name][1]
	case 2:
		return "0"
	case 3, 4:
		if u.signed() {
			return fmt.Sprint(-1 - g.rnd(100))
		}
		return fmt.Sprint(g.rnd(200))
	case 5:
		if u.bits() >= 32 {
			return fmt.Sprint(1000 + g.rnd(100000))
		}
	}
	return fmt.Sprint(g.rnd(10))
}

func (g *gen) wrapLit(t *Type, s string) string {
	if t == tInt || t == tString || t == tBool || t == tFloat64 {
		return s
	}
	if strings.HasPrefix(s, "-") {
		return g.ts(t) + "(" + s + ")"
	}
	return g.ts(t) + "(" + s + ")"
}

var strLits = []string{`""`, `"a"`, `"go"`, `"héllo"`, `"x y"`, `"Zz9"`, `"日本"`, `"\x00\xff"`, `"tab\t"`, `"abcdef"`}
var floatLits = []string{"0.5", "2.25", "-1.5", "100.0", "0.1", "3.0", "-0.0625", "1e3", "7.75"}

// lit returns a constant of the type (random); simple tells to use the small reducer literal.
func (g *gen) lit(t *Type, simple bool) string {
	u := t.under()
	switch u.K {
	case KBool:
		if simple || g.chance(50) {
			return g.wrapLit(t, "true")
		}
		return g.wrapLit(t, "false")
	case KInt:
		if simple {
			return g.wrapLit(t, fmt.Sprint(1+g.rnd(6)))
		}
		return g.wrapLit(t, g.intLitText(t))
	case KFloat:
		if simple {
			return g.wrapLit(t, "1.5")
		}
		return g.wrapLit(t, floatLits[g.rnd(len(floatLits))])
	case KString:
		if simple {
			return g.wrapLit(t, `"s"`)
		}
		return g.wrapLit(t, strLits[g.rnd(len(strLits))])
	}
	return ""
}

// simpleLit: the literal the reducer may put in place of an expression ("" = none).
func (g *gen) simpleLit(t *Type) string {
	u := t.under()
	switch u.K {
	case KBool, KInt, KFloat, KString:
		return g.lit(t, true)
	case KArray:
		if e := g.simpleLit(u.Elem); e != "" {
			return g.ts(t) + "{" + e + "}"
		}
	case KSlice:
		if e := g.simpleLit(u.Elem); e != "" {
			return g.ts(t) + "{" + e + ", " + e + "}"
		}
	case KStruct:
		return g.ts(t) + "{}"
	case KMap:
		return g.ts(t) + "{}"
	}
	return ""
}

// ---- places -----------------------------------------------------------------

type place struct {
	e      *E
	t      *Type
	assign bool // assignable
	addr   bool // addressable
	nilv   bool // rooted in a variable that may be nil
	outer  bool // below a composite variable of the package or of an enclosing function
}

// places lists access paths of the variables in scope (depth <= 2).
func (g *gen) places() []place {
	var ps []place
	nilVar := false
	var rec func(e *E, t *Type, assign, addr bool, d int)
	rec = func(e *E, t *Type, assign, addr bool, d int) {
		if t.under().K == KFunc && !g.opts.on("func-var-reassign") {
			assign = false // finding escaping-func-variable-aliased
		}
		ps = append(ps, place{e: e, t: t, assign: assign, addr: addr, nilv: nilVar})
		if d <= 0 {
			return
		}
		u := t.under()
		switch u.K {
		case KStruct:
			for _, f := range u.Fields {
				name := f.Name
				if f.Embedded {
					name = f.T.Name
					// promoted fields of the embedded struct
					if g.chance(50) {
						for _, ff := range f.T.under().Fields {
							if !ff.Embedded {
								rec(tx(e, ".", ff.Name), ff.T, assign, addr, 0)
							}
						}
					}
				}
				rec(tx(e, ".", name), f.T, assign, addr, d-1)
			}
		case KArray:
			i := g.rnd(u.N)
			rec(tx(e, "[", i, "]"), u.Elem, assign, addr, d-1)
		case KPtr:
			// pointer variables are never nil (invariant of the generator); only variables are followed
			if d == 2 && !nilVar {
				el := u.Elem.under()
				switch el.K {
				case KStruct:
					for _, f := range el.Fields {
						if !f.Embedded {
							rec(tx(e, ".", f.Name), f.T, true, true, 0)
						}
					}
				case KArray:
					i := g.rnd(el.N)
					if g.chance(50) {
						rec(tx(e, "[", i, "]"), el.Elem, true, true, 0)
					} else {
						rec(tx("(*", e, ")[", i, "]"), el.Elem, true, true, 0)
					}
				}
				rec(tx("(*", e, ")"), u.Elem, true, true, 0)
			}
		}
	}
	for si, sc := range g.scopes {
		for _, v := range sc {
			nilVar = v.Nil
			n := len(ps)
			rec(tx(v.Name), v.T, !v.RO, !v.RO, 2)
			if si < g.fnBase && !g.opts.on("global-nested-write") {
				// finding global-composite-nested-write: an element or a field below the first level of
				// a package-level variable, or of a variable of an enclosing function, is read only
				// (no assignment, no address)
				for i := n + 1; i < len(ps); i++ {
					if k := v.T.under().K; k == KStruct || k == KArray {
						if s := ps[i].e.String(); strings.Count(s, ".")+strings.Count(s, "[") > strings.Count(v.Name, ".")+1 || strings.Contains(s, "[") {
							ps[i].assign = false
						}
						ps[i].addr = false
						ps[i].outer = true
					}
				}
			}
		}
	}
	return ps
}

func (g *gen) placeOf(t *Type, needAssign, needAddr bool) *E {
	var sel []place
	for _, p := range g.places() {
		if same(p.t, t) && (!needAssign || p.assign) && (!needAddr || p.addr) {
			sel = append(sel, p)
		}
	}
	if len(sel) == 0 {
		return nil
	}
	// prefer recent ones
	i := len(sel) - 1 - g.rnd(minInt(len(sel), 12))
	return sel[i].e
}

func (g *gen) placeWhere(pred func(p place) bool) *place {
	var sel []place
	for _, p := range g.places() {
		if pred(p) {
			sel = append(sel, p)
		}
	}
	if len(sel) == 0 {
		return nil
	}
	return &sel[len(sel)-1-g.rnd(minInt(len(sel), 12))]
}

func minInt(a, b int) int {
	if a < b {
		return a
	}
	return b
}

// ---- expressions --------------------------------------------------------------

// hole makes e replaceable by a literal of t.
func (g *gen) hole(t *Type, e *E) *E {
	if e.Lit == "" {
		e.Lit = g.simpleLit(t)
	}
	return e
}

func (g *gen) constE(t *Type) *E {
	e := tx(g.lit(t, false))
	e.C = true
	return e
}

func invariantKind(t *Type) bool {
	switch t.under().K {
	case KPtr, KMap, KFunc, KChan:
		return true
	}
	return false
}

func (g *gen) read(t *Type) *E {
	if invariantKind(t) {
		// only plain variables are known to be non-nil
		var sel []*Var
		for _, v := range g.vars() {
			if same(v.T, t) && !v.Nil {
				sel = append(sel, v)
			}
		}
		if len(sel) == 0 {
			return nil
		}
		return tx(sel[len(sel)-1-g.rnd(minInt(len(sel), 8))].Name)
	}
	if p := g.placeOf(t, false, false); p != nil {
		return g.hole(t, tx(p))
	}
	return nil
}

// expr returns a side-effect-free, panic-free expression of type t.
func (g *gen) expr(t *Type, d int) *E {
	u := t.under()
	if d <= 0 || g.chance(25) {
		return g.atom(t, d)
	}
	var e *E
	switch u.K {
	case KInt:
		e = g.intExpr(t, d)
	case KFloat:
		e = g.floatExpr(t, d)
	case KString:
		e = g.stringExpr(t, d)
	case KBool:
		e = g.boolExpr(t, d)
	default:
		return g.atom(t, d)
	}
	if e.C {
		return e
	}
	return g.hole(t, e)
}

func (g *gen) atom(t *Type, d int) *E {
	if g.chance(60) {
		if e := g.read(t); e != nil {
			return e
		}
	}
	if len(g.consts) > 0 && g.chance(15) {
		var sel []*Var
		for _, c := range g.consts {
			if same(c.T, t) {
				sel = append(sel, c)
			}
		}
		if len(sel) > 0 {
			e := tx(sel[g.rnd(len(sel))].Name)
			e.C = true
			return e
		}
	}
	return g.value(t, d)
}

// nonConst returns an expression of t that is not a constant.
func (g *gen) nonConst(t *Type, d int) *E {
	for i := 0; i < 4; i++ {
		if e := g.expr(t, d); !e.C {
			return e
		}
	}
	if e := g.read(t); e != nil {
		return e
	}
	// a conversion of a variable of another type, or a call that hides the constant
	return g.hole(t, tx(g.idFn(t), "(", g.lit(t, false), ")"))
}

// idFn: an identity function of the type, declared on demand (keeps a value out of constant folding).
func (g *gen) idFn(t *Type) string {
	key := "id:" + t.key()
	if n, ok := g.showFns[key]; ok {
		return n
	}
	n := g.name("id")
	g.showFns[key] = n
	g.helpers = append(g.helpers, &Node{Pre: tx("func ", n, "(x ", g.ts(t), ") ", g.ts(t), " { return x }"), Decl: []string{n}})
	return n
}

func (g *gen) intExpr(t *Type, d int) *E {
	switch g.rnd(16) {
	case 0, 1, 2, 3, 4:
		op := []string{"+", "-", "*", "&", "|", "^", "&^"}[g.rnd(7)]
		a, b := g.expr(t, d-1), g.expr(t, d-1)
		if a.C && b.C {
			return a
		}
		return tx("(", a, " ", op, " ", b, ")")
	case 5, 6:
		op := []string{"/", "%"}[g.rnd(2)]
		a, b := g.nonConst(t, d-1), g.expr(t, d-1)
		return tx("(", a, " ", op, " (", b, " | 1))")
	case 7, 8:
		op := []string{"<<", ">>"}[g.rnd(2)]
		a := g.nonConst(t, d-1)
		var cnt *E
		switch g.rnd(3) {
		case 0:
			cnt = tx(g.rnd(t.bits() + 3))
		case 1:
			ct := []*Type{tUint, tUint8, tUint16, tUint32}[g.rnd(4)]
			cnt = tx("(", g.expr(ct, d-1), " % ", t.bits()+2, ")")
		default:
			ct := []*Type{tInt, tInt8, tInt32}[g.rnd(3)]
			cnt = tx("(", g.expr(ct, d-1), " & 15)")
		}
		return tx("(", a, " ", op, " ", cnt, ")")
	case 9:
		a := g.nonConst(t, d-1)
		return tx([]string{"-", "^"}[g.rnd(2)], "(", a, ")")
	case 10, 11:
		from := intTypes[g.rnd(len(intTypes))]
		if same(from, t) {
			from = tInt16
		}
		return tx(g.ts(t), "(", g.nonConst(from, d-1), ")")
	case 12:
		if g.opts.on("float") {
			g.needF2I = true
			ft := tFloat64
			return tx(g.ts(t), "(f2i(", g.expr(ft, d-1), "))")
		}
	case 13:
		if p := g.placeWhere(func(p place) bool {
			k := p.t.under().K
			return k == KString || k == KSlice || k == KMap || k == KArray || k == KChan
		}); p != nil {
			fn := "len"
			// cap of a channel only: the capacity of a slice after an append that grows it is not
			// specified by the language (gc rounds to its size classes; `t := s[0:1:1]; t = append(t, 3)`
			// has cap 4 under gc for []int16, 2 under Scriggo): comparing it is a false alarm, met once
			// in a thorough run (rich-differs:goroutine-chan-closure)
			if k := p.t.under().K; k == KChan && g.chance(25) && g.opts.on("cap") {
				fn = "cap"
			}
			return tx(g.ts(t), "(", fn, "(", p.e, "))")
		}
	case 14:
		if e := g.pureCall(t, d); e != nil {
			return e
		}
	case 15:
		s := []string{"héllo, wörld", "abc", "0123456789"}[g.rnd(3)]
		return tx(g.ts(t), "(", fmt.Sprintf("%q", s), "[uint(", g.nonConst(tInt, d-1), ") % ", len(s), "])")
	}
	return g.atom(t, d)
}

func (g *gen) floatExpr(t *Type, d int) *E {
	switch g.rnd(8) {
	case 0, 1, 2:
		op := []string{"+", "-", "*"}[g.rnd(3)]
		a, b := g.expr(t, d-1), g.expr(t, d-1)
		if a.C && b.C {
			return a
		}
		return tx("(", a, " ", op, " ", b, ")")
	case 3:
		a, b := g.nonConst(t, d-1), g.expr(t, d-1)
		return tx("(", a, " / ", b, ")")
	case 4, 5:
		from := intTypes[g.rnd(len(intTypes))]
		return tx(g.ts(t), "(", g.nonConst(from, d-1), ")")
	case 6:
		from := tFloat32
		if same(t.under(), tFloat32) {
			from = tFloat64
		}
		return tx(g.ts(t), "(", g.nonConst(from, d-1), ")")
	case 7:
		if e := g.pureCall(t, d); e != nil {
			return e
		}
	}
	return g.atom(t, d)
}

func (g *gen) stringExpr(t *Type, d int) *E {
	conv := func(e *E) *E {
		if t == tString {
			return e
		}
		return tx(g.ts(t), "(", e, ")")
	}
	switch g.rnd(12) {
	case 0, 1, 2:
		a := g.expr(t, d-1)
		b := g.constE(t)
		if a.C {
			return a
		}
		if g.chance(50) {
			return tx("(", a, " + ", b, ")")
		}
		return tx("(", b, " + ", a, ")")
	case 3:
		return conv(tx("strconv.Itoa(", g.expr(tInt, d-1), ")"))
	case 4:
		return conv(tx("string(rune(", g.nonConst(tInt32, d-1), "))"))
	case 5:
		return conv(tx("strings.ToUpper(", g.expr(tString, d-1), ")"))
	case 6:
		return conv(tx("fmt.Sprint(", g.expr(g.basicType(), d-1), ")"))
	case 7:
		return conv(tx("fmt.Sprintf(\"%d|%v|%s\", ", g.expr(intTypes[g.rnd(len(intTypes))], d-1), ", ", g.expr(g.basicType(), d-1), ", ", g.expr(tString, d-1), ")"))
	case 8:
		if a := g.read(t); a != nil {
			if g.chance(50) {
				return tx(a, "[:len(", a, ")/2]")
			}
			return tx(a, "[len(", a, ")/2:]")
		}
	case 9:
		if p := g.placeWhere(func(p place) bool {
			u := p.t.under()
			return u.K == KSlice && (same(u.Elem, tUint8) || same(u.Elem, tInt32)) && p.t.K != KNamed
		}); p != nil {
			return conv(tx("string(", p.e, ")"))
		}
	case 10:
		if e := g.pureCall(t, d); e != nil {
			return e
		}
	case 11:
		return conv(tx("strings.Repeat(", g.constE(tString), ", ", g.rnd(4), ")"))
	}
	return g.atom(t, d)
}

func (g *gen) boolExpr(t *Type, d int) *E {
	switch g.rnd(10) {
	case 0, 1, 2, 3:
		ct := g.basicType()
		if g.chance(30) {
			if p := g.placeWhere(func(p place) bool { return p.t.comparable() && !p.t.isBool() }); p != nil {
				ct = p.t
			}
		}
		ops := []string{"==", "!="}
		if ct.ordered() {
			ops = []string{"==", "!=", "<", "<=", ">", ">="}
		}
		a, b := g.nonConst(ct, d-1), g.expr(ct, d-1)
		e := tx("(", a, " ", ops[g.rnd(len(ops))], " ", b, ")")
		if t != tBool {
			e = tx(g.ts(t), e)
		}
		return e
	case 4:
		return tx("!(", g.nonConst(t, d-1), ")")
	case 5, 6:
		a, b := g.nonConst(t, d-1), g.expr(t, d-1)
		return tx("(", a, " ", []string{"&&", "||"}[g.rnd(2)], " ", b, ")")
	case 7:
		if p := g.placeWhere(func(p place) bool { return p.t.nilable() }); p != nil {
			e := tx("(", p.e, " ", []string{"==", "!="}[g.rnd(2)], " nil)")
			if t != tBool {
				e = tx(g.ts(t), e)
			}
			return e
		}
	case 8:
		if e := g.pureCall(t, d); e != nil {
			return e
		}
	case 9:
		e := tx("strings.Contains(", g.expr(tString, d-1), ", ", g.constE(tString), ")")
		if t != tBool {
			e = tx(g.ts(t), "(", e, ")")
		}
		return e
	}
	return g.atom(t, d)
}

// pureCall: a call of a pure function with result exactly t.
func (g *gen) pureCall(t *Type, d int) *E {
	var sel []*Fn
	for _, f := range g.fns {
		if f.Pure && len(f.T.Results) == 1 && same(f.T.Results[0], t) && f.Cost*g.mult+g.cost < costLimit {
			sel = append(sel, f)
		}
	}
	if len(sel) == 0 {
		return nil
	}
	f := sel[g.rnd(len(sel))]
	g.cost += f.Cost * g.mult
	return tx(f.Name, "(", g.args(f.T, d-1), ")")
}

func (g *gen) args(ft *Type, d int) *E {
	e := tx()
	for i, p := range ft.Params {
		if i > 0 {
			e.P = append(e.P, ", ")
		}
		if ft.Variadic && i == len(ft.Params)-1 {
			switch g.rnd(3) {
			case 0: // no variadic argument
				if i > 0 {
					e.P = e.P[:len(e.P)-1]
				}
			case 1:
				e.P = append(e.P, g.expr(p, d), "...")
			default:
				n := 1 + g.rnd(3)
				for k := 0; k < n; k++ {
					if k > 0 {
						e.P = append(e.P, ", ")
					}
					e.P = append(e.P, g.expr(p.Elem, d))
				}
			}
			continue
		}
		e.P = append(e.P, g.expr(p, d))
	}
	return e
}

// value constructs a value of t.
func (g *gen) value(t *Type, d int) *E {
	u := t.under()
	switch u.K {
	case KBool, KInt, KFloat, KString:
		return g.constE(t)
	case KArray:
		e := tx(g.ts(t), "{")
		if g.chance(20) {
			// keyed elements: the others are zero
			e.P = append(e.P, u.N-1, ": ", g.expr(u.Elem, d-1))
		} else {
			for i := 0; i < u.N; i++ {
				if i > 0 {
					e.P = append(e.P, ", ")
				}
				e.P = append(e.P, g.elemLit(u.Elem, d-1))
			}
		}
		e.P = append(e.P, "}")
		return g.hole(t, e)
	case KSlice:
		switch g.rnd(6) {
		case 0:
			return g.hole(t, tx("make(", g.ts(t), ", ", g.rnd(4), ", ", 4+g.rnd(3), ")"))
		case 1:
			if t.K != KNamed {
				return tx("(", g.ts(t), ")(nil)")
			}
		case 2:
			if a := g.read(t); a != nil {
				if g.chance(50) {
					return tx(a, "[:len(", a, ")/2]")
				}
				return tx(a, "[len(", a, ")/2:]")
			}
		}
		e := tx(g.ts(t), "{")
		for i, n := 0, g.rnd(5); i < n; i++ {
			if i > 0 {
				e.P = append(e.P, ", ")
			}
			e.P = append(e.P, g.elemLit(u.Elem, d-1))
		}
		e.P = append(e.P, "}")
		return g.hole(t, e)
	case KMap:
		if g.chance(20) {
			return tx("make(", g.ts(t), ")")
		}
		e := tx(g.ts(t), "{")
		seen := map[string]bool{}
		for i, n := 0, g.rnd(4); i < n; i++ {
			k := g.keyLit(u.Key, i)
			if k == "" || seen[k] {
				continue
			}
			seen[k] = true
			if len(seen) > 1 {
				e.P = append(e.P, ", ")
			}
			e.P = append(e.P, k, ": ", g.elemLit(u.Elem, d-1))
		}
		e.P = append(e.P, "}")
		return e
	case KStruct:
		e := tx(g.ts(t), "{")
		first := true
		for _, f := range u.Fields {
			if g.chance(20) {
				continue // zero value
			}
			if !first {
				e.P = append(e.P, ", ")
			}
			first = false
			name := f.Name
			if f.Embedded {
				name = f.T.Name
			}
			e.P = append(e.P, name, ": ", g.expr(f.T, d-1))
		}
		e.P = append(e.P, "}")
		return g.hole(t, e)
	case KPtr:
		if g.chance(40) {
			if e := g.read(t); e != nil {
				return e
			}
		}
		if g.chance(50) {
			if p := g.placeOf(u.Elem, false, true); p != nil {
				return tx("&", p)
			}
		}
		switch u.Elem.under().K {
		case KStruct, KArray:
			if g.chance(70) {
				v := g.value(u.Elem, d-1)
				v.Lit = ""
				return tx("&", v)
			}
		}
		return tx("new(", g.ts(u.Elem), ")")
	case KFunc:
		return g.funcLit(t)
	case KChan:
		return tx("make(", g.ts(t), ", ", 1+g.rnd(3), ")")
	case KAny:
		vt := g.anyType()
		g.noteAny(vt)
		if g.chance(10) {
			return tx("(", g.ts(t), ")(nil)")
		}
		return tx(g.ts(t), "(", g.expr(vt, d-1), ")")
	case KError:
		switch g.rnd(4) {
		case 0:
			return tx("(", g.ts(t), ")(nil)")
		case 1:
			return tx("fmt.Errorf(\"e%d\", ", g.expr(tInt, d-1), ")")
		}
		return tx("errors.New(", strLits[1+g.rnd(len(strLits)-1)], ")")
	case KStringer:
		g.useTime = true
		return tx(g.ts(t), "(time.Duration(", g.expr(tInt16, d-1), ") * time.Millisecond)")
	}
	panic("value: " + g.ts(t))
}

// elemLit: an element of a composite literal (an expression, or an elided literal for composites).
func (g *gen) elemLit(t *Type, d int) *E {
	return g.expr(t, d)
}

// keyLit: the i-th distinct constant key of a map literal.
func (g *gen) keyLit(t *Type, i int) string {
	u := t.under()
	switch u.K {
	case KInt:
		return g.wrapLit(t, fmt.Sprint(i*3+g.rnd(3)))
	case KString:
		return g.wrapLit(t, fmt.Sprintf("%q", string(rune('a'+i))+[]string{"", "k", "é"}[g.rnd(3)]))
	case KBool:
		if i > 1 {
			return ""
		}
		return g.wrapLit(t, []string{"false", "true"}[i])
	case KArray:
		s := g.ts(t) + "{"
		for k := 0; k < u.N; k++ {
			if k > 0 {
				s += ", "
			}
			e := g.keyLit(u.Elem, i)
			if e == "" {
				return ""
			}
			s += e
		}
		return s + "}"
	case KStruct:
		s := g.ts(t) + "{"
		for k, f := range u.Fields {
			if k > 0 {
				s += ", "
			}
			e := g.keyLit(f.T, i)
			if e == "" {
				return ""
			}
			name := f.Name
			if f.Embedded {
				name = f.T.Name
			}
			s += name + ": " + e
		}
		return s + "}"
	}
	return ""
}

// anyType: a type whose values are stored in interfaces.
func (g *gen) anyType() *Type {
	switch g.rnd(9) {
	case 0, 1:
		return tInt
	case 2:
		return tString
	case 3:
		return tBool
	case 4:
		return tFloat64
	case 5:
		return &Type{K: KSlice, Elem: tInt}
	case 6:
		if len(g.named) > 0 {
			t := g.named[g.rnd(len(g.named))]
			if !t.isIface() && t.under().K != KFunc {
				return t
			}
		}
	case 7:
		return intTypes[g.rnd(len(intTypes))]
	case 8:
		if len(g.named) > 0 {
			t := g.named[g.rnd(len(g.named))]
			if t.under().K == KStruct {
				return &Type{K: KPtr, Elem: t}
			}
		}
	}
	return tInt
}

func (g *gen) noteAny(t *Type) {
	for _, a := range g.anyTypes {
		if same(a, t) {
			return
		}
	}
	g.anyTypes = append(g.anyTypes, t)
}
