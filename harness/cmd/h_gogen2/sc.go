package main

// The Scriggo side: scriggo.Build + Run of the program's files with the native
// packages the generator uses.  Programs are executed in a worker process
// (this binary, command `rich-worker`) so that a crash of the interpreter
// (a panic in a goroutine, a fatal error of the Go runtime) is an outcome of
// one program and not the end of the sweep.

import (
	"bufio"
	"context"
	"encoding/json"
	"errors"
	"fmt"
	"io"
	"os"
	"os/exec"
	"reflect"
	"sort"
	"strconv"
	"strings"
	"sync"
	"time"
	"unicode/utf8"

	"github.com/open2b/scriggo"
	"github.com/open2b/scriggo/native"

	. "verif/harness/hlib"
)

// outBuf collects what the program prints through fmt.
type outBuf struct {
	mu sync.Mutex
	b  strings.Builder
}

func (o *outBuf) Write(p []byte) (int, error) {
	o.mu.Lock()
	defer o.mu.Unlock()
	if o.b.Len() < 1<<20 {
		o.b.Write(p)
	}
	return len(p), nil
}

func (o *outBuf) String() string {
	o.mu.Lock()
	defer o.mu.Unlock()
	return o.b.String()
}

func nativePackages(out io.Writer) native.Packages {
	return native.Packages{
		"fmt": native.Package{Name: "fmt", Declarations: native.Declarations{
			"Println":  func(a ...any) (int, error) { return fmt.Fprintln(out, a...) },
			"Printf":   func(f string, a ...any) (int, error) { return fmt.Fprintf(out, f, a...) },
			"Print":    func(a ...any) (int, error) { return fmt.Fprint(out, a...) },
			"Sprint":   fmt.Sprint,
			"Sprintf":  fmt.Sprintf,
			"Sprintln": fmt.Sprintln,
			"Errorf":   fmt.Errorf,
			"Stringer": reflect.TypeFor[fmt.Stringer](),
		}},
		"strings": native.Package{Name: "strings", Declarations: native.Declarations{
			"Builder":    reflect.TypeFor[strings.Builder](),
			"ToUpper":    strings.ToUpper,
			"ToLower":    strings.ToLower,
			"Repeat":     strings.Repeat,
			"Join":       strings.Join,
			"Split":      strings.Split,
			"Contains":   strings.Contains,
			"HasPrefix":  strings.HasPrefix,
			"Index":      strings.Index,
			"Fields":     strings.Fields,
			"TrimSpace":  strings.TrimSpace,
			"Map":        strings.Map,
			"IndexFunc":  strings.IndexFunc,
			"ReplaceAll": strings.ReplaceAll,
		}},
		"sort": native.Package{Name: "sort", Declarations: native.Declarations{
			"Ints":        sort.Ints,
			"Strings":     sort.Strings,
			"Float64s":    sort.Float64s,
			"Slice":       sort.Slice,
			"SliceStable": sort.SliceStable,
			"SearchInts":  sort.SearchInts,
		}},
		"errors": native.Package{Name: "errors", Declarations: native.Declarations{
			"New":    errors.New,
			"Is":     errors.Is,
			"Unwrap": errors.Unwrap,
		}},
		"strconv": native.Package{Name: "strconv", Declarations: native.Declarations{
			"Itoa":      strconv.Itoa,
			"Atoi":      strconv.Atoi,
			"Quote":     strconv.Quote,
			"FormatInt": strconv.FormatInt,
			"ParseBool": strconv.ParseBool,
		}},
		"time": native.Package{Name: "time", Declarations: native.Declarations{
			"Duration":    reflect.TypeFor[time.Duration](),
			"Millisecond": time.Millisecond,
			"Second":      time.Second,
			"Minute":      time.Minute,
		}},
		"unicode/utf8": native.Package{Name: "utf8", Declarations: native.Declarations{
			"RuneCountInString": utf8.RuneCountInString,
			"ValidString":       utf8.ValidString,
			"RuneLen":           utf8.RuneLen,
		}},
		"sync": native.Package{Name: "sync", Declarations: native.Declarations{
			"WaitGroup": reflect.TypeFor[sync.WaitGroup](),
			"Mutex":     reflect.TypeFor[sync.Mutex](),
		}},
	}
}

// outcome of one execution.
type outcome struct {
	Out string `json:"out"`
	End string `json:"end"` // ok | panic:<value> | exit:<code> | build-error:<msg> | host-panic:<msg> | timeout | crash:<stderr> | invalid:<why> (gc only)
}

func (o outcome) String() string { return o.Out + "\n@@" + o.End }

// canonPanic is the canonical text of a panic value (the same function is
// compiled into the gc batch).
func canonPanic(v any) string {
	if e, ok := v.(error); ok {
		return "error:" + e.Error()
	}
	return fmt.Sprintf("%v", v)
}

func runScriggo(files map[string]string, timeout time.Duration) (res outcome) {
	out := &outBuf{}
	fsys := scriggo.Files{}
	for n, s := range files {
		fsys[n] = []byte(s)
	}
	var prog *scriggo.Program
	var err error
	if msg := PanicText(func() {
		prog, err = scriggo.Build(fsys, &scriggo.BuildOptions{Packages: nativePackages(out), AllowGoStmt: true})
	}); msg != "" {
		return outcome{End: "host-panic:build:" + msg}
	}
	if err != nil {
		return outcome{End: "build-error:" + err.Error()}
	}
	ctx, cancel := context.WithTimeout(context.Background(), timeout)
	defer cancel()
	done := make(chan outcome, 1)
	go func() {
		var runErr error
		msg := PanicText(func() { runErr = prog.Run(&scriggo.RunOptions{Context: ctx}) })
		o := outcome{Out: out.String(), End: "ok"}
		var pe *scriggo.PanicError
		var ee *scriggo.ExitError
		switch {
		case msg != "":
			o.End = "host-panic:" + msg
		case runErr == nil:
		case errors.Is(runErr, context.DeadlineExceeded):
			o.End = "timeout"
		case errors.As(runErr, &pe):
			o.End = "panic:" + canonPanic(pe.Message())
		case errors.As(runErr, &ee):
			o.End = "exit:" + strconv.Itoa(ee.Code)
		default:
			o.End = "run-error:" + runErr.Error()
		}
		done <- o
	}()
	select {
	case o := <-done:
		return o
	case <-time.After(timeout + 2*time.Second):
		// the interpreter does not react to the cancellation (blocked in native code or on a channel)
		return outcome{Out: out.String(), End: "timeout"}
	}
}

// ---- worker protocol: one JSON object per line in, one per line out

type workReq struct {
	ID    int               `json:"id"`
	Files map[string]string `json:"files"`
}

type workRes struct {
	ID  int    `json:"id"`
	Out []byte `json:"out"` // bytes, not text: a program may print invalid UTF-8
	End []byte `json:"end"`
}

func workerMain() {
	in := bufio.NewReaderSize(os.Stdin, 1<<20)
	w := bufio.NewWriter(os.Stdout)
	for {
		line, err := in.ReadBytes('\n')
		if len(line) > 0 {
			var rq workReq
			if json.Unmarshal(line, &rq) == nil {
				r := runScriggo(rq.Files, 5*time.Second)
				b, _ := json.Marshal(workRes{rq.ID, []byte(r.Out), []byte(r.End)})
				w.Write(b)
				w.WriteByte('\n')
				w.Flush()
			}
		}
		if err != nil {
			return
		}
	}
}

type worker struct {
	cmd *exec.Cmd
	in  io.WriteCloser
	out *bufio.Reader
	err *strings.Builder
}

func startWorker() (*worker, error) {
	exe, err := os.Executable()
	if err != nil {
		return nil, err
	}
	c := exec.Command(exe, "rich-worker")
	in, _ := c.StdinPipe()
	op, _ := c.StdoutPipe()
	eb := &strings.Builder{}
	c.Stderr = &capWriter{b: eb}
	if err := c.Start(); err != nil {
		return nil, err
	}
	return &worker{cmd: c, in: in, out: bufio.NewReaderSize(op, 1<<20), err: eb}, nil
}

type capWriter struct {
	mu sync.Mutex
	b  *strings.Builder
}

func (c *capWriter) Write(p []byte) (int, error) {
	c.mu.Lock()
	defer c.mu.Unlock()
	if c.b.Len() < 1<<16 {
		c.b.Write(p)
	}
	return len(p), nil
}

func (w *worker) stop() {
	w.in.Close()
	done := make(chan struct{})
	go func() { w.cmd.Wait(); close(done) }()
	select {
	case <-done:
	case <-time.After(3 * time.Second):
		w.cmd.Process.Kill()
		<-done
	}
}

// runAllScriggo executes every program in worker processes (par of them).
func runAllScriggo(progs []map[string]string, par int) []outcome {
	res := make([]outcome, len(progs))
	var wg sync.WaitGroup
	next := make(chan int, len(progs))
	for i := range progs {
		next <- i
	}
	close(next)
	for k := 0; k < par; k++ {
		wg.Add(1)
		go func() {
			defer wg.Done()
			var w *worker
			defer func() {
				if w != nil {
					w.stop()
				}
			}()
			for i := range next {
				if w == nil {
					var err error
					if w, err = startWorker(); err != nil {
						res[i] = outcome{End: "crash:cannot start worker: " + err.Error()}
						continue
					}
				}
				b, _ := json.Marshal(workReq{i, progs[i]})
				w.in.Write(append(b, '\n'))
				line, err := w.out.ReadBytes('\n')
				var wr workRes
				if err != nil || json.Unmarshal(line, &wr) != nil {
					w.cmd.Process.Kill()
					w.cmd.Wait()
					msg := w.err.String()
					if len(msg) > 600 {
						msg = msg[:600]
					}
					res[i] = outcome{End: "crash:" + firstLines(msg, 6)}
					w = nil
					continue
				}
				res[i] = outcome{Out: string(wr.Out), End: string(wr.End)}
				if res[i].End == "timeout" {
					// goroutines of the program may still run: a fresh worker for the next one
					w.cmd.Process.Kill()
					w.cmd.Wait()
					w = nil
				}
			}
		}()
	}
	wg.Wait()
	return res
}

func firstLines(s string, n int) string {
	ls := strings.Split(s, "\n")
	if len(ls) > n {
		ls = ls[:n]
	}
	return strings.Join(ls, " | ")
}
