package main

import (
	"fmt"
	"strings"
)

// ---- node constructors --------------------------------------------------------

func leaf(feat string, parts ...any) *Node {
	n := &Node{Pre: tx(parts...)}
	if feat != "" {
		n.Feat = strings.Split(feat, ",")
	}
	return n
}

func fixed(parts ...any) *Node {
	n := leaf("", parts...)
	n.Fixed = true
	return n
}

func blockN(feat string, pre *E, kids []*Node, post string) *Node {
	n := &Node{Pre: pre, Kids: kids, Post: post}
	if feat != "" {
		n.Feat = strings.Split(feat, ",")
	}
	return n
}

// ---- printing -------------------------------------------------------------------

// show returns an expression fmt may print: e itself or a call of the helper of the type.
func (g *gen) show(e any, t *Type) *E {
	if t.fmtSafe() {
		return tx(e)
	}
	return tx(g.showFn(t), "(", e, ")")
}

func (g *gen) showFn(t *Type) string {
	key := "show:" + t.key()
	if n, ok := g.showFns[key]; ok {
		return n
	}
	n := g.name("show")
	g.showFns[key] = n
	u := t.under()
	ts := g.ts(t)
	var body string
	sub := func(e string, et *Type) string {
		s := g.show(e, et).String()
		if et.isString() && et.K != KNamed {
			return s
		}
		return "fmt.Sprint(" + s + ")"
	}
	switch u.K {
	case KStruct:
		body = "\ts := \"{\"\n"
		for _, f := range u.Fields {
			name := f.Name
			if f.Embedded {
				name = f.T.Name
			}
			body += "\ts += " + sub("v."+name, f.T) + " + \" \"\n"
		}
		body += "\treturn s + \"}\"\n"
	case KPtr:
		body = "\tif v == nil {\n\t\treturn \"nil\"\n\t}\n\treturn \"&\" + " + sub("*v", u.Elem) + "\n"
	case KArray:
		body = "\ts := \"[\"\n\tfor _, e := range v {\n\t\ts += " + sub("e", u.Elem) + " + \" \"\n\t}\n\treturn s + \"]\"\n"
	case KSlice:
		body = "\tif v == nil {\n\t\treturn \"nil[]\"\n\t}\n\ts := \"[\"\n\tfor _, e := range v {\n\t\ts += " + sub("e", u.Elem) + " + \" \"\n\t}\n\treturn s + \"]\"\n"
	case KMap:
		body = "\tvar es []string\n\tfor k, e := range v {\n\t\tes = append(es, " + sub("k", u.Key) + "+\":\"+" + sub("e", u.Elem) + ")\n\t}\n\tsort.Strings(es)\n\treturn fmt.Sprint(len(v), es)\n"
	case KFunc:
		body = "\tif v == nil {\n\t\treturn \"func:nil\"\n\t}\n\treturn \"func\"\n"
	case KChan:
		body = "\tif v == nil {\n\t\treturn \"chan:nil\"\n\t}\n\treturn fmt.Sprint(\"chan \", len(v), cap(v))\n"
	case KAny:
		// written when the package is finished: the dynamic types are known then
		g.anyShow = n
		return n
	default:
		body = "\treturn fmt.Sprint(v)\n"
	}
	g.helpers = append(g.helpers, &Node{Pre: tx("func ", n, "(v ", ts, ") string {\n", body, "}"), Decl: []string{n}})
	return n
}

// anyShowNode writes the helper that prints a value of type any.
func (g *gen) anyShowNode() *Node {
	n := g.anyShow
	var b strings.Builder
	b.WriteString("func " + n + "(v any) string {\n\tswitch x := v.(type) {\n\tcase nil:\n\t\treturn \"<nil>\"\n")
	seen := map[string]bool{}
	for i := 0; i < len(g.anyTypes); i++ { // the list may grow while helpers are made
		t := g.anyTypes[i]
		if t.K == KNamed && !g.canSee(t.Pkg) || t.K == KPtr && t.Elem.K == KNamed && !g.canSee(t.Elem.Pkg) {
			continue
		}
		ts := g.ts(t)
		if seen[ts] {
			continue
		}
		seen[ts] = true
		s := g.show("x", t).String()
		b.WriteString("\tcase " + ts + ":\n\t\treturn \"" + strings.ReplaceAll(ts, "\"", "") + "(\" + fmt.Sprint(" + s + ") + \")\"\n")
	}
	b.WriteString("\tcase error:\n\t\treturn \"error(\" + x.Error() + \")\"\n")
	b.WriteString("\t}\n\treturn \"?\"\n}")
	return &Node{Pre: tx(b.String()), Decl: []string{n}}
}

func (g *gen) printNode(tag string, items ...*E) *Node {
	e := tx("fmt.Println(", fmt.Sprintf("%q", tag))
	for _, it := range items {
		e.P = append(e.P, ", ", it)
	}
	e.P = append(e.P, ")")
	g.spend(1)
	return &Node{Pre: e}
}

// sPrint prints one to three places.
func (g *gen) sPrint() *Node {
	ps := g.places()
	if len(ps) == 0 {
		return nil
	}
	var items []*E
	for i, n := 0, 1+g.rnd(3); i < n; i++ {
		p := ps[len(ps)-1-g.rnd(minInt(len(ps), 20))]
		items = append(items, g.show(p.e, p.t))
	}
	return g.printNode(g.name("p"), items...)
}

// dump prints every variable of the innermost scopes (from scope index from).
func (g *gen) dump(tag string, from int) *Node {
	var items []*E
	for i := from; i < len(g.scopes); i++ {
		for _, v := range g.scopes[i] {
			items = append(items, g.show(v.Name, v.T))
		}
	}
	if len(items) > 12 {
		items = items[len(items)-12:]
	}
	n := g.printNode(tag, items...)
	return n
}

// ---- simple statements -----------------------------------------------------------

func (g *gen) declNode(name string, t *Type, init *E, form int) *Node {
	var pre *E
	switch form {
	case 0:
		pre = tx(name, " := ", init)
	case 1:
		pre = tx("var ", name, " ", g.ts(t), " = ", init)
	default:
		pre = tx("var ", name, " = ", init)
	}
	pre.P = append(pre.P, "\n_ = "+name)
	g.spend(1)
	return &Node{Pre: pre, Decl: []string{name}}
}

func (g *gen) sDecl() *Node {
	t := g.randType(2)
	name := g.name("v")
	var n *Node
	if !invariantKind(t) && g.chance(12) {
		n = &Node{Pre: tx("var ", name, " ", g.ts(t), "\n_ = ", name), Decl: []string{name}}
	} else {
		n = g.declNode(name, t, g.initExpr(t), g.rnd(3))
	}
	n.Feat = typeFeats(t)
	g.declare(&Var{Name: name, T: t})
	return n
}

// initExpr: an expression of exactly type t usable with := (typed).
func (g *gen) initExpr(t *Type) *E {
	e := g.expr(t, 2)
	return e
}

func typeFeats(t *Type) []string {
	var fs []string
	switch u := t.under(); u.K {
	case KInt:
		fs = append(fs, "int")
	case KFloat:
		fs = append(fs, "float")
	case KString:
		fs = append(fs, "string")
	case KArray:
		fs = append(fs, "array")
	case KSlice:
		fs = append(fs, "slice")
	case KMap:
		fs = append(fs, "map")
		if k := u.Key.under().K; k == KStruct {
			fs = append(fs, "struct-key")
		} else if k == KArray {
			fs = append(fs, "array-key")
		}
	case KStruct:
		fs = append(fs, "struct")
		if t.K != KNamed {
			fs = append(fs, "anon-struct")
		}
		for _, f := range u.Fields {
			if f.Embedded {
				fs = append(fs, "embedded")
			}
		}
	case KPtr:
		fs = append(fs, "ptr")
		if u.Elem.under().K == KPtr {
			fs = append(fs, "ptr-ptr")
		}
		if u.Elem.under().K == KArray {
			fs = append(fs, "ptr-array")
		}
	case KFunc:
		fs = append(fs, "funcvalue")
	case KAny:
		fs = append(fs, "iface")
	case KError:
		fs = append(fs, "iface", "error")
	case KStringer:
		fs = append(fs, "iface", "stringer")
	case KChan:
		fs = append(fs, "chan")
	}
	return fs
}

func (g *gen) sAssign() *Node {
	p := g.placeWhere(func(p place) bool { return p.assign })
	if p == nil {
		return nil
	}
	u := p.t.under()
	g.spend(1)
	feat := append([]string{}, typeFeats(p.t)...)
	s := p.e.String()
	switch {
	case strings.Contains(s, "(*") || strings.HasPrefix(s, "*"):
		feat = append(feat, "ptr")
	case strings.Contains(s, "["):
		feat = append(feat, "array")
	case strings.Contains(s, "."):
		feat = append(feat, "struct")
	}
	mk := func(f string, parts ...any) *Node {
		n := leaf("", parts...)
		n.Feat = feat
		if f != "" {
			n.Feat = append(feat, strings.Split(f, ",")...)
		}
		return n
	}
	switch {
	case u.K == KInt && g.chance(60):
		switch g.rnd(5) {
		case 0:
			return mk("incdec", p.e, []string{"++", "--"}[g.rnd(2)])
		case 1:
			return mk("opassign,div", p.e, " ", []string{"/=", "%="}[g.rnd(2)], " (", g.expr(p.t, 2), " | 1)")
		case 2:
			return mk("opassign,shift", p.e, " ", []string{"<<=", ">>="}[g.rnd(2)], " (", g.expr(tUint8, 1), " % ", p.t.bits()+2, ")")
		}
		return mk("opassign", p.e, " ", []string{"+=", "-=", "*=", "|=", "&=", "^=", "&^="}[g.rnd(7)], " ", g.expr(p.t, 2))
	case u.K == KFloat && g.chance(50):
		return mk("opassign,float", p.e, " ", []string{"+=", "-=", "*="}[g.rnd(3)], " ", g.expr(p.t, 2))
	case u.K == KString && g.chance(40):
		return mk("opassign,string", p.e, " += ", g.constE(p.t))
	}
	return mk("", p.e, " = ", g.expr(p.t, 2))
}

// sTuple: tuple assignments whose operands alias, swaps.
func (g *gen) sTuple() *Node {
	g.spend(1)
	switch g.rnd(7) {
	case 5, 6: // swap of two elements of a slice or an array of composite values
		et := g.randType(1)
		if k := et.under().K; g.chance(70) && k != KStruct && k != KArray {
			et = g.structType(0)
			if len(g.named) > 0 {
				for _, t := range g.named {
					if t.under().K == KStruct {
						et = t
					}
				}
			}
		}
		st := &Type{K: KSlice, Elem: et}
		kind := "slice"
		if g.chance(30) {
			st = &Type{K: KArray, N: 3, Elem: et}
			kind = "array"
		}
		s, i, j := g.name("s"), g.rnd(3), g.rnd(3)
		nd := leaf("tuple-assign,swap,"+kind+","+strings.Join(typeFeats(et), ","), s, " := ", g.ts(st), "{", g.expr(et, 2), ", ", g.expr(et, 2), ", ", g.expr(et, 2), "}\n",
			s, "[", i, "], ", s, "[", j, "] = ", s, "[", j, "], ", s, "[", i, "]\n", s, "[0], ", s, "[2] = ", s, "[2], ", s, "[0]\nfmt.Println(\"swap\", ", g.show(s, st), ")")
		nd.Decl = []string{s}
		g.declare(&Var{Name: s, T: st, Nil: true})
		return nd
	case 0, 1: // swap two places of the same type
		a := g.placeWhere(func(p place) bool { return p.assign && !invariantKind(p.t) && !p.outer })
		if a == nil {
			return nil
		}
		b := g.placeWhere(func(p place) bool {
			return p.assign && same(p.t, a.t) && p.e.String() != a.e.String() && !p.outer
		})
		if b == nil {
			return nil
		}
		return leaf("tuple-assign,swap", a.e, ", ", b.e, " = ", b.e, ", ", a.e)
	case 2: // i, a[i] = ...
		arr := g.placeWhere(func(p place) bool { return p.assign && p.t.under().K == KArray && p.t.under().Elem.isInt() })
		if arr == nil {
			return nil
		}
		i := g.name("i")
		n := arr.t.under().N
		et := arr.t.under().Elem
		nd := leaf("tuple-assign,array", i, " := ", g.rnd(n), "\n", i, ", ", arr.e, "[", i, "] = ", g.rnd(n), ", ", g.expr(et, 1), "\n",
			arr.e, "[", i, "], ", i, " = ", g.expr(et, 1), ", ", g.rnd(n), "\n_ = ", i)
		nd.Decl = []string{i}
		g.declare(&Var{Name: i, T: tInt, RO: true})
		return nd
	case 3: // p, *p = &y, v
		v := g.placeWhere(func(p place) bool { return p.addr && p.t.isInt() })
		w := g.placeWhere(func(p place) bool { return p.addr && p.t.isInt() })
		if v == nil || w == nil || !same(v.t, w.t) {
			return nil
		}
		p := g.name("p")
		nd := leaf("tuple-assign,ptr", p, " := &", v.e, "\n", p, ", *", p, " = &", w.e, ", ", g.expr(v.t, 1), "\n*", p, ", ", p, " = ", g.expr(v.t, 1), ", &", v.e, "\n_ = ", p)
		nd.Decl = []string{p}
		g.declare(&Var{Name: p, T: &Type{K: KPtr, Elem: v.t}})
		return nd
	default: // three-way rotation with expressions
		a := g.placeWhere(func(p place) bool { return p.assign && (p.t.isInt() || p.t.isString()) && !p.outer })
		if a == nil {
			return nil
		}
		b := g.placeWhere(func(p place) bool { return p.assign && same(p.t, a.t) && !p.outer })
		if b == nil {
			return nil
		}
		return leaf("tuple-assign", a.e, ", ", b.e, " = ", g.expr(a.t, 1), ", ", a.e)
	}
}

// ---- control flow --------------------------------------------------------------------

func (g *gen) block(n int) []*Node {
	g.push()
	g.depth++
	ns := g.stmts(n)
	g.depth--
	g.pop()
	return ns
}

func (g *gen) cond() *E { return g.nonConst(tBool, 2) }

func (g *gen) sIf() *Node {
	g.spend(1)
	g.push()
	defer g.pop()
	pre := tx("if ")
	var decl []string
	if g.chance(30) {
		t := g.basicType()
		name := g.name("v")
		pre.P = append(pre.P, name, " := ", g.expr(t, 2), "; ")
		g.declare(&Var{Name: name, T: t})
		pre.P = append(pre.P, g.cond(), " {\n_ = "+name)
		_ = decl
	} else {
		pre.P = append(pre.P, g.cond(), " {")
	}
	kids := g.block(1 + g.rnd(3))
	for g.chance(30) && g.depth < 4 {
		kids = append(kids, fixed("} else if ", g.cond(), " {"))
		kids = append(kids, g.block(1+g.rnd(2))...)
	}
	if g.chance(50) {
		kids = append(kids, fixed("} else {"))
		kids = append(kids, g.block(1+g.rnd(2))...)
	}
	return blockN("if", pre, kids, "}")
}

// loopBody generates the body of a loop that runs at most iters times.
func (g *gen) loopBody(iters int, label string, isLoop bool, n int) []*Node {
	oldMult := g.mult
	g.mult *= iters
	g.loopDepth++
	g.labels = append(g.labels, label)
	kids := g.block(n)
	g.labels = g.labels[:len(g.labels)-1]
	g.loopDepth--
	g.mult = oldMult
	return kids
}

func (g *gen) newLabel() string {
	if g.chance(35) {
		return g.name("L")
	}
	return ""
}

func (g *gen) sFor() *Node {
	if g.loopDepth >= 2 || g.mult > 64 {
		return nil
	}
	g.spend(1)
	iters := 1 + g.rnd(4)
	label := g.newLabel()
	var nd *Node
	g.push()
	defer g.pop()
	switch g.rnd(5) {
	case 0, 1: // three clauses
		i := g.name("i")
		g.declare(&Var{Name: i, T: tInt, RO: true})
		pre := tx("for ", i, " := 0; ", i, " < ", iters, "; ", i, "++ {")
		if g.chance(25) {
			pre = tx("for ", i, " := ", iters, "; ", i, " > 0; ", i, "-- {")
		}
		nd = blockN("for", pre, g.loopBody(iters, label, true, 1+g.rnd(4)), "}")
	case 2: // condition only
		c := g.name("n")
		g.declare(&Var{Name: c, T: tInt, RO: true})
		kids := []*Node{fixed(c, "++")}
		kids = append(kids, g.loopBody(iters, label, true, 1+g.rnd(4))...)
		loop := blockN("for", tx("for ", c, " < ", iters, " {"), kids, "}")
		loop.Label = label
		return blockN("", tx("{\n", c, " := 0\n_ = ", c), []*Node{loop}, "}")
	case 3: // no condition
		c := g.name("n")
		g.declare(&Var{Name: c, T: tInt, RO: true})
		kids := []*Node{fixed(c, "++\nif ", c, " > ", iters, " {\nbreak\n}")}
		kids = append(kids, g.loopBody(iters, label, true, 1+g.rnd(4))...)
		loop := blockN("for", tx("for {"), kids, "}")
		loop.Label = label
		return blockN("", tx("{\n", c, " := 0\n_ = ", c), []*Node{loop}, "}")
	default: // init; cond; (no post) and post-only variants
		i := g.name("i")
		g.declare(&Var{Name: i, T: tInt, RO: true})
		kids := []*Node{fixed(i, " += 2")}
		kids = append(kids, g.loopBody(iters, label, true, 1+g.rnd(4))...)
		nd = blockN("for", tx("for ", i, " := 0; ", i, " < ", iters*2, "; {"), kids, "}")
	}
	nd.Label = label
	return nd
}

// sBranch: break / continue, plain or labelled, under a condition.
func (g *gen) sBranch() *Node {
	if g.loopDepth == 0 || len(g.labels) == 0 {
		return nil
	}
	g.spend(1)
	kw := []string{"break", "continue"}[g.rnd(2)]
	feat := "for"
	if g.chance(40) {
		// a label of an enclosing loop
		var ls []string
		for _, l := range g.labels {
			if l != "" && !strings.HasPrefix(l, "!") {
				ls = append(ls, l)
			}
		}
		if len(ls) > 0 {
			kw += " " + ls[g.rnd(len(ls))]
			feat = "label"
		}
	}
	if strings.HasPrefix(g.labels[len(g.labels)-1], "!") && !strings.Contains(kw, " ") && kw == "continue" {
		// innermost breakable is a switch/select: a plain continue still targets the loop (fine)
	}
	return blockN(feat, tx("if ", g.cond(), " {"), []*Node{fixed(kw)}, "}")
}

func (g *gen) sRange() *Node {
	if g.loopDepth >= 2 || g.mult > 64 {
		return nil
	}
	g.spend(1)
	label := g.newLabel()
	g.push()
	defer g.pop()
	kind := g.rnd(8)
	var over *E
	var kt, vt *Type
	feat := "range"
	iters := 4
	switch kind {
	case 0, 1, 2: // slice
		p := g.placeWhere(func(p place) bool { return p.t.under().K == KSlice })
		if p != nil && g.chance(70) {
			over, vt = p.e, p.t.under().Elem
			iters = 6
		} else {
			st := &Type{K: KSlice, Elem: g.randType(1)}
			over, vt = g.value(st, 2), st.Elem
			if strings.HasSuffix(over.String(), "(nil)") {
				iters = 1
			}
		}
		kt = tInt
	case 3: // array
		p := g.placeWhere(func(p place) bool { return p.t.under().K == KArray })
		if p == nil {
			return nil
		}
		over, kt, vt = p.e, tInt, p.t.under().Elem
		feat += ",range-array"
	case 4: // pointer to array
		p := g.placeWhere(func(p place) bool { return p.addr && p.t.under().K == KArray })
		if p == nil {
			return nil
		}
		over, kt, vt = tx("&", p.e), tInt, p.t.under().Elem
		feat += ",range-ptr-array,ptr-array"
	case 5: // string
		over, kt, vt = g.expr(tString, 2), tInt, tInt32
		feat += ",range-string"
		iters = 12
	case 6:
		if g.pure {
			return nil
		}
		return g.sRangeMap()
	default:
		if g.pure {
			return nil
		}
		return g.sRangeChan()
	}
	k, v := g.name("k"), g.name("x")
	var pre *E
	uses := ""
	switch g.rnd(5) {
	case 0:
		pre = tx("for ", k, " := range ", over, " {")
		g.declare(&Var{Name: k, T: kt})
		uses = "_ = " + k
	case 1:
		pre = tx("for _, ", v, " := range ", over, " {")
		g.declare(&Var{Name: v, T: vt, Nil: true})
		uses = "_ = " + v
	case 2:
		pre = tx("for range ", over, " {")
	default:
		pre = tx("for ", k, ", ", v, " := range ", over, " {")
		g.declare(&Var{Name: k, T: kt})
		g.declare(&Var{Name: v, T: vt, Nil: true})
		uses = "_, _ = " + k + ", " + v
	}
	var kids []*Node
	if uses != "" {
		kids = append(kids, fixed(uses))
	}
	kids = append(kids, g.loopBody(iters, label, true, 1+g.rnd(4))...)
	nd := blockN(feat, pre, kids, "}")
	nd.Label = label
	return nd
}

// sRangeMap: iteration over a map; the body only aggregates commutatively or collects keys that are sorted afterwards.
func (g *gen) sRangeMap() *Node {
	p := g.placeWhere(func(p place) bool {
		u := p.t.under()
		return u.K == KMap && (u.Key.isInt() || u.Key.isString())
	})
	if p == nil {
		return nil
	}
	u := p.t.under()
	k, v, acc, keys := g.name("k"), g.name("x"), g.name("acc"), g.name("ks")
	var b strings.Builder
	fmt.Fprintf(&b, "{\n%s := 0\nvar %s []string\n", acc, keys)
	fmt.Fprintf(&b, "for %s, %s := range %s {\n", k, v, p.e.String())
	fmt.Fprintf(&b, "%s += len(fmt.Sprint(%s)) + len(fmt.Sprint(%s))\n", acc, g.show(k, u.Key).String(), g.show(v, u.Elem).String())
	fmt.Fprintf(&b, "%s = append(%s, fmt.Sprint(%s))\n", keys, keys, g.show(k, u.Key).String())
	if g.chance(30) && p.assign {
		fmt.Fprintf(&b, "if len(%s)%%2 == 0 {\ndelete(%s, %s)\n}\n", "fmt.Sprint("+k+")", p.e.String(), k)
	}
	fmt.Fprintf(&b, "}\nsort.Strings(%s)\nfmt.Println(%q, %s, %s, len(%s))\n}", keys, g.name("p"), acc, keys, p.e.String())
	g.spend(12)
	return leaf("range,range-map,map", b.String())
}

func (g *gen) sRangeChan() *Node {
	et := g.basicType()
	ch, v := g.name("ch"), g.name("x")
	n := 1 + g.rnd(3)
	pre := tx("{\n", ch, " := make(chan ", g.ts(et), ", ", n, ")\n")
	for i := 0; i < n; i++ {
		pre.P = append(pre.P, ch, " <- ", g.expr(et, 1), "\n")
	}
	pre.P = append(pre.P, "close(", ch, ")\nfor ", v, " := range ", ch, " {\n_ = ", v)
	g.push()
	g.declare(&Var{Name: v, T: et})
	kids := g.loopBody(n, "", true, 1+g.rnd(2))
	g.pop()
	ok := g.name("ok")
	post := fmt.Sprintf("}\n_, %s := <-%s\nfmt.Println(%q, %s, len(%s))\n}", ok, ch, "closed", ok, ch)
	g.spend(4)
	return blockN("range,range-chan,chan,close", pre, kids, post)
}

func (g *gen) sSwitch() *Node {
	g.spend(1)
	g.push()
	defer g.pop()
	tagged := g.chance(65)
	var pre *E
	var tt *Type
	feat := "switch"
	if tagged {
		tt = []*Type{tInt, tString, tInt8, tUint16, tBool}[g.rnd(5)]
		if len(g.named) > 0 && g.chance(20) {
			for _, t := range g.named {
				if t.isInt() {
					tt = t
				}
			}
		}
		if g.chance(30) {
			name := g.name("v")
			pre = tx("switch ", name, " := ", g.nonConst(tt, 2), "; ", name, " {")
			g.declare(&Var{Name: name, T: tt})
		} else {
			tag := g.nonConst(tt, 2)
			if tt.isInt() && g.chance(50) {
				tag = tx("(", tag, " % 4)")
			}
			pre = tx("switch ", tag, " {")
		}
	} else {
		if g.chance(25) {
			name := g.name("v")
			t := g.basicType()
			pre = tx("switch ", name, " := ", g.expr(t, 2), "; (", name, " == ", name, ") {")
			g.declare(&Var{Name: name, T: t})
			_ = name
		} else {
			pre = tx("switch {")
		}
	}
	ncl := 1 + g.rnd(4)
	defAt := -1
	if g.chance(60) {
		defAt = g.rnd(ncl + 1)
	}
	var heads []*Node
	for i := 0; i < ncl; i++ {
		if i == defAt {
			heads = append(heads, fixed("default:"))
		}
		if tagged {
			c := tx("case ")
			m := 1 + g.rnd(2)
			for k := 0; k < m; k++ {
				if k > 0 {
					c.P = append(c.P, ", ")
				}
				if tt.isBool() || g.chance(25) {
					c.P = append(c.P, g.nonConst(tt, 1))
				} else {
					c.P = append(c.P, g.keyLit(tt, i*2+k))
				}
			}
			c.P = append(c.P, ":")
			heads = append(heads, &Node{Pre: c, Fixed: true})
		} else {
			heads = append(heads, fixed("case ", g.cond(), ":"))
		}
	}
	if defAt == ncl {
		heads = append(heads, fixed("default:"))
	}
	var kids []*Node
	g.labels = append(g.labels, "!")
	for i, h := range heads {
		kids = append(kids, h)
		kids = append(kids, g.block(1+g.rnd(2))...)
		if g.chance(15) {
			kids = append(kids, blockN("switch", tx("if ", g.cond(), " {"), []*Node{fixed("break")}, "}"))
		}
		if i < len(heads)-1 && g.chance(20) {
			kids = append(kids, leaf("fallthrough", "fallthrough"))
		}
	}
	g.labels = g.labels[:len(g.labels)-1]
	return blockN(feat, pre, kids, "}")
}
