package main

// The reducer: delta debugging that keeps the program well-typed.
//
//	0. the same seed with a smaller statement budget (the generator is
//	   deterministic in (seed, size, options));
//	1. removal of nodes (statements, declarations) in chunks of decreasing
//	   size; a node that declares a name is removed only when the rest of the
//	   program does not mention the name; nodes marked Fixed (clause
//	   separators, loop steps, synchronisation) go only with their parent;
//	2. replacement of expressions by a literal of their type;
//	3. removal again.
//
// Every candidate is judged by gc and by Scriggo in one batch; a candidate
// that gc rejects (a constant expression that overflows, a missing use) is
// simply not a failing candidate.

import (
	"regexp"
	"strings"
	"time"
)

type reducer struct {
	p        *Prog
	gc, sc   outcome
	deadline time.Time
	batches  int
	fast     bool   // the failure shows without gc (host panic, build error, timeout): candidates are judged by Scriggo alone
	fastKey  string // what a candidate must reproduce in the fast mode
}

// selfEvident: the class of failures that need no judge, and the text a candidate has to reproduce.
func selfEvident(sc outcome) (string, bool) {
	for _, pre := range []string{"host-panic:", "build-error:", "crash:", "timeout"} {
		if strings.HasPrefix(sc.End, pre) {
			msg := sc.End
			if i := strings.Index(msg, ".go:"); pre == "build-error:" && i >= 0 {
				// drop the position
				if j := strings.Index(msg[i:], " "); j >= 0 {
					msg = pre + msg[i+j:]
				}
			}
			msg = identRE.ReplaceAllString(msg, "X")
			if len(msg) > 60 {
				msg = msg[:60]
			}
			return msg, true
		}
	}
	return "", false
}

var identRE = regexp.MustCompile(`[A-Za-z]+[0-9]+|[0-9]+`)

const reduceWindow = 16

func snapshot(p *Prog) *Prog {
	fm := map[string]any{}
	for n, s := range p.Files() {
		fm[n] = s
	}
	return progFromFiles(fm)
}

func reduce(p *Prog, gc0, sc0 outcome, budget time.Duration) (*Prog, outcome, outcome) {
	r := &reducer{p: p, gc: gc0, sc: sc0, deadline: time.Now().Add(budget)}
	r.fastKey, r.fast = selfEvident(sc0)
	r.smallerSeeds()
	r.removeNodes()
	r.literals()
	r.removeNodes()
	if r.fast {
		// the judge has the last word: the reduced program must be a valid program that ends differently
		gc, sc, err := evaluate([]*Prog{snapshot(r.p)})
		if err == nil && differs(gc[0], sc[0]) {
			return r.p, gc[0], sc[0]
		}
		// an ill-typed candidate slipped through: start again with gc judging every step
		p.walk(func(n *Node) {})
		r2 := &reducer{p: resetProg(p), gc: gc0, sc: sc0, deadline: r.deadline}
		r2.smallerSeeds()
		r2.removeNodes()
		return r2.p, r2.gc, r2.sc
	}
	return r.p, r.gc, r.sc
}

// resetProg undoes every removal and replacement.
func resetProg(p *Prog) *Prog {
	var rec func(n *Node)
	rec = func(n *Node) {
		n.Removed = false
		for _, e := range n.Pre.all(nil) {
			e.UseLit = false
		}
		for _, k := range n.Kids {
			rec(k)
		}
	}
	for _, k := range p.Pkgs {
		for _, n := range k.Nodes {
			rec(n)
		}
	}
	return p
}

func (r *reducer) timeLeft() bool { return time.Now().Before(r.deadline) }

// try evaluates the candidates; it returns the index of the first that still fails, or -1.
func (r *reducer) try(cands []*Prog) (int, outcome, outcome) {
	if len(cands) == 0 {
		return -1, outcome{}, outcome{}
	}
	r.batches++
	if r.fast {
		files := make([]map[string]string, len(cands))
		for i, p := range cands {
			files[i] = p.Files()
		}
		sc := runAllScriggo(files, 3)
		for i := range cands {
			if k, ok := selfEvident(sc[i]); ok && k == r.fastKey {
				return i, r.gc, sc[i]
			}
		}
		return -1, outcome{}, outcome{}
	}
	gc, sc, err := evaluate(cands)
	if err != nil {
		return -1, outcome{}, outcome{}
	}
	for i := range cands {
		if differs(gc[i], sc[i]) {
			return i, gc[i], sc[i]
		}
	}
	return -1, outcome{}, outcome{}
}

func (r *reducer) smallerSeeds() {
	if r.p.Seed == 0 || r.p.Size < 6 {
		return
	}
	var cands []*Prog
	for _, d := range []int{12, 8, 5, 3, 2} {
		if sz := r.p.Size / d; sz >= 2 {
			cands = append(cands, genProgram(r.p.Seed, sz, r.p.opts))
		}
	}
	if i, gc, sc := r.try(cands); i >= 0 {
		r.p, r.gc, r.sc = cands[i], gc, sc
	}
}

func (r *reducer) removable() []*Node {
	var ns []*Node
	r.p.walk(func(n *Node) {
		if !n.Fixed {
			ns = append(ns, n)
		}
	})
	return ns
}

// mark removes the chunk as far as the declarations allow and returns the nodes actually removed.
func (r *reducer) mark(chunk []*Node) []*Node {
	for _, n := range chunk {
		n.Removed = true
	}
	for {
		text := r.p.Source()
		changed := false
		for _, n := range chunk {
			if !n.Removed {
				continue
			}
			for _, d := range n.allDecls() {
				if wordIn(d, text) {
					n.Removed = false
					changed = true
					break
				}
			}
		}
		if !changed {
			break
		}
	}
	var gone []*Node
	for _, n := range chunk {
		if n.Removed {
			gone = append(gone, n)
		}
	}
	return gone
}

// allDecls: the names declared by the node and, for a declaration with a body, by its fixed parts.
func (n *Node) allDecls() []string {
	d := append([]string{}, n.Decl...)
	if n.Label != "" {
		// a label is printed only when used: nothing to check
	}
	return d
}

func (r *reducer) removeNodes() {
	nodes := r.removable()
	size := (len(nodes) + 1) / 2
	for size >= 1 && r.timeLeft() {
		progress := false
		for start := 0; r.timeLeft(); {
			nodes = r.removable()
			if start >= len(nodes) {
				break
			}
			// candidates of this window
			var cands []*Prog
			var sets [][]*Node
			pos := start
			for len(cands) < reduceWindow && pos < len(nodes) {
				end := pos + size
				if end > len(nodes) {
					end = len(nodes)
				}
				chunk := nodes[pos:end]
				pos = end
				gone := r.mark(chunk)
				if len(gone) > 0 {
					cands = append(cands, snapshot(r.p))
					sets = append(sets, gone)
				}
				for _, n := range gone {
					n.Removed = false
				}
			}
			if i, gc, sc := r.try(cands); i >= 0 {
				for _, n := range sets[i] {
					n.Removed = true
				}
				r.gc, r.sc = gc, sc
				progress = true
				// the nodes before the removed chunk stay where they are: go on behind them
				start += i * size
				continue
			}
			start = pos
		}
		if progress {
			if n := (len(r.removable()) + 1) / 2; size > n {
				size = n
				if size < 1 {
					break
				}
			}
			continue
		}
		if size == 1 {
			break
		}
		size = (size + 1) / 2
	}
}

func (r *reducer) allHoles() []*E {
	var hs []*E
	r.p.walk(func(n *Node) { hs = n.Pre.holes(hs) })
	return hs
}

func (r *reducer) literals() {
	hs := r.allHoles()
	size := (len(hs) + 1) / 2
	for size >= 1 && r.timeLeft() {
		progress := false
		for start := 0; r.timeLeft(); {
			hs = r.allHoles()
			if start >= len(hs) {
				break
			}
			var cands []*Prog
			var sets [][]*E
			pos := start
			for len(cands) < reduceWindow && pos < len(hs) {
				end := pos + size
				if end > len(hs) {
					end = len(hs)
				}
				chunk := hs[pos:end]
				pos = end
				for _, e := range chunk {
					e.UseLit = true
				}
				cands = append(cands, snapshot(r.p))
				sets = append(sets, chunk)
				for _, e := range chunk {
					e.UseLit = false
				}
			}
			if i, gc, sc := r.try(cands); i >= 0 {
				for _, e := range sets[i] {
					e.UseLit = true
				}
				r.gc, r.sc = gc, sc
				progress = true
				start += i * size
				continue
			}
			start = pos
		}
		if size == 1 {
			if !progress {
				break
			}
			continue
		}
		size = (size + 1) / 2
	}
}
