package main

import (
	"fmt"
	"strings"
)

type Kind int

const (
	KBool Kind = iota
	KInt       // every integer kind; Name tells which
	KFloat
	KString
	KArray
	KSlice
	KMap
	KStruct
	KPtr
	KFunc
	KChan
	KAny
	KError
	KStringer
	KNamed
)

type Field struct {
	Name     string
	T        *Type
	Embedded bool
}

type Type struct {
	K        Kind
	Name     string // basic name, or the name of a defined type
	Pkg      string // defining package of a defined type ("" = main)
	Elem     *Type
	Key      *Type
	N        int
	Fields   []Field
	Params   []*Type
	Results  []*Type
	Variadic bool
	Under    *Type
}

var (
	tBool     = &Type{K: KBool, Name: "bool"}
	tString   = &Type{K: KString, Name: "string"}
	tInt      = &Type{K: KInt, Name: "int"}
	tInt8     = &Type{K: KInt, Name: "int8"}
	tInt16    = &Type{K: KInt, Name: "int16"}
	tInt32    = &Type{K: KInt, Name: "int32"}
	tInt64    = &Type{K: KInt, Name: "int64"}
	tUint     = &Type{K: KInt, Name: "uint"}
	tUint8    = &Type{K: KInt, Name: "uint8"}
	tUint16   = &Type{K: KInt, Name: "uint16"}
	tUint32   = &Type{K: KInt, Name: "uint32"}
	tUint64   = &Type{K: KInt, Name: "uint64"}
	tUintptr  = &Type{K: KInt, Name: "uintptr"}
	tFloat64  = &Type{K: KFloat, Name: "float64"}
	tFloat32  = &Type{K: KFloat, Name: "float32"}
	tAny      = &Type{K: KAny, Name: "any"}
	tError    = &Type{K: KError, Name: "error"}
	tStringer = &Type{K: KStringer, Name: "fmt.Stringer"}

	intTypes = []*Type{tInt, tInt8, tInt16, tInt32, tInt64, tUint, tUint8, tUint16, tUint32, tUint64, tUintptr}
)

func (t *Type) under() *Type {
	for t.K == KNamed {
		t = t.Under
	}
	return t
}

func (t *Type) bits() int {
	switch t.under().Name {
	case "int8", "uint8":
		return 8
	case "int16", "uint16":
		return 16
	case "int32", "uint32", "float32":
		return 32
	}
	return 64
}

func (t *Type) signed() bool { return !strings.HasPrefix(t.under().Name, "u") }

func (t *Type) isInt() bool    { return t.under().K == KInt }
func (t *Type) isFloat() bool  { return t.under().K == KFloat }
func (t *Type) isString() bool { return t.under().K == KString }
func (t *Type) isBool() bool   { return t.under().K == KBool }
func (t *Type) isIface() bool {
	k := t.under().K
	return k == KAny || k == KError || k == KStringer
}

// comparable: usable with == and as a map key without a run-time panic
// (interfaces are excluded: their dynamic type may be uncomparable).
func (t *Type) comparable() bool {
	u := t.under()
	switch u.K {
	case KBool, KInt, KFloat, KString, KPtr, KChan:
		return true
	case KArray:
		return u.Elem.comparable()
	case KStruct:
		for _, f := range u.Fields {
			if !f.T.comparable() {
				return false
			}
		}
		return true
	}
	return false
}

// hasFloat: the type contains a float (NaN breaks map keys and equality laws; kept out of keys).
func (t *Type) hasFloat() bool {
	u := t.under()
	switch u.K {
	case KFloat:
		return true
	case KArray:
		return u.Elem.hasFloat()
	case KStruct:
		for _, f := range u.Fields {
			if f.T.hasFloat() {
				return true
			}
		}
	}
	return false
}

func (t *Type) ordered() bool {
	k := t.under().K
	return k == KInt || k == KFloat || k == KString
}

// nilable: has nil as zero value.
func (t *Type) nilable() bool {
	switch t.under().K {
	case KSlice, KMap, KPtr, KFunc, KChan, KAny, KError, KStringer:
		return true
	}
	return false
}

// fmtSafe: a value of the type printed by fmt with %v shows the same text under
// both toolchains and no address.
func (t *Type) fmtSafe() bool {
	u := t.under()
	switch u.K {
	case KBool, KInt, KFloat, KString, KError, KStringer:
		return true
	case KArray, KSlice:
		return u.Elem.fmtSafe() && !u.Elem.isIface()
	case KMap:
		return u.Elem.fmtSafe() && u.Key.fmtSafe() && !u.Elem.isIface() && !u.Key.isIface()
	}
	return false
}

// depth of a type (bounds the construction of composite types).
func (t *Type) depth() int {
	switch t.K {
	case KArray, KSlice, KPtr, KChan:
		return 1 + t.Elem.depth()
	case KMap:
		return 1 + maxInt(t.Key.depth(), t.Elem.depth())
	case KStruct:
		d := 0
		for _, f := range t.Fields {
			d = maxInt(d, f.T.depth())
		}
		return 1 + d
	case KFunc:
		return 2
	case KNamed:
		return t.Under.depth()
	}
	return 0
}

func maxInt(a, b int) int {
	if a > b {
		return a
	}
	return b
}

// str prints the type as seen from package cur; dot lists the packages imported with a dot.
func (t *Type) str(cur string, dot map[string]bool) string {
	switch t.K {
	case KNamed:
		if t.Pkg != cur && !dot[t.Pkg] {
			return pkgIdent(t.Pkg) + "." + t.Name
		}
		return t.Name
	case KArray:
		return fmt.Sprintf("[%d]%s", t.N, t.Elem.str(cur, dot))
	case KSlice:
		return "[]" + t.Elem.str(cur, dot)
	case KMap:
		return "map[" + t.Key.str(cur, dot) + "]" + t.Elem.str(cur, dot)
	case KPtr:
		return "*" + t.Elem.str(cur, dot)
	case KChan:
		return "chan " + t.Elem.str(cur, dot)
	case KStruct:
		var b strings.Builder
		b.WriteString("struct{")
		for i, f := range t.Fields {
			if i > 0 {
				b.WriteString("; ")
			}
			if f.Embedded {
				b.WriteString(f.T.str(cur, dot))
			} else {
				b.WriteString(f.Name + " " + f.T.str(cur, dot))
			}
		}
		b.WriteString("}")
		return b.String()
	case KFunc:
		var b strings.Builder
		b.WriteString("func(")
		for i, p := range t.Params {
			if i > 0 {
				b.WriteString(", ")
			}
			if t.Variadic && i == len(t.Params)-1 {
				b.WriteString("..." + p.Elem.str(cur, dot))
			} else {
				b.WriteString(p.str(cur, dot))
			}
		}
		b.WriteString(")")
		switch len(t.Results) {
		case 0:
		case 1:
			b.WriteString(" " + t.Results[0].str(cur, dot))
		default:
			b.WriteString(" (")
			for i, r := range t.Results {
				if i > 0 {
					b.WriteString(", ")
				}
				b.WriteString(r.str(cur, dot))
			}
			b.WriteString(")")
		}
		return b.String()
	}
	return t.Name
}

// pkgIdent: the identifier a package path is imported under.
func pkgIdent(path string) string {
	if i := strings.LastIndex(path, "/"); i >= 0 {
		return path[i+1:]
	}
	return path
}

// key: identity of the type (structural, defined types by name).
func (t *Type) key() string { return t.str("\x00", nil) }

func same(a, b *Type) bool { return a == b || a.key() == b.key() }
