package main

// gc as the judge.  Many programs are built as ONE module and ONE binary: the
// program i becomes the packages batch/pNNNN (its main package, `func main`
// renamed to `Main`) and batch/pNNNN/<path> (its own packages); the batch's
// main function calls every Main in turn between markers and recovers its
// panic.  Package initialisation of all programs happens before that, in the
// order of the Go specification (sorted import paths, dependencies first), so
// the initialisation output of program i appears after the marker printed by
// the package batch/pNNNN/0mark.  A program whose packages do not compile is
// reported as invalid and the batch is rebuilt without it.  The directory
// lives under <verif>/build and is removed at the end.

import (
	"bytes"
	"encoding/hex"
	"fmt"
	"os"
	"os/exec"
	"path/filepath"
	"regexp"
	"sort"
	"strconv"
	"strings"
	"sync/atomic"
	"time"
)

func verifDir() string {
	exe, _ := os.Executable()
	return filepath.Dir(filepath.Dir(exe)) // <verif>/bin/h_gogen2
}

var batchCounter int64

const batchMain = `package main

import (
	"encoding/hex"
	"fmt"
	"os"
	"strconv"
%s)

func canon(v any) string {
	if e, ok := v.(error); ok {
		return "error:" + e.Error()
	}
	return fmt.Sprintf("%%v", v)
}

func run(i int, f func()) {
	fmt.Printf("@@BEGIN %%d\n", i)
	end := "ok"
	func() {
		defer func() {
			if r := recover(); r != nil {
				end = "panic:" + canon(r)
			}
		}()
		f()
	}()
	fmt.Printf("\n@@END %%d %%s\n", i, hex.EncodeToString([]byte(end)))
}

var mains = map[int]func(){
%s}

func main() {
	fmt.Printf("@@MAIN\n")
	for _, a := range os.Args[1:] {
		i, _ := strconv.Atoi(a)
		run(i, mains[i])
	}
}
`

// the marker package imports what the programs import: it is ready exactly when they are
const markSrc = `package mark

import (
	_ "errors"
	"fmt"
	_ "sort"
	_ "strconv"
	_ "strings"
	_ "time"
	_ "unicode/utf8"
)

func init() { fmt.Printf("\n@@INIT %d\n") }
`

var pkgErrRE = regexp.MustCompile(`(?m)^# batch/p(\d+)`)
var fileErrRE = regexp.MustCompile(`(?m)^p(\d+)/\S+\.go:\d+`)

func goEnv() []string {
	// the toolchain the repository asks for (go.mod: go 1.25.0, in the module cache)
	return append(os.Environ(), "GOFLAGS=-mod=mod", "GOPROXY=off", "GOTOOLCHAIN=auto", "GOWORK=off")
}

// runGc returns the outcome of every program under gc.
func runGc(progs []*Prog) ([]outcome, error) {
	res := make([]outcome, len(progs))
	if len(progs) == 0 {
		return res, nil
	}
	root := filepath.Join(verifDir(), "build", "gogen2")
	os.MkdirAll(root, 0o755)
	dir := filepath.Join(root, fmt.Sprintf("batch-%d-%d", os.Getpid(), atomic.AddInt64(&batchCounter, 1)))
	if err := os.MkdirAll(dir, 0o755); err != nil {
		return nil, err
	}
	defer os.RemoveAll(dir)
	os.WriteFile(filepath.Join(dir, "go.mod"), []byte("module batch\n\ngo 1.25.0\n"), 0o644)
	for i, p := range progs {
		pn := fmt.Sprintf("p%04d", i)
		mod := "batch/" + pn
		for _, k := range p.Pkgs {
			d := filepath.Join(dir, pn, filepath.FromSlash(k.Path))
			os.MkdirAll(d, 0o755)
			var src string
			if k.Path == "" {
				// the main package waits for the marker package (sorted before every package of the program)
				src = k.render(mod, pn, "Main")
				mark := "import _ \"" + mod + "/0mark\"\n"
				if i := strings.Index(src, "\nimport "); i >= 0 {
					src = src[:i+1] + mark + src[i+1:]
				} else if i := strings.Index(src, "\n"); i >= 0 {
					src = src[:i+1] + mark + src[i+1:]
				}
			} else {
				src = k.render(mod, "", "")
			}
			os.WriteFile(filepath.Join(d, k.Name+".go"), []byte(src), 0o644)
		}
		d := filepath.Join(dir, pn, "0mark")
		os.MkdirAll(d, 0o755)
		os.WriteFile(filepath.Join(d, "mark.go"), []byte(fmt.Sprintf(markSrc, i)), 0o644)
	}
	live := map[int]bool{}
	for i := range progs {
		live[i] = true
	}
	bin := filepath.Join(dir, "batchbin")
	for round := 0; ; round++ {
		var imps, tbl strings.Builder
		var idx []int
		for i := range progs {
			if live[i] {
				idx = append(idx, i)
			}
		}
		for _, i := range idx {
			fmt.Fprintf(&imps, "\t_ \"batch/p%04d/0mark\"\n\tp%04d \"batch/p%04d\"\n", i, i, i)
			fmt.Fprintf(&tbl, "\t%d: p%04d.Main,\n", i, i)
		}
		os.WriteFile(filepath.Join(dir, "main.go"), []byte(fmt.Sprintf(batchMain, imps.String(), tbl.String())), 0o644)
		cmd := exec.Command("go", "build", "-p", "4", "-o", bin, ".")
		cmd.Dir = dir
		cmd.Env = goEnv()
		t0 := time.Now()
		outb, err := cmd.CombinedOutput()
		if os.Getenv("RICH_DEBUG") != "" {
			fmt.Fprintf(os.Stderr, "TIMING go build of %d programs: %v\n", len(idx), time.Since(t0))
		}
		if err == nil {
			break
		}
		bad := map[int]string{}
		text := string(outb)
		for _, m := range pkgErrRE.FindAllStringSubmatch(text, -1) {
			i, _ := strconv.Atoi(m[1])
			bad[i] = ""
		}
		for _, m := range fileErrRE.FindAllStringSubmatch(text, -1) {
			i, _ := strconv.Atoi(m[1])
			bad[i] = ""
		}
		if len(bad) == 0 || round > 8 {
			return nil, fmt.Errorf("go build of the batch failed: %v: %s", err, clip(text, 3000))
		}
		for i := range bad {
			var ls []string
			for _, l := range strings.Split(text, "\n") {
				if strings.HasPrefix(l, fmt.Sprintf("p%04d/", i)) {
					ls = append(ls, l)
				}
			}
			res[i] = outcome{End: "invalid:" + clip(strings.Join(ls, " | "), 500)}
			delete(live, i)
		}
	}
	// run; a crash or a timeout inside program i ends the process: the rest is run again
	var todo []int
	for i := range progs {
		if live[i] {
			todo = append(todo, i)
		}
	}
	sort.Ints(todo)
	inits := map[int]string{}
	first := true
	for len(todo) > 0 {
		args := make([]string, len(todo))
		for k, i := range todo {
			args[k] = strconv.Itoa(i)
		}
		cmd := exec.Command(bin, args...)
		cmd.Dir = dir
		var so, se bytes.Buffer
		cmd.Stdout, cmd.Stderr = &so, &se
		if err := cmd.Start(); err != nil {
			return nil, err
		}
		done := make(chan error, 1)
		go func() { done <- cmd.Wait() }()
		timedOut := false
		select {
		case <-done:
		case <-time.After(time.Duration(20+len(todo)/4) * time.Second):
			cmd.Process.Kill()
			<-done
			timedOut = true
		}
		text := so.String()
		pre, rest, ok := strings.Cut(text, "@@MAIN\n")
		if !ok {
			return nil, fmt.Errorf("the gc batch ended during package initialisation: %s | %s", clip(text, 1000), clip(se.String(), 1500))
		}
		if first {
			for _, part := range strings.Split(pre, "\n@@INIT ")[1:] {
				num, body, _ := strings.Cut(part, "\n")
				i, _ := strconv.Atoi(num)
				inits[i] = body
			}
			first = false
		}
		last := -1
		for _, part := range strings.Split(rest, "@@BEGIN ")[1:] {
			num, body, _ := strings.Cut(part, "\n")
			i, _ := strconv.Atoi(num)
			last = i
			j := strings.LastIndex(body, "\n@@END "+num+" ")
			if j < 0 {
				// the process ended inside this program
				why := "crash:" + firstLines(clip(se.String(), 600), 4)
				if timedOut {
					why = "timeout"
				}
				res[i] = outcome{Out: inits[i] + body, End: why}
				break
			}
			endHex := strings.TrimSpace(body[j+len("\n@@END "+num+" "):])
			endb, _ := hex.DecodeString(endHex)
			res[i] = outcome{Out: inits[i] + body[:j], End: string(endb)}
		}
		// what remains after the last program seen
		var remaining []int
		for _, i := range todo {
			if i > last {
				remaining = append(remaining, i)
			}
		}
		if last < 0 && len(remaining) == len(todo) {
			return nil, fmt.Errorf("the gc batch printed no program: %s", clip(se.String(), 1500))
		}
		todo = remaining
	}
	return res, nil
}

func clip(s string, n int) string {
	if len(s) > n {
		return s[:n] + "..."
	}
	return s
}
