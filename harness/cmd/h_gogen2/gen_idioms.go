package main

import (
	"fmt"
	"strings"
)

// ---- functions and closures -----------------------------------------------------

type fnCtx struct {
	fnBase    int
	fn        *Fn
	canPanic  bool
	loopDepth int
	labels    []string
	mult      int
	noReturn  bool
}

func (g *gen) enterFn(f *Fn) fnCtx {
	c := fnCtx{g.fnBase, g.fn, g.canPanic, g.loopDepth, g.labels, g.mult, g.noReturn}
	g.fn, g.loopDepth, g.labels, g.noReturn = f, 0, nil, false
	g.fnBase = len(g.scopes) // the scopes below belong to enclosing functions or to the package
	g.fnDepth++
	return c
}

func (g *gen) leaveFn(c fnCtx) {
	g.fn, g.canPanic, g.loopDepth, g.labels, g.mult, g.noReturn = c.fn, c.canPanic, c.loopDepth, c.labels, c.mult, c.noReturn
	g.fnBase = c.fnBase
	g.fnDepth--
}

// signature text "(p1 T1, p2 ...T2) (r1 R1, r2 R2)" and declares the parameters in the current scope.
func (g *gen) signature(f *Fn, namedResults bool) string {
	var b strings.Builder
	b.WriteString("(")
	for i, p := range f.T.Params {
		if i > 0 {
			b.WriteString(", ")
		}
		n := g.name("a")
		if f.T.Variadic && i == len(f.T.Params)-1 {
			b.WriteString(n + " ..." + g.ts(p.Elem))
		} else {
			b.WriteString(n + " " + g.ts(p))
		}
		g.declare(&Var{Name: n, T: p, Nil: f.T.Variadic && i == len(f.T.Params)-1})
	}
	b.WriteString(")")
	if len(f.T.Results) > 0 {
		b.WriteString(" (")
		for i, r := range f.T.Results {
			if i > 0 {
				b.WriteString(", ")
			}
			if namedResults {
				n := g.name("r")
				f.Named = append(f.Named, n)
				b.WriteString(n + " ")
				g.declare(&Var{Name: n, T: r, Nil: true})
			}
			b.WriteString(g.ts(r))
		}
		b.WriteString(")")
	}
	return b.String()
}

// returnNode: a return statement of the current function.
func (g *gen) returnNode() *Node {
	f := g.fn
	if f == nil || len(f.T.Results) == 0 {
		return fixed("return")
	}
	if len(f.Named) > 0 && g.chance(40) {
		return fixed("return")
	}
	e := tx("return ")
	for i, r := range f.T.Results {
		if i > 0 {
			e.P = append(e.P, ", ")
		}
		e.P = append(e.P, g.expr(r, 2))
	}
	return &Node{Pre: e, Fixed: true}
}

// sReturn: an early return under a condition.
func (g *gen) sReturn() *Node {
	if g.fn == nil || g.noReturn {
		return nil
	}
	g.spend(1)
	return blockN("", tx("if ", g.cond(), " {"), []*Node{g.returnNode()}, "}")
}

// funcLit: a function literal of the type; its body sees the enclosing variables.
func (g *gen) funcLit(t *Type) *E {
	f := &Fn{T: t}
	c := g.enterFn(f)
	defer g.leaveFn(c)
	g.canPanic = false
	g.push()
	defer g.pop()
	sig := g.signature(f, len(t.Results) > 0 && g.chance(30))
	n := 0
	if g.fnDepth <= 2 {
		n = g.rnd(3)
	}
	kids := g.stmts(n)
	kids = append(kids, g.returnNode())
	var b strings.Builder
	for _, k := range kids {
		k.write(&b, 0)
	}
	return tx("func", sig, " {\n", b.String(), "}")
}

// sClosure: closures that capture and mutate variables.
func (g *gen) sClosure() *Node {
	g.spend(8)
	switch g.rnd(5) {
	case 0: // counter
		v := g.placeWhere(func(p place) bool { return p.assign && p.t.isInt() && !strings.ContainsAny(p.e.String(), ".[(") })
		if v == nil {
			return nil
		}
		c, r := g.name("c"), g.name("v")
		nd := leaf("closure", c, " := func() ", g.ts(v.t), " {\n", v.e, " += ", g.expr(v.t, 1), "\nreturn ", v.e, "\n}\n",
			r, " := ", c, "()\n", r, " = ", c, "() + ", r, "\n", "fmt.Println(\"", c, "\", ", r, ", ", v.e, ")")
		nd.Decl = []string{c, r}
		g.declare(&Var{Name: r, T: v.t})
		return nd
	case 1: // closures made in a loop capture the per-iteration variable
		fs, i, f := g.name("fs"), g.name("i"), g.name("f")
		n := 2 + g.rnd(3)
		if g.chance(50) {
			return leaf("closure,loopvar,for", "{\nvar ", fs, " []func() int\nfor ", i, " := 0; ", i, " < ", n, "; ", i, "++ {\n",
				fs, " = append(", fs, ", func() int {\n", i, " += 10\nreturn ", i, "\n})\n}\nfor _, ", f, " := range ", fs, " {\nfmt.Println(\"", fs, "\", ", f, "(), ", f, "())\n}\n}")
		}
		x := g.name("x")
		return leaf("closure,loopvar,range", "{\nvar ", fs, " []func() string\nfor ", i, ", ", x, " := range []string{\"a\", \"b\", \"c\"} {\n",
			fs, " = append(", fs, ", func() string {\n", x, " += \"!\"\nreturn fmt.Sprint(", i, ", ", x, ")\n})\n}\nfor _, ", f, " := range ", fs, " {\nfmt.Println(\"", fs, "\", ", f, "(), ", f, "())\n}\n}")
	case 2: // a closure returning a closure (adder)
		mk, add, t := g.name("mk"), g.name("add"), []*Type{tInt, tInt16, tUint8, tFloat64, tString}[g.rnd(5)]
		ts := g.ts(t)
		nd := leaf("closure,funcvalue", mk, " := func(base ", ts, ") func(", ts, ") ", ts, " {\nreturn func(d ", ts, ") ", ts, " {\nbase += d\nreturn base\n}\n}\n",
			add, " := ", mk, "(", g.expr(t, 1), ")\n", add, "(", g.expr(t, 1), ")\nfmt.Println(\"", add, "\", ", add, "(", g.expr(t, 1), "), ", mk, "(", g.expr(t, 1), ")(", g.expr(t, 1), "))")
		nd.Decl = []string{mk, add}
		return nd
	case 3: // a function value of a random type stored and called
		ft := g.funcType(1)
		fv := g.name("fn")
		nd := g.declNode(fv, ft, g.funcLit(ft), 0)
		nd.Feat = []string{"closure", "funcvalue"}
		g.declare(&Var{Name: fv, T: ft})
		return nd
	default: // shared variable between two closures
		v, inc, get := g.name("v"), g.name("inc"), g.name("get")
		t := g.basicType()
		if t.isBool() {
			t = tInt
		}
		op := " += "
		nd := leaf("closure", v, " := ", g.expr(t, 1), "\n", inc, " := func() { ", v, op, g.expr(t, 1), " }\n", get, " := func() ", g.ts(t), " { return ", v, " }\n",
			inc, "()\n", inc, "()\nfmt.Println(\"", get, "\", ", get, "(), ", v, ")")
		nd.Decl = []string{v, inc, get}
		g.declare(&Var{Name: v, T: t})
		return nd
	}
}

// sCallFuncValue: a call of a function value in scope, as a statement.
func (g *gen) sCallFuncValue() *Node {
	if g.fnDepth > 0 {
		return nil // closures never call function variables (no recursion through variables)
	}
	var sel []*Var
	for _, v := range g.vars() {
		if v.T.under().K == KFunc && !v.Nil {
			sel = append(sel, v)
		}
	}
	if len(sel) == 0 || g.cost+60*g.mult > costLimit {
		return nil
	}
	v := sel[g.rnd(len(sel))]
	g.spend(60)
	return g.callNode(tx(v.Name), v.T.under(), "funcvalue,call")
}

// callNode: `r1, r2 := f(args)` with the results declared and printed.
func (g *gen) callNode(fe *E, ft *Type, feat string) *Node {
	call := tx(fe, "(", g.args(ft, 2), ")")
	if ft.Variadic {
		feat += ",variadic"
	}
	if len(ft.Results) == 0 {
		return leaf(feat, call)
	}
	if len(ft.Results) > 1 {
		feat += ",multi-result"
	}
	pre := tx()
	var names []string
	var shows []*E
	for i, r := range ft.Results {
		n := g.name("r")
		if g.chance(15) && len(ft.Results) > 1 {
			n = "_"
		}
		if i > 0 {
			pre.P = append(pre.P, ", ")
		}
		pre.P = append(pre.P, n)
		if n != "_" {
			names = append(names, n)
			shows = append(shows, g.show(n, r))
			g.declare(&Var{Name: n, T: r, Nil: true})
		}
	}
	if len(names) == 0 {
		pre = tx("_ = ", call)
		if len(ft.Results) > 1 {
			pre = tx(strings.Repeat("_, ", len(ft.Results)-1), "_ = ", call)
		}
		return &Node{Pre: pre, Feat: strings.Split(feat, ",")}
	}
	pre.P = append(pre.P, " := ", call, "\nfmt.Println(\"", names[0], "\"")
	for _, s := range shows {
		pre.P = append(pre.P, ", ", s)
	}
	pre.P = append(pre.P, ")")
	return &Node{Pre: pre, Decl: names, Feat: strings.Split(feat, ",")}
}

// sCall: a call of a top-level function.
func (g *gen) sCall() *Node {
	var sel []*Fn
	for _, f := range g.fns {
		if g.cost+f.Cost*g.mult < costLimit && !(g.inGo && f.Panics) {
			sel = append(sel, f)
		}
	}
	if len(sel) == 0 {
		return nil
	}
	f := sel[len(sel)-1-g.rnd(minInt(len(sel), 6))]
	g.cost += f.Cost * g.mult
	if f.Panics && !g.canPanic {
		// run it under a recover; the results live inside the function literal
		g.push()
		nd := g.callNode(tx(f.Name), f.T, "call")
		g.pop()
		return g.protect([]*Node{nd}, "call,recover,panic,defer")
	}
	return g.callNode(tx(f.Name), f.T, "call")
}

// ---- defer, panic, recover ---------------------------------------------------------

// protect wraps statements in a function literal that recovers.
func (g *gen) protect(kids []*Node, feat string) *Node {
	r := g.name("r")
	pre := tx("func() {\ndefer func() {\n", r, " := recover()\nfmt.Println(\"recovered\", ", r, ")\n}()")
	return blockN(feat, pre, kids, "}()")
}

// sPanicky: a statement that panics at run time (only where a recover is waiting).
func (g *gen) sPanicky() *Node {
	if !g.canPanic || g.inGo {
		return nil
	}
	g.spend(2)
	cond := g.chance(50)
	var nd *Node
	switch g.rnd(8) {
	case 0, 1:
		t := []*Type{tString, tInt, tError}[g.rnd(3)]
		nd = leaf("panic", "panic(", g.expr(t, 1), ")")
		if t == tError {
			nd = leaf("panic,error", "panic(fmt.Errorf(\"err %d\", ", g.expr(tInt, 1), "))")
		}
	case 2:
		p := g.placeWhere(func(p place) bool { return p.t.under().K == KSlice })
		if p == nil {
			return nil
		}
		nd = leaf("panic,slice", "_ = ", p.e, "[len(", p.e, ")+", g.rnd(3), "]")
	case 3:
		z := g.name("z")
		t := intTypes[g.rnd(len(intTypes))]
		nd = leaf("panic,div", z, " := ", g.expr(t, 1), "\n_ = ", g.expr(t, 1), " / (", z, " - ", z, ")")
	case 4:
		m := g.name("m")
		nd = leaf("panic,map", "var ", m, " map[string]int\n", m, "[\"a\"] = ", g.expr(tInt, 1))
	case 5:
		p := g.name("p")
		t := g.basicType()
		nd = leaf("panic,ptr", "var ", p, " *", g.ts(t), "\nfmt.Println(*", p, ")")
	case 6:
		a := g.name("a")
		// the message names the dynamic type: types of the program are kept out of it (finding
		// defined-type-through-native-any; the gc batch also renames package main)
		vt := []*Type{tInt, tString, tBool, tFloat64, tUint8, {K: KSlice, Elem: tInt}}[g.rnd(6)]
		g.noteAny(vt)
		wrong := tString
		if same(vt, tString) {
			wrong = tInt
		}
		nd = leaf("panic,assert,iface", "var ", a, " any = ", g.expr(vt, 1), "\n_ = ", a, ".(", g.ts(wrong), ")")
	default:
		p := g.placeWhere(func(p place) bool { return p.t.under().K == KSlice })
		if p == nil || !g.opts.on("slice-bounds-panic") {
			return nil
		}
		lo := g.name("lo")
		nd = leaf("panic,reslice", lo, " := len(", p.e, ") + 1\n_ = ", p.e, "[", lo, ":]")
	}
	if cond {
		return blockN("", tx("if ", g.cond(), " {"), []*Node{nd}, "}")
	}
	return nd
}

// sDefer: deferred calls in the current function.
func (g *gen) sDefer() *Node {
	if g.fn == nil || g.mult > 8 || g.inGo {
		return nil
	}
	g.spend(3)
	switch g.rnd(5) {
	case 0: // arguments are evaluated at the defer statement
		p := g.placeWhere(func(p place) bool { return p.t.fmtSafe() })
		if p == nil {
			return nil
		}
		return leaf("defer", "defer fmt.Println(\"", g.name("d"), "\", ", p.e, ")")
	case 1: // a closure sees the final values
		p := g.placeWhere(func(p place) bool { return p.t.fmtSafe() })
		if p == nil {
			return nil
		}
		return leaf("defer,closure", "defer func() { fmt.Println(\"", g.name("d"), "\", ", p.e, ") }()")
	case 2: // a deferred closure changes a named result
		if len(g.fn.Named) == 0 || g.fnDepth > 0 && g.loopDepth > 0 {
			return nil
		}
		i := g.rnd(len(g.fn.Named))
		t := g.fn.T.Results[i]
		if !(t.isInt() || t.isString() || t.isFloat()) {
			return nil
		}
		return leaf("defer,closure,named-result", "defer func() { ", g.fn.Named[i], " += ", g.expr(t, 1), " }()")
	case 3: // recover when nothing panics gives nil
		return leaf("defer,recover", "defer func() { fmt.Println(\"", g.name("d"), "\", recover()) }()")
	default: // deferred call with a parameter
		t := g.basicType()
		return leaf("defer,closure", "defer func(x ", g.ts(t), ") { fmt.Println(\"", g.name("d"), "\", x) }(", g.expr(t, 1), ")")
	}
}

// sProtected: a block that panics somewhere and the machinery around it.
func (g *gen) sProtected() *Node {
	if g.inGo || g.fnDepth > 1 {
		return nil
	}
	g.spend(6)
	f := &Fn{T: &Type{K: KFunc}}
	c := g.enterFn(f)
	g.canPanic = true
	g.push()
	kids := g.stmts(1 + g.rnd(3))
	if p := g.sPanicky(); p != nil {
		kids = append(kids, p)
	}
	kids = append(kids, g.stmts(g.rnd(2))...)
	g.pop()
	g.leaveFn(c)
	feat := "recover,panic,defer,closure"
	r := g.name("r")
	var pre *E
	switch g.rnd(4) {
	case 0: // recover, print, go on
		pre = tx("func() {\ndefer func() {\n", r, " := recover()\nfmt.Println(\"recovered\", ", r, ")\n}()")
	case 1: // two deferred functions: the second to run sees nil
		pre = tx("func() {\ndefer func() {\nfmt.Println(\"outer\", recover())\n}()\ndefer func() {\n", r, " := recover()\nfmt.Println(\"inner\", ", r, ")\n}()")
	case 2: // re-panic with a new value, recovered one level up
		feat += ",repanic"
		pre = tx("func() {\ndefer func() {\nfmt.Println(\"outer\", recover())\n}()\ndefer func() {\nif ", r, " := recover(); ", r, " != nil {\npanic(fmt.Sprint(\"again: \", ", r, "))\n}\n}()")
	default: // a deferred function that panics while another panic is in flight
		feat += ",defer-panic"
		pre = tx("func() {\ndefer func() {\nfmt.Println(\"outer\", recover())\n}()\ndefer func() {\npanic(\"from defer\")\n}()")
	}
	return blockN(feat, pre, kids, "}()")
}

// ---- channels, select, goroutines ----------------------------------------------------

func (g *gen) sSelect() *Node {
	g.spend(6)
	t := g.basicType()
	ts := g.ts(t)
	c1, c2, v := g.name("c"), g.name("c"), g.name("x")
	g.labels = append(g.labels, "!")
	defer func() { g.labels = g.labels[:len(g.labels)-1] }()
	body := func() []*Node { return g.block(1 + g.rnd(2)) }
	switch g.rnd(5) {
	case 0: // one ready receive, a send that cannot proceed, default
		kids := []*Node{fixed("case ", v, " := <-", c1, ":\nfmt.Println(\"recv\", ", v, ")")}
		kids = append(kids, body()...)
		kids = append(kids, fixed("case ", c2, " <- ", g.expr(t, 1), ":\nfmt.Println(\"sent\")"))
		kids = append(kids, fixed("default:\nfmt.Println(\"default\")"))
		return blockN("select,chan", tx("{\n", c1, " := make(chan ", ts, ", 1)\n", c2, " := make(chan ", ts, ")\n", c1, " <- ", g.expr(t, 1), "\nselect {"), kids, "}\n}")
	case 1: // nothing ready: default
		kids := []*Node{fixed("case ", v, ", ok := <-", c1, ":\nfmt.Println(\"recv\", ", v, ", ok)")}
		kids = append(kids, fixed("default:\nfmt.Println(\"default\")"))
		kids = append(kids, body()...)
		return blockN("select,chan", tx("{\n", c1, " := make(chan ", ts, ", 1)\nselect {"), kids, "}\n}")
	case 2: // a send into a buffer with room, a receive from an empty channel
		kids := []*Node{fixed("case ", c1, " <- ", g.expr(t, 1), ":\nfmt.Println(\"sent\", len(", c1, "))")}
		kids = append(kids, body()...)
		kids = append(kids, fixed("case ", v, " := <-", c2, ":\nfmt.Println(\"recv\", ", v, ")"))
		return blockN("select,chan", tx("{\n", c1, " := make(chan ", ts, ", 2)\n", c2, " := make(chan ", ts, ", 1)\nselect {"), kids, "}\nfmt.Println(\"after\", <-"+c1+")\n}")
	case 3: // draining loop with break out of the select and a labelled break out of the loop
		l := g.name("L")
		n := 2 + g.rnd(3)
		pre := tx("{\n", c1, " := make(chan ", ts, ", ", n, ")\n")
		for i := 0; i < n; i++ {
			pre.P = append(pre.P, c1, " <- ", g.expr(t, 1), "\n")
		}
		pre.P = append(pre.P, l, ":\nfor {\nselect {")
		kids := []*Node{fixed("case ", v, " := <-", c1, ":\nif len(", c1, ")%2 == 0 {\nbreak\n}\nfmt.Println(\"odd\", ", v, ")")}
		kids = append(kids, fixed("default:\nbreak ", l))
		return blockN("select,chan,label,for", pre, kids, "}\n}\nfmt.Println(\"drained\", len("+c1+"))\n}")
	default: // closed channel and nil channel
		kids := []*Node{fixed("case ", v, ", ok := <-", c1, ":\nfmt.Println(\"closed\", ", v, ", ok)")}
		kids = append(kids, body()...)
		kids = append(kids, fixed("case <-", c2, ":\nfmt.Println(\"nil channel\")"))
		return blockN("select,chan,close", tx("{\n", c1, " := make(chan ", ts, ")\nvar ", c2, " chan ", ts, "\nclose(", c1, ")\nselect {"), kids, "}\n}")
	}
}

func (g *gen) sGoroutine() *Node {
	if g.inGo || g.fnDepth > 0 || g.mult > 4 {
		return nil
	}
	g.spend(40)
	old := g.inGo
	g.inGo = true
	defer func() { g.inGo = old }()
	switch g.rnd(5) {
	case 0: // a result through a channel
		t := g.basicType()
		ch := g.name("ch")
		f := &Fn{T: &Type{K: KFunc}}
		c := g.enterFn(f)
		g.noReturn = true
		kids := g.block(1 + g.rnd(2))
		kids = append(kids, fixed(ch, " <- ", g.expr(t, 2)))
		g.leaveFn(c)
		return blockN("goroutine,chan", tx("{\n", ch, " := make(chan ", g.ts(t), ")\ngo func() {"), kids, "}()\nfmt.Println(\"got\", <-"+ch+")\n}")
	case 1: // worker pool: the sum does not depend on the schedule
		jobs, res, w, j, sum := g.name("jobs"), g.name("res"), g.name("w"), g.name("j"), g.name("sum")
		n, k := 3+g.rnd(5), 2+g.rnd(2)
		t := []*Type{tInt, tInt32, tUint8, tInt64}[g.rnd(4)]
		ts := g.ts(t)
		return leaf("goroutine,chan,close,chan-range", "{\n", jobs, " := make(chan ", ts, ", ", n, ")\n", res, " := make(chan ", ts, ", ", n, ")\nfor ", w, " := 0; ", w, " < ", k, "; ", w, "++ {\ngo func() {\nfor ", j, " := range ", jobs, " {\n", res, " <- ", j, "*", j, " + ", ts, "(", w, ")*0\n}\n}()\n}\n",
			"for ", j, " := 0; ", j, " < ", n, "; ", j, "++ {\n", jobs, " <- ", ts, "(", j, ") + ", g.expr(t, 1), "\n}\nclose(", jobs, ")\nvar ", sum, " ", ts, "\nfor ", j, " := 0; ", j, " < ", n, "; ", j, "++ {\n", sum, " += <-", res, "\n}\nfmt.Println(\"pool\", ", sum, ")\n}")
	case 2: // pipeline: order is preserved by unbuffered channels
		src, sq, x := g.name("src"), g.name("sq"), g.name("x")
		n := 2 + g.rnd(4)
		t := []*Type{tInt, tInt16, tUint32, tFloat64}[g.rnd(4)]
		ts := g.ts(t)
		return leaf("goroutine,chan,close,chan-range", "{\n", src, " := make(chan ", ts, ")\n", sq, " := make(chan ", ts, ")\ngo func() {\nfor ", x, " := 0; ", x, " < ", n, "; ", x, "++ {\n", src, " <- ", ts, "(", x, ") + ", g.expr(t, 1), "\n}\nclose(", src, ")\n}()\n",
			"go func() {\nfor ", x, " := range ", src, " {\n", sq, " <- ", x, " * ", x, "\n}\nclose(", sq, ")\n}()\nfor ", x, " := range ", sq, " {\nfmt.Println(\"pipe\", ", x, ")\n}\n}")
	case 3: // done channel: the write happens before the read
		v := g.placeWhere(func(p place) bool {
			return p.assign && (p.t.isInt() || p.t.isString()) && !strings.ContainsAny(p.e.String(), ".[(")
		})
		if v == nil {
			return nil
		}
		done := g.name("done")
		return leaf("goroutine,chan,closure", "{\n", done, " := make(chan bool)\ngo func() {\n", v.e, " = ", g.expr(v.t, 2), "\n", done, " <- true\n}()\n<-", done, "\nfmt.Println(\"done\", ", v.e, ")\n}")
	default: // several goroutines, results collected by index
		res, i, done := g.name("res"), g.name("i"), g.name("done")
		n := 2 + g.rnd(3)
		t := g.basicType()
		return leaf("goroutine,chan,closure,loopvar", "{\n", res, " := make([]", g.ts(t), ", ", n, ")\n", done, " := make(chan int, ", n, ")\nfor ", i, " := 0; ", i, " < ", n, "; ", i, "++ {\ngo func() {\n",
			res, "[", i, "] = ", g.expr(t, 1), "\n", done, " <- ", i, "\n}()\n}\nfor ", i, " := 0; ", i, " < ", n, "; ", i, "++ {\n<-", done, "\n}\nfmt.Println(\"all\", ", res, ")\n}")
	}
}

// ---- labels and goto ------------------------------------------------------------------

// sLabelNest: labelled break/continue through nested for/range/switch/select.
func (g *gen) sLabelNest() *Node {
	if g.loopDepth >= 1 || g.mult > 16 {
		return nil
	}
	g.spend(40)
	outer, inner := g.name("L"), g.name("L")
	i, j := g.name("i"), g.name("j")
	acc := g.name("acc")
	heads := []string{
		fmt.Sprintf("for %s := 0; %s < 3; %s++ {", i, i, i),
		fmt.Sprintf("for %s := range []int{10, 20, 30} {", i),
		fmt.Sprintf("for %s := range [3]bool{} {", i),
	}
	inners := []string{
		fmt.Sprintf("for %s := 0; %s < 4; %s++ {", j, j, j),
		fmt.Sprintf("for %s := range \"abcd\" {", j),
		fmt.Sprintf("for _, %s := range []int{0, 1, 2, 3} {", j),
	}
	branch := func() string {
		kw := []string{"break", "continue"}[g.rnd(2)]
		switch g.rnd(3) {
		case 0:
			return kw + " " + outer
		case 1:
			return kw + " " + inner
		}
		return kw
	}
	cnd := func() string {
		return fmt.Sprintf("(%s+%s)%%%d == %d", i, j, 2+g.rnd(3), g.rnd(2))
	}
	var mid string
	switch g.rnd(4) {
	case 0: // branch inside a switch inside the inner loop
		mid = fmt.Sprintf("switch {\ncase %s:\n%s\ncase %s:\n%s += 100\n%s\ndefault:\n%s++\n}\n", cnd(), branch(), cnd(), acc, branch(), acc)
	case 1: // inside a select
		mid = fmt.Sprintf("select {\ndefault:\nif %s {\n%s\n}\n%s += 7\n}\n", cnd(), branch(), acc)
	case 2:
		mid = fmt.Sprintf("if %s {\n%s\n}\nif %s {\n%s\n}\n", cnd(), branch(), cnd(), branch())
	default: // a labelled switch
		sw := g.name("S")
		mid = fmt.Sprintf("%s:\nswitch %s {\ncase 1:\nif %s {\nbreak %s\n}\n%s += 3\ncase 2:\n%s\n}\n", sw, j, cnd(), sw, acc, branch())
	}
	src := fmt.Sprintf("{\n%s := 0\n%s:\n%s\n%s:\n%s\n%s%s += %s*10 + %s\nfmt.Println(%q, %s, %s)\n}\n%s -= %s\n}\nfmt.Println(%q, %s)\n}",
		acc, outer, heads[g.rnd(len(heads))], inner, inners[g.rnd(len(inners))], mid, acc, i, j, "in", i, j, acc, i, "acc", acc)
	// the labels must be used: make sure of it
	if !wordInAfterDecl(src, outer) {
		src = strings.Replace(src, acc+" -= "+i+"\n", acc+" -= "+i+"\nif "+acc+" > 1000000 {\nbreak "+outer+"\n}\n", 1)
	}
	if !wordInAfterDecl(src, inner) {
		src = strings.Replace(src, mid, mid+"if "+acc+" > 1000000 {\nbreak "+inner+"\n}\n", 1)
	}
	return leaf("label,for,range,switch", src)
}

// wordInAfterDecl: the label is mentioned besides its declaration.
func wordInAfterDecl(src, l string) bool {
	return strings.Contains(src, "break "+l+"\n") || strings.Contains(src, "continue "+l+"\n")
}

func (g *gen) sGoto() *Node {
	if g.mult > 16 {
		return nil
	}
	g.spend(12)
	l := g.name("G")
	switch g.rnd(2) {
	case 0: // backward: a loop made of goto
		c := g.name("n")
		n := 1 + g.rnd(4)
		old := g.mult
		g.mult *= n
		g.push()
		g.declare(&Var{Name: c, T: tInt, RO: true})
		kids := []*Node{fixed("if ", c, " < ", n, " {\n", c, "++")}
		kids = append(kids, blockN("", tx("{"), g.block(1+g.rnd(2)), "}"))
		kids = append(kids, fixed("goto ", l, "\n}"))
		g.pop()
		g.mult = old
		return blockN("goto", tx("{\n", c, " := 0\n", l, ":"), kids, "fmt.Println(\"goto\", "+c+")\n}")
	default: // forward: skip a block
		kids := []*Node{fixed("if ", g.cond(), " {\ngoto ", l, "\n}")}
		kids = append(kids, blockN("", tx("{"), g.block(1+g.rnd(2)), "}"))
		kids = append(kids, fixed(l, ":\nfmt.Println(\"", l, "\")"))
		return blockN("goto", tx("{"), kids, "}")
	}
}

// ---- interfaces -------------------------------------------------------------------------

func (g *gen) sTypeSwitch() *Node {
	g.spend(4)
	var val *E
	if p := g.placeWhere(func(p place) bool { return p.t.under().K == KAny }); p != nil && g.chance(60) {
		val = p.e
	} else {
		val = g.value(tAny, 2)
	}
	x := g.name("x")
	// distinct case types
	var ts []*Type
	seen := map[string]bool{}
	for i, n := 0, 2+g.rnd(4); i < n; i++ {
		t := g.anyType()
		if i < len(g.anyTypes) && g.chance(60) {
			t = g.anyTypes[g.rnd(len(g.anyTypes))]
		}
		if !seen[g.ts(t)] {
			seen[g.ts(t)] = true
			ts = append(ts, t)
		}
	}
	kids := []*Node{}
	nilAt := g.rnd(len(ts) + 2)
	for i, t := range ts {
		if i == nilAt {
			kids = append(kids, fixed("case nil:\nfmt.Println(\"nil\", ", x, " == nil)"))
		}
		g.noteAny(t)
		kids = append(kids, fixed("case ", g.ts(t), ":\nfmt.Println(\"case ", strings.ReplaceAll(g.ts(t), "\"", ""), "\", ", g.show(x, t), ")"))
		g.push()
		g.declare(&Var{Name: x, T: t, Nil: true})
		kids = append(kids, g.block(g.rnd(2))...)
		g.pop()
	}
	if g.chance(30) && !seen["uint64"] && !seen["float32"] {
		// a clause with two types: x keeps the interface type
		kids = append(kids, fixed("case uint64, float32:\nfmt.Println(\"two\", ", x, " != nil)"))
	}
	kids = append(kids, fixed("default:\n_ = ", x, "\nfmt.Println(\"default\")"))
	return blockN("typeswitch,iface", tx("switch ", x, " := ", val, ".(type) {"), kids, "}")
}

func (g *gen) sAssert() *Node {
	g.spend(3)
	p := g.placeWhere(func(p place) bool { return p.t.under().K == KAny })
	var val *E
	pre := tx()
	a := g.name("a")
	if p != nil && g.chance(60) {
		val = p.e
	} else {
		pre = tx("var ", a, " any = ", g.value(tAny, 2), "\n")
		val = tx(a)
	}
	t := g.anyType()
	if len(g.anyTypes) > 0 && g.chance(70) {
		t = g.anyTypes[g.rnd(len(g.anyTypes))]
	}
	g.noteAny(t)
	x, ok := g.name("x"), g.name("ok")
	pre.P = append(pre.P, x, ", ", ok, " := ", val, ".(", g.ts(t), ")\nfmt.Println(\"assert\", ", g.show(x, t), ", ", ok, ")")
	nd := &Node{Pre: pre, Decl: []string{a, x, ok}, Feat: []string{"assert", "iface"}}
	g.declare(&Var{Name: x, T: t, Nil: true})
	g.declare(&Var{Name: ok, T: tBool})
	return nd
}

func (g *gen) sIfaceMisc() *Node {
	g.spend(4)
	switch g.rnd(4) {
	case 0: // error values
		e1, e2 := g.name("e"), g.name("e")
		nd := leaf("iface,error", e1, " := errors.New(\"boom\")\n", e2, " := fmt.Errorf(\"wrap %d: %w\", ", g.expr(tInt, 1), ", ", e1, ")\nfmt.Println(", e2, ", errors.Is(", e2, ", ", e1, "), errors.Unwrap(", e2, ") == ", e1, ", ", e1, " == nil)")
		nd.Decl = []string{e1, e2}
		g.declare(&Var{Name: e1, T: tError})
		g.declare(&Var{Name: e2, T: tError})
		return nd
	case 1: // Stringer through a native type
		if !g.opts.on("stringer") {
			return nil
		}
		g.useTime = true
		s := g.name("s")
		nd := leaf("iface,stringer", "var ", s, " fmt.Stringer = time.Duration(", g.expr(tInt32, 1), ") * time.Millisecond\nfmt.Println(", s, ".String(), ", s, ")")
		nd.Decl = []string{s}
		g.declare(&Var{Name: s, T: tStringer})
		return nd
	case 2: // interface holding a value: a copy
		p := g.placeWhere(func(p place) bool {
			k := p.t.under().K
			return p.assign && (k == KArray || k == KStruct) && p.t.K != KPtr
		})
		if p == nil {
			return nil
		}
		a := g.name("a")
		g.noteAny(p.t)
		nd := leaf("iface,assert", "var ", a, " any = ", p.e, "\n", p.e, " = ", g.expr(p.t, 1), "\nfmt.Println(\"copy\", ", g.show(tx(a, ".(", g.ts(p.t), ")"), p.t), ", ", g.show(p.e, p.t), ")")
		nd.Decl = []string{a}
		g.declare(&Var{Name: a, T: tAny})
		return nd
	default: // comparison of interface values of comparable dynamic types
		a, b := g.name("a"), g.name("b")
		t := []*Type{tInt, tString, tBool, tFloat64}[g.rnd(4)]
		nd := leaf("iface", "var ", a, ", ", b, " any = ", g.expr(t, 1), ", ", g.expr(t, 1), "\nfmt.Println(\"ifeq\", ", a, " == ", b, ", ", a, " != nil, ", a, " == any(", g.expr(t, 1), "))")
		nd.Decl = []string{a, b}
		g.declare(&Var{Name: a, T: tAny})
		g.declare(&Var{Name: b, T: tAny})
		g.noteAny(t)
		return nd
	}
}

// ---- value semantics, slices, maps, pointers, conversions ---------------------------------

func (g *gen) sValueSem() *Node {
	g.spend(5)
	p := g.placeWhere(func(p place) bool {
		k := p.t.under().K
		return p.assign && (k == KArray || k == KStruct)
	})
	if p == nil {
		return nil
	}
	b := g.name("b")
	sh := func(e any) *E { return g.show(e, p.t) }
	var nd *Node
	switch g.rnd(4) {
	case 0: // assignment copies
		nd = leaf("struct,array", b, " := ", p.e, "\n", p.e, " = ", g.expr(p.t, 2), "\nfmt.Println(\"copy\", ", sh(b), ", ", sh(p.e), ")")
		nd.Decl = []string{b}
		g.declare(&Var{Name: b, T: p.t})
	case 1: // a function receives a copy
		f := g.name("fn")
		nd = leaf("struct,array,closure", f, " := func(x ", g.ts(p.t), ") ", g.ts(p.t), " {\nx = ", g.expr(p.t, 1), "\nreturn x\n}\n", b, " := ", f, "(", p.e, ")\nfmt.Println(\"arg\", ", sh(b), ", ", sh(p.e), ")")
		nd.Decl = []string{b, f}
		g.declare(&Var{Name: b, T: p.t})
	case 2: // channel send copies
		ch := g.name("ch")
		nd = leaf("struct,array,chan", ch, " := make(chan ", g.ts(p.t), ", 1)\n", ch, " <- ", p.e, "\n", p.e, " = ", g.expr(p.t, 2), "\n", b, " := <-", ch, "\nfmt.Println(\"chan\", ", sh(b), ", ", sh(p.e), ")")
		nd.Decl = []string{b, ch}
		g.declare(&Var{Name: b, T: p.t})
	default: // comparison
		if !p.t.comparable() || p.t.hasFloat() {
			return nil
		}
		nd = leaf("struct-cmp", b, " := ", p.e, "\nfmt.Println(\"eq\", ", b, " == ", p.e, ", ", b, " != ", g.expr(p.t, 2), ")")
		nd.Decl = []string{b}
		g.declare(&Var{Name: b, T: p.t})
	}
	return nd
}

func (g *gen) sSliceOps() *Node {
	g.spend(8)
	et := g.randType(1)
	if g.chance(60) {
		et = g.basicType()
	}
	st := &Type{K: KSlice, Elem: et}
	s, t := g.name("s"), g.name("t")
	n := 3 + g.rnd(3)
	lit := tx(g.ts(st), "{")
	for i := 0; i < n; i++ {
		if i > 0 {
			lit.P = append(lit.P, ", ")
		}
		lit.P = append(lit.P, g.expr(et, 1))
	}
	lit.P = append(lit.P, "}")
	sh := func(e any) *E { return g.show(e, st) }
	var nd *Node
	switch g.rnd(6) {
	case 0: // reslice shares, append within capacity overwrites
		lo := g.rnd(2)
		hi := lo + 1 + g.rnd(n-lo-1)
		nd = leaf("slice,reslice,append", s, " := ", lit, "\n", t, " := ", s, "[", lo, ":", hi, "]\n", t, " = append(", t, ", ", g.expr(et, 1), ")\n", t, "[0] = ", g.expr(et, 1),
			"\nfmt.Println(\"reslice\", ", sh(s), ", ", sh(t), ", len(", t, "), cap(", t, "))")
	case 1: // three-index slice: append reallocates
		lo := g.rnd(2)
		hi := lo + 1 + g.rnd(n-lo-1)
		nd = leaf("slice,slice3,append", s, " := ", lit, "\n", t, " := ", s, "[", lo, ":", hi, ":", hi, "]\n", t, " = append(", t, ", ", g.expr(et, 1), ")\n", t, "[0] = ", g.expr(et, 1),
			"\nfmt.Println(\"slice3\", ", sh(s), ", ", sh(t), ", len(", t, "))")
	case 2: // growth by append in a loop
		i := g.name("i")
		nd = leaf("slice,append,for", "var ", s, " ", g.ts(st), "\n", t, " := ", s, "\nfor ", i, " := 0; ", i, " < ", 3+g.rnd(8), "; ", i, "++ {\n", s, " = append(", s, ", ", g.expr(et, 1), ")\nif ", i, " == 1 {\n", t, " = ", s, "\n}\n}\nfmt.Println(\"grow\", ", sh(s), ", ", sh(t), ", len(", s, "), ", t, " == nil)")
	case 3: // copy, overlapping
		nd = leaf("slice,copy", s, " := ", lit, "\n", t, " := make(", g.ts(st), ", ", 1+g.rnd(n), ")\nfmt.Println(\"copy\", copy(", t, ", ", s, "), copy(", s, "[1:], ", s, "), ", sh(s), ", ", sh(t), ")")
	case 4: // append of a slice, of nothing, to nil
		nd = leaf("slice,append,variadic", s, " := ", lit, "\n", t, " := append((", g.ts(st), ")(nil), ", s, "[:2]...)\n", t, " = append(", t, ")\n", t, " = append(", t, ", ", s, "...)\n", s, "[0] = ", g.expr(et, 1), "\nfmt.Println(\"appends\", ", sh(s), ", ", sh(t), ")")
	default: // slice of an array and of a pointer to an array
		at := &Type{K: KArray, N: n, Elem: et}
		a := g.name("a")
		alit := tx(g.ts(at), strings.TrimPrefix(lit.String(), g.ts(st)))
		nd = leaf("slice,array,ptr-array", a, " := ", alit, "\n", s, " := ", a, "[1:]\n", t, " := (&", a, ")[:2]\n", s, "[0] = ", g.expr(et, 1), "\n", t, "[0] = ", g.expr(et, 1), "\nfmt.Println(\"arrslice\", ", g.show(a, at), ", ", sh(s), ", ", sh(t), ")")
		nd.Decl = []string{a, s, t}
		g.declare(&Var{Name: a, T: at})
	}
	if nd.Decl == nil {
		nd.Decl = []string{s, t}
	}
	g.declare(&Var{Name: s, T: st, Nil: true})
	g.declare(&Var{Name: t, T: st, Nil: true})
	return nd
}

func (g *gen) sMapOps() *Node {
	g.spend(6)
	var m *E
	var mt *Type
	pre := tx()
	var decl []string
	if p := g.placeWhere(func(p place) bool {
		return p.t.under().K == KMap && !strings.ContainsAny(p.e.String(), ".[(") && !p.nilv
	}); p != nil && g.chance(60) {
		m, mt = p.e, p.t
	} else {
		mt = &Type{K: KMap, Key: g.keyType(1), Elem: g.randType(1)}
		name := g.name("m")
		pre = tx(name, " := ", g.value(mt, 2), "\n")
		m = tx(name)
		decl = []string{name}
		g.declare(&Var{Name: name, T: mt})
	}
	u := mt.under()
	key := func() *E {
		if g.chance(50) {
			if k := g.keyLit(u.Key, g.rnd(3)); k != "" {
				return tx(k)
			}
		}
		return g.expr(u.Key, 1)
	}
	feat := "map"
	feat += "," + strings.Join(typeFeats(mt), ",")
	switch ek := u.Elem.under().K; {
	case g.chance(25):
		pre.P = append(pre.P, m, "[", key(), "] = ", g.expr(u.Elem, 2))
	case ek == KInt && g.chance(60):
		feat += ",opassign"
		pre.P = append(pre.P, m, "[", key(), "] ", []string{"+=", "-=", "*=", "|=", "^="}[g.rnd(5)], " ", g.expr(u.Elem, 1), "\n", m, "[", key(), "]++")
	case ek == KString && g.chance(60):
		feat += ",opassign"
		pre.P = append(pre.P, m, "[", key(), "] += ", g.constE(u.Elem))
	case ek == KSlice && g.chance(60):
		feat += ",append"
		pre.P = append(pre.P, m, "[", key(), "] = append(", m, "[", key(), "], ", g.expr(u.Elem.under().Elem, 1), ")")
	case ek == KStruct && g.chance(60):
		tmp := g.name("tmp")
		f := u.Elem.under().Fields[0]
		name := f.Name
		if f.Embedded {
			name = f.T.Name
		}
		k := key()
		pre.P = append(pre.P, tmp, " := ", m, "[", k, "]\n", tmp, ".", name, " = ", g.expr(f.T, 1), "\n", m, "[", k, "] = ", tmp)
		decl = append(decl, tmp)
	case g.chance(30):
		pre.P = append(pre.P, "delete(", m, ", ", key(), ")")
	default:
		x, ok := g.name("x"), g.name("ok")
		pre.P = append(pre.P, x, ", ", ok, " := ", m, "[", key(), "]\nfmt.Println(\"lookup\", ", g.show(x, u.Elem), ", ", ok, ")")
		decl = append(decl, x, ok)
	}
	pre.P = append(pre.P, "\nfmt.Println(\"map\", len(", m, "), ", g.show(m, mt), ")")
	return &Node{Pre: pre, Decl: decl, Feat: strings.Split(feat, ",")}
}

func (g *gen) sPtrOps() *Node {
	g.spend(6)
	switch g.rnd(6) {
	case 0, 1: // pointer to a place: the variable escapes
		v := g.placeWhere(func(p place) bool { return p.addr && !invariantKind(p.t) })
		if v == nil {
			return nil
		}
		p := g.name("p")
		feat := "ptr"
		s := v.e.String()
		if strings.Contains(s, "[") {
			feat += ",ptr-elem"
		} else if strings.Contains(s, ".") {
			feat += ",ptr-field"
		}
		pt := &Type{K: KPtr, Elem: v.t}
		nd := leaf(feat, p, " := &", v.e, "\n*", p, " = ", g.expr(v.t, 2), "\nfmt.Println(\"ptr\", ", g.show(tx("*", p), v.t), ", ", g.show(v.e, v.t), ")")
		if v.t.isInt() && g.chance(60) {
			nd = leaf(feat+",opassign,incdec", p, " := &", v.e, "\n*", p, " ", []string{"+=", "-=", "*=", "^="}[g.rnd(4)], " ", g.expr(v.t, 1), "\n*", p, "++\n(*", p, ")--\nfmt.Println(\"ptrop\", *", p, ", ", v.e, ")")
		}
		nd.Decl = []string{p}
		g.declare(&Var{Name: p, T: pt})
		return nd
	case 2: // pointer to pointer
		v := g.placeWhere(func(p place) bool { return p.addr && (p.t.isInt() || p.t.isString()) })
		if v == nil {
			return nil
		}
		p, pp := g.name("p"), g.name("pp")
		nd := leaf("ptr,ptr-ptr", p, " := &", v.e, "\n", pp, " := &", p, "\n**", pp, " = ", g.expr(v.t, 1), "\nfmt.Println(\"pp\", **", pp, ", *", p, ", ", v.e, ", *", pp, " == ", p, ")")
		nd.Decl = []string{p, pp}
		g.declare(&Var{Name: p, T: &Type{K: KPtr, Elem: v.t}})
		return nd
	case 3: // pointer to array: p[i], (*p)[i], range, len
		a := g.placeWhere(func(p place) bool { return p.addr && p.t.under().K == KArray })
		if a == nil {
			return nil
		}
		u := a.t.under()
		p, i, x := g.name("p"), g.name("i"), g.name("x")
		nd := leaf("ptr,ptr-array,array,range-ptr-array", p, " := &", a.e, "\n", p, "[", g.rnd(u.N), "] = ", g.expr(u.Elem, 1), "\n(*", p, ")[", g.rnd(u.N), "] = ", g.expr(u.Elem, 1),
			"\nfor ", i, ", ", x, " := range ", p, " {\nfmt.Println(\"pa\", ", i, ", ", g.show(x, u.Elem), ", len(", p, "))\n}\nfmt.Println(", g.show(a.e, a.t), ")")
		nd.Decl = []string{p}
		g.declare(&Var{Name: p, T: &Type{K: KPtr, Elem: a.t}})
		return nd
	case 4: // new and a struct through a pointer
		var st *Type
		for _, t := range g.named {
			if t.under().K == KStruct {
				st = t
			}
		}
		if st == nil {
			return nil
		}
		p, q := g.name("p"), g.name("q")
		f := st.under().Fields[g.rnd(len(st.under().Fields))]
		name := f.Name
		if f.Embedded {
			name = f.T.Name
		}
		nd := leaf("ptr,struct,ptr-field", p, " := new(", g.ts(st), ")\n", q, " := ", p, "\n", q, ".", name, " = ", g.expr(f.T, 2), "\n(*", p, ") = ", g.expr(st, 1), "\n", p, ".", name, " = ", g.expr(f.T, 1), "\nfmt.Println(\"pstruct\", ", g.show(tx("*", q), st), ", ", p, " == ", q, ")")
		nd.Decl = []string{p, q}
		g.declare(&Var{Name: p, T: &Type{K: KPtr, Elem: st}})
		return nd
	default: // pointers in a slice to the same and to different variables
		v := g.placeWhere(func(p place) bool { return p.addr && p.t.isInt() })
		if v == nil {
			return nil
		}
		ps, w := g.name("ps"), g.name("w")
		nd := leaf("ptr,slice", w, " := ", g.expr(v.t, 1), "\n", ps, " := []*", g.ts(v.t), "{&", v.e, ", &", w, ", &", v.e, "}\n*", ps, "[0] += 1\n*", ps, "[1] += 2\n*", ps, "[2] += 4\nfmt.Println(\"ptrs\", ", v.e, ", ", w, ", ", ps, "[0] == ", ps, "[2], ", ps, "[0] == ", ps, "[1])")
		nd.Decl = []string{ps, w}
		g.declare(&Var{Name: w, T: v.t})
		return nd
	}
}

func (g *gen) sConvOps() *Node {
	g.spend(5)
	switch g.rnd(5) {
	case 0: // string <-> []byte
		b := g.name("b")
		nd := leaf("conv,conv-string,slice", b, " := []byte(", g.expr(tString, 2), ")\n", b, " = append(", b, ", 'x', 0xe4)\n", b, "[0] = ", g.expr(tUint8, 1), "\nfmt.Println(\"bytes\", len(", b, "), ", b, ", string(", b, "), string(", b, "[1:]))")
		nd.Decl = []string{b}
		g.declare(&Var{Name: b, T: &Type{K: KSlice, Elem: tUint8}, Nil: true})
		return nd
	case 1: // string <-> []rune
		r := g.name("r")
		nd := leaf("conv,conv-string,rune,slice", r, " := []rune(", g.expr(tString, 2), ")\n", r, " = append(", r, ", 'é', ", g.expr(tInt32, 1), ")\nfmt.Println(\"runes\", len(", r, "), ", r, ", string(", r, "), string(", r, "[len(", r, ")-1]))")
		nd.Decl = []string{r}
		g.declare(&Var{Name: r, T: &Type{K: KSlice, Elem: tInt32}, Nil: true})
		return nd
	case 2: // numeric conversions in a chain
		a, b := intTypes[g.rnd(len(intTypes))], intTypes[g.rnd(len(intTypes))]
		x := g.name("x")
		nd := leaf("conv,int,float", x, " := ", g.nonConst(a, 2), "\nfmt.Println(\"conv\", ", x, ", ", g.ts(b), "(", x, "), float32(", x, "), float64(", x, "), ", g.ts(a), "(", g.ts(b), "(", x, ")), string(rune(", x, ")))")
		nd.Decl = []string{x}
		g.declare(&Var{Name: x, T: a})
		return nd
	case 3: // float to integer of a bounded value
		if !g.opts.on("float") {
			return nil
		}
		f := g.name("f")
		nd := leaf("conv,float", f, " := ", g.expr(tFloat64, 2), "\nif ", f, " > -1e6 && ", f, " < 1e6 {\nfmt.Println(\"f2i\", int(", f, "), int8(int(", f, ")), uint16(int64(", f, ")&0xffff), float32(", f, "), int64(float32(", f, ")))\n}")
		nd.Decl = []string{f}
		g.declare(&Var{Name: f, T: tFloat64})
		return nd
	default: // strings: index, slice, range with invalid bytes, comparison
		s, i, r := g.name("s"), g.name("i"), g.name("r")
		nd := leaf("string,range-string,range,rune", s, " := ", g.expr(tString, 2), " + \"é\\xffz\"\nfor ", i, ", ", r, " := range ", s, " {\nfmt.Println(\"rune\", ", i, ", ", r, ", string(", r, "), ", s, "[", i, "])\n}\nfmt.Println(len(", s, "), ", s, "[1:], ", s, " < \"m\", ", s, "[len(", s, ")-1], utf8.RuneCountInString(", s, "))")
		nd.Decl = []string{s}
		g.declare(&Var{Name: s, T: tString})
		return nd
	}
}

func (g *gen) sShadow() *Node {
	g.spend(4)
	p := g.placeWhere(func(p place) bool {
		return !strings.ContainsAny(p.e.String(), ".[(") && (p.t.isInt() || p.t.isString())
	})
	if p == nil {
		return nil
	}
	v := p.e.String()
	one := g.lit(p.t, true)
	switch g.rnd(3) {
	case 0:
		kids := []*Node{fixed(v, " := ", v, " + ", one, "\n_ = ", v)}
		g.push()
		kids = append(kids, g.stmts(1+g.rnd(2))...)
		g.pop()
		kids = append(kids, fixed("fmt.Println(\"inner\", ", v, ")"))
		return blockN("shadow", tx("{"), kids, "}\nfmt.Println(\"outer\", "+v+")")
	case 1:
		return leaf("shadow,if", "if ", v, " := ", v, " + ", one, "; ", v, " != ", one, " {\nfmt.Println(\"if\", ", v, ")\n", v, " = ", one, "\n}\nfmt.Println(\"outer\", ", v, ")")
	default:
		return leaf("shadow,closure", "func(", v, " ", g.ts(p.t), ") {\n", v, " += ", one, "\nfmt.Println(\"param\", ", v, ")\n}(", v, " + ", one, ")\nfmt.Println(\"outer\", ", v, ")")
	}
}

func (g *gen) sStructOps() *Node {
	g.spend(4)
	switch g.rnd(2) {
	case 0: // anonymous struct
		a := g.name("s")
		t1, t2 := g.basicType(), g.randType(1)
		st := &Type{K: KStruct, Fields: []Field{{Name: g.name("A"), T: t1}, {Name: g.name("b"), T: t2}}}
		nd := g.declNode(a, st, g.value(st, 2), 0)
		nd.Feat = []string{"struct", "anon-struct"}
		g.declare(&Var{Name: a, T: st})
		return nd
	default: // a struct as map key
		var st *Type
		for _, t := range g.named {
			if t.under().K == KStruct && t.comparable() && !t.hasFloat() {
				st = t
			}
		}
		if st == nil {
			return nil
		}
		m, k := g.name("m"), g.name("k")
		nd := leaf("map,struct-key,struct", m, " := map[", g.ts(st), "]int{}\n", k, " := ", g.expr(st, 2), "\n", m, "[", k, "] += 2\n", m, "[", g.expr(st, 1), "]++\n", m, "[", k, "] *= 5\nfmt.Println(\"skey\", len(", m, "), ", m, "[", k, "])")
		nd.Decl = []string{m, k}
		g.declare(&Var{Name: k, T: st})
		return nd
	}
}
