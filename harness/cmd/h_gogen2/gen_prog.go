package main

import (
	"fmt"
	"math/rand"
	"strings"
)

type stmtKind struct {
	w    int
	pure bool // allowed in pure functions
	f    func(g *gen) *Node
}

var stmtKinds []stmtKind

func init() {
	stmtKinds = []stmtKind{
		{14, true, (*gen).sDecl},
		{14, false, (*gen).sAssign},
		{10, false, (*gen).sPrint},
		{8, true, (*gen).sIf},
		{6, true, (*gen).sFor},
		{6, true, (*gen).sRange},
		{5, true, (*gen).sSwitch},
		{4, true, (*gen).sBranch},
		{3, true, (*gen).sReturn},
		{6, false, (*gen).sCall},
		{3, false, (*gen).sCallFuncValue},
		{5, false, (*gen).sClosure},
		{4, false, (*gen).sTuple},
		{4, false, (*gen).sProtected},
		{3, false, (*gen).sPanicky},
		{3, false, (*gen).sDefer},
		{3, false, (*gen).sSelect},
		{3, false, (*gen).sGoroutine},
		{3, false, (*gen).sLabelNest},
		{2, false, (*gen).sGoto},
		{3, false, (*gen).sTypeSwitch},
		{3, false, (*gen).sAssert},
		{3, false, (*gen).sIfaceMisc},
		{4, false, (*gen).sValueSem},
		{4, false, (*gen).sSliceOps},
		{4, false, (*gen).sMapOps},
		{5, false, (*gen).sPtrOps},
		{3, false, (*gen).sConvOps},
		{2, false, (*gen).sShadow},
		{2, false, (*gen).sStructOps},
	}
}

func (g *gen) stmt() *Node {
	total := 0
	for _, k := range stmtKinds {
		if !g.pure || k.pure {
			total += k.w
		}
	}
	for try := 0; try < 6; try++ {
		x := g.rnd(total)
		for _, k := range stmtKinds {
			if g.pure && !k.pure {
				continue
			}
			if x < k.w {
				if g.depth >= 3 && try < 5 {
					// deep inside: prefer simple statements
				}
				if n := k.f(g); n != nil {
					return n
				}
				break
			}
			x -= k.w
		}
	}
	if g.pure {
		return g.sDecl()
	}
	if n := g.sPrint(); n != nil {
		return n
	}
	return g.sDecl()
}

func (g *gen) stmts(n int) []*Node {
	var ns []*Node
	for i := 0; i < n; i++ {
		if g.budget <= 0 && i > 0 {
			break
		}
		g.budget--
		if g.pure {
			ns = append(ns, g.pureStmt())
			continue
		}
		ns = append(ns, g.stmt())
	}
	return ns
}

// pureStmt: statements of a pure function: only its own plain variables are written.
func (g *gen) pureStmt() *Node {
	if g.chance(35) {
		var sel []*Var
		for i := g.pureBase; i < len(g.scopes); i++ {
			for _, v := range g.scopes[i] {
				if !v.RO && (v.T.isInt() || v.T.isString() || v.T.isFloat() || v.T.isBool()) {
					sel = append(sel, v)
				}
			}
		}
		if len(sel) > 0 {
			v := sel[g.rnd(len(sel))]
			g.spend(1)
			if v.T.isInt() && g.chance(50) {
				return leaf("opassign", v.Name, " ", []string{"+=", "-=", "*=", "^="}[g.rnd(4)], " ", g.expr(v.T, 2))
			}
			return leaf("", v.Name, " = ", g.expr(v.T, 2))
		}
	}
	return g.stmt()
}

// ---- top-level declarations -----------------------------------------------------------

func (g *gen) addNode(n *Node) { g.pkg.Nodes = append(g.pkg.Nodes, n) }

func (g *gen) genTypes(n int) {
	for i := 0; i < n; i++ {
		name := g.name("T")
		var u *Type
		switch g.rnd(8) {
		case 0, 1, 2:
			u = g.structType(1)
			// nested and embedded structs
			for _, t := range g.named {
				if t.under().K == KStruct && t.Pkg == g.cur && g.chance(50) {
					if g.chance(50) {
						u.Fields = append(u.Fields, Field{Name: t.Name, T: t, Embedded: true})
					} else {
						u.Fields = append(u.Fields, Field{Name: g.name("f"), T: t})
					}
					break
				}
			}
		case 3:
			u = intTypes[g.rnd(len(intTypes))]
		case 4:
			u = []*Type{tString, tFloat64, tBool, tInt}[g.rnd(4)]
		case 5:
			u = &Type{K: KSlice, Elem: g.basicType()}
		case 6:
			u = &Type{K: KArray, N: 2 + g.rnd(3), Elem: g.basicType()}
		default:
			u = &Type{K: KMap, Key: tString, Elem: g.basicType()}
		}
		t := &Type{K: KNamed, Name: name, Pkg: g.cur, Under: u}
		g.addNode(&Node{Pre: tx("type ", name, " ", g.ts(u)), Decl: []string{name}, Feat: typeFeats(t)})
		g.named = append(g.named, t)
	}
}

func (g *gen) genConsts() {
	if g.chance(30) {
		return
	}
	// an iota block, typed or not
	a, b, c := g.name("c"), g.name("c"), g.name("c")
	t := tInt
	tn := ""
	if g.chance(40) {
		for _, nt := range g.named {
			if nt.isInt() && nt.Pkg == g.cur && nt.bits() >= 16 {
				t, tn = nt, " "+g.ts(nt)
			}
		}
	}
	form := []string{"iota", "iota*3 + 1", "1 << iota", "iota + 10"}[g.rnd(4)]
	g.addNode(&Node{Pre: tx("const (\n", a, tn, " = ", form, "\n", b, "\n_\n", c, "\n)"), Decl: []string{a, b, c}, Feat: []string{"const", "iota"}})
	for _, n := range []string{a, b, c} {
		g.consts = append(g.consts, &Var{Name: g.qual(n), T: t})
	}
	if g.chance(60) {
		s, f, x := g.name("c"), g.name("c"), g.name("c")
		g.addNode(&Node{Pre: tx("const ", s, " = \"k\" + \"é\"\nconst ", f, " = 1.0 / 4\nconst ", x, " int16 = int16(", c, ")%7 + 300"), Decl: []string{s, f, x}, Feat: []string{"const"}})
		g.consts = append(g.consts, &Var{Name: g.qual(s), T: tString}, &Var{Name: g.qual(f), T: tFloat64})
		g.consts = append(g.consts, &Var{Name: g.qual(x), T: tInt16})
	}
}

// qual: the name as the main package will see it (libraries are generated first).
func (g *gen) qual(n string) string { return n }

type global struct {
	v    *Var
	rank int
	node *Node
}

// genGlobals: package-level variables whose initialisers print and refer to each other against the source order.
func (g *gen) genGlobals(n int) {
	if n == 0 {
		return
	}
	iv := g.name("initv")
	g.addNode(&Node{Pre: tx("func ", iv, "(tag string, v int) int {\nfmt.Println(\"init\", tag, v)\nreturn v\n}"), Decl: []string{iv}})
	gs := make([]*global, n)
	perm := g.r.Perm(n)
	for i := range gs {
		t := g.basicType()
		if g.chance(40) {
			t = g.randType(1)
		}
		if invariantKind(t) && t.under().K != KMap {
			t = tInt
		}
		gs[i] = &global{v: &Var{Name: g.name("g"), T: t}, rank: perm[i]}
	}
	for i, gl := range gs {
		// only the globals of lower rank may be mentioned
		var vis []*Var
		for _, o := range gs {
			if o.rank < gl.rank {
				vis = append(vis, o.v)
			}
		}
		g.scopes = [][]*Var{vis}
		t := gl.v.T
		var init *E
		feat := "initorder"
		switch {
		case t == tInt && g.chance(70):
			init = tx(iv, "(\"", gl.v.Name, "\", ", g.expr(tInt, 2), ")")
		case g.chance(25) && (t.isInt() || t.isString()):
			// through a function: the dependency is found in its body
			h := g.name("h")
			g.addNode(&Node{Pre: tx("func ", h, "() ", g.ts(t), " {\nreturn ", g.expr(t, 2), "\n}"), Decl: []string{h}, Feat: []string{"initorder"}})
			init = tx(h, "()")
		default:
			init = g.expr(t, 2)
		}
		gl.node = &Node{Pre: tx("var ", gl.v.Name, " ", g.ts(t), " = ", init), Decl: []string{gl.v.Name}, Feat: append(typeFeats(t), feat)}
		if g.chance(15) && i > 0 {
			gl.node.Pre = tx("var ", gl.v.Name, " = ", init)
		}
	}
	g.scopes = [][]*Var{nil}
	for _, gl := range gs {
		g.addNode(gl.node)
		g.declare(gl.v)
	}
}

func (g *gen) genInit() {
	g.push()
	c := g.enterFn(&Fn{T: &Type{K: KFunc}})
	g.fnBase--
	g.fnDepth = 0
	old := g.budget
	g.budget = 3
	kids := g.stmts(1 + g.rnd(2))
	g.budget = old
	kids = append(kids, g.dump("init "+g.cur, 0))
	g.leaveFn(c)
	g.fnDepth = 0
	g.pop()
	g.addNode(blockN("init", tx("func init() {"), kids, "}"))
}

// genFunc generates a top-level function and registers it.
func (g *gen) genFunc(pure bool) {
	ft := &Type{K: KFunc}
	np := g.rnd(4)
	for i := 0; i < np; i++ {
		ft.Params = append(ft.Params, g.simpleType())
	}
	nr := g.rnd(3)
	if pure {
		nr = 1
	}
	for i := 0; i < nr; i++ {
		if pure {
			ft.Results = append(ft.Results, g.basicType())
		} else {
			ft.Results = append(ft.Results, g.simpleType())
		}
	}
	if pure {
		// parameters of pure functions are values without references
		for i := range ft.Params {
			ft.Params[i] = g.basicType()
		}
	} else if g.chance(25) {
		ft.Variadic = true
		ft.Params = append(ft.Params, &Type{K: KSlice, Elem: g.basicType()})
	}
	f := &Fn{Name: g.name("f"), T: ft, Pure: pure}
	c := g.enterFn(f)
	g.fnDepth = 0
	oldCost, oldMult := g.cost, g.mult
	g.cost, g.mult = 0, 1
	g.push()
	g.pureBase = len(g.scopes) - 1
	g.pure = pure
	protected := !pure && g.chance(30)
	named := nr > 0 && (g.chance(35) || protected && g.chance(70))
	sig := g.signature(f, named)
	var kids []*Node
	feat := "call"
	if protected {
		g.canPanic = true
		feat += ",recover,defer,panic"
		r := g.name("r")
		pre := tx("defer func() {\nif ", r, " := recover(); ", r, " != nil {\nfmt.Println(\"", f.Name, " recovered\", ", r, ")\n")
		for i, n := range f.Named {
			if t := ft.Results[i]; t.isInt() || t.isString() || t.isBool() || t.isFloat() {
				pre.P = append(pre.P, n, " = ", g.expr(t, 1), "\n")
				feat += ",named-result"
			}
		}
		pre.P = append(pre.P, "}\n}()")
		kids = append(kids, &Node{Pre: pre, Feat: []string{"defer", "recover"}})
	} else if !pure && g.chance(20) {
		g.canPanic = true
		f.Panics = true
	}
	n := 2 + g.rnd(5)
	if pure {
		n = 1 + g.rnd(3)
	}
	oldBudget := g.budget
	g.budget = n + 4
	if pure {
		g.budget = n + 1
	}
	kids = append(kids, g.stmts(n)...)
	g.budget = oldBudget - 1
	if !pure && g.chance(50) {
		kids = append(kids, g.dump(f.Name, len(g.scopes)-1))
	}
	kids = append(kids, g.returnNode())
	g.pop()
	g.pure = false
	f.Cost = g.cost + 2
	g.cost, g.mult = oldCost, oldMult
	g.leaveFn(c)
	g.fnDepth = 0
	nd := blockN(feat, tx("func ", f.Name, sig, " {"), kids, "}")
	nd.Decl = []string{f.Name}
	g.addNode(nd)
	g.fns = append(g.fns, f)
}

// genRecursive: bounded recursion with a depth argument.
func (g *gen) genRecursive() {
	t := []*Type{tInt, tString, tUint8, tInt64, tFloat64}[g.rnd(5)]
	f := &Fn{Name: g.name("rec"), T: &Type{K: KFunc, Params: []*Type{tInt, t}, Results: []*Type{t}}}
	d, acc := g.name("d"), g.name("acc")
	g.push()
	g.declare(&Var{Name: d, T: tInt, RO: true})
	g.declare(&Var{Name: acc, T: t})
	c := g.enterFn(f)
	g.fnBase--
	g.fnDepth = 0
	g.pure = true
	g.pureBase = len(g.scopes) - 1
	oldCost, oldMult := g.cost, g.mult
	g.cost, g.mult = 0, 1
	kids := []*Node{fixed("if ", d, " <= 0 {\nreturn ", acc, "\n}")}
	oldBudget := g.budget
	g.budget = 3
	kids = append(kids, g.stmts(1+g.rnd(2))...)
	g.budget = oldBudget
	step := g.expr(t, 1)
	if g.chance(50) {
		kids = append(kids, fixed("return ", f.Name, "(", d, "-1, ", acc, " + ", step, ")"))
	} else {
		// not a tail call: work after the recursive call returns
		kids = append(kids, fixed(acc, " = ", f.Name, "(", d, "-1, ", acc, ") + ", step, "\nreturn ", acc))
	}
	f.Cost = (g.cost + 3) * 7
	g.cost, g.mult = oldCost, oldMult
	g.pure = false
	g.leaveFn(c)
	g.fnDepth = 0
	g.pop()
	nd := blockN("recursion,call", tx("func ", f.Name, "(", d, " int, ", acc, " ", g.ts(t), ") ", g.ts(t), " {"), kids, "}")
	nd.Decl = []string{f.Name}
	g.addNode(nd)
	// callers pass a small constant depth: wrap it
	w := &Fn{Name: g.name("f"), T: &Type{K: KFunc, Params: []*Type{t}, Results: []*Type{t}}, Pure: true, Cost: f.Cost + 1}
	x := g.name("a")
	wn := leaf("recursion,call", "func ", w.Name, "(", x, " ", g.ts(t), ") ", g.ts(t), " {\nreturn ", f.Name, "(", 1+g.rnd(5), ", ", x, ")\n}")
	wn.Decl = []string{w.Name}
	g.addNode(wn)
	g.fns = append(g.fns, w)
}

func (g *gen) startPkg(path, name string, upper bool) {
	g.pkg = &Pkg{Path: path, Name: name}
	g.cur = path
	g.upper = upper
	g.prog.Pkgs = append(g.prog.Pkgs, g.pkg)
	g.scopes = [][]*Var{nil}
	g.showFns = map[string]string{}
	g.helpers = nil
	g.anyShow = ""
	g.needF2I = false
	g.useTime = false
}

func (g *gen) finishPkg(imports []string) {
	for i := 0; i < len(g.helpers); i++ {
		g.addNode(g.helpers[i])
	}
	if g.anyShow != "" {
		n := len(g.helpers)
		g.addNode(g.anyShowNode())
		for i := n; i < len(g.helpers); i++ {
			g.addNode(g.helpers[i])
		}
	}
	if g.needF2I {
		g.addNode(&Node{Pre: tx("func f2i(f float64) int {\nif f != f || f > 1e9 || f < -1e9 {\nreturn 0\n}\nreturn int(f)\n}"), Decl: []string{"f2i"}})
	}
	std := []string{`"errors"`, `"fmt"`, `"sort"`, `"strconv"`, `"strings"`, `"time"`, `"unicode/utf8"`}
	g.pkg.Imports = append(append([]string{}, std...), imports...)
	guard := &Node{Fixed: true, Pre: tx("var _ = errors.New\nvar _ = fmt.Sprint\nvar _ = sort.Ints\nvar _ = strconv.Itoa\nvar _ = strings.ToUpper\nvar _ time.Duration\nvar _ = utf8.RuneLen")}
	g.pkg.Nodes = append([]*Node{guard}, g.pkg.Nodes...)
}

// genLib generates a library package; its exported names are registered for the packages generated later.
func (g *gen) genLib(path string, deps []string, depVars []*Var) (vars []*Var) {
	g.startPkg(path, pkgIdent(path), true)
	g.imported = deps
	nfBefore := len(g.fns)
	g.genTypes(1 + g.rnd(2))
	nConst := len(g.consts)
	g.genConsts()
	g.genFunc(true)
	g.genGlobals(1 + g.rnd(3))
	vars = append(vars, g.scopes[0]...)
	g.scopes[0] = append(g.scopes[0], depVars...)
	for i, n := 0, 1+g.rnd(2); i < n; i++ {
		g.genFunc(false)
	}
	g.genInit()
	var imps []string
	for _, d := range deps {
		imps = append(imps, `"`+modToken+"/"+d+`"`)
	}
	for _, d := range deps {
		for _, v := range depVars {
			if strings.HasPrefix(v.Name, pkgIdent(d)+".") {
				g.addNode(&Node{Fixed: true, Pre: tx("var _ = ", v.Name)})
				break
			}
		}
	}
	g.finishPkg(imps)
	// the names as other packages see them
	q := pkgIdent(path) + "."
	for _, f := range g.fns[nfBefore:] {
		f.Name = q + f.Name
		f.Panics = false
		g.symPkg[f.Name] = path
	}
	for _, v := range vars {
		v.Name = q + v.Name
		g.symPkg[v.Name] = path
	}
	for _, c := range g.consts[nConst:] {
		c.Name = q + c.Name
	}
	return vars
}

func genProgram(seed int64, size int, opts Opts) *Prog {
	g := &gen{r: rand.New(rand.NewSource(seed)), opts: opts, budget: size, mult: 1, dot: map[string]bool{}, symPkg: map[string]string{}}
	g.prog = &Prog{Seed: seed, Size: size, opts: opts}
	var libVars []*Var
	var imports []string
	multi := opts.on("multipkg") && g.chance(25) && size >= 8
	if multi {
		v1 := g.genLib("lib/a", nil, nil)
		libVars = append(libVars, v1...)
		imports = append(imports, `"`+modToken+`/lib/a"`)
		deps := []string{"lib/a"}
		if g.chance(60) {
			// b imports a
			v2 := g.genLib("b", []string{"lib/a"}, v1)
			libVars = append(libVars, v2...)
			imports = append(imports, `"`+modToken+`/b"`)
			deps = append(deps, "b")
		}
		if g.chance(40) {
			// a package imported for its initialisation only
			nf, nc, nn := len(g.fns), len(g.consts), len(g.named)
			g.genLib("zinit", deps, libVars)
			g.fns, g.consts, g.named = g.fns[:nf], g.consts[:nc], g.named[:nn]
			imports = append(imports, `_ "`+modToken+`/zinit"`)
		}
		// when the dot import is on, one library is imported with a dot
		if opts.on("dotimport") && g.chance(35) {
			i := g.rnd(len(imports))
			if !strings.HasPrefix(imports[i], "_") {
				path := strings.Trim(strings.TrimPrefix(imports[i], `"`+modToken+"/"), `"`)
				imports[i] = ". " + imports[i]
				g.dot[path] = true
				q := pkgIdent(path) + "."
				for _, v := range libVars {
					v.Name = strings.TrimPrefix(v.Name, q)
				}
				for _, f := range g.fns {
					f.Name = strings.TrimPrefix(f.Name, q)
				}
				for _, c := range g.consts {
					c.Name = strings.TrimPrefix(c.Name, q)
				}
			}
		}
	}
	g.startPkg("", "main", false)
	g.imported = nil
	for _, im := range imports {
		if !strings.HasPrefix(im, "_") {
			g.imported = append(g.imported, strings.Trim(strings.TrimPrefix(strings.TrimPrefix(im, ". "), `"`+modToken+"/"), `"`))
		}
	}
	if multi {
		nd := &Node{Fixed: true, Pre: tx("// program of several packages"), Feat: []string{"multipkg"}}
		if len(g.dot) > 0 {
			nd.Feat = append(nd.Feat, "dotimport")
		}
		g.addNode(nd)
		// keep every imported library used
		if len(libVars) > 0 {
			g.addNode(&Node{Fixed: true, Pre: tx("var _ = ", libVars[0].Name)})
		}
		if len(imports) > 1 && !strings.HasPrefix(imports[1], "_") {
			g.addNode(&Node{Fixed: true, Pre: tx("var _ = ", libVars[len(libVars)-1].Name)})
		}
	}
	g.genTypes(1 + g.rnd(4))
	g.genConsts()
	for i, n := 0, g.rnd(3); i < n; i++ {
		g.genFunc(true)
	}
	if g.chance(40) {
		g.genRecursive()
	}
	if opts.on("initorder") {
		g.genGlobals(g.rnd(5))
	}
	for _, v := range libVars {
		g.scopes[0] = append(g.scopes[0], v)
	}
	if g.chance(40) {
		g.genInit()
	}
	nf := g.rnd(4)
	if size < 10 {
		nf = g.rnd(2)
	}
	for i := 0; i < nf; i++ {
		g.genFunc(false)
		if g.chance(15) {
			g.genInit()
		}
	}
	// main
	g.push()
	f := &Fn{Name: "main", T: &Type{K: KFunc}}
	c := g.enterFn(f)
	g.fnBase--
	g.fnDepth = 0
	g.cost, g.mult = 0, 1
	var kids []*Node
	for g.budget > 0 {
		kids = append(kids, g.stmts(1)...)
		if g.cost > costLimit {
			break
		}
	}
	kids = append(kids, g.dump("end", len(g.scopes)-1))
	if opts.on("final-panic") && g.chance(4) {
		kids = append(kids, leaf("panic", "panic(", g.expr([]*Type{tString, tInt, tError}[g.rnd(3)], 1), ")"))
	}
	g.leaveFn(c)
	g.pop()
	main := blockN("", tx("func main() {"), kids, "}")
	main.Fixed = true
	g.addNode(main)
	g.finishPkg(imports)
	return g.prog
}

var _ = fmt.Sprint
