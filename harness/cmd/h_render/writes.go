package main

// C13, the show functions that issue several Write calls for one value
// (escapeBytes with the base64 encoder, the string escapers that write run by
// run, showInJS / showInJSON of composite values, showInCSS of a string):
//
//	C13-writes-cases  renderer.Show through the hook with a writer failing at
//	                  its k-th call, for EVERY k from 0 (never) to the number
//	                  of calls of the successful run plus one, with and without
//	                  a WriteString method: number of calls made, chunks
//	                  accepted, result, for the model driver (WriteProgM)
//	C13-writes-sweep  real templates showing those values, every k: exactly k
//	                  calls, the writer's error, the first k-1 chunks

import (
	"errors"
	"fmt"
	"io"
	"reflect"
	"sort"
	"strconv"
	"strings"
	"time"

	. "verif/harness/hlib"

	"github.com/open2b/scriggo"
	"github.com/open2b/scriggo/native"
	"github.com/open2b/scriggo/verifhook"
)

// ---- values

type wval struct {
	name string
	v    any
	ctxs []int // contexts (ast.Context) in which the value is shown
}

func patternBytes(n int) []byte {
	b := make([]byte, n)
	for i := range b {
		b[i] = byte(i*7 + i/251)
	}
	return b
}

type WStruct struct {
	A int
	B string
	C []byte
	d int //lint:ignore U1000 unexported on purpose
}

type WTagged struct {
	A int            `json:"a"`
	B string         `json:"b,omitempty"`
	C []byte         `json:"c,omitempty"`
	D any            `json:"d"`
	E *int           `json:"-"`
	F []string       `json:"<f>"`
	G map[string]int `json:"g,omitempty"`
}

type WOuter struct {
	In  WStruct
	L   []WStruct
	P   *WStruct
	Any any
}

type wJS string

func (s wJS) JS() native.JS { return native.JS(s) }

var strCtxs = []int{1, 2, 3, 4, 7, 8, 9, 10, 11}
var bytesCtxs = []int{1, 2, 3, 4, 9}
var jsCtxs = []int{3, 4}

// base64 chunk boundaries: the encoder writes 768 input bytes per call, then
// the rest rounded down to a multiple of three, and the last one or two bytes at Close
var byteLens = []int{0, 1, 2, 3, 4, 5, 6, 7, 766, 767, 768, 769, 770, 771, 772, 1535, 1536, 1537, 1538, 1539, 2303, 2304, 2305, 3073}

func manyRuns(n int) string {
	var b strings.Builder
	for i := 0; i < n; i++ {
		b.WriteString([]string{"ab", "<", "c", "&", "\"", "d e", "'", ">", "\\", "\n", " ", "=", "`", "{", "é", "\x00", "\xff", "%", "+", "/"}[i%20])
	}
	return b.String()
}

func writeValues() []wval {
	one := 1
	var ws []wval
	for _, n := range byteLens {
		ws = append(ws, wval{fmt.Sprintf("bytes-%d", n), patternBytes(n), bytesCtxs})
	}
	for i, s := range []string{"", "plain", "a<b>c&d\"e'f", "<<<>>>", "<", "x<", "<x", "\x00\x01\x02", "x y z", " ", "\xe2\x80", "\xff<\xfe", "a b=c`d\te\n", "\\\\\"", "</script>", manyRuns(40), manyRuns(7) + strings.Repeat("k", 700) + manyRuns(9)} {
		ws = append(ws, wval{fmt.Sprintf("string-%d", i), s, strCtxs})
	}
	add := func(name string, v any) { ws = append(ws, wval{name, v, jsCtxs}) }
	add("nil", nil)
	add("int", 42)
	add("float", 1.5)
	add("bool", true)
	add("[]int", []int{1, 2, 3})
	add("[]int-1", []int{7})
	add("[]int-empty", []int{})
	add("[]int-nil", []int(nil))
	add("[3]string", [3]string{"a<", "", "c\"d"})
	add("[]string", []string{manyRuns(12), "b"})
	add("[]any", []any{nil, 1, "s<", []byte("xyz"), []any{}, []any{[]any{"deep"}}, &one, (*int)(nil)})
	add("[][]byte", [][]byte{{}, patternBytes(769), nil, patternBytes(2)})
	add("[]WStruct", []WStruct{{1, "x<", []byte("ab"), 0}, {}})
	add("map[string]int", map[string]int{"b": 2, "a<": 1, "": 0})
	add("map[string]int-empty", map[string]int{})
	add("map[string]int-nil", map[string]int(nil))
	add("map[string]any", map[string]any{"k": []byte{1, 2, 3, 4}, "a": "x\"", "n": nil, "l": []int{1}, "m": map[string]any{"in": 1}})
	add("map[int]string", map[int]string{10: "a", 2: "b", -1: "<"})
	add("map[bool][]byte", map[bool][]byte{true: patternBytes(770)})
	add("WStruct", WStruct{A: 1, B: "b<", C: patternBytes(5)})
	add("WStruct-zero", WStruct{})
	add("*WStruct", &WStruct{A: 2, C: []byte{}})
	add("WTagged", WTagged{A: 1, B: "x", C: []byte("c"), D: []byte("d"), F: []string{"f"}, G: map[string]int{"g": 1}})
	add("WTagged-zero", WTagged{})
	add("WOuter", WOuter{In: WStruct{B: "i"}, L: []WStruct{{C: patternBytes(4)}}, P: &WStruct{}, Any: map[string]any{"z": []any{1, "2"}}})
	add("struct{}", struct{}{})
	add("time", time.Date(2020, 1, 2, 3, 4, 5, 6000000, time.UTC))
	add("[]time", []time.Time{time.Date(1999, 12, 31, 23, 59, 59, 0, time.FixedZone("X", 3600))})
	add("error", errors.New("an <error>"))
	add("[]error", []error{errors.New("e1"), nil})
	add("native.JS", native.JS("f(1)"))
	add("JSStringer", wJS("g()"))
	add("chan", make(chan int))
	add("[]chan", []chan int{nil})
	// a map key that cannot be shown: the error is returned before anything is written
	add("map-bad-key", map[any]int{[2]int{1, 2}: 1})
	add("[]any-with-bad-key", []any{1, "a", map[any]int{[2]int{1, 2}: 1}, 2})
	add("struct-with-bad-key", struct {
		A int
		M map[any]int
		Z string
	}{1, map[any]int{struct{}{}: 1}, "z"})
	return ws
}

// ---- the value as a term of WriteProgM (sval / jval)

func hx(s string) string { return Hx(s) }

// leafText is the text a leaf is written as: the single Write of its show function alone
func leafText(v any, ctx int) (string, bool) {
	ch, _, p := isolatedShow(v, byte(ctx))
	if p != "" || len(ch) != 1 {
		return strings.Join(ch, ""), false
	}
	return ch[0], true
}

func isEmptyForOmit(v reflect.Value) bool {
	switch v.Kind() {
	case reflect.Bool:
		return !v.Bool()
	case reflect.Int, reflect.Int8, reflect.Int16, reflect.Int32, reflect.Int64:
		return v.Int() == 0
	case reflect.Uint, reflect.Uint8, reflect.Uint16, reflect.Uint32, reflect.Uint64, reflect.Uintptr:
		return v.Uint() == 0
	case reflect.Float32, reflect.Float64:
		return v.Float() == 0
	case reflect.String, reflect.Map, reflect.Slice, reflect.Array:
		return v.Len() == 0
	case reflect.Interface, reflect.Pointer, reflect.UnsafePointer:
		return v.IsNil()
	}
	return false
}

var errNotModelled = errors.New("not modelled")

// jvalOf: how showInJS (ctx 3) / showInJSON (ctx 4) write v, as a jval term
func jvalOf(v any, ctx int) (string, error) {
	leaf := func(x any) (string, error) {
		t, ok := leafText(x, ctx)
		if !ok {
			return "", fmt.Errorf("leaf %T is not one Write: %w", x, errNotModelled)
		}
		return "T" + hx(t), nil
	}
	if v == nil {
		return leaf(nil)
	}
	switch v.(type) {
	case native.JS, native.JSStringer, native.JSEnvStringer:
		if ctx == 3 {
			return leaf(v)
		}
	case native.JSON, native.JSONStringer, native.JSONEnvStringer:
		if ctx == 4 {
			return leaf(v)
		}
	}
	switch x := v.(type) {
	case time.Time:
		if ctx == 3 {
			return leaf(v)
		}
		return "Q" + hx(x.Format(time.RFC3339Nano)), nil
	case error:
		return "S" + hx(x.Error()), nil
	}
	rv := reflect.ValueOf(v)
	switch rv.Kind() {
	case reflect.String:
		return "S" + hx(rv.String()), nil
	case reflect.Slice:
		if b, ok := v.([]byte); ok && b != nil {
			return "B" + hx(string(b)), nil
		}
		if rv.IsNil() {
			return leaf(v)
		}
		fallthrough
	case reflect.Array:
		if rv.Len() == 0 {
			return leaf(v)
		}
		var xs []string
		for i := 0; i < rv.Len(); i++ {
			e, err := jvalOf(rv.Index(i).Interface(), ctx)
			if err != nil {
				return "", err
			}
			xs = append(xs, e)
		}
		return "A(" + strings.Join(xs, ",") + ")", nil
	case reflect.Pointer:
		if rv.IsNil() {
			return leaf(v)
		}
		return jvalOf(rv.Elem().Interface(), ctx)
	case reflect.Struct:
		t := rv.Type()
		var ms []string
		for i := 0; i < t.NumField(); i++ {
			f := t.Field(i)
			if f.PkgPath != "" {
				continue
			}
			name := f.Name
			if tag := f.Tag.Get("json"); tag != "" {
				if tag == "-" {
					continue
				}
				parts := strings.Split(tag, ",")
				omit := false
				for _, o := range parts[1:] {
					omit = omit || o == "omitempty"
				}
				if omit && isEmptyForOmit(rv.Field(i)) {
					continue
				}
				if parts[0] != "" {
					name = parts[0]
				}
			}
			e, err := jvalOf(rv.Field(i).Interface(), ctx)
			if err != nil {
				return "", err
			}
			ms = append(ms, hx(name)+":"+e)
		}
		return "O(" + strings.Join(ms, ",") + ")", nil
	case reflect.Map:
		if rv.IsNil() {
			return leaf(v)
		}
		type kv struct {
			k string
			v any
		}
		var kvs []kv
		it := rv.MapRange()
		for it.Next() {
			var ks string
			switch k := it.Key().Interface().(type) {
			case fmt.Stringer:
				ks = k.String()
			case string:
				ks = k
			case int:
				ks = strconv.Itoa(k)
			case bool:
				ks = strconv.FormatBool(k)
			default:
				switch it.Key().Kind() {
				case reflect.String:
					ks = it.Key().String()
				case reflect.Int, reflect.Int8, reflect.Int16, reflect.Int32, reflect.Int64:
					ks = strconv.FormatInt(it.Key().Int(), 10)
				default:
					return "F", nil
				}
			}
			kvs = append(kvs, kv{ks, it.Value().Interface()})
		}
		sort.Slice(kvs, func(i, j int) bool { return kvs[i].k < kvs[j].k })
		var ms []string
		for _, e := range kvs {
			x, err := jvalOf(e.v, ctx)
			if err != nil {
				return "", err
			}
			ms = append(ms, hx(e.k)+":"+x)
		}
		return "O(" + strings.Join(ms, ",") + ")", nil
	}
	return leaf(v)
}

// svalOf: the value as a term of WriteProgM.sval for the context
func svalOf(v any, ctx int) (string, error) {
	if s, ok := v.(string); ok && ctx != 3 && ctx != 4 {
		return "s" + hx(s), nil
	}
	if b, ok := v.([]byte); ok && b != nil && ctx != 3 && ctx != 4 {
		return "b" + hx(string(b)), nil
	}
	if ctx == 3 || ctx == 4 {
		j, err := jvalOf(v, ctx)
		if err != nil {
			return "", err
		}
		return "j" + j, nil
	}
	return "", errNotModelled
}

// ---- the real renderer with a failing writer

// plainWriter hides the WriteString method of the recorder: the renderer wraps it
type plainWriter struct{ r *verifhook.Recorder }

func (p plainWriter) Write(b []byte) (int, error) { return p.r.Write(b) }

func showWithFailingWriter(v any, ctx int, k int, plain bool) (res string, calls int) {
	rec := &verifhook.Recorder{FailAt: k, Err: errWrite}
	var out io.Writer = rec
	if plain {
		out = plainWriter{rec}
	}
	r := verifhook.NewRenderer(out, verifhook.Env(nil, nil))
	var err error
	msg := PanicText(func() { err = r.Show(v, verifhook.Context(byte(ctx))) })
	rs := "ok"
	switch {
	case msg != "":
		rs = "fault"
	case err == nil:
	case err == errWrite:
		rs = "e7"
	default:
		rs = "e1000"
	}
	return fmt.Sprintf("calls=%d out=%s res=%s", rec.Calls, chunksField(rec.Chunks), rs), rec.Calls
}

// ---- templates

type wtmpl struct {
	ctx         int
	file        string
	open, close string
}

var wtmpls = []wtmpl{
	{1, "t.html", "<p>", "</p>"},
	{2, "t.css", "a{b:", "}"},
	{2, "t.html", "<style>a{b:", "}</style>"},
	{3, "t.js", "var a = ", ";"},
	{3, "t.html", "<script>var a = ", ";</script>"},
	{4, "t.json", `{"k":`, "}"},
	{4, "t.html", `<script type="application/ld+json">`, `</script>`},
	{7, "t.html", `<div a="`, `">`},
	{8, "t.html", `<div a=`, `>`},
	{9, "t.css", `a{b:"`, `"}`},
	{9, "t.html", `<style>a{b:'`, `'}</style>`},
	{10, "t.js", `var a = "`, `";`},
	{11, "t.json", `{"k":"`, `"}`},
}

var wGlobals = native.Declarations{"v": (*any)(nil)}

func (t wtmpl) source() string { return t.open + "{{ v }}" + t.close }

var wbuilt = map[string]*scriggo.Template{}

func (t wtmpl) build() (*scriggo.Template, error) {
	key := t.file + "|" + t.source()
	if b, ok := wbuilt[key]; ok {
		return b, nil
	}
	tm, err := scriggo.BuildTemplate(scriggo.Files{t.file: []byte(t.source())}, t.file, &scriggo.BuildOptions{Globals: wGlobals})
	if err != nil {
		return nil, err
	}
	wbuilt[key] = tm
	return tm, nil
}

// runWith runs the template with the value and a writer of the kind failing at its failAt-th call
func runWith(t *scriggo.Template, v any, failAt int, kind int) tcResult {
	var out io.Writer
	var w *failWriter
	switch kind {
	case 1:
		sw := &failStringWriter{failWriter{failAt: failAt}}
		out, w = sw, &sw.failWriter
	case 2:
		rw := &failReaderFromWriter{failWriter{failAt: failAt}}
		out, w = rw, &rw.failWriter
	default:
		w = &failWriter{failAt: failAt}
		out = w
	}
	var err error
	var pv any
	panicked := true
	func() {
		defer func() {
			if panicked {
				pv = recover()
			}
		}()
		err = t.Run(out, map[string]any{"v": &v}, nil)
		panicked = false
	}()
	r := tcResult{calls: w.calls, chunks: w.chunks, after: w.after}
	switch {
	case panicked:
		r.res = "hostpanic:" + normPanic(fmt.Sprint(pv))
	case err == nil:
		r.res = "nil"
	case err == errWrite:
		r.res = "e7"
	default:
		r.res = "e1000"
	}
	return r
}

func init() {
	Register("C13-writes-cases", func(c *Ctx) {
		for _, wv := range writeValues() {
			for _, ctx := range wv.ctxs {
				enc, err := svalOf(wv.v, ctx)
				if err != nil {
					c.Count("values-not-modelled")
					continue
				}
				for _, plain := range []bool{false, true} {
					ok, calls := showWithFailingWriter(wv.v, ctx, 0, plain)
					c.Line("wp", b01(plain), "0", fmt.Sprint(ctx), enc, ok)
					c.Count("values")
					// every failure position, and one beyond the last call
					for k := 1; k <= calls+1; k++ {
						res, _ := showWithFailingWriter(wv.v, ctx, k, plain)
						c.Line("wp", b01(plain), fmt.Sprint(k), fmt.Sprint(ctx), enc, res)
						c.Count("failure-positions")
					}
				}
			}
		}
	})

	Register("C13-writes-sweep", func(c *Ctx) {
		var only string
		onlyCtx := -1
		if in := c.ReplayInput(); in != nil {
			only, _ = in["w_value"].(string)
			if only == "" {
				return
			}
			if x, ok := in["w_context"].(float64); ok {
				onlyCtx = int(x)
			}
		}
		for _, t := range wtmpls {
			if onlyCtx >= 0 && t.ctx != onlyCtx {
				continue
			}
			tm, err := t.build()
			if err != nil {
				c.Fail("writes-template-does-not-build", map[string]any{"source": t.source(), "error": err.Error()})
				continue
			}
			for _, wv := range writeValues() {
				if only != "" && wv.name != only {
					continue
				}
				shown := false
				for _, x := range wv.ctxs {
					shown = shown || x == t.ctx
				}
				if !shown {
					continue
				}
				for kind := 0; kind < 3; kind++ {
					det := func() map[string]any {
						return map[string]any{"w_value": wv.name, "gotype": fmt.Sprintf("%T", wv.v), "w_context": t.ctx, "source": t.source(),
							"writer": []string{"io.Writer", "with WriteString", "with ReadFrom"}[kind]}
					}
					ok := runWith(tm, wv.v, 0, kind)
					c.Count("evaluations")
					if ok.res != "nil" {
						if ok.res == "e1000" {
							// the value cannot be shown (a map key): with a failing writer the run still ends with an error and no write after the failure
							c.Count("values-with-show-error")
						} else {
							d := det()
							d["result"] = ok.String()
							c.Fail("host-panic:render", d)
							continue
						}
					}
					if kind == 0 && len(ok.chunks) > 3 && len(c.Samples) < 3 {
						c.Sample(map[string]any{"source": t.source(), "value": wv.name, "writes": len(ok.chunks)})
					}
					// every k, not a sample
					for k := 1; k <= ok.calls; k++ {
						r := runWith(tm, wv.v, k, kind)
						c.Count("evaluations")
						c.Count("nontrivial")
						bad := ""
						switch {
						case strings.HasPrefix(r.res, "hostpanic"):
							bad = "host-panic:writer-failure"
						case r.res != "e7":
							bad = "write-error-not-returned"
						case r.calls != k:
							bad = "writes-after-failure"
						case len(r.chunks) != k-1 || strings.Join(r.chunks, "\x00") != strings.Join(ok.chunks[:k-1], "\x00"):
							bad = "output-not-a-prefix"
						}
						if bad != "" {
							d := det()
							d["k"] = k
							d["result"] = fmt.Sprintf("calls=%d accepted=%d res=%s bytes-offered-after-the-failure=%d", r.calls, len(r.chunks), r.res, r.after)
							d["successful-writes"] = ok.calls
							c.Fail(bad, d)
							break
						}
					}
				}
			}
		}
	})
}
