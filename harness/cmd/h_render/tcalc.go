package main

// The template calculus on the implementation side: generated file sets are
// printed as Scriggo template sources and encoded as terms of the source
// calculus (coq/model/TSrcM.v); the real Template.Run is driven with a writer
// that fails at its k-th call (C13) and compared with the model; the
// documented expansions are built as transformed file sets (C16).

import (
	"fmt"
	"io"
	"sort"
	"strings"

	. "verif/harness/hlib"

	"github.com/open2b/scriggo"
	"github.com/open2b/scriggo/native"
)

const (
	fText = iota
	fHTML
	fCSS
	fJS
	fJSON
	fMarkdown
)

var fmtExt = []string{".txt", ".html", ".css", ".js", ".json", ".md"}
var fmtName = []string{"string", "html", "css", "js", "json", "markdown"}

// ---- abstract syntax (mirrors TSrcM.v)

type sArg struct {
	param bool
	n     int // value id or parameter index
}

type sExp struct {
	kind  byte // 'v' value, 'p' parameter, 'c' call, 'r' render
	n     int  // value id / parameter index / path id
	alias int  // call: -1 or alias id
	name  int  // call: macro name id
	args  []sArg
}

type sNode struct {
	kind   byte // 'T' text, 'S' show, 'V' value form
	txt    string
	u, set bool
	c      byte
	e      sExp
	// printing only
	pre, post string // literal source around a show (attribute, script string ...): they are Text nodes of their own
}

type sMacro struct {
	name     int
	fmt      int
	explicit bool // result format written in the declaration
	nparams  int
	rec      bool
	body     []sNode
}

type sImport struct {
	path  int
	alias int   // -1 none
	forL  []int // nil = no for list
}

type sFile struct {
	path    int
	fmt     int
	extends int // -1 none
	imports []sImport
	macros  []sMacro
	rec     bool
	body    []sNode
}

type fileSet struct {
	files []*sFile
	main  int
	cur   int // the file being printed (relative paths)
}

// Directories: the directory ("" the root, "d1/", "d1/e1/") and the base name of a file, by path id.
// They are chosen by the generator (reset for each generated set); two files of different
// directories may have the same base name, so that the same relative spelling in two files
// denotes two files. The calculus of the model refers to files by id: directories are the
// business of the path resolution of the compiler only.
var pathDir = map[int]string{}
var pathBase = map[int]string{}

func pathName(p int, f int) string {
	base, ok := pathBase[p]
	if !ok {
		base = fmt.Sprintf("f%d", p)
	}
	return pathDir[p] + base + fmtExt[f]
}

// refName is how the file `from` spells the path of the file `to`: rooted, or relative to its
// own directory (the choice is a function of the two ids, so that a set prints the same every time).
func refName(from, to int, toFmt int) string {
	full := pathName(to, toFmt)
	if (from*31+to*7)%3 == 0 {
		return "/" + full
	}
	df := pathDir[from]
	// common directory prefix
	fs, ts := strings.Split(df, "/"), strings.Split(pathDir[to], "/")
	fs, ts = fs[:len(fs)-1], ts[:len(ts)-1]
	i := 0
	for i < len(fs) && i < len(ts) && fs[i] == ts[i] {
		i++
	}
	rel := strings.Repeat("../", len(fs)-i)
	for _, d := range ts[i:] {
		rel += d + "/"
	}
	return rel + strings.TrimPrefix(full, pathDir[to])
}

var dirPool = []string{"", "", "d1/", "d2/", "d1/e1/"}

// place chooses the directory and the base name of a new file
func (g *gen) place(sf *sFile) {
	if !g.dirs {
		return
	}
	dir := dirPool[g.c.Rng.Intn(len(dirPool))]
	base := fmt.Sprintf("f%d", sf.path)
	if g.c.Rng.Intn(2) == 0 {
		// the base name of a file of another directory, when it is free here
		for _, o := range g.fs.files {
			ob, ok := pathBase[o.path]
			if !ok || pathDir[o.path] == dir || o.path == sf.path {
				continue
			}
			free := true
			for _, x := range g.fs.files {
				if x.path != sf.path && pathDir[x.path] == dir && pathBase[x.path] == ob {
					free = false
				}
			}
			if free {
				base = ob
				break
			}
		}
	}
	pathDir[sf.path], pathBase[sf.path] = dir, base
}
func macroName(n int) string { return fmt.Sprintf("M%d", n) }
func aliasName(n int) string { return fmt.Sprintf("al%d", n) }
func valName(n int) string   { return fmt.Sprintf("v%d", n) }
func paramName(n int) string { return fmt.Sprintf("p%d", n) }

func (fs *fileSet) file(p int) *sFile {
	for _, f := range fs.files {
		if f.path == p {
			return f
		}
	}
	return nil
}

// ---- printing as template source

func (fs *fileSet) expSrc(e sExp) string {
	switch e.kind {
	case 'v':
		return valName(e.n)
	case 'p':
		return paramName(e.n)
	case 'r':
		return fmt.Sprintf("render %q", refName(fs.cur, e.n, fs.file(e.n).fmt))
	case 'c':
		var as []string
		for _, a := range e.args {
			if a.param {
				as = append(as, paramName(a.n))
			} else {
				as = append(as, valName(a.n))
			}
		}
		s := macroName(e.name) + "(" + strings.Join(as, ", ") + ")"
		if e.alias >= 0 {
			s = aliasName(e.alias) + "." + s
		}
		return s
	}
	panic("bad exp")
}

var varCounter int

func (fs *fileSet) nodesSrc(ns []sNode) string {
	var b strings.Builder
	for _, n := range ns {
		switch n.kind {
		case 'T':
			b.WriteString(n.txt)
		case 'S':
			b.WriteString("{{ " + fs.expSrc(n.e) + " }}")
		case 'V':
			varCounter++
			v := fmt.Sprintf("t%d", varCounter)
			b.WriteString("{% var " + v + " = " + fs.expSrc(n.e) + " %}{{ " + v + " }}")
		}
	}
	return b.String()
}

const recoverStmt = "{% defer func() { recover() }() %}"

func (fs *fileSet) fileSrc(f *sFile) string {
	var b strings.Builder
	fs.cur = f.path
	if f.extends >= 0 {
		b.WriteString(fmt.Sprintf("{%% extends %q %%}", refName(f.path, f.extends, fs.file(f.extends).fmt)))
	}
	for _, im := range f.imports {
		b.WriteString("{% import ")
		if im.alias >= 0 {
			b.WriteString(aliasName(im.alias) + " ")
		}
		b.WriteString(fmt.Sprintf("%q", refName(f.path, im.path, fs.file(im.path).fmt)))
		if im.forL != nil {
			var ns []string
			for _, n := range im.forL {
				ns = append(ns, macroName(n))
			}
			b.WriteString(" for " + strings.Join(ns, ", "))
		}
		b.WriteString(" %}")
	}
	for _, m := range f.macros {
		b.WriteString("{% macro " + macroName(m.name))
		if m.nparams > 0 {
			var ps []string
			for i := 0; i < m.nparams; i++ {
				ps = append(ps, paramName(i)+" string")
			}
			b.WriteString("(" + strings.Join(ps, ", ") + ")")
		}
		if m.explicit {
			b.WriteString(" " + fmtName[m.fmt])
		}
		b.WriteString(" %}")
		if m.rec {
			b.WriteString(recoverStmt)
		}
		b.WriteString(fs.nodesSrc(m.body))
		b.WriteString("{% end macro %}")
	}
	if f.rec {
		b.WriteString(recoverStmt)
	}
	b.WriteString(fs.nodesSrc(f.body))
	return b.String()
}

func (fs *fileSet) sources() scriggo.Files {
	out := scriggo.Files{}
	for _, f := range fs.files {
		out[pathName(f.path, f.fmt)] = []byte(fs.fileSrc(f))
	}
	return out
}

// ---- encoding for the model driver

func (fs *fileSet) encNodes(b *strings.Builder, ns []sNode) {
	// adjacent texts with the same URL flag are one Text instruction
	var merged []sNode
	for _, n := range ns {
		if n.kind == 'T' && len(merged) > 0 && merged[len(merged)-1].kind == 'T' && merged[len(merged)-1].u == n.u {
			merged[len(merged)-1].txt += n.txt
			continue
		}
		if n.kind == 'T' && n.txt == "" {
			continue
		}
		merged = append(merged, n)
	}
	fmt.Fprintf(b, " %d", len(merged))
	for _, n := range merged {
		switch n.kind {
		case 'T':
			fmt.Fprintf(b, " T x%s %s %s", Hx(n.txt), b01(n.u), b01(n.set))
		default:
			fmt.Fprintf(b, " %c %d", n.kind, n.c)
			e := n.e
			switch e.kind {
			case 'v', 'p', 'r':
				fmt.Fprintf(b, " %c %d", e.kind, e.n)
			case 'c':
				fmt.Fprintf(b, " c %d %d %d", e.alias, e.name, len(e.args))
				for _, a := range e.args {
					k := 'v'
					if a.param {
						k = 'p'
					}
					fmt.Fprintf(b, " %c %d", k, a.n)
				}
			}
		}
	}
}

func (fs *fileSet) encode() string {
	var b strings.Builder
	fmt.Fprintf(&b, "%d", len(fs.files))
	for _, f := range fs.files {
		fmt.Fprintf(&b, " F %d %d %d %s %d", f.path, f.fmt, f.extends, b01(f.rec), len(f.imports))
		for _, im := range f.imports {
			fmt.Fprintf(&b, " I %d %d", im.path, im.alias)
			if im.forL == nil {
				b.WriteString(" -1")
			} else {
				fmt.Fprintf(&b, " %d", len(im.forL))
				for _, n := range im.forL {
					fmt.Fprintf(&b, " %d", n)
				}
			}
		}
		fmt.Fprintf(&b, " %d", len(f.macros))
		for _, m := range f.macros {
			fmt.Fprintf(&b, " M %d %d %d %s", m.name, m.fmt, m.nparams, b01(m.rec))
			fs.encNodes(&b, m.body)
		}
		fs.encNodes(&b, f.body)
	}
	return b.String()
}

// ---- values

type tval struct {
	v   any
	typ any // pointer to the type, for the global declaration
	url string
	bad bool
}

var tvals = []tval{
	{v: "a<b>&\"'c", typ: (*string)(nil), url: "a<b>&\"'c"},
	{v: "x?y", typ: (*string)(nil), url: "x?y"},
	{v: "", typ: (*string)(nil), url: ""},
	{v: "plain", typ: (*string)(nil), url: "plain"},
	{v: "a&", typ: (*string)(nil), url: "a&"},
	{v: "*m* _e_ `c` \\ <i>", typ: (*string)(nil), url: "*m* _e_ `c` \\ <i>"},
	// longer than the 512 bytes some writers split at
	{v: strings.Repeat("kl", 300), typ: (*string)(nil), url: strings.Repeat("kl", 300)},
}

// values that are not strings (ids from bvalBase on): they are only shown, in the contexts
// that accept their type, never passed to macros. Their show functions issue several Write calls.
const bvalBase = 100

var bvals = []tval{
	{v: []byte("ab<c"), typ: (*[]byte)(nil)},
	{v: patternBytes(769), typ: (*[]byte)(nil)},
	{v: []byte{}, typ: (*[]byte)(nil)},
	{v: []any{1, "a<", []byte("xy")}, typ: (*[]any)(nil)},
	{v: map[string]int{"b": 2, "a": 1}, typ: (*map[string]int)(nil)},
}

// the contexts (render context bytes) each of them is shown in
var bvalCtxs = [][]byte{{1, 2, 3, 4}, {2, 3, 4}, {1, 3, 4}, {3, 4}, {3, 4}}

func tvalByID(id int) tval {
	if id >= bvalBase {
		return bvals[id-bvalBase]
	}
	return tvals[id]
}

func tvalGlobals() native.Declarations {
	d := native.Declarations{}
	for i, v := range tvals {
		d[valName(i)] = v.typ
	}
	for i, v := range bvals {
		d[valName(bvalBase+i)] = v.typ
	}
	return d
}

func tvalVars() map[string]any {
	m := map[string]any{}
	for i, v := range tvals {
		m[valName(i)] = v.v
	}
	for i, v := range bvals {
		m[valName(bvalBase+i)] = v.v
	}
	return m
}

// bvalFor picks a value of bvals that can be shown in the context c
func (g *gen) bvalFor(c byte) sExp {
	for {
		i := g.c.Rng.Intn(len(bvals))
		for _, x := range bvalCtxs[i] {
			if x == c {
				return sExp{kind: 'v', n: bvalBase + i}
			}
		}
	}
}

// valsField: what Show does with each value in each context byte used by the set
func (fs *fileSet) valsField() string {
	ctxs := map[byte]bool{}
	used := map[int]bool{}
	var walk func(ns []sNode)
	walk = func(ns []sNode) {
		for _, n := range ns {
			if n.kind != 'T' {
				ctxs[n.c] = true
				if n.e.kind == 'v' {
					used[n.e.n] = true
				}
				for _, a := range n.e.args {
					if !a.param {
						used[a.n] = true
					}
				}
			}
		}
	}
	for _, f := range fs.files {
		walk(f.body)
		for _, m := range f.macros {
			walk(m.body)
		}
	}
	var cs []int
	for c := range ctxs {
		cs = append(cs, int(c))
	}
	sort.Ints(cs)
	var parts []string
	var ids []int
	for id := range used {
		ids = append(ids, id)
	}
	sort.Ints(ids)
	for _, id := range ids {
		v := tvalByID(id)
		for _, c := range cs {
			if id >= bvalBase {
				// only in the contexts it is shown in (elsewhere the checker rejects it)
				ok := false
				for _, x := range bvalCtxs[id-bvalBase] {
					ok = ok || x == byte(c)
				}
				if !ok {
					continue
				}
			}
			o := rop{c: byte(c), val: rval{v: v.v, url: v.url, bad: v.bad}}
			o.prepare()
			f := o.field() // S:c:chunks:err:url
			parts = append(parts, fmt.Sprintf("%d:%s", id, strings.TrimPrefix(f, "S:")))
		}
	}
	return strings.Join(parts, ";")
}

// ---- the converter used by the harness: three Write calls
func fakeConv(src []byte, out io.Writer) error {
	if _, err := out.Write([]byte("<md>")); err != nil {
		return err
	}
	if _, err := out.Write(src); err != nil {
		return err
	}
	_, err := out.Write([]byte("</md>"))
	return err
}

// ---- running the real code

type tcResult struct {
	calls  int
	chunks []string
	res    string // nil, e7, e1000, hostpanic:..., build:...
	after  int
}

func (fs *fileSet) build(conv bool) (*scriggo.Template, string) {
	var t *scriggo.Template
	var err error
	opts := &scriggo.BuildOptions{Globals: tvalGlobals()}
	if conv {
		opts.MarkdownConverter = fakeConv
	}
	f := fs.file(fs.main)
	if msg := PanicText(func() { t, err = scriggo.BuildTemplate(fs.sources(), pathName(f.path, f.fmt), opts) }); msg != "" {
		return nil, "buildpanic:" + normPanic(msg)
	}
	if err != nil {
		return nil, "build:" + err.Error()
	}
	return t, ""
}

// failStringWriter also has WriteString (the renderer then does not wrap it)
type failStringWriter struct{ failWriter }

func (w *failStringWriter) WriteString(s string) (int, error) { return w.Write([]byte(s)) }

// failReaderFromWriter also has ReadFrom, as files and buffered writers do
type failReaderFromWriter struct{ failWriter }

func (w *failReaderFromWriter) ReadFrom(r io.Reader) (int64, error) {
	b, err := io.ReadAll(r)
	if err != nil {
		return 0, err
	}
	n, err := w.Write(b)
	return int64(n), err
}

// writerKind: 0 plain io.Writer, 1 with WriteString, 2 with ReadFrom
var writerKind = 0

func runTemplate(t *scriggo.Template, failAt int) tcResult {
	return runTemplateKind(t, failAt, writerKind)
}

func runTemplateKind(t *scriggo.Template, failAt int, kind int) tcResult {
	var out io.Writer
	var w *failWriter
	switch kind {
	case 1:
		sw := &failStringWriter{failWriter{failAt: failAt}}
		out, w = sw, &sw.failWriter
	case 2:
		rw := &failReaderFromWriter{failWriter{failAt: failAt}}
		out, w = rw, &rw.failWriter
	default:
		w = &failWriter{failAt: failAt}
		out = w
	}
	var err error
	var pv any
	panicked := true
	func() {
		defer func() {
			if panicked {
				pv = recover()
			}
		}()
		err = t.Run(out, tvalVars(), nil)
		panicked = false
	}()
	r := tcResult{calls: w.calls, chunks: w.chunks, after: w.after}
	switch {
	case panicked:
		if pv == errWrite {
			r.res = "hostpanic:e7"
		} else if e, ok := pv.(error); ok && e == errWrite {
			r.res = "hostpanic:e7"
		} else {
			s := fmt.Sprint(pv)
			if strings.Contains(s, "no Markdown convert available") {
				r.res = "hostpanic:none"
			} else {
				r.res = "hostpanic:" + normPanic(s)
			}
		}
	case err == nil:
		r.res = "nil"
	case err == errWrite:
		r.res = "e7"
	default:
		r.res = "e1000"
	}
	return r
}

func (r tcResult) String() string {
	return fmt.Sprintf("calls=%d out=%s res=%s", r.calls, chunksField(r.chunks), r.res)
}

// ---- generator

type gen struct {
	c            *Ctx
	fs           *fileSet
	nextPath     int
	nextName     int
	maxDepth     int
	allowRec     bool
	noURL        bool
	allowRecFile bool
	plainOnly    bool
	anyFormats   bool
	dirs         bool         // files in several directories, relative paths
	rendered     map[int]bool // files created by a render expression
}

var fmtTexts = [][]string{
	fText:     {"t ", "<x>", "&", "line ", "- "},
	fHTML:     {"<p>", "</p>", "x", " &amp; ", "<b>y</b>", "<hr>"},
	fCSS:      {"a{b:c}", "h{i:j}", "p{m:0}"},
	fJS:       {"var x = 1;", "f();", "g(2);"},
	fJSON:     {"[1,", "2]", "3,"},
	fMarkdown: {"# h ", "*e*", "t ", "- i "},
}

// texts without tags for HTML bodies of macros whose explicit format differs from the format of
// the file: after a tag the lexer falls back to the context of the file there (lexer defect,
// reported to the lexer package), so the context of a following {{ }} would not be the one
// the generator assigns
var htmlTextsNoTags = []string{"x", " &amp; ", "y ", "z"}

func (g *gen) text(f int) sNode {
	d := fmtTexts[f]
	if g.plainOnly && f == fHTML {
		d = htmlTextsNoTags
	}
	return sNode{kind: 'T', txt: d[g.c.Rng.Intn(len(d))]}
}

func (g *gen) valExp(nparams int) sExp {
	if nparams > 0 && g.c.Rng.Intn(2) == 0 {
		return sExp{kind: 'p', n: g.c.Rng.Intn(nparams)}
	}
	return sExp{kind: 'v', n: g.c.Rng.Intn(len(tvals))}
}

// scopeMacro: a macro visible in file f under (alias, name)
type scopeMacro struct {
	alias int
	m     *sMacro
}

func (g *gen) visible(f *sFile, child *sFile) []scopeMacro {
	var out []scopeMacro
	for i := range f.macros {
		out = append(out, scopeMacro{-1, &f.macros[i]})
	}
	for _, im := range f.imports {
		imf := g.fs.file(im.path)
		for i := range imf.macros {
			m := &imf.macros[i]
			if im.forL != nil {
				ok := false
				for _, n := range im.forL {
					ok = ok || n == m.name
				}
				if !ok {
					continue
				}
			}
			out = append(out, scopeMacro{im.alias, m})
		}
	}
	if child != nil {
		for i := range child.macros {
			out = append(out, scopeMacro{-1, &child.macros[i]})
		}
	}
	return out
}

// body generates nodes for a body of format f (plain context = f) inside file
// `in` (scope), with nparams macro parameters available.
func (g *gen) body(f int, in *sFile, child *sFile, nparams int, depth int, n int) []sNode {
	var ns []sNode
	plain := byte(f)
	for i := 0; i < n; i++ {
		switch k := g.c.Rng.Intn(10); {
		case k < 3:
			ns = append(ns, g.text(f))
		case k < 5:
			ns = append(ns, sNode{kind: 'S', c: plain, e: g.valExp(nparams)})
		case k == 5 && (f == fJS || f == fJSON || f == fCSS) && !g.plainOnly:
			// a byte slice or a composite value: several Write calls for one show
			ns = append(ns, sNode{kind: 'S', c: plain, e: g.bvalFor(plain)})
		case k == 5 && f == fHTML && !g.noURL && !g.plainOnly:
			// a URL attribute: texts and values only
			q := []string{`"`, `'`, ``}[g.c.Rng.Intn(3)]
			ctx := byte(7)
			if q == "" {
				ctx = 8
			}
			ns = append(ns, sNode{kind: 'T', txt: "<a href=" + q})
			m := 1 + g.c.Rng.Intn(3)
			for j := 0; j < m; j++ {
				if g.c.Rng.Intn(2) == 0 {
					ns = append(ns, sNode{kind: 'T', u: true, txt: []string{"/", "?x=", "&y=", "p", "#"}[g.c.Rng.Intn(5)]})
				}
				ns = append(ns, sNode{kind: 'S', c: ctx | 0x80, e: g.valExp(nparams)})
			}
			ns = append(ns, sNode{kind: 'T', txt: q + ">"})
		case k == 6 && f == fHTML && !g.plainOnly:
			// other contexts of HTML
			switch g.c.Rng.Intn(7) {
			case 4:
				ns = append(ns, sNode{kind: 'T', txt: `<script>var a = `}, sNode{kind: 'S', c: 3, e: g.bvalFor(3)}, sNode{kind: 'T', txt: `;</script>`})
			case 5:
				ns = append(ns, sNode{kind: 'T', txt: `<style>a{b:`}, sNode{kind: 'S', c: 2, e: g.bvalFor(2)}, sNode{kind: 'T', txt: `}</style>`})
			case 6:
				ns = append(ns, sNode{kind: 'S', c: 1, e: g.bvalFor(1)})
			case 0:
				ns = append(ns, sNode{kind: 'T', txt: `<p title="`}, sNode{kind: 'S', c: 7, e: g.valExp(nparams)}, sNode{kind: 'T', txt: `">`})
			case 1:
				ns = append(ns, sNode{kind: 'T', txt: `<script>var a = "`}, sNode{kind: 'S', c: 10, e: g.valExp(nparams)}, sNode{kind: 'T', txt: `";</script>`})
			case 2:
				ns = append(ns, sNode{kind: 'T', txt: `<style>a{b:"`}, sNode{kind: 'S', c: 9, e: g.valExp(nparams)}, sNode{kind: 'T', txt: `"}</style>`})
			case 3:
				ns = append(ns, sNode{kind: 'T', txt: `<script>var a = `}, sNode{kind: 'S', c: 3, e: g.valExp(nparams)}, sNode{kind: 'T', txt: `;</script>`})
			}
		case k < 8:
			// macro call
			vis := g.visible(in, child)
			if len(vis) == 0 {
				ns = append(ns, g.text(f))
				continue
			}
			sm := vis[g.c.Rng.Intn(len(vis))]
			if !g.showable(f, sm.m.fmt) {
				ns = append(ns, g.text(f))
				continue
			}
			e := sExp{kind: 'c', alias: sm.alias, name: sm.m.name}
			for j := 0; j < sm.m.nparams; j++ {
				if nparams > 0 && g.c.Rng.Intn(2) == 0 {
					e.args = append(e.args, sArg{param: true, n: g.c.Rng.Intn(nparams)})
				} else {
					e.args = append(e.args, sArg{n: g.c.Rng.Intn(len(tvals))})
				}
			}
			kind := byte('S')
			if g.c.Rng.Intn(3) == 0 {
				kind = 'V'
			}
			// a macro with a deferred call taken as a value yields a stale register (recorded
			// finding macro-with-defer-loses-output): only call it where the fast path applies
			if sm.m.rec && (kind == 'V' || !(sm.m.fmt == f || (sm.m.fmt == fMarkdown && f == fHTML))) {
				ns = append(ns, g.text(f))
				continue
			}
			ns = append(ns, sNode{kind: kind, c: plain, e: e})
		default:
			// render
			if depth >= g.maxDepth {
				ns = append(ns, g.text(f))
				continue
			}
			kind := byte('S')
			if g.c.Rng.Intn(3) == 0 {
				kind = 'V'
			}
			pf := g.partialFormat(f)
			if kind == 'S' && g.c.Rng.Intn(3) == 0 {
				// {{ render }} takes the fast path whatever the formats: any pair
				pf = g.c.Rng.Intn(6)
			}
			fast := kind == 'S' && (pf == f || (pf == fMarkdown && f == fHTML))
			if g.c.Rng.Intn(3) == 0 {
				// a file that is already rendered elsewhere (shared partial): only files created after the
				// rendering one, so that the references stay acyclic
				var cands []*sFile
				for _, o := range g.fs.files {
					if g.rendered[o.path] && o.path > in.path && o.fmt == pf && (!o.rec || fast) {
						cands = append(cands, o)
					}
				}
				if len(cands) > 0 {
					p := cands[g.c.Rng.Intn(len(cands))]
					ns = append(ns, sNode{kind: kind, c: plain, e: sExp{kind: 'r', n: p.path}})
					continue
				}
			}
			saved := g.allowRecFile
			g.allowRecFile = fast
			p := g.newFile(pf, depth+1, false)
			g.allowRecFile = saved
			if g.rendered == nil {
				g.rendered = map[int]bool{}
			}
			g.rendered[p.path] = true
			ns = append(ns, sNode{kind: kind, c: plain, e: sExp{kind: 'r', n: p.path}})
		}
	}
	return ns
}

// showable: a string of format type `from` can be shown in a body of format f within the calculus
func (g *gen) showable(f, from int) bool {
	return g.anyFormats || from == f || f == fHTML || f == fText
}

func (g *gen) partialFormat(f int) int {
	if f == fHTML || f == fText || g.anyFormats {
		if g.c.Rng.Intn(2) == 0 {
			return g.c.Rng.Intn(6)
		}
	}
	return f
}

func (g *gen) macro(f int, in *sFile, child *sFile, depth int) sMacro {
	m := sMacro{name: g.nextName, fmt: f, nparams: g.c.Rng.Intn(3) % 2 * (1 + g.c.Rng.Intn(2))}
	g.nextName++
	if g.c.Rng.Intn(4) == 0 {
		// explicit result format
		m.explicit = true
		if f == fHTML || f == fText || g.anyFormats {
			m.fmt = g.c.Rng.Intn(6)
		}
	}
	if g.allowRec && g.c.Rng.Intn(5) == 0 {
		m.rec = true
	}
	// in a macro whose explicit format differs from the file's, the lexer keeps script/style
	// contexts after their end tags (reported to the lexer package): plain constructs only
	saved := g.plainOnly
	g.plainOnly = m.explicit && m.fmt != in.fmt
	m.body = g.body(m.fmt, in, child, m.nparams, depth, 1+g.c.Rng.Intn(3))
	g.plainOnly = saved
	return m
}

// newFile creates a file of format f with its own imports and macros.
func (g *gen) newFile(f int, depth int, declOnly bool) *sFile {
	sf := &sFile{path: g.nextPath, fmt: f, extends: -1}
	g.nextPath++
	g.fs.files = append(g.fs.files, sf)
	g.place(sf)
	if depth < g.maxDepth && g.c.Rng.Intn(3) == 0 {
		// an imported file: declarations only
		imp := g.newFile(f, depth+1, true)
		im := sImport{path: imp.path, alias: -1}
		switch g.c.Rng.Intn(3) {
		case 1:
			im.alias = imp.path
		case 2:
			if len(imp.macros) > 0 {
				im.forL = []int{imp.macros[g.c.Rng.Intn(len(imp.macros))].name}
			}
		}
		sf.imports = append(sf.imports, im)
	}
	nm := g.c.Rng.Intn(3)
	if declOnly {
		nm = 1 + g.c.Rng.Intn(2)
	}
	for i := 0; i < nm; i++ {
		sf.macros = append(sf.macros, g.macro(f, sf, nil, depth))
	}
	if !declOnly {
		if g.allowRec && g.allowRecFile && g.c.Rng.Intn(6) == 0 {
			sf.rec = true
		}
		sf.body = g.body(f, sf, nil, 0, depth, 1+g.c.Rng.Intn(4))
	}
	return sf
}

func genFileSet(c *Ctx, allowRec bool) *fileSet {
	g := &gen{c: c, fs: &fileSet{}, maxDepth: 1 + c.Rng.Intn(3), allowRec: allowRec, allowRecFile: true}
	return genWith(g)
}

func init() {
	Register("C13-gen-dump", func(c *Ctx) {
		for i := 0; i < c.N; i++ {
			fs := genFileSet(c, true)
			for name, src := range fs.sources() {
				c.Line("SRC", name, string(src))
			}
			t, msg := fs.build(true)
			if t == nil {
				c.Line("BUILD", msg)
				continue
			}
			r := runTemplate(t, 0)
			c.Line("ENC", fs.encode())
			c.Line("RUN", r.String())
		}
	})
}

// tcLine prints one correspondence case for the model driver.
func tcLine(c *Ctx, fs *fileSet, conv bool, failAt int, r tcResult) {
	c.Line("tc", fmt.Sprint(failAt), b01(conv), fmt.Sprint(fs.main), fs.valsField(), fs.encode(), r.String())
}

// limit the size of generated sets
func (fs *fileSet) size() int {
	n := 0
	for _, f := range fs.files {
		n += len(f.body) + 1
		for _, m := range f.macros {
			n += len(m.body) + 1
		}
	}
	return n
}

func genSmallFileSet(c *Ctx, allowRec bool) *fileSet {
	for {
		fs := genFileSet(c, allowRec)
		if fs.size() <= 60 {
			return fs
		}
	}
}

func init() {
	// C13 correspondence: every failure position of the writer, through Template.Run
	Register("C13-cases", func(c *Ctx) {
		for i := 0; i < c.N; i++ {
			fs := genSmallFileSet(c, true)
			conv := c.Rng.Intn(6) != 0
			t, msg := fs.build(conv)
			if t == nil {
				c.Count("build-failures")
				if strings.HasPrefix(msg, "buildpanic") {
					c.Fail("host-panic:build", map[string]any{"files": fs.srcMap(), "panic": msg})
				}
				continue
			}
			writerKind = c.Rng.Intn(3)
			c.Count(fmt.Sprintf("writer-kind-%d", writerKind))
			r0 := runTemplate(t, 0)
			tcLine(c, fs, conv, 0, r0)
			c.Count("templates")
			for k := 1; k <= r0.calls && k <= 40; k++ {
				tcLine(c, fs, conv, k, runTemplate(t, k))
				c.Count("failure-positions")
			}
		}
	})
}

func (fs *fileSet) srcMap() map[string]string {
	m := map[string]string{}
	for k, v := range fs.sources() {
		m[k] = string(v)
	}
	return m
}

// checkWriteFail evaluates C13 on the real code for one built template: for
// every k up to the number of writes of a successful render, a writer failing
// at its k-th call gets exactly k calls, Run returns the writer's error, what
// was accepted is the first k-1 chunks of the successful render.
// panicTemplates: the template being checked may end with an unrecovered panic of its own
var panicTemplates bool

func checkWriteFail(c *Ctx, t *scriggo.Template, det func() map[string]any, maxK int) {
	for kind := 0; kind < 3; kind++ {
		writerKind = kind
		checkWriteFailKind(c, t, func() map[string]any {
			d := det()
			d["writer"] = []string{"io.Writer", "with WriteString", "with ReadFrom"}[kind]
			return d
		}, maxK)
	}
	writerKind = 0
}

func checkWriteFailKind(c *Ctx, t *scriggo.Template, det func() map[string]any, maxK int) {
	ok := runTemplate(t, 0)
	c.Count("evaluations")
	// a template that ends with an unrecovered panic of its own (res e1000: an error that is not the
	// writer's) still returns the writer's error when one of its writes, also of a deferred macro
	// running while the panic unwinds, fails
	if ok.res != "nil" && !(panicTemplates && ok.res == "e1000") {
		if ok.res == "hostpanic:none" {
			// no converter configured: the recorded finding of C05 (host-panic:no-markdown-converter)
			c.Count("skipped-no-converter")
			return
		}
		if strings.HasPrefix(ok.res, "hostpanic") {
			d := det()
			d["result"] = ok.res
			c.Fail("host-panic:render", d)
		}
		return
	}
	for k := 1; k <= ok.calls && k <= maxK; k++ {
		r := runTemplate(t, k)
		c.Count("evaluations")
		c.Count("nontrivial")
		bad := ""
		switch {
		case strings.HasPrefix(r.res, "hostpanic"):
			bad = "host-panic:writer-failure"
		case r.res != "e7":
			bad = "write-error-not-returned"
		case r.calls != k:
			bad = "writes-after-failure"
		case len(r.chunks) != k-1 || strings.Join(r.chunks, "\x00") != strings.Join(ok.chunks[:k-1], "\x00"):
			bad = "output-not-a-prefix"
		}
		if bad != "" {
			d := det()
			d["k"] = k
			d["result"] = r.String()
			d["successful"] = ok.String()
			if panicTemplates && bad == "writes-after-failure" && r.res == "e7" {
				// recorded finding: the deferred macros still run, and write, after the failing write
				if !reportedDeferredWrites {
					reportedDeferredWrites = true
					c.Fail("writes-after-failure:deferred-macro", d)
				}
				continue
			}
			c.Fail(bad, d)
			return
		}
	}
}

var reportedDeferredWrites bool

func init() {
	Register("C13-sweep", func(c *Ctx) {
		if in := c.ReplayInput(); in != nil {
			files := scriggo.Files{}
			if m, ok := in["files"].(map[string]any); ok {
				for k, v := range m {
					files[k] = []byte(v.(string))
				}
			}
			name, _ := in["main"].(string)
			conv, _ := in["conv"].(bool)
			opts := &scriggo.BuildOptions{Globals: tvalGlobals()}
			if conv {
				opts.MarkdownConverter = fakeConv
			}
			t, err := scriggo.BuildTemplate(files, name, opts)
			if err != nil {
				return
			}
			panicTemplates, _ = in["panicking"].(bool)
			checkWriteFail(c, t, func() map[string]any {
				return map[string]any{"files": in["files"], "main": name, "conv": conv, "panicking": panicTemplates}
			}, 200)
			return
		}
		// the Markdown conversion at the return of a rendered file (repaired: used to panic)
		fixed := []struct {
			files scriggo.Files
			main  string
		}{
			{scriggo.Files{"index.html": []byte(`<p>{{ render "p.md" }}</p>`), "p.md": []byte("# t {{ v0 }}")}, "index.html"},
			{scriggo.Files{"index.html": []byte(`{% macro M markdown %}*a*{{ v3 }}{% end %}<p>{{ M() }}</p>{{ M() }}`)}, "index.html"},
			{scriggo.Files{"index.html": []byte(`{% var m = render "p.md" %}<p>{{ m }}</p>`), "p.md": []byte("# t {{ v0 }}")}, "index.html"},
		}
		// deferred macros that write while a panic unwinds, with and without recovering it
		panicking := []string{
			`{% macro Footer %}footer{{ v0 }}{% end %}{% defer Footer() %}head{{ v1 }}{% panic("boom") %}tail`,
			`{% macro A %}a{% end %}{% macro B %}b{{ v0 }}b{% end %}{% defer A() %}{% defer B() %}x{% var z = 0 %}{{ 1 / z }}y`,
			`{% macro R %}{% if recover() != nil %}recovered{{ v0 }}{% end %}{% end %}{% macro M %}{% defer R() %}in{% panic("p") %}{% end %}pre{{ M() }}post{{ v1 }}`,
			`{% macro F %}f{{ v0 }}{% end %}{% macro G %}{% defer F() %}g{% panic("q") %}{% end %}{% defer F() %}s{{ G() }}t`,
		}
		for _, src := range panicking {
			fixed = append(fixed, struct {
				files scriggo.Files
				main  string
			}{scriggo.Files{"index.html": []byte(src)}, "index.html"})
		}
		for fi, f := range fixed {
			panicTemplates = fi >= len(fixed)-len(panicking)
			t, err := scriggo.BuildTemplate(f.files, f.main, &scriggo.BuildOptions{Globals: tvalGlobals(), MarkdownConverter: fakeConv})
			if err != nil {
				c.Fail("fixed-corpus-does-not-build", map[string]any{"error": err.Error()})
				continue
			}
			m := map[string]string{}
			for k, v := range f.files {
				m[k] = string(v)
			}
			checkWriteFail(c, t, func() map[string]any {
				return map[string]any{"files": m, "main": f.main, "conv": true, "panicking": panicTemplates}
			}, 200)
		}
		panicTemplates = false
		for i := 0; i < c.N; i++ {
			fs := genSmallFileSet(c, false)
			conv := c.Rng.Intn(6) != 0
			t, msg := fs.build(conv)
			if t == nil {
				c.Count("build-failures")
				if strings.HasPrefix(msg, "buildpanic") {
					c.Fail("host-panic:build", map[string]any{"files": fs.srcMap(), "panic": msg})
				}
				continue
			}
			c.Count("templates")
			f := fs.file(fs.main)
			checkWriteFail(c, t, func() map[string]any {
				return map[string]any{"files": fs.srcMap(), "main": pathName(f.path, f.fmt), "conv": conv}
			}, 60)
			if len(c.Samples) < 2 {
				c.Sample(map[string]any{"files": fs.srcMap()})
			}
		}
	})
}

func runSources(files map[string]string, main string, conv bool) (tcResult, string) {
	fsys := scriggo.Files{}
	for k, v := range files {
		fsys[k] = []byte(v)
	}
	opts := &scriggo.BuildOptions{Globals: tvalGlobals()}
	if conv {
		opts.MarkdownConverter = fakeConv
	}
	var t *scriggo.Template
	var err error
	if msg := PanicText(func() { t, err = scriggo.BuildTemplate(fsys, main, opts) }); msg != "" {
		return tcResult{}, "buildpanic:" + normPanic(msg)
	}
	if err != nil {
		return tcResult{}, "build:" + err.Error()
	}
	return runTemplate(t, 0), ""
}

func genWith(g *gen) *fileSet {
	c := g.c
	pathDir, pathBase = map[int]string{}, map[int]string{}
	g.dirs = c.Rng.Intn(3) == 0
	f := []int{fHTML, fHTML, fHTML, fText, fMarkdown, fJS, fCSS, fJSON}[c.Rng.Intn(8)]
	if c.Rng.Intn(5) == 0 {
		lay := &sFile{path: g.nextPath, fmt: f, extends: -1}
		g.nextPath++
		g.fs.files = append(g.fs.files, lay)
		g.place(lay)
		child := g.newFile(f, 1, true)
		child.extends = lay.path
		nm := g.c.Rng.Intn(2)
		for i := 0; i < nm; i++ {
			lay.macros = append(lay.macros, g.macro(f, lay, child, 1))
		}
		lay.body = g.body(f, lay, child, 0, 1, 2+c.Rng.Intn(4))
		g.fs.main = child.path
		return g.fs
	}
	m := g.newFile(f, 0, false)
	g.fs.main = m.path
	return g.fs
}
