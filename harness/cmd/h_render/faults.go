package main

// C05 part 3: the fault table. Each entry is a class of instruction, the raw
// Go panic it raises, and the result convertPanic / VM.Run give to it (read
// from internal/runtime/errors.go). Every entry is exercised on real programs
// and templates under a host recover().

import (
	"bytes"
	"reflect"
	"context"
	"errors"
	"fmt"
	"regexp"
	"strings"

	. "verif/harness/hlib"

	"github.com/open2b/scriggo"
	"github.com/open2b/scriggo/native"
)

var errStop = errors.New("verif: stop")

type fatalValue struct{ S string }

// host values with embedded pointers, maps and slices of structs
type HostInner struct{ Name string }
type HostOuter struct {
	*HostInner
	ID int
}
type HostDeep struct {
	HostOuter
	M map[string]HostInner
	S []HostInner
	P *HostInner
	A [2]HostInner
}

// an interface with variadic methods and a type with a value method
type HostLogger interface {
	Logf(format string, args ...any) string
	Count(xs ...int) int
}
type hostLog struct{ prefix string }

func (l hostLog) Logf(format string, args ...any) string { return l.prefix + fmt.Sprintf(format, args...) }
func (l hostLog) Count(xs ...int) int                    { return len(xs) }

type HostPt struct{ X, Y int }

func (p HostPt) Sum() int { return p.X + p.Y }

var hostPkg = native.Packages{"host": native.Package{Name: "host", Declarations: hostDecls}}

var hostDecls = native.Declarations{
	"Stop":        func(env native.Env) { env.Stop(errStop) },
	"StopNil":     func(env native.Env) { env.Stop(nil) },
	"Fatal":       func(env native.Env) { env.Fatal(fatalValue{"fatal"}) },
	"PanicString": func() { panic("native panic") },
	"PanicError":  func() { panic(errors.New("native error")) },
	"PanicInt":    func() { panic(7) },
	"NilDeref":    func() int { var p *int; return *p },
	"Index":       func(i int) int { return []int{1}[i] },
	"Ident":       func(i int) int { return i },
	"Call":        func(f func()) { f() },
	"NilFunc":     (func())(nil),
	"Outer":       reflect.TypeOf(HostOuter{}),
	"Deep":        reflect.TypeOf(HostDeep{}),
	"Inner":       reflect.TypeOf(HostInner{}),
	"Err":         errors.New("native error value"),
	"Logger":      reflect.TypeOf((*HostLogger)(nil)).Elem(),
	"NewLogger":   func() HostLogger { return hostLog{"> "} },
	"Pt":          reflect.TypeOf(HostPt{}),
}

// outcome of a run, canonical
func outcomeOf(err error, hostPanic any, panicked bool) string {
	if panicked {
		switch v := hostPanic.(type) {
		case fatalValue:
			return "HOSTPANIC(Fatal value):" + v.S
		case error:
			return "HOSTPANIC:" + v.Error()
		default:
			return "HOSTPANIC:" + fmt.Sprint(hostPanic)
		}
	}
	if err == nil {
		return "nil"
	}
	var p *scriggo.PanicError
	if errors.As(err, &p) {
		return "PanicError:" + p.String()
	}
	if err == errStop {
		return "Stop"
	}
	if err == context.Canceled || err == context.DeadlineExceeded {
		return "ctx:" + err.Error()
	}
	if err == errWrite {
		return "write-error"
	}
	return "error:" + err.Error()
}

func runProgram(src string, ctx context.Context) (out string) {
	var err error
	var pv any
	panicked := true
	func() {
		defer func() {
			if panicked {
				pv = recover()
			}
		}()
		var p *scriggo.Program
		p, err = scriggo.Build(scriggo.Files{"go.mod": []byte("module m\ngo 1.20\n"), "main.go": []byte(src)}, &scriggo.BuildOptions{Packages: hostPkg, AllowGoStmt: true})
		if err != nil {
			err = fmt.Errorf("BUILD: %v", err)
			panicked = false
			return
		}
		opts := &scriggo.RunOptions{Print: func(any) {}}
		if ctx != nil {
			opts.Context = ctx
		}
		err = p.Run(opts)
		panicked = false
	}()
	return outcomeOf(err, pv, panicked)
}

type tmplRun struct {
	files   scriggo.Files
	name    string
	globals native.Declarations
	vars    map[string]any
	conv    scriggo.Converter
	failAt  int
}

func (tr tmplRun) run() (outcome string, written string) {
	var err error
	var pv any
	panicked := true
	rec := &failWriter{failAt: tr.failAt}
	func() {
		defer func() {
			if panicked {
				pv = recover()
			}
		}()
		var t *scriggo.Template
		t, err = scriggo.BuildTemplate(tr.files, tr.name, &scriggo.BuildOptions{Globals: tr.globals, MarkdownConverter: tr.conv})
		if err != nil {
			err = fmt.Errorf("BUILD: %v", err)
			panicked = false
			return
		}
		err = t.Run(rec, tr.vars, nil)
		panicked = false
	}()
	return outcomeOf(err, pv, panicked), rec.buf.String()
}

// failWriter is a plain io.Writer (no WriteString) failing from its failAt-th call on.
type failWriter struct {
	buf    bytes.Buffer
	calls  int
	failAt int
	chunks []string
	after  int // bytes offered after the first failure
}

func (w *failWriter) Write(b []byte) (int, error) {
	w.calls++
	if w.failAt > 0 && w.calls >= w.failAt {
		if w.calls > w.failAt {
			w.after += len(b)
		}
		return 0, errWrite
	}
	w.buf.Write(b)
	w.chunks = append(w.chunks, string(b))
	return len(b), nil
}

type faultCase struct {
	entry string // table entry: instruction class / raw panic
	kind  string // program | template
	src   string
	want  string // regular expression on the canonical outcome
	tr    *tmplRun
	known string // signature of a recorded finding: emitted when the outcome is a host panic containing knownMatch
	knownMatch string
	ctxCancel bool // run with a context that is cancelled
	// the raw panic the instruction raises, for the correspondence with convertPanic's model
	op, pkind, pmsg string
	calleeNative    bool
}

func prog(body string) string {
	return "package main\n\nimport \"host\"\n\nvar _ = host.Ident\n\ntype U struct{ A int }\ntype T struct{ A int; P *U }\n\nfunc deep(n int) int { if n == 0 { return 0 }; return deep(n-1) + 1 }\n\nfunc namedResult() (x int) {\n\tdefer func() {\n\t\tr := recover()\n\t\tif r != nil {\n\t\t\tx = 7\n\t\t}\n\t}()\n\tpanic(\"p\")\n}\n\nfunc main() {\n" + body + "\n}\n"
}

var intKinds = []string{"int", "int8", "int16", "int32", "int64", "uint", "uint8", "uint16", "uint32", "uint64"}

func faultTable() []faultCase {
	var t []faultCase
	add := func(entry, body, want string) {
		t = append(t, faultCase{entry: entry, kind: "program", src: prog(body), want: want})
	}
	const pe = "^PanicError:"
	for _, k := range intKinds {
		add("Div/"+k+"/integer-divide-by-zero", "var a, b "+k+" = 7, 0\n_ = a / b", pe+"runtime error: integer divide by zero$")
		add("Rem/"+k+"/integer-divide-by-zero", "var a, b "+k+" = 7, 0\n_ = a % b", pe+"runtime error: integer divide by zero$")
	}
	add("DivInt/const-dividend", "b := 0\nprintln(10 / b)", pe+"runtime error: integer divide by zero$")
	add("Load/nil-pointer", "var p *int\nprintln(*p)", pe+"runtime error: invalid memory address or nil pointer dereference$")
	add("Store/nil-pointer", "var p *int\n*p = 3", pe+"runtime error: invalid memory address or nil pointer dereference$")
	add("Field/nil-pointer", "var p *T\nprintln(p.A)", pe+"runtime error: invalid memory address or nil pointer dereference$")
	add("Field/nil-pointer-chain", "p := &T{}\nprintln(p.P.A)", pe+"runtime error: invalid memory address or nil pointer dereference$")
	add("SetField/nil-pointer", "var p *T\np.A = 1", pe+"runtime error: invalid memory address or nil pointer dereference$")
	add("CallIndirect/nil-func", "var f func()\nf()", pe+"runtime error: invalid memory address or nil pointer dereference$")
	add("MethodValue/nil-interface", "var e error\nprintln(e.Error())", pe+"runtime error: invalid memory address or nil pointer dereference$")
	add("SetMap/nil-map", "var m map[string]int\nm[\"a\"] = 1", pe+"assignment to entry in nil map$")
	add("SetMap/unhashable", "m := map[interface{}]int{}\nvar k interface{} = []int{1}\nm[k] = 1", pe+"runtime error: hash of unhashable type \\[\\]int$")
	add("Index-map/unhashable", "m := map[interface{}]int{}\nvar k interface{} = []int{1}\nprintln(m[k])", pe+"hash of unhashable type: \\[\\]int$")
	add("Delete/unhashable", "m := map[interface{}]int{}\nvar k interface{} = []int{1}\ndelete(m, k)", pe+"hash of unhashable type: \\[\\]int$")
	add("If/uncomparable", "var a, b interface{} = []int{1}, []int{1}\nprintln(a == b)", pe+"runtime error: comparing uncomparable type \\[\\]int$")
	add("Index/slice-out-of-range", "s := []int{1}\ni := 5\nprintln(s[i])", pe+"runtime error: index out of range \\[5\\] with length 1$")
	add("Index/slice-negative", "s := []int{1}\ni := -1\nprintln(s[i])", pe+"runtime error: index out of range \\[-1\\]")
	add("Index/array-out-of-range", "a := [2]int{1, 2}\ni := 2\nprintln(a[i])", pe+"runtime error: index out of range \\[2\\] with length 2$")
	add("IndexString/out-of-range", "s := \"ab\"\ni := 2\nprintln(s[i])", pe+"runtime error: index out of range \\[2\\] with length 2$")
	add("SetSlice/out-of-range", "s := []int{1}\ni := 3\ns[i] = 1", pe+"runtime error: index out of range \\[3\\] with length 1$")
	add("Addr/out-of-range", "s := []int{1}\ni := 3\np := &s[i]\nprintln(*p)", pe+"runtime error: index out of range \\[3\\] with length 1$")
	add("IndexRef/out-of-range", "s := []T{{}}\ni := 3\ns[i].A = 1", pe+"runtime error: index out of range \\[3\\] with length 1$")
	add("Slice/bounds", "s := []int{1, 2}\ni := 5\nprintln(len(s[1:i]))", pe+"runtime error: slice bounds out of range$")
	add("Slice/inverted", "s := []int{1, 2}\ni, j := 2, 1\nprintln(len(s[i:j]))", pe+"runtime error: slice bounds out of range$")
	add("Slice/three-index", "s := []int{1, 2}\ni := 5\nprintln(len(s[0:1:i]))", pe+"runtime error: slice bounds out of range$")
	add("StringSlice/bounds", "s := \"ab\"\ni := 5\nprintln(s[1:i])", pe+"runtime error: slice bounds out of range$")
	add("Assert/wrong-type", "var x interface{} = \"s\"\nprintln(x.(int))", pe+"interface conversion: interface \\{\\} is string, not int$")
	add("Assert/nil-interface", "var x interface{}\nprintln(x.(int))", pe+"interface conversion: interface \\{\\} is nil, not int$")
	add("Assert/missing-method", "var x interface{} = 1\n_ = x.(error)", pe+"interface conversion: int is not error: missing method Error$")
	add("Close/nil-channel", "var c chan int\nclose(c)", pe+"close of nil channel$")
	add("Close/closed-channel", "c := make(chan int)\nclose(c)\nclose(c)", pe+"close of closed channel$")
	add("Send/closed-channel", "c := make(chan int, 1)\nclose(c)\nc <- 1", pe+"send on closed channel$")
	add("Convert/slice-to-array-pointer-length", "s := []int{1}\np := (*[2]int)(s)\nprintln(p[0])", pe+"runtime error: cannot convert slice with length 1 to pointer to array with length 2$")
	add("MakeSlice/negative-len", "n := -1\ns := make([]int, n)\nprintln(len(s))", pe+"runtime error: makeslice: len out of range$")
	add("MakeSlice/len-larger-than-cap", "n := 1\ns := make([]int, 2, n)\nprintln(len(s))", pe+"runtime error: makeslice: cap out of range$")
	add("MakeChan/negative", "n := -1\nc := make(chan int, n)\nprintln(len(c))", pe+"makechan: size out of range$")
	add("AppendSlice/overflow", "s := make([]struct{}, 1<<62)\ns = append(s, s...)\nprintln(len(s))", pe+"append: out of memory$")
	add("Panic/string", "panic(\"boom\")", pe+"boom$")
	add("Panic/int", "panic(42)", pe+"42$")
	add("Panic/float", "panic(1.5)", pe+"1.5e\\+00$")
	add("Panic/bool", "panic(true)", pe+"true$")
	add("Panic/error", "panic(host.Err)", pe)
	add("Panic/nil", "panic(nil)", pe+"panic called with nil argument \\(obsolete and disabled by GODEBUG=panicnil=1 setting\\)|^PanicError:panic called with nil argument")
	add("Panic/struct", "panic(T{A: 3})", pe)
	add("Panic/named-int", "type N int\npanic(N(3))", pe)
	add("Panic/slice", "panic([]int{1})", pe)
	add("Panic/recovered", "defer func() { recover() }()\npanic(\"x\")", "^nil$")
	add("Panic/repanic-in-defer", "defer func() { panic(\"second\") }()\npanic(\"first\")", pe+"second$")
	add("CallNative/value-method-through-nil-pointer", "var p *host.Pt\nprintln(p.Sum())", pe+"runtime error: invalid memory address or nil pointer dereference$")
	add("MethodValue/value-method-through-nil-pointer", "var p *host.Pt\nf := p.Sum\nprintln(\"not reached\", f())", pe+"runtime error: invalid memory address or nil pointer dereference$")
	add("MethodValue/bound-to-a-copy", "p := &host.Pt{X: 1, Y: 2}\nf := p.Sum\np.X = 100\nq := host.Pt{X: 3}\nr := &q\ng := q.Sum\nr.X = 50\npanic(f()*1000 + g())", pe+"3003$")
	add("CallIndirect-method/variadic-interface-method", "l := host.NewLogger()\npanic(l.Logf(\"%d-%s|\", 1, \"a\") + l.Logf(\"plain|\") + l.Logf(\"%v%v\", []interface{}{2, \"b\"}...))", pe+"> 1-a\\|> plain\\|> 2b$")
	add("CallIndirect-method/variadic-interface-method-counts", "l := host.NewLogger()\npanic(l.Count()*1000 + l.Count(7)*100 + l.Count(7, 8, 9)*10 + l.Count([]int{1, 2}...))", pe+"132$")
	add("Defer/interface-method", "l := host.NewLogger()\ndefer l.Logf(\"%d\", 1)\ndefer l.Count()\ndefer l.Count([]int{1}...)", "^nil$")
	add("Defer/interface-method-nil-interface", "var l host.Logger\ndefer l.Count(1)", pe+"runtime error: invalid memory address or nil pointer dereference$")
	add("CallNative/callback-with-escaping-result", "r := 0\nhost.Call(func() { r = func() (n int) { defer func() { n *= 2 }(); n = 21; return }() })\nf := func() (n int) { p := &n; *p = 4; return }\ng := f\nfunc() { _ = f }()\npanic(r*10 + g() + f())", pe+"428$")
	add("CallNative/panic-recovered-into-named-result", "f := func() (n int, s string) {\n\tdefer func() {\n\t\tif r := recover(); r != nil {\n\t\t\tn, s = 7, \"rec\"\n\t\t}\n\t}()\n\thost.PanicString()\n\treturn 1, \"no\"\n}\nn, s := f()\nfs := []func(){func() { panic(\"elem\") }}\ng := func() (k int) {\n\tdefer func() {\n\t\tif recover() != nil {\n\t\t\tk = 30\n\t\t}\n\t}()\n\th := fs[0]\n\th()\n\treturn 2\n}\npanic(s + string(rune('0'+n)) + string(rune('0'+g()/10)))", pe+"rec73$")
	add("CallNative/panic-string", "host.PanicString()", pe+"native panic$")
	add("CallNative/panic-error", "host.PanicError()", pe+"native error$")
	add("CallNative/panic-int", "host.PanicInt()", pe+"7$")
	add("CallNative/Stop", "host.Stop()\nprintln(\"not reached\")", "^Stop$")
	add("CallNative/Stop-nil", "host.StopNil()\nprintln(\"not reached\")", "^nil$")
	add("CallNative/Stop-not-recoverable", "defer func() { recover() }()\nhost.Stop()", "^Stop$")
	add("CallNative/Fatal", "host.Fatal()", "^HOSTPANIC\\(Fatal value\\):fatal$")
	add("CallNative/Fatal-not-recoverable", "defer func() { recover() }()\nhost.Fatal()", "^HOSTPANIC\\(Fatal value\\):fatal$")
	add("CallNative/runtime-error-in-native-code", "println(host.NilDeref())", "^HOSTPANIC:runtime error: invalid memory address or nil pointer dereference$")
	add("CallNative/index-error-in-native-code", "println(host.Index(3))", "^HOSTPANIC:runtime error: index out of range \\[3\\] with length 1$")
	add("CallIndirect-native/nil-func-value", "f := host.NilFunc\nf()", pe+"runtime error: invalid memory address or nil pointer dereference$")
	add("CallNative/callback-panics", "host.Call(func() { panic(\"cb\") })", pe+"cb$")
	add("Go/nil-func", "var f func()\ngo f()", "^error:fatal error: go of nil func value$")
	add("Range/nil-array-pointer", "var p *[2]int\nfor i, x := range p { println(i, x) }", pe+"runtime error: invalid memory address or nil pointer dereference$")
	// recursion deeper than the initial register stacks (512): the stacks grow (fix 1709e08); unbounded
	// recursion is not run: it exhausts the memory of the process, as under gc
	add("Call/deep-recursion", "println(deep(5000))", "^nil$")
	add("Range/nil-array-pointer-index-only", "var p *[2]int\nfor i := range p { println(i) }", "^nil$")
	add("Recover/named-result-assigned-under-nil-test", "println(namedResult())", "^nil$")
	add("Append/func-literal", "var fs []func()\nfs = append(fs, func() {})\nprintln(len(fs))", "^nil$")
	add("Append/nil-element", "var is []any\nis = append(is, nil, 1)\nvar ps []*int\nps = append(ps, nil)\nprintln(len(is), len(ps))", "^nil$")
	add("Defer-native/panics-while-unwinding", "defer host.PanicString()\npanic(\"a\")", pe)
	add("Defer-native/stop-while-unwinding", "defer host.Stop()\npanic(\"a\")", "^Stop$")
	add("Defer-native/panics-at-return", "defer host.PanicString()", pe+"native panic$")
	raw := func(entry, op, kind, msg string, cn bool) {
		for i := range t {
			if t[i].entry == entry || (strings.HasSuffix(entry, "*") && strings.HasPrefix(t[i].entry, strings.TrimSuffix(entry, "*"))) {
				if t[i].op == "" {
					t[i].op, t[i].pkind, t[i].pmsg, t[i].calleeNative = op, kind, msg, cn
				}
			}
		}
	}
	const dz = "runtime error: integer divide by zero"
	raw("Div/int/integer-divide-by-zero", "OpDivInt", "go", dz, false)
	raw("Rem/int/integer-divide-by-zero", "OpRemInt", "go", dz, false)
	raw("Div/*", "OpDiv", "go", dz, false)
	raw("Rem/*", "OpRem", "go", dz, false)
	raw("DivInt/const-dividend", "OpDivInt", "go", dz, false)
	raw("Load/nil-pointer", "OpAdd", "scriggo", "runtime error: invalid memory address or nil pointer dereference", false)
	raw("Field/nil-pointer", "OpAdd", "scriggo", "runtime error: invalid memory address or nil pointer dereference", false)
	raw("SetMap/nil-map", "OpSetMap", "go", "assignment to entry in nil map", false)
	raw("SetMap/unhashable", "OpSetMap", "go", "runtime error: hash of unhashable type []int", false)
	raw("Index-map/unhashable", "OpMapIndex", "go", "hash of unhashable type: []int", false)
	raw("Delete/unhashable", "OpDelete", "go", "hash of unhashable type: []int", false)
	raw("If/uncomparable", "OpIf", "go", "runtime error: comparing uncomparable type []int", false)
	raw("Index/slice-out-of-range", "OpIndex", "string", "reflect: slice index out of range", false)
	raw("Index/array-out-of-range", "OpIndex", "string", "reflect: array index out of range", false)
	raw("IndexString/out-of-range", "OpIndexString", "go", "runtime error: index out of range [2] with length 2", false)
	raw("SetSlice/out-of-range", "OpSetSlice", "string", "reflect: slice index out of range", false)
	raw("Slice/bounds", "OpSlice", "string", "reflect.Value.Slice3: slice index out of bounds", false)
	raw("StringSlice/bounds", "OpStringSlice", "go", "runtime error: slice bounds out of range [:5] with length 2", false)
	raw("Assert/*", "OpAdd", "scriggo", "interface conversion", false)
	raw("Close/nil-channel", "OpClose", "go", "close of nil channel", false)
	raw("Close/closed-channel", "OpClose", "go", "close of closed channel", false)
	raw("Send/closed-channel", "OpSend", "go", "send on closed channel", false)
	raw("Convert/slice-to-array-pointer-length", "OpConvert", "string", "reflect: cannot convert slice with length 1 to pointer to array with length 2", false)
	raw("MakeSlice/negative-len", "OpMakeSlice", "string", "reflect.MakeSlice: negative len", false)
	raw("MakeSlice/len-larger-than-cap", "OpMakeSlice", "string", "reflect.MakeSlice: len > cap", false)
	raw("MakeChan/negative", "OpMakeChan", "string", "reflect.MakeChan: negative buffer size", false)
	raw("AppendSlice/overflow", "OpAppendSlice", "string", "reflect.Value.Grow: slice overflow", false)
	raw("Panic/string", "OpPanic", "string", "boom", false)
	raw("Panic/int", "OpPanic", "other", "", false)
	raw("Panic/error", "OpPanic", "error", "native error value", false)
	raw("Panic/struct", "OpPanic", "other", "", false)
	raw("CallNative/panic-string", "OpCallNative", "string", "native panic", true)
	raw("CallNative/panic-error", "OpCallNative", "error", "native error", true)
	raw("CallNative/panic-int", "OpCallNative", "other", "", true)
	raw("CallNative/Stop", "OpCallNative", "stop", "", true)
	raw("CallNative/Fatal", "OpCallNative", "fatal", "", true)
	raw("CallNative/runtime-error-in-native-code", "OpCallNative", "go", "runtime error: invalid memory address or nil pointer dereference", true)
	raw("CallNative/index-error-in-native-code", "OpCallNative", "go", "runtime error: index out of range [3] with length 1", true)
	raw("Go/nil-func", "OpGo", "error", "fatal error: go of nil func value", false)
	raw("Defer-native/panics-at-return", "OpReturn", "string", "native panic", false)
	raw("CallNative/callback-panics", "OpCallNative", "panicerror", "", true)

	mark := func(entry, sig, match string) {
		for i := range t {
			if t[i].entry == entry {
				t[i].known, t[i].knownMatch = sig, match
				return
			}
		}
		panic("no entry " + entry)
	}
	// the three Defer-native entries were the known findings host-panic:deferred-native-call-while-unwinding
	// and host-panic:deferred-native-panic-at-return: repaired by 6756254, they are regressions now
	// CallNative/callback-panics was the known finding host-panic:callback-panic-is-fatal: repaired by 34a254c

	// ---- templates
	g := native.Declarations{"v": (*any)(nil), "s": (*string)(nil), "stop": hostDecls["Stop"], "fatal": hostDecls["Fatal"], "boom": hostDecls["PanicString"]}
	addT := func(entry string, tr tmplRun, want string) {
		if tr.globals == nil {
			tr.globals = g
		}
		t = append(t, faultCase{entry: entry, kind: "template", want: want, tr: &tr})
	}
	one := func(name, src string) scriggo.Files { return scriggo.Files{name: []byte(src)} }
	addT("Show/unshowable-html", tmplRun{files: one("i.html", "a{{ v }}b"), name: "i.html", vars: map[string]any{"v": anyp(unshowable{1})}}, "^error:cannot show value of type main.unshowable$")
	addT("Show/unshowable-url", tmplRun{files: one("i.html", `<a href="{{ v }}">`), name: "i.html", vars: map[string]any{"v": anyp(unshowable{1})}}, "^error:cannot show value of type main.unshowable$")
	addT("Show/unshowable-recovered", tmplRun{files: one("i.html", "{% macro M %}{% defer func() { recover() }() %}{{ v }}{% end %}{{ M() }}ok"), name: "i.html", vars: map[string]any{"v": anyp(unshowable{1})}}, "^nil$")
	addT("Show/nil-css-string", tmplRun{files: one("i.html", `<style>a{content:"{{ v }}"}</style>`), name: "i.html"}, "^nil$")
	addT("Show/url-empty-after-question-mark", tmplRun{files: one("i.html", `<a href="{{ s }}{{ v }}">`), name: "i.html", vars: map[string]any{"s": "x?y", "v": anyp("")}}, "^nil$")
	addT("Text/write-error", tmplRun{files: one("i.html", "abc{{ s }}def"), name: "i.html", failAt: 1}, "^write-error$")
	addT("Show/write-error", tmplRun{files: one("i.html", "abc{{ s }}def"), name: "i.html", vars: map[string]any{"s": "x"}, failAt: 2}, "^write-error$")
	addT("Template/div-by-zero", tmplRun{files: one("i.html", "{% var a, b = 1, 0 %}{{ a / b }}"), name: "i.html"}, pe+"runtime error: integer divide by zero$")
	addT("Template/index-out-of-range", tmplRun{files: one("i.html", "{% var a = []int{1} %}{% var i = 4 %}{{ a[i] }}"), name: "i.html"}, pe+"runtime error: index out of range \\[4\\] with length 1$")
	addT("Template/Stop", tmplRun{files: one("i.html", "a{% stop() %}b"), name: "i.html"}, "^Stop$")
	addT("Template/Fatal", tmplRun{files: one("i.html", "a{% fatal() %}b"), name: "i.html"}, "^HOSTPANIC\\(Fatal value\\):fatal$")
	addT("Template/native-panic", tmplRun{files: one("i.html", "a{% boom() %}b"), name: "i.html"}, pe+"native panic$")
	addT("Template/markdown-partial-without-converter", tmplRun{files: scriggo.Files{"index.html": []byte(`<p>{{ render "p.md" }}</p>`), "p.md": []byte("# t\n")}, name: "index.html"}, "^nil$")
	mark("Template/markdown-partial-without-converter", "host-panic:no-markdown-converter", "no Markdown convert available")
	addT("Template/default-global-in-macro", tmplRun{files: one("i.html", "{% macro M %}{{ x default 5 }}{% end %}{{ M() }}"), name: "i.html",
		globals: native.Declarations{"x": (*int)(nil)}, vars: map[string]any{"x": 7}}, "^nil$")
	raw("Text/write-error", "OpText", "out", "", false)
	raw("Show/write-error", "OpShow", "out", "", false)
	raw("Show/unshowable-html", "OpShow", "out", "", false)
	raw("Template/div-by-zero", "OpDivInt", "go", dz, false)
	raw("Template/Stop", "OpCallNative", "stop", "", true)
	raw("Template/Fatal", "OpCallNative", "fatal", "", true)
	raw("Template/native-panic", "OpCallNative", "string", "native panic", true)
	raw("Template/markdown-partial-without-converter", "OpCallMacro", "fatal", "", false)
	// host structs: fields promoted through nil embedded pointers, nil pointer fields, slices and maps of structs
	const np = "runtime error: invalid memory address or nil pointer dereference$"
	hg := func() native.Declarations {
		return native.Declarations{"o": &HostOuter{ID: 1}, "d": &HostDeep{S: []HostInner{{"s0"}}}, "i": (*int)(nil)}
	}
	for _, hc := range []struct{ entry, src, want string }{
		{"HostField/promoted-through-nil-embedded-pointer", "{{ o.ID }}{{ o.Name }}", pe + np},
		{"HostField/promoted-two-steps-through-nil-embedded-pointer", "{{ d.ID }}{{ d.Name }}", pe + np},
		{"HostField/nil-pointer-field", "{{ d.P.Name }}", pe + np},
		{"HostField/direct-field-of-struct-with-nil-embedded", "{{ o.ID }}{{ d.ID }}", "^nil$"},
		{"HostIndex/slice-of-structs-out-of-range", "{{ d.S[i].Name }}", pe + "runtime error: index out of range \\[7\\] with length 1$"},
		{"HostIndex/array-of-structs-out-of-range", "{{ d.A[i].Name }}", pe + "runtime error: index out of range \\[7\\] with length 2$"},
		{"HostIndex/nil-map-of-structs-read", "{{ d.M[\"k\"].Name }}", "^nil$"},
		{"HostSetMap/nil-map-of-structs", "{% d.M[\"k\"] = d.S[0] %}", pe + "assignment to entry in nil map$"},
		{"HostSetField/through-nil-embedded-pointer", "{% o.Name = \"x\" %}", pe + np},
		{"HostSetField/nil-pointer-field", "{% d.P.Name = \"x\" %}", pe + np},
		{"HostAddr/field-through-nil-embedded-pointer", "{% var p = &o.Name %}{{ *p }}", pe + np},
	} {
		addT(hc.entry, tmplRun{files: one("i.txt", hc.src), name: "i.txt", globals: hg(), vars: map[string]any{"i": 7}}, hc.want)
	}
	add("HostField/program-promoted-through-nil-embedded-pointer", "var o host.Outer\nprintln(o.ID)\nprintln(o.Name)", pe+np)
	add("HostField/program-set-through-nil-embedded-pointer", "var o host.Outer\no.Name = \"x\"", pe+np)
	add("HostField/program-nil-pointer-to-host-struct", "var p *host.Deep\nprintln(p.ID)", pe+np)
	add("HostIndex/program-slice-of-host-structs", "var d host.Deep\ni := 2\nprintln(d.S[i].Name)", pe+"runtime error: index out of range \\[2\\] with length 0$")
	addT("Call/imported-recursive-macro-depth-600", tmplRun{files: scriggo.Files{"i.html": []byte(`{% import "m.html" %}[{{ Count(600) }}]`),
		"m.html": []byte(`{% macro Count(n int) %}{% if n > 0 %}{{ Count(n-1) }}{% end %}{% end %}`)}, name: "i.html"}, "^nil$")
	t = append(t, faultCase{entry: "Context/cancelled", kind: "program", src: prog("for {\n}"), want: "^ctx:context canceled$", ctxCancel: true})
	return t
}

func anyp(x any) *any { return &x }

var reAddr = regexp.MustCompile(`0x[0-9a-f]+`)

func normPanic(s string) string {
	s = reAddr.ReplaceAllString(s, "0x?")
	if i := strings.IndexByte(s, '\n'); i >= 0 {
		s = s[:i]
	}
	if len(s) > 160 {
		s = s[:160]
	}
	return s
}


func (fc *faultCase) run() string {
	if fc.kind == "template" {
		out, _ := fc.tr.run()
		return out
	}
	if fc.ctxCancel {
		ctx, cancel := context.WithCancel(context.Background())
		cancel()
		return runProgram(fc.src, ctx)
	}
	return runProgram(fc.src, nil)
}

// check runs the case and reports a failure of the fault table.
func (fc *faultCase) check(c *Ctx, variant string) {
	c.Count("evaluations")
	c.Count("fault-cases")
	got := fc.run()
	if ok, _ := regexp.MatchString(fc.want, got); ok {
		if got != "nil" {
			c.Count("nontrivial")
		}
		return
	}
	det := map[string]any{"entry": fc.entry, "variant": variant, "outcome": normPanic(got), "want": fc.want, "kind": fc.kind}
	if fc.kind == "program" {
		det["src"] = fc.src
	} else {
		m := map[string]string{}
		for k, v := range fc.tr.files {
			m[k] = string(v)
		}
		det["files"] = m
	}
	if strings.HasPrefix(got, "HOSTPANIC") {
		if fc.known != "" && strings.Contains(got, fc.knownMatch) {
			c.Fail(fc.known, det)
			return
		}
		c.Fail("host-panic:"+fc.entry, det)
		return
	}
	c.Fail("fault-table:"+fc.entry, det)
}

// wrappers: the same faulting statement in different positions of a program
var wrappers = []struct {
	name string
	f    func(body string) string
	want func(orig string) string // outcome expected instead of the entry's own ("" = unchanged)
}{
	{"in-function", func(b string) string { return "f := func() {\n" + b + "\n}\nf()" }, nil},
	{"in-loop", func(b string) string { return "for i := 0; i < 2; i++ {\n" + b + "\n}" }, nil},
	{"in-deferred", func(b string) string { return "defer func() {\n" + b + "\n}()" }, nil},
	{"recovered", func(b string) string { return "defer func() { recover() }()\n" + b }, func(orig string) string {
		if strings.HasPrefix(orig, "^PanicError") {
			return "^nil$"
		}
		return ""
	}},
	{"recovered-in-callee", func(b string) string {
		return "f := func() {\ndefer func() { recover() }()\n" + b + "\n}\nf()\nprintln(\"after\")"
	}, func(orig string) string {
		if strings.HasPrefix(orig, "^PanicError") {
			return "^nil$"
		}
		return ""
	}},
	{"after-recovered-panic", func(b string) string {
		return "func() {\ndefer func() { recover() }()\npanic(\"first\")\n}()\n" + b
	}, nil},
}

func init() {
	Register("C05-faults-dump", func(c *Ctx) {
		for _, fc := range faultTable() {
			got := fc.run()
			ok, _ := regexp.MatchString(fc.want, got)
			c.Line(fmt.Sprint(ok), fc.entry, normPanic(got))
		}
	})
}

// class of the real outcome, in the vocabulary of the model of VM.Run
func outcomeClass(o string) string {
	switch {
	case o == "nil":
		return "nil"
	case strings.HasPrefix(o, "PanicError:"):
		return "panic"
	case o == "Stop":
		return "stop"
	case o == "write-error" || strings.HasPrefix(o, "error:cannot show"):
		return "out"
	case strings.HasPrefix(o, "error:"):
		return "error"
	case strings.HasPrefix(o, "HOSTPANIC(Fatal value)"):
		return "fatal:passed"
	case strings.HasPrefix(o, "HOSTPANIC:fatal error:"):
		return "fatal:wrapped" // the payload is a *fatalError wrapped in a fatalError
	case strings.HasPrefix(o, "HOSTPANIC"):
		return "fatal:wrapped"
	case strings.HasPrefix(o, "ctx:"):
		return "ctx"
	}
	return "?" + o
}

func convCases(c *Ctx) {
	for _, fc := range faultTable() {
		if fc.op == "" {
			continue
		}
		got := fc.run()
		c.Line("conv", fc.op, b01(fc.calleeNative), fc.pkind, Hx(fc.pmsg), outcomeClass(got))
		c.Count("fault-table-conversions")
	}
}
