// Implementation-side harness of the `render` engine (C05, C13, C16).
package main

import (
	. "verif/harness/hlib"
)

func main() { Main() }
