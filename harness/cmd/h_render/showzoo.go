package main

// C05, show functions: a dictionary of Go values (defined types over every
// basic kind, over []byte, slices, arrays, maps, structs, pointers, functions
// and channels; implementers of error, fmt.Stringer, native.EnvStringer and of
// the format specific Stringer interfaces with value and with pointer
// receivers; the native format types; nil of each nillable kind; interfaces
// nested in composites) is shown through an interface typed variable in every
// context:
//
//	C05-show-cases  renderer.Show through the hook, one line per (value,
//	                context): ok / cannotshow / panic, for the model driver
//	                (ShowTypesM.dynamic_show + ShowJsonM over the decision
//	                trees generated from renderer.go)
//	C05-show-sweep  real templates `{{ v }}` (v of type interface{}) in every
//	                context of every format under a host recover: Run returns
//	                nil or the documented `cannot show value of type` error,
//	                never panics, and agrees with the hook
//
// Values whose own methods panic are a separate, documented case: they are
// not given to the model (the method is the embedder's code) and the sweep
// records what Run does with them.

import (
	"bytes"
	"context"
	"encoding/hex"
	"errors"
	"fmt"
	"math"
	"os"
	"os/exec"
	"reflect"
	"runtime/debug"
	"strings"
	"time"
	"unsafe"

	. "verif/harness/hlib"

	"github.com/open2b/scriggo"
	"github.com/open2b/scriggo/native"
	"github.com/open2b/scriggo/verifhook"
)

// ---- defined types over every basic kind

type ZBool bool
type ZInt int
type ZInt8 int8
type ZInt16 int16
type ZInt32 int32
type ZInt64 int64
type ZUint uint
type ZUint8 uint8
type ZUint16 uint16
type ZUint32 uint32
type ZUint64 uint64
type ZUintptr uintptr
type ZFloat32 float32
type ZFloat64 float64
type ZComplex64 complex64
type ZComplex128 complex128
type ZString string
type ZUnsafe unsafe.Pointer

// ---- over byte slices and other composites

type ZBytes []byte
type ZUint8s []uint8
type ZByteElems []ZUint8 // a slice whose element kind is uint8 but whose element type is defined
type ZByteArr [3]byte
type ZInts []int
type ZStrs []string
type ZAnys []any
type ZArr [2]int
type ZMap map[string]int
type ZMapAny map[string]any
type ZKeyMap map[ZInt]string
type ZStruct struct {
	A int
	B string
	c bool //lint:ignore U1000 unexported on purpose
}
type ZTagged struct {
	A int    `json:"a"`
	B string `json:"b,omitempty"`
	C []byte `json:"c"`
	D any    `json:"d"`
	E *int   `json:"-"`
}

// fields exported or not, with every form of json tag, and embedded structs exported or not
type zHidden struct{ H int }
type ZTagMix struct {
	A int    `json:"a"`
	b int    `json:"b"` //lint:ignore U1000 unexported with a tag on purpose
	c string `json:"c,omitempty"`
	d int    `json:"-"`
	E int    `json:",omitempty"`
	F int    `json:"-,"`
	g *int   `json:"g"`
	h []byte `json:"h"`
	i any    `json:"i"`
	ZStruct
	zHidden
}
type ZNested struct {
	V  any
	S  fmt.Stringer
	E  error
	In ZStruct
	P  *ZStruct
	M  map[string]any
	L  []any
}
type ZPtr *int
type ZFunc func()
type ZChan chan int
type ZIface interface{ Zoo() }

// ---- implementers, value receivers

type ZStrV struct{ A int }

func (ZStrV) String() string { return "strv<&\"'>" }

type ZStrInt int

func (ZStrInt) String() string { return "strint" }

type ZStrBytes []byte

func (ZStrBytes) String() string { return "strbytes" }

type ZStrMap map[struct{}]int

func (ZStrMap) String() string { return "strmap" }

type ZStrFunc func()

func (ZStrFunc) String() string { return "strfunc" }

type ZStrChan chan int

func (ZStrChan) String() string { return "strchan" }

type ZEnvV struct{ A int }

func (ZEnvV) String(native.Env) string { return "envv?&" }

type ZEnvBytes []byte

func (ZEnvBytes) String(native.Env) string { return "envbytes" }

type ZErrV struct{ Msg string }

func (e ZErrV) Error() string { return "errv: " + e.Msg }

type ZErrBytes []byte

func (e ZErrBytes) Error() string { return "errbytes" }

type ZErrStr string

func (e ZErrStr) Error() string { return "E<" + string(e) + ">" }

type ZHtmlV int

func (ZHtmlV) HTML() native.HTML { return "<b>h</b>" }

type ZHtmlEnvV struct{}

func (ZHtmlEnvV) HTML(native.Env) native.HTML { return "<i>he</i>" }

type ZCssV int

func (ZCssV) CSS() native.CSS { return "red" }

type ZCssEnvV struct{}

func (ZCssEnvV) CSS(native.Env) native.CSS { return "blue" }

type ZJsV struct{ X chan int }

func (ZJsV) JS() native.JS { return "[1,2]" }

type ZJsEnvV int

func (ZJsEnvV) JS(native.Env) native.JS { return "null" }

type ZJsonV struct{ X func() }

func (ZJsonV) JSON() native.JSON { return `{"a":1}` }

type ZJsonEnvV int

func (ZJsonEnvV) JSON(native.Env) native.JSON { return "true" }

type ZMdV int

func (ZMdV) Markdown() native.Markdown { return "*md*" }

type ZMdEnvV struct{}

func (ZMdEnvV) Markdown(native.Env) native.Markdown { return "_mde_" }

// all of them at once
type ZAll struct{ A int }

func (ZAll) String() string            { return "all" }
func (ZAll) Error() string             { return "all-error" }
func (ZAll) HTML() native.HTML         { return "<all>" }
func (ZAll) CSS() native.CSS           { return "all" }
func (ZAll) JS() native.JS             { return "1" }
func (ZAll) JSON() native.JSON         { return "2" }
func (ZAll) Markdown() native.Markdown { return "*all*" }

// ---- implementers, pointer receivers (the value itself implements nothing);
// the methods do not touch the receiver, so that they can be called on nil

type ZStrP struct{ A int }

func (*ZStrP) String() string { return "strp" }

type ZEnvP struct{ A int }

func (*ZEnvP) String(native.Env) string { return "envp" }

type ZErrP struct{ A int }

func (*ZErrP) Error() string { return "errp" }

type ZHtmlP struct{ A int }

func (*ZHtmlP) HTML() native.HTML { return "<u>hp</u>" }

type ZCssP struct{ A int }

func (*ZCssP) CSS() native.CSS { return "green" }

type ZJsP struct{ A int }

func (*ZJsP) JS() native.JS { return "3" }

type ZJsonP struct{ A int }

func (*ZJsonP) JSON() native.JSON { return "4" }

type ZMdP struct{ A int }

func (*ZMdP) Markdown() native.Markdown { return "**mp**" }

type ZBytesP []byte

func (*ZBytesP) String() string { return "bytesp" }

// ---- implementations that panic: the embedder's code, a documented separate case

type ZPanicStr struct{ A int }

func (ZPanicStr) String() string { panic("verif: String panics") }

type ZPanicErr struct{ A int }

func (ZPanicErr) Error() string { panic(errors.New("verif: Error panics")) }

type ZPanicEnv struct{ A int }

func (ZPanicEnv) String(native.Env) string { var p *int; return fmt.Sprint(*p) }

type ZPanicJS struct{ A int }

func (ZPanicJS) JS() native.JS { panic(7) }

// ---- the dictionary

type zval struct {
	name      string
	v         any
	userPanic bool // a method of the value panics
}

func zptr[T any](x T) *T { return &x }

func zooValues() []zval {
	one := 1
	var nilAny any
	zs := []zval{}
	add := func(name string, v any) { zs = append(zs, zval{name: name, v: v}) }
	addp := func(name string, v any) { zs = append(zs, zval{name: name, v: v, userPanic: true}) }

	add("nil", nil)
	// basic kinds and defined types over them
	add("bool", true)
	add("ZBool", ZBool(true))
	add("int", -7)
	add("ZInt", ZInt(5))
	add("int8", int8(-128))
	add("ZInt8", ZInt8(127))
	add("int16", int16(300))
	add("ZInt16", ZInt16(-300))
	add("int32", int32(70000))
	add("ZInt32", ZInt32(1))
	add("int64", int64(math.MinInt64))
	add("ZInt64", ZInt64(math.MaxInt64))
	add("uint", uint(3))
	add("ZUint", ZUint(math.MaxUint64))
	add("uint8", uint8(255))
	add("ZUint8", ZUint8(65))
	add("uint16", uint16(65535))
	add("ZUint16", ZUint16(9))
	add("uint32", uint32(1<<31))
	add("ZUint32", ZUint32(2))
	add("uint64", uint64(math.MaxUint64))
	add("ZUint64", ZUint64(8))
	add("uintptr", uintptr(4096))
	add("ZUintptr", ZUintptr(1))
	add("float32", float32(1.5))
	add("ZFloat32", ZFloat32(-0.25))
	add("float64", 12345.678)
	add("ZFloat64", ZFloat64(1e21))
	add("complex64", complex64(complex(1, -2)))
	add("ZComplex64", ZComplex64(complex(0, 1)))
	add("complex128", complex(2.5, 3))
	add("ZComplex128", ZComplex128(0))
	add("string", "a<b>&\"'c d=e`\t\n?x#y%41+")
	add("string-empty", "")
	add("ZString", ZString("</script></style>-->\\\"'"))
	add("unsafe.Pointer", unsafe.Pointer(&one))
	add("unsafe.Pointer-nil", unsafe.Pointer(nil))
	add("ZUnsafe", ZUnsafe(unsafe.Pointer(&one)))
	// byte slices and their relatives
	add("[]byte", []byte("ab<&>\x00\xff"))
	add("[]byte-empty", []byte{})
	add("[]byte-nil", []byte(nil))
	add("ZBytes", ZBytes("ab"))
	add("ZBytes-empty", ZBytes{})
	add("ZBytes-nil", ZBytes(nil))
	add("ZUint8s", ZUint8s{1, 2, 3})
	add("ZByteElems", ZByteElems{1, 2})
	add("ZByteElems-nil", ZByteElems(nil))
	add("ZByteArr", ZByteArr{1, 2, 3})
	add("[2]byte", [2]byte{7, 8})
	add("*[]byte", zptr([]byte{1}))
	add("*ZBytes", zptr(ZBytes("p")))
	add("[][]byte", [][]byte{[]byte("x"), nil})
	add("[]ZBytes", []ZBytes{ZBytes("y")})
	add("[]int8", []int8{-1, 2})
	add("[]uint16", []uint16{1})
	// slices, arrays, maps
	add("[]int", []int{1, 2, 3})
	add("[]int-nil", []int(nil))
	add("[]int-empty", []int{})
	add("ZInts", ZInts{4})
	add("[]string", []string{"a", "<b>"})
	add("ZStrs", ZStrs{"q\"", " "})
	add("[]any", []any{1, "a", nil, []any{ZBytes("x"), ZStrV{1}}, &one, map[string]any{"k": nil}})
	add("ZAnys", ZAnys{ZBytes("x"), nilAny, errors.New("e")})
	add("[0]int", [0]int{})
	add("[3]string", [3]string{"a", "", "c"})
	add("ZArr", ZArr{1, 2})
	add("[2]any", [2]any{ZBytes("x"), nil})
	add("map[string]int", map[string]int{"b": 2, "a": 1})
	add("map-nil", map[string]int(nil))
	add("map-empty", map[string]int{})
	add("ZMap", ZMap{"k": 1})
	add("ZMapAny", ZMapAny{"k": ZBytes("ab"), "n": nil, "s": ZStrV{1}, "f": func() {}})
	add("ZKeyMap", ZKeyMap{3: "x"})
	add("map[int]string", map[int]string{2: "b", 10: "a"})
	add("map[bool]int", map[bool]int{true: 1})
	add("map[float64]int", map[float64]int{1.5: 1})
	add("map[ZStrInt]int", map[ZStrInt]int{1: 1, 2: 2})
	add("map[ZEnvV]int", map[ZEnvV]int{{1}: 1})
	add("map[struct{}]int", map[struct{}]int{{}: 1})
	add("map[struct{}]int-empty", map[struct{}]int{})
	add("map[[2]int]int", map[[2]int]int{{1, 2}: 3})
	add("map[*int]int", map[*int]int{&one: 1})
	add("map[any]int", map[any]int{"s": 1, 2: 2})
	add("map[any]int-badkey", map[any]int{[2]int{1, 2}: 1})
	add("map[error]int", map[error]int{ZErrStr("e"): 1})
	add("map[string][]byte", map[string][]byte{"k": []byte("v")})
	add("map[string]chan", map[string]chan int{"c": make(chan int)})
	// structs
	add("struct{}", struct{}{})
	add("ZStruct", ZStruct{A: 1, B: "b"})
	add("ZTagged", ZTagged{A: 1, C: []byte("c"), D: ZBytes("d")})
	add("ZTagged-zero", ZTagged{})
	add("ZTagMix", ZTagMix{A: 1, b: 2, c: "c", d: 3, E: 4, F: 5, g: &one, h: []byte("h"), i: ZBytes("i"), ZStruct: ZStruct{A: 6}, zHidden: zHidden{7}})
	add("ZTagMix-zero", ZTagMix{})
	add("*ZTagMix", &ZTagMix{b: 1})
	add("[]ZTagMix", []ZTagMix{{b: 1}, {}})
	add("map[string]ZTagMix", map[string]ZTagMix{"k": {b: 1}})
	add("ZNested", ZNested{V: ZBytes("v"), S: ZStrV{2}, E: ZErrV{"m"}, P: &ZStruct{A: 2}, M: map[string]any{"x": []any{nil}}, L: []any{ZStruct{}}})
	add("ZNested-zero", ZNested{})
	add("anon-struct", struct {
		X any
		y int
	}{X: ZUint8s{9}})
	add("struct-with-chan", struct{ C chan int }{make(chan int)})
	add("struct-with-func", struct{ F func() }{})
	add("time.Time", time.Date(2020, 1, 2, 3, 4, 5, 6000000, time.UTC))
	add("time.Time-zone", time.Date(1999, 12, 31, 23, 59, 59, 0, time.FixedZone("X", -5*3600-1800)))
	add("[]time.Time", []time.Time{time.Date(2020, 1, 2, 3, 4, 5, 0, time.UTC)})
	add("time.Duration", time.Duration(1500))
	// pointers
	add("*int", &one)
	add("*int-nil", (*int)(nil))
	add("ZPtr", ZPtr(&one))
	add("ZPtr-nil", ZPtr(nil))
	add("**int", zptr(&one))
	add("**int-inner-nil", zptr((*int)(nil)))
	add("*ZStruct", &ZStruct{A: 3})
	add("*ZStruct-nil", (*ZStruct)(nil))
	add("*any", zptr(any(ZBytes("x"))))
	add("*any-nil-inside", zptr(nilAny))
	add("*[]any", zptr([]any{ZBytes("x")}))
	add("*map", zptr(map[string]int{"a": 1}))
	add("*string", zptr("s"))
	// functions and channels
	add("func", func() {})
	add("func-nil", (func())(nil))
	add("ZFunc", ZFunc(func() {}))
	add("ZFunc-nil", ZFunc(nil))
	add("func-with-args", func(int) string { return "" })
	add("chan", make(chan int))
	add("chan-nil", (chan int)(nil))
	add("ZChan", ZChan(make(chan int)))
	add("<-chan", (<-chan string)(make(chan string)))
	add("[]func", []func(){nil})
	add("[]chan", []chan int{make(chan int)})
	// the native format types
	add("native.HTML", native.HTML("<b>&amp;?x</b>"))
	add("native.CSS", native.CSS("color:red"))
	add("native.JS", native.JS("f(1)"))
	add("native.JSON", native.JSON(`{"a":[1]}`))
	add("native.Markdown", native.Markdown("# t *e*"))
	add("[]native.HTML", []native.HTML{"<i>"})
	add("*native.HTML", zptr(native.HTML("<p>")))
	// implementers, value receivers, and pointers to them
	add("error", errors.New("plain <error>"))
	add("error-wrapped", fmt.Errorf("w: %w", errors.New("in")))
	add("ZStrV", ZStrV{1})
	add("*ZStrV", &ZStrV{1})
	add("ZStrInt", ZStrInt(3))
	add("ZStrBytes", ZStrBytes("x"))
	add("ZStrBytes-nil", ZStrBytes(nil))
	add("ZStrMap", ZStrMap{{}: 1})
	add("ZStrMap-nil", ZStrMap(nil))
	add("ZStrFunc", ZStrFunc(func() {}))
	add("ZStrFunc-nil", ZStrFunc(nil))
	add("ZStrChan", ZStrChan(make(chan int)))
	add("ZEnvV", ZEnvV{1})
	add("*ZEnvV", &ZEnvV{1})
	add("ZEnvBytes", ZEnvBytes("x"))
	add("ZErrV", ZErrV{"m"})
	add("*ZErrV", &ZErrV{"m"})
	add("ZErrBytes", ZErrBytes("x"))
	add("ZErrStr", ZErrStr("s"))
	add("ZHtmlV", ZHtmlV(1))
	add("ZHtmlEnvV", ZHtmlEnvV{})
	add("ZCssV", ZCssV(1))
	add("ZCssEnvV", ZCssEnvV{})
	add("ZJsV", ZJsV{})
	add("ZJsEnvV", ZJsEnvV(1))
	add("ZJsonV", ZJsonV{})
	add("ZJsonEnvV", ZJsonEnvV(1))
	add("ZMdV", ZMdV(1))
	add("ZMdEnvV", ZMdEnvV{})
	add("ZAll", ZAll{1})
	add("*ZAll", &ZAll{1})
	add("[]ZStrV", []ZStrV{{1}})
	add("[]error", []error{ZErrStr("a"), nil})
	add("[]fmt.Stringer", []fmt.Stringer{ZStrInt(1), nil})
	add("map[string]error", map[string]error{"k": ZErrV{"m"}})
	// implementers, pointer receivers: the pointer implements, the value does not; nil pointers
	add("ZStrP", ZStrP{1})
	add("*ZStrP", &ZStrP{1})
	add("*ZStrP-nil", (*ZStrP)(nil))
	add("ZEnvP", ZEnvP{1})
	add("*ZEnvP", &ZEnvP{1})
	add("*ZEnvP-nil", (*ZEnvP)(nil))
	add("ZErrP", ZErrP{1})
	add("*ZErrP", &ZErrP{1})
	add("*ZErrP-nil", (*ZErrP)(nil))
	add("ZHtmlP", ZHtmlP{1})
	add("*ZHtmlP", &ZHtmlP{1})
	add("*ZHtmlP-nil", (*ZHtmlP)(nil))
	add("*ZCssP", &ZCssP{1})
	add("*ZCssP-nil", (*ZCssP)(nil))
	add("*ZJsP", &ZJsP{1})
	add("*ZJsP-nil", (*ZJsP)(nil))
	add("*ZJsonP", &ZJsonP{1})
	add("*ZJsonP-nil", (*ZJsonP)(nil))
	add("*ZMdP", &ZMdP{1})
	add("*ZMdP-nil", (*ZMdP)(nil))
	add("ZBytesP", ZBytesP("x"))
	add("*ZBytesP", zptr(ZBytesP("x")))
	add("**ZStrP", zptr(&ZStrP{1}))
	add("[]*ZStrP", []*ZStrP{nil, {1}})
	// panicking implementations (documented separately)
	addp("ZPanicStr", ZPanicStr{1})
	addp("ZPanicErr", ZPanicErr{1})
	addp("ZPanicEnv", ZPanicEnv{1})
	addp("ZPanicJS", ZPanicJS{1})
	addp("*ZStrV-nil", (*ZStrV)(nil)) // value method called using nil pointer: the Go runtime panics inside the call
	addp("*ZErrV-nil", (*ZErrV)(nil))
	addp("*ZAll-nil", (*ZAll)(nil))
	addp("[]any-with-panicking", []any{ZPanicStr{1}})
	addp("map-key-panicking", map[ZPanicStr]int{{1}: 1})
	return zs
}

// ---- descriptors and values in the syntax of the show model (see ocaml/drv_render.ml)

func ztf[T any]() reflect.Type { return reflect.TypeFor[T]() }

var zIfaceTypes = []reflect.Type{
	ztf[fmt.Stringer](), ztf[native.EnvStringer](), ztf[error](),
	ztf[native.HTMLStringer](), ztf[native.HTMLEnvStringer](), ztf[native.CSSStringer](), ztf[native.CSSEnvStringer](),
	ztf[native.JSStringer](), ztf[native.JSEnvStringer](), ztf[native.JSONStringer](), ztf[native.JSONEnvStringer](),
	ztf[native.MarkdownStringer](), ztf[native.MarkdownEnvStringer](),
}

var zWkTypes = map[int]reflect.Type{16: ztf[[]byte](), 17: ztf[time.Time](), 18: ztf[any](), 19: ztf[native.HTML](), 20: ztf[native.CSS](),
	21: ztf[native.JS](), 22: ztf[native.JSON](), 23: ztf[native.Markdown]()}

func zflagsOf(t reflect.Type) uint64 {
	var fl uint64
	for i, it := range zIfaceTypes {
		if t.Implements(it) {
			fl |= 1 << uint(i)
		}
	}
	for b, w := range zWkTypes {
		if t == w {
			fl |= 1 << uint(b)
		}
	}
	return fl
}

func zdesc(t reflect.Type, stack []reflect.Type) string {
	for i := len(stack) - 1; i >= 0; i-- {
		if stack[i] == t {
			return fmt.Sprintf("R%d", len(stack)-1-i)
		}
	}
	fl := zflagsOf(t)
	in := append(append([]reflect.Type{}, stack...), t)
	switch t.Kind() {
	case reflect.Array:
		return fmt.Sprintf("A%d(%s)", fl, zdesc(t.Elem(), in))
	case reflect.Slice:
		return fmt.Sprintf("S%d(%s)", fl, zdesc(t.Elem(), in))
	case reflect.Pointer:
		return fmt.Sprintf("P%d(%s)", fl, zdesc(t.Elem(), in))
	case reflect.Map:
		return fmt.Sprintf("M%d(%s,%s)", fl, zdesc(t.Key(), in), zdesc(t.Elem(), in))
	case reflect.Struct:
		var fs []string
		for i := 0; i < t.NumField(); i++ {
			f := t.Field(i)
			e := 0
			if f.PkgPath == "" {
				e = 1
			}
			fs = append(fs, fmt.Sprintf("%d:%s:%s:%s", e, hex.EncodeToString([]byte(f.Name)), hex.EncodeToString([]byte(f.Tag.Get("json"))), zdesc(f.Type, in)))
		}
		return fmt.Sprintf("T%d(%s)", fl, strings.Join(fs, ";"))
	}
	return fmt.Sprintf("L%d.%d", int(t.Kind()), fl)
}

func zenc(v reflect.Value) string {
	t := v.Type()
	switch v.Kind() {
	case reflect.Interface:
		if v.IsNil() {
			return "n"
		}
		return "I(" + zdesc(v.Elem().Type(), nil) + "|" + zenc(v.Elem()) + ")"
	case reflect.Bool:
		if v.Bool() {
			return "b1"
		}
		return "b0"
	case reflect.Int, reflect.Int8, reflect.Int16, reflect.Int32, reflect.Int64:
		return fmt.Sprintf("i%d", v.Int())
	case reflect.Uint, reflect.Uint8, reflect.Uint16, reflect.Uint32, reflect.Uint64, reflect.Uintptr:
		return fmt.Sprintf("u%d", v.Uint())
	case reflect.Float32, reflect.Float64:
		return fmt.Sprintf("f%d", math.Float64bits(v.Float()))
	case reflect.Complex64, reflect.Complex128:
		c := v.Complex()
		return fmt.Sprintf("c%d_%d", math.Float64bits(real(c)), math.Float64bits(imag(c)))
	case reflect.String:
		return "s" + hex.EncodeToString([]byte(v.String())) + "."
	case reflect.Chan, reflect.Func, reflect.UnsafePointer:
		if v.Kind() == reflect.UnsafePointer && v.Pointer() == 0 || v.Kind() != reflect.UnsafePointer && v.IsNil() {
			return "z"
		}
		return "o"
	case reflect.Slice:
		if v.IsNil() {
			return "z"
		}
		if t == ztf[[]byte]() {
			return "y" + hex.EncodeToString(v.Bytes()) + "."
		}
		fallthrough
	case reflect.Array:
		var xs []string
		for i := 0; i < v.Len(); i++ {
			xs = append(xs, zenc(v.Index(i)))
		}
		return "q(" + strings.Join(xs, ",") + ")"
	case reflect.Pointer:
		if v.IsNil() {
			return "z"
		}
		return "p(" + zenc(v.Elem()) + ")"
	case reflect.Map:
		if v.IsNil() {
			return "z"
		}
		var xs []string
		it := v.MapRange()
		for it.Next() {
			xs = append(xs, zenc(it.Key())+":"+zenc(it.Value()))
		}
		return "m(" + strings.Join(xs, ",") + ")"
	case reflect.Struct:
		if t == ztf[time.Time]() {
			return "d1"
		}
		var xs []string
		for i := 0; i < v.NumField(); i++ {
			xs = append(xs, zenc(v.Field(i)))
		}
		return "t(" + strings.Join(xs, ",") + ")"
	}
	panic("zenc: kind " + v.Kind().String())
}

// boxed returns v as a reflect.Value of static type interface{}
func zboxed(v any) reflect.Value {
	sv := reflect.New(ztf[any]()).Elem()
	if v != nil {
		sv.Set(reflect.ValueOf(v))
	}
	return sv
}

// ---- contexts

type zctx struct {
	name        string
	ctx         int
	url         bool
	file        string
	open, close string
}

var zctxs = []zctx{
	{"Text", 0, false, "t.txt", "", ""},
	{"HTML", 1, false, "t.html", "<p>", "</p>"},
	{"CSS", 2, false, "t.css", "a{b:", "}"},
	{"JS", 3, false, "t.js", "var a = ", ";"},
	{"JSON", 4, false, "t.json", `{"k":`, "}"},
	{"Markdown", 5, false, "t.md", "# t ", "\n"},
	{"Tag", 6, false, "t.html", "<div ", ">"},
	{"QuotedAttr", 7, false, "t.html", `<div a="`, `">`},
	{"QuotedAttr'", 7, false, "t.html", `<div a='`, `'>`},
	{"UnquotedAttr", 8, false, "t.html", `<div a=`, `>`},
	{"CSSString", 9, false, "t.css", `a{b:"`, `"}`},
	{"CSSString'", 9, false, "t.css", `a{b:'`, `'}`},
	{"JSString", 10, false, "t.js", `var a = "`, `";`},
	{"JSONString", 11, false, "t.json", `{"k":"`, `"}`},
	{"TabCodeBlock", 12, false, "t.md", "\t", "\n"},
	{"SpacesCodeBlock", 13, false, "t.md", "    ", "\n"},
	{"QuotedAttrURL", 7, true, "t.html", `<a href="`, `">`},
	{"QuotedAttrURL-query", 7, true, "t.html", `<a href="/p?q=`, `&amp;z=1">`},
	{"UnquotedAttrURL", 8, true, "t.html", `<a href=`, `>`},
	{"SetURL", 7, true, "t.html", `<img srcset="`, ` 2x, /b.png">`},
	// the contexts of HTML files
	{"HTML/style", 2, false, "t.html", "<style>a{b:", "}</style>"},
	{"HTML/style-string", 9, false, "t.html", `<style>p::before { content: "`, `" }</style>`},
	{"HTML/script", 3, false, "t.html", "<script>var a = ", ";</script>"},
	{"HTML/script-string", 10, false, "t.html", `<script>var a = '`, `';</script>`},
	{"HTML/ld+json", 4, false, "t.html", `<script type="application/ld+json">{"k":`, `}</script>`},
	{"HTML/ld+json-string", 11, false, "t.html", `<script type="application/ld+json">{"k":"`, `"}</script>`},
	{"Markdown/attr", 7, false, "t.md", `<div a="`, `">`},
}

func (z zctx) source() string { return z.open + "{{ v }}" + z.close }

// zhookShow calls renderer.Show through the hook on a recording writer.
func zhookShow(v any, ctx int, url bool) (verdict string, out string) {
	rec := &verifhook.Recorder{}
	r := verifhook.NewRenderer(rec, verifhook.Env(nil, nil))
	c := byte(ctx)
	if url {
		c |= 0x80
	}
	var err error
	if msg := PanicText(func() { err = r.Show(v, verifhook.Context(c)) }); msg != "" {
		return "panic", normPanic(msg)
	}
	out = strings.Join(rec.Chunks, "")
	switch {
	case err == nil:
		return "ok", out
	case strings.Contains(err.Error(), "cannot show value of type"):
		return "cannotshow", out
	}
	return "error:" + err.Error(), out
}

var zGlobals = native.Declarations{"v": (*any)(nil)}

type zbuilt struct {
	tmpl *scriggo.Template
	err  string
}

var zbuilds = map[string]*zbuilt{}

func (z zctx) build() *zbuilt {
	if b, ok := zbuilds[z.name]; ok {
		return b
	}
	b := &zbuilt{}
	msg := PanicText(func() {
		t, err := scriggo.BuildTemplate(scriggo.Files{z.file: []byte(z.source())}, z.file, &scriggo.BuildOptions{Globals: zGlobals})
		if err != nil {
			b.err = err.Error()
			return
		}
		b.tmpl = t
	})
	if msg != "" {
		b.err = "panic: " + normPanic(msg)
	}
	zbuilds[z.name] = b
	return b
}

// run renders the template of the context with v as the value of the interface variable.
func (b *zbuilt) run(v any) (outcome string, out string) {
	var buf bytes.Buffer
	var err error
	var pv any
	panicked := true
	func() {
		defer func() {
			if panicked {
				pv = recover()
			}
		}()
		err = b.tmpl.Run(&buf, map[string]any{"v": &v}, nil)
		panicked = false
	}()
	return outcomeOf(err, pv, panicked), buf.String()
}

func zclass(outcome string) string {
	switch {
	case outcome == "nil":
		return "ok"
	case strings.HasPrefix(outcome, "HOSTPANIC"):
		return "panic"
	case strings.Contains(outcome, "cannot show value of type"):
		return "cannotshow"
	}
	return "error"
}

// ---- a value that contains itself (recorded finding host-crash:cyclic-value-in-js): showInJS and
// showInJSON follow pointers without bound; the Go runtime ends the process with a stack overflow,
// which no recover can catch. The probe therefore runs in a child process with a small stack limit.

type ZCycle struct {
	V    int
	Next *ZCycle
}

func cyclicProbe(c *Ctx) {
	for _, file := range []string{"t.js", "t.json"} {
		ctx, cancel := context.WithTimeout(context.Background(), 60*time.Second)
		cmd := exec.CommandContext(ctx, os.Args[0], "C05-cyclic-child", "-arg", file)
		var stderr bytes.Buffer
		cmd.Stderr = &stderr
		err := cmd.Run()
		cancel()
		c.Count("evaluations")
		if err != nil && strings.Contains(stderr.String(), "stack overflow") {
			c.Fail("host-crash:cyclic-value-in-js", map[string]any{"zoo_value": "cyclic", "file": file, "source": "{{ v }}",
				"gotype": "*ZCycle with Next pointing to itself", "outcome": "the process dies: fatal error: stack overflow"})
		} else if err != nil {
			c.Fail("host-panic:show", map[string]any{"zoo_value": "cyclic", "file": file, "error": err.Error(), "stderr": normPanic(stderr.String())})
		}
	}
}

func init() {
	// child process of cyclicProbe: renders a value that points to itself
	Register("C05-cyclic-child", func(c *Ctx) {
		debug.SetMaxStack(32 << 20)
		n := &ZCycle{V: 1}
		n.Next = n
		var v any = n
		file := c.Arg
		if file == "" {
			file = "t.js"
		}
		t, err := scriggo.BuildTemplate(scriggo.Files{file: []byte("{{ v }}")}, file, &scriggo.BuildOptions{Globals: zGlobals})
		if err != nil {
			fmt.Fprintln(os.Stderr, "build:", err)
			os.Exit(3)
		}
		var b bytes.Buffer
		err = t.Run(&b, map[string]any{"v": &v}, nil)
		fmt.Fprintln(os.Stderr, "returned:", err)
	})

	Register("C05-show-cases", func(c *Ctx) {
		for _, zv := range zooValues() {
			if zv.userPanic {
				continue
			}
			sv := zboxed(zv.v)
			d, e := zdesc(ztf[any](), nil), zenc(sv)
			for ctx := 0; ctx < 14; ctx++ {
				for _, url := range []bool{false, true} {
					if url && ctx != 7 && ctx != 8 {
						continue
					}
					verdict, _ := zhookShow(zv.v, ctx, url)
					if strings.HasPrefix(verdict, "error:") {
						// an error of an escaper about the content, not about the type: not modelled
						c.Count("content-errors-outside-model")
						continue
					}
					c.Line("show", fmt.Sprint(ctx), b01(url), "0", d, e, verdict)
					c.Count("show")
					c.Count("show-" + verdict)
				}
			}
		}
	})

	Register("C05-show-sweep", func(c *Ctx) {
		var only, onlyCtx string
		if in := c.ReplayInput(); in != nil {
			only, _ = in["zoo_value"].(string)
			onlyCtx, _ = in["zoo_context"].(string)
			if only == "" {
				return
			}
			if only == "cyclic" {
				cyclicProbe(c)
				return
			}
		} else if c.Thorough() {
			// the recorded finding is replayed in the thorough tier only (a child process per probe)
			cyclicProbe(c)
		}
		for _, z := range zctxs {
			if onlyCtx != "" && z.name != onlyCtx {
				continue
			}
			b := z.build()
			if b.tmpl == nil {
				c.Fail("show-context-does-not-build", map[string]any{"zoo_context": z.name, "source": z.source(), "error": b.err})
				continue
			}
			for _, zv := range zooValues() {
				if only != "" && zv.name != only {
					continue
				}
				c.Count("evaluations")
				outcome, out := b.run(zv.v)
				cl := zclass(outcome)
				det := map[string]any{"zoo_value": zv.name, "gotype": fmt.Sprintf("%T", zv.v), "zoo_context": z.name, "source": z.source(), "outcome": normPanic(outcome), "out": out}
				if zv.userPanic {
					// the embedder's own method panics: recorded, whatever Run does with it must not kill the process
					c.Count("user-method-panics:" + cl)
					if cl == "panic" {
						c.Fail("host-panic:user-method-panics", det)
					}
					continue
				}
				switch cl {
				case "panic":
					c.Fail("host-panic:show", det)
					continue
				case "error":
					if strings.Contains(outcome, "not closed") {
						c.Count("content-errors")
						continue
					}
					c.Fail("show-undocumented-error", det)
					continue
				}
				if cl != "ok" {
					c.Count("nontrivial")
				}
				c.Count("show-" + cl)
				// the VM hands the value to the renderer unchanged: the hook gives the same verdict
				hv, hout := zhookShow(zv.v, z.ctx, z.url)
				if hv != cl {
					det["hook"] = hv
					det["hook_out"] = hout
					c.Fail("show-template-and-hook-disagree", det)
				}
			}
		}
	})
}
