package main

// C07, URL attributes with several shown values: the URL state machine of the
// renderer (inURL / query / addAmpersand / removeQuestionMark) decides which
// escaper a value gets; the value must decode back in its slot.
//
//	C07-url-cases  generated attributes (1-4 shown strings, texts between them)
//	               on the real renderer through the hook: the operations for
//	               the model driver (`rend` lines: state, chunks, results) and
//	               the attribute as a whole (`urlattr` lines: bytes written,
//	               escaper chosen for each shown string read from the renderer
//	               state, the URL decoded by html.UnescapeString + net/url
//	               PathUnescape / QueryUnescape) = RendererM + UrlRefM
//	C07-url-sweep  real templates <a href="..."> with 1-4 {{ }} in one URL
//	               attribute, values rich in ? & = + # % space and non-ASCII:
//	               the rendered attribute is decoded with html.UnescapeString,
//	               url.Parse and url.ParseQuery and every value shown in the
//	               query or the fragment must come back exactly

import (
	"fmt"
	"html"
	"net/url"
	"strings"

	. "verif/harness/hlib"

	"github.com/open2b/scriggo"
	"github.com/open2b/scriggo/native"
	"github.com/open2b/scriggo/verifhook"
)

// ---- items of one attribute

type uitem struct {
	show bool
	s    string
}

func itemsField(items []uitem) string {
	p := make([]string, len(items))
	for i, it := range items {
		if it.show {
			p[i] = "S:" + Hx(it.s)
		} else {
			p[i] = "T:" + Hx(it.s)
		}
	}
	return strings.Join(p, ";")
}

// texts between the shown values: separators of every kind, keys, path segments
var uTexts = []string{"?", "?q=", "&amp;", "&amp;k=", "&", "&k=", "k=", "/", "/p", "/p?", "/p?a=1", "/p?a=1&amp;b=", "#", "#f", "=", "a", "-", "http://h/p", "?a=1#", "&amp;&amp;x=", ";", "?&amp;", "x&amp;y"}

// shown values: rich in the characters that matter to a URL
var uValues = []string{"", "x", "a b", "a&b=c", "1+1=2", "100%", "%41", "%4", "a%2Fb", "x?y", "/s?l=en", "/s?", "/s?l=en&", "?", "&", "#f", "a#b?c", "é ü", "\xff\xfe", "<\"'>", "a=1&b=2", "tom & jerry", "q?&=+#% ", "/p/q", "p", "~_-.!*", "`{}|", "\t\n", "日本", "a;b", "&amp;", "+"}

func randItems(c *Ctx) []uitem {
	nshow := 1 + c.Rng.Intn(4)
	var items []uitem
	if c.Rng.Intn(3) != 0 {
		items = append(items, uitem{false, uTexts[c.Rng.Intn(len(uTexts))]})
	}
	for i := 0; i < nshow; i++ {
		v := uValues[c.Rng.Intn(len(uValues))]
		if c.Rng.Intn(8) == 0 {
			v = randURLString(c)
		}
		items = append(items, uitem{true, v})
		if i < nshow-1 && c.Rng.Intn(5) == 0 {
			continue // two values in a row
		}
		if i < nshow-1 || c.Rng.Intn(2) == 0 {
			items = append(items, uitem{false, uTexts[c.Rng.Intn(len(uTexts))]})
		}
	}
	return items
}

// canonURL decodes an attribute value as a browser does, with Go's decoders.
// ok = false: outside the domain of the decoders (an invalid percent escape).
func canonURL(attr string) (string, bool) {
	u := html.UnescapeString(attr)
	pq, frag, hasFrag := strings.Cut(u, "#")
	path, query, hasQuery := strings.Cut(pq, "?")
	p, err := url.PathUnescape(path)
	if err != nil {
		return "", false
	}
	var pairs []string
	if hasQuery {
		for _, kv := range strings.Split(query, "&") {
			if kv == "" {
				continue
			}
			k, v, hasV := strings.Cut(kv, "=")
			dk, err := url.QueryUnescape(k)
			if err != nil {
				return "", false
			}
			e := Hx(dk) + ":"
			if hasV {
				dv, err := url.QueryUnescape(v)
				if err != nil {
					return "", false
				}
				e += "x" + Hx(dv)
			} else {
				e += "-"
			}
			pairs = append(pairs, e)
		}
	}
	q := "-"
	if len(pairs) > 0 {
		q = strings.Join(pairs, ",")
	}
	f := "-"
	if hasFrag && frag != "" {
		df, err := url.PathUnescape(frag)
		if err != nil {
			return "", false
		}
		f = "x" + Hx(df)
	}
	return fmt.Sprintf("path=x%s query=%s frag=%s", Hx(p), q, f), true
}

// runItems runs the items on the real renderer (quoted or unquoted attribute).
func runItems(items []uitem, quoted bool) (out string, qpos string, panicked string) {
	rec := &verifhook.Recorder{}
	r := verifhook.NewRenderer(rec, verifhook.Env(nil, nil))
	ctx := 7
	if !quoted {
		ctx = 8
	}
	var qp strings.Builder
	panicked = PanicText(func() {
		for _, it := range items {
			if it.show {
				_, q, _, rq := r.State()
				qp.WriteString(b01(q && !rq))
				if err := r.Show(it.s, verifhook.Context(encodeCtx(ctx, true, false))); err != nil {
					panic("show error: " + err.Error())
				}
			} else if err := r.Text([]byte(it.s), true, false); err != nil {
				panic("text error: " + err.Error())
			}
		}
	})
	return strings.Join(rec.Chunks, ""), qp.String(), panicked
}

func itemsOps(items []uitem, quoted bool) []rop {
	ctx := 7
	if !quoted {
		ctx = 8
	}
	var ops []rop
	for _, it := range items {
		if it.show {
			ops = append(ops, rop{c: encodeCtx(ctx, true, false), val: strVal(it.s)})
		} else {
			ops = append(ops, rop{text: true, txt: it.s, u: true})
		}
	}
	return ops
}

// ---- templates

type uparam struct {
	sep string // text before the key
	key string
	val string
}

type ushape struct {
	tag       string
	attr      string
	quote     string
	baseText  string // literal base, or
	baseShown bool   // the base is the value of `b`
	baseVal   string
	params    []uparam
	fragText  string
	fragShown bool
	fragVal   string
}

func (sh ushape) source() string {
	var b strings.Builder
	b.WriteString("<" + sh.tagName() + " " + sh.attr + "=" + sh.quote)
	if sh.baseShown {
		b.WriteString("{{ b }}")
	} else {
		b.WriteString(sh.baseText)
	}
	for i, p := range sh.params {
		b.WriteString(p.sep + p.key + "={{ v" + fmt.Sprint(i+1) + " }}")
	}
	if sh.fragShown {
		b.WriteString("#{{ f }}")
	} else {
		b.WriteString(sh.fragText)
	}
	b.WriteString(sh.quote + ">END")
	return b.String()
}

func (sh ushape) tagName() string {
	if sh.tag == "" {
		return "a"
	}
	return sh.tag
}

// the URL attributes of the lexer (containsURL): tag and attribute
var urlAttrs = [][2]string{{"a", "href"}, {"a", "href"}, {"img", "src"}, {"form", "action"}, {"area", "href"}, {"video", "poster"}, {"blockquote", "cite"}, {"iframe", "src"}, {"div", "data-src"}}

func (sh ushape) vars() map[string]any {
	m := map[string]any{"b": sh.baseVal, "f": sh.fragVal, "v1": "", "v2": "", "v3": ""}
	for i, p := range sh.params {
		m["v"+fmt.Sprint(i+1)] = p.val
	}
	return m
}

var uGlobals = native.Declarations{"b": (*string)(nil), "f": (*string)(nil), "v1": (*string)(nil), "v2": (*string)(nil), "v3": (*string)(nil)}

var baseTexts = []string{"/p", "/a/b", "http://h/p", "p", "", "/p?x=1", "/p?", "/p?x=1&amp;y=2"}

// shown bases that bring their own query
var baseWithQuery = []string{"/s?l=en", "/s?l=en&", "/s?", "x?y=1&z=2", "/search?lang=en"}

// shown bases without a query: no ? # and no percent triple (pathEscape keeps those on purpose)
var basePlain = []string{"/p", "/a b", "p", "/é", "", "/x+y"}

func randUShape(c2 *Ctx) ushape {
	r := c2.Rng
	ta := urlAttrs[r.Intn(len(urlAttrs))]
	sh := ushape{tag: ta[0], attr: ta[1], quote: []string{`"`, `"`, `'`, ``}[r.Intn(4)]}
	hasQuery := false
	broughtQuery := false
	switch r.Intn(3) {
	case 0:
		sh.baseText = baseTexts[r.Intn(len(baseTexts))]
		hasQuery = strings.Contains(sh.baseText, "?")
	case 1:
		sh.baseShown = true
		sh.baseVal = baseWithQuery[r.Intn(len(baseWithQuery))]
		hasQuery, broughtQuery = true, true
	case 2:
		sh.baseShown = true
		sh.baseVal = basePlain[r.Intn(len(basePlain))]
	}
	n := r.Intn(4)
	if sh.baseShown {
		n = r.Intn(3) // at most four shown values with the fragment
	}
	for i := 0; i < n; i++ {
		p := uparam{key: fmt.Sprintf("k%d", i+1)}
		switch {
		case !hasQuery:
			p.sep = "?"
		case i == 0 && broughtQuery:
			p.sep = []string{"&amp;", "&", "?", ""}[r.Intn(4)]
		default:
			p.sep = []string{"&amp;", "&"}[r.Intn(2)]
		}
		hasQuery = true
		p.val = uValues[r.Intn(len(uValues))]
		if r.Intn(6) == 0 {
			p.val = RandString(r, 4)
		}
		sh.params = append(sh.params, p)
	}
	switch r.Intn(4) {
	case 0:
		sh.fragText = "#frag"
	case 1:
		if !(sh.baseShown && len(sh.params) == 3) {
			sh.fragShown = true
			sh.fragVal = uValues[r.Intn(len(uValues))]
		}
	}
	if sh.quote == "" {
		// an unquoted attribute value cannot hold these in its literal text
		sh.baseText = strings.NewReplacer(" ", "", "\"", "", "'", "", ">", "", "=", "").Replace(sh.baseText)
	}
	return sh
}

var ubuilt = map[string]*scriggo.Template{}

func checkURLShape(c *Ctx, sh ushape) {
	src := sh.source()
	t, ok := ubuilt[src]
	if !ok {
		var err error
		t, err = scriggo.BuildTemplate(scriggo.Files{"index.html": []byte(src)}, "index.html", &scriggo.BuildOptions{Globals: uGlobals})
		if err != nil {
			c.Fail("url-template-does-not-build", map[string]any{"url_template": src, "error": err.Error()})
			return
		}
		ubuilt[src] = t
	}
	vars := sh.vars()
	hexvals := map[string]string{}
	for k, v := range vars {
		hexvals[k] = Hx(v.(string))
	}
	var b strings.Builder
	var err error
	msg := PanicText(func() { err = t.Run(&b, vars, nil) })
	c.Count("evaluations")
	det := map[string]any{"url_template": src, "url_values": hexvals, "rendered": b.String()}
	if msg != "" || err != nil {
		det["error"] = fmt.Sprint(msg, err)
		c.Fail("url-attribute-run-error", det)
		return
	}
	tag, attrs, rest, okTag := scanStartTag(b.String())
	if !okTag || tag != sh.tagName() || len(attrs) != 1 || rest != "END" || attrs[0].name != sh.attr {
		c.Fail("url-attribute-not-confined", det)
		return
	}
	decoded := html.UnescapeString(attrs[0].value)
	det["decoded-attribute"] = decoded
	u, err := url.Parse(decoded)
	if err != nil {
		// the base is not a URL for net/url (a colon in the first segment ...): decode the parts by hand
		c.Count("not-parsed-by-net/url")
		return
	}
	q, err := url.ParseQuery(u.RawQuery)
	if err != nil {
		det["why"] = "url.ParseQuery: " + err.Error()
		c.Fail("url-query-roundtrip", det)
		return
	}
	for _, p := range sh.params {
		c.Count("nontrivial")
		if got := q[p.key]; len(got) != 1 || got[0] != p.val {
			det["key"] = p.key
			det["expected"] = Hx(p.val)
			det["decoded"] = fmt.Sprintf("%q", got)
			c.Fail("url-query-roundtrip", det)
			return
		}
	}
	// the pairs of the base are still there and nothing else
	want := len(sh.params)
	base := sh.baseText
	if sh.baseShown {
		base = sh.baseVal
	}
	if _, bq, ok := strings.Cut(html.UnescapeString(base), "?"); ok {
		if bv, err := url.ParseQuery(bq); err == nil {
			for k, vs := range bv {
				want++
				if len(q[k]) != len(vs) || q[k][0] != vs[0] {
					det["key"] = k
					c.Fail("url-query-roundtrip", det)
					return
				}
			}
		}
	}
	if len(q) != want {
		det["why"] = fmt.Sprintf("%d keys in the decoded query, expected %d", len(q), want)
		c.Fail("url-query-roundtrip", det)
		return
	}
	if sh.fragShown && u.Fragment != sh.fragVal {
		det["expected"] = Hx(sh.fragVal)
		det["decoded"] = Hx(u.Fragment)
		c.Fail("url-fragment-roundtrip", det)
		return
	}
	if sh.baseShown && !strings.Contains(sh.baseVal, "?") && strings.HasPrefix(sh.baseVal, "/") && u.Path != sh.baseVal {
		det["expected"] = Hx(sh.baseVal)
		det["decoded"] = Hx(u.Path)
		c.Fail("url-path-roundtrip", det)
		return
	}
	if len(c.Samples) < 3 && len(sh.params) > 1 {
		c.Sample(map[string]string{"template": src, "out": b.String()})
	}
}

// urlProbe: a template outside the generated shapes, with the value that must come back under a key
type urlProbe struct {
	sig  string
	src  string
	vars map[string]any
	key  string
	want string
}

var urlProbes = []urlProbe{
	// two values in a row, the first brings the question mark: the second is written with pathEscape
	{"url-consecutive-shows-path-escaped", `<a href="{{ b }}{{ v1 }}">END`, map[string]any{"b": "/s?k1=", "v1": "a&b=c"}, "k1", "a&b=c"},
	// srcset: the question mark follows a comma in the same text
	{"url-srcset-comma-query", `<img srcset="a.png, /img?k1={{ v1 }} 2x">END`, map[string]any{"v1": "1&h=2"}, "k1", "1&h=2"},
	// srcset: the flags of the URL before the comma are still set
	{"url-srcset-comma-query", `<img srcset="{{ b }}, {{ v2 }}?k1={{ v1 }} 2x">END`, map[string]any{"b": "x?y", "v2": "p", "v1": "1&2"}, "k1", "1&2"},
}

func checkURLProbe(c *Ctx, pr urlProbe) {
	t, err := scriggo.BuildTemplate(scriggo.Files{"index.html": []byte(pr.src)}, "index.html", &scriggo.BuildOptions{Globals: uGlobals})
	if err != nil {
		c.Fail("url-template-does-not-build", map[string]any{"url_template": pr.src, "error": err.Error()})
		return
	}
	vars := map[string]any{"b": "", "f": "", "v1": "", "v2": "", "v3": ""}
	for k, v := range pr.vars {
		vars[k] = v
	}
	var b strings.Builder
	var rerr error
	msg := PanicText(func() { rerr = t.Run(&b, vars, nil) })
	c.Count("evaluations")
	det := map[string]any{"probe": pr.src, "values": fmt.Sprint(pr.vars), "rendered": b.String()}
	if msg != "" || rerr != nil {
		det["error"] = fmt.Sprint(msg, rerr)
		c.Fail("url-attribute-run-error", det)
		return
	}
	_, attrs, _, ok := scanStartTag(b.String())
	if !ok || len(attrs) != 1 {
		c.Fail("url-attribute-not-confined", det)
		return
	}
	// the last URL of the attribute (srcset: after the last comma, before the descriptor)
	val := html.UnescapeString(attrs[0].value)
	if i := strings.LastIndex(val, ", "); i >= 0 {
		val = strings.Fields(val[i+2:])[0]
	}
	u, err := url.Parse(val)
	if err != nil {
		return
	}
	q, _ := url.ParseQuery(u.RawQuery)
	if got := q[pr.key]; len(got) != 1 || got[0] != pr.want {
		det["decoded-query"] = fmt.Sprint(q)
		c.Fail(pr.sig, det)
	}
}

func init() {
	Register("C07-url-cases", func(c *Ctx) {
		emit := func(items []uitem, quoted bool) {
			out, qpos, p := runItems(items, quoted)
			if p != "" {
				c.Line("urlattr", b01(quoted), itemsField(items), "panic:"+normPanic(p))
				return
			}
			cu, ok := canonURL(out)
			if !ok {
				cu = "undecodable"
				c.Count("outside-the-go-decoders")
			}
			c.Line("urlattr", b01(quoted), itemsField(items), fmt.Sprintf("out=x%s qpos=%s url=%s", Hx(out), qpos, cu))
			c.Count("attributes")
			if strings.Contains(qpos, "1") {
				c.Count("attributes-with-a-query-position")
			}
			// the same operations for the operational model
			ops := itemsOps(items, quoted)
			res, _, _ := runOps(ops, 0)
			c.Line("rend", "0", opsField(ops), res)
		}
		// fixed: the shapes of the property text and of the repaired / recorded defects
		for _, items := range [][]uitem{
			{{true, "/search?lang=en"}, {false, "&q="}, {true, "a&b=c"}},
			{{true, "/search?lang=en"}, {false, "&amp;q="}, {true, "1 1=2"}},
			{{true, "/s?l=en"}, {false, "?q="}, {true, "100%41"}},
			{{true, "/s?l=en"}, {false, "q="}, {true, "tom & jerry"}, {false, "&amp;r="}, {true, "#x"}},
			{{false, "/p?a="}, {true, "x?y"}, {false, "&amp;b="}, {true, "?"}, {false, "#"}, {true, "f g"}},
			{{true, "/s?q="}, {true, "a&b=c"}},
		} {
			emit(items, true)
			emit(items, false)
		}
		for i := 0; i < c.N; i++ {
			emit(randItems(c), c.Rng.Intn(3) != 0)
		}
	})

	Register("C07-url-sweep", func(c *Ctx) {
		if in := c.ReplayInput(); in != nil {
			src, _ := in["url_template"].(string)
			if src == "" {
				return
			}
			t, err := scriggo.BuildTemplate(scriggo.Files{"index.html": []byte(src)}, "index.html", &scriggo.BuildOptions{Globals: uGlobals})
			if err != nil {
				return
			}
			vars := map[string]any{"b": "", "f": "", "v1": "", "v2": "", "v3": ""}
			if m, ok := in["url_values"].(map[string]any); ok {
				for k, v := range m {
					if s, ok := v.(string); ok {
						vars[k] = Unhx(s)
					}
				}
			}
			var b strings.Builder
			err = t.Run(&b, vars, nil)
			_, attrs, _, _ := scanStartTag(b.String())
			det := map[string]any{"url_template": src, "url_values": in["url_values"], "rendered": b.String(), "error": fmt.Sprint(err)}
			if len(attrs) == 1 {
				decoded := html.UnescapeString(attrs[0].value)
				det["decoded-attribute"] = decoded
				if u, err := url.Parse(decoded); err == nil {
					q, _ := url.ParseQuery(u.RawQuery)
					det["decoded-query"] = fmt.Sprint(q)
					bad := false
					for i := 1; i <= 3; i++ {
						k := fmt.Sprintf("k%d", i)
						if strings.Contains(src, k+"={{") {
							if got := q[k]; len(got) != 1 || got[0] != vars[fmt.Sprintf("v%d", i)] {
								bad = true
							}
						}
					}
					c.Count("evaluations")
					if bad {
						c.Fail("url-query-roundtrip", det)
					} else if strings.Contains(src, "#{{ f }}") && u.Fragment != vars["f"] {
						det["decoded"] = Hx(u.Fragment)
						c.Fail("url-fragment-roundtrip", det)
					}
				}
			}
			return
		}
		// recorded findings: each reproducer is replayed first (it prints its signature as long as it fails)
		for _, pr := range urlProbes {
			checkURLProbe(c, pr)
		}
		// the shapes of the property text first
		for _, sh := range []ushape{
			{attr: "href", quote: `"`, baseShown: true, baseVal: "/search?lang=en", params: []uparam{{"&amp;", "k1", "a&b=c"}}},
			{attr: "href", quote: `"`, baseShown: true, baseVal: "/search?lang=en", params: []uparam{{"&", "k1", "1 1=2"}, {"&amp;", "k2", "100%41"}}},
			{attr: "href", quote: `'`, baseShown: true, baseVal: "/s?", params: []uparam{{"?", "k1", "x#y"}}, fragShown: true, fragVal: "a b"},
			{attr: "href", quote: ``, baseText: "/p", params: []uparam{{"?", "k1", "tom & jerry"}, {"&amp;", "k2", "+"}, {"&amp;", "k3", "é"}}},
		} {
			checkURLShape(c, sh)
		}
		for i := 0; i < c.N; i++ {
			checkURLShape(c, randUShape(c))
		}
	})
}
