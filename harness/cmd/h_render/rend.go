package main

// C05 part 1: renderer.Text / renderer.Show operation sequences on the real
// renderer (through the verif hooks) and through real templates.

import (
	"errors"
	"fmt"
	"strings"

	. "verif/harness/hlib"

	"github.com/open2b/scriggo"
	"github.com/open2b/scriggo/native"
	"github.com/open2b/scriggo/verifhook"
)

var errWrite = errors.New("verif: write failed")

// ---- values

type rval struct {
	v   any
	url string // html.UnescapeString(HTML rendering), "" with bad=true when not showable
	bad bool
}

type unshowable struct{ A int }

// urlDict: strings that exercise the URL state machine and the two escapers.
var urlDict = []string{"", "x", "x?y", "a&", "a?", "?", "&", "a b", "%41", "%4", "%", "%zz", "100%", "a+b", "\xc3\xa9", "<\"'>", "a=1&b=2", "#f", ",", "p/q", "?q=1", "&amp;", "a?b&", "\x00\x7f\xff", "`", "a%2", "%2F%", "~_-.!*", " "}

func strVal(s string) rval { return rval{v: s, url: s} }

func randURLString(c *Ctx) string {
	n := c.Rng.Intn(4)
	var b strings.Builder
	for i := 0; i < n; i++ {
		if c.Rng.Intn(4) == 0 {
			b.WriteByte(byte(c.Rng.Intn(256)))
		} else {
			b.WriteString(urlDict[c.Rng.Intn(len(urlDict))])
		}
	}
	return b.String()
}

func randVal(c *Ctx) rval {
	switch c.Rng.Intn(12) {
	case 0:
		return rval{v: 42, url: "42"}
	case 1:
		return rval{v: native.HTML("a&amp;b?c=&lt;"), url: "a&b?c=<"}
	case 2:
		return rval{v: unshowable{1}, bad: true}
	case 3:
		return rval{v: native.HTML("x?"), url: "x?"}
	case 4:
		return rval{v: nil, url: ""}
	default:
		return strVal(randURLString(c))
	}
}

// ---- operations

type rop struct {
	text       bool
	txt        string
	u, set     bool
	c          byte // Show: render context byte
	val        rval
	chunks     []string // Show outside URLs: the writes of the show function alone
	showErr    bool
}

var textDict = []string{"?", "?a=", "&", "&b=", "a", "/p?", "#", ", ", "x,y", "=", "?a=1&b=", "&amp;", "/", "http://h/p", " 2x", "?&"}

func encodeCtx(ctx int, u, set bool) byte {
	c := byte(ctx)
	if u {
		c |= 0x80
		if set {
			c |= 0x40
		}
	}
	return c
}

// isolatedShow runs the show function of context c (URL flags removed) alone
// on a recording writer: the chunks and whether it failed.
func isolatedShow(v any, c byte) (chunks []string, failed bool, panicked string) {
	rec := &verifhook.Recorder{}
	r := verifhook.NewRenderer(rec, verifhook.Env(nil, nil))
	var err error
	panicked = PanicText(func() { err = r.Show(v, verifhook.Context(c&0x0f)) })
	return rec.Chunks, err != nil, panicked
}

func randOp(c *Ctx, inAttr bool) rop {
	if c.Rng.Intn(5) < 2 {
		o := rop{text: true, txt: textDict[c.Rng.Intn(len(textDict))]}
		if c.Rng.Intn(6) == 0 {
			o.txt = randURLString(c)
		}
		o.u = inAttr
		if c.Rng.Intn(8) == 0 {
			o.u = !o.u
		}
		o.set = o.u && c.Rng.Intn(4) == 0
		return o
	}
	o := rop{val: randVal(c)}
	ctx := 7 + c.Rng.Intn(2)
	u := inAttr
	switch c.Rng.Intn(10) {
	case 0:
		u = !u
	case 1:
		ctx = c.Rng.Intn(14)
	case 2:
		if c.Rng.Intn(10) == 0 {
			ctx = 14 + c.Rng.Intn(2) // not a context: the renderer panics outside URLs
		}
	}
	if !u && c.Rng.Intn(2) == 0 {
		ctx = c.Rng.Intn(14)
	}
	o.c = encodeCtx(ctx, u, u && c.Rng.Intn(4) == 0)
	return o
}

func (o *rop) prepare() {
	if o.text || o.c&0x80 != 0 || o.c&0x0f > 13 {
		return
	}
	ch, failed, _ := isolatedShow(o.val.v, o.c)
	o.chunks, o.showErr = ch, failed
}

func chunksField(ch []string) string {
	if len(ch) == 0 {
		return "-"
	}
	p := make([]string, len(ch))
	for i, c := range ch {
		p[i] = "x" + Hx(c)
	}
	return strings.Join(p, ".")
}

func b01(b bool) string {
	if b {
		return "1"
	}
	return "0"
}

func (o *rop) field() string {
	if o.text {
		return "T:" + Hx(o.txt) + ":" + b01(o.u) + ":" + b01(o.set)
	}
	e := "-"
	if o.showErr {
		e = "1000"
	}
	url := "-"
	if !o.val.bad {
		url = "x" + Hx(o.val.url)
	}
	return fmt.Sprintf("S:%d:%s:%s:%s", o.c, chunksField(o.chunks), e, url)
}

// runOps executes the sequence on the real renderer with a writer failing
// from its failAt-th call on; the result has the model driver's format.
func runOps(ops []rop, failAt int) (res string, calls int, faulted bool) {
	rec := &verifhook.Recorder{FailAt: failAt, Err: errWrite}
	r := verifhook.NewRenderer(rec, verifhook.Env(nil, nil))
	var rs []string
	for i := range ops {
		o := &ops[i]
		var err error
		msg := PanicText(func() {
			if o.text {
				err = r.Text([]byte(o.txt), o.u, o.set)
			} else {
				err = r.Show(o.val.v, verifhook.Context(o.c))
			}
		})
		if msg != "" {
			rs = append(rs, "fault")
			faulted = true
			break
		}
		switch {
		case err == nil:
			rs = append(rs, "ok")
		case err == errWrite:
			rs = append(rs, "e7")
		default:
			rs = append(rs, "e1000")
		}
	}
	st := "-"
	if !faulted {
		a, b, c, d := r.State()
		st = b01(a) + b01(b) + b01(c) + b01(d)
	}
	return fmt.Sprintf("st=%s calls=%d out=%s res=%s", st, rec.Calls, chunksField(rec.Chunks), strings.Join(rs, ",")), rec.Calls, faulted
}

func opsField(ops []rop) string {
	p := make([]string, len(ops))
	for i := range ops {
		p[i] = ops[i].field()
	}
	return strings.Join(p, ";")
}

// smallOps: a fixed alphabet of operations for the exhaustive part.
func smallOps() []rop {
	q := func(s string) rop { return rop{c: encodeCtx(7, true, false), val: strVal(s)} }
	t := func(s string) rop { return rop{text: true, txt: s, u: true} }
	return []rop{q(""), q("x?y"), q("a&"), q("b"), q("?"), t("?a="), t("&b="), t("c"), t("#"),
		{text: true, txt: "\">", u: false}, {c: encodeCtx(8, true, false), val: strVal("a b%4")},
		{text: true, txt: "x,y", u: true, set: true}}
}

func enumSeqs(alpha []rop, maxLen int, f func(ops []rop)) {
	var rec func(cur []rop)
	rec = func(cur []rop) {
		if len(cur) > 0 {
			cp := make([]rop, len(cur))
			copy(cp, cur)
			f(cp)
		}
		if len(cur) == maxLen {
			return
		}
		for _, o := range alpha {
			rec(append(cur, o))
		}
	}
	rec(nil)
}

func init() {
	Register("C05-cases", func(c *Ctx) {
		emit := func(ops []rop) {
			for i := range ops {
				ops[i].prepare()
			}
			res, calls, _ := runOps(ops, 0)
			c.Line("rend", "0", opsField(ops), res)
			c.Count("sequences")
			// every failure position for short scripts, a random one otherwise
			if calls > 0 {
				ks := []int{1 + c.Rng.Intn(calls)}
				if calls <= 4 {
					ks = ks[:0]
					for k := 1; k <= calls; k++ {
						ks = append(ks, k)
					}
				}
				for _, k := range ks {
					res, _, _ := runOps(ops, k)
					c.Line("rend", fmt.Sprint(k), opsField(ops), res)
					c.Count("sequences-with-failing-writer")
				}
			}
		}
		maxLen := 3
		if c.Thorough() {
			maxLen = 4
		}
		enumSeqs(smallOps(), maxLen, emit)
		for i := 0; i < c.N; i++ {
			n := 1 + c.Rng.Intn(7)
			ops := make([]rop, n)
			inAttr := c.Rng.Intn(5) != 0
			for j := range ops {
				ops[j] = randOp(c, inAttr)
				if c.Rng.Intn(12) == 0 {
					inAttr = !inAttr
				}
			}
			// sometimes an empty text: outside the emitter's guarantee, the model must fault exactly where the code panics
			if c.Rng.Intn(15) == 0 {
				ops[c.Rng.Intn(n)] = rop{text: true, txt: "", u: true}
			}
			emit(ops)
		}
		// the fault table: what convertPanic and VM.Run make of the raw panic of each entry
		convCases(c)
		// the escapers alone
		for i := 0; i < c.N/2; i++ {
			s := randURLString(c) + randURLString(c)
			q := c.Rng.Intn(2) == 0
			rec := &verifhook.Recorder{}
			verifhook.Escape("pathEscape", rec, s, q, false)
			c.Line("pathEscape", b01(q), Hx(s), strings.ReplaceAll(chunksField(rec.Chunks), "-", ""))
			rec = &verifhook.Recorder{}
			verifhook.Escape("queryEscape", rec, s, false, false)
			c.Line("queryEscape", Hx(s), strings.ReplaceAll(chunksField(rec.Chunks), "-", ""))
			c.Add("escaper-cases", 2)
			if i < 150 {
				rec = &verifhook.Recorder{}
				verifhook.Escape("pathEscape", rec, s, q, false)
				fn := "pe_u"
				if q {
					fn = "pe_q"
				}
				c.Line(fn, Hx(s), "ok:"+Hx(strings.Join(rec.Chunks, "")))
				rec = &verifhook.Recorder{}
				verifhook.Escape("queryEscape", rec, s, false, false)
				c.Line("qe", Hx(s), "ok:"+Hx(strings.Join(rec.Chunks, "")))
			}
		}
	})
}



// ---- attribute scanner (independent oracle, written from the HTML syntax of
// start tags): parses `<name attr...>` at the start of s and returns the
// attributes and what follows the tag.
type attr struct{ name, value string }

func isWS(c byte) bool { return c == ' ' || c == '\t' || c == '\n' || c == '\f' || c == '\r' }

func scanStartTag(s string) (tag string, attrs []attr, rest string, ok bool) {
	if len(s) == 0 || s[0] != '<' {
		return
	}
	i := 1
	for i < len(s) && !isWS(s[i]) && s[i] != '>' && s[i] != '/' {
		i++
	}
	tag = s[1:i]
	for {
		for i < len(s) && (isWS(s[i]) || s[i] == '/') {
			i++
		}
		if i >= len(s) {
			return tag, attrs, "", false
		}
		if s[i] == '>' {
			return tag, attrs, s[i+1:], true
		}
		j := i
		for j < len(s) && !isWS(s[j]) && s[j] != '/' && s[j] != '>' && (s[j] != '=' || j == i) {
			j++
		}
		a := attr{name: s[i:j]}
		i = j
		for i < len(s) && isWS(s[i]) {
			i++
		}
		if i < len(s) && s[i] == '=' {
			i++
			for i < len(s) && isWS(s[i]) {
				i++
			}
			if i < len(s) && (s[i] == '"' || s[i] == '\'') {
				q := s[i]
				j = i + 1
				for j < len(s) && s[j] != q {
					j++
				}
				if j >= len(s) {
					return tag, attrs, "", false
				}
				a.value = s[i+1 : j]
				i = j + 1
			} else {
				j = i
				for j < len(s) && !isWS(s[j]) && s[j] != '>' {
					j++
				}
				a.value = s[i:j]
				i = j
			}
		}
		attrs = append(attrs, a)
	}
}

// ---- C05 sweep

type urlShape struct {
	attrName string
	quote    string // `"`, `'` or ""
	parts    []string // texts, with holes between them
	holes    []string // a, b, c (string variables) or v (any)
}

func (sh urlShape) source() string {
	var b strings.Builder
	b.WriteString("<a " + sh.attrName + "=" + sh.quote)
	for i, p := range sh.parts {
		b.WriteString(p)
		if i < len(sh.holes) {
			b.WriteString("{{ " + sh.holes[i] + " }}")
		}
	}
	b.WriteString(sh.quote + ">END")
	return b.String()
}

var urlTextParts = []string{"", "", "/", "?", "?x=", "&", "&y=", "#", "a", "/p?q=1", "=", "http://h/", "?a=1&b=", ","}

func randShape(c *Ctx) urlShape {
	sh := urlShape{attrName: []string{"href", "href", "src", "srcset", "action"}[c.Rng.Intn(5)], quote: []string{`"`, `"`, `'`, ``}[c.Rng.Intn(4)]}
	n := 1 + c.Rng.Intn(3)
	for i := 0; i <= n; i++ {
		sh.parts = append(sh.parts, urlTextParts[c.Rng.Intn(len(urlTextParts))])
		if i < n {
			sh.holes = append(sh.holes, []string{"a", "b", "c", "v"}[c.Rng.Intn(4)])
		}
	}
	return sh
}

var sweepGlobals = native.Declarations{"a": (*string)(nil), "b": (*string)(nil), "c": (*string)(nil), "v": (*any)(nil)}

func init() {
	Register("C05-sweep", func(c *Ctx) {
		if in := c.ReplayInput(); in != nil {
			replayC05(c, in)
			return
		}
		// (1) the fault table, every entry, then wrapped variants
		table := faultTable()
		for i := range table {
			table[i].check(c, "")
		}
		nvar := c.N / 10
		for i := 0; i < nvar; i++ {
			fc := table[c.Rng.Intn(len(table))]
			if fc.kind != "program" || fc.known != "" || fc.ctxCancel || strings.HasPrefix(fc.entry, "CallNative/Stop") || strings.HasPrefix(fc.entry, "CallNative/Fatal") || strings.HasPrefix(fc.entry, "Panic/re") || strings.HasPrefix(fc.entry, "Go/") {
				continue
			}
			w := wrappers[c.Rng.Intn(len(wrappers))]
			body := strings.TrimSuffix(strings.SplitN(fc.src, "func main() {\n", 2)[1], "\n}\n")
			v := fc
			v.src = prog(w.f(body))
			if w.want != nil {
				if nw := w.want(fc.want); nw != "" {
					v.want = nw
				}
			}
			v.check(c, w.name)
		}
		// (2) valid operation sequences on the real renderer never panic
		for i := 0; i < c.N; i++ {
			n := 1 + c.Rng.Intn(8)
			ops := make([]rop, 0, n)
			inAttr := c.Rng.Intn(5) != 0
			for len(ops) < n {
				o := randOp(c, inAttr)
				if (o.text && o.txt == "") || (!o.text && o.c&0x0f > 13) {
					continue
				}
				ops = append(ops, o)
				if c.Rng.Intn(12) == 0 {
					inAttr = !inAttr
				}
			}
			k := 0
			if c.Rng.Intn(3) == 0 {
				k = 1 + c.Rng.Intn(6)
			}
			_, _, faulted := runOps(ops, k)
			c.Count("evaluations")
			c.Count("renderer-sequences")
			if faulted {
				c.Fail("host-panic:renderer", map[string]any{"ops": opsField(ops), "failAt": k})
			}
		}
		// (3) URL attributes through real templates: no panic, the emitter's
		// guarantees hold, the attribute stays one attribute
		for _, src := range cutTemplates {
			checkEmitted(c, src)
		}
		shapes := c.N / 8
		for i := 0; i < shapes; i++ {
			sh := randShape(c)
			checkShape(c, sh, 6)
		}
	})
}

func replayC05(c *Ctx, in map[string]any) {
	if e, ok := in["entry"].(string); ok {
		for _, fc := range faultTable() {
			if fc.entry == e {
				if src, ok := in["src"].(string); ok && fc.kind == "program" {
					fc.src = src
				}
				fc.check(c, "replay")
			}
		}
		return
	}
	if f, ok := in["ops"].(string); ok {
		var ops []rop
		for _, o := range strings.Split(f, ";") {
			p := strings.Split(o, ":")
			switch {
			case p[0] == "T" && len(p) == 4:
				ops = append(ops, rop{text: true, txt: Unhx(p[1]), u: p[2] == "1", set: p[3] == "1"})
			case p[0] == "S" && len(p) == 5:
				var cb int
				fmt.Sscan(p[1], &cb)
				v := rval{v: unshowable{1}, bad: true}
				if p[4] != "-" {
					v = strVal(Unhx(p[4][1:]))
				}
				ops = append(ops, rop{c: byte(cb), val: v})
			}
		}
		k := 0
		if x, ok := in["failAt"].(float64); ok {
			k = int(x)
		}
		res, _, faulted := runOps(ops, k)
		c.Count("evaluations")
		if faulted {
			c.Fail("host-panic:renderer", map[string]any{"ops": f, "failAt": k, "result": res})
		}
		return
	}
	if src, ok := in["template"].(string); ok {
		vals := map[string]any{}
		if m, ok := in["values"].(map[string]any); ok {
			for k, v := range m {
				if s, ok := v.(string); ok {
					if k == "v" {
						vals[k] = anyp(Unhx(s))
					} else {
						vals[k] = Unhx(s)
					}
				}
			}
		}
		runShapeOnce(c, src, "a", vals, nil)
	}
}

// templates whose texts are cut (statement-only lines, comments): the emitter must not emit an empty Text
var cutTemplates = []string{
	"{% if true %}\n{% end %}\n",
	"  {% var x = 1 %}  \n{{ a }}",
	"{# c #}\n",
	"a\n  {% if true %}\n  b\n  {% end %}\nc",
	"<a href=\"{{ a }}\n  {% if true %}\n?x=1{% end %}\n\">END",
	"<a href=\"{{ a }}{% if true %}{% end %}{{ b }}\">END",
	"{% macro M %}\n{% end %}\n{{ M() }}",
	"{% for i := 0; i < 2; i++ %}\n{% end %}",
	"\n{% extends \"l.html\" %}\n",
}

func checkEmitted(c *Ctx, src string) *scriggo.Template {
	var t *scriggo.Template
	var err error
	files := scriggo.Files{"index.html": []byte(src), "l.html": []byte("L")}
	if msg := PanicText(func() {
		t, err = scriggo.BuildTemplate(files, "index.html", &scriggo.BuildOptions{Globals: sweepGlobals})
	}); msg != "" {
		c.Fail("host-panic:build", map[string]any{"template": src, "panic": normPanic(msg)})
		return nil
	}
	if err != nil {
		c.Count("shape-build-errors")
		return nil
	}
	c.Count("evaluations")
	checkInstrs(c, t, src)
	return t
}

func checkShape(c *Ctx, sh urlShape, runs int) {
	src := sh.source()
	t := checkEmitted(c, src)
	if t == nil {
		return
	}
	for r := 0; r < runs; r++ {
		vals := map[string]any{}
		hexvals := map[string]string{}
		for _, h := range []string{"a", "b", "c", "v"} {
			s := randURLString(c)
			if r == 0 && h == "a" {
				s = "x?y"
			}
			if r == 0 && h != "a" {
				s = ""
			}
			hexvals[h] = Hx(s)
			if h == "v" {
				vals[h] = anyp(s)
			} else {
				vals[h] = s
			}
		}
		runShapeOnce(c, src, sh.attrName, vals, hexvals)
	}
}

func runShapeOnce(c *Ctx, src, attrName string, vals map[string]any, hexvals map[string]string) {
	c.Count("evaluations")
	c.Count("url-template-runs")
	tr := tmplRun{files: scriggo.Files{"index.html": []byte(src)}, name: "index.html", globals: sweepGlobals, vars: vals}
	out, written := tr.run()
	det := map[string]any{"template": src, "values": hexvals, "outcome": normPanic(out), "out": written}
	if strings.HasPrefix(out, "HOSTPANIC") {
		c.Fail("host-panic:url-attribute", det)
		return
	}
	if out != "nil" {
		c.Fail("url-attribute-run-error", det)
		return
	}
	tag, attrs, rest, ok := scanStartTag(written)
	if !ok || tag != "a" || len(attrs) != 1 || rest != "END" || (attrName != "" && attrs[0].name != attrName) {
		det["attrs"] = fmt.Sprint(attrs)
		c.Fail("url-attribute-not-confined", det)
		return
	}
	if strings.ContainsAny(attrs[0].value, "?&%") {
		c.Count("nontrivial")
	}
	if len(c.Samples) < 3 {
		c.Sample(map[string]string{"template": src, "out": written})
	}
}

// checkInstrs: the emitter's guarantees the renderer theorem assumes
func checkInstrs(c *Ctx, t *scriggo.Template, src string) {
	for _, in := range verifhook.RenderInstrs(t) {
		c.Count("emitted-instructions-checked")
		switch in.Op {
		case "Text":
			if len(in.Text) == 0 {
				c.Fail("emitter-precondition:empty-text", map[string]any{"template": src})
			}
		case "Show":
			ctx, _, _ := verifhook.DecodeRenderContext(verifhook.Context(in.C))
			if ctx > 13 {
				c.Fail("emitter-precondition:unknown-context", map[string]any{"template": src, "c": in.C})
			}
		}
	}
}
