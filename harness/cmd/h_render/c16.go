package main

// C16: render, import and extends against their documented expansions. The
// expansions are built as transformed file sets; the sweep compares the real
// outputs, the correspondence compares each set with the model.

import (
	"fmt"
	"strings"

	. "verif/harness/hlib"
)

func (fs *fileSet) clone() *fileSet {
	out := &fileSet{main: fs.main}
	for _, f := range fs.files {
		g := *f
		g.imports = append([]sImport(nil), f.imports...)
		g.macros = make([]sMacro, len(f.macros))
		for i, m := range f.macros {
			g.macros[i] = m
			g.macros[i].body = append([]sNode(nil), m.body...)
		}
		g.body = append([]sNode(nil), f.body...)
		out.files = append(out.files, &g)
	}
	return out
}

// renderSites lists (file index, macro index or -1, node index) of every render node
type site struct{ fi, mi, ni int }

func (fs *fileSet) renderSites() []site {
	var out []site
	for fi, f := range fs.files {
		for ni, n := range f.body {
			if n.kind != 'T' && n.e.kind == 'r' {
				out = append(out, site{fi, -1, ni})
			}
		}
		for mi, m := range f.macros {
			for ni, n := range m.body {
				if n.kind != 'T' && n.e.kind == 'r' {
					out = append(out, site{fi, mi, ni})
				}
			}
		}
	}
	return out
}

func (fs *fileSet) nodeAt(s site) *sNode {
	if s.mi < 0 {
		return &fs.files[s.fi].body[s.ni]
	}
	return &fs.files[s.fi].macros[s.mi].body[s.ni]
}

type variant struct {
	law string
	fs  *fileSet
	// the variant must produce the same output as the original when same is true;
	// otherwise it is compared with `against`
	against *fileSet
	// signature of the recorded finding that explains a difference, if any
	knownSig string
	// the value form is outside what the model of Show covers (showf_model): not sent to the model
	noModel bool
}

// variants builds the documented expansions that apply to fs.
func variants(c *Ctx, fs *fileSet) []variant {
	var out []variant
	// (1) {{ render f }}  <->  {% var v = render f %}{{ v }}
	sites := fs.renderSites()
	if len(sites) > 0 {
		s := sites[c.Rng.Intn(len(sites))]
		n := fs.nodeAt(s)
		if !fs.file(n.e.n).rec {
			v := fs.clone()
			m := v.nodeAt(s)
			if m.kind == 'S' {
				m.kind = 'V'
			} else {
				m.kind = 'S'
			}
			// the fast path of {{ render }} has no format test (recorded finding render-fastpath-format):
			// for a file whose format is not the one of the context the two forms differ
			pf, ctx := fs.file(n.e.n).fmt, int(n.c)
			known := ""
			if !(pf == ctx || (pf == fMarkdown && ctx == fHTML)) {
				known = "render-fastpath-format"
			}
			out = append(out, variant{law: "render_equals_show_of_value", fs: v, against: fs, knownSig: known,
				noModel: !(pf == ctx || ctx == fHTML || ctx == fText)})
		}
	}
	// (2) a file rendered from a host of the same format = the file on its own
	for _, s := range sites {
		n := fs.nodeAt(s)
		p := fs.file(n.e.n)
		if n.kind == 'S' && int(n.c) == p.fmt && s.mi < 0 {
			host := fs.clone()
			h := &sFile{path: 900, fmt: p.fmt, extends: -1, body: []sNode{{kind: 'S', c: byte(p.fmt), e: sExp{kind: 'r', n: p.path}}}}
			host.files = append(host.files, h)
			host.main = 900
			alone := fs.clone()
			alone.main = p.path
			out = append(out, variant{law: "render_equals_standalone", fs: host, against: alone})
			break
		}
	}
	// (3) extends: the layout with the macros (and imports) of the extending file declared in it
	mainF := fs.file(fs.main)
	if mainF.extends >= 0 {
		v := fs.clone()
		child := v.file(fs.main)
		lay := v.file(mainF.extends)
		lay.macros = append(append([]sMacro(nil), child.macros...), lay.macros...)
		lay.imports = append(lay.imports, child.imports...)
		v.main = lay.path
		// the child file is no longer used
		out = append(out, variant{law: "extends_is_layout_with_macros", fs: v, against: fs})
	}
	// (4) import without alias: the macros of the imported file declared in the importing file
	for fi, f := range fs.files {
		done := false
		for ii, im := range f.imports {
			if im.alias >= 0 {
				continue
			}
			v := fs.clone()
			g := v.files[fi]
			imp := v.file(im.path)
			g.macros = append(append([]sMacro(nil), imp.macros...), g.macros...)
			g.imports = append(append([]sImport(nil), g.imports[:ii]...), g.imports[ii+1:]...)
			g.imports = append(g.imports, imp.imports...)
			if im.forL != nil {
				// only the listed names were visible; the others are declared too but never called under
				// a name of the importing file (names are unique in a generated set)
			}
			out = append(out, variant{law: "import_is_local_declaration", fs: v, against: fs})
			done = true
			break
		}
		if done {
			break
		}
	}
	return out
}

func outputOf(r tcResult) string { return strings.Join(r.chunks, "") }

func init() {
	Register("C16-cases", func(c *Ctx) {
		for i := 0; i < c.N; i++ {
			fs := genSmallFileSet(c, c.Rng.Intn(3) == 0)
			conv := c.Rng.Intn(8) != 0
			sets := []*fileSet{fs}
			for _, v := range variants(c, fs) {
				if v.noModel {
					continue
				}
				sets = append(sets, v.fs)
				if v.against != fs {
					sets = append(sets, v.against)
				}
			}
			for _, s := range sets {
				t, msg := s.build(conv)
				if t == nil {
					c.Count("build-failures")
					if strings.HasPrefix(msg, "buildpanic") {
						c.Fail("host-panic:build", map[string]any{"files": s.srcMap(), "panic": msg})
					}
					continue
				}
				tcLine(c, s, conv, 0, runTemplate(t, 0))
				c.Count("template-sets")
			}
		}
	})

	Register("C16-sweep", func(c *Ctx) {
		if in := c.ReplayInput(); in != nil {
			replayC16(c, in)
			return
		}
		// the repaired fast path: a text file rendered into HTML
		fixedC16(c)
		for i := 0; i < c.N; i++ {
			g := &gen{c: c, fs: &fileSet{}, maxDepth: 1 + c.Rng.Intn(3), anyFormats: true, allowRecFile: false}
			fs := genWith(g)
			if fs.size() > 80 {
				continue
			}
			conv := true
			for _, v := range variants(c, fs) {
				compareSets(c, v.law, v.fs, v.against, conv, v.knownSig)
			}
		}
	})
}

func compareSets(c *Ctx, law string, a, b *fileSet, conv bool, knownSig string) {
	ta, ma := a.build(conv)
	tb, mb := b.build(conv)
	c.Count("evaluations")
	det := func() map[string]any {
		fa, fb := a.file(a.main), b.file(b.main)
		return map[string]any{"law": law, "expansion": a.srcMap(), "expansion_main": pathName(fa.path, fa.fmt),
			"original": b.srcMap(), "original_main": pathName(fb.path, fb.fmt), "conv": conv}
	}
	if ta == nil || tb == nil {
		if strings.HasPrefix(ma, "buildpanic") || strings.HasPrefix(mb, "buildpanic") {
			d := det()
			d["panic"] = ma + mb
			c.Fail("host-panic:build", d)
			return
		}
		if (ta == nil) != (tb == nil) {
			d := det()
			d["build"] = ma + " / " + mb
			c.Fail(law+":one-side-does-not-build", d)
		} else {
			c.Count("both-do-not-build")
		}
		return
	}
	ra, rb := runTemplate(ta, 0), runTemplate(tb, 0)
	if ra.res == "hostpanic:none" || rb.res == "hostpanic:none" {
		c.Count("skipped-no-converter")
		return
	}
	if ra.res != rb.res || outputOf(ra) != outputOf(rb) {
		d := det()
		d["expansion_out"] = Hx(outputOf(ra)) + " " + ra.res
		d["original_out"] = Hx(outputOf(rb)) + " " + rb.res
		if knownSig != "" {
			d["known"] = knownSig
			c.Fail(knownSig, d)
			return
		}
		c.Fail(law, d)
		return
	}
	c.Count(law)
	if outputOf(ra) != "" {
		c.Count("nontrivial")
	}
	if len(c.Samples) < 3 {
		c.Sample(map[string]any{"law": law, "original": b.srcMap(), "out": outputOf(rb)})
	}
}

func filesOf(v any) (scriggoFiles map[string]string) {
	scriggoFiles = map[string]string{}
	if m, ok := v.(map[string]any); ok {
		for k, x := range m {
			scriggoFiles[k], _ = x.(string)
		}
	}
	return
}

func replayC16(c *Ctx, in map[string]any) {
	law, _ := in["law"].(string)
	conv, _ := in["conv"].(bool)
	a, b := filesOf(in["expansion"]), filesOf(in["original"])
	am, _ := in["expansion_main"].(string)
	bm, _ := in["original_main"].(string)
	ra, ea := runSources(a, am, conv)
	rb, eb := runSources(b, bm, conv)
	c.Count("evaluations")
	if ea != "" || eb != "" {
		if (ea == "") != (eb == "") {
			c.Fail(law+":one-side-does-not-build", map[string]any{"law": law, "build": ea + " / " + eb})
		}
		return
	}
	if ra.res != rb.res || outputOf(ra) != outputOf(rb) {
		sig := law
		if k, ok := in["known"].(string); ok && k != "" {
			sig = k
		}
		c.Fail(sig, map[string]any{"law": law, "known": in["known"], "expansion": a, "original": b, "expansion_main": am, "original_main": bm, "conv": conv,
			"expansion_out": Hx(outputOf(ra)) + " " + ra.res, "original_out": Hx(outputOf(rb)) + " " + rb.res})
	}
}

func fixedC16(c *Ctx) {
	type pair struct {
		law   string
		a, b  map[string]string
		known string
	}
	part := map[string]string{"x.txt": "<b>{{ v0 }}", "x.css": `a{b:"{{ v0 }}"}`, "x.js": `var a="{{ v0 }}";`, "x.md": "*b*{{ v5 }}", "x.html": "<i>{{ v0 }}</i>"}
	hostFmt := map[string]int{"index.html": fHTML, "index.txt": fText, "index.md": fMarkdown, "index.js": fJS, "index.css": fCSS, "index.json": fJSON}
	partFmt := map[string]int{"x.txt": fText, "x.css": fCSS, "x.js": fJS, "x.md": fMarkdown, "x.html": fHTML}
	var ps []pair
	for _, host := range []string{"index.html", "index.txt", "index.md", "index.js", "index.css", "index.json"} {
		for _, p := range []string{"x.txt", "x.css", "x.js", "x.md", "x.html"} {
			a := map[string]string{host: fmt.Sprintf(`[{{ render %q }}]`, p), p: part[p]}
			b := map[string]string{host: fmt.Sprintf(`{%% var v = render %q %%}[{{ v }}]`, p), p: part[p]}
			known := ""
			if hf, pf := hostFmt[host], partFmt[p]; !(hf == pf || (pf == fMarkdown && hf == fHTML)) {
				known = "render-fastpath-format"
			}
			ps = append(ps, pair{"render_equals_show_of_value", a, b, known})
		}
	}
	for _, p := range ps {
		var am string
		for k := range p.a {
			if strings.HasPrefix(k, "index") {
				am = k
			}
		}
		c.Count("evaluations")
		ra, ea := runSources(p.a, am, true)
		rb, eb := runSources(p.b, am, true)
		if ea != "" || eb != "" {
			c.Fail(p.law+":one-side-does-not-build", map[string]any{"law": p.law, "expansion": p.a, "original": p.b, "build": ea + " / " + eb})
			continue
		}
		if ra.res != rb.res || outputOf(ra) != outputOf(rb) {
			sig := p.law
			if p.known != "" {
				sig = p.known
			}
			c.Fail(sig, map[string]any{"law": p.law, "known": p.known, "expansion": p.a, "original": p.b, "expansion_main": am, "original_main": am, "conv": true,
				"expansion_out": Hx(outputOf(ra)) + " " + ra.res, "original_out": Hx(outputOf(rb)) + " " + rb.res})
			continue
		}
		c.Count("nontrivial")
	}
	// a file rendered inside a URL attribute must not change how it renders elsewhere (repaired:
	// the URL flags of the emitter leaked into the functions of the rendered file)
	{
		files := map[string]string{"index.html": `<a href="{{ render "x.html" }}">[{{ render "x.html" }}]`, "x.html": part["x.html"]}
		alone := map[string]string{"index.html": `[{{ render "x.html" }}]`, "x.html": part["x.html"]}
		ra, ea := runSources(files, "index.html", true)
		rb, eb := runSources(alone, "index.html", true)
		c.Count("evaluations")
		if ea != "" || eb != "" || !strings.HasSuffix(outputOf(ra), outputOf(rb)) {
			c.Fail("render-url-flags-leak", map[string]any{"law": "render_equals_standalone", "expansion": files, "original": alone,
				"expansion_out": Hx(outputOf(ra)), "original_out": Hx(outputOf(rb)), "build": ea + eb})
		}
	}
	// deep chains of rendered files with many variables each (register files grow past their first 512 slots)
	for _, dc := range []struct {
		n, vars int
		typ     string
	}{{4, 100, "string"}, {8, 100, "string"}, {12, 60, "string"}, {8, 120, "int"}, {6, 90, "string"}, {10, 50, "int"}} {
		chain := map[string]string{}
		for i := 0; i < dc.n; i++ {
			var b strings.Builder
			for v := 0; v < dc.vars; v++ {
				if dc.typ == "int" {
					fmt.Fprintf(&b, "{%% var x%d = %d %%}", v, v+i)
				} else {
					fmt.Fprintf(&b, "{%% var x%d = \"s%d_%d\" %%}", v, i, v)
				}
			}
			fmt.Fprintf(&b, "<%d:{{ x0 }}{{ x%d }}", i, dc.vars-1)
			if i+1 < dc.n {
				fmt.Fprintf(&b, "{{ render \"d%d.html\" }}", i+1)
			}
			fmt.Fprintf(&b, "{{ x%d }}>", dc.vars/2)
			chain[fmt.Sprintf("d%d.html", i)] = b.String()
		}
		withIndex := func(src string) map[string]string {
			m := map[string]string{"index.html": src}
			for k, v := range chain {
				m[k] = v
			}
			return m
		}
		type cmp struct {
			law    string
			a, b   map[string]string
			am, bm string
		}
		for _, x := range []cmp{
			{"render_equals_show_of_value", withIndex(`[{{ render "d0.html" }}]`), withIndex(`{% var v = render "d0.html" %}[{{ v }}]`), "index.html", "index.html"},
			{"render_equals_standalone", withIndex(`{{ render "d0.html" }}`), chain, "index.html", "d0.html"},
		} {
			c.Count("evaluations")
			ra, ea := runSources(x.a, x.am, true)
			rb, eb := runSources(x.b, x.bm, true)
			det := map[string]any{"law": x.law, "expansion": x.a, "original": x.b, "expansion_main": x.am, "original_main": x.bm, "conv": true,
				"chain": fmt.Sprintf("%d files x %d %s variables", dc.n, dc.vars, dc.typ)}
			if ea != "" || eb != "" {
				det["build"] = ea + " / " + eb
				c.Fail(x.law+":one-side-does-not-build", det)
				continue
			}
			if strings.HasPrefix(ra.res, "hostpanic") || strings.HasPrefix(rb.res, "hostpanic") {
				det["expansion_out"], det["original_out"] = ra.res, rb.res
				c.Fail("host-panic:deep-render-chain", det)
				continue
			}
			if ra.res != rb.res || outputOf(ra) != outputOf(rb) || !strings.Contains(outputOf(ra), fmt.Sprintf("<%d:", dc.n-1)) {
				det["expansion_out"], det["original_out"] = Hx(outputOf(ra))+" "+ra.res, Hx(outputOf(rb))+" "+rb.res
				c.Fail(x.law, det)
				continue
			}
			c.Count("nontrivial")
			c.Count("deep-chains")
		}
	}
	// corpus of repaired and recorded composition defects: (signature, a, main of a, b, main of b, known finding?)
	for _, x := range []struct {
		sig    string
		a      map[string]string
		am     string
		b      map[string]string
		bm     string
		known  bool
		suffix bool // the output of b must be a suffix of the output of a
	}{
		// repaired: a classic for with continue in a file rendered inside a for range statement
		{"render-in-range-continue",
			map[string]string{"index.html": `{% for v in []int{1,2} %}{{ render "x.html" }}{% end %}`, "x.html": `[{% for i := 0; i < 3; i++ %}{% if i == 1 %}{% continue %}{% end %}{{ i }}{% end %}]`}, "index.html",
			map[string]string{"index.html": `{{ render "x.html" }}{{ render "x.html" }}`, "x.html": `[{% for i := 0; i < 3; i++ %}{% if i == 1 %}{% continue %}{% end %}{{ i }}{% end %}]`}, "index.html", false, false},
		// repaired: the for list of an import
		{"import-for-list-ignored",
			map[string]string{"index.html": `{% import "b.html" %}{% import "a.html" for Hello %}{{ Hello() }}{{ Helper() }}`,
				"a.html": `{% macro Hello %}hello-a{% end %}{% macro Helper %}helper-a{% end %}`, "b.html": `{% macro Helper %}helper-b{% end %}`}, "index.html",
			map[string]string{"index.html": `{% import "b.html" %}{% import "a.html" %}{{ Hello() }}{{ Helper() }}`,
				"a.html": `{% macro Hello %}hello-a{% end %}`, "b.html": `{% macro Helper %}helper-b{% end %}`}, "index.html", false, false},
		// files of two directories that render a file of their own directory under the same relative spelling
		{"render-relative-path-per-directory",
			map[string]string{"index.html": `{{ render "news/section.html" }}{{ render "shop/section.html" }}`,
				"news/section.html": `N[{{ render "item.html" }}]`, "news/item.html": `news-item`,
				"shop/section.html": `S[{{ render "item.html" }}{% var v = render "item.html" %}{{ v }}]`, "shop/item.html": `shop-item`}, "index.html",
			map[string]string{"index.html": `N[news-item]S[shop-itemshop-item]`}, "index.html", false, false},
		// one file rendered under several spellings (relative, through the parent directory, rooted)
		{"render-one-file-several-spellings",
			map[string]string{"index.html": `{{ render "news/section.html" }}{{ render "/news/item.html" }}{{ render "news/item.html" }}`,
				"news/section.html": `N[{{ render "item.html" }}{{ render "../news/item.html" }}]`, "news/item.html": `news-item`}, "index.html",
			map[string]string{"index.html": `N[news-itemnews-item]news-itemnews-item`}, "index.html", false, false},
		// recorded: the variables of a file imported by two rendered files are initialised inside the first rendering only
		{"import-init-only-in-first-render",
			map[string]string{"index.html": `{% if len("x") == 2 %}{{ render "a.html" }}{% end %}{{ render "b.html" }}`,
				"a.html": `{% import "vars.html" %}a{{ Count }}`, "b.html": `{% import "vars.html" %}b{{ Count }}`, "vars.html": `{% var Count = 10 %}`}, "index.html",
			map[string]string{"b.html": `{% import "vars.html" %}b{{ Count }}`, "vars.html": `{% var Count = 10 %}`}, "b.html", true, false},
	} {
		c.Count("evaluations")
		ra, ea := runSources(x.a, x.am, true)
		rb, eb := runSources(x.b, x.bm, true)
		if ea != "" || eb != "" || ra.res != rb.res || outputOf(ra) != outputOf(rb) {
			c.Fail(x.sig, map[string]any{"law": x.sig, "known": x.sig, "expansion": x.a, "original": x.b, "expansion_main": x.am, "original_main": x.bm, "conv": true,
				"expansion_out": Hx(outputOf(ra)) + " " + ra.res, "original_out": Hx(outputOf(rb)) + " " + rb.res, "build": ea + eb})
		}
	}
	// the recorded finding: a macro with a deferred call taken as a value
	a := map[string]string{"index.html": `{% macro M %}{% defer func() { }() %}abc{% end %}[{{ M() }}]`}
	b := map[string]string{"index.html": `{% macro M %}{% defer func() { }() %}abc{% end %}{% var v = M() %}[{{ v }}]`}
	ra, _ := runSources(a, "index.html", true)
	rb, _ := runSources(b, "index.html", true)
	c.Count("evaluations")
	if outputOf(ra) != outputOf(rb) {
		c.Fail("macro-with-defer-loses-output", map[string]any{"law": "render_equals_show_of_value", "expansion": a, "original": b,
			"expansion_main": "index.html", "original_main": "index.html", "conv": true,
			"expansion_out": Hx(outputOf(ra)), "original_out": Hx(outputOf(rb))})
	}
}
