// h_alu: the integer ALU of the Scriggo VM against the Coq model (vm_binop =
// builder selection + VM.run terms) and against gc's own arithmetic.
package main

import (
	"fmt"
	"math/big"
	"reflect"
	"strings"

	"github.com/open2b/scriggo"
	"github.com/open2b/scriggo/native"

	. "verif/harness/hlib"
)

func main() { Main() }

type kindInfo struct {
	name   string
	code   int
	bits   uint
	signed bool
}

var kinds = []kindInfo{
	{"int", int(reflect.Int), 64, true}, {"int8", int(reflect.Int8), 8, true}, {"int16", int(reflect.Int16), 16, true},
	{"int32", int(reflect.Int32), 32, true}, {"int64", int(reflect.Int64), 64, true},
	{"uint", int(reflect.Uint), 64, false}, {"uint8", int(reflect.Uint8), 8, false}, {"uint16", int(reflect.Uint16), 16, false},
	{"uint32", int(reflect.Uint32), 32, false}, {"uint64", int(reflect.Uint64), 64, false}, {"uintptr", int(reflect.Uintptr), 64, false},
}

func (k kindInfo) min() *big.Int {
	if !k.signed {
		return big.NewInt(0)
	}
	return new(big.Int).Neg(new(big.Int).Lsh(big.NewInt(1), k.bits-1))
}
func (k kindInfo) max() *big.Int {
	if k.signed {
		return new(big.Int).Sub(new(big.Int).Lsh(big.NewInt(1), k.bits-1), big.NewInt(1))
	}
	return new(big.Int).Sub(new(big.Int).Lsh(big.NewInt(1), k.bits), big.NewInt(1))
}

// values returns boundary-rich values of kind k plus n random ones.
func (k kindInfo) values(c *Ctx, n int) []*big.Int {
	var out []*big.Int
	add := func(v *big.Int) {
		if v.Cmp(k.min()) >= 0 && v.Cmp(k.max()) <= 0 {
			for _, o := range out {
				if o.Cmp(v) == 0 {
					return
				}
			}
			out = append(out, v)
		}
	}
	for _, d := range []int64{0, 1, 2, 3, 7, 10, 100, 127, 128, 255, 256} {
		add(big.NewInt(d))
		add(big.NewInt(-d))
		add(new(big.Int).Add(k.min(), big.NewInt(d)))
		add(new(big.Int).Sub(k.max(), big.NewInt(d)))
	}
	for b := uint(1); b < k.bits; b += 5 {
		p := new(big.Int).Lsh(big.NewInt(1), b)
		add(p)
		add(new(big.Int).Sub(p, big.NewInt(1)))
		add(new(big.Int).Neg(p))
	}
	for i := 0; i < n; i++ {
		span := new(big.Int).Sub(k.max(), k.min())
		span.Add(span, big.NewInt(1))
		v := new(big.Int).Rand(c.Rng, span)
		v.Add(v, k.min())
		add(v)
	}
	return out
}

type integer interface {
	~int | ~int8 | ~int16 | ~int32 | ~int64 | ~uint | ~uint8 | ~uint16 | ~uint32 | ~uint64 | ~uintptr
}

func from[T integer](v *big.Int, signed bool) T {
	if signed {
		return T(v.Int64())
	}
	return T(v.Uint64())
}

// gcBin is the operation as the gc compiler evaluates it at type T.
func gcBin[T integer](op string, x, y T) (res string, panicked bool) {
	defer func() {
		if r := recover(); r != nil {
			res, panicked = "panic", true
		}
	}()
	var r T
	switch op {
	case "Add":
		r = x + y
	case "Sub":
		r = x - y
	case "Mul":
		r = x * y
	case "Quo":
		r = x / y
	case "Rem":
		r = x % y
	case "And":
		r = x & y
	case "Or":
		r = x | y
	case "Xor":
		r = x ^ y
	case "AndNot":
		r = x &^ y
	}
	return fmt.Sprint(r), false
}

func gcShift[T integer](op string, x T, s uint64) string {
	if op == "Shl" {
		return fmt.Sprint(x << s)
	}
	return fmt.Sprint(x >> s)
}

func gcNeg[T integer](x T) string { return fmt.Sprint(-x) }

func dispatch(k kindInfo, f func(t any) string) string {
	switch k.name {
	case "int":
		return f(int(0))
	case "int8":
		return f(int8(0))
	case "int16":
		return f(int16(0))
	case "int32":
		return f(int32(0))
	case "int64":
		return f(int64(0))
	case "uint":
		return f(uint(0))
	case "uint8":
		return f(uint8(0))
	case "uint16":
		return f(uint16(0))
	case "uint32":
		return f(uint32(0))
	case "uint64":
		return f(uint64(0))
	case "uintptr":
		return f(uintptr(0))
	}
	panic("kind")
}

func gcBinK(k kindInfo, op string, x, y *big.Int) string {
	switch k.name {
	case "int":
		r, _ := gcBin(op, from[int](x, true), from[int](y, true))
		return r
	case "int8":
		r, _ := gcBin(op, from[int8](x, true), from[int8](y, true))
		return r
	case "int16":
		r, _ := gcBin(op, from[int16](x, true), from[int16](y, true))
		return r
	case "int32":
		r, _ := gcBin(op, from[int32](x, true), from[int32](y, true))
		return r
	case "int64":
		r, _ := gcBin(op, from[int64](x, true), from[int64](y, true))
		return r
	case "uint":
		r, _ := gcBin(op, from[uint](x, false), from[uint](y, false))
		return r
	case "uint8":
		r, _ := gcBin(op, from[uint8](x, false), from[uint8](y, false))
		return r
	case "uint16":
		r, _ := gcBin(op, from[uint16](x, false), from[uint16](y, false))
		return r
	case "uint32":
		r, _ := gcBin(op, from[uint32](x, false), from[uint32](y, false))
		return r
	case "uint64":
		r, _ := gcBin(op, from[uint64](x, false), from[uint64](y, false))
		return r
	case "uintptr":
		r, _ := gcBin(op, from[uintptr](x, false), from[uintptr](y, false))
		return r
	}
	panic("kind")
}

func gcShiftK(k kindInfo, op string, x *big.Int, s uint64) string {
	switch k.name {
	case "int":
		return gcShift(op, from[int](x, true), s)
	case "int8":
		return gcShift(op, from[int8](x, true), s)
	case "int16":
		return gcShift(op, from[int16](x, true), s)
	case "int32":
		return gcShift(op, from[int32](x, true), s)
	case "int64":
		return gcShift(op, from[int64](x, true), s)
	case "uint":
		return gcShift(op, from[uint](x, false), s)
	case "uint8":
		return gcShift(op, from[uint8](x, false), s)
	case "uint16":
		return gcShift(op, from[uint16](x, false), s)
	case "uint32":
		return gcShift(op, from[uint32](x, false), s)
	case "uint64":
		return gcShift(op, from[uint64](x, false), s)
	case "uintptr":
		return gcShift(op, from[uintptr](x, false), s)
	}
	panic("kind")
}

func gcNegK(k kindInfo, x *big.Int) string {
	switch k.name {
	case "int":
		return gcNeg(from[int](x, true))
	case "int8":
		return gcNeg(from[int8](x, true))
	case "int16":
		return gcNeg(from[int16](x, true))
	case "int32":
		return gcNeg(from[int32](x, true))
	case "int64":
		return gcNeg(from[int64](x, true))
	case "uint":
		return gcNeg(from[uint](x, false))
	case "uint8":
		return gcNeg(from[uint8](x, false))
	case "uint16":
		return gcNeg(from[uint16](x, false))
	case "uint32":
		return gcNeg(from[uint32](x, false))
	case "uint64":
		return gcNeg(from[uint64](x, false))
	case "uintptr":
		return gcNeg(from[uintptr](x, false))
	}
	panic("kind")
}

// gcConvert converts x of kind ks to kind kd as gc does (through the widest types).
func gcConvert(ks, kd kindInfo, x *big.Int) string {
	var w uint64
	if ks.signed {
		w = uint64(x.Int64())
	} else {
		w = x.Uint64()
	}
	switch kd.name {
	case "int":
		return fmt.Sprint(int(w))
	case "int8":
		return fmt.Sprint(int8(w))
	case "int16":
		return fmt.Sprint(int16(w))
	case "int32":
		return fmt.Sprint(int32(w))
	case "int64":
		return fmt.Sprint(int64(w))
	case "uint":
		return fmt.Sprint(uint(w))
	case "uint8":
		return fmt.Sprint(uint8(w))
	case "uint16":
		return fmt.Sprint(uint16(w))
	case "uint32":
		return fmt.Sprint(uint32(w))
	case "uint64":
		return fmt.Sprint(uint64(w))
	case "uintptr":
		return fmt.Sprint(uintptr(w))
	}
	panic("kind")
}

var arith = []struct{ name, sym string }{{"Add", "+"}, {"Sub", "-"}, {"Mul", "*"}, {"And", "&"}, {"Or", "|"}, {"Xor", "^"}, {"AndNot", "&^"}}

type probe struct {
	fields []string // correspondence fields (command and arguments)
	gc     string   // what gc computes
	desc   string
	prog   string // a one-expression reproducer (compound probes)
}

// runProgram builds and runs src with package "t" exporting P, returns the printed values.
func runProgram(src string) (out []string, err error, hostPanic string) {
	hostPanic = PanicText(func() {
		pkgs := native.Packages{"t": native.Package{Name: "t", Declarations: native.Declarations{
			"P": func(vs ...any) {
				for _, v := range vs {
					out = append(out, fmt.Sprint(v))
				}
			},
		}}}
		var p *scriggo.Program
		p, err = scriggo.Build(scriggo.Files{"go.mod": []byte("module m\n"), "main.go": []byte(src)}, &scriggo.BuildOptions{Packages: pkgs})
		if err != nil {
			return
		}
		err = p.Run(nil)
	})
	return
}

// kindProgram builds one program for kind k exercising every operator on the operand pairs.
func kindProgram(c *Ctx, k kindInfo, nrand int) (string, []probe) {
	var b strings.Builder
	var ps []probe
	code := fmt.Sprint(k.code)
	b.WriteString("package main\nimport \"t\"\nfunc main() {\n")
	fmt.Fprintf(&b, "\tvar x, y %s\n\tvar s uint\n\tvar si int\n\t_, _, _, _ = x, y, s, si\n", k.name)
	vals := k.values(c, nrand)
	// pairs: every value with a rotating partner plus boundary x boundary
	// the extreme values meet each other in every combination
	var ext []int
	for i, v := range vals {
		for _, e := range []*big.Int{k.min(), new(big.Int).Add(k.min(), big.NewInt(1)), big.NewInt(-1), big.NewInt(0), big.NewInt(1), big.NewInt(2), new(big.Int).Sub(k.max(), big.NewInt(1)), k.max()} {
			if v.Cmp(e) == 0 {
				ext = append(ext, i)
			}
		}
	}
	isExt := map[int]bool{}
	for _, i := range ext {
		isExt[i] = true
	}
	for i, x := range vals {
		partners := []int{i, (i + 1) % len(vals), (i*7 + 3) % len(vals), len(vals) - 1 - i}
		if isExt[i] {
			partners = append(partners, ext...)
		}
		for _, j := range partners {
			y := vals[j]
			fmt.Fprintf(&b, "\tx, y = %s, %s\n", x, y)
			wide := "uint64"
			if k.signed {
				wide = "int64"
			}
			for _, op := range arith {
				fmt.Fprintf(&b, "\tt.P(x %s y)\n", op.sym)
				ps = append(ps, probe{[]string{"binop", op.name, code, x.String(), y.String()}, gcBinK(k, op.name, x, y), fmt.Sprintf("%s(%s) %s %s", k.name, x, op.sym, y), ""})
				// the result feeds another instruction: a register left in a non-canonical form shows here
				fmt.Fprintf(&b, "\tt.P(%s(x %s y))\n\tt.P((x %s y) >> 1)\n\tt.P((x %s y) / 3)\n", wide, op.sym, op.sym, op.sym)
				r, _ := new(big.Int).SetString(gcBinK(k, op.name, x, y), 10)
				mk := func(e string) string {
					return fmt.Sprintf("package main\nimport \"t\"\nfunc main() {\n\tvar x, y %s = %s, %s\n\tt.P(%s)\n}\n", k.name, x, y, e)
				}
				ps = append(ps, probe{nil, r.String(), fmt.Sprintf("%s(%s(%s) %s %s)", wide, k.name, x, op.sym, y), mk(fmt.Sprintf("%s(x %s y)", wide, op.sym))})
				ps = append(ps, probe{nil, gcShiftK(k, "Shr", r, 1), fmt.Sprintf("(%s(%s) %s %s) >> 1", k.name, x, op.sym, y), mk(fmt.Sprintf("(x %s y) >> 1", op.sym))})
				ps = append(ps, probe{nil, gcBinK(k, "Quo", r, big.NewInt(3)), fmt.Sprintf("(%s(%s) %s %s) / 3", k.name, x, op.sym, y), mk(fmt.Sprintf("(x %s y) / 3", op.sym))})
			}
			for _, cm := range []struct{ name, sym string }{{"Ceq", "=="}, {"Cne", "!="}, {"Clt", "<"}, {"Cle", "<="}, {"Cgt", ">"}, {"Cge", ">="}} {
				fmt.Fprintf(&b, "\tif x %s y {\n\t\tt.P(true)\n\t} else {\n\t\tt.P(false)\n\t}\n", cm.sym)
				c := x.Cmp(y)
				r := map[string]bool{"Ceq": c == 0, "Cne": c != 0, "Clt": c < 0, "Cle": c <= 0, "Cgt": c > 0, "Cge": c >= 0}[cm.name]
				ps = append(ps, probe{[]string{"cmp", cm.name, code, x.String(), y.String()}, fmt.Sprint(r), fmt.Sprintf("%s(%s) %s %s", k.name, x, cm.sym, y), ""})
			}
			if y.Sign() != 0 {
				fmt.Fprintf(&b, "\tt.P(x / y)\n\tt.P(x %% y)\n")
				ps = append(ps, probe{[]string{"binop", "Quo", code, x.String(), y.String()}, gcBinK(k, "Quo", x, y), fmt.Sprintf("%s(%s) / %s", k.name, x, y), ""})
				ps = append(ps, probe{[]string{"binop", "Rem", code, x.String(), y.String()}, gcBinK(k, "Rem", x, y), fmt.Sprintf("%s(%s) %% %s", k.name, x, y), ""})
				for _, op := range []struct{ name, sym string }{{"Quo", "/"}, {"Rem", "%"}} {
					r, _ := new(big.Int).SetString(gcBinK(k, op.name, x, y), 10)
					e := fmt.Sprintf("%s(x %s y)", wide, op.sym)
					fmt.Fprintf(&b, "\tt.P(%s)\n\tt.P((x %s y) == x)\n", e, op.sym)
					prog := fmt.Sprintf("package main\nimport \"t\"\nfunc main() {\n\tvar x, y %s = %s, %s\n\tt.P(%s)\n}\n", k.name, x, y, e)
					ps = append(ps, probe{nil, r.String(), fmt.Sprintf("%s(%s(%s) %s %s)", wide, k.name, x, op.sym, y), prog})
					prog2 := fmt.Sprintf("package main\nimport \"t\"\nfunc main() {\n\tvar x, y %s = %s, %s\n\tt.P((x %s y) == x)\n}\n", k.name, x, y, op.sym)
					ps = append(ps, probe{nil, fmt.Sprint(r.Cmp(x) == 0), fmt.Sprintf("(%s(%s) %s %s) == x", k.name, x, op.sym, y), prog2})
				}
			}
		}
		// unary minus
		fmt.Fprintf(&b, "\tt.P(-x)\n")
		ps = append(ps, probe{[]string{"neg", code, x.String()}, gcNegK(k, x), fmt.Sprintf("-%s(%s)", k.name, x), ""})
		// constant on the left: c - x is emitted as the inverse subtraction
		fmt.Fprintf(&b, "\tt.P(5 - x)\n")
		ps = append(ps, probe{[]string{"subinv", code, x.String(), "5"}, gcBinK(k, "Sub", big.NewInt(5), x), fmt.Sprintf("5 - %s(%s)", k.name, x), ""})
		// immediate operands
		fmt.Fprintf(&b, "\tt.P(x + 1)\n\tt.P(x * 3)\n")
		ps = append(ps, probe{[]string{"binop", "Add", code, x.String(), "1"}, gcBinK(k, "Add", x, big.NewInt(1)), fmt.Sprintf("%s(%s) + 1", k.name, x), ""})
		ps = append(ps, probe{[]string{"binop", "Mul", code, x.String(), "3"}, gcBinK(k, "Mul", x, big.NewInt(3)), fmt.Sprintf("%s(%s) * 3", k.name, x), ""})
		// shifts, unsigned count in a variable and as immediate
		for _, s := range []uint64{0, 1, 7, 8, 15, 16, 31, 32, 33, 63, 64, 65, 200, 1 << 40} {
			fmt.Fprintf(&b, "\ts = %d\n\tt.P(x << s)\n\tt.P(x >> s)\n", s)
			ps = append(ps, probe{[]string{"binop", "Shl", code, x.String(), fmt.Sprint(s)}, gcShiftK(k, "Shl", x, s), fmt.Sprintf("%s(%s) << uint(%d)", k.name, x, s), ""})
			ps = append(ps, probe{[]string{"binop", "Shr", code, x.String(), fmt.Sprint(s)}, gcShiftK(k, "Shr", x, s), fmt.Sprintf("%s(%s) >> uint(%d)", k.name, x, s), ""})
		}
		fmt.Fprintf(&b, "\tsi = 3\n\tt.P(x << si)\n\tt.P(x >> si)\n\tt.P(x << 2)\n\tt.P(x >> 2)\n")
		ps = append(ps, probe{[]string{"binop", "Shl", code, x.String(), "3"}, gcShiftK(k, "Shl", x, 3), fmt.Sprintf("%s(%s) << int(3)", k.name, x), ""})
		ps = append(ps, probe{[]string{"binop", "Shr", code, x.String(), "3"}, gcShiftK(k, "Shr", x, 3), fmt.Sprintf("%s(%s) >> int(3)", k.name, x), ""})
		ps = append(ps, probe{[]string{"binop", "Shl", code, x.String(), "2"}, gcShiftK(k, "Shl", x, 2), fmt.Sprintf("%s(%s) << 2", k.name, x), ""})
		ps = append(ps, probe{[]string{"binop", "Shr", code, x.String(), "2"}, gcShiftK(k, "Shr", x, 2), fmt.Sprintf("%s(%s) >> 2", k.name, x), ""})
		// conversions to every integer kind
		for _, kd := range kinds {
			fmt.Fprintf(&b, "\tt.P(%s(x))\n", kd.name)
			ps = append(ps, probe{[]string{"convert", code, fmt.Sprint(kd.code), x.String()}, gcConvert(k, kd, x), fmt.Sprintf("%s(%s(%s))", kd.name, k.name, x), ""})
		}
	}
	b.WriteString("}\n")
	return b.String(), ps
}

// each runs all the kind programs and the fault programs; f gets every probe with Scriggo's result.
func each(c *Ctx, f func(p probe, scriggo string)) {
	nrand := 4
	if c.Thorough() {
		nrand = 40
	}
	nrand += c.N / 2000
	for _, k := range kinds {
		src, ps := kindProgram(c, k, nrand)
		out, err, hp := runProgram(src)
		if hp != "" || err != nil || len(out) != len(ps) {
			c.Fail("alu-program-failed", map[string]any{"kind": k.name, "host_panic": hp, "error": fmt.Sprint(err), "outputs": len(out), "expected": len(ps)})
			continue
		}
		for i, p := range ps {
			f(p, "ok:"+out[i])
		}
	}
	// integer division by zero: a run-time panic, one program each
	for _, k := range kinds {
		for _, op := range []struct{ name, sym string }{{"Quo", "/"}, {"Rem", "%"}} {
			src := fmt.Sprintf("package main\nimport \"t\"\nfunc main() {\n\tvar x, y %s = 7, 0\n\tt.P(x %s y)\n}\n", k.name, op.sym)
			out, err, hp := runProgram(src)
			res := "ok:" + strings.Join(out, ",")
			if hp != "" {
				res = "host-panic:" + hp
			} else if err != nil {
				if pe, ok := err.(*scriggo.PanicError); ok && strings.Contains(pe.Error(), "integer divide by zero") {
					res = "panic"
				} else {
					res = "error:" + err.Error()
				}
			}
			f(probe{[]string{"binop", op.name, fmt.Sprint(k.code), "7", "0"}, "panic", fmt.Sprintf("%s(7) %s 0", k.name, op.sym), ""}, res)
		}
	}
}

// caseProgram rebuilds a one-expression program from the fields of a probe.
func caseProgram(cs []any) string {
	f := make([]string, len(cs))
	for i, v := range cs {
		f[i] = fmt.Sprint(v)
	}
	kname := func(code string) string {
		for _, k := range kinds {
			if fmt.Sprint(k.code) == code {
				return k.name
			}
		}
		return "int"
	}
	sym := map[string]string{"Add": "+", "Sub": "-", "Mul": "*", "Quo": "/", "Rem": "%", "And": "&", "Or": "|", "Xor": "^", "AndNot": "&^", "Shl": "<<", "Shr": ">>"}
	var body string
	switch f[0] {
	case "binop":
		if f[1] == "Shl" || f[1] == "Shr" {
			body = fmt.Sprintf("\tvar x %s = %s\n\tvar s uint = %s\n\tt.P(x %s s)\n", kname(f[2]), f[3], f[4], sym[f[1]])
		} else {
			body = fmt.Sprintf("\tvar x, y %s = %s, %s\n\tt.P(x %s y)\n", kname(f[2]), f[3], f[4], sym[f[1]])
		}
	case "cmp":
		csym := map[string]string{"Ceq": "==", "Cne": "!=", "Clt": "<", "Cle": "<=", "Cgt": ">", "Cge": ">="}
		body = fmt.Sprintf("\tvar x, y %s = %s, %s\n\tif x %s y {\n\t\tt.P(true)\n\t} else {\n\t\tt.P(false)\n\t}\n", kname(f[2]), f[3], f[4], csym[f[1]])
	case "neg":
		body = fmt.Sprintf("\tvar x %s = %s\n\tt.P(-x)\n", kname(f[1]), f[2])
	case "subinv":
		body = fmt.Sprintf("\tvar x %s = %s\n\tt.P(%s - x)\n", kname(f[1]), f[2], f[3])
	case "convert":
		body = fmt.Sprintf("\tvar x %s = %s\n\tt.P(%s(x))\n", kname(f[1]), f[3], kname(f[2]))
	}
	return "package main\nimport \"t\"\nfunc main() {\n" + body + "}\n"
}

func init() {
	// correspondence: real VM result = extracted vm_binop/vm_neg/vm_subinv/vm_convert;
	// and GoInt.bin (the spec side of the theorems) = gc's arithmetic
	Register("C01-cases", func(c *Ctx) {
		each(c, func(p probe, res string) {
			if p.fields == nil {
				return
			}
			c.Line(append(append([]string{}, p.fields...), res)...)
			c.Count("cases")
			if p.fields[0] == "binop" {
				g := p.gc
				if g != "panic" {
					g = "ok:" + g
				}
				c.Line("gospec", p.fields[1], p.fields[2], p.fields[3], p.fields[4], g)
				c.Count("gospec-cases")
			}
		})
	})
	// sweep: the property itself, Scriggo's result = gc's result
	Register("C01-sweep", func(c *Ctx) {
		if in := c.ReplayInput(); in != nil {
			src, _ := in["program"].(string)
			want, _ := in["gc"].(string)
			sig := fmt.Sprint(in["signature"])
			if cs, ok := in["case"].([]any); ok && src == "" {
				src = caseProgram(cs)
				sig = "alu-" + fmt.Sprint(cs[0]) + "-differs-from-gc"
			}
			if src != "" {
				out, err, hp := runProgram(src)
				got := strings.Join(out, ",")
				c.Count("evaluations")
				if hp != "" || got != want || (err != nil && want != "panic") {
					c.Fail(sig, map[string]any{"program": src, "gc": want, "scriggo": got, "error": fmt.Sprint(err), "host_panic": hp})
				}
			}
			return
		}
		n := 0
		each(c, func(p probe, res string) {
			c.Count("evaluations")
			want := p.gc
			if want != "panic" {
				want = "ok:" + want
			}
			if res != want {
				if p.fields == nil {
					c.Fail("alu-compound-differs-from-gc", map[string]any{"expr": p.desc, "gc": p.gc, "scriggo": res, "program": p.prog, "signature": "alu-compound-differs-from-gc"})
					return
				}
				c.Fail("alu-"+p.fields[0]+"-differs-from-gc", map[string]any{"expr": p.desc, "gc": p.gc, "scriggo": res, "case": p.fields})
				return
			}
			if p.fields != nil && p.gc != p.fields[len(p.fields)-1] {
				c.Count("nontrivial")
			}
			if n%997 == 0 {
				c.Sample(map[string]string{"expr": p.desc, "result": res})
			}
			n++
		})
		// negative shift count of a signed type: gc panics
		for _, k := range kinds {
			src := fmt.Sprintf("package main\nimport \"t\"\nfunc main() {\n\tvar x %s = 1\n\tvar s int = -1\n\tt.P(x << s)\n}\n", k.name)
			out, err, hp := runProgram(src)
			c.Count("evaluations")
			if pe, ok := err.(*scriggo.PanicError); ok && hp == "" && strings.Contains(pe.Error(), "negative shift amount") {
				continue
			}
			c.Fail("shl-negative-count", map[string]any{"program": src, "gc": "panic: runtime error: negative shift amount", "scriggo": strings.Join(out, ","), "error": fmt.Sprint(err), "host_panic": hp, "signature": "shl-negative-count"})
		}
	})
}
