package main

import (
	"fmt"
	"strconv"
	"strings"
	. "verif/harness/hlib"

	"github.com/open2b/scriggo/ast"
	"github.com/open2b/scriggo/verifhook"
)

// dots encodes a string as its bytes in decimal separated by '.'.
func dots(s string) string {
	for i := 0; i < len(s); i++ {
		if s[i] >= 0x80 {
			return "N" // a name that is not ASCII: the model does not compute its lower case
		}
	}
	var b strings.Builder
	for i := 0; i < len(s); i++ {
		if i > 0 {
			b.WriteByte('.')
		}
		b.WriteString(strconv.Itoa(int(s[i])))
	}
	return b.String()
}

// canonLex is the canonical text of a lexer result; the Coq model prints the
// same text (LexPrint.v).
//
//	typ,start,end,len,line,col,lin,ctx,tag,att;...|E      scan completed
//	...|X,line,col,start                                syntax error of the lexer
func canonLex(res verifhook.LexResult) string {
	var b strings.Builder
	for _, t := range res.Tokens {
		fmt.Fprintf(&b, "%d,%d,%d,%d,%d,%d,%d,%d,%s,%s;", t.Typ, t.Start, t.End, t.TxtLen, t.Line, t.Column, t.Lin, t.Ctx, dots(t.Tag), dots(t.Att))
	}
	if res.HasErr {
		fmt.Fprintf(&b, "|X,%d,%d,%d", res.ErrLine, res.ErrCol, res.ErrStart)
	} else {
		b.WriteString("|E")
	}
	return b.String()
}

// lexResult runs the real lexer (with the scan recovered) and returns the
// last field of a correspondence line.
func lexResult(src string, format int, noShow bool) string {
	res := verifhook.LexTemplateRecover([]byte(src), ast.Format(format), noShow)
	if res.Panic != "" {
		return "panic"
	}
	return "ok:" + Hx(canonLex(res))
}

func cfgBytes(format int, noShow bool) string {
	n := byte(0)
	if noShow {
		n = 1
	}
	return string([]byte{byte(format), n})
}

// linecol is the independent reference: line = 1 + number of '\n' before
// off, column = 1 + number of UTF-8 start bytes (not 10xxxxxx) after the last
// '\n' and before off.
func linecol(src string, off int) (int, int) {
	line, col := 1, 1
	if off > len(src) {
		off = len(src)
	}
	for i := 0; i < off; i++ {
		c := src[i]
		if c == '\n' {
			line++
			col = 1
		} else if c < 0x80 || c >= 0xC0 {
			col++
		}
	}
	return line, col
}
