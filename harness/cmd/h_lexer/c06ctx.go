package main

// C06 layer (B): the context the template lexer gives to every {{ }} hole is
// the state a browser's tokenizer is in at that point.
//
// C06-ctx-cases (correspondence): token streams (context, tag and attribute
// of every token, hence of every hole) of the real lexer on generated HTML
// documents with holes, compared with the extracted lexer model.
//
// C06-ctx-sweep: the documents are built and rendered with a benign and with
// hostile values; both outputs are tokenised with golang.org/x/net/html and
// the token structure (types, tag names, attribute names, number of tokens,
// and for script and style bodies the code outside string literals and
// comments, found by small JS and CSS scanners written here) must be equal.

import (
	"fmt"
	"math/rand"
	"os"
	"strings"
	. "verif/harness/hlib"

	"github.com/open2b/scriggo"
	"github.com/open2b/scriggo/native"
	"golang.org/x/net/html"
)

const hole = "{{ s }}"

// valid JavaScript: comments that begin with /*/ or //*, hold an unbalanced
// quote, or stand inside string literals
var jsTrickyComments = []string{
	"/*/ that's */", "/*/ ' */", "/*/ \" */", "/**/", "/*/*/", "/***/", "/*/\n'*/", "// it's\n", "//*'\n", "//\"\n", "//* \" */\n",
	"/* a\n * b'\n */", "var c = '/*'; ", "var d = \"//\"; ", "var e = \"*/\"; ", "var f = '/*/'; ", "x = 1 /*/ 2' */ + 3;",
}

var ctxWords = []string{"hello", "a b", "x &amp; y", "1 &lt; 2", "é", "it's", "say \"hi\"", "50%", "a=b", "#1"}
var scriptEnds = []string{"</script>", "</script>", "</SCRIPT>", "</script >", "</script\n>", "</script\t>", "</Script>", "</SCRIPT >", "</script\r\n>"}
var styleEnds = []string{"</style>", "</style>", "</STYLE>", "</style >", "</style\n>", "</style\t>", "</Style>"}

type docGen struct {
	r     *rand.Rand
	b     strings.Builder
	holes int
}

func (g *docGen) pick(l []string) string { return l[g.r.Intn(len(l))] }
func (g *docGen) maybeHole(p int) string {
	if g.r.Intn(100) < p {
		g.holes++
		return hole
	}
	return ""
}

// value of an attribute with possibly a hole; never empty around the hole for unquoted values
func (g *docGen) attrValue(quoted bool, url bool) string {
	var parts []string
	if url {
		switch g.r.Intn(6) {
		case 0:
			parts = []string{g.maybeHole(90)}
		case 1:
			parts = []string{"/p/", g.maybeHole(90)}
		case 2:
			parts = []string{"/q?a=", g.maybeHole(90), "&b=1"}
		case 3:
			parts = []string{"https://e.com/", g.maybeHole(80), "/x?k=", g.maybeHole(60)}
		case 4:
			parts = []string{"/p/", g.maybeHole(70), "#", g.maybeHole(40)}
		default:
			parts = []string{"?", g.maybeHole(80), "=1"}
		}
	} else {
		switch g.r.Intn(4) {
		case 0:
			parts = []string{g.maybeHole(90)}
		case 1:
			parts = []string{"c-", g.maybeHole(90)}
		case 2:
			parts = []string{"x ", g.maybeHole(80), " y"}
		default:
			parts = []string{g.maybeHole(70), "z"}
		}
	}
	v := strings.Join(parts, "")
	if !quoted {
		v = strings.ReplaceAll(strings.ReplaceAll(strings.ReplaceAll(v, hole, "\x01"), " ", "-"), "\x01", hole)
		if strings.HasPrefix(v, hole) || v == "" {
			v = "u" + v // known finding unquoted-attr-empty-value: keep a byte in front of the hole
		}
	}
	return v
}

var urlAttrOf = map[string]string{"a": "href", "img": "src", "form": "action", "link": "href", "iframe": "src", "video": "poster", "blockquote": "cite"}

func (g *docGen) attributes(tag string) string {
	var b strings.Builder
	n := g.r.Intn(4)
	names := []string{"title", "class", "id", "alt", "data-x", "lang", "name", "value", "placeholder"}
	for i := 0; i < n; i++ {
		name := names[g.r.Intn(len(names))]
		url := false
		if u, ok := urlAttrOf[tag]; ok && g.r.Intn(2) == 0 {
			name, url = u, true
		}
		if g.r.Intn(8) == 0 {
			name = strings.ToUpper(name)
		}
		sp := g.pick([]string{" ", " ", "\n", "  ", "\t"})
		eq := g.pick([]string{"=", "=", "=", " = ", "= "})
		switch g.r.Intn(7) {
		case 0, 1, 2:
			fmt.Fprintf(&b, "%s%s%s\"%s\"", sp, name, eq, g.attrValue(true, url))
		case 3, 4:
			v := strings.ReplaceAll(g.attrValue(true, url), "'", "")
			fmt.Fprintf(&b, "%s%s%s'%s'", sp, name, eq, v)
		case 5:
			fmt.Fprintf(&b, "%s%s=%s", sp, name, g.attrValue(false, url))
		default:
			fmt.Fprintf(&b, "%s%s", sp, g.pick([]string{"disabled", "hidden", "checked"}))
		}
	}
	return b.String()
}

func (g *docGen) element() {
	tags := []string{"p", "div", "a", "img", "span", "form", "li", "b", "blockquote", "input", "video"}
	tag := tags[g.r.Intn(len(tags))]
	void := tag == "img" || tag == "input"
	g.b.WriteString("<" + tag + g.attributes(tag))
	if void && g.r.Intn(3) == 0 {
		g.b.WriteString(" /")
	}
	g.b.WriteString(g.pick([]string{">", ">", " >", "\n>"}))
	if !void {
		g.text()
		g.b.WriteString("</" + tag + ">")
	}
}

func (g *docGen) text() {
	n := 1 + g.r.Intn(3)
	for i := 0; i < n; i++ {
		g.b.WriteString(g.pick(ctxWords))
		g.b.WriteString(g.pick([]string{" ", "\n", "", " "}))
		g.b.WriteString(g.maybeHole(35))
	}
}

func (g *docGen) script() {
	open := g.pick([]string{"<script>", "<script>", "<SCRIPT>", "<script type=\"text/javascript\">", "<script type=\"module\">", "<script defer>", "<script type='text/javascript' async>"})
	g.b.WriteString(open)
	n := 1 + g.r.Intn(5)
	for i := 0; i < n; i++ {
		switch g.r.Intn(14) {
		case 12:
			// comments whose opener is followed by a slash or a star, with an unbalanced quote inside
			g.b.WriteString(g.pick(jsTrickyComments))
		case 13:
			g.b.WriteString(g.pick(jsTrickyComments) + " var t" + fmt.Sprint(i) + " = " + g.maybeHole(100) + ";")
		case 0, 1:
			g.b.WriteString("var a" + fmt.Sprint(i) + " = \"" + g.pick([]string{"", "x ", "it's ", "<b>", "&amp;"}) + g.maybeHole(85) + g.pick([]string{"", " y", "</b>"}) + "\";")
		case 2, 3:
			g.b.WriteString("var b" + fmt.Sprint(i) + " = '" + g.pick([]string{"", "x ", "say \"hi\" "}) + g.maybeHole(85) + "';")
		case 4, 5:
			g.b.WriteString("var n" + fmt.Sprint(i) + " = " + g.maybeHole(100) + ";")
		case 6:
			g.b.WriteString("// a comment, it's \"fine\"\n")
		case 7:
			g.b.WriteString("/* block 'comment' */")
		case 8:
			g.b.WriteString("if (a < b && c > d) { f(" + g.maybeHole(50) + "); }")
		case 9:
			g.b.WriteString("var e = \"esc \\\" quote \\\\\"; var f = 'q\\'s';")
		case 10:
			g.b.WriteString("var z = \"</scripts>\"; var y = '<\\/script>';")
		default:
			g.b.WriteString("x = a / b / c;\n")
		}
		g.b.WriteString(g.pick([]string{"", "\n", " "}))
	}
	g.b.WriteString(g.pick(scriptEnds))
}

func (g *docGen) style() {
	g.b.WriteString(g.pick([]string{"<style>", "<style>", "<STYLE>", "<style type=\"text/css\">", "<style media=\"screen\">"}))
	n := 1 + g.r.Intn(4)
	for i := 0; i < n; i++ {
		switch g.r.Intn(7) {
		case 0, 1:
			g.b.WriteString("p { font-family: \"" + g.pick([]string{"", "A ", "it's "}) + g.maybeHole(85) + "\"; }")
		case 2:
			g.b.WriteString("a { background: url('" + g.pick([]string{"", "/i/"}) + g.maybeHole(85) + "'); }")
		case 3:
			g.b.WriteString(".c { width: " + g.maybeHole(100) + "; }")
		case 4:
			g.b.WriteString("/* a 'comment' */")
		case 5:
			g.b.WriteString("q:before { content: \"\\\"\"; } ")
		default:
			g.b.WriteString("b > i { color: red }")
		}
		g.b.WriteString(g.pick([]string{"", "\n", " "}))
	}
	g.b.WriteString(g.pick(styleEnds))
}

// ctxDocument generates an HTML template with at least one hole.
func ctxDocument(r *rand.Rand) string {
	for {
		g := &docGen{r: r}
		if r.Intn(6) == 0 {
			g.b.WriteString("<!DOCTYPE html>\n")
		}
		n := 2 + r.Intn(6)
		for i := 0; i < n; i++ {
			switch r.Intn(14) {
			case 0, 1:
				g.text()
			case 2, 3, 4, 5:
				g.element()
			case 6, 7, 8:
				g.script()
			case 9, 10:
				g.style()
			case 11:
				// comments hold no markup: known finding script-in-html-comment
				g.b.WriteString("<!-- " + g.pick([]string{"note", "a - b", "it's \"x\"", "x -- y"}) + " " + g.maybeHole(50) + " -->")
			case 12:
				// CDATA sections hold no '<' or '>': known finding cdata-section-skipped
				g.b.WriteString("<![CDATA[ " + g.pick([]string{"data", "a & b", "it's \"x\""}) + " ]]>")
			default:
				tag := g.pick([]string{"textarea", "title", "xmp"})
				g.b.WriteString("<" + tag + ">" + g.pick(ctxWords) + " " + g.maybeHole(80) + "</" + tag + ">")
			}
			g.b.WriteString(g.pick([]string{"", "\n", " "}))
		}
		if g.holes > 0 {
			return g.b.String()
		}
	}
}

// fragmentDocument generates a document of the fragment of the reference
// tokenizer: text, tags with quoted attributes, then one script or style
// element with string literals.
func fragmentDocument(r *rand.Rand) string {
	var b strings.Builder
	pick := func(l []string) string { return l[r.Intn(len(l))] }
	h := func(p int) string {
		if r.Intn(100) < p {
			return hole
		}
		return ""
	}
	n := 1 + r.Intn(4)
	for i := 0; i < n; i++ {
		switch r.Intn(3) {
		case 0:
			b.WriteString(pick([]string{"hello ", "a b ", "x &amp; y ", "it's ", "1 > 0 "}) + h(60))
		default:
			tag := pick([]string{"p", "div", "a", "img", "span", "b-x", "h1"})
			b.WriteString("<" + tag)
			for k := r.Intn(3); k > 0; k-- {
				q := pick([]string{"\"", "'"})
				b.WriteString(pick([]string{" ", "\n", "  "}) + pick([]string{"title", "href", "class", "data-x", "SRC", "alt"}) + pick([]string{"=", " = ", "= "}) + q + pick([]string{"", "x ", "/p/", "a>b "}) + h(80) + pick([]string{"", " y", "?q=1"}) + q)
			}
			b.WriteString(pick([]string{">", " >", "\n>"}) + pick([]string{"text ", "", "1 < 2 "}) + h(40))
		}
	}
	if r.Intn(3) > 0 {
		el, end := "script", scriptEnds
		if r.Intn(3) == 0 {
			el, end = "style", styleEnds
		}
		b.WriteString("<" + el + pick([]string{"", " id=\"x\"", " class='c'"}) + ">")
		for k := 1 + r.Intn(4); k > 0; k-- {
			q := pick([]string{"\"", "'"})
			b.WriteString(pick([]string{"var a = ", "x: ", "f(", "a { b: "}) + q + pick([]string{"", "it\\'s ", "<b> ", "esc \\\\", "</scripts> "}) + h(70) + q + pick([]string{";", "; ", ")\n", " }"}))
			if r.Intn(3) == 0 {
				b.WriteString(" n = " + h(100) + "; ")
			}
		}
		b.WriteString(pick(end))
	}
	return b.String()
}

// ---- the oracle

// jsSkeleton replaces the string literals of JavaScript code by S, its
// comments by C and its regular expression literals by R (a slash is the start
// of a regular expression after an operator, an opening bracket, a separator
// or at the start; the generator writes no template literals).
func jsSkeleton(src string) string {
	var b strings.Builder
	last := byte(0) // last significant byte of code
	for i := 0; i < len(src); {
		c := src[i]
		switch {
		case c == '"' || c == '\'':
			j := i + 1
			for j < len(src) && src[j] != c && src[j] != '\n' {
				if src[j] == '\\' && j+1 < len(src) {
					j++
				}
				j++
			}
			if j < len(src) && src[j] == c {
				b.WriteString("S")
				i = j + 1
			} else {
				b.WriteString("UNTERMINATED")
				i = j
			}
			last = 'S'
		case c == '/' && i+1 < len(src) && src[i+1] == '/':
			j := strings.IndexAny(src[i:], "\n\r")
			if j < 0 {
				j = len(src) - i
			}
			b.WriteString("C")
			i += j
		case c == '/' && i+1 < len(src) && src[i+1] == '*':
			j := strings.Index(src[i+2:], "*/")
			if j < 0 {
				b.WriteString("OPENCOMMENT")
				i = len(src)
			} else {
				b.WriteString("C")
				i += j + 4
			}
		case c == '/' && (last == 0 || strings.IndexByte("=([,:!&|?{};+-*%<>~^", last) >= 0):
			j, class := i+1, false
			for j < len(src) && src[j] != '\n' && (class || src[j] != '/') {
				switch src[j] {
				case '\\':
					j++
				case '[':
					class = true
				case ']':
					class = false
				}
				j++
			}
			if j < len(src) && src[j] == '/' {
				j++
				for j < len(src) && src[j] >= 'a' && src[j] <= 'z' {
					j++
				}
				b.WriteString("R")
			} else {
				b.WriteString("BADREGEX")
			}
			i = j
			last = 'R'
		default:
			b.WriteByte(c)
			if c != ' ' && c != '\t' && c != '\n' && c != '\r' {
				last = c
			}
			i++
		}
	}
	return b.String()
}

// cssSkeleton does the same for CSS (css-syntax-3 string tokens and comments).
func cssSkeleton(src string) string {
	var b strings.Builder
	for i := 0; i < len(src); {
		c := src[i]
		switch {
		case c == '"' || c == '\'':
			j := i + 1
			for j < len(src) && src[j] != c && src[j] != '\n' {
				if src[j] == '\\' && j+1 < len(src) {
					j++
				}
				j++
			}
			if j < len(src) && src[j] == c {
				b.WriteString("S")
				i = j + 1
			} else {
				b.WriteString("BADSTRING")
				i = j
			}
		case c == '/' && i+1 < len(src) && src[i+1] == '*':
			j := strings.Index(src[i+2:], "*/")
			if j < 0 {
				b.WriteString("OPENCOMMENT")
				i = len(src)
			} else {
				b.WriteString("C")
				i += j + 4
			}
		default:
			b.WriteByte(c)
			i++
		}
	}
	return b.String()
}

// docStructure returns the structure of an HTML document: one entry per token
// (texts outside script and style are left out: a value may be empty).
func docStructure(doc string) []string {
	z := html.NewTokenizer(strings.NewReader(doc))
	var out []string
	raw := ""
	for {
		tt := z.Next()
		if tt == html.ErrorToken {
			return out
		}
		t := z.Token()
		switch tt {
		case html.TextToken:
			switch raw {
			case "script":
				out = append(out, "js:"+jsSkeleton(t.Data))
			case "style":
				out = append(out, "css:"+cssSkeleton(t.Data))
			}
		case html.StartTagToken, html.SelfClosingTagToken:
			var keys []string
			for _, a := range t.Attr {
				keys = append(keys, a.Key)
			}
			out = append(out, "<"+t.Data+" "+strings.Join(keys, ",")+">")
			raw = ""
			if tt == html.StartTagToken && (t.Data == "script" || t.Data == "style") {
				raw = t.Data
			}
		case html.EndTagToken:
			out = append(out, "</"+t.Data+">")
			raw = ""
		case html.CommentToken:
			out = append(out, "<!---->")
		case html.DoctypeToken:
			out = append(out, "<!doctype>")
		}
	}
}

func diffKind(a, b []string) (string, string) {
	n := len(a)
	if len(b) < n {
		n = len(b)
	}
	for i := 0; i < n; i++ {
		if a[i] != b[i] {
			k := "tokens"
			switch {
			case strings.HasPrefix(a[i], "js:") && strings.HasPrefix(b[i], "js:"):
				k = "script-code"
			case strings.HasPrefix(a[i], "css:") && strings.HasPrefix(b[i], "css:"):
				k = "style-code"
			case strings.HasPrefix(a[i], "<") && strings.HasPrefix(b[i], "<") && strings.SplitN(a[i], " ", 2)[0] == strings.SplitN(b[i], " ", 2)[0]:
				k = "attributes"
			}
			return k, fmt.Sprintf("token %d: %q with the benign value, %q with the hostile one", i, a[i], b[i])
		}
	}
	if len(a) != len(b) {
		return "tokens", fmt.Sprintf("%d tokens with the benign value, %d with the hostile one", len(a), len(b))
	}
	return "", ""
}

// context breaking values
var ctxHostile = []string{
	"\"", "'", "<", ">", "&", "\\", "`", "\n", "\r\n", " ", "=", "/", "*/", "/*", "//", "-->", "--!>", "]]>", "<!--",
	"</script>", "</SCRIPT >", "</script", "</style>", "</style\n>", "</textarea>", "</title>", "</xmp>", "<script>", "<img src=x onerror=alert(1)>",
	"\" onmouseover=\"alert(1)", "' onmouseover='alert(1)", "x onmouseover=alert(1)", "\"><script>alert(1)</script>", "'><img src=x>",
	"\";alert(1);//", "';alert(1);//", "\\\";alert(1);//", "\\", "\\\\", "a\\", " x", " ",
	"\");}body{color:red", "');x:url('", "\\\"", "a\nb", "expression(alert(1))", "}", "{",
	"javascript:alert(1)", "it's(here)", "/p' onmouseover='alert(1)", "?a=b&c=d", "#frag'", "%27", "%", "a b", "&amp;", "&#34;", "&quot", "\x00", "\xff'", "é\"",
}

type ctxDoc struct {
	name  string
	files map[string]string
}

func (d ctxDoc) render(v string) (out string, err error) {
	fsys := scriggo.Files{}
	for n, s := range d.files {
		fsys[n] = []byte(s)
	}
	var tmpl *scriggo.Template
	if msg := PanicText(func() {
		tmpl, err = scriggo.BuildTemplate(fsys, d.name, &scriggo.BuildOptions{Globals: native.Declarations{"s": (*string)(nil)}})
	}); msg != "" {
		return "", fmt.Errorf("panic: %s", msg)
	}
	if err != nil {
		return "", err
	}
	var b strings.Builder
	if msg := PanicText(func() { err = tmpl.Run(&b, map[string]any{"s": &v}, nil) }); msg != "" {
		return "", fmt.Errorf("panic: %s", msg)
	}
	return b.String(), err
}

// the recorded findings: one reproducer each, emitted under its own signature
var ctxKnown = []struct {
	sig   string
	doc   ctxDoc
	value string
}{
	{"js-regex-literal-quote", ctxDoc{"index.html", map[string]string{"index.html": "<script>var r = /\"/; var x = \"{{ s }}\";</script>"}}, "\";alert(1);//"},
	{"script-in-html-comment", ctxDoc{"index.html", map[string]string{"index.html": "<!-- <script> --><p title=\"{{ s }}\">x</p>"}}, "\" onmouseover=\"alert(1)"},
	{"dangling-backslash-before-hole", ctxDoc{"index.html", map[string]string{"index.html": "<script>var x = \"\\{{ s }}\";</script>"}}, "\""},
	{"macro-html-result-context-leak", ctxDoc{"index.txt", map[string]string{"index.txt": "{% macro M html %}<script>var a = 1;</script><p title=\"{{ s }}\">x</p>{% end %}{{ M() }}"}}, "\" onmouseover=\"alert(1)"},
	{"render-fastpath-format", ctxDoc{"index.html", map[string]string{"index.html": "<p>{{ render \"x.txt\" }}</p>", "x.txt": "{{ s }}"}}, "<img src=x onerror=alert(1)>"},
	{"cdata-section-skipped", ctxDoc{"index.html", map[string]string{"index.html": "<![CDATA[ > <script> ]]>{{ s }}"}}, "\";alert(1);//"},
	{"end-tag-slash-or-formfeed", ctxDoc{"index.html", map[string]string{"index.html": "<script>var a = 1;</script/><p title=\"{{ s }}\">x</p>"}}, "\" onmouseover=\"alert(1)"},
	{"script-double-escape", ctxDoc{"index.html", map[string]string{"index.html": "<script><!-- <script> </script> var x = {{ s }}; --></script>"}}, "\";alert(1);//"},
}

func init() {
	Register("C06-ctx-cases", func(c *Ctx) {
		emit := func(src string) {
			c.Line("lex", Hx(cfgBytes(1, false)), Hx(src), lexResult(src, 1, false))
			// lexer_ctx_sim evaluated by the model: on the fragment of the reference tokenizer
			// (RefTok.v) the context of every show is the abstraction of the reference state
			c.Line("ctxsim", Hx(src), "ok:31")
			// the same for the reference with options (first version, corrected fragment, proved sub-fragment)
			c.Line("ctxsim2", Hx(src), "ok:313131")
			c.Count("cases")
		}
		if in := c.ReplayInput(); in != nil {
			if h, ok := in["src"].(string); ok {
				emit(Unhx(h))
			}
			return
		}
		for _, k := range ctxKnown {
			if src, ok := k.doc.files["index.html"]; ok {
				emit(src)
			}
		}
		for _, e := range scriptEnds {
			emit("<script>var a = 1;" + e + "<p title=\"{{ s }}\">x</p>")
			emit("<script>var a = \"" + e + "<p title=\"{{ s }}\">x</p>")
		}
		for _, e := range styleEnds {
			emit("<style>p { color: red }" + e + "<p title='{{ s }}'>x</p>")
			emit("<style>p { font-family: '" + e + "<a href='{{ s }}'>x</a>")
		}
		// comments in script and style elements: openers followed by a slash or a star, quotes inside
		// comments, comments inside strings, a show after them
		commentInputs(c, 4, func(src string, format int) {
			if format == 1 {
				emit(src)
			}
		})
		for _, cm := range jsTrickyComments {
			emit("<script>" + cm + " var n = {{ s }};</script>")
			emit("<script>var a = \"x\"; " + cm + "\nvar n = {{ s }}; var b = '{{ s }}';</script>")
		}
		for i := 0; i < c.N; i++ {
			s := ctxDocument(c.Rng)
			if c.Rng.Intn(5) == 0 {
				s = mutate(c.Rng, s)
			}
			emit(s)
			emit(fragmentDocument(c.Rng))
		}
	})

	Register("C06-ctx-sweep", func(c *Ctx) {
		check := func(d ctxDoc, values []string, known string) {
			benign, err := d.render("a")
			if err != nil {
				c.Count("build-or-run-errors")
				if os.Getenv("VERIF_DEBUG") != "" {
					fmt.Fprintf(os.Stderr, "ERR %v: %q\n", err, d.files[d.name])
				}
				return
			}
			want := docStructure(benign)
			for _, v := range values {
				c.Count("evaluations")
				out, err := d.render(v)
				if err != nil {
					c.Count("run-errors")
					continue
				}
				got := docStructure(out)
				kind, why := diffKind(want, got)
				if kind == "" {
					c.Count("nontrivial")
					continue
				}
				sig := "layerB-" + kind
				if known != "" {
					sig = known
				}
				c.Fail(sig, map[string]any{"name": d.name, "files": hexFiles(d.files), "value": Hx(v), "template": d.files[d.name], "value_text": v,
					"rendered": out, "rendered_benign": benign, "why": why})
				return
			}
			if known == "" && len(c.Samples) < 2 {
				c.Sample(map[string]string{"template": d.files[d.name], "rendered": benign})
			}
		}
		if in := c.ReplayInput(); in != nil {
			files, _ := in["files"].(map[string]any)
			name, _ := in["name"].(string)
			vh, _ := in["value"].(string)
			d := ctxDoc{name, map[string]string{}}
			for n, h := range files {
				if hs, ok := h.(string); ok {
					d.files[n] = Unhx(hs)
				}
			}
			if name != "" {
				check(d, []string{Unhx(vh)}, "")
			}
			return
		}
		for _, k := range ctxKnown {
			check(k.doc, []string{k.value}, k.sig)
		}
		// every end tag spelling followed by an attribute, every quote
		for _, e := range append(append([]string{}, scriptEnds...), "</scripts>\";</script>") {
			for _, q := range []string{"\"", "'"} {
				check(ctxDoc{"index.html", map[string]string{"index.html": "<script>var a = \"x\";" + e + "\n<p title=" + q + hole + q + ">x</p><a href=" + q + "/p/" + hole + q + ">y</a>"}}, ctxHostile, "")
			}
		}
		for _, e := range styleEnds {
			for _, q := range []string{"\"", "'"} {
				check(ctxDoc{"index.html", map[string]string{"index.html": "<style>p { color: red }" + e + "\n<p title=" + q + hole + q + ">x</p><a href=" + q + hole + q + ">y</a>"}}, ctxHostile, "")
			}
		}
		for _, q := range []string{"\"", "'", ""} {
			for _, pre := range []string{"", "/p/", "/q?a=", "x"} {
				if q == "" && pre == "" {
					continue
				}
				check(ctxDoc{"index.html", map[string]string{"index.html": "<a href=" + q + pre + hole + q + " id=z>x</a><img src=" + q + pre + hole + q + "><p title=" + q + pre + hole + q + ">t</p>"}}, ctxHostile, "")
			}
		}
		// a show in code position and in a string after a comment whose opener is followed by a
		// slash or a star and that holds an unbalanced quote
		for _, cm := range jsTrickyComments {
			check(ctxDoc{"index.html", map[string]string{"index.html": "<script>" + cm + " var n = " + hole + ";</script>"}}, ctxHostile, "")
			check(ctxDoc{"index.html", map[string]string{"index.html": "<script>var a = \"x\"; " + cm + "\nvar n = " + hole + "; var b = '" + hole + "';</script><p title=\"" + hole + "\">t</p>"}}, ctxHostile, "")
		}
		for i := 0; i < c.N; i++ {
			src := ctxDocument(c.Rng)
			vals := []string{"\"", "'", "</script>", "\" onmouseover=\"alert(1)", "' onmouseover='alert(1)"}
			for k := 0; k < 5; k++ {
				v := ctxHostile[c.Rng.Intn(len(ctxHostile))]
				if c.Rng.Intn(4) == 0 {
					v += ctxHostile[c.Rng.Intn(len(ctxHostile))]
				}
				vals = append(vals, v)
			}
			check(ctxDoc{"index.html", map[string]string{"index.html": src}}, vals, "")
		}
	})
}

func hexFiles(m map[string]string) map[string]string {
	out := map[string]string{}
	for n, s := range m {
		out[n] = Hx(s)
	}
	return out
}
