package main

import (
	"fmt"
	"regexp"
	"sort"
	"strings"
	. "verif/harness/hlib"

	"github.com/open2b/scriggo/ast"
	"github.com/open2b/scriggo/verifhook"
)

func main() { Main() }

// knownDev names the first known trigger of a line/column deviation present in src ("" if none).
func knownDev(src string) string {
	if strings.Contains(src, "/*") {
		return "block-comment"
	}
	if strings.Contains(src, "//") {
		return "line-comment"
	}
	if strings.HasPrefix(src, "#!") && !strings.Contains(src, "\n") {
		return "shebang-no-newline"
	}
	if strings.Contains(src, "\n\r") {
		return "lf-cr"
	}
	if regexp.MustCompile(`(?s)\{#[^#]*\n`).MatchString(src) {
		return "multiline-comment"
	}
	if regexp.MustCompile(`'[\x80-\xff]`).MatchString(src) {
		return "multibyte-rune-literal"
	}
	return ""
}

// lexInputs enumerates (src, format, noParseShow) inputs for the lexer.
func lexInputs(c *Ctx, f func(src string, format int, noShow bool)) {
	if in := c.ReplayInput(); in != nil {
		if h, ok := in["src"].(string); ok {
			format, _ := in["format"].(float64)
			ns, _ := in["noshow"].(bool)
			f(Unhx(h), int(format), ns)
		}
		return
	}
	// exhaustive small strings over the delimiter alphabet, Text format
	maxLen := 5
	if c.Thorough() {
		maxLen = 6
	}
	EnumStrings([]byte{'{', '}', '#', '%', ' ', 'a', '\n'}, maxLen, func(s string) { f(s, 0, false) })
	EnumStrings([]byte{'{', '%', '}', '"', '\\', '\'', '`'}, maxLen, func(s string) { f("{{"+s, 0, false) })
	EnumStrings([]byte{'<', 'a', ' ', '=', '"', '>', '{'}, maxLen-1, func(s string) { f(s, 1, false) })
	EnumStrings([]byte{'\\', 'h', ' ', '\n', '\t', '{'}, maxLen-1, func(s string) { f(s, 5, false) })
	for _, p := range stmtPieces {
		for fm := 0; fm < 6; fm++ {
			f(p, fm, false)
		}
	}
	for _, a := range codeAtoms {
		f("{{ "+a+" }}", 0, false)
		f("{% "+a+" %}", 1, false)
		f("{%% "+a+" %%}", 0, false)
		f("{{"+a, 0, false)
		for _, b := range codeAtoms {
			if len(a) <= 2 || len(b) <= 2 {
				f("{{ "+a+b+" }}", 0, false)
			}
		}
	}
	for _, a := range htmlPieces {
		for _, b := range htmlPieces {
			f(a+b+"{{ x }}>", 1, false)
		}
		f(a+"{{ x }}", 5, false)
	}
	for _, a := range mdPieces {
		for _, b := range mdPieces {
			f(a+b+"{{ x }}", 5, false)
		}
	}
	commentInputs(c, maxLen-1, func(src string, format int) { f(src, format, false) })
	corpus := templateCorpus()
	for i := 0; i < c.N; i++ {
		fm := c.Rng.Intn(6)
		switch c.Rng.Intn(10) {
		case 0:
			f(RandString(c.Rng, 30), fm, c.Rng.Intn(8) == 0)
		case 1, 2:
			if len(corpus) > 0 {
				cf := corpus[c.Rng.Intn(len(corpus))]
				s := cf.Src
				if len(s) > 1500 {
					o := c.Rng.Intn(len(s) - 1500)
					s = s[o : o+1500]
				}
				if c.Rng.Intn(2) == 0 {
					fm = cf.Format
				}
				if c.Rng.Intn(2) == 0 {
					s = s[:c.Rng.Intn(len(s)+1)]
				}
				f(mutate(c.Rng, s), fm, false)
			}
		default:
			f(randTemplate(c.Rng, fm, 14), fm, c.Rng.Intn(10) == 0)
		}
	}
}

func init() {
	lexCases := func(c *Ctx) {
		lexInputs(c, func(src string, format int, noShow bool) {
			c.Line("lex", Hx(cfgBytes(format, noShow)), Hx(src), lexResult(src, format, noShow))
			c.Count("cases")
		})
	}
	// C04: the template lexer and the program lexer (scanProgram)
	Register("C04-cases", func(c *Ctx) {
		lexCases(c)
		progCases(c, false)
	})
	// C21: the token stream, and the positions of the tokens that the model does
	// not flag against the independent linecol (evaluated inside the model on the
	// model's tokens, which the first line shows to be the implementation's)
	Register("C21-cases", func(c *Ctx) {
		lexInputs(c, func(src string, format int, noShow bool) {
			r := lexResult(src, format, noShow)
			c.Line("lex", Hx(cfgBytes(format, noShow)), Hx(src), r)
			if r != "panic" {
				c.Line("posok", Hx(cfgBytes(format, noShow)), Hx(src), "ok:31")
			}
			c.Count("cases")
		})
		progCases(c, true)
	})
	Register("lex-cases", lexCases)

	// explore-pos: token positions of the real lexer against the independent linecol.
	Register("explore-pos", func(c *Ctx) {
		type ex struct{ src, what string }
		found := map[string]ex{}
		lexInputs(c, func(src string, format int, noShow bool) {
			res := verifhook.LexTemplateRecover([]byte(src), ast.Format(format), noShow)
			c.Count("evaluations")
			if res.Panic != "" {
				k := "panic"
				if e, ok := found[k]; !ok || len(src) < len(e.src) {
					found[k] = ex{src, res.Panic}
				}
				return
			}
			for i, t := range res.Tokens {
				ln, cl := linecol(src, t.Start)
				if ln != t.Line || cl != t.Column {
					prev := "start"
					if i > 0 {
						prev = res.Tokens[i-1].TypName
					}
					_ = prev
					if knownDev(src) != "" {
						c.Count("known:" + knownDev(src))
						break
					}
					k := fmt.Sprintf("fmt%d dl=%d dc=%d", format, t.Line-ln, t.Column-cl)
					if e, ok := found[k]; !ok || len(src) < len(e.src) {
						found[k] = ex{src, fmt.Sprintf("tok#%d %s start=%d got %d:%d want %d:%d", i, t.TypName, t.Start, t.Line, t.Column, ln, cl)}
					}
					break
				}
			}
		})
		var keys []string
		for k := range found {
			keys = append(keys, k)
		}
		sort.Strings(keys)
		for _, k := range keys {
			fmt.Fprintf(c.Out, "%s\t%q\t%s\n", k, found[k].src, found[k].what)
		}
	})
}
