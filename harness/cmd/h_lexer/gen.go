package main

import (
	"go/ast"
	"go/parser"
	"go/token"
	"math/rand"
	"os"
	"path/filepath"
	"runtime/debug"
	"sort"
	"strconv"
	"strings"
)

// repoDir returns the directory of the scriggo working tree this binary was
// built against (the replace directive of the harness module).
func repoDir() string {
	if d := os.Getenv("VERIF_REPO"); d != "" {
		return d
	}
	if bi, ok := debug.ReadBuildInfo(); ok {
		for _, d := range bi.Deps {
			if d.Path == "github.com/open2b/scriggo" && d.Replace != nil {
				return d.Replace.Path
			}
		}
	}
	return "/repo"
}

type corpusFile struct {
	Path   string
	Format int // ast.Format
	Src    string
}

var formatOfExt = map[string]int{".txt": 0, ".html": 1, ".css": 2, ".js": 3, ".json": 4, ".md": 5}
var extOfFormat = []string{".txt", ".html", ".css", ".js", ".json", ".md"}

// templateCorpus returns the template files of the repository (test data and
// documentation) and the template sources that appear as string literals in
// the lexer, parser and template tests.
func templateCorpus() []corpusFile {
	root := repoDir()
	var out []corpusFile
	seen := map[string]bool{}
	add := func(path string, f int, src string) {
		if src == "" || len(src) > 20000 || seen[src] {
			return
		}
		seen[src] = true
		out = append(out, corpusFile{path, f, src})
	}
	for _, dir := range []string{"test/compare/testdata", "test/misc", "playground", "cmd/scriggo", "."} {
		filepath.Walk(filepath.Join(root, dir), func(p string, info os.FileInfo, err error) error {
			if err != nil {
				return nil
			}
			if info.IsDir() {
				if dir == "." && p != root {
					return filepath.SkipDir
				}
				if info.Name() == "node_modules" || info.Name() == ".git" {
					return filepath.SkipDir
				}
				return nil
			}
			if f, ok := formatOfExt[filepath.Ext(p)]; ok {
				if b, err := os.ReadFile(p); err == nil {
					rel, _ := filepath.Rel(root, p)
					add(rel, f, string(b))
				}
			}
			return nil
		})
	}
	for _, tf := range []string{"internal/compiler/lexer_test.go", "internal/compiler/parser_test.go", "internal/compiler/parser_template_test.go", "test/misc/templates_test.go", "test/misc/multi_file_template_test.go"} {
		fset := token.NewFileSet()
		f, err := parser.ParseFile(fset, filepath.Join(root, tf), nil, 0)
		if err != nil {
			continue
		}
		n := 0
		ast.Inspect(f, func(nd ast.Node) bool {
			if bl, ok := nd.(*ast.BasicLit); ok && bl.Kind == token.STRING {
				if s, err := strconv.Unquote(bl.Value); err == nil && strings.ContainsAny(s, "{<") && len(s) >= 3 {
					n++
					add(tf+"#"+strconv.Itoa(n), 1, s)
				}
			}
			return true
		})
	}
	sort.Slice(out, func(i, j int) bool { return out[i].Path < out[j].Path })
	return out
}

// programCorpus returns Go/Scriggo program sources of the repository tests.
func programCorpus(max int) []corpusFile {
	root := repoDir()
	var out []corpusFile
	filepath.Walk(filepath.Join(root, "test/compare/testdata"), func(p string, info os.FileInfo, err error) error {
		if err != nil || info.IsDir() {
			return nil
		}
		if filepath.Ext(p) == ".go" && info.Size() < 6000 {
			if b, err := os.ReadFile(p); err == nil {
				// files marked "// skip" document known upstream issues (out of memory,
				// not implemented): they are listed in KNOWN_FINDINGS.txt and the generators steer around them
				if strings.HasPrefix(string(b), "// skip") {
					return nil
				}
				rel, _ := filepath.Rel(root, p)
				out = append(out, corpusFile{rel, -1, string(b)})
			}
		}
		return nil
	})
	sort.Slice(out, func(i, j int) bool { return out[i].Path < out[j].Path })
	if max > 0 && len(out) > max {
		step := len(out) / max
		var sel []corpusFile
		for i := 0; i < len(out) && len(sel) < max; i += step {
			sel = append(sel, out[i])
		}
		out = sel
	}
	return out
}

// ---- template pieces ----

var textPieces = []string{
	"a", "b", "hello", " ", "  ", "\t", "\n", "\r\n", "\n\r", "\r", "\n\n", "é", "\xe2\x82\xac", "\xf0\x9f\x98\x80", "\xff", "\x80", "\xc3", "\xef\xbb\xbf",
	"{", "}", "#", "%", "{ ", "{}", "#}", "%}", "}}", "{{", "{%", "{#", "{%%", "%%}", "\\", "\\{", "'", "\"", "`", "/", "*", "<", ">", "=", "\x00", "h", "\\h",
}

var htmlPieces = []string{
	"<a href=\"", "<a href='", "<a href=", "<a href = \"", "<img src=\"", "<img srcset=\"", "<div class=\"", "<div class=", "<div ", "<div>", "</div>", "\">", "'>", "\"", " >", "/>",
	"<script>", "</script>", "</script\n>", "</SCRIPT >", "<script type=\"application/ld+json\">", "<script type=\"module\">", "<script type=\" text/javascript \">", "<script type=\"x\">",
	"<style>", "</style>", "</style\n>", "<style type=\"text/css\">", "<style type=x>", "<![CDATA[", "]]>", "<![CDATA[ \n é ]]>", "<!-- ", " -->", "<!",
	"var a = \"", "var b = '", "\\\"", "\\'", "//", "/*", "*/", "\n", "<a data-src=\"", "<a xmlns:x=\"", "<svg:a href=\"", "<form action=\"", "<a\x80 ", "<aé ", "<a{", "<é", "<a href\n=\n\"", "<a b c=d e>", "<a b='{{ x }}'>",
	"<input formaction=\"", "<a href=\"?a={{ x }}&b=", "<A HREF=\"", "<a title=\"", "<a \x7f=", "<a \xef\xbf\xbe=\"", "<a \xc2\x85=\"", "<a é=\"",
}

var mdPieces = []string{
	"http://", "https://", "http://a.b/c ", "https://x.y?q ", "ahttp://", "\thttp://", " http://e.com.", " https://e.com/a)", "\\", "\\*", "\\\n", "\\h", "\\é", "\\\x80", "\\{",
	"\n\t", "\n    ", "\n   ", "    ", "\t", "\n\n", "\n \n", "\n\r", "# ", "* ", "`", "```\n", "<a href=\"", "<script>", "</script>",
}

var codeAtoms = []string{
	"a", "b", "x", "_", "é", "x1", "1", "0", "12", "0x1f", "0b1", "0o7", "017", "1.5", ".5", "1e3", "1e", "0x", "0x1p2", "0x.p1", "1_0", "1__0", "0_", "08", "09.5", "08i", "3i", "1.", "0b2", "0o8", "0x1.8",
	"\"s\"", "\"a\\\"b\"", "\"\\n\"", "\"\\u00e9\"", "\"\\U0001F600\"", "\"\\x41\"", "\"\\101\"", "\"\\q\"", "\"é\"", "\"}}\"", "\"%}\"", "\"", "\"\\", "\"a\nb\"", "\"\\ud800\"", "\"\\400\"", "\"\\xg\"",
	"`r`", "`a\nb`", "`}}`", "`", "`é`", "'a'", "'\\n'", "'\\''", "'\\x41'", "'\\u00e9'", "'\\101'", "'é'", "''", "'", "'ab'", "'\\", "'\\q'", "'\n'", "'\\U0001F600'", "'\\ud800'", "'\xff'",
	"+", "-", "*", "/", "%", "&", "|", "^", "<<", ">>", "&^", "+=", "-=", "*=", "/=", "%=", "&=", "|=", "^=", "<<=", ">>=", "&^=", "&&", "||", "<-", "++", "--", "==", "<", ">", "=", "!", "!=", "<=", ">=", ":=", "...", ".", "..",
	"(", ")", "[", "]", "{", "}", ",", ";", ":", " ", "  ", "\t", "\n", "\r", "\r\n", "\n\r", "//c", "//c\n", "/*c*/", "/* c\n\n */", "/*", "/* é */", "\x00", "\xef\xbb\xbf", "\xff", "$", "٣", "\u2028", "€",
	"if", "else", "for", "in", "range", "end", "macro", "using", "show", "render", "raw", "extends", "import", "and", "or", "not", "contains", "break", "continue", "return", "var", "func", "map", "switch", "case", "default", "select", "true", "nil",
	"html", "css", "js", "json", "markdown", "string", "M", "i", "v", "}}", "%}", "%%}", "{{", "}}}", "{%", "#}",
}

var stmtPieces = []string{
	"{% if true %}", "{% if x %}", "{% else %}", "{% else if y %}", "{% end %}", "{% end if %}", "{% for i in s %}", "{% for i := 0; i < 3; i++ %}", "{% end for %}", "{% break %}", "{% continue %}",
	"{% var a = 1 %}", "{% a := 2 %}", "{% a = 3 %}", "{% f() %}", "{% show 5 %}", "{% show \"s\", 3 %}", "{% macro M %}", "{% macro N(a int) html %}", "{% macro P js %}", "{% end macro %}", "{% M %}",
	"{% show f(); using %}", "{% show itea; using html %}", "{% var v = itea; using markdown %}", "{% end using %}", "{% switch x %}", "{% case 1 %}", "{% default %}", "{% end switch %}", "{% select %}",
	"{% raw %}", "{% end raw %}", "{% raw m %}", "{% end raw m %}", "{% end m %}", "{%  end  raw  m  %}", "{%end%}", "{% raw code %}", "{% end code %}", "{% raw\tx %}",
	"{% extends \"l.html\" %}", "{% import \"i.html\" %}", "{% import p \"i.html\" %}", "{{ render \"p.html\" }}", "{% if\n true %}", "{% if true\n %}", "{% L: for %}",
	"{%% a := 1 %%}", "{%% a := 1\n b := 2\n %%}", "{%%  %%}", "{%% if x {\n show 1\n }\n %%}", "{%%", "%%}", "{%% var s = \"%%}\" %%}", "{%% // c\n %%}", "{%% /* c */ %%}",
	"{{ x }}", "{{ 1 }}", "{{ \"s\" }}", "{{ a + b }}", "{{ f(x) }}", "{{ m{} }}", "{{ []int{1}[0] }}", "{{ map[string]int{\"a\":1}[\"a\"] }}", "{{ T{a: S{}} }}", "{{ x }}}", "{{ {{ }} }}", "{{ `}}` }}", "{{ '}' }}", "{{", "{{ x", "{{ x %}", "{{ \"a }}",
	"{# c #}", "{##}", "{# {# n #} #}", "{# {# #}", "{#", "{##", "{# #", "{# a\nb #}", "{# é #}", "#}", "{#}", "{# {{ x }} #}", "{# \r\n #}",
	"#!/usr/bin/scriggo\n", "#!x", "#!", "#",
}

// randTemplate builds a template from pieces. kind: 0 text, 1 html, 2 md, 3 code heavy, 4 line oriented
func randTemplate(r *rand.Rand, format int, maxParts int) string {
	var b strings.Builder
	n := 1 + r.Intn(maxParts)
	if r.Intn(12) == 0 {
		b.WriteString([]string{"#!/usr/bin/scriggo\n", "#!x", "#! é\r\n", "\xef\xbb\xbf"}[r.Intn(4)])
	}
	for i := 0; i < n; i++ {
		k := r.Intn(100)
		switch {
		case k < 22:
			b.WriteString(textPieces[r.Intn(len(textPieces))])
		case k < 40:
			b.WriteString(stmtPieces[r.Intn(len(stmtPieces))])
		case k < 55:
			switch format {
			case 1:
				b.WriteString(htmlPieces[r.Intn(len(htmlPieces))])
			case 5:
				if r.Intn(3) == 0 {
					b.WriteString(htmlPieces[r.Intn(len(htmlPieces))])
				} else {
					b.WriteString(mdPieces[r.Intn(len(mdPieces))])
				}
			case 2, 3, 4:
				b.WriteString([]string{"\"", "'", "\\\"", "\\'", "//", "/*", "*/", "\n", "</script>", "</style>", "{", "}", "a", ":", ";"}[r.Intn(15)])
			default:
				b.WriteString(textPieces[r.Intn(len(textPieces))])
			}
		case k < 75:
			// a code block built from atoms
			open, cl := "{{", "}}"
			switch r.Intn(4) {
			case 0:
				open, cl = "{%", "%}"
			case 1:
				open, cl = "{%%", "%%}"
			}
			b.WriteString(open)
			m := r.Intn(6)
			for j := 0; j < m; j++ {
				if r.Intn(3) > 0 {
					b.WriteByte(' ')
				}
				b.WriteString(codeAtoms[r.Intn(len(codeAtoms))])
			}
			if r.Intn(3) > 0 {
				b.WriteByte(' ')
			}
			if r.Intn(8) > 0 {
				b.WriteString(cl)
			}
		case k < 85:
			// a statement-only line
			b.WriteString([]string{"", " ", "\t", "  "}[r.Intn(4)])
			b.WriteString(stmtPieces[r.Intn(len(stmtPieces))])
			b.WriteString([]string{"", " ", "\t", " \r"}[r.Intn(4)])
			b.WriteString([]string{"\n", "\r\n", "\n", ""}[r.Intn(4)])
		case k < 90:
			b.WriteByte(byte(r.Intn(256)))
		case k < 95:
			b.WriteString(string(rune(r.Intn(0x3000))))
		default:
			b.WriteString("\n")
		}
	}
	return b.String()
}

// mutate applies a few byte-level mutations to s.
func mutate(r *rand.Rand, s string) string {
	b := []byte(s)
	k := 1 + r.Intn(3)
	for i := 0; i < k; i++ {
		if len(b) == 0 {
			b = append(b, byte(r.Intn(256)))
			continue
		}
		p := r.Intn(len(b))
		switch r.Intn(6) {
		case 0:
			b[p] = byte(r.Intn(256))
		case 1:
			b = append(b[:p], b[p+1:]...)
		case 2:
			ins := codeAtoms[r.Intn(len(codeAtoms))]
			if r.Intn(2) == 0 {
				ins = textPieces[r.Intn(len(textPieces))]
			}
			b = append(b[:p], append([]byte(ins), b[p:]...)...)
		case 3:
			q := r.Intn(len(b))
			if p > q {
				p, q = q, p
			}
			b = append(b[:p], b[q:]...)
		case 4:
			q := r.Intn(len(b))
			b[p], b[q] = b[q], b[p]
		case 5:
			b[p] = "{}#%\"'`\n\\<>/"[r.Intn(12)]
		}
	}
	return string(b)
}
