package main

// C15: the Text nodes and their Cut as left by the real parser, the rendered
// output of templates whose shows are constants, and an independent reference
// of the documented cut rule on source lines.

import (
	"fmt"
	"math/rand"
	"os"
	"reflect"
	"regexp"
	"sort"
	"strings"
	. "verif/harness/hlib"

	"github.com/open2b/scriggo"
	"github.com/open2b/scriggo/ast"
	"github.com/open2b/scriggo/verifhook"
)

var reOutOfVocabulary = regexp.MustCompile(`(?s)(var|const|import|type)\s*\(|\{%%.*[\]a-zA-Z_0-9]\{.*%%\}`)

// removableAfter drops from removable the flags of the bytes removed by must.
func removableAfter(removable, must []bool) []bool {
	var out []bool
	for i := range removable {
		if !must[i] {
			out = append(out, removable[i])
		}
	}
	return out
}

var reMultiStmt = regexp.MustCompile(`\{%[^}\n]*\n`)

func commentTrigger(src string) bool {
	return reMultiComment.MatchString(src) || strings.HasSuffix(src, "#}")
}

type textCut struct{ start, length, left, right int }

// collectTexts returns every *ast.Text reachable from the tree, by source offset.
func collectTexts(tree *ast.Tree) []textCut {
	var out []textCut
	seen := map[uintptr]bool{}
	var walk func(v reflect.Value)
	walk = func(v reflect.Value) {
		switch v.Kind() {
		case reflect.Ptr:
			if v.IsNil() {
				return
			}
			if seen[v.Pointer()] {
				return
			}
			seen[v.Pointer()] = true
			if t, ok := v.Interface().(*ast.Text); ok {
				out = append(out, textCut{t.Pos().Start, len(t.Text), t.Cut.Left, t.Cut.Right})
				return
			}
			walk(v.Elem())
		case reflect.Interface:
			if !v.IsNil() {
				walk(v.Elem())
			}
		case reflect.Struct:
			for i := 0; i < v.NumField(); i++ {
				if v.Type().Field(i).IsExported() {
					walk(v.Field(i))
				}
			}
		case reflect.Slice:
			for i := 0; i < v.Len(); i++ {
				walk(v.Index(i))
			}
		}
	}
	walk(reflect.ValueOf(tree))
	sort.Slice(out, func(i, j int) bool { return out[i].start < out[j].start })
	return out
}

func canonCuts(ts []textCut) string {
	var b strings.Builder
	for _, t := range ts {
		fmt.Fprintf(&b, "%d,%d,%d,%d;", t.start, t.length, t.left, t.right)
	}
	return b.String()
}

// white space around the statements: the property allows the removal of space, tab, CR and LF
// only; the other white space of Unicode (and VT, FF) is content
var cutWS = []string{"", "", " ", "  ", "\t", " \t", "\r", " \r", "", " ", "\u00a0", " \u3000", "\u2028", "\u0085 ", "\v", "\f", "\u2003"}
var cutEOL = []string{"\n", "\n", "\n", "\r\n", "", "\n\n", " \n"}
var cutText = []string{"a", "text", "x y", "é", "<b>", "}", "{", "#", "%", "a  ", "  b", "\\", "<p class=\"c\">", "</p>"}

// cutStatements: statements that can stand anywhere without breaking the structure
var cutFree = []string{"{% var v%d = 1 %}", "{% x%d := 2 %}", "{# c #}", "{# a\nb #}", "{##}", "{% if true %}{% end %}", "{%% y%d := 1 %%}", "{%%  %%}", "{%% z%d := 1\n w%d := 2 %%}",
	"{{ 1 }}", "{{ \"s\" }}", "{{ render \"p.txt\" }}", "{% show 5 %}", "{% show render \"p.txt\" %}", "{% if\n true %}{% end %}", "{% if true\n %}{% end if %}", "{% _ = 3 %}"}

// cutBlocks: opening and closing statements
var cutBlocks = [][2]string{{"{% if true %}", "{% end %}"}, {"{% if 1 < 2 %}", "{% else %}X{% end if %}"}, {"{% for i%d := 0; i%d < 2; i%d++ %}", "{% end for %}"},
	{"{% macro M%d %}", "{% end macro %}"}, {"{% raw %}", "{% end raw %}"}, {"{% raw m %}", "{% end raw m %}"}, {"{% raw m %}", "{% end m %}"}, {"{% switch 1 %}{% case 1 %}", "{% end switch %}"},
	{"{% if true %}", "{% else if false %}y{% end %}"}, {"{% for _, e%d := range []int{1,2} %}", "{% break %}{% end %}"}}

func withID(r *rand.Rand, s string, id *int) string {
	for strings.Contains(s, "%d") {
		*id++
		// every %d of one statement gets the same number
		s = strings.ReplaceAll(s, "%d", fmt.Sprint(*id))
	}
	return s
}

// cutTemplate generates a template made of lines holding texts, statements,
// comments and shows with white space around them.
func cutTemplate(r *rand.Rand) string {
	var b strings.Builder
	id := 0
	var closers []string
	nlines := 1 + r.Intn(7)
	if r.Intn(10) == 0 {
		b.WriteString("#!/usr/bin/scriggo" + []string{"\n", "\r\n", "\r", ""}[r.Intn(4)])
	}
	for ln := 0; ln < nlines; ln++ {
		nitems := 1 + r.Intn(3)
		if r.Intn(3) == 0 {
			nitems = 1
		}
		b.WriteString(cutWS[r.Intn(len(cutWS))])
		for k := 0; k < nitems; k++ {
			switch r.Intn(10) {
			case 0, 1, 2:
				b.WriteString(cutText[r.Intn(len(cutText))])
			case 3, 4, 5, 6:
				b.WriteString(withID(r, cutFree[r.Intn(len(cutFree))], &id))
			case 7, 8:
				bl := cutBlocks[r.Intn(len(cutBlocks))]
				b.WriteString(withID(r, bl[0], &id))
				closers = append(closers, bl[1])
			default:
				if n := len(closers); n > 0 {
					b.WriteString(closers[n-1])
					closers = closers[:n-1]
				} else {
					b.WriteString(cutWS[r.Intn(len(cutWS))])
				}
			}
			if r.Intn(2) == 0 {
				b.WriteString(cutWS[r.Intn(len(cutWS))])
			}
		}
		b.WriteString(cutEOL[r.Intn(len(cutEOL))])
	}
	for n := len(closers) - 1; n >= 0; n-- {
		b.WriteString(cutWS[r.Intn(len(cutWS))])
		b.WriteString(closers[n])
		b.WriteString(cutEOL[r.Intn(len(cutEOL))])
	}
	return b.String()
}

func cutInputs(c *Ctx, f func(src string, format int)) {
	if in := c.ReplayInput(); in != nil {
		if h, ok := in["src"].(string); ok {
			format, _ := in["format"].(float64)
			f(Unhx(h), int(format))
		}
		return
	}
	// small exhaustive: one statement or comment with white space and new lines around
	for _, st := range []string{"{% if true %}", "{# c #}", "{{ 1 }}", "{%% a := 1 %%}", "{% if\n true %}", "{{ render \"p.txt\" }}", "{% show 5 %}", "{% raw %}"} {
		EnumStrings([]byte{' ', '\n', 'a', '\r'}, 3, func(pre string) {
			EnumStrings([]byte{' ', '\n', 'a'}, 2, func(post string) {
				cl := ""
				if strings.HasPrefix(st, "{% if") {
					cl = "{% end %}"
				} else if st == "{% raw %}" {
					cl = "{% end raw %}"
				}
				f(pre+st+post+cl, 0)
			})
		})
	}
	for i := 0; i < c.N; i++ {
		fm := []int{0, 0, 1, 5, 2, 3}[c.Rng.Intn(6)]
		s := cutTemplate(c.Rng)
		if c.Rng.Intn(6) == 0 {
			s = mutate(c.Rng, s)
		}
		f(s, fm)
	}
	for _, cf := range templateCorpus() {
		if len(cf.Src) < 3000 {
			f(cf.Src, cf.Format)
		}
	}
}

var cutFiles = map[string]string{"p.txt": "P", "p.html": "P", "p.md": "P", "p.css": "P", "p.js": "P"}

// renderTemplate builds and runs src and returns the output.
func renderTemplate(src string, format int) (out string, err error, panicked string) {
	defer func() {
		if r := recover(); r != nil {
			panicked = fmt.Sprint(r)
		}
	}()
	name := "index" + extOfFormat[format]
	fsys := scriggo.Files{name: []byte(src)}
	for n, s := range cutFiles {
		if n != name {
			fsys[n] = []byte(s)
		}
	}
	t, err := scriggo.BuildTemplate(fsys, name, nil)
	if err != nil {
		return "", err, ""
	}
	var b strings.Builder
	if err := t.Run(&b, nil, nil); err != nil {
		return "", err, ""
	}
	return b.String(), nil, ""
}

// cutTemplateStraight generates a template without control flow other than
// `if true`: its output is the expansion of its tokens.
func cutTemplateStraight(r *rand.Rand) string {
	free := []string{"{% var v%d = 1 %}", "{% x%d := 2 %}", "{# c #}", "{# a\nb #}", "{##}", "{% if true %}{% end %}", "{%% y%d := 1 %%}", "{%%  %%}",
		"{{ 1 }}", "{{ \"s\" }}", "{{ render \"p.txt\" }}", "{% show 5 %}", "{% show render \"p.txt\" %}", "{% if\n true %}{% end %}", "{% _ = 3 %}"}
	blocks := [][2]string{{"{% if true %}", "{% end %}"}, {"{% if\n true %}", "{% end %}"}, {"{% if true %}", "{% end if %}"}, {"{% raw %}", "{% end raw %}"}, {"{% raw m %}", "{% end raw m %}"}, {"{% raw %}", "{% end %}"}}
	var b strings.Builder
	id := 0
	var closers []string
	inRaw := func() bool { return len(closers) > 0 && strings.Contains(closers[len(closers)-1], "raw") || len(closers) > 0 && closers[len(closers)-1] == "{% end %}" && false }
	nlines := 1 + r.Intn(6)
	if r.Intn(8) == 0 {
		b.WriteString("#!/usr/bin/scriggo" + []string{"\n", "\r\n", "\r", " -x\n", "\r\n\r\n"}[r.Intn(5)])
	}
	rawOpen := false
	for ln := 0; ln < nlines; ln++ {
		nitems := 1 + r.Intn(3)
		if r.Intn(3) == 0 {
			nitems = 1
		}
		b.WriteString(cutWS[r.Intn(len(cutWS))])
		for k := 0; k < nitems; k++ {
			switch x := r.Intn(10); {
			case x < 3 || rawOpen && x < 8:
				b.WriteString(cutText[r.Intn(len(cutText))])
			case x < 7:
				b.WriteString(withID(r, free[r.Intn(len(free))], &id))
			case x < 9:
				bl := blocks[r.Intn(len(blocks))]
				b.WriteString(bl[0])
				closers = append(closers, bl[1])
				rawOpen = strings.Contains(bl[0], "raw")
			default:
				if n := len(closers); n > 0 {
					b.WriteString(closers[n-1])
					closers = closers[:n-1]
					rawOpen = false
				}
			}
			if r.Intn(2) == 0 {
				b.WriteString(cutWS[r.Intn(len(cutWS))])
			}
		}
		b.WriteString(cutEOL[r.Intn(len(cutEOL))])
	}
	_ = inRaw
	for n := len(closers) - 1; n >= 0; n-- {
		b.WriteString(cutWS[r.Intn(len(cutWS))])
		b.WriteString(closers[n])
		b.WriteString(cutEOL[r.Intn(len(cutEOL))])
	}
	return b.String()
}

func init() {
	// sweep: the rendered output is the expansion of the template minus bytes
	// that the documented rule allows to remove; the Cut of every Text node
	// removes only such bytes
	Register("C15-sweep", func(c *Ctx) {
		check := func(src string) {
			items, ok := refScan(src)
			if !ok {
				c.Count("outside-reference-vocabulary")
				return
			}
			out, err, panicked := renderTemplate(src, 0)
			c.Count("evaluations")
			if panicked != "" {
				c.Fail("render-panic", map[string]any{"src": Hx(src), "format": 0, "src_text": src, "panic": panicked})
				return
			}
			if err != nil {
				c.Count("build-or-run-errors")
				return
			}
			exp, removable := refExpansion(src, items)
			if !embeds(exp, removable, out) {
				sig := "output-not-verbatim"
				if reMultiStmt.MatchString(src) {
					// known finding: a statement spanning lines is attributed to its first line; the text after it on
					// its last line is cut even when that line holds content
					sig = "output-not-verbatim:multiline-statement"
				} else if commentTrigger(src) {
					// known finding: cutSpaces looks at the first and at the last text of a line only; a comment that
					// spans lines or ends the source closes the line while a text stands between the statement and it
					sig = "output-not-verbatim:comment-closes-line"
				}
				c.Fail(sig, map[string]any{"src": Hx(src), "format": 0, "src_text": src, "output": out, "expansion": exp})
				return
			}
			// lower bound (documented behaviour): what must be cut is cut
			must := refMustCut(src, items)
			if !embeds(withoutMust(exp, must), removableAfter(removable, must), out) {
				c.Fail("line-not-cut", map[string]any{"src": Hx(src), "format": 0, "src_text": src, "output": out, "expected_at_most": withoutMust(exp, must)})
				return
			}
			if out != exp {
				c.Count("nontrivial")
				if len(c.Samples) < 3 {
					c.Sample(map[string]string{"src": src, "output": out})
				}
			}
			// the cuts themselves
			tree, _, perr := verifhook.ParseTemplateSource([]byte(src), ast.FormatText, false, false)
			if perr != nil || tree == nil {
				return
			}
			// removable flags by source offset
			remAt := map[int]bool{}
			k := 0
			for _, it := range items {
				if it.kind != "text" {
					k += len(it.out)
					continue
				}
				for i := it.start; i < it.end; i++ {
					remAt[i] = removable[k]
					k++
				}
			}
			for _, t := range collectTexts(tree) {
				if t.left+t.right > t.length {
					c.Fail("cut-exceeds-text", map[string]any{"src": Hx(src), "format": 0, "src_text": src, "text_start": t.start})
					return
				}
				for i := t.start; i < t.start+t.left; i++ {
					if !remAt[i] {
						sig := "cut-removes-content"
						if reMultiStmt.MatchString(src) {
					// known finding: a statement spanning lines is attributed to its first line; the text after it on
					// its last line is cut even when that line holds content
					sig = "output-not-verbatim:multiline-statement"
				} else if commentTrigger(src) {
							sig += ":comment-closes-line"
						}
						c.Fail(sig, map[string]any{"src": Hx(src), "format": 0, "src_text": src, "offset": i})
						return
					}
				}
				for i := t.start + t.length - t.right; i < t.start+t.length; i++ {
					if !remAt[i] {
						sig := "cut-removes-content"
						if reMultiStmt.MatchString(src) {
					// known finding: a statement spanning lines is attributed to its first line; the text after it on
					// its last line is cut even when that line holds content
					sig = "output-not-verbatim:multiline-statement"
				} else if commentTrigger(src) {
							sig += ":comment-closes-line"
						}
						c.Fail(sig, map[string]any{"src": Hx(src), "format": 0, "src_text": src, "offset": i})
						return
					}
				}
			}
		}
		if in := c.ReplayInput(); in != nil {
			if h, ok := in["src"].(string); ok {
				check(Unhx(h))
			}
			return
		}
		for _, st := range []string{"{% if true %}", "{# c #}", "{{ 1 }}", "{%% a := 1 %%}", "{% if\n true %}", "{{ render \"p.txt\" }}", "{% show 5 %}", "{% raw %}", "{% var a = 1 %}"} {
			EnumStrings([]byte{' ', '\n', 'a', '\r'}, 3, func(pre string) {
				EnumStrings([]byte{' ', '\n', 'a'}, 2, func(post string) {
					cl := ""
					if strings.HasPrefix(st, "{% if") {
						cl = "{% end %}"
					} else if st == "{% raw %}" {
						cl = "{% end raw %}"
					}
					check(pre + st + post + cl)
					check(pre + st + cl + post)
				})
			})
		}
		// regressions: repaired defects
		for _, s := range []string{"#!x\r\nabc\n", "#!x\rabc", "#!x\rabc\ndef\n", "#!x", "#!x\n", "#!/usr/bin/env scriggo\r\n{{ 1 }}\r\n", "#!x\r\n\r\n{% if true %}\r\na{% end %}",
			"\u00a0{% if true %}\n{% end %}\n", "a\n\u3000{% if true %}\u3000\n{% end %}", " \u2028{# c #}\n", "\u0085{% _ = 3 %}\u0085\n", "\v{% if true %}\f\n{% end %}\n",
			"{% if\n true %}  {% end %}\n", "{% if\n true %}  {% end %}\nabc", "{% raw m %}x{% endm %}{% end raw m %}", "a\n{% if\n true %} \t{% end %}  \n"} {
			check(s)
		}
		for i := 0; i < c.N; i++ {
			check(cutTemplateStraight(c.Rng))
		}
	})

	Register("C15-cases", func(c *Ctx) {
		cutInputs(c, func(src string, format int) {
			// token stream first (the cut model runs on the model's tokens)
			lr := lexResult(src, format, false)
			c.Line("lex", Hx(cfgBytes(format, false)), Hx(src), lr)
			if lr != "panic" {
				// text_partition evaluated by the model on its own tokens (shown equal to the implementation's by the line above)
				c.Line("tiles", Hx(cfgBytes(format, false)), Hx(src), "ok:31")
			}
			var tree *ast.Tree
			var err error
			if msg := PanicText(func() { tree, _, err = verifhook.ParseTemplateSource([]byte(src), ast.Format(format), false, false) }); msg != "" {
				c.Count("parser-panics") // reported by the C04 sweep
				if os.Getenv("VERIF_DEBUG") != "" {
					fmt.Fprintf(os.Stderr, "PARSER PANIC %s: %q\n", msg, src)
				}
				return
			}
			c.Count("cases")
			if err != nil || tree == nil {
				c.Count("parse-errors")
				return
			}
			if reOutOfVocabulary.MatchString(src) {
				// grouped declarations and composite literals inside {%% %%}: the model's table
				// of the statements that set cutSpacesToken does not split them
				c.Count("out-of-vocabulary")
				return
			}
			c.Line("cut", Hx(cfgBytes(format, false)), Hx(src), "ok:"+Hx(canonCuts(collectTexts(tree))))
			c.Count("cut-cases")
		})
	})
}
