package main

// An independent reference for C15, written from the documentation and not
// from the parser: it splits a template of the sweep's vocabulary into texts
// and tokens with a scanner of its own, expands the tokens to their constant
// output, and marks the bytes that the documented rule allows to remove (the
// spaces, tabs, carriage returns and the new line of a line holding nothing
// but statements, comments and spaces).  The rendered output must be the
// expansion minus removable bytes only.

import (
	"regexp"
	"strings"
)

type refItem struct {
	start, end int    // source range [start, end)
	kind       string // text, comment, stmt, show
	out        string // constant output of a token
}

var reEndRaw = regexp.MustCompile(`\{%\s*end(\s+raw)?\s*%\}`)
var reEndRawM = regexp.MustCompile(`\{%\s*end(\s+raw)?\s+m\s*%\}`)

// refScan returns the items of src, or ok=false when src leaves the vocabulary.
func refScan(src string) (items []refItem, ok bool) {
	i := 0
	text := func(a, b int) {
		if b > a {
			items = append(items, refItem{a, b, "text", ""})
		}
	}
	last := 0
	if strings.HasPrefix(src, "#!") {
		// the shebang line ends at the first LF (a lone CR does not end it) or with the source
		n := strings.IndexByte(src, '\n')
		if n < 0 {
			n = len(src) - 1
		}
		items = append(items, refItem{0, n + 1, "comment", ""})
		i, last = n+1, n+1
	}
	for i < len(src) {
		if src[i] != '{' || i+1 >= len(src) {
			i++
			continue
		}
		switch src[i+1] {
		case '#':
			text(last, i)
			depth, j := 1, i+2
			for j < len(src) && depth > 0 {
				if strings.HasPrefix(src[j:], "{#") {
					depth++
					j += 2
				} else if strings.HasPrefix(src[j:], "#}") {
					depth--
					j += 2
				} else {
					j++
				}
			}
			if depth != 0 {
				return nil, false
			}
			items = append(items, refItem{i, j, "comment", ""})
			i, last = j, j
		case '{':
			text(last, i)
			n := strings.Index(src[i:], "}}")
			if n < 0 {
				return nil, false
			}
			body := strings.TrimSpace(src[i+2 : i+n])
			it := refItem{i, i + n + 2, "show", ""}
			switch {
			case body == "1":
				it.out = "1"
			case body == `"s"`:
				it.out = "s"
			case body == `render "p.txt"`:
				it.kind, it.out = "stmt", "P" // a show of a render may stand alone on a removed line
			default:
				return nil, false
			}
			items = append(items, it)
			i, last = it.end, it.end
		case '%':
			text(last, i)
			cl := "%}"
			if strings.HasPrefix(src[i:], "{%%") {
				cl = "%%}"
			}
			n := strings.Index(src[i:], cl)
			if n < 0 {
				return nil, false
			}
			end := i + n + len(cl)
			body := strings.TrimSpace(src[i+len(cl) : i+n])
			it := refItem{i, end, "stmt", ""}
			switch {
			case body == "show 5":
				it.kind, it.out = "show", "5"
			case body == `show render "p.txt"`:
				it.out = "P"
			case strings.HasPrefix(body, "show"), strings.HasPrefix(body, "else"), strings.HasPrefix(body, "for"), strings.HasPrefix(body, "macro"),
				strings.HasPrefix(body, "switch"), strings.HasPrefix(body, "case"), strings.HasPrefix(body, "break"):
				return nil, false // not straight-line
			}
			items = append(items, it)
			i, last = end, end
			if cl == "%}" && (body == "raw" || body == "raw m") {
				re := reEndRaw
				if body == "raw m" {
					re = reEndRawM
				}
				loc := re.FindStringIndex(src[i:])
				if loc == nil {
					return nil, false
				}
				text(i, i+loc[0])
				i, last = i+loc[0], i+loc[0]
			}
		default:
			i++
		}
	}
	text(last, len(src))
	return items, true
}

// refExpansion returns the expansion of the items and, for every byte of it,
// whether the documented rule allows its removal.
func refExpansion(src string, items []refItem) (exp string, removable []bool) {
	// a line is content free when it holds no text other than blanks and no show
	lineOf := make([]int, len(src)+1)
	ln := 0
	for i := 0; i < len(src); i++ {
		lineOf[i] = ln
		if src[i] == '\n' {
			ln++
		}
	}
	lineOf[len(src)] = ln
	content := make([]bool, ln+1)
	hasToken := make([]bool, ln+1)
	for _, it := range items {
		switch it.kind {
		case "text":
			for i := it.start; i < it.end; i++ {
				if c := src[i]; c != ' ' && c != '\t' && c != '\r' && c != '\n' {
					content[lineOf[i]] = true
				}
			}
		case "show":
			for i := it.start; i < it.end; i++ {
				content[lineOf[i]] = true
			}
		default:
			for i := it.start; i < it.end; i++ {
				hasToken[lineOf[i]] = true
			}
		}
	}
	var b strings.Builder
	for _, it := range items {
		if it.kind != "text" {
			b.WriteString(it.out)
			for range it.out {
				removable = append(removable, false)
			}
			continue
		}
		for i := it.start; i < it.end; i++ {
			b.WriteByte(src[i])
			l := lineOf[i]
			removable = append(removable, !content[l] && hasToken[l])
		}
	}
	return b.String(), removable
}

// embeds reports whether out is exp minus some removable bytes.
func embeds(exp string, removable []bool, out string) bool {
	n, m := len(exp), len(out)
	// ok[j] after processing i bytes of exp: out[:j] can be produced
	ok := make([]bool, m+1)
	ok[0] = true
	for i := 0; i < n; i++ {
		next := make([]bool, m+1)
		for j := 0; j <= m; j++ {
			if !ok[j] {
				continue
			}
			if removable[i] {
				next[j] = true
			}
			if j < m && exp[i] == out[j] {
				next[j+1] = true
			}
		}
		ok = next
	}
	return ok[m]
}

// refMustCut marks the bytes of the expansion that the documented behaviour
// removes for sure: the blanks and the new line of a line that ends with a
// new line and holds, besides blanks, exactly one cutting token lying
// entirely on that line (a comment, a show of a render, a statement other
// than var, const and show of a value, a non empty {%% %%} block).
func refMustCut(src string, items []refItem) (must []bool) {
	lineOf := make([]int, len(src)+1)
	ln := 0
	for i := 0; i < len(src); i++ {
		lineOf[i] = ln
		if src[i] == '\n' {
			ln++
		}
	}
	lineOf[len(src)] = ln
	nTok := make([]int, ln+1)     // tokens touching the line
	cutting := make([]bool, ln+1) // a single line cutting token lies on it
	content := make([]bool, ln+1)
	hasNL := make([]bool, ln+1)
	for i := 0; i < len(src); i++ {
		if src[i] == '\n' {
			hasNL[lineOf[i]] = true
		}
	}
	for _, it := range items {
		if it.kind == "text" {
			for i := it.start; i < it.end; i++ {
				if c := src[i]; c != ' ' && c != '\t' && c != '\r' && c != '\n' {
					content[lineOf[i]] = true
				}
			}
			continue
		}
		l1, l2 := lineOf[it.start], lineOf[it.end-1]
		for l := l1; l <= l2; l++ {
			nTok[l]++
		}
		if l1 != l2 {
			continue
		}
		body := strings.TrimSpace(strings.Trim(src[it.start:it.end], "{}%"))
		isCut := it.kind == "comment" && !strings.HasPrefix(src[it.start:], "#!") || it.kind == "stmt" && it.out == "P" && strings.HasPrefix(src[it.start:], "{{")
		if it.kind == "stmt" && strings.HasPrefix(src[it.start:], "{%") {
			isCut = body != "" && !strings.HasPrefix(body, "var") && !strings.HasPrefix(body, "const") && !(strings.HasPrefix(body, "show") && it.out != "P")
		}
		if isCut {
			cutting[l1] = true
		}
	}
	for _, it := range items {
		if it.kind != "text" {
			for range it.out {
				must = append(must, false)
			}
			continue
		}
		for i := it.start; i < it.end; i++ {
			l := lineOf[i]
			must = append(must, nTok[l] == 1 && cutting[l] && !content[l] && hasNL[l])
		}
	}
	return must
}

// withoutMust returns exp minus the bytes that must be cut.
func withoutMust(exp string, must []bool) string {
	var b strings.Builder
	for i := 0; i < len(exp); i++ {
		if !must[i] {
			b.WriteByte(exp[i])
		}
	}
	return b.String()
}
