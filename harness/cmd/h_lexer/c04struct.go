package main

import . "verif/harness/hlib"

// Structural inputs of the C04 sweep: for every block statement of the
// template language, a skeleton given as a list of tokens; every gap between
// two tokens (and the two ends) receives every filler, and every token is
// deleted once. The parser's bookkeeping between a statement and its clauses
// (switch/select and the first case, if and else, macro and end, ...) is
// exercised with comments, texts, shows and stray clauses at each position.

var c04Skeletons = [][]string{
	{"{% switch 1 %}", "{% case 1 %}", "a", "{% case 2, 3 %}", "b", "{% default %}", "c", "{% end %}"},
	{"{% switch x := 1; x %}", "{% case 1 %}", "{% fallthrough %}", "{% case 2 %}", "b", "{% end switch %}"},
	{"{% switch v := i.(type) %}", "{% case int %}", "a", "{% default %}", "{{ v }}", "{% end %}"},
	{"{% select %}", "{% case <-c %}", "a", "{% case c <- 1 %}", "b", "{% default %}", "d", "{% end select %}"},
	{"{% if true %}", "a", "{% else if false %}", "b", "{% else %}", "c", "{% end if %}"},
	{"{% for i := 0; i < 2; i++ %}", "a", "{% if i == 1 %}", "{% break %}", "{% end %}", "{% continue %}", "{% end for %}"},
	{"{% for x in []int{1} %}", "{{ x }}", "{% else %}", "e", "{% end %}"},
	{"{% for i, x := range []int{1} %}", "{{ x }}", "{% end %}"},
	{"{% macro M(a int) %}", "a{{ a }}", "{% end macro %}", "{{ M(1) }}"},
	{"{% macro M %}", "{% macro N %}", "n", "{% end %}", "{% end %}"},
	{"{% raw %}", "{{ a }}", "{% end raw %}"},
	{"{% raw x %}", "{% end raw %}", "{% end raw x %}"},
	{"{% show \"a\" using %}", "b", "{% end using %}"},
	{"{% var a = 1 %}", "{% a = 2 %}", "{{ a }}"},
	{"{% if x := 1; x > 0 %}", "{% switch x %}", "{% case 1 %}", "{% for %}", "{% break %}", "{% end %}", "{% end %}", "{% end %}"},
	{"{%% a := 1", "if a > 0 { show a }", "%%}", "b"},
	{"{% extends \"layout.html\" %}", "{% macro Body %}", "b", "{% end %}"},
	{"{% import \"imp.html\" %}", "{{ M() }}"},
	{"{% import p \"imp.html\" %}", "{{ p.M() }}", "{{ render \"part.html\" }}"},
}

var c04Fillers = []string{
	"{# c #}", "{##}", "{# \n #}", " ", "\n", "\t \n", "text", "{{ 1 }}", "{% x := 1 %}", "{% end %}", "{% case 3 %}", "{% default %}",
	"{% else %}", "{% else if true %}", "{% break %}", "{% continue %}", "{% fallthrough %}", "{% raw %}", "{% end raw %}", "{% macro Z %}",
	"{%% %%}", "{% switch %}", "{% select %}", "{% if %}", "{% for %}", "{% extends \"layout.html\" %}", "{% import \"imp.html\" %}", "{{ render \"part.html\" }}",
	"{% using %}", "{% show 1 %}", "{% return %}", "{% defer f() %}", "{% go f() %}", "{% goto L %}", "{% L: %}", "<script>", "</script>", "{%", "{{", "{#", "%}",
}

func structuralInputs(thorough bool) []buildInput {
	var ins []buildInput
	add := func(src string) {
		for _, ext := range []string{".html", ".txt"} {
			in := tmplInput("index"+ext, src, false)
			in.Files["layout.html"] = Hx("<html>{{ Body() }}</html>")
			in.Files["imp.html"] = Hx("{% macro M %}m{% end %}")
			in.Files["part.html"] = Hx("p")
			ins = append(ins, in)
			if !thorough {
				break
			}
		}
	}
	join := func(toks []string) string {
		s := ""
		for _, t := range toks {
			s += t
		}
		return s
	}
	for _, sk := range c04Skeletons {
		add(join(sk))
		for gap := 0; gap <= len(sk); gap++ {
			for _, f := range c04Fillers {
				toks := append(append(append([]string{}, sk[:gap]...), f), sk[gap:]...)
				add(join(toks))
			}
		}
		for del := range sk {
			toks := append(append([]string{}, sk[:del]...), sk[del+1:]...)
			add(join(toks))
		}
	}
	return ins
}

// diamondInputs: file sets in which two files refer to the same file with
// every pair of relations (import, render, extends) and the referring
// statements lie at different positions of files of different lengths, so that
// an error of one file reported with a position of the other is inconsistent
// with the content of the named file.
func diamondInputs(seed func(n int) int) []buildInput {
	var ins []buildInput
	pad := func(k int) string {
		s := "{# "
		for i := 0; i < k; i++ {
			s += "pad é "
			if i%3 == 2 {
				s += "\n"
			}
		}
		return s + "#}"
	}
	ref := func(rel, target string) string {
		switch rel {
		case "import":
			return "{% import \"" + target + "\" %}"
		case "extends":
			return "{% extends \"" + target + "\" %}"
		}
		return "{{ render \"" + target + "\" }}"
	}
	rels := []string{"import", "render", "extends"}
	for _, ra := range rels {
		for _, rb := range rels {
			for _, order := range []int{0, 1} {
				for rep := 0; rep < 2; rep++ {
					pa, pb := 1+seed(40), 1+seed(6)
					if rep == 1 {
						pa, pb = pb, pa
					}
					a := pad(pa) + ref(ra, "t.html") + "\n{% macro A %}a{% end %}"
					b := pad(pb) + ref(rb, "t.html") + "\n{% macro B %}b{% end %}"
					idx := "{{ render \"a.html\" }}\n{{ render \"b.html\" }}"
					if order == 1 {
						idx = "{{ render \"b.html\" }}\n\n  {{ render \"a.html\" }}"
					}
					in := tmplInput("index.html", idx, false)
					in.Files["a.html"] = Hx(a)
					in.Files["b.html"] = Hx(b)
					in.Files["t.html"] = Hx("{% macro T %}t{% end %}{% var V = 1 %}")
					ins = append(ins, in)
					// the same with the target reached directly from index too
					in2 := tmplInput("index.html", ref(ra, "t.html")+"\n"+pad(pb)+"{{ render \"b.html\" }}", false)
					in2.Files["b.html"] = Hx(b)
					in2.Files["t.html"] = in.Files["t.html"]
					ins = append(ins, in2)
				}
			}
		}
	}
	return ins
}
