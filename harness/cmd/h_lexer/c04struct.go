package main

import . "verif/harness/hlib"

// Structural inputs of the C04 sweep: for every block statement of the
// template language, a skeleton given as a list of tokens; every gap between
// two tokens (and the two ends) receives every filler, and every token is
// deleted once. The parser's bookkeeping between a statement and its clauses
// (switch/select and the first case, if and else, macro and end, ...) is
// exercised with comments, texts, shows and stray clauses at each position.

var c04Skeletons = [][]string{
	{"{% switch 1 %}", "{% case 1 %}", "a", "{% case 2, 3 %}", "b", "{% default %}", "c", "{% end %}"},
	{"{% switch x := 1; x %}", "{% case 1 %}", "{% fallthrough %}", "{% case 2 %}", "b", "{% end switch %}"},
	{"{% switch v := i.(type) %}", "{% case int %}", "a", "{% default %}", "{{ v }}", "{% end %}"},
	{"{% select %}", "{% case <-c %}", "a", "{% case c <- 1 %}", "b", "{% default %}", "d", "{% end select %}"},
	{"{% if true %}", "a", "{% else if false %}", "b", "{% else %}", "c", "{% end if %}"},
	{"{% for i := 0; i < 2; i++ %}", "a", "{% if i == 1 %}", "{% break %}", "{% end %}", "{% continue %}", "{% end for %}"},
	{"{% for x in []int{1} %}", "{{ x }}", "{% else %}", "e", "{% end %}"},
	{"{% for i, x := range []int{1} %}", "{{ x }}", "{% end %}"},
	{"{% macro M(a int) %}", "a{{ a }}", "{% end macro %}", "{{ M(1) }}"},
	{"{% macro M %}", "{% macro N %}", "n", "{% end %}", "{% end %}"},
	{"{% raw %}", "{{ a }}", "{% end raw %}"},
	{"{% raw x %}", "{% end raw %}", "{% end raw x %}"},
	{"{% show \"a\" using %}", "b", "{% end using %}"},
	{"{% var a = 1 %}", "{% a = 2 %}", "{{ a }}"},
	{"{% if x := 1; x > 0 %}", "{% switch x %}", "{% case 1 %}", "{% for %}", "{% break %}", "{% end %}", "{% end %}", "{% end %}"},
	{"{%% a := 1", "if a > 0 { show a }", "%%}", "b"},
	{"{% extends \"layout.html\" %}", "{% macro Body %}", "b", "{% end %}"},
	{"{% import \"imp.html\" %}", "{{ M() }}"},
	{"{% import p \"imp.html\" %}", "{{ p.M() }}", "{{ render \"part.html\" }}"},
}

var c04Fillers = []string{
	"{# c #}", "{##}", "{# \n #}", " ", "\n", "\t \n", "text", "{{ 1 }}", "{% x := 1 %}", "{% end %}", "{% case 3 %}", "{% default %}",
	"{% else %}", "{% else if true %}", "{% break %}", "{% continue %}", "{% fallthrough %}", "{% raw %}", "{% end raw %}", "{% macro Z %}",
	"{%% %%}", "{% switch %}", "{% select %}", "{% if %}", "{% for %}", "{% extends \"layout.html\" %}", "{% import \"imp.html\" %}", "{{ render \"part.html\" }}",
	"{% using %}", "{% show 1 %}", "{% return %}", "{% defer f() %}", "{% go f() %}", "{% goto L %}", "{% L: %}", "<script>", "</script>", "{%", "{{", "{#", "%}",
}

func structuralInputs(thorough bool) []buildInput {
	var ins []buildInput
	add := func(src string) {
		for _, ext := range []string{".html", ".txt"} {
			in := tmplInput("index"+ext, src, false)
			in.Files["layout.html"] = Hx("<html>{{ Body() }}</html>")
			in.Files["imp.html"] = Hx("{% macro M %}m{% end %}")
			in.Files["part.html"] = Hx("p")
			ins = append(ins, in)
			if !thorough {
				break
			}
		}
	}
	join := func(toks []string) string {
		s := ""
		for _, t := range toks {
			s += t
		}
		return s
	}
	for _, sk := range c04Skeletons {
		add(join(sk))
		for gap := 0; gap <= len(sk); gap++ {
			for _, f := range c04Fillers {
				toks := append(append(append([]string{}, sk[:gap]...), f), sk[gap:]...)
				add(join(toks))
			}
		}
		for del := range sk {
			toks := append(append([]string{}, sk[:del]...), sk[del+1:]...)
			add(join(toks))
		}
	}
	return ins
}
