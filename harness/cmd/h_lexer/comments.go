package main

import (
	"math/rand"
	"strings"
	. "verif/harness/hlib"
)

// JavaScript and CSS comments met by the text scan of the lexer (script and
// style elements, .js and .css files): comment openers immediately followed
// by a slash or a star, quotes inside comments, comments inside strings, and
// a show after them. A lexer that mistakes the end of such a comment gives the
// show that follows the wrong context.

var commentPieces = []string{
	"/*/", "//*", "/**/", "/*/*/", "*/", "/*", "//", "/***/", "/*//*/", "//*/\n", "/*/ */", "/*/\n*/",
	"/* ' */", "/* \" */", "/*/ ' */", "/*/ \" */", "/*/ that's */", "/* it's */", "/* say \"hi */", "/*'*/", "/*\"*/", "/*/'*/", "/*/\"*/",
	"// \"\n", "// '\n", "// it's\n", "//'\n", "//\"\n", "//*'\n", "// \"", "//\n", "//\r", "// x\r\n",
	"\"/*\"", "'//'", "\"//\"", "'/*'", "\"*/\"", "'*/'", "\"/*/\"", "'a' /*/ 'b' */", "\"a\" // \"\n",
	"/*\n'\n*/", "/* a\n * b\n */", "a / b", "a /= b", "/[/*]/", "x = 1 /*/ 2 */ + 3", "'\\'' /*/ ' */", "\"\\\"\" //\"\n",
	"'", "\"", "\\", "\n", " ", ";", "a", "var x = ", "</script>", "</style>", "{", "}",
}

// commentSoup concatenates comment pieces.
func commentSoup(r *rand.Rand, maxParts int) string {
	var b strings.Builder
	n := 1 + r.Intn(maxParts)
	for i := 0; i < n; i++ {
		b.WriteString(commentPieces[r.Intn(len(commentPieces))])
		if r.Intn(3) == 0 {
			b.WriteByte(' ')
		}
	}
	return b.String()
}

// commentDocs calls f with (source, format) for script and style bodies built
// around body, each followed by a show.
func commentDocs(body string, f func(src string, format int)) {
	f("<script>"+body+"{{ s }}</script>", 1)
	f("<style>"+body+"{{ s }}</style>", 1)
	f(body+"{{ s }}", 3)
	f(body+"{{ s }}", 2)
}

// commentInputs enumerates the comment inputs of the lexer correspondence:
// every string of up to maxLen bytes over slash, star, the two quotes, new
// line and a letter, every piece and every pair of pieces, and random soups.
func commentInputs(c *Ctx, maxLen int, f func(src string, format int)) {
	EnumStrings([]byte{'/', '*', '\'', '"', '\n', 'a'}, maxLen, func(s string) { commentDocs(s, f) })
	for _, a := range commentPieces {
		commentDocs(a, f)
		f("<script>var s = \""+a+"\"; {{ s }}</script>", 1)
		f("<script>var n = {{ s }}; "+a+" var m = {{ s }};</script>", 1)
		for _, b := range commentPieces {
			if len(a) <= 4 || len(b) <= 4 {
				f("<script>"+a+b+"{{ s }}</script>", 1)
				f(a+b+"{{ s }}", 3)
			}
		}
	}
	n := c.N / 4
	for i := 0; i < n; i++ {
		body := commentSoup(c.Rng, 6)
		switch c.Rng.Intn(4) {
		case 0:
			f("<script>"+body+"{{ s }}"+commentSoup(c.Rng, 3)+"{{ s }}</script>", 1)
		case 1:
			f("<style>"+body+"{{ s }}</style>", 1)
		case 2:
			f(body+"{{ s }}"+commentSoup(c.Rng, 3)+"{{ s }}", 3)
		default:
			f(body+"{{ s }}", 2)
		}
	}
}
