package main

import (
	"math/rand"
	"strings"
	. "verif/harness/hlib"

	"github.com/open2b/scriggo/verifhook"
)

// Program sources for the correspondence of scanProgram (templateSyntax =
// false) with the model scan_program: Go-like token soup, unterminated
// strings / comments / rune literals, invalid UTF-8, NUL bytes, byte order
// marks at the start and in the middle.

var progPieces = []string{
	"package main\n", "package p;", "import \"fmt\"\n", "import (\n\t\"os\"\n)\n", "func main() {\n", "}\n", "func f(a, b int) (int, error) {", "return a + b, nil\n",
	"type T struct {\n\tA int `json:\"a\"`\n}\n", "type I interface{ M() }\n", "var x = 1\n", "const c = 'c'\n", "x := []int{1, 2, 3}\n", "m := map[string]int{\"a\": 1}\n",
	"for i := 0; i < 10; i++ {\n", "for _, v := range s {\n", "if x > 0 {\n", "} else {\n", "switch x {\ncase 1:\n", "default:\n", "select {\n", "go f()\n", "defer f()\n", "goto L\n", "L:\n",
	"ch <- 1\n", "<-ch\n", "chan int", "fallthrough\n", "break\n", "continue\n", "x++\n", "x--\n", "a &^= b\n", "a <<= 2\n", "f(xs...)\n", "s[1:2]\n", "p.q.r\n", "*p = &v\n",
	"// comment\n", "// comment", "/* block */", "/* multi\nline\n\ncomment */", "/*", "/* \xef\xbb\xbf */", "// \xef\xbb\xbf\n", "//\n", "/**/", "/", "/ ", "/\n", "/=", "x /", "x / y\n", "1 /* c */ 2\n", "a /* c\n */ b\n",
	"\"str\"", "\"esc\\n\\t\\\\\\\"\"", "\"\\u00e9\\U0001F600\\x41\\101\"", "\"unterminated", "\"new\nline\"", "\"\\", "\"\\q\"", "\"\\400\"", "\"\\ud800\"", "\"\\U00110000\"", "\"\\xg0\"", "\"\\u12\"",
	"`raw`", "`raw\nwith\nlines`", "`unterminated", "`é\xe2\x82\xac`", "`\xff`", "`\xef\xbb\xbf`",
	"'a'", "'\\n'", "'\\''", "'\\x41'", "'\\u00e9'", "'\\U0001F600'", "'\\101'", "'é'", "'\xe2\x82\xac'", "''", "'", "'ab'", "'\\", "'\\q'", "'\n'", "'\\ud800'", "'\xff'", "'\\400'", "'a", "'\\x4'",
	"0", "1", "42", "0x1F", "0X_1f", "0b101", "0o17", "017", "08", "09.5", "1.5", ".5", "1.", "1e3", "1e+3", "1e", "1e+", "0x1p-2", "0x1.8p1", "0x.p1", "0x1.8", "0x", "0b", "0o", "0b2", "0o8", "1_000", "1__0", "1_", "0_7", "3i", "08i", "0x1pi", "1.e2", "0e0", "1p2", "0x1e2",
	"x", "_", "_x1", "é", "Ω_1", "x\xcc\x81", "٣", "a٣", "\xef\xbb\xbf", "\x00", "\xff", "\x80", "\xc3", "\xe2\x82", "$", "#", "@", "?", "~", "\\", "\u2028", "€", "\t", " ", "\r", "\r\n", "\n", "\n\n", ";",
	"and", "or", "not", "in", "end", "macro", "using", "show", "render", "raw", "extends", "contains", "%}", "%%}", "}}", "{{", "{%", "{#", "#}",
}

// randProgram builds a program source from pieces and code atoms.
func randProgram(r *rand.Rand, maxParts int) string {
	var b strings.Builder
	if r.Intn(10) == 0 {
		b.WriteString("\xef\xbb\xbf")
	}
	n := 1 + r.Intn(maxParts)
	for i := 0; i < n; i++ {
		switch k := r.Intn(100); {
		case k < 45:
			b.WriteString(progPieces[r.Intn(len(progPieces))])
		case k < 80:
			b.WriteString(codeAtoms[r.Intn(len(codeAtoms))])
		case k < 88:
			b.WriteString([]string{" ", "\n", "\t", "", "\r\n", ";"}[r.Intn(6)])
		case k < 93:
			b.WriteByte(byte(r.Intn(256)))
		case k < 97:
			b.WriteString(string(rune(r.Intn(0x3000))))
		default:
			b.WriteString(RandString(r, 4))
		}
		if r.Intn(3) == 0 {
			b.WriteByte(' ')
		}
	}
	return b.String()
}

// progInputs enumerates program sources.
func progInputs(c *Ctx, f func(src string)) {
	if in := c.ReplayInput(); in != nil {
		if h, ok := in["prog"].(string); ok {
			f(Unhx(h))
		}
		return
	}
	maxLen := 4
	if c.Thorough() {
		maxLen = 5
	}
	// exhaustive small strings: comments, strings, rune literals, numbers
	EnumStrings([]byte{'/', '*', '\n', 'a', '"', '\''}, maxLen+1, f)
	EnumStrings([]byte{'0', 'x', '.', 'e', '_', 'p', 'i', '+', '8'}, maxLen, f)
	EnumStrings([]byte{'`', '\\', '\'', '"', 'u', '\n', 0xc3, 0xa9}, maxLen, f)
	for _, a := range progPieces {
		f(a)
		f(a + "\n")
		f("x " + a)
		f("\xef\xbb\xbf" + a)
		f(a + "\xef\xbb\xbf")
		f(a + "/")
		f(a + "//")
		f(a + "x")
	}
	for _, a := range codeAtoms {
		f(a)
		f("x" + a)
		for _, b := range codeAtoms {
			if len(a) <= 2 || len(b) <= 2 {
				f(a + b)
			}
		}
	}
	corpus := programCorpus(0)
	n := c.N / 2
	for i := 0; i < n; i++ {
		switch c.Rng.Intn(10) {
		case 0:
			f(RandString(c.Rng, 30))
		case 1, 2, 3:
			if len(corpus) > 0 {
				s := corpus[c.Rng.Intn(len(corpus))].Src
				if len(s) > 1500 {
					o := c.Rng.Intn(len(s) - 1500)
					s = s[o : o+1500]
				}
				if c.Rng.Intn(2) == 0 {
					s = s[:c.Rng.Intn(len(s)+1)]
				}
				if c.Rng.Intn(3) > 0 {
					s = mutate(c.Rng, s)
				}
				f(s)
			}
		default:
			f(randProgram(c.Rng, 16))
		}
	}
}

// progResult runs the real program lexer. The scan is recovered by the hook
// that repeats the construction of scanProgram; when it does not panic the
// result is compared with scanProgram itself.
func progResult(src string) string {
	res := verifhook.LexProgramRecover([]byte(src))
	if res.Panic != "" {
		return "panic"
	}
	canon := canonLex(res)
	if direct := canonLex(verifhook.LexProgram([]byte(src))); direct != canon {
		return "hook-differs-from-scanProgram:" + Hx(direct)
	}
	return "ok:" + Hx(canon)
}

func progCases(c *Ctx, posok bool) {
	progInputs(c, func(src string) {
		r := progResult(src)
		c.Line("lexprog", Hx(src), r)
		if posok && r != "panic" {
			c.Line("posokp", Hx(src), "ok:31")
		}
		c.Count("program-cases")
	})
}
