package main

// C04 / C21 sweeps: byte level exploration of scriggo.BuildTemplate,
// scriggo.Build and Disassemble in child processes (a crash in the lexer
// goroutine kills the process), with a time limit per input, a goroutine
// count before and after each build, and a check of every *BuildError
// against the content of the file it names.

import (
	"bufio"
	"math/rand"
	"path/filepath"
	"encoding/json"
	"fmt"
	"os"
	"os/exec"
	"regexp"
	"runtime"
	"runtime/debug"
	"sort"
	"strings"
	"time"
	. "verif/harness/hlib"

	"github.com/open2b/scriggo"
	"github.com/open2b/scriggo/ast"
	"github.com/open2b/scriggo/native"
	"github.com/open2b/scriggo/verifhook"
)

type buildInput struct {
	Kind  string            `json:"kind"` // "template" or "program"
	Name  string            `json:"name"` // file to build (templates)
	Files map[string]string `json:"files"` // hex encoded contents
	NoShow bool             `json:"noshow,omitempty"`
}

func (in buildInput) file(name string) (string, bool) {
	h, ok := in.Files[name]
	if !ok {
		return "", false
	}
	return Unhx(h), true
}

type workerResult struct {
	Index   int    `json:"i"`
	Status  string `json:"status"` // ok, error, panic, hang, leak
	Detail  string `json:"detail,omitempty"`
	PosFail string `json:"pos,omitempty"` // a BuildError whose position does not fit the file
	PosSig  string `json:"possig,omitempty"`
	Min     *buildInput `json:"min,omitempty"` // a smaller input with the same panic site
	IsBuildErr bool `json:"be,omitempty"`
	Ms      int64  `json:"ms"`
}

var (
	gx, ga, gb, gi = 5, 1, 2, 3
	gs, gy, gtea   = "str", "why", "tea"
	gv             = []int{1, 2}
)

var sweepGlobals = native.Declarations{
	"x": &gx, "a": &ga, "b": &gb, "s": &gs, "y": &gy, "itea": &gtea,
	"f": func() string { return "f" }, "i": &gi, "v": &gv,
}

const inputTimeLimit = 5 * time.Second

// runOne builds one input in this process. It returns the status and, for a
// build error, the error.
func runOne(in buildInput) (status, detail string, berr *scriggo.BuildError) {
	type outcome struct {
		status, detail string
		berr           *scriggo.BuildError
	}
	done := make(chan outcome, 1)
	go func() {
		var o outcome
		defer func() {
			if r := recover(); r != nil {
				o = outcome{status: "panic", detail: panicSite(string(debug.Stack())) + ": " + fmt.Sprint(r)}
			}
			done <- o
		}()
		fsys := scriggo.Files{}
		for n, h := range in.Files {
			fsys[n] = []byte(Unhx(h))
		}
		var err error
		if in.Kind == "program" {
			var p *scriggo.Program
			p, err = scriggo.Build(fsys, &scriggo.BuildOptions{AllowGoStmt: true})
			if err == nil {
				p.Disassemble("main")
			}
		} else {
			var t *scriggo.Template
			t, err = scriggo.BuildTemplate(fsys, in.Name, &scriggo.BuildOptions{Globals: sweepGlobals, NoParseShortShowStmt: in.NoShow, AllowGoStmt: true})
			if err == nil {
				t.Disassemble(-1)
			}
		}
		if err == nil {
			o = outcome{status: "ok"}
			return
		}
		o = outcome{status: "error", detail: err.Error()}
		if be, ok := err.(*scriggo.BuildError); ok {
			o.berr = be
		}
	}()
	select {
	case o := <-done:
		return o.status, o.detail, o.berr
	case <-time.After(inputTimeLimit):
		return "hang", "", nil
	}
}

// checkPosition checks a build error against the files of the input: returns
// a signature and a description when something does not fit.
func checkPosition(in buildInput, be *scriggo.BuildError) (sig, desc string) {
	path := be.Path()
	src, ok := in.file(path)
	if !ok {
		return "path-not-read", fmt.Sprintf("path %q is not a file of the build", path)
	}
	pos := be.Position()
	if pos.Start < 0 || pos.End < pos.Start-1 || pos.Start > len(src) || pos.End > len(src) {
		return "offset-out-of-file", fmt.Sprintf("%s start=%d end=%d len=%d: %s", path, pos.Start, pos.End, len(src), be.Message())
	}
	// an error about a rendered, imported or extended path points at the statement naming it
	msg := be.Message()
	if strings.Contains(msg, "cycle") || strings.Contains(msg, "does not exist") {
		end := pos.End + 1
		if end > len(src) {
			end = len(src)
		}
		at := src[pos.Start:end]
		if !strings.Contains(at, "render") && !strings.Contains(at, "import") && !strings.Contains(at, "extends") && !strings.Contains(at, "\"") {
			return "position-not-on-statement", fmt.Sprintf("%s start=%d end=%d holds %q: %s", path, pos.Start, pos.End, at, msg)
		}
	}
	// the errors planted by chainInput: the offsets delimit the expression in the named file
	for _, planted := range []string{"undefinedName", "1 + \"a\""} {
		if strings.Contains(msg, planted) {
			end := pos.End + 1
			if end > len(src) {
				end = len(src)
			}
			if src[pos.Start:end] != planted {
				return "position-not-on-expression", fmt.Sprintf("%s start=%d end=%d holds %q, not %q: %s", path, pos.Start, pos.End, src[pos.Start:end], planted, msg)
			}
		}
	}
	ln, cl := linecol(src, pos.Start)
	if ln != pos.Line || cl != pos.Column {
		cls := ""
		// a byte order mark at the start of a program takes no column: first line, one column less
		if strings.HasPrefix(src, "\xef\xbb\xbf") && strings.HasSuffix(path, ".go") && ln == 1 && pos.Line == 1 && cl == pos.Column+1 {
			cls = "program-bom-takes-no-column"
		}
		// the line and column of the position of a call, index, selector or binary
		// expression are those of its operator token, its offsets those of the
		// whole expression: the line and column then lie inside [Start, End]
		for off := pos.Start + 1; cls == "" && off <= pos.End && off <= len(src); off++ {
			if l2, c2 := linecol(src, off); l2 == pos.Line && c2 == pos.Column {
				cls = "operator-inside-node"
				break
			}
		}
		if cls == "" {
			// a unary expression has the line and column of its operator and the start offset of its operand
			for off := pos.Start - 1; off >= 0 && off >= pos.Start-6; off-- {
				if !strings.ContainsRune("*&-+!^<- \t", rune(src[off])) {
					break
				}
				if l2, c2 := linecol(src, off); l2 == pos.Line && c2 == pos.Column {
					cls = "unary-operator-before-node"
					break
				}
			}
		}
		if cls == "" {
			// an automatically inserted semicolon starts at the byte before the
			// new line and has the line and column of the new line
			if l2, c2 := linecol(src, pos.Start+1); l2 == pos.Line && c2 == pos.Column && pos.End == pos.Start {
				cls = "auto-semicolon"
			}
		}
		if cls == "" {
			cls = posClass(src, path, be.Message())
		}
		return "linecol:" + cls, fmt.Sprintf("%s:%d:%d start=%d, the start offset is at %d:%d: %s", path, pos.Line, pos.Column, pos.Start, ln, cl, be.Message())
	}
	return "", ""
}

var reMultiComment = regexp.MustCompile(`(?s)\{#.*\n`)

// posClass names the known cause of a line/column deviation present in src
// (the classes are those the lexer model flags, see props/C21.v), or "other".
func posClass(src, path, msg string) string {
	md := strings.HasSuffix(path, ".md") || strings.Contains(src, "markdown")
	switch {
	case strings.Contains(src, "/*"):
		return "go-block-comment"
	case strings.Contains(src, "//") && !md:
		return "go-line-comment"
	case strings.HasPrefix(src, "\xef\xbb\xbf") && strings.HasSuffix(path, ".go"):
		return "program-bom-takes-no-column"
	case strings.HasPrefix(src, "#!") && !strings.Contains(src, "\n"):
		return "shebang-without-newline"
	case strings.Contains(src, "\n\r"):
		return "cr-after-lf"
	case reMultiComment.MatchString(src):
		return "multiline-template-comment"
	case regexp.MustCompile(`'[\x80-\xff]`).MatchString(src):
		return "multibyte-rune-literal"
	case regexp.MustCompile(`(?i)</(script|style)\n`).MatchString(src):
		return "newline-after-end-tag-name"
	case md && (strings.Contains(src, "http://") || strings.Contains(src, "https://")):
		return "markdown-url"
	case md && (strings.Contains(src, "\t") || strings.Contains(src, "    ")):
		return "markdown-code-block-indentation"
	case md && strings.Contains(src, "//"):
		return "go-line-comment"
	case regexp.MustCompile(`<[A-Za-z][^ >]*[\x80-\xbf]`).MatchString(src) || (md && regexp.MustCompile(`\\\\[\x80-\xbf]`).MatchString(src)):
		return "invalid-utf8-counted-as-column"
	}
	for _, m := range lexerMessages {
		if strings.Contains(msg, m) {
			return "lexer-error-column-not-at-offset"
		}
	}
	return "other"
}

// messages of the errors raised by the lexer with errorf: their line and
// column are those reached by the lexer, their offset that of the token or of
// the pending text
var lexerMessages = []string{"not terminated", "unexpected EOF, expecting", "invalid character", "unknown escape",
	"newline in string", "newline in rune", "hexadecimal escape", "octal escape", "invalid UTF-8", "invalid BOM",
	"invalid Unicode code point", "unexpected #}", "unexpected %}", "unexpected %%}", "must separate successive digits",
	"has no digits", "invalid digit", "invalid radix point", "exponent", "mantissa", "identifier cannot begin with digit",
	"unexpected NUL", "empty character literal", "octal escape value"}

var reFrame = regexp.MustCompile(`github\.com/open2b/scriggo/(internal/compiler|internal/runtime|ast|)[./]*\(?\*?([A-Za-z0-9_]+)\)?\.([A-Za-z0-9_]+)`)

// panicSite returns the innermost scriggo function of a stack that is not a
// deferred recover wrapper.
func panicSite(stack string) string {
	lines := strings.Split(stack, "\n")
	seenPanic := false
	for _, l := range lines {
		if strings.HasPrefix(l, "panic(") {
			seenPanic = true
			continue
		}
		if !seenPanic {
			continue
		}
		if m := reFrame.FindStringSubmatch(l); m != nil && !strings.Contains(l, ".func") {
			return m[2] + "." + m[3]
		}
	}
	return "?"
}

// shrink removes pieces of the only file of in while the build keeps
// panicking at the same site.
func shrink(in buildInput, site string) buildInput {
	if len(in.Files) > 2 {
		return in
	}
	name := in.Name
	if in.Kind == "program" {
		name = "main.go"
	}
	src, ok := in.file(name)
	if !ok {
		return in
	}
	same := func(s string) bool {
		c := in
		c.Files = map[string]string{}
		for k, v := range in.Files {
			c.Files[k] = v
		}
		c.Files[name] = Hx(s)
		st, d, _ := runOne(c)
		return st == "panic" && strings.HasPrefix(d, site+":")
	}
	trials := 0
	for chunk := len(src) / 2; chunk >= 1; chunk /= 2 {
		for i := 0; i+chunk <= len(src) && trials < 1500; {
			cand := src[:i] + src[i+chunk:]
			trials++
			if same(cand) {
				src = cand
			} else {
				i += chunk
			}
		}
	}
	out := in
	out.Files = map[string]string{}
	for k, v := range in.Files {
		out.Files[k] = v
	}
	out.Files[name] = Hx(src)
	return out
}

func goroutinesSettle(base int) int {
	n := runtime.NumGoroutine()
	for i := 0; i < 400 && n > base; i++ {
		if i < 50 {
			runtime.Gosched()
		} else {
			time.Sleep(200 * time.Microsecond)
		}
		n = runtime.NumGoroutine()
	}
	return n
}

// worker: reads a batch file (JSON array of buildInput), prints one line per input.
func workerMain(c *Ctx) {
	b, err := os.ReadFile(c.Arg)
	if err != nil {
		fmt.Fprintln(os.Stderr, err)
		os.Exit(2)
	}
	var batch []buildInput
	if err := json.Unmarshal(b, &batch); err != nil {
		fmt.Fprintln(os.Stderr, err)
		os.Exit(2)
	}
	w := bufio.NewWriter(os.Stdout)
	start := 0
	if s := os.Getenv("VERIF_WORKER_START"); s != "" {
		fmt.Sscan(s, &start)
	}
	for i := start; i < len(batch); i++ {
		fmt.Fprintf(w, "START\t%d\n", i)
		w.Flush()
		base := goroutinesSettle(0 + runtime.NumGoroutine())
		t0 := time.Now()
		status, detail, be := runOne(batch[i])
		res := workerResult{Index: i, Status: status, Detail: detail, Ms: time.Since(t0).Milliseconds()}
		if status == "hang" {
			js, _ := json.Marshal(res)
			fmt.Fprintf(w, "DONE\t%s\n", js)
			w.Flush()
			os.Exit(3) // the stuck goroutine cannot be stopped: the parent starts a new worker
		}
		if after := goroutinesSettle(base); after > base && status != "panic" {
			res.Status = "leak"
			res.Detail = fmt.Sprintf("%d goroutines before, %d after (%s)", base, after, status)
		}
		if status == "panic" {
			site := strings.SplitN(detail, ":", 2)[0]
			m := shrink(batch[i], site)
			res.Min = &m
		}
		if be != nil {
			res.IsBuildErr = true
			if sig, desc := checkPosition(batch[i], be); sig != "" {
				res.PosSig, res.PosFail = sig, desc
			}
		}
		js, _ := json.Marshal(res)
		fmt.Fprintf(w, "DONE\t%s\n", js)
		w.Flush()
	}
}

var reHugeArray = regexp.MustCompile(`\[[0-9_]{7,}\]`)

var reAddr = regexp.MustCompile(`0x[0-9a-f]+|\[[0-9]+:[0-9]+\]|\b[0-9]+\b`)

func crashSignature(stderr string) string {
	for _, l := range strings.Split(stderr, "\n") {
		if strings.HasPrefix(l, "panic: ") || strings.HasPrefix(l, "fatal error: ") {
			return "crash:" + strings.ReplaceAll(reAddr.ReplaceAllString(strings.TrimSpace(l), "N"), " ", "_")
		}
	}
	return "crash:abnormal-exit"
}

// runBatches runs the inputs in child processes and calls report for every result.
func runBatches(c *Ctx, inputs []buildInput, report func(in buildInput, r workerResult)) {
	exe, _ := os.Executable()
	const batchSize = 400
	for off := 0; off < len(inputs); off += batchSize {
		end := off + batchSize
		if end > len(inputs) {
			end = len(inputs)
		}
		batch := inputs[off:end]
		f, _ := os.CreateTemp("", "h_lexer_batch_*.json")
		js, _ := json.Marshal(batch)
		f.Write(js)
		f.Close()
		start := 0
		for start < len(batch) {
			cmd := exec.Command(exe, "sweep-worker", "-arg", f.Name())
			cmd.Env = append(os.Environ(), fmt.Sprintf("VERIF_WORKER_START=%d", start))
			var stderr strings.Builder
			cmd.Stderr = &stderr
			out, _ := cmd.StdoutPipe()
			if err := cmd.Start(); err != nil {
				fmt.Fprintln(os.Stderr, "cannot start worker:", err)
				os.Exit(2)
			}
			timer := time.AfterFunc(time.Duration(len(batch)-start+4)*inputTimeLimit, func() { cmd.Process.Kill() })
			sc := bufio.NewScanner(out)
			sc.Buffer(make([]byte, 1<<20), 1<<24)
			started, finished := -1, -1
			for sc.Scan() {
				l := sc.Text()
				if strings.HasPrefix(l, "START\t") {
					fmt.Sscan(l[6:], &started)
				} else if strings.HasPrefix(l, "DONE\t") {
					var r workerResult
					if json.Unmarshal([]byte(l[5:]), &r) == nil {
						finished = r.Index
						report(batch[r.Index], r)
					}
				}
			}
			err := cmd.Wait()
			timer.Stop()
			if finished == len(batch)-1 && err == nil {
				break
			}
			if started > finished {
				// the worker died while building input `started`
				report(batch[started], workerResult{Index: started, Status: "crash", Detail: crashSignature(stderr.String()) + "\n" + firstLines(stderr.String(), 12)})
				start = started + 1
			} else if finished >= 0 {
				start = finished + 1 // after a hang the worker exits by itself
			} else {
				fmt.Fprintln(os.Stderr, "worker failed without progress:", err, stderr.String())
				os.Exit(2)
			}
		}
		os.Remove(f.Name())
	}
}

func firstLines(s string, n int) string {
	ls := strings.Split(s, "\n")
	if len(ls) > n {
		ls = ls[:n]
	}
	return strings.Join(ls, "\n")
}

func tmplInput(name, src string, noshow bool) buildInput {
	return buildInput{Kind: "template", Name: name, Files: map[string]string{name: Hx(src)}, NoShow: noshow}
}

// sweepInputs generates the inputs of the C04 and C21 sweeps.
func sweepInputs(c *Ctx) []buildInput {
	if in := c.ReplayInput(); in != nil {
		b, _ := json.Marshal(in)
		var bi buildInput
		if json.Unmarshal(b, &bi) == nil && bi.Files != nil {
			return []buildInput{bi}
		}
		return nil
	}
	var ins []buildInput
	r := c.Rng
	corpus := templateCorpus()
	progs := programCorpus(0)
	// fixed regressions: inputs that crashed the process or the build
	for _, s := range []string{"{##", "{%%%%", "{%% a %%", "<script type=\"{{ \"a\" }}\">", "<style type='{{ 1 }}'>", "{% if\n true %}  {% end %}\n", "{{ \"\\UFFFFFFFF\" }}", "{{ '\\U00110000' }}"} {
		for fm := 0; fm < 6; fm++ {
			ins = append(ins, tmplInput("index"+extOfFormat[fm], s, false))
		}
	}
	// known finding linecol:program-bom-takes-no-column: a byte order mark at the start of a program
	ins = append(ins, buildInput{Kind: "program", Files: map[string]string{"main.go": Hx("\xef\xbb\xbfpackage main; func main() { undefinedName() }\n"), "go.mod": Hx("module main\n")}})
	// every prefix of every end tag spelling of a script or style element, in code and inside
	// string literals, comments and JSON: the source ends exactly at "</script", "</styl", ...
	for _, body := range []string{"var a = 1;", "var a = \"x", "var a = 'x", "// c ", "/* c ", "{\"k\": \"v"} {
		for _, open := range []string{"<script>", "<script type=\"application/ld+json\">", "<SCRIPT defer>"} {
			for _, end := range []string{"</script>", "</SCRIPT >", "</script\n>"} {
				for cut := 0; cut <= len(end); cut++ {
					for _, fm := range []int{1, 5} {
						ins = append(ins, tmplInput("index"+extOfFormat[fm], open+body+end[:cut], false))
					}
				}
			}
		}
	}
	for _, body := range []string{"p { color: red }", "p { font-family: \"x", "a { background: url('x", "/* c "} {
		for _, end := range []string{"</style>", "</STYLE >", "</style\n>"} {
			for cut := 0; cut <= len(end); cut++ {
				for _, fm := range []int{1, 5} {
					ins = append(ins, tmplInput("index"+extOfFormat[fm], "<style>"+body+end[:cut], false))
				}
			}
		}
	}
	// every truncation of generated HTML documents with script and style elements
	ndocs := 8
	if c.Thorough() {
		ndocs = 150
	}
	for k := 0; k < ndocs; k++ {
		doc := ctxDocument(r)
		if k%2 == 1 {
			doc = fragmentDocument(r)
		}
		fm := 1
		if r.Intn(5) == 0 {
			fm = 5
		}
		for cut := 0; cut <= len(doc); cut++ {
			ins = append(ins, tmplInput("index"+extOfFormat[fm], doc[:cut], false))
		}
	}
	// chains and cycles of files that render, import and extend each other
	nchains := 150
	if c.Thorough() {
		nchains = 6000
	}
	for k := 0; k < nchains; k++ {
		ins = append(ins, chainInput(r))
	}
	// two files referring to one file with every pair of relations (c04struct.go)
	ins = append(ins, diamondInputs(r.Intn)...)
	// every filler in every gap of the skeleton of every block statement (c04struct.go)
	ins = append(ins, structuralInputs(c.Thorough())...)
	// every truncation of corpus files
	nfiles := 6
	if c.Thorough() {
		nfiles = 25
	}
	perm := r.Perm(len(corpus))
	for k := 0; k < nfiles && k < len(perm); k++ {
		cf := corpus[perm[k]]
		src := cf.Src
		if len(src) > 1200 && !c.Thorough() {
			src = src[:1200]
		}
		if len(src) > 1500 {
			src = src[:1500]
		}
		formats := []int{cf.Format, r.Intn(6)}
		if c.Thorough() {
			formats = []int{0, 1, 2, 3, 4, 5}
		}
		for _, fm := range formats {
			for cut := 0; cut <= len(src); cut++ {
				ins = append(ins, tmplInput("index"+extOfFormat[fm], src[:cut], false))
			}
		}
	}
	// pieces
	for _, p := range stmtPieces {
		for fm := 0; fm < 6; fm++ {
			ins = append(ins, tmplInput("index"+extOfFormat[fm], p, false))
			ins = append(ins, tmplInput("index"+extOfFormat[fm], "a\n "+p+" \nb", false))
		}
	}
	for _, a := range codeAtoms {
		ins = append(ins, tmplInput("index.txt", "{{ "+a+" }}", false), tmplInput("index.html", "{% "+a+" %}", false), tmplInput("index.txt", "{%% "+a+" %%}", false))
	}
	// random and mutated templates, multi file sets, programs
	for i := 0; i < c.N; i++ {
		fm := r.Intn(6)
		switch r.Intn(13) {
		case 12:
			s := cutTemplate(r)
			if r.Intn(2) == 0 {
				s = mutate(r, s)
			}
			in := tmplInput("index"+extOfFormat[fm], s, false)
			in.Files["p.txt"] = Hx("P")
			ins = append(ins, in)
		case 0, 1, 2, 3:
			ins = append(ins, tmplInput("index"+extOfFormat[fm], randTemplate(r, fm, 16), r.Intn(12) == 0))
		case 4, 5, 6:
			if len(corpus) == 0 {
				continue
			}
			cf := corpus[r.Intn(len(corpus))]
			s := cf.Src
			if len(s) > 3000 {
				o := r.Intn(len(s) - 3000)
				s = s[o : o+3000]
			}
			if r.Intn(3) > 0 {
				fm = cf.Format
			}
			ins = append(ins, tmplInput("index"+extOfFormat[fm], mutate(r, s), false))
		case 7, 8:
			// a set of files that extend, import and render each other
			ext := extOfFormat[fm]
			layout := "<html>{{ Title() }}{{ Body() }}{% show M %}</html>\n" + randTemplate(r, fm, 4)
			index := "{% extends \"layout" + ext + "\" %}\n{% import \"imp" + ext + "\" %}\n{% macro Title %}t{{ render \"part" + ext + "\" }}{% end %}\n{% macro Body %}" + randTemplate(r, fm, 5) + "{% end %}\n"
			imp := "{% macro M %}m" + randTemplate(r, fm, 3) + "{% end %}\n{% var V = 1 %}\n"
			part := "p" + randTemplate(r, fm, 4)
			files := map[string]string{"index" + ext: index, "layout" + ext: layout, "imp" + ext: imp, "part" + ext: part}
			// mutate one of them
			names := []string{"index" + ext, "layout" + ext, "imp" + ext, "part" + ext}
			if r.Intn(3) > 0 {
				n := names[r.Intn(4)]
				files[n] = mutate(r, files[n])
			}
			if r.Intn(10) == 0 {
				files["part"+ext] = "{{ render \"index" + ext + "\" }}" // a cycle
			}
			hx := map[string]string{}
			for n, s := range files {
				hx[n] = Hx(s)
			}
			ins = append(ins, buildInput{Kind: "template", Name: "index" + ext, Files: hx})
		case 9, 10:
			if len(progs) == 0 {
				continue
			}
			p := progs[r.Intn(len(progs))]
			s := p.Src
			if r.Intn(4) == 0 {
				s = s[:r.Intn(len(s)+1)]
			} else {
				s = mutate(r, s)
			}
			if reHugeArray.MatchString(s) {
				continue // known finding hang:program (an array of a billion elements): steer around it
			}
			ins = append(ins, buildInput{Kind: "program", Files: map[string]string{"main.go": Hx(s), "go.mod": Hx("module main\n")}})
		default:
			ins = append(ins, tmplInput("index"+extOfFormat[fm], RandString(r, 40), false))
		}
	}
	return ins
}

// chainInput builds a set of files that render, import or extend each other
// along a chain, possibly closed into a cycle entered from outside it, with
// texts of different lengths in front of the statements and, sometimes, an
// error inside a file that is longer or shorter than the file including it.
func chainInput(r *rand.Rand) buildInput {
	ext := extOfFormat[[]int{1, 1, 0, 5}[r.Intn(4)]]
	n := 2 + r.Intn(4)
	names := []string{"index" + ext}
	for i := 1; i < n; i++ {
		names = append(names, string(rune('a'+i-1))+ext)
	}
	pad := func() string {
		switch r.Intn(4) {
		case 0:
			return ""
		case 1:
			return strings.Repeat("line of text\n", r.Intn(6))
		case 2:
			return strings.Repeat("é ", r.Intn(20)) + "\n"
		}
		return strings.Repeat("x", r.Intn(120))
	}
	// target of the statement of the last file: nothing, or a file of the chain (a cycle)
	files := map[string]string{}
	kind := r.Intn(3) // 0 render, 1 import, 2 mixed
	for i, name := range names {
		var b strings.Builder
		next := ""
		if i+1 < len(names) {
			next = names[i+1]
		} else if r.Intn(2) == 0 {
			next = names[r.Intn(len(names))] // closes a cycle, possibly not through index
		}
		useImport := kind == 1 || kind == 2 && r.Intn(2) == 0
		if useImport && next != "" {
			// imports come first in a file
			b.WriteString("{% import \"" + next + "\" %}\n")
			b.WriteString(pad())
			b.WriteString("{% macro M" + fmt.Sprint(i) + " %}m{% end %}\n")
		} else {
			b.WriteString(pad())
			if next != "" {
				b.WriteString("{{ render \"" + next + "\" }}")
			}
			b.WriteString(pad())
		}
		switch r.Intn(12) {
		case 0:
			b.WriteString("{{ undefinedName }}")
		case 1:
			b.WriteString("{% if %}")
		case 2:
			b.WriteString("{{ 1 + \"a\" }}")
		case 3:
			b.WriteString("{{ render \"missing" + ext + "\" }}")
		}
		b.WriteString(pad())
		files[name] = b.String()
	}
	if r.Intn(6) == 0 {
		// extends: the first file extends the second one
		files[names[0]] = "{% extends \"" + names[1] + "\" %}\n{% macro Body %}" + pad() + "{% end %}\n"
	}
	hx := map[string]string{}
	for n, s := range files {
		hx[n] = Hx(s)
	}
	return buildInput{Kind: "template", Name: names[0], Files: hx}
}

func inputDetail(in buildInput, r workerResult) map[string]any {
	m := map[string]any{"kind": in.Kind, "name": in.Name, "files": in.Files, "noshow": in.NoShow, "status": r.Status, "detail": r.Detail}
	if len(in.Files) == 1 {
		for _, h := range in.Files {
			m["src_text"] = fmt.Sprintf("%q", Unhx(h))
		}
	}
	if r.PosFail != "" {
		m["position"] = r.PosFail
	}
	return m
}

func init() {
	Register("sweep-worker", workerMain)

	Register("C04-sweep", func(c *Ctx) {
		ins := sweepInputs(c)
		reported := map[string]int{}
		runBatches(c, ins, func(in buildInput, r workerResult) {
			c.Count("evaluations")
			c.Count("status:" + r.Status)
			if r.Status == "ok" || (r.Status == "error" && len(in.Files[in.Name]) > 8) {
				c.Count("nontrivial")
			}
			sig := ""
			switch r.Status {
			case "crash":
				sig = strings.SplitN(r.Detail, "\n", 2)[0]
			case "panic":
				sig = "host-panic:" + strings.SplitN(r.Detail, ":", 2)[0]
				if r.Min != nil {
					in = *r.Min
				}
			case "hang":
				sig = "hang:" + in.Kind
			case "leak":
				sig = "goroutine-leak"
			}
			if sig != "" {
				reported[sig]++
				if reported[sig] <= 3 {
					c.Fail(sig, inputDetail(in, r))
				}
			} else if r.Status == "ok" && len(c.Samples) < 2 && len(in.Files) == 1 && len(in.Files[in.Name]) > 40 {
				c.Sample(map[string]string{"built": Unhx(in.Files[in.Name])})
			}
		})
		keys := []string{}
		for k := range reported {
			keys = append(keys, k)
		}
		sort.Strings(keys)
	})

	Register("C21-sweep", func(c *Ctx) {
		ins := sweepInputs(c)
		reported := map[string]int{}
		// token level: offsets of every token of the real lexer against the source
		tokFails := 0
		for _, in := range ins {
			if in.Kind != "template" || len(in.Files) != 1 {
				continue
			}
			src, _ := in.file(in.Name)
			fm := formatOfExt[filepath.Ext(in.Name)]
			res := verifhook.LexTemplateRecover([]byte(src), ast.Format(fm), in.NoShow)
			c.Count("token-streams")
			prevEnd := -1
			for _, t := range res.Tokens {
				bad := ""
				switch {
				case t.TxtLen > 0 && (t.Start < 0 || t.End != t.Start+t.TxtLen-1 || t.End >= len(src)):
					bad = "offsets of a token do not delimit its text"
				case t.TxtLen == 0 && (t.End != t.Start || t.Start < 0 || t.Start > len(src)):
					bad = "offsets of an empty token"
				case t.TxtLen > 0 && t.Start <= prevEnd:
					bad = "token overlaps the previous one"
				}
				if bad != "" {
					tokFails++
					if tokFails <= 2 {
						c.Fail("token-offsets", map[string]any{"kind": in.Kind, "name": in.Name, "files": in.Files, "src_text": src, "token": t.TypName, "start": t.Start, "end": t.End, "why": bad})
					}
					break
				}
				if t.TxtLen > 0 {
					prevEnd = t.End
				}
			}
		}
		runBatches(c, ins, func(in buildInput, r workerResult) {
			c.Count("evaluations")
			if r.IsBuildErr {
				c.Count("nontrivial") // a build error whose position was checked
				c.Count("build-errors")
			}
			if r.PosSig != "" {
				c.Count("pos:" + r.PosSig)
				reported[r.PosSig]++
				if reported[r.PosSig] <= 2 {
					c.Fail(r.PosSig, inputDetail(in, r))
				}
			} else if r.IsBuildErr && len(c.Samples) < 3 {
				c.Sample(map[string]string{"error": r.Detail})
			}
		})
	})
}
