package main

// The type zoo: named Go types covering every reflect.Kind, every interface
// the show code looks at, the well known types, composites, recursive types
// and struct tags.

import (
	"errors"
	"fmt"
	"reflect"
	"time"
	"unsafe"

	"github.com/open2b/scriggo/native"
)

type StrInt int

func (StrInt) String() string { return "str<int>" }

type StrStruct struct{ A int }

func (StrStruct) String() string { return "str{struct}" }

type EnvStr struct{ A int }

func (EnvStr) String(native.Env) string { return "env\"str" }

type EnvStrUint uint8

func (EnvStrUint) String(native.Env) string { return "envstr-uint" }

type ErrT struct{ Msg string }

func (e ErrT) Error() string { return "err: " + e.Msg }

type ErrStr string

func (e ErrStr) Error() string { return "E<" + string(e) + ">" }

type PErr struct{ A int }

func (*PErr) Error() string { return "perr" }

type HS int

func (HS) HTML() native.HTML { return "<b>hs</b>" }

type HES struct{}

func (HES) HTML(native.Env) native.HTML { return "<i>hes</i>" }

type CS int

func (CS) CSS() native.CSS { return "red" }

type CES struct{}

func (CES) CSS(native.Env) native.CSS { return "blue" }

type JSS struct{ X chan int }

func (JSS) JS() native.JS { return "[1,2]" }

type JSES int

func (JSES) JS(native.Env) native.JS { return "null" }

type JNS struct{ X func() }

func (JNS) JSON() native.JSON { return `{"a":1}` }

type JNES int

func (JNES) JSON(native.Env) native.JSON { return "true" }

type MDS int

func (MDS) Markdown() native.Markdown { return "*md*" }

type MDES struct{}

func (MDES) Markdown(native.Env) native.Markdown { return "_mdes_" }

// a map type with a String method whose keys cannot be converted
type MapStr map[struct{}]int

func (MapStr) String() string { return "mapstr" }

// key types with String methods
type KeyS struct{ A int }

func (k KeyS) String() string { return fmt.Sprintf("k%d", k.A) }

type KeyES struct{ A int }

func (k KeyES) String(native.Env) string { return fmt.Sprintf("ke%d", k.A) }

type NamedBytes []byte
type NamedTime time.Time
type NamedHTML native.HTML
type NamedString string
type NamedInt int
type NamedFloat float32
type NamedBool bool

type ChanStr chan int

func (ChanStr) String() string { return "chanstr" }

type FuncErr func()

func (FuncErr) Error() string { return "funcerr" }

type List struct {
	V    int
	Next *List
}

type Tree struct {
	Name string `json:"name"`
	Kids []Tree `json:"kids,omitempty"`
}

type RM map[string]RM
type RS []RS
type RP *RP

type Tagged struct {
	A int            `json:"a"`
	B string         `json:"b,omitempty"`
	C bool           `json:"-"`
	d int            //lint:ignore U1000 unexported on purpose
	E []int          `json:",omitempty"`
	F *int           `json:"f,omitempty"`
	G any            `json:"g"`
	H map[string]int `json:"h,omitempty"`
	I float64        `json:"i,omitempty"`
	J struct{ X int } `json:"j,omitempty"`
	K [0]int         `json:"k,omitempty"`
	L uint8          `json:"l,omitempty,string"`
	M bool           `json:"m,omitempty"`
	N string         `json:"-,"`
	O int            `json:"<o>&\"'"`
	P any            `json:"p,omitempty"`
	Q int            `xml:"q"`
}

type Omit struct {
	A string         `json:"a,omitempty"`
	B int            `json:"b,omitempty"`
	C bool           `json:",omitempty"`
	D *int           `json:"d,omitempty"`
	E map[string]int `json:"e,omitempty"`
	F []string       `json:"f,omitempty"`
	G float64        `json:"g,omitempty"`
	H any            `json:"h,omitempty"`
	I uint8          `json:"i,omitempty"`
	J [2]int         `json:"j,omitempty"`
	K string         `json:"k"`
	L string
	m string //lint:ignore U1000 unexported on purpose
	N int    `json:"-"`
}

type Inner struct{ X, Y int }
type Emb struct {
	Inner
	Z int
}
type EmbPtr struct {
	*Inner
	Z int
}

type WithChan struct{ C chan int }
type WithUnexpChan struct {
	c chan int //lint:ignore U1000 unexported on purpose
	A int
}
type WithIface struct {
	A any
	S fmt.Stringer
}
type Iface interface{ Foo() }
type StrIface interface {
	String() string
	Foo()
}
type FooStr int

func (FooStr) Foo()           {}
func (FooStr) String() string { return "foostr" }

type zooType struct {
	name string
	typ  reflect.Type
}

func tf[T any]() reflect.Type { return reflect.TypeFor[T]() }

var zoo []zooType

func addT[T any](name string) { zoo = append(zoo, zooType{name, tf[T]()}) }

func init() {
	addT[bool]("bool")
	addT[int]("int")
	addT[int8]("int8")
	addT[int16]("int16")
	addT[int32]("int32")
	addT[int64]("int64")
	addT[uint]("uint")
	addT[uint8]("uint8")
	addT[uint16]("uint16")
	addT[uint32]("uint32")
	addT[uint64]("uint64")
	addT[uintptr]("uintptr")
	addT[float32]("float32")
	addT[float64]("float64")
	addT[complex64]("complex64")
	addT[complex128]("complex128")
	addT[string]("string")
	addT[chan int]("chan int")
	addT[func()]("func()")
	addT[unsafe.Pointer]("unsafe.Pointer")
	addT[any]("any")
	addT[error]("error")
	addT[fmt.Stringer]("fmt.Stringer")
	addT[Iface]("Iface")
	addT[StrIface]("StrIface")
	addT[native.EnvStringer]("native.EnvStringer")
	addT[native.JSStringer]("native.JSStringer")
	addT[[]byte]("[]byte")
	addT[NamedBytes]("NamedBytes")
	addT[time.Time]("time.Time")
	addT[NamedTime]("NamedTime")
	addT[time.Duration]("time.Duration")
	addT[native.HTML]("native.HTML")
	addT[native.CSS]("native.CSS")
	addT[native.JS]("native.JS")
	addT[native.JSON]("native.JSON")
	addT[native.Markdown]("native.Markdown")
	addT[NamedHTML]("NamedHTML")
	addT[NamedString]("NamedString")
	addT[NamedInt]("NamedInt")
	addT[NamedFloat]("NamedFloat")
	addT[NamedBool]("NamedBool")
	addT[StrInt]("StrInt")
	addT[StrStruct]("StrStruct")
	addT[*StrStruct]("*StrStruct")
	addT[EnvStr]("EnvStr")
	addT[EnvStrUint]("EnvStrUint")
	addT[ErrT]("ErrT")
	addT[ErrStr]("ErrStr")
	addT[PErr]("PErr")
	addT[*PErr]("*PErr")
	addT[HS]("HS")
	addT[HES]("HES")
	addT[CS]("CS")
	addT[CES]("CES")
	addT[JSS]("JSS")
	addT[JSES]("JSES")
	addT[JNS]("JNS")
	addT[JNES]("JNES")
	addT[MDS]("MDS")
	addT[MDES]("MDES")
	addT[MapStr]("MapStr")
	addT[ChanStr]("ChanStr")
	addT[FuncErr]("FuncErr")
	addT[FooStr]("FooStr")
	addT[[]int]("[]int")
	addT[[3]string]("[3]string")
	addT[[0]int]("[0]int")
	addT[[]any]("[]any")
	addT[[]error]("[]error")
	addT[*int]("*int")
	addT[**string]("**string")
	addT[*[]int]("*[]int")
	addT[map[string]int]("map[string]int")
	addT[map[int]string]("map[int]string")
	addT[map[bool][]int]("map[bool][]int")
	addT[map[float64]int]("map[float64]int")
	addT[map[complex128]int]("map[complex128]int")
	addT[map[uintptr]any]("map[uintptr]any")
	addT[map[KeyS]int]("map[KeyS]int")
	addT[map[KeyES]string]("map[KeyES]string")
	addT[map[StrInt]int]("map[StrInt]int")
	addT[map[struct{}]int]("map[struct{}]int")
	addT[map[[2]int]int]("map[[2]int]int")
	addT[map[*int]int]("map[*int]int")
	addT[map[chan int]int]("map[chan int]int")
	addT[map[any]int]("map[any]int")
	addT[map[fmt.Stringer]int]("map[fmt.Stringer]int")
	addT[map[error]int]("map[error]int")
	addT[map[string]chan int]("map[string]chan int")
	addT[map[NamedString]map[int8]bool]("map[NamedString]map[int8]bool")
	addT[struct{}]("struct{}")
	addT[struct{ A, B int }]("struct{A,B int}")
	addT[Omit]("Omit")
	addT[[]Omit]("[]Omit")
	addT[map[string]*Omit]("map[string]*Omit")
	addT[Tagged]("Tagged")
	addT[*Tagged]("*Tagged")
	addT[Emb]("Emb")
	addT[EmbPtr]("EmbPtr")
	addT[WithChan]("WithChan")
	addT[WithUnexpChan]("WithUnexpChan")
	addT[WithIface]("WithIface")
	addT[[]chan int]("[]chan int")
	addT[[2]func()]("[2]func()")
	addT[*chan int]("*chan int")
	addT[[]time.Time]("[]time.Time")
	addT[map[string]time.Time]("map[string]time.Time")
	addT[[]ErrT]("[]ErrT")
	addT[[]JSS]("[]JSS")
	addT[[]JNS]("[]JNS")
	addT[List]("List")
	addT[*List]("*List")
	addT[Tree]("Tree")
	addT[RM]("RM")
	addT[RS]("RS")
	addT[RP]("RP")
	addT[[]NamedBytes]("[]NamedBytes")
	addT[[][]byte]("[][]byte")
	addT[struct{ T time.Time; B []byte }]("struct{T time.Time;B []byte}")
}

// dynamic types that an interface value may hold
var dynPool []reflect.Type

func init() {
	for _, z := range zoo {
		if z.typ.Kind() != reflect.Interface {
			dynPool = append(dynPool, z.typ)
		}
	}
}

var errSentinel = errors.New("sentinel")
