package main

// Implementation side of the `show` engine (properties C09 and C08).
//
//	C09-cases  static and run time verdicts of real templates ({{ v }} in each
//	           context, v a global of the given type) for the model driver
//	C09-sweep  the property itself on the real code: what the checker accepts
//	           never fails with `cannot show`, what fails boxed in an interface
//	           is rejected by the checker

import (
	"bytes"
	"encoding/hex"
	"fmt"
	"math"
	"math/rand"
	"reflect"
	"sort"
	"strings"
	"time"
	"unsafe"
	. "verif/harness/hlib"

	"github.com/open2b/scriggo"
	"github.com/open2b/scriggo/ast"
	"github.com/open2b/scriggo/native"
	"github.com/open2b/scriggo/verifhook"
)

func main() { Main() }

// ---- contexts ----

type ctxDef struct {
	ctx   int // ast.Context
	url   bool
	name  string
	file  string
	open  string // template text before {{ v }}
	close string
}

var contexts = []ctxDef{
	{int(ast.ContextText), false, "Text", "t.txt", "", ""},
	{int(ast.ContextHTML), false, "HTML", "t.html", "", ""},
	{int(ast.ContextCSS), false, "CSS", "t.css", "", ""},
	{int(ast.ContextJS), false, "JS", "t.js", "", ""},
	{int(ast.ContextJSON), false, "JSON", "t.json", "", ""},
	{int(ast.ContextMarkdown), false, "Markdown", "t.md", "", ""},
	{int(ast.ContextTag), false, "Tag", "t.html", "<div ", ">"},
	{int(ast.ContextQuotedAttr), false, "QuotedAttr", "t.html", `<div a="`, `">`},
	{int(ast.ContextUnquotedAttr), false, "UnquotedAttr", "t.html", `<div a=`, `>`},
	{int(ast.ContextCSSString), false, "CSSString", "t.css", `a{b:"`, `"}`},
	{int(ast.ContextJSString), false, "JSString", "t.js", `"`, `"`},
	{int(ast.ContextJSONString), false, "JSONString", "t.json", `"`, `"`},
	{int(ast.ContextTabCodeBlock), false, "TabCodeBlock", "t.md", "\t", ""},
	{int(ast.ContextSpacesCodeBlock), false, "SpacesCodeBlock", "t.md", "    ", ""},
	{int(ast.ContextQuotedAttr), true, "QuotedAttrURL", "t.html", `<a href="`, `">`},
	{int(ast.ContextUnquotedAttr), true, "UnquotedAttrURL", "t.html", `<a href=`, `>`},
}

// ---- descriptors ----

var ifaceTypes = []reflect.Type{
	tf[fmt.Stringer](), tf[native.EnvStringer](), tf[error](),
	tf[native.HTMLStringer](), tf[native.HTMLEnvStringer](), tf[native.CSSStringer](), tf[native.CSSEnvStringer](),
	tf[native.JSStringer](), tf[native.JSEnvStringer](), tf[native.JSONStringer](), tf[native.JSONEnvStringer](),
	tf[native.MarkdownStringer](), tf[native.MarkdownEnvStringer](),
}

var wkTypes = map[int]reflect.Type{16: tf[[]byte](), 17: tf[time.Time](), 18: tf[any](), 19: tf[native.HTML](), 20: tf[native.CSS](),
	21: tf[native.JS](), 22: tf[native.JSON](), 23: tf[native.Markdown]()}

func flagsOf(t reflect.Type) uint64 {
	var fl uint64
	for i, it := range ifaceTypes {
		if t.Implements(it) {
			fl |= 1 << uint(i)
		}
	}
	for b, w := range wkTypes {
		if t == w {
			fl |= 1 << uint(b)
		}
	}
	return fl
}

func indexOf(stack []reflect.Type, t reflect.Type) int {
	for i := len(stack) - 1; i >= 0; i-- {
		if stack[i] == t {
			return len(stack) - 1 - i
		}
	}
	return -1
}

// desc encodes a reflect.Type as a descriptor of the model (see ocaml/drv_show.ml).
func desc(t reflect.Type, stack []reflect.Type) string {
	if i := indexOf(stack, t); i >= 0 {
		return fmt.Sprintf("R%d", i)
	}
	fl := flagsOf(t)
	in := append(stack, t)
	switch t.Kind() {
	case reflect.Array:
		return fmt.Sprintf("A%d(%s)", fl, desc(t.Elem(), in))
	case reflect.Slice:
		return fmt.Sprintf("S%d(%s)", fl, desc(t.Elem(), in))
	case reflect.Pointer:
		return fmt.Sprintf("P%d(%s)", fl, desc(t.Elem(), in))
	case reflect.Map:
		return fmt.Sprintf("M%d(%s,%s)", fl, desc(t.Key(), in), desc(t.Elem(), in))
	case reflect.Struct:
		var fs []string
		for i := 0; i < t.NumField(); i++ {
			f := t.Field(i)
			e := 0
			if f.PkgPath == "" {
				e = 1
			}
			fs = append(fs, fmt.Sprintf("%d:%s:%s:%s", e, hex.EncodeToString([]byte(f.Name)), hex.EncodeToString([]byte(f.Tag.Get("json"))), desc(f.Type, in)))
		}
		return fmt.Sprintf("T%d(%s)", fl, strings.Join(fs, ";"))
	}
	return fmt.Sprintf("L%d.%d", int(t.Kind()), fl)
}

// ---- values ----

type oracle struct {
	entries []string
	seen    map[string]bool
	times   []time.Time
}

func (o *oracle) add(kind, key, text string) {
	if o == nil {
		return
	}
	e := kind + "|" + key + "|" + hex.EncodeToString([]byte(text))
	if o.seen == nil {
		o.seen = map[string]bool{}
	}
	if !o.seen[e] {
		o.seen[e] = true
		o.entries = append(o.entries, e)
	}
}

// encVal encodes v (of its static type) as a value of the model. It never
// calls Interface on values obtained from unexported fields.
func encVal(v reflect.Value, o *oracle) string {
	t := v.Type()
	switch v.Kind() {
	case reflect.Interface:
		if v.IsNil() {
			return "n"
		}
		return "I(" + desc(v.Elem().Type(), nil) + "|" + encVal(v.Elem(), o) + ")"
	case reflect.Bool:
		if v.Bool() {
			return "b1"
		}
		return "b0"
	case reflect.Int, reflect.Int8, reflect.Int16, reflect.Int32, reflect.Int64:
		return fmt.Sprintf("i%d", v.Int())
	case reflect.Uint, reflect.Uint8, reflect.Uint16, reflect.Uint32, reflect.Uint64, reflect.Uintptr:
		return fmt.Sprintf("u%d", v.Uint())
	case reflect.Float32, reflect.Float64:
		return fmt.Sprintf("f%d", math.Float64bits(v.Float()))
	case reflect.Complex64, reflect.Complex128:
		c := v.Complex()
		return fmt.Sprintf("c%d_%d", math.Float64bits(real(c)), math.Float64bits(imag(c)))
	case reflect.String:
		return "s" + hex.EncodeToString([]byte(v.String())) + "."
	case reflect.Chan, reflect.Func, reflect.UnsafePointer:
		if v.Kind() == reflect.UnsafePointer && v.Pointer() == 0 || v.Kind() != reflect.UnsafePointer && v.IsNil() {
			return "z"
		}
		return "o"
	case reflect.Slice:
		if v.IsNil() {
			return "z"
		}
		if t == tf[[]byte]() {
			return "y" + hex.EncodeToString(v.Bytes()) + "."
		}
		fallthrough
	case reflect.Array:
		var xs []string
		for i := 0; i < v.Len(); i++ {
			xs = append(xs, encVal(v.Index(i), o))
		}
		return "q(" + strings.Join(xs, ",") + ")"
	case reflect.Pointer:
		if v.IsNil() {
			return "z"
		}
		return "p(" + encVal(v.Elem(), o) + ")"
	case reflect.Map:
		if v.IsNil() {
			return "z"
		}
		var xs []string
		it := v.MapRange()
		for it.Next() {
			xs = append(xs, encVal(it.Key(), o)+":"+encVal(it.Value(), o))
		}
		return "m(" + strings.Join(xs, ",") + ")"
	case reflect.Struct:
		if t == tf[time.Time]() {
			id := 0
			if o != nil && v.CanInterface() {
				o.times = append(o.times, v.Interface().(time.Time))
				id = len(o.times)
			}
			return fmt.Sprintf("d%d", id)
		}
		var xs []string
		for i := 0; i < v.NumField(); i++ {
			xs = append(xs, encVal(v.Field(i), o))
		}
		return "t(" + strings.Join(xs, ",") + ")"
	}
	panic("encVal: kind " + v.Kind().String())
}

var sampleStrings = []string{"", "a", "x y", "<b>&\"'</b>", "</script>", "  ", "a\\b\"c", "\x00\x1f\x7f", "é\xff", "{\"k\":1}", "line\nbreak\ttab", "😀"}
var sampleFloats = []float64{0, 1, -1, 0.5, -2.25, 1e21, 1e-7, 123456789.125, math.MaxFloat64, math.SmallestNonzeroFloat64, float64(math.MaxFloat32), 3.1415927}
var sampleInts = []int64{0, 1, -1, 7, -128, 127, 255, 32767, -32768, 65535, math.MaxInt32, math.MinInt32, math.MaxInt64, math.MinInt64}

type valGen struct {
	r         *rand.Rand
	nonFinite bool // allow NaN and infinities
}

// gen builds a random value of type t. mode 0: zero value, 1: random.
func (g *valGen) gen(t reflect.Type, depth int) reflect.Value {
	v := reflect.New(t).Elem()
	r := g.r
	switch t.Kind() {
	case reflect.Bool:
		v.SetBool(r.Intn(2) == 0)
	case reflect.Int, reflect.Int8, reflect.Int16, reflect.Int32, reflect.Int64:
		x := sampleInts[r.Intn(len(sampleInts))]
		if r.Intn(3) == 0 {
			x = r.Int63() - r.Int63()
		}
		v.SetInt(x) // truncated to the width by reflect? no: SetInt stores the low bits
	case reflect.Uint, reflect.Uint8, reflect.Uint16, reflect.Uint32, reflect.Uint64, reflect.Uintptr:
		x := uint64(sampleInts[r.Intn(len(sampleInts))])
		if r.Intn(3) == 0 {
			x = r.Uint64()
		}
		v.SetUint(x)
	case reflect.Float32, reflect.Float64:
		x := sampleFloats[r.Intn(len(sampleFloats))]
		if r.Intn(3) == 0 {
			x = r.NormFloat64() * math.Pow(10, float64(r.Intn(40)-20))
		}
		if g.nonFinite && r.Intn(6) == 0 {
			x = []float64{math.Inf(1), math.Inf(-1), math.NaN()}[r.Intn(3)]
		}
		if t.Kind() == reflect.Float32 {
			x = float64(float32(x))
			if !g.nonFinite && math.IsInf(x, 0) {
				x = math.MaxFloat32
			}
		}
		v.SetFloat(x)
	case reflect.Complex64, reflect.Complex128:
		re, im := sampleFloats[r.Intn(4)], sampleFloats[r.Intn(4)]
		if t.Kind() == reflect.Complex64 {
			re, im = float64(float32(re)), float64(float32(im))
		}
		v.SetComplex(complex(re, im))
	case reflect.String:
		s := sampleStrings[r.Intn(len(sampleStrings))]
		if r.Intn(3) == 0 {
			s = RandString(r, 6)
		}
		v.SetString(s)
	case reflect.Chan:
		if r.Intn(2) == 0 {
			v.Set(reflect.MakeChan(t, 0))
		}
	case reflect.Func:
		if r.Intn(2) == 0 {
			v.Set(reflect.MakeFunc(t, func(args []reflect.Value) []reflect.Value {
				out := make([]reflect.Value, t.NumOut())
				for i := range out {
					out[i] = reflect.Zero(t.Out(i))
				}
				return out
			}))
		}
	case reflect.UnsafePointer:
		if r.Intn(2) == 0 {
			x := 1
			v.SetPointer(unsafe.Pointer(&x))
		}
	case reflect.Interface:
		if depth > 0 && r.Intn(4) != 0 {
			// a dynamic type that implements the interface
			for tries := 0; tries < 50; tries++ {
				d := dynPool[r.Intn(len(dynPool))]
				if d.Implements(t) {
					v.Set(g.gen(d, depth-1))
					break
				}
			}
		}
	case reflect.Slice:
		if r.Intn(5) == 0 {
			break // nil
		}
		n := 0
		if depth > 0 {
			n = r.Intn(4)
		}
		s := reflect.MakeSlice(t, n, n)
		for i := 0; i < n; i++ {
			s.Index(i).Set(g.gen(t.Elem(), depth-1))
		}
		v.Set(s)
	case reflect.Array:
		for i := 0; i < t.Len(); i++ {
			v.Index(i).Set(g.gen(t.Elem(), depth-1))
		}
	case reflect.Pointer:
		if depth > 0 && r.Intn(4) != 0 {
			p := reflect.New(t.Elem())
			p.Elem().Set(g.gen(t.Elem(), depth-1))
			v.Set(p)
		}
	case reflect.Map:
		if r.Intn(5) == 0 {
			break
		}
		m := reflect.MakeMap(t)
		n := 0
		if depth > 0 {
			n = r.Intn(4)
		}
		for i := 0; i < n; i++ {
			k := g.gen(t.Key(), depth-1)
			if !k.Comparable() {
				continue
			}
			m.SetMapIndex(k, g.gen(t.Elem(), depth-1))
		}
		v.Set(m)
	case reflect.Struct:
		if t == tf[time.Time]() {
			v.Set(reflect.ValueOf(g.genTime()))
			break
		}
		for i := 0; i < t.NumField(); i++ {
			if t.Field(i).PkgPath != "" {
				continue // unexported: stays zero
			}
			if r.Intn(4) == 0 {
				continue // zero value (omitempty)
			}
			v.Field(i).Set(g.gen(t.Field(i).Type, depth-1))
		}
	}
	return v
}

var zones = []*time.Location{time.UTC, time.FixedZone("X", 3600), time.FixedZone("", -5*3600-1800), time.FixedZone("UTC", 7200), time.FixedZone("Y", 14*3600)}

func (g *valGen) genTime() time.Time {
	r := g.r
	switch r.Intn(6) {
	case 0:
		return time.Time{}
	case 1:
		return time.Date(2020, 1, 2, 3, 4, 5, 0, time.UTC)
	}
	year := 1970 + r.Intn(100)
	switch r.Intn(8) {
	case 0:
		year = r.Intn(20000) - 5000
	case 1:
		year = 9999
	}
	nanos := 0
	if r.Intn(2) == 0 {
		nanos = r.Intn(1e9)
	}
	return time.Date(year, time.Month(1+r.Intn(12)), 1+r.Intn(28), r.Intn(24), r.Intn(60), r.Intn(60), nanos, zones[r.Intn(len(zones))])
}

// ---- running real templates ----

type built struct {
	tmpl    *scriggo.Template
	ptr     reflect.Value // pointer to the global variable v
	verdict string        // accept, reject, panic, error:...
}

var buildCache = map[string]*built{}

// build builds the template of the context with a global v of type t.
func build(t reflect.Type, cd ctxDef) *built {
	key := cd.name + "|" + t.String() + fmt.Sprintf("|%p", t)
	if b, ok := buildCache[key]; ok {
		return b
	}
	b := &built{ptr: reflect.New(t)}
	msg := PanicText(func() {
		fsys := scriggo.Files{cd.file: []byte(cd.open + "{{ v }}" + cd.close)}
		opts := &scriggo.BuildOptions{Globals: native.Declarations{"v": b.ptr.Interface()}}
		tmpl, err := scriggo.BuildTemplate(fsys, cd.file, opts)
		switch {
		case err == nil:
			b.tmpl = tmpl
			b.verdict = "accept"
		case strings.Contains(err.Error(), "cannot show"):
			b.verdict = "reject"
		default:
			b.verdict = "error:" + err.Error()
		}
	})
	if msg != "" {
		b.verdict = "panic"
	}
	buildCache[key] = b
	return b
}

// run renders the template with v as the value of the global.
func (b *built) run(v reflect.Value) (verdict string, out string) {
	var buf bytes.Buffer
	msg := PanicText(func() {
		b.ptr.Elem().Set(v)
		err := b.tmpl.Run(&buf, nil, nil)
		switch {
		case err == nil:
			verdict = "ok"
		case strings.Contains(err.Error(), "cannot show value of type"):
			verdict = "cannotshow"
		default:
			verdict = "error:" + err.Error()
		}
	})
	if msg != "" {
		return "panic", msg
	}
	return verdict, buf.String()
}

func hookStatic(t reflect.Type, ctx int) string {
	verdict := ""
	msg := PanicText(func() {
		if err := verifhook.CheckShow(t, ast.Context(ctx)); err != nil {
			verdict = "reject"
		} else {
			verdict = "accept"
		}
	})
	if msg != "" {
		return "panic"
	}
	return verdict
}

var anyType = tf[any]()

// randomType builds a composite type from the zoo with reflect.
func randomType(r *rand.Rand, depth int) reflect.Type {
	if depth == 0 || r.Intn(3) == 0 {
		return zoo[r.Intn(len(zoo))].typ
	}
	switch r.Intn(6) {
	case 0:
		return reflect.SliceOf(randomType(r, depth-1))
	case 1:
		return reflect.ArrayOf(r.Intn(3), randomType(r, depth-1))
	case 2:
		return reflect.PointerTo(randomType(r, depth-1))
	case 3:
		for tries := 0; tries < 20; tries++ {
			k := randomType(r, depth-1)
			if k.Comparable() {
				return reflect.MapOf(k, randomType(r, depth-1))
			}
		}
		return reflect.MapOf(tf[string](), randomType(r, depth-1))
	case 4:
		n := r.Intn(4)
		var fs []reflect.StructField
		tags := []string{"", "", `json:"x"`, `json:"y,omitempty"`, `json:"-"`, `json:",omitempty"`, `json:"z,omitempty"`, `json:"w"`, `json:"é\"<"`}
		for i := 0; i < n; i++ {
			fs = append(fs, reflect.StructField{Name: fmt.Sprintf("F%d", i), Type: randomType(r, depth-1), Tag: reflect.StructTag(tags[r.Intn(len(tags))])})
		}
		var st reflect.Type
		if PanicText(func() { st = reflect.StructOf(fs) }) != "" {
			return tf[struct{ A int }]()
		}
		return st
	}
	return zoo[r.Intn(len(zoo))].typ
}

type typed struct {
	name string
	typ  reflect.Type
}

// types returns the zoo followed by n random composites.
func types(c *Ctx, n int) []typed {
	var ts []typed
	for _, z := range zoo {
		ts = append(ts, typed{z.name, z.typ})
	}
	for i := 0; i < n; i++ {
		t := randomType(c.Rng, 3)
		ts = append(ts, typed{t.String(), t})
	}
	return ts
}

func values(g *valGen, t reflect.Type, n int) []reflect.Value {
	vs := []reflect.Value{reflect.Zero(t)}
	for i := 0; i < n; i++ {
		vs = append(vs, g.gen(t, 3))
	}
	return vs
}

// allBoxedAccepted reports whether the dynamic type of every interface value
// inside v (map keys excepted) is accepted by checkShow in the context.
func allBoxedAccepted(v reflect.Value, ctx int, top bool) bool {
	switch v.Kind() {
	case reflect.Interface:
		if v.IsNil() {
			return true
		}
		if hookStatic(v.Elem().Type(), ctx) != "accept" {
			return false
		}
		return allBoxedAccepted(v.Elem(), ctx, false)
	case reflect.Slice, reflect.Array:
		for i := 0; i < v.Len(); i++ {
			if !allBoxedAccepted(v.Index(i), ctx, false) {
				return false
			}
		}
	case reflect.Pointer:
		if !v.IsNil() {
			return allBoxedAccepted(v.Elem(), ctx, false)
		}
	case reflect.Map:
		it := v.MapRange()
		for it.Next() {
			if !allBoxedAccepted(it.Value(), ctx, false) {
				return false
			}
		}
	case reflect.Struct:
		for i := 0; i < v.NumField(); i++ {
			if v.Type().Field(i).PkgPath == "" && !allBoxedAccepted(v.Field(i), ctx, false) {
				return false
			}
		}
	}
	return true
}

func b01(b bool) string {
	if b {
		return "1"
	}
	return "0"
}

func zooByName(name string) (reflect.Type, bool) {
	for _, z := range zoo {
		if z.name == name {
			return z.typ, true
		}
	}
	return nil, false
}

func init() {
	// correspondence: verdicts of real templates vs the model
	Register("C09-cases", func(c *Ctx) {
		g := &valGen{r: c.Rng, nonFinite: true}
		nrand := c.N / 40
		for _, ty := range types(c, nrand) {
			d := desc(ty.typ, nil)
			for _, cd := range contexts {
				b := build(ty.typ, cd)
				if !cd.url {
					c.Line("static", fmt.Sprint(cd.ctx), d, b.verdict)
					c.Count("static")
					c.Count("static-" + b.verdict)
				}
				// the value is shown with its own static type when accepted, boxed in an interface otherwise
				st, sd := ty.typ, d
				if b.verdict != "accept" {
					st, sd = anyType, desc(anyType, nil)
					b = build(anyType, cd)
					if b.verdict != "accept" {
						c.Fail("interface-rejected", map[string]string{"ctx": cd.name})
						continue
					}
				}
				for _, v := range values(g, ty.typ, 2) {
					sv := reflect.New(st).Elem()
					sv.Set(v)
					verdict, out := b.run(sv)
					if verdict == "panic" && strings.Contains(out, "called using nil") {
						c.Count("user-method-on-nil-pointer-panics") // the user's method panics, not the show code
						continue
					}
					if strings.HasPrefix(verdict, "error:") {
						// an error of an escaper on the content (an unclosed HTML comment in trusted HTML shown in
						// Markdown): not a `cannot show` error, and not modelled
						c.Count("content-error-outside-model")
						continue
					}
					c.Line("show", fmt.Sprint(cd.ctx), b01(cd.url), "0", sd, encVal(sv, nil), verdict)
					c.Count("show")
					c.Count("show-" + strings.SplitN(verdict, ":", 2)[0])
				}
			}
		}
	})

	// sweep: the property on the real code
	Register("C09-sweep", func(c *Ctx) {
		g := &valGen{r: c.Rng, nonFinite: true}
		var ts []typed
		var only map[string]bool
		if in := c.ReplayInput(); in != nil {
			name, _ := in["type"].(string)
			t, ok := zooByName(name)
			if !ok {
				fmt.Println("KNOWN\treplay: type " + name + " is not in the zoo (random composite types are regenerated from the seed)")
				ts = types(c, c.N/20)
			} else {
				ts = []typed{{name, t}}
			}
			if cn, ok := in["ctx"].(string); ok {
				only = map[string]bool{cn: true}
			}
		} else {
			ts = types(c, c.N/20)
		}
		seen := 0
		for _, ty := range ts {
			for _, cd := range contexts {
				if only != nil && !only[cd.name] {
					continue
				}
				c.Count("evaluations")
				b := build(ty.typ, cd)
				hv := hookStatic(ty.typ, cd.ctx)
				detail := func(extra map[string]string) map[string]string {
					m := map[string]string{"type": ty.name, "gotype": ty.typ.String(), "ctx": cd.name, "descriptor": desc(ty.typ, nil)}
					for k, v := range extra {
						m[k] = v
					}
					return m
				}
				if b.verdict == "panic" || hv == "panic" {
					c.Fail("check-panics", detail(nil))
					continue
				}
				if b.verdict != hv {
					c.Fail("template-and-checkShow-disagree", detail(map[string]string{"template": b.verdict, "checkShow": hv}))
					continue
				}
				if strings.HasPrefix(b.verdict, "error:") {
					c.Fail("unexpected-build-error", detail(map[string]string{"error": b.verdict}))
					continue
				}
				for _, v := range values(g, ty.typ, 3) {
					if b.verdict == "accept" {
						c.Count("nontrivial")
						verdict, out := b.run(v)
						switch {
						case verdict == "cannotshow":
							if allBoxedAccepted(v, cd.ctx, true) {
								c.Fail("accepted-then-cannot-show", detail(map[string]string{"value": encVal(v, nil)}))
							} else {
								c.Count("boxed-rejected-type-fails")
							}
						case verdict == "panic":
							if strings.Contains(out, "not representable year") {
								c.Count("time-year-panic")
							} else if strings.Contains(out, "called using nil") {
								c.Count("user-method-on-nil-pointer-panics") // the user's String method, not the show code
							} else {
								c.Fail("show-panics", detail(map[string]string{"value": encVal(v, nil), "panic": out}))
							}
						case strings.Contains(verdict, "not closed HTML comment"):
							c.Count("content-error-not-a-cannot-show") // trusted HTML with an unclosed comment, shown in Markdown
						case verdict != "ok":
							c.Fail("unexpected-run-error", detail(map[string]string{"value": encVal(v, nil), "error": verdict}))
						default:
							if seen < 3 && ty.typ.Kind() == reflect.Map {
								seen++
								c.Sample(map[string]string{"type": ty.name, "ctx": cd.name, "out": out})
							}
						}
					} else if ty.typ.Kind() != reflect.Interface {
						// rejected: boxed in an interface it may fail; but then nothing that fails was accepted (already covered);
						// here check the converse direction of the interface clause: a failure implies a static rejection
						ba := build(anyType, cd)
						if ba.verdict != "accept" {
							c.Fail("interface-rejected", detail(nil))
							continue
						}
						sv := reflect.New(anyType).Elem()
						sv.Set(v)
						verdict, out := ba.run(sv)
						c.Count("boxed-" + strings.SplitN(verdict, ":", 2)[0])
						if verdict == "panic" && !strings.Contains(out, "not representable year") && !strings.Contains(out, "called using nil") {
							c.Fail("show-panics", detail(map[string]string{"value": encVal(sv, nil), "panic": out, "boxed": "1"}))
						}
					}
				}
			}
		}
		_ = sort.Strings
	})
}
