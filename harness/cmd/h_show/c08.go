package main

// C08: values shown as JavaScript or JSON are valid literals for the same data.
//
//	C08-cases  the bytes real templates ({{ v }} in a .js / .json file) write, with
//	           the texts the model does not compute (floats, times, user methods)
//	           as oracle entries, for the model driver
//	C08-sweep  the property on the real code with independent oracles: node
//	           evaluates the JavaScript literal, encoding/json decodes the JSON
//	           text and gives the expected data

import (
	"bytes"
	"encoding/hex"
	"encoding/json"
	"fmt"
	"math"
	"os"
	"os/exec"
	"path/filepath"
	"reflect"
	"sort"
	"strconv"
	"strings"
	"time"
	"unicode/utf8"
	. "verif/harness/hlib"

	"github.com/open2b/scriggo/native"
	"github.com/open2b/scriggo/verifhook"
)

var rtEnv = verifhook.Env(nil, nil)

func protectText(f func() string) (s string, ok bool) {
	defer func() {
		if r := recover(); r != nil {
			s, ok = "", false
		}
	}()
	return f(), true
}

// encCtx encodes v like encVal and records the oracle entries of every node.
// stack: the enclosing composite types (the descriptor of a nested type refers
// to them with back references).
func encCtx(v reflect.Value, stack []reflect.Type, o *oracle) string {
	t := v.Type()
	if v.Kind() == reflect.Interface {
		if v.IsNil() {
			return "n"
		}
		return "I(" + desc(v.Elem().Type(), nil) + "|" + encCtx(v.Elem(), nil, o) + ")"
	}
	// a type met inside its own definition is its ancestor
	if i := indexOf(stack, t); i >= 0 {
		stack = stack[:len(stack)-1-i]
	}
	d := desc(t, stack)
	in := append(append([]reflect.Type{}, stack...), t)
	var s string
	switch v.Kind() {
	case reflect.Slice:
		if v.IsNil() {
			s = "z"
		} else if t == tf[[]byte]() {
			s = "y" + hex.EncodeToString(v.Bytes()) + "."
		} else {
			var xs []string
			for i := 0; i < v.Len(); i++ {
				xs = append(xs, encCtx(v.Index(i), in, o))
			}
			s = "q(" + strings.Join(xs, ",") + ")"
		}
	case reflect.Array:
		var xs []string
		for i := 0; i < v.Len(); i++ {
			xs = append(xs, encCtx(v.Index(i), in, o))
		}
		s = "q(" + strings.Join(xs, ",") + ")"
	case reflect.Pointer:
		if v.IsNil() {
			s = "z"
		} else {
			s = "p(" + encCtx(v.Elem(), in, o) + ")"
		}
	case reflect.Map:
		if v.IsNil() {
			s = "z"
		} else {
			var xs []string
			it := v.MapRange()
			for it.Next() {
				xs = append(xs, encCtx(it.Key(), in, o)+":"+encCtx(it.Value(), in, o))
			}
			s = "m(" + strings.Join(xs, ",") + ")"
		}
	case reflect.Struct:
		if t == tf[time.Time]() {
			id := 0
			if v.CanInterface() {
				tm := v.Interface().(time.Time)
				o.times = append(o.times, tm)
				id = len(o.times)
				o.add("DN", fmt.Sprint(id), tm.Format(time.RFC3339Nano))
				var b bytes.Buffer
				if msg := PanicText(func() { verifhook.NewRenderer(&b, rtEnv).Show(tm, verifhook.Context(3)) }); msg == "" {
					o.add("DJ", fmt.Sprint(id), b.String())
				} else {
					o.add("DJ", fmt.Sprint(id), "")
				}
			}
			s = fmt.Sprintf("d%d", id)
		} else {
			var xs []string
			for i := 0; i < v.NumField(); i++ {
				xs = append(xs, encCtx(v.Field(i), in, o))
			}
			s = "t(" + strings.Join(xs, ",") + ")"
		}
	case reflect.Float32, reflect.Float64:
		s = encVal(v, nil)
		bits := 64
		if v.Kind() == reflect.Float32 {
			bits = 32
		}
		key := fmt.Sprintf("%d.%d", int(v.Kind()), math.Float64bits(v.Float()))
		o.add("F", key, strconv.FormatFloat(v.Float(), 'f', -1, bits))
		z := "0"
		if v.Float() == 0 {
			z = "1"
		}
		o.add("Z", key, z)
	case reflect.Complex64, reflect.Complex128:
		s = encVal(v, nil)
		if v.CanInterface() {
			c := v.Complex()
			txt, _ := verifhook.ToString(rtEnv, v.Interface())
			o.add("C", fmt.Sprintf("%d.%d.%d", int(v.Kind()), math.Float64bits(real(c)), math.Float64bits(imag(c))), txt)
		}
	default:
		s = encVal(v, nil)
	}
	o.add("N", d, t.String())
	if !v.CanInterface() {
		return s
	}
	key := d + "|" + s
	x := v.Interface()
	if e, ok := x.(error); ok {
		if txt, ok := protectText(e.Error); ok {
			o.add("E", key, txt)
		}
	}
	switch k := x.(type) {
	case fmt.Stringer:
		if txt, ok := protectText(k.String); ok {
			o.add("K", key, txt)
		}
	case native.EnvStringer:
		if txt, ok := protectText(func() string { return k.String(nil) }); ok {
			o.add("K", key, txt)
		}
	}
	if js, ok := x.(native.JS); ok {
		o.add("T", "JS.21|"+key, string(js))
	}
	if js, ok := x.(native.JSStringer); ok {
		if txt, ok := protectText(func() string { return string(js.JS()) }); ok {
			o.add("T", "JS.7|"+key, txt)
		}
	}
	if js, ok := x.(native.JSEnvStringer); ok {
		if txt, ok := protectText(func() string { return string(js.JS(nil)) }); ok {
			o.add("T", "JS.8|"+key, txt)
		}
	}
	if js, ok := x.(native.JSON); ok {
		o.add("T", "JSON.22|"+key, string(js))
	}
	if js, ok := x.(native.JSONStringer); ok {
		if txt, ok := protectText(func() string { return string(js.JSON()) }); ok {
			o.add("T", "JSON.9|"+key, txt)
		}
	}
	if js, ok := x.(native.JSONEnvStringer); ok {
		if txt, ok := protectText(func() string { return string(js.JSON(nil)) }); ok {
			o.add("T", "JSON.10|"+key, txt)
		}
	}
	return s
}

var jsCtx = contexts[3]   // t.js
var jsonCtx = contexts[4] // t.json

// ---- expected data and comparison ----

// features of a type for which showInJS/showInJSON are known to differ from encoding/json
func divergent(t reflect.Type, seen map[reflect.Type]bool) string {
	if seen[t] {
		return ""
	}
	seen[t] = true
	if t.Implements(tf[error]()) || reflect.PointerTo(t).Implements(tf[error]()) && false {
		return "error-shown-as-string"
	}
	for _, it := range []reflect.Type{tf[native.JSStringer](), tf[native.JSEnvStringer](), tf[native.JSONStringer](), tf[native.JSONEnvStringer]()} {
		if t.Implements(it) {
			return "trusted"
		}
	}
	if t == tf[native.JS]() || t == tf[native.JSON]() {
		return "trusted"
	}
	if t == tf[time.Time]() {
		return ""
	}
	if t.Implements(tf[json.Marshaler]()) || t.Implements(tf[interface{ MarshalText() ([]byte, error) }]()) {
		return "marshaler"
	}
	switch t.Kind() {
	case reflect.Complex64, reflect.Complex128, reflect.Chan, reflect.Func, reflect.UnsafePointer:
		return "unsupported-by-encoding-json"
	case reflect.Interface:
		return ""
	case reflect.Slice:
		if t.Elem().Kind() == reflect.Uint8 && t != tf[[]byte]() {
			return "json-named-byte-slice"
		}
		return divergent(t.Elem(), seen)
	case reflect.Array, reflect.Pointer:
		return divergent(t.Elem(), seen)
	case reflect.Map:
		switch t.Key().Kind() {
		case reflect.String, reflect.Int, reflect.Int8, reflect.Int16, reflect.Int32, reflect.Int64,
			reflect.Uint, reflect.Uint8, reflect.Uint16, reflect.Uint32, reflect.Uint64, reflect.Uintptr:
			if t.Key().Implements(tf[fmt.Stringer]()) || t.Key().Implements(tf[native.EnvStringer]()) {
				return "map-key-stringer"
			}
		default:
			return "map-key-kind"
		}
		return divergent(t.Elem(), seen)
	case reflect.Struct:
		names := map[string]bool{}
		for i := 0; i < t.NumField(); i++ {
			f := t.Field(i)
			if f.PkgPath != "" && !f.Anonymous {
				continue
			}
			if tag := f.Tag.Get("json"); tag != "-" {
				name, _, _ := strings.Cut(tag, ",")
				if name == "" {
					name = f.Name
				}
				if names[name] {
					return "json-duplicate-member-name"
				}
				names[name] = true
			}
			if f.Anonymous {
				return "json-embedded-struct"
			}
			tag := f.Tag.Get("json")
			if tag != "" && tag != "-" {
				name, opts, _ := strings.Cut(tag, ",")
				for _, op := range strings.Split(opts, ",") {
					if op == "string" {
						return "json-tag-string-option"
					}
					if op == "omitzero" {
						return "json-tag-omitzero"
					}
				}
				if name != "" && !validTagName(name) {
					return "json-invalid-tag-name"
				}
			}
			if d := divergent(f.Type, seen); d != "" {
				return d
			}
		}
	}
	return ""
}

// validTagName mirrors encoding/json isValidTag.
func validTagName(s string) bool {
	for _, c := range s {
		switch {
		case strings.ContainsRune("!#$%&()*+-./:;<=>?@[]^_{|}~ ", c):
		case c >= '0' && c <= '9', c >= 'a' && c <= 'z', c >= 'A' && c <= 'Z', c > 127:
		default:
			return false
		}
	}
	return true
}

// dynamic: the same question for the dynamic types held by interface values inside v
func divergentValue(v reflect.Value, depth int) string {
	if depth > 12 {
		return ""
	}
	switch v.Kind() {
	case reflect.Interface:
		if v.IsNil() {
			return ""
		}
		if d := divergent(v.Elem().Type(), map[reflect.Type]bool{}); d != "" {
			return d
		}
		return divergentValue(v.Elem(), depth+1)
	case reflect.Slice, reflect.Array:
		for i := 0; i < v.Len(); i++ {
			if d := divergentValue(v.Index(i), depth+1); d != "" {
				return d
			}
		}
	case reflect.Pointer:
		if !v.IsNil() {
			return divergentValue(v.Elem(), depth+1)
		}
	case reflect.Map:
		it := v.MapRange()
		for it.Next() {
			if d := divergentValue(it.Value(), depth+1); d != "" {
				return d
			}
		}
	case reflect.Struct:
		for i := 0; i < v.NumField(); i++ {
			if v.Type().Field(i).PkgPath == "" {
				if d := divergentValue(v.Field(i), depth+1); d != "" {
					return d
				}
			}
		}
	case reflect.Float32, reflect.Float64:
		if f := v.Float(); math.IsInf(f, 0) || math.IsNaN(f) {
			return "nonfinite-float"
		}
	}
	return ""
}

// hasTrusted reports whether v holds, at any depth, a value of a trusted type
// (native.JS, native.JSON, types with JS/JSON methods): their text is passed through.
func hasTrusted(v reflect.Value, depth int) bool {
	if depth > 12 {
		return false
	}
	if v.Kind() != reflect.Interface && divergent(v.Type(), map[reflect.Type]bool{}) == "trusted" {
		return true
	}
	switch v.Kind() {
	case reflect.Interface:
		return !v.IsNil() && hasTrusted(v.Elem(), depth+1)
	case reflect.Slice, reflect.Array:
		for i := 0; i < v.Len(); i++ {
			if hasTrusted(v.Index(i), depth+1) {
				return true
			}
		}
	case reflect.Pointer:
		return !v.IsNil() && hasTrusted(v.Elem(), depth+1)
	case reflect.Map:
		it := v.MapRange()
		for it.Next() {
			if hasTrusted(it.Value(), depth+1) {
				return true
			}
		}
	case reflect.Struct:
		for i := 0; i < v.NumField(); i++ {
			if v.Type().Field(i).PkgPath == "" && hasTrusted(v.Field(i), depth+1) {
				return true
			}
		}
	}
	return false
}

// dupKeyText reports whether a map inside v has two keys with the same key
// string (the order sort.Slice gives them is unspecified).
func dupKeyText(v reflect.Value, depth int) bool {
	if depth > 12 {
		return false
	}
	switch v.Kind() {
	case reflect.Interface, reflect.Pointer:
		return !v.IsNil() && dupKeyText(v.Elem(), depth+1)
	case reflect.Slice, reflect.Array:
		for i := 0; i < v.Len(); i++ {
			if dupKeyText(v.Index(i), depth+1) {
				return true
			}
		}
	case reflect.Struct:
		for i := 0; i < v.NumField(); i++ {
			if v.Type().Field(i).PkgPath == "" && dupKeyText(v.Field(i), depth+1) {
				return true
			}
		}
	case reflect.Map:
		seen := map[string]bool{}
		it := v.MapRange()
		for it.Next() {
			var txt string
			switch k := it.Key().Interface().(type) {
			case fmt.Stringer:
				txt, _ = protectText(k.String)
			case native.EnvStringer:
				txt, _ = protectText(func() string { return k.String(nil) })
			default:
				txt, _ = verifhook.ToString(rtEnv, k)
			}
			if seen[txt] {
				return true
			}
			seen[txt] = true
			if dupKeyText(it.Value(), depth+1) {
				return true
			}
		}
	}
	return false
}

// topKeysSorted reports whether the member names of the top level object of a JSON
// text are in increasing byte order (true when the text is not an object or not JSON).
func topKeysSorted(out string) bool {
	dec := json.NewDecoder(strings.NewReader(out))
	tok, err := dec.Token()
	if err != nil || tok != json.Delim('{') {
		return true
	}
	prev, first := "", true
	for dec.More() {
		k, err := dec.Token()
		if err != nil {
			return true
		}
		name, ok := k.(string)
		if !ok {
			return true
		}
		if !first && name < prev {
			return false
		}
		prev, first = name, false
		var skip json.RawMessage
		if err := dec.Decode(&skip); err != nil {
			return true
		}
	}
	return true
}

// sameData compares two decoded JSON trees; numbers as float64, a node {__date: ms}
// of the JavaScript side against an RFC 3339 string of the expected side.
func sameData(got, want any) bool {
	switch w := want.(type) {
	case map[string]any:
		g, ok := got.(map[string]any)
		if !ok || len(g) != len(w) {
			return false
		}
		for k, x := range w {
			y, ok := g[k]
			if !ok || !sameData(y, x) {
				return false
			}
		}
		return true
	case []any:
		g, ok := got.([]any)
		if !ok || len(g) != len(w) {
			return false
		}
		for i := range w {
			if !sameData(g[i], w[i]) {
				return false
			}
		}
		return true
	case string:
		if g, ok := got.(map[string]any); ok {
			if ms, ok := g["__date"].(float64); ok {
				tm, err := time.Parse(time.RFC3339Nano, w)
				return err == nil && tm.UnixMilli() == int64(ms)
			}
			return false
		}
		g, ok := got.(string)
		return ok && g == w
	case float64:
		g, ok := got.(float64)
		return ok && (g == w || math.Abs(g-w) <= math.Abs(w)*1e-15)
	default:
		return reflect.DeepEqual(got, want)
	}
}

const nodeScript = `
const vm = require('vm');
const fs = require('fs');
const lines = fs.readFileSync(process.argv[2], 'utf8').split('\n');
const out = [];
function rep(key, value) {
  const o = this[key];
  if (Object.prototype.toString.call(o) === '[object Date]') return {__date: o.getTime()};
  if (typeof value === 'number' && !isFinite(value)) return {__nonfinite: String(value)};
  if (value === undefined) return {__undefined: true};
  return value;
}
for (const l of lines) {
  if (l[0] !== 'S') continue;
  const src = Buffer.from(l.slice(1), 'hex').toString('utf8');
  try {
    const r = vm.runInNewContext('(' + src + '\n)', {}, {timeout: 500});
    const s = JSON.stringify({v: r}, rep);
    out.push('OK ' + s);
  } catch (e) {
    out.push('ERR ' + (e && e.name));
  }
}
fs.writeFileSync(process.argv[3], out.join('\n') + '\n');
`

// evalJS evaluates every source with node and returns one result per source:
// "OK {\"v\":...}" or "ERR <error name>".
func evalJS(srcs []string) ([]string, error) {
	dir, err := os.MkdirTemp("", "c08node")
	if err != nil {
		return nil, err
	}
	defer os.RemoveAll(dir)
	var in bytes.Buffer
	for _, s := range srcs {
		in.WriteString("S" + hex.EncodeToString([]byte(s)))
		in.WriteByte('\n')
	}
	os.WriteFile(filepath.Join(dir, "run.js"), []byte(nodeScript), 0o644)
	os.WriteFile(filepath.Join(dir, "in.txt"), in.Bytes(), 0o644)
	cmd := exec.Command("node", filepath.Join(dir, "run.js"), filepath.Join(dir, "in.txt"), filepath.Join(dir, "out.txt"))
	if outb, err := cmd.CombinedOutput(); err != nil {
		return nil, fmt.Errorf("node: %v: %s", err, outb)
	}
	b, err := os.ReadFile(filepath.Join(dir, "out.txt"))
	if err != nil {
		return nil, err
	}
	res := strings.Split(strings.TrimSuffix(string(b), "\n"), "\n")
	if len(res) != len(srcs) {
		return nil, fmt.Errorf("node returned %d results for %d sources", len(res), len(srcs))
	}
	return res, nil
}

// ---- known findings: fixed reproducers ----

type reproducer struct {
	sig  string
	name string
	ctx  ctxDef
	val  any
}

type embT struct {
	Inner
	Z int
}
type strOptT struct {
	N int `json:"n,string"`
}
type badTagT struct {
	A int `json:"a'b"`
}
type dupNameT struct {
	A int `json:"x"`
	B int `json:"x"`
}

func reproducers() []reproducer {
	return []reproducer{
		{"js-nonfinite-float", "+Inf in a .js template", jsCtx, math.Inf(1)},
		{"js-nonfinite-float", "NaN in a .js template", jsCtx, math.NaN()},
		{"json-nonfinite-float", "NaN in a .json template", jsonCtx, math.NaN()},
		{"json-nonfinite-float", "-Inf in a .json template", jsonCtx, math.Inf(-1)},
		{"json-embedded-struct", "struct{Inner; Z int}", jsonCtx, embT{Inner{1, 2}, 3}},
		{"json-named-byte-slice", "type NamedBytes []byte", jsonCtx, NamedBytes("ab")},
		{"json-tag-string-option", "N int `json:\"n,string\"`", jsonCtx, strOptT{7}},
		{"json-invalid-tag-name", "A int `json:\"a'b\"`", jsonCtx, badTagT{1}},
		{"json-error-as-string", "a struct implementing error", jsonCtx, ErrT{"x"}},
		{"json-duplicate-member-name", "two fields tagged json:\"x\"", jsonCtx, dupNameT{1, 2}},
	}
}

// checkJSON evaluates the JSON half of the property for one rendered value.
// It returns a failure signature ("" when the property holds) and a detail.
func checkJSON(v reflect.Value, out string) (string, string) {
	if !json.Valid([]byte(out)) {
		if divergentValue(v, 0) == "nonfinite-float" {
			return "json-nonfinite-float", "not valid JSON"
		}
		return "json-invalid", "encoding/json rejects the text"
	}
	want, err := json.Marshal(v.Interface())
	if err != nil {
		return "", "n/a: " + err.Error()
	}
	var g, w any
	if err := json.Unmarshal([]byte(out), &g); err != nil {
		return "json-invalid", err.Error()
	}
	json.Unmarshal(want, &w)
	if !sameData(g, w) {
		return "json-different-data", "encoding/json gives " + string(want)
	}
	return "", ""
}

func init() {
	Register("C08-cases", func(c *Ctx) {
		g := &valGen{r: c.Rng, nonFinite: true}
		for _, ty := range types(c, c.N/30) {
			for _, cd := range []ctxDef{jsCtx, jsonCtx} {
				fn := "JS"
				if cd.name == "JSON" {
					fn = "JSON"
				}
				b := build(ty.typ, cd)
				st := ty.typ
				if b.verdict != "accept" {
					st = anyType
					b = build(anyType, cd)
				}
				for _, v := range values(g, ty.typ, 3) {
					sv := reflect.New(st).Elem()
					sv.Set(v)
					verdict, out := b.run(sv)
					if verdict == "panic" && strings.Contains(out, "called using nil") {
						continue
					}
					if dupKeyText(sv, 0) {
						c.Count("duplicate-key-text") // the order of equal keys is unspecified (sort.Slice)
						continue
					}
					o := &oracle{}
					enc := encCtx(sv, nil, o)
					res := verdict
					if verdict == "ok" {
						res = "ok:" + Hx(out)
					}
					c.Line("render", fn, desc(st, nil), enc, strings.Join(o.entries, " "), res)
					if st == ty.typ && verdict == "ok" && allBoxedAccepted(v, cd.ctx, true) && !hasTrusted(v, 0) {
						// the data the property expects (model json_of), printed, is what was written
						c.Line("spec", fn, desc(st, nil), enc, strings.Join(o.entries, " "), res)
						c.Count("spec")
					}
					c.Count("render")
					c.Count("render-" + strings.SplitN(verdict, ":", 2)[0])
				}
			}
		}
	})

	Register("C08-sweep", func(c *Ctx) {
		// the known findings first
		type jsCase struct {
			src    string
			v      reflect.Value
			detail map[string]string
			known  string
		}
		var jsCases []jsCase
		fail := func(sig string, d map[string]string) { c.Fail(sig, d) }
		for _, rp := range reproducers() {
			v := reflect.ValueOf(rp.val)
			b := build(v.Type(), rp.ctx)
			if b.verdict != "accept" {
				continue
			}
			verdict, out := b.run(v)
			c.Count("evaluations")
			d := map[string]string{"reproducer": rp.name, "ctx": rp.ctx.name, "type": v.Type().String(), "out": out}
			if verdict != "ok" {
				continue
			}
			if rp.ctx.name == "JS" {
				jsCases = append(jsCases, jsCase{out, v, d, rp.sig})
				continue
			}
			sig, why := checkJSON(v, out)
			if sig != "" {
				d["why"] = why
				// a reproducer reports under its own signature
				fail(rp.sig, d)
			}
		}

		if in := c.ReplayInput(); in != nil {
			// replay: type name, context and the value encoding are informative; the case is regenerated from the seed
			_ = in
		}
		g := &valGen{r: c.Rng, nonFinite: false}
		seen := 0
		for _, ty := range types(c, c.N/20) {
			for _, cd := range []ctxDef{jsCtx, jsonCtx} {
				b := build(ty.typ, cd)
				if b.verdict != "accept" {
					continue
				}
				dv := divergent(ty.typ, map[reflect.Type]bool{})
				for _, v := range values(g, ty.typ, 4) {
					c.Count("evaluations")
					verdict, out := b.run(v)
					d := map[string]string{"type": ty.name, "gotype": ty.typ.String(), "ctx": cd.name, "value": encVal(v, nil), "out": out}
					switch {
					case verdict == "panic" && (strings.Contains(out, "called using nil") || strings.Contains(out, "not representable year")):
						c.Count("outside-the-property")
						continue
					case verdict == "cannotshow" && !allBoxedAccepted(v, cd.ctx, true):
						c.Count("boxed-rejected-type-fails")
						continue
					case verdict != "ok":
						d["verdict"] = verdict
						fail("accepted-but-not-rendered", d)
						continue
					}
					if ty.typ.Kind() == reflect.Map && utf8.ValidString(out) && !topKeysSorted(out) {
						fail("map-keys-not-sorted", d)
						continue
					}
					dvv := dv
					if hasTrusted(v, 0) {
						dvv = "trusted"
					} else if dvv == "" {
						dvv = divergentValue(v, 0)
					}
					if cd.name == "JSON" {
						if dvv != "trusted" && !json.Valid([]byte(out)) {
							if divergentValue(v, 0) == "nonfinite-float" {
								fail("json-nonfinite-float", d)
							} else {
								fail("json-invalid", d)
							}
							continue
						}
						if dvv != "" {
							c.Count("known-divergence-" + dvv)
							continue
						}
						sig, why := checkJSON(v, out)
						switch {
						case sig != "":
							d["why"] = why
							fail(sig, d)
						case strings.HasPrefix(why, "n/a"):
							c.Count("encoding-json-not-applicable")
						default:
							c.Count("nontrivial")
							if seen < 3 && len(out) > 12 {
								seen++
								c.Sample(map[string]string{"type": ty.name, "json": out})
							}
						}
					} else {
						jsCases = append(jsCases, jsCase{out, v, d, dvv})
					}
				}
			}
		}
		// evaluate the JavaScript literals with node
		var srcs []string
		for _, jc := range jsCases {
			srcs = append(srcs, jc.src)
		}
		res, err := evalJS(srcs)
		if err != nil {
			c.Fail("node-not-available", map[string]string{"error": err.Error()})
			return
		}
		for i, jc := range jsCases {
			r := res[i]
			isRepro := jc.detail["reproducer"] != ""
			if jc.known == "trusted" && !isRepro {
				c.Count("known-divergence-trusted") // native.JS and the JS methods are passed through as they are
				continue
			}
			if strings.HasPrefix(r, "ERR ") {
				jc.detail["node"] = r
				if divergentValue(jc.v, 0) == "nonfinite-float" {
					fail("js-nonfinite-float", jc.detail)
				} else {
					fail("js-not-an-expression", jc.detail)
				}
				continue
			}
			if strings.Contains(r, `"__undefined"`) && allBoxedAccepted(jc.v, jsCtx.ctx, true) {
				// an accepted value was written as undefined/* cannot represent */
				jc.detail["node"] = r
				fail("js-undefined-value", jc.detail)
				continue
			}
			if jc.known != "" && !isRepro {
				c.Count("known-divergence-" + jc.known)
				continue
			}
			var got map[string]any
			if err := json.Unmarshal([]byte(r[3:]), &got); err != nil {
				jc.detail["node"] = r
				fail("js-result-not-serialisable", jc.detail)
				continue
			}
			want, err := json.Marshal(jc.v.Interface())
			if err != nil {
				if isRepro {
					jc.detail["node"] = r
					fail(jc.known, jc.detail)
				} else {
					c.Count("encoding-json-not-applicable")
				}
				continue
			}
			var w any
			json.Unmarshal(want, &w)
			if !sameData(got["v"], w) {
				jc.detail["node"] = r
				jc.detail["expected"] = string(want)
				if isRepro {
					fail(jc.known, jc.detail)
				} else {
					fail("js-different-data", jc.detail)
				}
				continue
			}
			c.Count("nontrivial")
			c.Count("node-evaluated")
		}
		_ = sort.Strings
	})
}
