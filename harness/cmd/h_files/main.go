// Command h_files is the implementation side of engine `files`:
// C22 (native packages and importers) and C23 (scriggo.Files as io/fs).
package main

import (
	. "verif/harness/hlib"
)

func main() { Main() }

// ---- wire format shared with coq/model/WireM.v: u8, str = u8 len + bytes, list = u8 count + items

type wbuf struct{ b []byte }

func (w *wbuf) u8(x int) {
	if x < 0 || x > 255 {
		panic("wire: u8 out of range")
	}
	w.b = append(w.b, byte(x))
}
func (w *wbuf) str(s string) { w.u8(len(s)); w.b = append(w.b, s...) }

type rbuf struct {
	b   []byte
	bad bool
}

func (r *rbuf) u8() int {
	if len(r.b) == 0 {
		r.bad = true
		return 0
	}
	x := r.b[0]
	r.b = r.b[1:]
	return int(x)
}
func (r *rbuf) str() string {
	n := r.u8()
	if n > len(r.b) {
		r.bad = true
		return ""
	}
	s := string(r.b[:n])
	r.b = r.b[n:]
	return s
}

func replayHex(in map[string]any, key string) ([]byte, bool) {
	h, ok := in[key].(string)
	if !ok {
		return nil, false
	}
	return []byte(Unhx(h)), true
}
