package main

import (
	"fmt"
	"sort"
	. "verif/harness/hlib"

	"github.com/open2b/scriggo/native"
)

// ---- package trees

type kv struct {
	name string
	decl int // 0 = nil Declaration
}

type pnode struct {
	leaf  bool
	name  string
	decls []kv // sorted by name
	kids  []*pnode
}

type declID int

type errN int

func (e errN) Error() string { return fmt.Sprintf("error %d", int(e)) }

func (p *pnode) build() native.ImportablePackage {
	if p.leaf {
		m := native.Declarations{}
		for _, d := range p.decls {
			if d.decl == 0 {
				m[d.name] = nil
			} else {
				m[d.name] = declID(d.decl)
			}
		}
		return native.Package{Name: p.name, Declarations: m}
	}
	cp := native.CombinedPackage{}
	for _, k := range p.kids {
		cp = append(cp, k.build())
	}
	return cp
}

func declVal(d native.Declaration) int {
	switch v := d.(type) {
	case nil:
		return 0
	case declID:
		return int(v)
	}
	return 255
}

// encode writes the tree; the declarations of each leaf in the order given by less
func (p *pnode) encode(w *wbuf, pos map[string]int) {
	if p.leaf {
		w.u8(1)
		w.str(p.name)
		ds := append([]kv(nil), p.decls...)
		if pos != nil {
			sort.SliceStable(ds, func(i, j int) bool {
				pi, oi := pos[ds[i].name]
				pj, oj := pos[ds[j].name]
				if oi != oj {
					return oi
				}
				if oi && pi != pj {
					return pi < pj
				}
				return false
			})
		}
		w.u8(len(ds))
		for _, d := range ds {
			w.str(d.name)
			w.u8(d.decl)
		}
		return
	}
	w.u8(2)
	w.u8(len(p.kids))
	for _, k := range p.kids {
		k.encode(w, pos)
	}
}

func decodeTree(r *rbuf, depth int) *pnode {
	if depth > 50 {
		r.bad = true
		return nil
	}
	switch r.u8() {
	case 1:
		p := &pnode{leaf: true, name: r.str()}
		n := r.u8()
		for i := 0; i < n && !r.bad; i++ {
			p.decls = append(p.decls, kv{r.str(), r.u8()})
		}
		sort.Slice(p.decls, func(i, j int) bool { return p.decls[i].name < p.decls[j].name })
		return p
	case 2:
		p := &pnode{}
		n := r.u8()
		for i := 0; i < n && !r.bad; i++ {
			p.kids = append(p.kids, decodeTree(r, depth+1))
		}
		return p
	}
	r.bad = true
	return nil
}

var c22Names = []string{"a", "b", "c", "d", "e", "f", "ab", "A", "é", "", "x.y", "a b"}

type treeGen struct {
	c    *Ctx
	next int
	nilP int // per mille of nil declarations
}

func (g *treeGen) leaf() *pnode {
	r := g.c.Rng
	p := &pnode{leaf: true, name: []string{"p", "q", "main", ""}[r.Intn(4)]}
	n := r.Intn(6)
	if r.Intn(8) == 0 {
		n = 0
	}
	seen := map[string]bool{}
	for i := 0; i < n; i++ {
		nm := c22Names[r.Intn(len(c22Names))]
		if r.Intn(3) > 0 {
			nm = c22Names[r.Intn(5)]
		}
		if seen[nm] || g.next >= 250 {
			continue
		}
		seen[nm] = true
		d := 0
		if r.Intn(1000) >= g.nilP {
			g.next++
			d = g.next
		}
		p.decls = append(p.decls, kv{nm, d})
	}
	sort.Slice(p.decls, func(i, j int) bool { return p.decls[i].name < p.decls[j].name })
	return p
}

func (g *treeGen) tree(depth int) *pnode {
	r := g.c.Rng
	if depth >= 3 || r.Intn(3) == 0 {
		return g.leaf()
	}
	p := &pnode{}
	n := r.Intn(5)
	for i := 0; i < n; i++ {
		p.kids = append(p.kids, g.tree(depth+1))
	}
	return p
}

func genTree(c *Ctx) *pnode {
	g := &treeGen{c: c}
	if c.Rng.Intn(10) == 0 {
		g.nilP = 150
	}
	if c.Rng.Intn(6) == 0 {
		return g.leaf()
	}
	p := g.tree(0)
	if p.leaf {
		return p
	}
	return p
}

// ---- running LookupFunc with a recording callback that follows a schedule

type lfRun struct {
	calls []kv
	ret   int // 0 nil, 1 StopLookup, e+2 for errN(e), 255 anything else
	same  bool
	panic string
}

func runLookupFunc(pkg native.ImportablePackage, sched []byte) (res lfRun) {
	errs := map[int]error{}
	var err error
	res.panic = PanicText(func() {
		i := 0
		err = pkg.LookupFunc(func(name string, decl native.Declaration) error {
			res.calls = append(res.calls, kv{name, declVal(decl)})
			r := byte(0)
			if i < len(sched) {
				r = sched[i]
			}
			i++
			switch r {
			case 0:
				return nil
			case 1:
				return native.StopLookup
			}
			e := errN(int(r) - 2)
			errs[int(r)] = e
			return e
		})
	})
	switch e := err.(type) {
	case nil:
		res.ret = 0
	case errN:
		res.ret = int(e) + 2
	default:
		if err == native.StopLookup {
			res.ret = 1
		} else {
			res.ret = 255
		}
	}
	return res
}

func encRun(r lfRun) string {
	if r.panic != "" {
		return "panic"
	}
	w := &wbuf{}
	w.u8(len(r.calls))
	for _, c := range r.calls {
		w.str(c.name)
		w.u8(c.decl)
	}
	w.u8(r.ret)
	return "ok:" + Hxb(w.b)
}

// schedules: fail or stop at every call index, with arbitrary results afterwards
func schedules(c *Ctx, n int, f func(sched []byte)) {
	f(nil)
	for k := 0; k <= n; k++ {
		for kind := 0; kind < 2; kind++ {
			s := make([]byte, k, k+4)
			if kind == 0 {
				s = append(s, 1)
			} else {
				s = append(s, byte(2+c.Rng.Intn(200)))
			}
			for j := c.Rng.Intn(4); j > 0; j-- {
				s = append(s, byte([]int{0, 1, 2 + c.Rng.Intn(200)}[c.Rng.Intn(3)]))
			}
			f(s)
		}
	}
	for j := 0; j < 2; j++ {
		s := make([]byte, c.Rng.Intn(n+2))
		for i := range s {
			if c.Rng.Intn(4) == 0 {
				s[i] = byte([]int{1, 2 + c.Rng.Intn(200)}[c.Rng.Intn(2)])
			}
		}
		f(s)
	}
}

// ---- reference map model (independent oracle of the sweep)

// refDecls returns the names of p in first-occurrence order with their declaration
func refDecls(p *pnode, names *[]string, m map[string]int) {
	if p.leaf {
		for _, d := range p.decls {
			if _, ok := m[d.name]; !ok {
				m[d.name] = d.decl
				*names = append(*names, d.name)
			}
		}
		return
	}
	for _, k := range p.kids {
		refDecls(k, names, m)
	}
}

func refLookup(p *pnode, n string) int {
	if p.leaf {
		for _, d := range p.decls {
			if d.name == n {
				return d.decl
			}
		}
		return 0
	}
	for _, k := range p.kids {
		if d := refLookup(k, n); d != 0 {
			return d
		}
	}
	return 0
}

func refName(p *pnode) string {
	if p.leaf {
		return p.name
	}
	if len(p.kids) == 0 {
		return ""
	}
	return refName(p.kids[0])
}

func (p *pnode) String() string {
	if p.leaf {
		s := "Package{" + fmt.Sprintf("%q", p.name)
		for _, d := range p.decls {
			s += fmt.Sprintf(" %q:%d", d.name, d.decl)
		}
		return s + "}"
	}
	s := "Combined["
	for i, k := range p.kids {
		if i > 0 {
			s += ", "
		}
		s += k.String()
	}
	return s + "]"
}

// ---- importers

type inode struct {
	kind int // 1 Packages, 2 fixed, 3 combined
	pp   []ikv
	id   int
	only *string
	p, e int
	kids []*inode
}
type ikv struct {
	path string
	val  int
}

type fixedImp struct {
	n   *inode
	rec *[]int
}

func pkgOf(id int) native.ImportablePackage {
	if id == 0 {
		return nil
	}
	return native.Package{Name: fmt.Sprintf("%d", id)}
}

func (f fixedImp) Import(path string) (native.ImportablePackage, error) {
	*f.rec = append(*f.rec, f.n.id)
	if f.n.only != nil && *f.n.only != path {
		return nil, nil
	}
	var err error
	if f.n.e != 0 {
		err = errN(f.n.e)
	}
	return pkgOf(f.n.p), err
}

func (n *inode) build(rec *[]int) native.Importer {
	switch n.kind {
	case 1:
		m := native.Packages{}
		for _, e := range n.pp {
			m[e.path] = pkgOf(e.val)
		}
		return m
	case 2:
		return fixedImp{n, rec}
	}
	ci := native.CombinedImporter{}
	for _, k := range n.kids {
		ci = append(ci, k.build(rec))
	}
	return ci
}

func (n *inode) encode(w *wbuf) {
	w.u8(n.kind)
	switch n.kind {
	case 1:
		w.u8(len(n.pp))
		for _, e := range n.pp {
			w.str(e.path)
			w.u8(e.val)
		}
	case 2:
		w.u8(n.id)
		if n.only == nil {
			w.u8(0)
		} else {
			w.u8(1)
			w.str(*n.only)
		}
		w.u8(n.p)
		w.u8(n.e)
	case 3:
		w.u8(len(n.kids))
		for _, k := range n.kids {
			k.encode(w)
		}
	}
}

func decodeImp(r *rbuf, depth int) *inode {
	if depth > 50 {
		r.bad = true
		return nil
	}
	n := &inode{kind: r.u8()}
	switch n.kind {
	case 1:
		k := r.u8()
		for i := 0; i < k && !r.bad; i++ {
			n.pp = append(n.pp, ikv{r.str(), r.u8()})
		}
	case 2:
		n.id = r.u8()
		if r.u8() == 1 {
			s := r.str()
			n.only = &s
		}
		n.p = r.u8()
		n.e = r.u8()
	case 3:
		k := r.u8()
		for i := 0; i < k && !r.bad; i++ {
			n.kids = append(n.kids, decodeImp(r, depth+1))
		}
	default:
		r.bad = true
	}
	return n
}

var c22Paths = []string{"fmt", "a/b", "x", "", "strings"}

type impGen struct {
	c    *Ctx
	next int
}

func (g *impGen) gen(depth int) *inode {
	r := g.c.Rng
	k := r.Intn(3)
	if depth >= 3 && k == 2 {
		k = r.Intn(2)
	}
	switch k {
	case 0:
		n := &inode{kind: 1}
		seen := map[string]bool{}
		for i := r.Intn(4); i > 0; i-- {
			p := c22Paths[r.Intn(len(c22Paths))]
			if seen[p] {
				continue
			}
			seen[p] = true
			v := 0
			if r.Intn(8) > 0 {
				v = 1 + r.Intn(200)
			}
			n.pp = append(n.pp, ikv{p, v})
		}
		sort.Slice(n.pp, func(i, j int) bool { return n.pp[i].path < n.pp[j].path })
		return n
	case 1:
		g.next++
		n := &inode{kind: 2, id: g.next}
		if r.Intn(2) == 0 {
			s := c22Paths[r.Intn(len(c22Paths))]
			n.only = &s
		}
		switch r.Intn(4) {
		case 0:
			n.p = 1 + r.Intn(200)
		case 1:
			n.e = 1 + r.Intn(200)
		case 2:
			n.p = 1 + r.Intn(200)
			n.e = 1 + r.Intn(200)
		}
		return n
	}
	n := &inode{kind: 3}
	for i := r.Intn(5); i > 0; i-- {
		n.kids = append(n.kids, g.gen(depth+1))
	}
	return n
}

type impRun struct {
	p, e  int
	trace []int
	panic string
}

func runImport(n *inode, path string) (res impRun) {
	var rec []int
	imp := n.build(&rec)
	res.panic = PanicText(func() {
		p, err := imp.Import(path)
		switch v := p.(type) {
		case nil:
		case native.Package:
			fmt.Sscanf(v.Name, "%d", &res.p)
		default:
			res.p = 255
		}
		switch v := err.(type) {
		case nil:
		case errN:
			res.e = int(v)
		default:
			res.e = 255
		}
	})
	res.trace = rec
	return res
}

func refImport(n *inode, path string, trace *[]int) (int, int) {
	switch n.kind {
	case 1:
		for _, e := range n.pp {
			if e.path == path {
				return e.val, 0
			}
		}
		return 0, 0
	case 2:
		*trace = append(*trace, n.id)
		if n.only != nil && *n.only != path {
			return 0, 0
		}
		return n.p, n.e
	}
	for _, k := range n.kids {
		if p, e := refImport(k, path, trace); p != 0 || e != 0 {
			return p, e
		}
	}
	return 0, 0
}

func (n *inode) String() string {
	switch n.kind {
	case 1:
		s := "Packages{"
		for _, e := range n.pp {
			s += fmt.Sprintf(" %q:%d", e.path, e.val)
		}
		return s + "}"
	case 2:
		o := "*"
		if n.only != nil {
			o = fmt.Sprintf("%q", *n.only)
		}
		return fmt.Sprintf("importer#%d{on %s -> pkg %d, err %d}", n.id, o, n.p, n.e)
	}
	s := "CombinedImporter["
	for i, k := range n.kids {
		if i > 0 {
			s += ", "
		}
		s += k.String()
	}
	return s + "]"
}

func sameInts(a, b []int) bool {
	if len(a) != len(b) {
		return false
	}
	for i := range a {
		if a[i] != b[i] {
			return false
		}
	}
	return true
}

func init() {
	// correspondence: real packages with recording callbacks vs the extracted model; the
	// observed call order is given to the model as the iteration order of every map
	Register("C22-cases", func(c *Ctx) {
		for it := 0; it < c.N; it++ {
			p := genTree(c)
			pkg := p.build()
			var names []string
			refDecls(p, &names, map[string]int{})
			schedules(c, len(names), func(sched []byte) {
				res := runLookupFunc(pkg, sched)
				pos := map[string]int{}
				for i, cl := range res.calls {
					if _, ok := pos[cl.name]; !ok {
						pos[cl.name] = i
					}
				}
				w := &wbuf{}
				p.encode(w, pos)
				c.Line("C22.lookupfunc", Hxb(w.b), Hxb(sched), encRun(res))
				c.Count("lookupfunc")
				if len(sched) > 0 {
					c.Count("lookupfunc-with-failing-callback")
				}
			})
			// Lookup and PackageName
			w := &wbuf{}
			p.encode(w, nil)
			nw := &wbuf{}
			nw.u8(len(c22Names))
			out := &wbuf{}
			var pn string
			msg := PanicText(func() {
				pn = pkg.PackageName()
				out.str(pn)
				for _, n := range c22Names {
					nw.str(n)
					out.u8(declVal(pkg.Lookup(n)))
				}
			})
			r := "ok:" + Hxb(out.b)
			if msg != "" {
				r = "panic"
			}
			c.Line("C22.lookup", Hxb(w.b), Hxb(nw.b), r)
			c.Count("lookup")
			// importers
			g := &impGen{c: c}
			in := g.gen(0)
			iw := &wbuf{}
			in.encode(iw)
			for _, path := range c22Paths {
				ir := runImport(in, path)
				o := &wbuf{}
				o.u8(ir.p)
				o.u8(ir.e)
				o.u8(len(ir.trace))
				for _, t := range ir.trace {
					o.u8(t)
				}
				r := "ok:" + Hxb(o.b)
				if ir.panic != "" {
					r = "panic"
				}
				c.Line("C22.import", Hxb(iw.b), Hx(path), r)
				c.Count("import")
			}
		}
	})

	// sweep: the documented contract checked directly on the real code against a reference map model
	Register("C22-sweep", func(c *Ctx) {
		checkTree := func(p *pnode, only []byte) {
			pkg := p.build()
			var names []string
			ref := map[string]int{}
			refDecls(p, &names, ref)
			tw := &wbuf{}
			p.encode(tw, nil)
			detail := func(sched []byte, res lfRun, why string) map[string]any {
				calls := []string{}
				for _, cl := range res.calls {
					calls = append(calls, fmt.Sprintf("%q:%d", cl.name, cl.decl))
				}
				return map[string]any{"kind": "lookupfunc", "tree": Hxb(tw.b), "sched": Hxb(sched), "packages": p.String(),
					"callback_results": fmt.Sprint(sched), "calls": calls, "returned": res.ret, "why": why}
			}
			check := func(sched []byte) {
				c.Count("evaluations")
				res := runLookupFunc(pkg, sched)
				if res.panic != "" {
					c.Fail("panic", detail(sched, res, res.panic))
					return
				}
				// expected number of calls: up to and including the first non-nil result
				want := len(names)
				wantRet := 0
				for i := 0; i < len(names) && i < len(sched); i++ {
					if sched[i] != 0 {
						want = i + 1
						if sched[i] != 1 {
							wantRet = int(sched[i])
						}
						break
					}
				}
				seen := map[string]bool{}
				for _, cl := range res.calls {
					d, ok := ref[cl.name]
					if !ok {
						c.Fail("lookupfunc-unknown-name", detail(sched, res, fmt.Sprintf("f called with %q which no package declares", cl.name)))
						return
					}
					if seen[cl.name] {
						c.Fail("lookupfunc-name-twice", detail(sched, res, fmt.Sprintf("f called twice with %q", cl.name)))
						return
					}
					seen[cl.name] = true
					if d != cl.decl {
						c.Fail("lookupfunc-not-first-occurrence", detail(sched, res, fmt.Sprintf("f called with %q:%d, first occurrence is %d", cl.name, cl.decl, d)))
						return
					}
				}
				if len(res.calls) != want {
					sig := "lookupfunc-does-not-stop"
					if len(res.calls) < want {
						sig = "lookupfunc-misses-names"
					}
					c.Fail(sig, detail(sched, res, fmt.Sprintf("%d calls, want %d", len(res.calls), want)))
					return
				}
				if res.ret != wantRet {
					sig := "lookupfunc-error-not-returned"
					if wantRet == 0 {
						sig = "lookupfunc-returns-error"
					}
					c.Fail(sig, detail(sched, res, fmt.Sprintf("returned %d, want %d (0 nil, 1 StopLookup, e+2 error e)", res.ret, wantRet)))
					return
				}
				if len(sched) > 0 && want < len(names) || wantRet != 0 {
					c.Count("nontrivial")
				}
			}
			if only != nil {
				check(only)
			} else {
				schedules(c, len(names), check)
			}
			// Lookup / PackageName
			c.Count("evaluations")
			for _, n := range c22Names {
				var got int
				if msg := PanicText(func() { got = declVal(pkg.Lookup(n)) }); msg != "" {
					c.Fail("panic", map[string]any{"kind": "lookup", "tree": Hxb(tw.b), "packages": p.String(), "name": n, "why": msg})
					return
				}
				if want := refLookup(p, n); got != want {
					c.Fail("lookup-wrong-declaration", map[string]any{"kind": "lookup", "tree": Hxb(tw.b), "packages": p.String(), "name": n, "got": got, "want": want})
					return
				}
			}
			var pn string
			if msg := PanicText(func() { pn = pkg.PackageName() }); msg != "" || pn != refName(p) {
				c.Fail("packagename", map[string]any{"kind": "lookup", "tree": Hxb(tw.b), "packages": p.String(), "got": pn, "want": refName(p), "why": msg})
			}
		}
		checkImp := func(in *inode) {
			iw := &wbuf{}
			in.encode(iw)
			for _, path := range c22Paths {
				c.Count("evaluations")
				ir := runImport(in, path)
				var tr []int
				wp, we := refImport(in, path, &tr)
				det := map[string]any{"kind": "import", "imp": Hxb(iw.b), "importers": in.String(), "path": path,
					"got": []int{ir.p, ir.e}, "want": []int{wp, we}, "called": ir.trace, "want_called": tr}
				if ir.panic != "" {
					det["why"] = ir.panic
					c.Fail("panic", det)
				} else if ir.p != wp || ir.e != we {
					c.Fail("import-wrong-result", det)
				} else if !sameInts(ir.trace, tr) {
					c.Fail("import-wrong-calls", det)
				} else if wp != 0 || we != 0 {
					c.Count("nontrivial")
				}
			}
		}
		if in := c.ReplayInput(); in != nil {
			if b, ok := replayHex(in, "tree"); ok {
				r := &rbuf{b: b}
				p := decodeTree(r, 0)
				if !r.bad {
					sched, ok := replayHex(in, "sched")
					if !ok {
						sched = []byte{}
					}
					checkTree(p, sched)
				}
			}
			if b, ok := replayHex(in, "imp"); ok {
				r := &rbuf{b: b}
				n := decodeImp(r, 0)
				if !r.bad {
					checkImp(n)
				}
			}
			return
		}
		for it := 0; it < c.N; it++ {
			p := genTree(c)
			checkTree(p, nil)
			if it < 3 {
				c.Sample(map[string]string{"packages": p.String()})
			}
			g := &impGen{c: c}
			checkImp(g.gen(0))
		}
	})
}
