package main

import (
	"errors"
	"fmt"
	"io"
	"io/fs"
	"math/rand"
	"sort"
	"strings"
	"testing/fstest"
	. "verif/harness/hlib"

	"github.com/open2b/scriggo"
)

// ---- file maps

type fkv struct {
	name string
	data string
}

func encFiles(m []fkv) []byte {
	w := &wbuf{}
	w.u8(len(m))
	for _, e := range m {
		w.str(e.name)
		w.str(e.data)
	}
	return w.b
}

func decFiles(b []byte) ([]fkv, bool) {
	r := &rbuf{b: b}
	n := r.u8()
	var m []fkv
	for i := 0; i < n && !r.bad; i++ {
		m = append(m, fkv{r.str(), r.str()})
	}
	return m, !r.bad && len(r.b) == 0
}

func buildFiles(m []fkv) scriggo.Files {
	f := scriggo.Files{}
	for _, e := range m {
		f[e.name] = []byte(e.data)
	}
	return f
}

var c23Elems = []string{"a", "b", "c", "d", "ab", "x.go", "é", "..a", "a.", "a b", "-", "*", "ж", "index.html", "A", "...", "_", "[", "z"}

// randElem returns a path element; exotic allows the glob metacharacters * and [ (fs.Sub of a
// directory so named breaks Glob on every file system, so fstest.TestFS cannot be used on them)
func randElem(r *rand.Rand, exotic bool) string {
	for {
		e := c23Elems[r.Intn(5)]
		if r.Intn(3) == 0 {
			e = c23Elems[r.Intn(len(c23Elems))]
		}
		if exotic || !strings.ContainsAny(e, "*[") {
			return e
		}
	}
}

func randData(r *rand.Rand) string {
	switch r.Intn(8) {
	case 0, 1:
		return ""
	case 2:
		b := make([]byte, r.Intn(256))
		r.Read(b)
		return string(b)
	}
	b := make([]byte, 1+r.Intn(24))
	for i := range b {
		b[i] = byte(32 + r.Intn(95))
	}
	return string(b)
}

// conflict reports whether a and b cannot both be files of one tree
func conflict(a, b string) bool {
	return a == b || strings.HasPrefix(a, b+"/") || strings.HasPrefix(b, a+"/")
}

// genValidFiles returns a random valid, non-conflicting map (sorted by name)
func genValidFiles(r *rand.Rand, backslash bool) []fkv { // backslash: exotic names (backslash, glob metacharacters)
	var m []fkv
	n := r.Intn(11)
	if r.Intn(10) == 0 {
		n = 0
	}
	for i := 0; i < n; i++ {
		depth := 1 + r.Intn(4)
		parts := make([]string, depth)
		for j := range parts {
			parts[j] = randElem(r, backslash)
			if backslash && r.Intn(20) == 0 {
				parts[j] += `\x`
			}
		}
		// often share a directory with an earlier name
		name := strings.Join(parts, "/")
		if len(m) > 0 && r.Intn(2) == 0 {
			o := m[r.Intn(len(m))].name
			if k := strings.LastIndexByte(o, '/'); k >= 0 && r.Intn(3) > 0 {
				name = o[:k+1] + randElem(r, backslash)
			} else {
				name = o + "x/" + randElem(r, backslash)
				if r.Intn(2) == 0 {
					name = randElem(r, backslash)
				}
			}
		}
		ok := fs.ValidPath(name) && name != "." && len(name) < 200
		for _, e := range m {
			if conflict(e.name, name) {
				ok = false
			}
		}
		if ok {
			m = append(m, fkv{name, randData(r)})
		}
	}
	sort.Slice(m, func(i, j int) bool { return m[i].name < m[j].name })
	return m
}

var c23BadKeys = []string{".", "", "a//b", "/a", "a/", "a/./b", "../x", "a/..", "\xff", "a/\xc3", "b/", "/", "a/b/"}

// genAnyFiles: mostly valid maps; some with invalid keys or names that are both file and directory
func genAnyFiles(r *rand.Rand) []fkv {
	m := genValidFiles(r, true)
	if r.Intn(5) > 0 {
		return m
	}
	for i := 1 + r.Intn(3); i > 0; i-- {
		var name string
		switch {
		case len(m) > 0 && r.Intn(2) == 0:
			o := m[r.Intn(len(m))].name
			if k := strings.IndexByte(o, '/'); k >= 0 {
				name = o[:k] // a directory that is also a file
			} else {
				name = o + "/" + randElem(r, true)
			}
		default:
			name = c23BadKeys[r.Intn(len(c23BadKeys))]
		}
		dup := false
		for _, e := range m {
			if e.name == name {
				dup = true
			}
		}
		if !dup {
			m = append(m, fkv{name, randData(r)})
		}
	}
	sort.Slice(m, func(i, j int) bool { return m[i].name < m[j].name })
	return m
}

// impliedDirs returns the directories of a valid map (without ".")
func impliedDirs(m []fkv) []string {
	seen := map[string]bool{}
	var dirs []string
	for _, e := range m {
		parts := strings.Split(e.name, "/")
		for i := 1; i < len(parts); i++ {
			d := strings.Join(parts[:i], "/")
			if !seen[d] {
				seen[d] = true
				dirs = append(dirs, d)
			}
		}
	}
	sort.Strings(dirs)
	return dirs
}

// ---- operation histories

type fop struct {
	kind int // 1 open, 2 stat, 3 read, 4 readdir, 5 close
	name string
	h    int
	arg  int
}

func encOps(ops []fop) []byte {
	w := &wbuf{}
	w.u8(len(ops))
	for _, o := range ops {
		w.u8(o.kind)
		switch o.kind {
		case 1:
			w.str(o.name)
		case 2, 5:
			w.u8(o.h)
		case 3:
			w.u8(o.h)
			w.u8(o.arg)
		case 4:
			w.u8(o.h)
			w.u8(o.arg + 128)
		}
	}
	return w.b
}

func decOps(b []byte) ([]fop, bool) {
	r := &rbuf{b: b}
	n := r.u8()
	var ops []fop
	for i := 0; i < n && !r.bad; i++ {
		o := fop{kind: r.u8()}
		switch o.kind {
		case 1:
			o.name = r.str()
		case 2, 5:
			o.h = r.u8()
		case 3:
			o.h = r.u8()
			o.arg = r.u8()
		case 4:
			o.h = r.u8()
			o.arg = r.u8() - 128
		default:
			r.bad = true
		}
		ops = append(ops, o)
	}
	return ops, !r.bad && len(r.b) == 0
}

var c23BadNames = []string{"", "/", "a/", "./a", "/a", "a//b", "..", "a/../a", "a/.", "\xff", "a/\xc3\x28", "nope", "a/nope", "é/", "\xed\xa0\x80", "\xf4\x90\x80\x80", "\xc0\xaf", "\xe0\x80\xaf", "a\x00"}

func randOpenName(r *rand.Rand, m []fkv, dirs []string) string {
	switch k := r.Intn(10); {
	case k < 4 && len(m) > 0:
		return m[r.Intn(len(m))].name
	case k < 7 && len(dirs) > 0:
		return dirs[r.Intn(len(dirs))]
	case k < 8:
		return "."
	case k < 9 && len(m) > 0:
		// a variation of an existing name
		o := m[r.Intn(len(m))].name
		switch r.Intn(5) {
		case 0:
			return o + "/"
		case 1:
			return "./" + o
		case 2:
			return o + "/x"
		case 3:
			return strings.Replace(o, "/", "//", 1)
		}
		if len(o) > 1 {
			return o[:len(o)-1]
		}
		return o + "x"
	}
	return c23BadNames[r.Intn(len(c23BadNames))]
}

var c23ReadSizes = []int{0, 1, 1, 2, 3, 7, 16, 64, 255}
var c23ReadDirNs = []int{-1, -1, 0, 1, 1, 2, 3, 5, 100, -128, 127}

func genOps(r *rand.Rand, m []fkv) []fop {
	dirs := impliedDirs(m)
	var ops []fop
	handles := 0
	n := 4 + r.Intn(36)
	for i := 0; i < n; i++ {
		k := r.Intn(10)
		if handles == 0 || k < 2 {
			nm := randOpenName(r, m, dirs)
			ops = append(ops, fop{kind: 1, name: nm})
			if _, err := buildFiles(m).Open(nm); err == nil {
				handles++
			}
			continue
		}
		h := r.Intn(handles)
		if r.Intn(3) > 0 {
			h = handles - 1 // mostly work on the latest handle
		}
		if r.Intn(60) == 0 {
			h = handles + r.Intn(3) // no such handle
		}
		switch {
		case k < 3:
			ops = append(ops, fop{kind: 2, h: h})
		case k < 6:
			ops = append(ops, fop{kind: 3, h: h, arg: c23ReadSizes[r.Intn(len(c23ReadSizes))]})
		case k < 9:
			ops = append(ops, fop{kind: 4, h: h, arg: c23ReadDirNs[r.Intn(len(c23ReadDirNs))]})
		default:
			ops = append(ops, fop{kind: 5, h: h})
		}
	}
	return ops
}

func encInfo(w *wbuf, i fs.FileInfo) {
	w.str(i.Name())
	sz := i.Size()
	if sz < 0 || sz > 255 {
		sz = 255
	}
	w.u8(int(sz))
	encU32(w, uint32(i.Mode()))
	encBool(w, i.IsDir())
}
func encU32(w *wbuf, x uint32) { w.b = append(w.b, byte(x>>24), byte(x>>16), byte(x>>8), byte(x)) }
func encBool(w *wbuf, b bool) {
	if b {
		w.u8(1)
	} else {
		w.u8(0)
	}
}

// runOps executes the history on the real Files value and encodes the observations
func runOps(fsys scriggo.Files, ops []fop) (res string) {
	defer func() {
		if r := recover(); r != nil {
			res = "panic"
		}
	}()
	w := &wbuf{}
	var hs []fs.File
	for _, o := range ops {
		if o.kind != 1 && o.h >= len(hs) {
			w.u8(255)
			continue
		}
		switch o.kind {
		case 1:
			f, err := fsys.Open(o.name)
			if err != nil {
				var pe *fs.PathError
				if errors.As(err, &pe) && pe.Op == "open" && pe.Path == o.name && pe.Err == fs.ErrNotExist {
					w.u8(0)
				} else {
					w.u8(254) // an error other than the documented one
				}
				continue
			}
			hs = append(hs, f)
			_, isDir := f.(fs.ReadDirFile)
			w.u8(1)
			encBool(w, isDir)
		case 2:
			i, err := hs[o.h].Stat()
			if err != nil {
				w.u8(254)
				continue
			}
			w.u8(2)
			encInfo(w, i)
		case 3:
			buf := make([]byte, o.arg)
			n, err := hs[o.h].Read(buf)
			w.u8(3)
			w.str(string(buf[:n]))
			var pe *fs.PathError
			switch {
			case err == nil:
				w.u8(0)
			case err == io.EOF:
				w.u8(1)
			case errors.As(err, &pe) && pe.Op == "read" && pe.Err == fs.ErrInvalid:
				w.u8(2)
			default:
				w.u8(254)
			}
		case 4:
			d, ok := hs[o.h].(fs.ReadDirFile)
			if !ok {
				w.u8(9)
				continue
			}
			l, err := d.ReadDir(o.arg)
			w.u8(4)
			w.u8(len(l))
			for _, e := range l {
				w.str(e.Name())
				encBool(w, e.IsDir())
				encU32(w, uint32(e.Type()))
				i, ierr := e.Info()
				if ierr != nil {
					w.u8(254)
					continue
				}
				encInfo(w, i)
			}
			switch err {
			case nil:
				w.u8(0)
			case io.EOF:
				w.u8(1)
			default:
				w.u8(254)
			}
		case 5:
			if err := hs[o.h].Close(); err != nil {
				w.u8(254)
				continue
			}
			w.u8(5)
		}
	}
	return "ok:" + Hxb(w.b)
}

func descFiles(m []fkv) string {
	s := "Files{"
	for i, e := range m {
		if i > 0 {
			s += ", "
		}
		s += fmt.Sprintf("%q: %d bytes", e.name, len(e.data))
	}
	return s + "}"
}

// ---- reference (independent oracle for the sweep): children of a directory from the keys

type refEntry struct {
	name  string
	isDir bool
	size  int
}

func refChildren(m []fkv, dir string) []refEntry {
	seen := map[string]*refEntry{}
	for _, e := range m {
		rest := e.name
		if dir != "." {
			if !strings.HasPrefix(e.name, dir+"/") {
				continue
			}
			rest = e.name[len(dir)+1:]
		}
		parts := strings.SplitN(rest, "/", 2)
		if len(parts) == 2 {
			seen[parts[0]] = &refEntry{parts[0], true, 0}
		} else {
			seen[parts[0]] = &refEntry{parts[0], false, len(e.data)}
		}
	}
	var l []refEntry
	for _, e := range seen {
		l = append(l, *e)
	}
	sort.Slice(l, func(i, j int) bool { return l[i].name < l[j].name })
	return l
}

func checkEntries(got []fs.DirEntry, want []refEntry) string {
	if len(got) != len(want) {
		return fmt.Sprintf("%d entries, want %d", len(got), len(want))
	}
	for i, e := range got {
		w := want[i]
		if e.Name() != w.name {
			return fmt.Sprintf("entry %d is %q, want %q", i, e.Name(), w.name)
		}
		if e.IsDir() != w.isDir {
			return fmt.Sprintf("entry %q: IsDir = %v", w.name, e.IsDir())
		}
		wt := fs.FileMode(0)
		if w.isDir {
			wt = fs.ModeDir
		}
		if e.Type() != wt {
			return fmt.Sprintf("entry %q: Type = %v, want %v", w.name, e.Type(), wt)
		}
		info, err := e.Info()
		if err != nil {
			return fmt.Sprintf("entry %q: Info: %v", w.name, err)
		}
		if info.Name() != w.name || info.IsDir() != w.isDir || info.Mode().Type() != wt || (!w.isDir && info.Size() != int64(w.size)) {
			return fmt.Sprintf("entry %q: Info = {%q %d %v}, want {%q %d %v}", w.name, info.Name(), info.Size(), info.Mode(), w.name, w.size, wt)
		}
	}
	return ""
}

func joinDir(dir, name string) string {
	if dir == "." {
		return name
	}
	return dir + "/" + name
}

// sweepFiles evaluates the io/fs contract on one valid map; returns signature and reason of the first failure
func sweepFiles(c *Ctx, m []fkv, useFstest bool) (string, string) {
	fsys := buildFiles(m)
	dirs := append([]string{"."}, impliedDirs(m)...)
	r := c.Rng
	// 1. testing/fstest with the complete list of expected names
	if useFstest {
		var expected []string
		for _, e := range m {
			expected = append(expected, e.name)
		}
		expected = append(expected, dirs[1:]...)
		if err := fstest.TestFS(fsys, expected...); err != nil {
			return "fstest", err.Error()
		}
	}
	// 2. every directory: complete listing, paging, listing at the end
	for _, dir := range dirs {
		want := refChildren(m, dir)
		f, err := fsys.Open(dir)
		if err != nil {
			return "open-dir", fmt.Sprintf("Open(%q): %v", dir, err)
		}
		d, ok := f.(fs.ReadDirFile)
		if !ok {
			return "open-dir", fmt.Sprintf("Open(%q) is not a ReadDirFile", dir)
		}
		st, err := f.Stat()
		wantName := dir[strings.LastIndexByte(dir, '/')+1:]
		if err != nil || !st.IsDir() || st.Mode().Type() != fs.ModeDir || st.Name() != wantName {
			return "stat-dir", fmt.Sprintf("Stat of directory %q: %v %v", dir, st, err)
		}
		all, err := d.ReadDir(-1)
		if err != nil {
			return "readdir-all", fmt.Sprintf("%q: ReadDir(-1): %v", dir, err)
		}
		if why := checkEntries(all, want); why != "" {
			return "readdir-all", fmt.Sprintf("%q: ReadDir(-1): %s", dir, why)
		}
		for _, e := range all {
			p := joinDir(dir, e.Name())
			info, err := fs.Stat(fsys, p)
			ei, _ := e.Info()
			if err != nil || info.Name() != ei.Name() || info.Size() != ei.Size() || info.Mode() != ei.Mode() || info.IsDir() != ei.IsDir() {
				return "entry-vs-stat", fmt.Sprintf("%q: entry info %v differs from Stat %v (%v)", p, ei, info, err)
			}
		}
		if l, err := d.ReadDir(0); len(l) != 0 || err != nil {
			return "readdir-at-end", fmt.Sprintf("%q: ReadDir(0) after a complete read: %d entries, %v", dir, len(l), err)
		}
		if l, err := d.ReadDir(2); len(l) != 0 || err != io.EOF {
			return "readdir-at-end", fmt.Sprintf("%q: ReadDir(2) after a complete read: %d entries, %v", dir, len(l), err)
		}
		// paging with random sizes on a new handle
		f2, _ := fsys.Open(dir)
		d2 := f2.(fs.ReadDirFile)
		pos := 0
		for step := 0; step < 2*len(want)+4; step++ {
			n := c23ReadDirNs[r.Intn(len(c23ReadDirNs))]
			l, err := d2.ReadDir(n)
			rem := len(want) - pos
			wl, werr := rem, error(nil)
			if n > 0 {
				if rem == 0 {
					werr = io.EOF
				} else if n < rem {
					wl = n
				}
			}
			if len(l) != wl || err != werr {
				return "readdir-paging", fmt.Sprintf("%q: ReadDir(%d) at position %d of %d: %d entries, %v; want %d entries, %v", dir, n, pos, len(want), len(l), err, wl, werr)
			}
			if why := checkEntries(l, want[pos:pos+wl]); why != "" {
				return "readdir-paging", fmt.Sprintf("%q: ReadDir(%d) at position %d: %s", dir, n, pos, why)
			}
			pos += wl
		}
		f.Close()
		f2.Close()
		c.Count("dirs")
	}
	// 3. every file: content by pieces, EOF, Stat, Close
	for _, e := range m {
		f, err := fsys.Open(e.name)
		if err != nil {
			return "open-file", fmt.Sprintf("Open(%q): %v", e.name, err)
		}
		if _, ok := f.(fs.ReadDirFile); ok {
			// permitted by io/fs only if ReadDir fails
		}
		st, err := f.Stat()
		base := e.name[strings.LastIndexByte(e.name, '/')+1:]
		if err != nil || st.IsDir() || st.Name() != base || st.Size() != int64(len(e.data)) || !st.Mode().IsRegular() {
			return "stat-file", fmt.Sprintf("Stat of %q: %v %v", e.name, st, err)
		}
		var got []byte
		for step := 0; ; step++ {
			k := c23ReadSizes[r.Intn(len(c23ReadSizes))]
			buf := make([]byte, k)
			n, err := f.Read(buf)
			rem := len(e.data) - len(got)
			if rem == 0 {
				if n != 0 || err != io.EOF {
					return "read-at-eof", fmt.Sprintf("%q: Read at the end: %d, %v", e.name, n, err)
				}
				if step > len(e.data)+3 || r.Intn(2) == 0 {
					break
				}
				continue
			}
			wn := k
			if rem < k {
				wn = rem
			}
			if n != wn || err != nil {
				return "read-chunk", fmt.Sprintf("%q: Read(%d bytes) with %d remaining: %d, %v", e.name, k, rem, n, err)
			}
			got = append(got, buf[:n]...)
			if step > 600 {
				return "read-chunk", fmt.Sprintf("%q: no progress", e.name)
			}
		}
		if string(got) != e.data {
			return "read-content", fmt.Sprintf("%q: reads give %q, want %q", e.name, got, e.data)
		}
		if err := f.Close(); err != nil {
			return "close", fmt.Sprintf("%q: Close: %v", e.name, err)
		}
		if n, err := f.Read(make([]byte, 4)); n != 0 || err == nil || err == io.EOF {
			return "read-after-close", fmt.Sprintf("%q: Read after Close: %d, %v", e.name, n, err)
		}
		if b, err := fs.ReadFile(fsys, e.name); err != nil || string(b) != e.data {
			return "readfile", fmt.Sprintf("fs.ReadFile(%q): %q, %v", e.name, b, err)
		}
		c.Count("files")
	}
	// 4. fs.WalkDir visits exactly the files and directories, in lexical order of each directory
	var walked []string
	err := fs.WalkDir(fsys, ".", func(p string, d fs.DirEntry, err error) error {
		if err != nil {
			return err
		}
		walked = append(walked, p)
		return nil
	})
	if err != nil {
		return "walkdir", err.Error()
	}
	var wantWalk []string
	var rec func(dir string)
	rec = func(dir string) {
		wantWalk = append(wantWalk, dir)
		for _, e := range refChildren(m, dir) {
			if e.isDir {
				rec(joinDir(dir, e.name))
			} else {
				wantWalk = append(wantWalk, joinDir(dir, e.name))
			}
		}
	}
	rec(".")
	if strings.Join(walked, "\x00") != strings.Join(wantWalk, "\x00") {
		return "walkdir", fmt.Sprintf("WalkDir visited %q, want %q", walked, wantWalk)
	}
	// 5. fs.Glob("*") and "*/*" agree with the reference
	for _, pat := range []string{"*", "*/*"} {
		got, err := fs.Glob(fsys, pat)
		if err != nil {
			return "glob", err.Error()
		}
		var want []string
		for _, e := range refChildren(m, ".") {
			if pat == "*" {
				want = append(want, e.name)
			} else if e.isDir {
				for _, e2 := range refChildren(m, e.name) {
					want = append(want, e.name+"/"+e2.name)
				}
			}
		}
		sort.Strings(got)
		sort.Strings(want)
		if strings.Join(got, "\x00") != strings.Join(want, "\x00") {
			return "glob", fmt.Sprintf("Glob(%q) = %q, want %q", pat, got, want)
		}
	}
	// 6. names that must not open
	for _, bad := range c23BadNames {
		if bad == "nope" || bad == "a/nope" {
			continue
		}
		if fs.ValidPath(bad) {
			continue
		}
		f, err := fsys.Open(bad)
		if err == nil {
			f.Close()
			return "open-invalid-name", fmt.Sprintf("Open(%q) succeeded", bad)
		}
		if !errors.Is(err, fs.ErrNotExist) && !errors.Is(err, fs.ErrInvalid) {
			return "open-invalid-name", fmt.Sprintf("Open(%q): %v", bad, err)
		}
	}
	// 7. names that are neither a file nor a directory do not open: every proper prefix and
	// extension of a key that the reference does not know
	known := map[string]bool{".": true}
	for _, e := range m {
		known[e.name] = true
	}
	for _, d := range dirs {
		known[d] = true
	}
	for _, e := range m {
		cands := []string{e.name + "x", e.name + "/x", "x" + e.name, "x/" + e.name}
		for i := 1; i < len(e.name); i++ {
			cands = append(cands, e.name[:i], e.name[i:])
		}
		for _, cand := range cands {
			if known[cand] {
				continue
			}
			f, err := fsys.Open(cand)
			if err == nil {
				f.Close()
				return "open-absent-name", fmt.Sprintf("Open(%q) succeeded, there is no such file or directory", cand)
			}
			if !errors.Is(err, fs.ErrNotExist) && !errors.Is(err, fs.ErrInvalid) {
				return "open-absent-name", fmt.Sprintf("Open(%q): %v", cand, err)
			}
		}
	}
	for _, e := range m {
		for _, bad := range []string{e.name + "/", "./" + e.name, "/" + e.name, e.name + "/x"} {
			f, err := fsys.Open(bad)
			if err == nil {
				f.Close()
				return "open-invalid-name", fmt.Sprintf("Open(%q) succeeded", bad)
			}
			var pe *fs.PathError
			if !errors.As(err, &pe) || (!errors.Is(err, fs.ErrNotExist) && !errors.Is(err, fs.ErrInvalid)) {
				return "open-invalid-name", fmt.Sprintf("Open(%q): %v", bad, err)
			}
		}
	}
	return "", ""
}

func init() {
	// correspondence: random maps and random operation histories on the real Files vs the extracted model
	Register("C23-cases", func(c *Ctx) {
		for it := 0; it < c.N; it++ {
			m := genAnyFiles(c.Rng)
			fsys := buildFiles(m)
			// the map is given to the model in a random order: the results must not depend on it
			mm := append([]fkv(nil), m...)
			c.Rng.Shuffle(len(mm), func(i, j int) { mm[i], mm[j] = mm[j], mm[i] })
			fb := Hxb(encFiles(mm))
			for j := 0; j < 3; j++ {
				ops := genOps(c.Rng, m)
				c.Line("C23.history", fb, Hxb(encOps(ops)), runOps(fsys, ops))
				c.Count("histories")
				c.Add("operations", len(ops))
			}
			// the validity predicate of the model against the generator's notion
			valid := true
			for i, e := range m {
				if !fs.ValidPath(e.name) || e.name == "." {
					valid = false
				}
				for k, e2 := range m {
					if i != k && conflict(e.name, e2.name) {
						valid = false
					}
				}
			}
			v := "ok:00"
			if valid {
				v = "ok:01"
				c.Count("valid-maps")
			} else {
				c.Count("invalid-maps")
			}
			c.Line("C23.valid", fb, "", v)
		}
	})

	// sweep: testing/fstest.TestFS and the io/fs contract against a reference computed from the keys
	Register("C23-sweep", func(c *Ctx) {
		run := func(m []fkv, useFstest bool) {
			c.Count("evaluations")
			var sig, why string
			msg := PanicText(func() { sig, why = sweepFiles(c, m, useFstest) })
			if msg != "" {
				sig, why = "panic", msg
			}
			if sig != "" {
				c.Fail(sig, map[string]any{"files": Hxb(encFiles(m)), "map": descFiles(m), "fstest": useFstest, "why": why})
				return
			}
			if len(impliedDirs(m)) > 0 {
				c.Count("nontrivial")
			}
		}
		if in := c.ReplayInput(); in != nil {
			if b, ok := replayHex(in, "files"); ok {
				if m, ok := decFiles(b); ok {
					ft, _ := in["fstest"].(bool)
					run(m, ft)
				}
			}
			return
		}
		for it := 0; it < c.N; it++ {
			// fstest rejects names with a backslash on every file system; those maps get the other checks only
			bs := it%4 == 3
			m := genValidFiles(c.Rng, bs)
			run(m, !bs)
			if it < 3 {
				c.Sample(map[string]string{"map": descFiles(m)})
			}
		}
	})
}
