// Harness of engine `esc` (C07 round trips, C06 layer A confinement): the
// context escapers of internal/runtime/escapers.go through verifhook.Escape,
// and real templates through scriggo.BuildTemplate / Template.Run.
package main

import (
	"strings"
	. "verif/harness/hlib"

	"github.com/open2b/scriggo/verifhook"
)

type escaper struct {
	fn   string // name in the line protocol (NAME or NAME.FLAGS)
	name string // name for verifhook.Escape
	a, b bool
	// bytes over which short strings are enumerated exhaustively
	alpha []byte
}

var escapers = []escaper{
	{"htmlEscape", "htmlEscape", false, false, []byte{'<', '>', '&', '"', '\'', 'a', 0xC3}},
	{"htmlNoEntitiesEscape", "htmlNoEntitiesEscape", false, false, []byte{'<', '>', '&', '"', '\'', 'a', ';'}},
	{"attributeEscape.tt", "attributeEscape", true, true, []byte{'<', '&', '"', '\'', ' ', 'a', '='}},
	{"attributeEscape.tf", "attributeEscape", true, false, []byte{'<', '&', '"', ' ', '\t', 'a', '=', '`'}},
	{"attributeEscape.ft", "attributeEscape", false, true, []byte{'>', '&', '"', '\'', ' ', 'a', ';'}},
	{"attributeEscape.ff", "attributeEscape", false, false, []byte{'>', '&', '\'', ' ', '\n', 'a', '='}},
	{"cssStringEscape", "cssStringEscape", false, false, []byte{'<', '\\', '"', 'c', 'g', ' ', '\n', 0}},
	{"jsStringEscape", "jsStringEscape", false, false, []byte{'<', '\\', '"', 'a', 0xE2, 0x80, 0xA8, 0xA9}},
	{"jsonStringEscape", "jsonStringEscape", false, false, []byte{'&', '\\', '\'', '\n', 0xE2, 0x80, 0xA9, 0xC3}},
	{"queryEscape", "queryEscape", false, false, []byte{'a', '-', '~', '%', ' ', '+', '&', 0xFF}},
	{"pathEscape.t", "pathEscape", true, false, []byte{'a', '%', '4', 'g', ' ', '+', '&', '"'}},
	{"pathEscape.f", "pathEscape", false, false, []byte{'a', '%', 'F', 'z', ' ', '+', '/', '\''}},
}

// run calls the escaper and returns the chunks (one per Write/WriteString),
// the count it returned and the text of a panic, if any.
func (e escaper) run(s string) (chunks []string, n int, panicked string) {
	panicked = PanicText(func() {
		rec := &verifhook.Recorder{}
		var err error
		n, err = verifhook.Escape(e.name, rec, s, e.a, e.b)
		if err != nil {
			panic("escaper returned an error with a writer that never fails: " + err.Error())
		}
		chunks = rec.Chunks
	})
	return
}

func chunksField(chunks []string) string {
	parts := make([]string, len(chunks))
	for i, c := range chunks {
		if c == "" {
			parts[i] = "-"
		} else {
			parts[i] = Hx(c)
		}
	}
	return "ok:" + strings.Join(parts, ".")
}

// encChunks is the injective byte encoding of a chunk list used by the in-Coq
// cross-check (EscapersM.enc_chunks): byte b -> 1 b, end of chunk -> 0.
func encChunks(chunks []string) string {
	var b []byte
	for _, c := range chunks {
		for i := 0; i < len(c); i++ {
			b = append(b, 1, c[i])
		}
		b = append(b, 0)
	}
	return "ok:" + Hxb(b)
}

func replayString(c *Ctx, key string) (string, bool) {
	in := c.ReplayInput()
	if in == nil {
		return "", false
	}
	if h, ok := in[key].(string); ok {
		return Unhx(h), true
	}
	return "", false
}

// inputs calls f on the inputs of one escaper: exhaustive short strings over its
// alphabet, the escape dictionary x every following byte, seeded random strings
// (valid and invalid UTF-8).
func inputs(c *Ctx, e escaper, nRandom int, f func(s string)) {
	maxLen := 4
	if c.Thorough() {
		maxLen = 5
	}
	EnumStrings(e.alpha, maxLen, f)
	DictTimesSuccessors(f)
	for _, s := range extraStrings {
		f(s)
	}
	for i := 0; i < nRandom; i++ {
		f(RandString(c.Rng, 30))
	}
}

// strings around the three-byte encodings of U+2028 / U+2029 and other rune boundaries
var extraStrings = []string{
	"<c",
	" ", " ", "a b", "  ", "\xe2\x80", "\xe2\x80\xa7", "\xe2\x80\xaa", "\xe2\xe2\x80\xa8", "\xe2\x80\xe2\x80\xa8",
	"\xf0\xe2\x80\xa8", "\xe2\x80\xa8\xa8", "\xe2", "\x80\xa8", "\xef\xbf\xbd", "\xed\xa0\x80", "\xf4\x90\x80\x80", "\xf0\x9f\x98\x80<",
	"<g", "\\c", "\\\\", "<\n", "<\\", "\x00c", "%41", "%4", "%", "%%41", "%zz", "a%41%4g%", "&amp;", "&&", "a onclick=x",
}

func main() { Main() }

func init() {
	// correspondence: every escaper's chunk list vs the extracted model
	Register("C07-cases", func(c *Ctx) {
		if s, ok := replayString(c, "in"); ok {
			for _, e := range escapers {
				chunks, _, p := e.run(s)
				if p != "" {
					c.Line(e.fn, Hx(s), "panic")
				} else {
					c.Line(e.fn, Hx(s), chunksField(chunks))
				}
			}
			return
		}
		per := c.N / len(escapers)
		for _, e := range escapers {
			k := 0
			inputs(c, e, per, func(s string) {
				chunks, _, p := e.run(s)
				c.Count("cases")
				c.Count("cases:" + e.fn)
				if p != "" {
					c.Line(e.fn, Hx(s), "panic")
					return
				}
				c.Line(e.fn, Hx(s), chunksField(chunks))
				// a sample in the byte encoding, for the in-Coq evaluation
				k++
				if k%97 == 0 && len(s) <= 24 {
					c.Line(e.fn+"#enc", Hx(s), encChunks(chunks))
				}
			})
		}
	})
	registerDecoders()
	registerSweep()
	registerC06()
}
