package main

func registerC06() {}
