package main

// C06 layer (A): escaper confinement.
//
// C06-cases (correspondence): the Coq reference scanners (model/RefScanners.v)
// against real tokenizers/parsers: wherever the real one sees the text leave
// its slot, the scanner must answer false; on what the escapers really write
// it must answer true.
//
// C06-sweep: real templates rendered with hostile values; the rendered
// document is tokenised with golang.org/x/net/html (script bodies are parsed
// and run by node, JSON by encoding/json, CSS strings by a tokenizer written
// from css-syntax-3) and its structure compared with the same template showing
// a benign value.

import (
	"bufio"
	"bytes"
	"encoding/json"
	"fmt"
	"net/url"
	"os/exec"
	"strings"
	"unicode/utf8"
	. "verif/harness/hlib"

	"github.com/open2b/scriggo"
	"github.com/open2b/scriggo/native"
	"golang.org/x/net/html"
)

// ---- structure of an HTML document under the x/net/html tokenizer

type htok struct {
	typ   html.TokenType
	name  string
	attrs []html.Attribute
	data  string
}

func tokenize(doc string) []htok {
	z := html.NewTokenizer(strings.NewReader(doc))
	var out []htok
	for {
		tt := z.Next()
		if tt == html.ErrorToken {
			return out
		}
		t := z.Token()
		if tt == html.TextToken && len(out) > 0 && out[len(out)-1].typ == html.TextToken {
			out[len(out)-1].data += t.Data
			continue
		}
		out = append(out, htok{tt, t.Data, t.Attr, t.Data})
	}
}

// structure lists token kinds, tag names and attribute keys; the values of the
// attributes other than `slotAttr` are part of it.
func structure(toks []htok, slotAttr string) string {
	var b strings.Builder
	for _, t := range toks {
		switch t.typ {
		case html.TextToken:
			// text is not structure (an empty value leaves no text token at all)
		case html.StartTagToken, html.SelfClosingTagToken:
			fmt.Fprintf(&b, "S:%s[", t.name)
			for _, a := range t.attrs {
				if a.Key == slotAttr {
					fmt.Fprintf(&b, "%s,", a.Key)
				} else {
					fmt.Fprintf(&b, "%s=%q,", a.Key, a.Val)
				}
			}
			b.WriteString("];")
		case html.EndTagToken:
			fmt.Fprintf(&b, "E:%s;", t.name)
		case html.CommentToken:
			b.WriteString("C;")
		case html.DoctypeToken:
			b.WriteString("D;")
		}
	}
	return b.String()
}

func textOf(toks []htok, tag string) (string, bool) {
	for i, t := range toks {
		if t.typ == html.StartTagToken && t.name == tag {
			if i+1 < len(toks) && toks[i+1].typ == html.TextToken {
				return toks[i+1].data, true
			}
			return "", true
		}
	}
	return "", false
}

func attrOf(toks []htok, tag, key string) (string, bool) {
	for _, t := range toks {
		if t.typ == html.StartTagToken && t.name == tag {
			for _, a := range t.attrs {
				if a.Key == key {
					return a.Val, true
				}
			}
		}
	}
	return "", false
}

// ---- CSS string token (css-syntax-3 4.3.5) from just after the opening quote.
// It returns the index in s where the token ends (the closing quote or the
// newline of a bad string), len(s) if it runs to the end, and whether the last
// byte of s is consumed as part of an escape that a following byte could extend
// or that swallows the following byte.
func cssStringEnd(s string, quote byte) (end int, bad bool, openEscape bool) {
	s = cssPreprocess(s)
	for i := 0; i < len(s); {
		c := s[i]
		switch {
		case c == quote:
			return i, false, false
		case c == '\n':
			return i, true, false
		case c == '\\':
			i++
			if i == len(s) {
				return len(s), false, true // the next byte (the closing quote) would be escaped
			}
			if s[i] == '\n' {
				i++
				continue
			}
			if !cssIsHex(s[i]) {
				i++
				continue
			}
			n := 0
			for n < 6 && i < len(s) && cssIsHex(s[i]) {
				i++
				n++
			}
			if i == len(s) {
				return len(s), false, true // a following hex digit or space would join the escape
			}
			if s[i] == '\n' || s[i] == '\t' || s[i] == ' ' {
				i++
			}
		default:
			i++
		}
	}
	return len(s), false, false
}

// ---- node: parse and run scripts, one per line

type nodeResult struct {
	OK  bool    `json:"ok"`
	Val *string `json:"val"`
	Err string  `json:"err"`
}

// Each script is compiled and run as the body of a fresh function (its `var x`
// is local to it); x is returned when it is a string.
const nodeProgram = `
const rl = require('readline').createInterface({input: process.stdin, terminal: false});
rl.on('line', (line) => {
  let out;
  try {
    const src = JSON.parse(line);
    const f = new Function(src + "\n;return typeof x === 'string' ? x : null;");
    out = {ok: true, val: f()};
  } catch (e) { out = {ok: false, val: null, err: String(e).slice(0, 80)}; }
  process.stdout.write(JSON.stringify(out) + "\n");
});
`

// runNode returns one result per script, or nil when node is not available.
func runNode(scripts []string) []nodeResult {
	if len(scripts) == 0 {
		return []nodeResult{}
	}
	path, err := exec.LookPath("node")
	if err != nil {
		return nil
	}
	var in bytes.Buffer
	for _, s := range scripts {
		b, _ := json.Marshal(s)
		in.Write(b)
		in.WriteByte('\n')
	}
	cmd := exec.Command(path, "-e", nodeProgram)
	cmd.Stdin = &in
	outb, err := cmd.Output()
	if err != nil {
		return nil
	}
	var res []nodeResult
	sc := bufio.NewScanner(bytes.NewReader(outb))
	sc.Buffer(make([]byte, 1<<20), 1<<24)
	for sc.Scan() {
		var r nodeResult
		if json.Unmarshal(sc.Bytes(), &r) != nil {
			return nil
		}
		res = append(res, r)
	}
	if len(res) != len(scripts) {
		return nil
	}
	return res
}

// ---- hostile values

var hostile = []string{
	"", "a", "a b", " ", "\t", "\n", "\r", "\r\n", "\f", "<", ">", "&", "\"", "'", "`", "=", "/", "\\", "\\\\", "\\\"", "\\'",
	"\"><script>alert(1)</script>", "'><img src=x onerror=alert(1)>", "</script>", "</SCRIPT >", "</style>", "</STYLE\n>", "<!--", "-->", "<!--<script>", "]]>", "<![CDATA[",
	"\" onclick=\"alert(1)", "' onclick='alert(1)", " onclick=alert(1) ", "a onclick=x", "x/", "x>", ">x", "=x", "a=b", "&amp;", "&quot;", "&#34;", "&#39;", "&lt;script&gt;", "&", "&a", "&am", "&amp", "&#", "&#x", "&#3", "&#34",
	"\";alert(1);//", "';alert(1);//", "\\\";alert(1);//", "\n;alert(1)", "\u2028alert(1)", "\u2029", "\xe2\x80", "\xe2\x80\xa8", "${alert(1)}", "`", "*/alert(1)/*", "//", "\\u0022", "\\x22", "\\",
	"\"}body{color:red}", "'}body{color:red}", "\\\"}", "\\22", "\\a", "\\\n", "expression(alert(1))", "url(javascript:alert(1))", "\\3c/style>", "<c", "<C", "\x00", "\x00c", "c", " c", "0",
	"javascript:alert(1)", "?a=b&c=d", "#frag", "a&b=c", "a;b", "%", "%41", "%2", "%zz", "+", "a+b", "é", "\xff", "\xc3", "\xf0\x9f\x98\x80", "\xed\xa0\x80", "\x7f", "\x80", "\x1f", "\x0b",
	"{{ s }}", "{%", "#}", "\u00a0", "\ufeff", "\U000e0001",
}

func hostileInputs(c *Ctx, nRandom int, f func(s string)) {
	if s, ok := replayString(c, "in"); ok {
		f(s)
		return
	}
	for _, h := range hostile {
		f(h)
	}
	// pairs: a hostile value followed by / preceded by another
	lim := 6
	if c.Thorough() {
		lim = len(hostile)
	}
	for i, a := range hostile {
		for j, b := range hostile {
			if (i < lim || j < lim) && len(a)+len(b) < 24 {
				f(a + b)
			}
		}
	}
	for _, s := range extraStrings {
		f(s)
	}
	for i := 0; i < nRandom; i++ {
		switch c.Rng.Intn(3) {
		case 0:
			f(RandString(c.Rng, 12))
		case 1:
			f(hostile[c.Rng.Intn(len(hostile))] + RandString(c.Rng, 4) + hostile[c.Rng.Intn(len(hostile))])
		default:
			f(RandString(c.Rng, 3) + hostile[c.Rng.Intn(len(hostile))])
		}
	}
}

// ---- oracles for the reference scanners: true = the text leaves its slot (or
// cannot be said to stay) according to the real tokenizer / parser

var benignStructure = map[string]string{}

func htmlBreaks(pre, x, suf, slotAttr string) bool {
	k := pre + "\x00" + suf + "\x00" + slotAttr
	b, ok := benignStructure[k]
	if !ok {
		b = structure(tokenize(pre+"a"+suf), slotAttr)
		benignStructure[k] = b
	}
	return structure(tokenize(pre+x+suf), slotAttr) != b
}

type scannerOracle struct {
	fn     string
	breaks func(x string) bool
}

func cssBreaks(x string) bool {
	for _, q := range []byte{'"', '\''} {
		end, bad, open := cssStringEnd(x, q)
		if bad || open || end != len(cssPreprocess(x)) {
			return true
		}
	}
	return htmlBreaks(`<style>a{content:"`, x, `"}</style><i id=z></i>`, "")
}

func queryBreaks(x string) bool {
	v, err := url.ParseQuery("q=" + x + "&z=1")
	if err != nil || len(v) != 2 || len(v["q"]) != 1 || len(v["z"]) != 1 || v["z"][0] != "1" {
		return true
	}
	u, err := url.Parse("http://h/p?q=" + x + "&z=1#f")
	return err != nil || u.Fragment != "f" || u.Path != "/p" || u.RawQuery != "q="+x+"&z=1"
}

var scannerOracles = []scannerOracle{
	{"html_text_ok", func(x string) bool { return htmlBreaks(`<p>`, x, `</p><i id=z></i>`, "") }},
	{"attr_dq_ok", func(x string) bool { return htmlBreaks(`<a title="`, x, `" id=z>x</a>`, "title") }},
	{"attr_sq_ok", func(x string) bool { return htmlBreaks(`<a title='`, x, `' id=z>x</a>`, "title") }},
	{"attr_unq_ok", func(x string) bool { return htmlBreaks(`<a title=v`, x, ` id=z>x</a>`, "title") }},
	{"json_string_ok", func(x string) bool {
		return !json.Valid([]byte(`"`+x+`"`)) || htmlBreaks(`<script>{"k":"`, x, `"}</script><i id=z></i>`, "")
	}},
	{"css_string_ok", cssBreaks},
	{"query_ok", queryBreaks},
}

// which scanner must accept the output of which escaper
var scannerOfEscaper = map[string][]string{
	"htmlEscape":           {"html_text_ok", "attr_dq_ok", "attr_sq_ok"},
	"htmlNoEntitiesEscape": {"attr_dq_ok", "attr_sq_ok"},
	"attributeEscape.tt":   {"attr_dq_ok", "attr_sq_ok"},
	"attributeEscape.ft":   {"attr_dq_ok", "attr_sq_ok"},
	"attributeEscape.tf":   {"attr_unq_ok"},
	"attributeEscape.ff":   {"attr_unq_ok"},
	"jsStringEscape":       {"js_string_ok", "json_string_ok"},
	"jsonStringEscape":     {"js_string_ok", "json_string_ok"},
	"cssStringEscape":      {"css_string_ok"},
	"queryEscape":          {"query_ok"},
}

// ---- templates of the sweep

type confTemplate struct {
	sig      string
	file     string
	pre, suf string
	slotAttr string // attribute holding the slot ("" = none)
	tag      string // element holding the slot
	kind     string // text, attr, js, json, css, url, urlpath, tag
	known    string // signature of a known finding this template can show ("" = none)
	tmpl     *scriggo.Template
	benign   string
}

var confTemplates = []*confTemplate{
	{sig: "html-confinement", file: "t.html", pre: `<p>`, suf: `</p><i id=z></i>`, tag: "p", kind: "text"},
	{sig: "html-confinement", file: "t.html", pre: `<textarea>`, suf: `</textarea><i id=z></i>`, tag: "textarea", kind: "text"},
	{sig: "attr-confinement", file: "t.html", pre: `<a title="`, suf: `" id=z>x</a>`, slotAttr: "title", tag: "a", kind: "attr"},
	{sig: "attr-confinement", file: "t.html", pre: `<a title='`, suf: `' id=z>x</a>`, slotAttr: "title", tag: "a", kind: "attr"},
	{sig: "attr-confinement", file: "t.html", pre: `<a title=v`, suf: ` id=z>x</a>`, slotAttr: "title", tag: "a", kind: "attr-v"},
	{sig: "attr-confinement", file: "t.html", pre: `<a title=`, suf: ` id=z>x</a>`, slotAttr: "title", tag: "a", kind: "attr", known: "unquoted-attr-empty-value"},
	{sig: "js-confinement", file: "t.html", pre: `<script>var x = "`, suf: `";</script><i id=z></i>`, tag: "script", kind: "js"},
	{sig: "js-confinement", file: "t.html", pre: `<script>var x = '`, suf: `';</script><i id=z></i>`, tag: "script", kind: "js"},
	{sig: "js-confinement", file: "t.html", pre: `<a onclick="var x = '`, suf: `';" id=z>x</a>`, slotAttr: "onclick", tag: "a", kind: "js-attr", known: "event-attr-not-js-context"},
	{sig: "css-confinement", file: "t.html", pre: `<a style="background:url('`, suf: `')" id=z>x</a>`, slotAttr: "style", tag: "a", kind: "css-attr", known: "style-attr-not-css-context"},
	{sig: "json-confinement", file: "t.html", pre: `<script type="application/ld+json">{"k": "`, suf: `", "n": 1}</script><i id=z></i>`, tag: "script", kind: "json"},
	{sig: "css-confinement", file: "t.html", pre: `<style>a::before{content:"`, suf: `"}</style><i id=z></i>`, tag: "style", kind: "css"},
	{sig: "css-confinement", file: "t.html", pre: `<style>a::before{content:'`, suf: `'}</style><i id=z></i>`, tag: "style", kind: "css"},
	{sig: "url-confinement", file: "t.html", pre: `<a href="?q=`, suf: `&amp;z=1" id=z>x</a>`, slotAttr: "href", tag: "a", kind: "url"},
	{sig: "url-confinement", file: "t.html", pre: `<a href="/p/`, suf: `" id=z>x</a>`, slotAttr: "href", tag: "a", kind: "urlpath"},
	{sig: "url-confinement", file: "t.html", pre: `<a href=/p/`, suf: ` id=z>x</a>`, slotAttr: "href", tag: "a", kind: "urlpath"},
	{sig: "tag-confinement", file: "t.html", pre: `<div `, suf: ` id=z>x</div>`, tag: "div", kind: "tag", known: "tag-splits-attribute"},
}

func buildConf(t *confTemplate) error {
	src := t.pre + "{{ s }}" + t.suf
	opts := &scriggo.BuildOptions{Globals: native.Declarations{"s": (*string)(nil)}}
	tmpl, err := scriggo.BuildTemplate(scriggo.Files{t.file: []byte(src)}, t.file, opts)
	if err != nil {
		return fmt.Errorf("building %q: %v", src, err)
	}
	t.tmpl = tmpl
	out, err := t.render("a")
	if err != nil {
		return err
	}
	t.benign = structure(tokenize(out), t.slotAttr)
	return nil
}

func (t *confTemplate) render(s string) (out string, err error) {
	var b bytes.Buffer
	v := s
	msg := PanicText(func() { err = t.tmpl.Run(&b, map[string]any{"s": &v}, nil) })
	if msg != "" {
		return "", fmt.Errorf("panic: %s", msg)
	}
	return b.String(), err
}

func normNewlines(s string) string {
	return strings.ReplaceAll(strings.ReplaceAll(s, "\r\n", "\n"), "\r", "\n")
}

func registerC06() {
	// correspondence: reference scanners vs real tokenizers
	Register("C06-cases", func(c *Ctx) {
		var jsX []string
		emitNeg := func(x string) {
			for _, o := range scannerOracles {
				if o.breaks(x) {
					c.Count("cases")
					c.Count("leaves-slot:" + o.fn)
					c.Line(o.fn, Hx(x), "false")
				} else {
					c.Count("oracle-stays:" + o.fn)
				}
			}
			if utf8.ValidString(x) {
				jsX = append(jsX, x)
			}
		}
		emitPos := func(s string) {
			for _, e := range escapers {
				fns := scannerOfEscaper[e.fn]
				if len(fns) == 0 {
					continue
				}
				chunks, _, p := e.run(s)
				if p != "" {
					continue
				}
				out := strings.Join(chunks, "")
				for _, fn := range fns {
					c.Count("cases")
					c.Count("escaper-output:" + fn)
					c.Line(fn, Hx(out), "true")
				}
			}
		}
		if x, ok := replayString(c, "encoded"); ok {
			emitNeg(x)
		} else if s, ok := replayString(c, "in"); ok {
			emitPos(s)
		} else {
			hostileInputs(c, c.N, func(s string) { emitNeg(s); emitPos(s) })
			for _, a := range encodedDict {
				for _, b := range encodedDict {
					emitNeg(a + b)
				}
			}
			for i := 0; i < c.N; i++ {
				emitNeg(randEncoded(c, 6))
			}
		}
		// JavaScript: node decides whether `var x = "<text>";` and the single-quoted form are
		// one statement defining a string; otherwise the scanner must say false
		var scripts []string
		for _, x := range jsX {
			scripts = append(scripts, `var x = "`+x+`";`, `var x = '`+x+`';`)
		}
		res := runNode(scripts)
		if res == nil {
			c.Count("node-unavailable")
			return
		}
		for i, x := range jsX {
			a, b := res[2*i], res[2*i+1]
			if !a.OK || a.Val == nil || !b.OK || b.Val == nil || htmlBreaks(`<script>var x = "`, x, `";</script><i id=z></i>`, "") {
				c.Count("cases")
				c.Count("leaves-slot:js_string_ok")
				c.Line("js_string_ok", Hx(x), "false")
			} else {
				c.Count("oracle-stays:js_string_ok")
			}
		}
	})

	// sweep: rendered templates keep their structure
	Register("C06-sweep", func(c *Ctx) {
		for _, t := range confTemplates {
			if err := buildConf(t); err != nil {
				c.Fail("template-build", map[string]string{"error": err.Error()})
				return
			}
		}
		type jsCheck struct {
			t      *confTemplate
			s, src string
		}
		var js []jsCheck
		samples := 0
		hostileInputs(c, c.N, func(s string) {
			for _, t := range confTemplates {
				c.Count("evaluations")
				out, err := t.render(s)
				det := func(why string) map[string]string {
					return map[string]string{"template": t.pre + "{{ s }}" + t.suf, "in": Hx(s), "rendered": Hx(out), "why": why}
				}
				if err != nil {
					c.Fail(t.sig, det(err.Error()))
					continue
				}
				toks := tokenize(out)
				got := structure(toks, t.slotAttr)
				if t.kind == "tag" {
					// the value is an attribute name: it may vanish (empty) but not become several attributes
					n, nb := 0, 0
					for _, tk := range toks {
						if tk.typ == html.StartTagToken && tk.name == "div" {
							n = len(tk.attrs)
						}
					}
					for _, tk := range tokenize(t.pre + "a" + t.suf) {
						if tk.typ == html.StartTagToken && tk.name == "div" {
							nb = len(tk.attrs)
						}
					}
					idv, _ := attrOf(toks, "div", "id")
					if n > nb || idv != "z" || len(toks) != 3 {
						c.Fail(t.known, det("the value does not stay one attribute name: "+got))
					}
					continue
				}
				if got != t.benign {
					if t.known != "" && s == "" {
						c.Fail(t.known, det("with the empty string the following text becomes the attribute value: "+got))
					} else {
						c.Fail(t.sig, det("structure "+got+" differs from "+t.benign))
					}
					continue
				}
				if s != "a" && s != "" {
					c.Count("nontrivial")
				}
				plain := !strings.ContainsAny(s, "\r\x00") && utf8.ValidString(s)
				switch t.kind {
				case "attr", "attr-v":
					// the real tokenizer's attribute value is the string
					if v, ok := attrOf(toks, t.tag, t.slotAttr); plain {
						want := s
						if t.kind == "attr-v" {
							want = "v" + s
						}
						if !ok || v != want {
							c.Fail(t.sig, det("attribute value is "+Hx(v)))
						}
					}
				case "text":
					if txt, _ := textOf(toks, t.tag); plain && txt != s && !(t.tag == "textarea" && strings.HasPrefix(s, "\n")) {
						c.Fail(t.sig, det("text is "+Hx(txt)))
					}
				case "js":
					src, _ := textOf(toks, "script")
					js = append(js, jsCheck{t, s, toValid(src)})
				case "js-attr":
					src, _ := attrOf(toks, "a", "onclick")
					js = append(js, jsCheck{t, s, toValid(src)})
				case "css-attr":
					// the attribute value is CSS: the string token opened before the slot must end at the quote after it
					val, _ := attrOf(toks, "a", "style")
					body := strings.TrimPrefix(val, "background:url('")
					end, bad, _ := cssStringEnd(body, '\'')
					if rest := cssPreprocess(body); bad || end > len(rest) || rest[end:] != "')" {
						c.Fail(t.known, det("the CSS string in the style attribute ends early: "+Hx(val)))
					}
				case "json":
					src, _ := textOf(toks, "script")
					var doc struct {
						K string
						N int
					}
					if err := json.Unmarshal([]byte(toValid(src)), &doc); err != nil || doc.N != 1 || doc.K != toValid(s) {
						c.Fail(t.sig, det("the JSON document does not parse back: "+fmt.Sprint(err)))
					}
				case "css":
					src, _ := textOf(toks, "style")
					q := t.pre[len(t.pre)-1]
					body := strings.TrimPrefix(src, t.pre[len("<style>"):])
					end, bad, _ := cssStringEnd(body, q)
					rest := ""
					if end <= len(cssPreprocess(body)) {
						rest = cssPreprocess(body)[end:]
					}
					if bad || rest != string(q)+"}" {
						c.Fail(t.sig, det("the CSS string token ends early or late: rest "+Hx(rest)))
					} else if val := cssUnescape(cssPreprocess(body)[:end]); val != strings.ReplaceAll(toValidKeep(s), "\x00", "\uFFFD") {
						c.Fail(t.sig, det("the CSS string value is "+Hx(val)))
					}
				case "url":
					href, _ := attrOf(toks, "a", "href")
					u, err := url.Parse(toValid(href))
					if err != nil || u.Path != "" || u.Fragment != "" {
						c.Fail(t.sig, det("href does not parse as a query only: "+fmt.Sprint(err)))
					} else if v, err := url.ParseQuery(u.RawQuery); err != nil || len(v) != 2 || len(v["q"]) != 1 || v.Get("z") != "1" || (utf8.ValidString(s) && v.Get("q") != s) {
						c.Fail(t.sig, det("the query does not hold q and z only: "+u.RawQuery))
					}
				}
				if samples < 3 && len(s) > 8 && t.kind == "js" {
					samples++
					c.Sample(map[string]string{"template": t.pre + "{{ s }}" + t.suf, "in": s, "rendered": out})
				}
			}
		})
		// scripts: node must parse and run them, and x must be the string
		scripts := make([]string, len(js))
		for i, j := range js {
			scripts[i] = j.src
		}
		res := runNode(scripts)
		if res == nil {
			c.Count("node-unavailable")
			return
		}
		for i, j := range js {
			c.Count("evaluations")
			r := res[i]
			if !r.OK || r.Val == nil || *r.Val != toValid(j.s) {
				sig := j.t.sig
				if j.t.known != "" {
					sig = j.t.known
				}
				c.Fail(sig, map[string]string{"template": j.t.pre + "{{ s }}" + j.t.suf, "in": Hx(j.s), "script": Hx(j.src),
					"why": "node: " + r.Err + fmt.Sprintf(" ok=%v", r.OK)})
			}
		}
	})
}

// toValidKeep is the identity: the CSS decoder works on bytes.
func toValidKeep(s string) string { return s }
