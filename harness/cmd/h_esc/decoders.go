package main

// Independent decoders used as oracles (Go standard library, plus a CSS
// unescape written from css-syntax-3), and the correspondence that validates
// the Coq reference decoders (model/Decoders.v, HtmlDecode.v) against them.

import (
	"encoding/json"
	"html"
	"net/url"
	"strconv"
	"strings"
	"unicode/utf8"
	. "verif/harness/hlib"
)

// ---- CSS (css-syntax-3: 3.3 preprocessing, 4.3.5 string token, 4.3.7 escaped code point)

func cssIsHex(c byte) bool {
	return '0' <= c && c <= '9' || 'a' <= c && c <= 'f' || 'A' <= c && c <= 'F'
}

func cssPreprocess(s string) string {
	s = strings.ReplaceAll(s, "\r\n", "\n")
	s = strings.ReplaceAll(s, "\r", "\n")
	s = strings.ReplaceAll(s, "\f", "\n")
	return strings.ReplaceAll(s, "\x00", "\uFFFD")
}

// cssUnescape returns the value of the contents of a CSS string token.
func cssUnescape(raw string) string {
	s := cssPreprocess(raw)
	var b strings.Builder
	for i := 0; i < len(s); {
		if s[i] != '\\' {
			b.WriteByte(s[i])
			i++
			continue
		}
		i++ // the backslash
		if i == len(s) {
			break // EOF: do nothing
		}
		if s[i] == '\n' {
			i++ // escaped newline: consumed
			continue
		}
		if !cssIsHex(s[i]) {
			b.WriteByte(s[i]) // any other code point stands for itself (its bytes follow)
			i++
			continue
		}
		v, n := 0, 0
		for n < 6 && i < len(s) && cssIsHex(s[i]) {
			d, _ := strconv.ParseUint(s[i:i+1], 16, 8)
			v = v*16 + int(d)
			i++
			n++
		}
		if i < len(s) && (s[i] == '\n' || s[i] == '\t' || s[i] == ' ') {
			i++ // one whitespace
		}
		if v == 0 || 0xD800 <= v && v <= 0xDFFF || v > 0x10FFFF {
			b.WriteString("\uFFFD")
		} else {
			b.WriteRune(rune(v))
		}
	}
	return b.String()
}

// ---- JavaScript / JSON

// jsonUnquote decodes the contents of a JSON string with encoding/json; ok is
// false outside the oracle's domain (invalid JSON string, or invalid UTF-8,
// which encoding/json replaces instead of keeping).
func jsonUnquote(x string) (string, bool) {
	if !utf8.ValidString(x) {
		return "", false
	}
	var out string
	if err := json.Unmarshal([]byte(`"`+x+`"`), &out); err != nil {
		return "", false
	}
	return out, true
}

// jsUnquote decodes the contents of a JavaScript string literal with
// strconv.Unquote where Go and JavaScript literals mean the same: not for
// \a, \U, octal escapes, \x80..\xff (a byte in Go, a code point in JS),
// surrogate escapes (an error in Go) and invalid UTF-8.
func jsUnquote(x string) (string, bool) {
	if !utf8.ValidString(x) {
		return "", false
	}
	for i := 0; i+1 < len(x); i++ {
		if x[i] != '\\' {
			continue
		}
		switch d := x[i+1]; {
		case d == 'a' || d == 'U' || '0' <= d && d <= '7' || d == '\'':
			return "", false
		case d == 'x':
			if i+2 < len(x) && x[i+2] >= '8' {
				return "", false
			}
		}
		i++
	}
	out, err := strconv.Unquote(`"` + x + `"`)
	if err != nil {
		return "", false
	}
	return out, true
}

// ---- HTML: html.UnescapeString knows the whole entity table; the reference
// decoder knows the five names of the escapers (and the legacy forms of four).
// In the domain every ampersand is followed by one of those names, '#', or a
// byte that is not a letter or digit.
var htmlNames = []string{"amp;", "lt;", "gt;", "quot;", "apos;"}

func htmlInDomain(x string) bool {
	for i := 0; i < len(x); i++ {
		if x[i] != '&' {
			continue
		}
		r := x[i+1:]
		if r == "" {
			continue
		}
		c := r[0]
		isAlnum := '0' <= c && c <= '9' || 'a' <= c && c <= 'z' || 'A' <= c && c <= 'Z'
		if !isAlnum {
			// "&#x" without a hex digit: the standard leaves the text alone (absence of
			// digits), html.UnescapeString emits U+FFFD; outside the domain
			if c == '#' && len(r) >= 2 && (r[1] == 'x' || r[1] == 'X') && (len(r) == 2 || !cssIsHex(r[2])) {
				return false
			}
			// "&#" + one decimal digit without semicolon: the standard decodes it,
			// html.UnescapeString leaves it alone (its "no characters matched" test is off by one)
			if c == '#' && len(r) >= 2 && '0' <= r[1] && r[1] <= '9' && (len(r) == 2 || !('0' <= r[2] && r[2] <= '9' || r[2] == ';')) {
				return false
			}
			continue
		}
		ok := false
		for _, n := range htmlNames {
			if strings.HasPrefix(r, n) {
				ok = true
			}
		}
		if !ok {
			return false
		}
	}
	return true
}

// ---- generators of encoded text

var encodedDict = []string{
	// HTML
	"&amp;", "&lt;", "&gt;", "&quot;", "&apos;", "&#34;", "&#39;", "&#x27;", "&#X3c;", "&#60", "&#0;", "&#128;", "&#xD800;", "&#x110000;", "&#;", "&#x;", "&", "& ", "&;",
	// JS / JSON
	`\\`, `\"`, `\/`, `\b`, `\f`, `\n`, `\r`, `\t`, `\v`, `\u0026`, `\u003c`, `\u2028`, `\u2029`, `\u00e9`, `\ud83d\ude00`, `\ud83d`, `\ude00`, `\ud83d\u0041`, `\ud83d\ud83d\ude00`,
	`\x41`, `\x7f`, `\u004`, `\u00zz`, `\`, `\q`, `\u`,
	// CSS
	`\3c`, `\3c `, `\3c  `, `\3C`, `\00003c`, `\000003c`, `\0`, `\0 `, `\d800 `, `\110000 `, `\10ffff `, "\\\n", "\\\r\n", "\\\r", "\\\f", `\g`, `\"`, "\\3c\r\n", "\\3c\r", "\\3c\t", "\\3c\n", "\\e9 ", "\r\n", "\r", "\f",
	// percent
	"%41", "%4a", "%4A", "%e9", "%C3%A9", "%2B", "%20", "+", "%", "%4", "%g1", "%1g", "%%", "%25",
	// plain
	"a", "c", "f", "g", "0", "9", " ", "é", "x", "u", ";", "#", "-", "~", ".", "\x00", "\t", "\n",
}

func randEncoded(c *Ctx, maxParts int) string {
	n := 1 + c.Rng.Intn(maxParts)
	var b strings.Builder
	for i := 0; i < n; i++ {
		if c.Rng.Intn(12) == 0 {
			b.WriteByte(byte(c.Rng.Intn(256)))
		} else {
			b.WriteString(encodedDict[c.Rng.Intn(len(encodedDict))])
		}
	}
	return b.String()
}

type decoder struct {
	fn     string
	oracle func(x string) (string, bool)
}

var decoders = []decoder{
	{"html_decode", func(x string) (string, bool) { return html.UnescapeString(x), htmlInDomain(x) }},
	{"json_decode", jsonUnquote},
	{"js_decode", jsUnquote},
	{"js_decode", jsonUnquote}, // a JSON string is a JavaScript string
	{"css_decode", func(x string) (string, bool) { return cssUnescape(x), true }},
	{"pct_decode", func(x string) (string, bool) { s, err := url.PathUnescape(x); return s, err == nil }},
	{"query_decode", func(x string) (string, bool) { s, err := url.QueryUnescape(x); return s, err == nil }},
}

func registerDecoders() {
	// correspondence: Coq reference decoders vs Go's decoders, where the latter are defined
	Register("C07-decoders", func(c *Ctx) {
		emit := func(x string) {
			for _, d := range decoders {
				want, ok := d.oracle(x)
				if !ok {
					c.Count("outside-domain:" + d.fn)
					continue
				}
				c.Count("cases")
				c.Line(d.fn, Hx(x), "ok:"+Hx(want))
			}
		}
		if x, ok := replayString(c, "encoded"); ok {
			emit(x)
			return
		}
		// pairs and triples of the dictionary (the second element is the "rest" after an escape)
		for _, a := range encodedDict {
			emit(a)
			for _, b := range encodedDict {
				emit(a + b)
			}
		}
		// what the escapers produce, followed by a dictionary entry
		for _, e := range escapers {
			for i := 0; i < c.N/40; i++ {
				s := RandString(c.Rng, 12)
				chunks, _, p := e.run(s)
				if p != "" {
					continue
				}
				emit(strings.Join(chunks, "") + encodedDict[c.Rng.Intn(len(encodedDict))])
			}
		}
		for i := 0; i < c.N; i++ {
			emit(randEncoded(c, 8))
		}
	})
}
