package main

// C07 sweep: the property itself on the real code. Every escaper's output is
// decoded with an independent decoder and compared with the input; real
// templates with `{{ s }}` in every string-bearing context are rendered through
// scriggo.BuildTemplate / Template.Run and the slot is decoded back, which
// covers the glue (context detection, showIn* dispatch, string writer).

import (
	"bytes"
	"encoding/json"
	"fmt"
	"html"
	"net/url"
	"strings"
	"unicode/utf8"
	. "verif/harness/hlib"

	"github.com/open2b/scriggo"
	"github.com/open2b/scriggo/native"
)

// toValid is what a decoder that works on code points makes of s: every
// invalid byte becomes U+FFFD (strconv.Unquote, encoding/json).
func toValid(s string) string {
	if utf8.ValidString(s) {
		return s
	}
	return string([]rune(s))
}

// context of a round trip: which escaper, how to decode, what the decoder is expected to return for s
type roundTrip struct {
	sig    string // failure signature
	fn     string // escaper (line protocol name)
	decode func(out string) (string, bool)
	expect func(s string) string
	// texts that may follow the slot: decode(out+rest) must be expect(s)+decode(rest)
	rests []string
}

func ident(s string) string { return s }

var roundTrips = []roundTrip{
	{"html-roundtrip", "htmlEscape", func(o string) (string, bool) { return html.UnescapeString(o), true }, ident, []string{"amp;", "#38;", "lt", ";"}},
	{"attr-quoted-roundtrip", "attributeEscape.tt", func(o string) (string, bool) { return html.UnescapeString(o), true }, ident, []string{"amp;", "#38;"}},
	{"attr-unquoted-roundtrip", "attributeEscape.tf", func(o string) (string, bool) { return html.UnescapeString(o), true }, ident, []string{"amp;", "#38;"}},
	// strconv.Unquote and encoding/json work on code points: invalid bytes of s come back as U+FFFD
	{"js-roundtrip", "jsStringEscape", func(o string) (string, bool) {
		if utf8.ValidString(o) {
			return jsUnquote(o)
		}
		return jsUnquote(toValid(o))
	}, toValid, []string{"0", "u0041", "n", "\\\\"}},
	{"json-roundtrip", "jsonStringEscape", func(o string) (string, bool) { return jsonUnquote(toValid(o)) }, toValid, []string{"0", "u0041", "n"}},
	// a NUL cannot be written in CSS: \0 is U+FFFD
	{"css-roundtrip", "cssStringEscape", func(o string) (string, bool) { return cssUnescape(o), true },
		func(s string) string { return strings.ReplaceAll(s, "\x00", "�") }, []string{"c", " c", "0", " ", "\n", "g", "\\\\"}},
	{"query-roundtrip", "queryEscape", func(o string) (string, bool) { s, err := url.QueryUnescape(o); return s, err == nil }, ident, []string{"41", "4", "%41"}},
}

func escaperByFn(fn string) escaper {
	for _, e := range escapers {
		if e.fn == fn {
			return e
		}
	}
	panic("no escaper " + fn)
}

// ---- templates

type slotTemplate struct {
	sig      string
	file     string // name decides the format
	pre, suf string
	// decode the slot (the rendered text between pre and suf) back
	decode func(slot string) (string, bool)
	expect func(s string) string
	// escaper whose output the slot must equal ("" = not compared)
	fn string
	// the first bytes of suf that are decoded together with the slot
	rest string
	tmpl *scriggo.Template
}

func qunescape(slot string) (string, bool) {
	s, err := url.QueryUnescape(html.UnescapeString(slot))
	return s, err == nil
}

var slotTemplates = []*slotTemplate{
	{sig: "html-roundtrip", file: "t.html", pre: "<p>", suf: "</p>", fn: "htmlEscape",
		decode: func(o string) (string, bool) { return html.UnescapeString(o), true }, expect: ident},
	{sig: "attr-quoted-roundtrip", file: "t.html", pre: `<a title="`, suf: `">x</a>`, fn: "attributeEscape.tt",
		decode: func(o string) (string, bool) { return html.UnescapeString(o), true }, expect: ident},
	{sig: "attr-quoted-roundtrip", file: "t.html", pre: `<a title='`, suf: `'>x</a>`, fn: "attributeEscape.tt",
		decode: func(o string) (string, bool) { return html.UnescapeString(o), true }, expect: ident},
	{sig: "attr-unquoted-roundtrip", file: "t.html", pre: `<a title=`, suf: `>x</a>`, fn: "attributeEscape.tf",
		decode: func(o string) (string, bool) { return html.UnescapeString(o), true }, expect: ident},
	{sig: "js-roundtrip", file: "t.html", pre: `<script>var x = "`, suf: `";</script>`, fn: "jsStringEscape",
		decode: func(o string) (string, bool) { return jsUnquote(toValid(o)) }, expect: toValid},
	{sig: "js-roundtrip", file: "t.html", pre: `<script>var x = '`, suf: `';</script>`, fn: "jsStringEscape",
		decode: func(o string) (string, bool) { return jsUnquote(toValid(o)) }, expect: toValid},
	{sig: "js-roundtrip", file: "t.js", pre: `var x = "`, suf: `";`, fn: "jsStringEscape",
		decode: func(o string) (string, bool) { return jsUnquote(toValid(o)) }, expect: toValid},
	{sig: "json-roundtrip", file: "t.html", pre: `<script type="application/ld+json">{"k": "`, suf: `"}</script>`, fn: "jsonStringEscape",
		decode: func(o string) (string, bool) { return jsonUnquote(toValid(o)) }, expect: toValid},
	{sig: "css-roundtrip", file: "t.html", pre: `<style>a::before{content:"`, suf: `"}</style>`, fn: "cssStringEscape",
		decode: func(o string) (string, bool) { return cssUnescape(o), true },
		expect: func(s string) string { return strings.ReplaceAll(s, "\x00", "�") }},
	{sig: "css-roundtrip", file: "t.css", pre: `a::before{content:'`, suf: `'}`, fn: "cssStringEscape",
		decode: func(o string) (string, bool) { return cssUnescape(o), true },
		expect: func(s string) string { return strings.ReplaceAll(s, "\x00", "�") }},
	// text right after the slot that a decoder could take for part of an escape
	{sig: "css-roundtrip", file: "t.html", pre: `<style>a::before{content:"`, suf: `c"}</style>`, fn: "cssStringEscape", rest: "c",
		decode: func(o string) (string, bool) { return cssUnescape(o), true },
		expect: func(s string) string { return strings.ReplaceAll(s, "\x00", "�") }},
	{sig: "css-roundtrip", file: "t.css", pre: `a::before{content:'`, suf: ` 0'}`, fn: "cssStringEscape", rest: " 0",
		decode: func(o string) (string, bool) { return cssUnescape(o), true },
		expect: func(s string) string { return strings.ReplaceAll(s, "\x00", "�") }},
	{sig: "html-roundtrip", file: "t.html", pre: "<p>", suf: "amp;</p>", fn: "htmlEscape", rest: "amp;",
		decode: func(o string) (string, bool) { return html.UnescapeString(o), true }, expect: ident},
	{sig: "js-roundtrip", file: "t.js", pre: `var x = "`, suf: `u0041";`, fn: "jsStringEscape", rest: "u0041",
		decode: func(o string) (string, bool) { return jsUnquote(toValid(o)) }, expect: toValid},
	{sig: "query-roundtrip", file: "t.html", pre: `<a href="?q=`, suf: `">x</a>`, fn: "queryEscape", decode: qunescape, expect: ident},
	{sig: "query-roundtrip", file: "t.html", pre: `<a href="/p?a=1&amp;q=`, suf: `&amp;z=2">x</a>`, fn: "queryEscape", decode: qunescape, expect: ident},
}

// the JSON template is decoded as a whole document by encoding/json
var jsonDoc = &slotTemplate{sig: "json-roundtrip", file: "t.json", pre: `{"k": "`, suf: `", "n": 1}`, fn: "jsonStringEscape"}

func buildSlot(t *slotTemplate) error {
	src := t.pre + "{{ s }}" + t.suf
	fsys := scriggo.Files{t.file: []byte(src)}
	opts := &scriggo.BuildOptions{Globals: native.Declarations{"s": (*string)(nil)}}
	tmpl, err := scriggo.BuildTemplate(fsys, t.file, opts)
	if err != nil {
		return fmt.Errorf("building %q: %v", src, err)
	}
	t.tmpl = tmpl
	return nil
}

func (t *slotTemplate) render(s string) (slot string, whole string, err error) {
	var b bytes.Buffer
	v := s
	msg := PanicText(func() { err = t.tmpl.Run(&b, map[string]any{"s": &v}, nil) })
	if msg != "" {
		return "", "", fmt.Errorf("panic: %s", msg)
	}
	if err != nil {
		return "", "", err
	}
	whole = b.String()
	if !strings.HasPrefix(whole, t.pre) || !strings.HasSuffix(whole, t.suf) || len(whole) < len(t.pre)+len(t.suf) {
		return "", whole, fmt.Errorf("the text around the slot changed")
	}
	return whole[len(t.pre) : len(whole)-len(t.suf)], whole, nil
}

func registerSweep() {
	Register("C07-sweep", func(c *Ctx) {
		for _, t := range append(append([]*slotTemplate{}, slotTemplates...), jsonDoc) {
			if err := buildSlot(t); err != nil {
				c.Fail("template-build", map[string]string{"error": err.Error()})
				return
			}
		}
		samples := 0
		// which generator produced the input ("" = the fixed corpus); part of every failure record
		gen := ""
		fail := func(sig string, det map[string]string) {
			if gen != "" {
				det["generator"] = gen
			}
			c.Fail(sig, det)
		}
		checkEscapers := func(s string) {
			for _, rt := range roundTrips {
				e := escaperByFn(rt.fn)
				c.Count("evaluations")
				chunks, n, p := e.run(s)
				if p != "" {
					fail("panic", map[string]string{"fn": rt.fn, "in": Hx(s), "panic": p})
					continue
				}
				out := strings.Join(chunks, "")
				if e.name == "queryEscape" && n != len(out) {
					c.Fail("count-mismatch", map[string]any{"fn": rt.fn, "in": Hx(s), "out": Hx(out), "n": n})
				}
				dec, ok := rt.decode(out)
				if !ok {
					fail(rt.sig, map[string]string{"fn": rt.fn, "in": Hx(s), "out": Hx(out), "why": "the standard decoder rejects the output"})
					continue
				}
				if dec != rt.expect(s) {
					det := map[string]string{"fn": rt.fn, "in": Hx(s), "out": Hx(out), "decoded": Hx(dec)}
					if rt.fn == "cssStringEscape" && strings.Contains(s, "\x00") {
						det["note"] = "the input contains NUL, which CSS can only write as U+FFFD: expected " + Hx(rt.expect(s))
					}
					fail(rt.sig, det)
					continue
				}
				for _, rest := range rt.rests {
					c.Count("evaluations")
					d1, ok1 := rt.decode(out + rest)
					d2, ok2 := rt.decode(rest)
					if ok2 && (!ok1 || d1 != rt.expect(s)+d2) {
						fail(rt.sig, map[string]string{"fn": rt.fn, "in": Hx(s), "out": Hx(out), "followed-by": Hx(rest), "decoded": Hx(d1)})
						break
					}
				}
				if out != s {
					c.Count("nontrivial")
					if samples < 4 && len(s) > 1 && len(s) < 12 {
						samples++
						c.Sample(map[string]string{"fn": rt.fn, "in": s, "out": out})
					}
				}
			}
			// pathEscape: no round trip is claimed; the count it returns is the number of bytes written
			for _, fn := range []string{"pathEscape.t", "pathEscape.f"} {
				e := escaperByFn(fn)
				chunks, n, p := e.run(s)
				c.Count("evaluations")
				if p != "" {
					fail("panic", map[string]string{"fn": fn, "in": Hx(s), "panic": p})
				} else if out := strings.Join(chunks, ""); n != len(out) {
					c.Fail("count-mismatch", map[string]any{"fn": fn, "in": Hx(s), "out": Hx(out), "n": n})
				}
			}
		}
		checkTemplates := func(s string) {
			k := len(s)
			if k > 0 {
				k += int(s[k-1])
			}
			for i, t := range slotTemplates {
				// quick tier: generated inputs visit every other template (the fixed corpus visits all)
				if gen != "" && !c.Thorough() && (k+i)%2 == 1 {
					continue
				}
				c.Count("evaluations")
				c.Count("template-runs")
				slot, whole, err := t.render(s)
				if err != nil {
					fail(t.sig, map[string]string{"template": t.pre + "{{ s }}" + t.suf, "in": Hx(s), "rendered": Hx(whole), "why": err.Error()})
					continue
				}
				if t.fn != "" {
					chunks, _, _ := escaperByFn(t.fn).run(s)
					if want := strings.Join(chunks, ""); want != slot {
						fail("glue-differs", map[string]string{"template": t.pre + "{{ s }}" + t.suf, "in": Hx(s), "slot": Hx(slot), "escaper": t.fn, "escaper-output": Hx(want)})
						continue
					}
				}
				dec, ok := t.decode(slot + t.rest)
				if dr, _ := t.decode(t.rest); !ok || dec != t.expect(s)+dr {
					fail(t.sig, map[string]string{"template": t.pre + "{{ s }}" + t.suf, "in": Hx(s), "slot": Hx(slot), "decoded": Hx(dec)})
					continue
				}
				if slot != s {
					c.Count("nontrivial")
				}
			}
			// JSON document parsed as a whole
			c.Count("evaluations")
			c.Count("template-runs")
			_, whole, err := jsonDoc.render(s)
			if err != nil {
				fail("json-roundtrip", map[string]string{"template": "t.json", "in": Hx(s), "rendered": Hx(whole), "why": err.Error()})
				return
			}
			var doc struct {
				K string
				N int
			}
			if err := json.Unmarshal([]byte(toValid(whole)), &doc); err != nil || doc.K != toValid(s) || doc.N != 1 {
				fail("json-roundtrip", map[string]string{"template": "t.json", "in": Hx(s), "rendered": Hx(whole), "decoded": Hx(doc.K), "why": fmt.Sprint(err)})
			}
		}
		if s, ok := replayString(c, "in"); ok {
			checkEscapers(s)
			checkTemplates(s)
			return
		}
		// escapers: dictionary x successors, short exhaustive strings over the union alphabet, random
		all := func(s string) { checkEscapers(s); checkTemplates(s) }
		for _, s := range extraStrings {
			all(s)
		}
		gen = "dictionary x following byte"
		// templates: successors below '@', letters that matter to some decoder and a sample of high bytes (every successor in the thorough tier)
		DictTimesSuccessors(func(s string) {
			checkEscapers(s)
			if n := len(s); c.Thorough() || n == 0 || s[n-1] < 0x40 || strings.IndexByte("acfgAFGxu\\`{|}~\x7f\x80\xa8\xa9\xc3\xe2\xff", s[n-1]) >= 0 {
				checkTemplates(s)
			}
		})
		maxLen := 3
		if c.Thorough() {
			maxLen = 4
		}
		gen = "exhaustive short strings"
		EnumStrings([]byte{'<', '&', '"', '\'', '\\', ' ', 'c', 'g', '\n', 0xE2, 0x80, 0xA8, '%', '+', '=', 0xC3}, maxLen, checkEscapers)
		gen = "seeded random"
		for i := 0; i < c.N; i++ {
			s := RandString(c.Rng, 30)
			checkEscapers(s)
			if i%4 == 0 {
				checkTemplates(s)
			}
		}
	})
}
