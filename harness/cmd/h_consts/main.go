// h_consts: implementation side of the engine `consts` (property C02).
//
//	C02-cases   correspondence: (i) the operations of constant.go called through
//	            the hook on a boundary-rich operand pool, (ii) whole constant
//	            declarations through the type checker; the last field of every
//	            line is the implementation's canonical result.
//	C02-sweep   the property on the real code: generated constant declarations
//	            are type checked by Scriggo and by go/types + go/constant
//	            (verdict, type and exact value compared), and a sample is built
//	            and run through scriggo.Build to compare the printed value.
package main

import (
	"bytes"
	"fmt"
	"go/constant"
	"math"
	"math/big"
	"strings"
	. "verif/harness/hlib"

	"github.com/open2b/scriggo"
	"github.com/open2b/scriggo/native"
	"github.com/open2b/scriggo/verifhook"
)

func main() { Main() }

// ---------------------------------------------------------------- operand pool

func pow2(n uint) *big.Int { return new(big.Int).Lsh(big.NewInt(1), n) }

func intDesc(z *big.Int) string {
	if z.IsInt64() {
		return "I64:" + z.String()
	}
	return "Big:" + z.String()
}

var poolInts, poolFloats, poolRats, poolCplx, poolStrs, poolBools []string

func init() {
	seen := map[string]bool{}
	add := func(z *big.Int) {
		d := intDesc(z)
		if !seen[d] {
			seen[d] = true
			poolInts = append(poolInts, d)
		}
	}
	for _, v := range []int64{0, 1, 2, 3, 5, 7, 10, 100, 1074, 1075, 1000003, 3037000499, 3037000500, 4611686018427387904, 6074001000, 1 << 31, 1<<31 - 1, 1 << 32, 1<<32 - 1} {
		add(big.NewInt(v))
		add(big.NewInt(-v))
	}
	for _, n := range []uint{7, 8, 15, 16, 24, 31, 32, 53, 62, 63, 64, 65, 127, 128, 256, 448, 510, 511, 512, 513} {
		p := pow2(n)
		for _, d := range []int64{-2, -1, 0, 1} {
			x := new(big.Int).Add(p, big.NewInt(d))
			add(x)
			add(new(big.Int).Neg(x))
		}
	}
	// small values held in the big representation (the code does not normalise)
	poolInts = append(poolInts, "Big:0", "Big:1", "Big:-1", "Big:5", "Big:512", "Big:511", "Big:1074", "Big:1075", "Big:9223372036854775807", "Big:-9223372036854775808")

	poolFloats = []string{
		"F64:0p0", "F64:-0", "F64:1p0", "F64:-1p0", "F64:1p1", "F64:1p-1", "F64:3p-1", "F64:5p-1", "F64:3p0", "F64:1p-1074", "F64:9007199254740991p971",
		"F64:1p63", "F64:-1p63", "F64:1p64", "F64:9007199254740991p10", "F64:9007199254740991p11", "F64:-9007199254740991p10", "F64:3602879701896397p-55", "F64:16777215p104", "F64:1p-149", "F64:16777217p0", "F64:1p128", "F64:1p127",
		"F64:255p0", "F64:1p8", "F64:1p53", "F64:9007199254740991p1", "F64:1p512", "F64:1p9", "F64:511p0",
		"BigF:0p0", "BigF:-0", "BigF:1p0", "BigF:-1p0", "BigF:3p-1", "BigF:1p2000", "BigF:1p-2000", "BigF:1p63", "BigF:1p64", "BigF:-1p63", "BigF:1p5000", "BigF:3p-5000",
		"BigF:" + new(big.Int).Sub(pow2(512), big.NewInt(1)).String() + "p0",
		"BigF:" + new(big.Int).Sub(pow2(512), big.NewInt(1)).String() + "p-600",
		"BigF:" + new(big.Int).Quo(new(big.Int).Sub(pow2(512), big.NewInt(1)), big.NewInt(3)).String() + "p-512",
		"BigF:" + new(big.Int).Add(pow2(511), big.NewInt(1)).String() + "p0",
		"BigF:" + new(big.Int).Add(pow2(300), big.NewInt(1)).String() + "p-10",
		"BigF:9223372036854775807p0", "BigF:18446744073709551615p0", "BigF:-9223372036854775809p0", "BigF:255p0", "BigF:1p1024", "BigF:1p1023", "BigF:3p-1075", "BigF:1p-1075", "BigF:1p-1074",
		"BigF:16777217p0", "BigF:33554431p103", "BigF:1p9", "BigF:1p511", "BigF:1p512",
	}
	poolRats = []string{
		"Rat:0/1", "Rat:1/1", "Rat:-1/1", "Rat:1/3", "Rat:-1/3", "Rat:2/3", "Rat:1/10", "Rat:22/7", "Rat:5/1", "Rat:1/2", "Rat:3/2", "Rat:-7/2",
		"Rat:18446744073709551616/3", "Rat:9223372036854775807/1", "Rat:9223372036854775808/1", "Rat:18446744073709551615/1", "Rat:18446744073709551616/1", "Rat:-9223372036854775808/1", "Rat:-9223372036854775809/1",
		"Rat:1/" + pow2(600).String(), "Rat:1" + strings.Repeat("0", 400) + "/1", "Rat:1/1" + strings.Repeat("0", 400), "Rat:255/1", "Rat:256/1", "Rat:512/1",
		"Rat:" + pow2(1024).String() + "/1", "Rat:" + new(big.Int).Sub(pow2(1024), pow2(970)).String() + "/1", "Rat:340282356779733661637539395458142568448/1", "Rat:340282346638528859811704183484516925440/1",
		"Rat:1/" + pow2(1075).String(), "Rat:3/" + pow2(1075).String(), "Rat:16777217/1", "Rat:9007199254740993/1",
	}
	parts := []string{"I64:0", "I64:1", "I64:-2", "I64:3", "I64:4", "I64:9223372036854775807", "Big:" + pow2(511).String(), "F64:3p-1", "F64:0p0", "BigF:1p2000", "Rat:1/3", "Rat:2/5", "Big:3", "F64:1p0", "BigF:5p-1"}
	for i, re := range parts {
		for j, im := range parts {
			if (i+2*j)%3 == 0 || i < 5 && j < 5 {
				poolCplx = append(poolCplx, "Cplx:"+re+","+im)
			}
		}
	}
	for _, s := range []string{"", "a", "b", "ab", "abc", "A", "é", "\xff", "a\x00"} {
		poolStrs = append(poolStrs, "Str:"+Hx(s))
	}
	poolBools = []string{"Bool:t", "Bool:f"}
}

var binOps = []string{"==", "!=", "<", "<=", ">", ">=", "+", "-", "*", "/", "%", "&", "|", "^", "&^", "<<", ">>", "&&", "||"}
var allKinds = []string{"bool", "string", "int", "int8", "int16", "int32", "int64", "uint", "uint8", "uint16", "uint32", "uint64", "uintptr", "float32", "float64", "complex64", "complex128"}

func isIntDesc(d string) bool { return strings.HasPrefix(d, "I64:") || strings.HasPrefix(d, "Big:") }

// canon maps the hook's answer to the form the model prints: a fault of the
// implementation (a panic, or a result holding a nil big.Int / nil constant,
// which are what the ignored errors of the complex operations leave behind)
// is "fault".
func canon(res string) string {
	if strings.HasPrefix(res, "panic:hook:") {
		return "hook-error:" + res
	}
	if strings.HasPrefix(res, "panic:") || strings.Contains(res, "Big:nil") || strings.Contains(res, ":nil") || strings.HasSuffix(res, ",nil") || strings.Contains(res, "nil,") {
		return "fault"
	}
	return res
}

func opCase(c *Ctx, fields ...string) {
	res := canon(verifhook.Const(fields[0], fields[1:]...))
	c.Line(append(fields, res)...)
	c.Count("cases")
	c.Count("op:" + fields[0])
	lineCase(c, fields, res)
}

// lineCase repeats a sample of the cases in the form the in-Coq cross-check
// evaluates with vm_compute: the whole case and its result, hex encoded.
var lineCount int

func lineCase(c *Ctx, fields []string, res string) {
	lineCount++
	if lineCount%97 != 0 || len(strings.Join(fields, "")) > 400 {
		return
	}
	c.Line("line", Hx(strings.Join(fields, "\t")), "ok:"+Hx(res))
	c.Count("cases")
}

// opCases emits the op-level correspondence cases. quota bounds the number of
// randomly chosen pairs; the structured part is always emitted.
func opCases(c *Ctx) {
	nums := append(append(append([]string{}, poolInts...), poolFloats...), poolRats...)
	all := append(append([]string{}, nums...), poolCplx...)
	// unary operations and representedBy: every constant x every kind
	for _, x := range all {
		for _, op := range []string{"+", "-", "!"} {
			opCase(c, "un", op, "-", x)
		}
		if isIntDesc(x) {
			for _, k := range allKinds[2:13] {
				opCase(c, "un", "^", k, x)
			}
		}
		for _, k := range allKinds {
			opCase(c, "repr", k, x)
		}
		opCase(c, "zero", x)
		for _, x1 := range []string{"I64:0", "I64:1", "Big:0", "F64:-0", "Rat:1/3"} {
			opCase(c, "shifterr", "<<", x1, x)
			opCase(c, "shifterr", ">>", x1, x)
		}
	}
	for _, x := range append(append([]string{}, poolStrs...), poolBools...) {
		for _, op := range []string{"+", "-", "!", "^"} {
			opCase(c, "un", op, "-", x)
		}
		for _, k := range allKinds {
			opCase(c, "repr", k, x)
		}
		opCase(c, "zero", x)
	}
	for _, a := range poolStrs {
		for _, b := range poolStrs {
			for _, op := range binOps[:7] {
				opCase(c, "bin", op, a, b)
			}
			opCase(c, "bin", "-", a, b)
			opCase(c, "eq", a, b)
		}
	}
	for _, a := range poolBools {
		for _, b := range poolBools {
			for _, op := range binOps {
				if op != "<<" && op != ">>" {
					opCase(c, "bin", op, a, b)
				}
			}
			opCase(c, "eq", a, b)
		}
	}
	// integer pairs: the int64 fast paths, exhaustively over a boundary set
	small := []string{}
	for _, d := range poolInts {
		if strings.HasPrefix(d, "I64:") {
			small = append(small, d)
		}
	}
	critical := []string{"I64:-9223372036854775808", "I64:-9223372036854775807", "I64:9223372036854775807", "I64:9223372036854775806",
		"I64:-1", "I64:0", "I64:1", "I64:2", "I64:-2", "I64:3037000499", "I64:3037000500", "I64:-3037000500", "I64:4611686018427387904", "I64:-4611686018427387904", "I64:4294967296", "I64:-4294967296", "I64:2147483648"}
	for _, a := range critical {
		for _, b := range critical {
			for _, op := range []string{"+", "-", "*", "/", "%", "<", "==", "&", "|", "^", "&^"} {
				opCase(c, "bin", op, a, b)
			}
		}
	}
	step := 1
	if !c.Thorough() {
		step = 4
	}
	k := 0
	for _, a := range small {
		for _, b := range small {
			k++
			if k%step != 0 {
				continue
			}
			for _, op := range []string{"+", "-", "*", "/", "%", "<", "=="} {
				opCase(c, "bin", op, a, b)
			}
		}
	}
	// shifts: every number as left operand, a set of counts
	counts := []string{"I64:0", "I64:1", "I64:63", "I64:64", "I64:65", "I64:511", "I64:512", "I64:513", "I64:-1", "Big:18446744073709551615", "Big:18446744073709551616", "F64:1p1", "F64:3p-1", "Rat:4/1", "Rat:1/3", "BigF:1p3", "Cplx:I64:2,I64:0", "Cplx:I64:2,I64:1", "Big:3", "Big:-3", "I64:448", "I64:449", "I64:1074", "I64:1075", "Big:1074", "Big:1075", "F64:537p1", "F64:1075p0", "I64:9223372036854775807"}
	for i, x := range all {
		for j, n := range counts {
			if !c.Thorough() && (i+j)%3 != 0 {
				continue
			}
			opCase(c, "bin", "<<", x, n)
			opCase(c, "bin", ">>", x, n)
		}
	}
	// random pairs over the whole numeric pool with every operator
	for i := 0; i < c.N; i++ {
		a := all[c.Rng.Intn(len(all))]
		b := all[c.Rng.Intn(len(all))]
		if i%3 == 0 {
			a = nums[c.Rng.Intn(len(nums))]
			b = nums[c.Rng.Intn(len(nums))]
		}
		op := binOps[c.Rng.Intn(len(binOps)-2)]
		switch i % 7 {
		case 0:
			opCase(c, "eq", a, b)
		case 1:
			// toSameConstImpl does not terminate on two constants of the same class
			if a[:strings.IndexByte(a, ':')] == b[:strings.IndexByte(b, ':')] {
				opCase(c, "eq", a, b)
			} else {
				opCase(c, "same", a, b)
			}
		default:
			opCase(c, "bin", op, a, b)
		}
	}
}

// ---------------------------------------------------------------- declaration level

// declResult is Scriggo's canonical answer for a declaration: the line the model must print.
func declResult(d *Decl) string {
	desc, typ, untyped, err := verifhook.ConstEval(d.Program(), "C")
	if err != nil {
		if cl := scErrClass(err.Error()); cl != "fault" {
			return "err:" + cl
		}
		return "fault"
	}
	u := "t"
	if untyped {
		u = "u"
	}
	if canon("ok:"+desc) == "fault" {
		return "fault"
	}
	return "ok:" + typ + ":" + u + ":" + desc
}

func genDecls(c *Ctx, n int, f func(d *Decl)) {
	g := &gen{r: c.Rng}
	for i := 0; i < n; i++ {
		depth := 1 + i%4
		f(g.decl(depth))
	}
}

func init() {
	Register("C02-cases", func(c *Ctx) {
		if c.ReplayInput() != nil {
			return
		}
		opCases(c)
		genDecls(c, c.N/2, func(d *Decl) {
			res := declResult(d)
			c.Line("decl", d.Term(), res)
			c.Count("cases")
			c.Count("op:decl")
			lineCase(c, []string{"decl", d.Term()}, res)
		})
	})
	Register("C02-sweep", sweep)
}

// ---------------------------------------------------------------- sweep

type verdict struct {
	kind string // "" = agree
	det  map[string]string
	soft bool // agreement only within the 512 bit rounding tolerance
	near bool // value mismatch, but within 2^-300 relative and Scriggo's value went through a 512 bit float
}

func compare(prog string) verdict {
	g := goEval(prog)
	s := scEval(prog)
	det := map[string]string{"src": prog}
	if s.Err != "" {
		det["scriggo"] = "error: " + s.Err
	} else {
		det["scriggo"] = s.Type + " " + s.Desc
	}
	if g.Err != "" {
		det["go"] = "error: " + g.Err
	} else {
		det["go"] = g.Type + " " + g.Exact
	}
	if len(det["go"]) > 300 {
		det["go"] = det["go"][:300] + "..."
	}
	if len(det["scriggo"]) > 300 {
		det["scriggo"] = det["scriggo"][:300] + "..."
	}
	if strings.HasPrefix(g.Err, "parse:") {
		return verdict{kind: "generator", det: det}
	}
	if s.Err != "" && scErrClass(s.Err) == "fault" {
		return verdict{kind: "fault", det: det}
	}
	switch {
	case g.Err != "" && s.Err != "":
		return verdict{}
	case g.Err != "":
		return verdict{kind: "accepts:" + goErrClass(g.Err), det: det}
	case s.Err != "":
		return verdict{kind: "rejects:" + scErrClass(s.Err), det: det}
	}
	if g.Type != s.Type {
		return verdict{kind: "type", det: det}
	}
	switch g.Kind {
	case constant.Bool:
		if s.IsNum || s.Bool != g.Bool {
			return verdict{kind: "value", det: det}
		}
	case constant.String:
		if s.IsNum || s.Str != g.Str {
			return verdict{kind: "value", det: det}
		}
	default:
		if !s.IsNum {
			return verdict{kind: "value", det: det}
		}
		im1, im2 := s.Im, g.Im
		if im1 == nil {
			im1 = new(big.Rat)
		}
		if im2 == nil {
			im2 = new(big.Rat)
		}
		if s.Re.Cmp(g.Re) == 0 && im1.Cmp(im2) == 0 {
			return verdict{}
		}
		if g.Kind != constant.Int && closeEnough(s.Re, g.Re) && closeEnough(im1, im2) {
			return verdict{soft: true}
		}
		return verdict{kind: "value", det: det, near: g.Kind != constant.Int && s.Inexact && closeTo(s.Re, g.Re, 300) && closeTo(im1, im2, 300)}
	}
	return verdict{}
}

func goClass(e *Expr) string {
	if e.HasRef() {
		return "ref"
	}
	g := goEval((&Decl{E: e}).Program())
	if g.Err != "" {
		return "?"
	}
	t := g.Type
	switch {
	case t == "untyped int", t == "untyped rune":
		return "ui"
	case t == "untyped float":
		return "uf"
	case t == "untyped complex":
		return "uc"
	case t == "untyped bool", t == "bool":
		return "b"
	case t == "untyped string", t == "string":
		return "s"
	case strings.HasPrefix(t, "float"):
		return "tf"
	case strings.HasPrefix(t, "complex"):
		return "tc"
	}
	return "ti"
}

func opGroup(op string) string {
	switch op {
	case "+", "-", "*":
		return "arith"
	case "/":
		return "div"
	case "%":
		return "rem"
	case "&", "|", "^", "&^":
		return "bit"
	case "<<":
		return "shl"
	case ">>":
		return "shr"
	case "&&", "||":
		return "logic"
	}
	return "cmp"
}

func exprClass(e *Expr) string {
	switch e.K {
	case "un":
		return "un" + e.Op + "/" + goClass(e.X)
	case "bin":
		return opGroup(e.Op) + "/" + goClass(e.X) + "," + goClass(e.Y)
	case "conv":
		k := e.Kind
		switch {
		case strings.HasPrefix(k, "float"):
			k = "float"
		case strings.HasPrefix(k, "complex"):
			k = "complex"
		case k != "string" && k != "bool":
			k = "int"
		}
		return "conv-" + k + "/" + goClass(e.X)
	}
	return "lit-" + e.K
}

// softOperand reports whether an operand of e agrees with Go only within the rounding tolerance.
func softOperand(e *Expr) bool {
	for _, ch := range e.Children() {
		if ch.HasRef() {
			continue
		}
		if v := compare((&Decl{E: ch}).Program()); v.kind == "" && v.soft {
			return true
		}
		if softOperand(ch) {
			return true
		}
	}
	return false
}

// shrink descends to a smallest failing sub-expression.
func shrink(d *Decl, v verdict) (*Decl, verdict) {
	for {
		var cand []*Decl
		if d.A != nil {
			cand = append(cand, &Decl{T: d.TA, E: d.A}, inline(d))
		} else if d.T != "" {
			cand = append(cand, &Decl{E: d.E})
		}
		if d.A == nil {
			for _, ch := range d.E.Children() {
				cand = append(cand, &Decl{E: ch})
			}
			// typed op untyped: the untyped operand is converted to the type
			// of the other one first; try that conversion on its own
			if e := d.E; e.K == "bin" && e.Op != "<<" && e.Op != ">>" && !e.HasRef() {
				tx, ty := goType(e.X), goType(e.Y)
				if isFloatType(tx) && strings.HasPrefix(ty, "untyped ") {
					cand = append(cand, &Decl{E: &Expr{K: "conv", Kind: tx, X: e.Y}})
				}
				if isFloatType(ty) && strings.HasPrefix(tx, "untyped ") {
					cand = append(cand, &Decl{E: &Expr{K: "conv", Kind: ty, X: e.X}})
				}
			}
		}
		found := false
		for _, cd := range cand {
			if cd.E.HasRef() {
				continue
			}
			if w := compare(cd.Program()); w.kind != "" {
				d, v, found = cd, w, true
				break
			}
		}
		if !found {
			return d, v
		}
	}
}

// inline replaces the references to the first constant of a group by its
// (converted) initialiser, giving a single declaration with the same meaning.
func inline(d *Decl) *Decl {
	var sub func(e *Expr) *Expr
	sub = func(e *Expr) *Expr {
		if e == nil {
			return nil
		}
		if e.K == "ref" {
			if d.TA != "" {
				return &Expr{K: "conv", Kind: d.TA, X: d.A}
			}
			return d.A
		}
		c := *e
		c.X, c.Y = sub(e.X), sub(e.Y)
		return &c
	}
	return &Decl{T: d.T, E: sub(d.E)}
}

func hasComplex(e *Expr) bool {
	if e.K == "imag" || e.K == "conv" && strings.HasPrefix(e.Kind, "complex") {
		return true
	}
	for _, ch := range e.Children() {
		if hasComplex(ch) {
			return true
		}
	}
	return false
}

func signature(d *Decl, v verdict) string {
	if d.A == nil {
		e := d.E
		isShift := e.K == "bin" && (e.Op == "<<" || e.Op == ">>")
		switch {
		case v.kind == "rejects:bigoverflow" && e.K == "bin" && opGroup(e.Op) != "cmp" && (goClass(e.X) == "uc" || goClass(e.Y) == "uc"):
			// an integer part of a complex operation exceeds 512 bits: Scriggo
			// returns the overflow error of the part operation (before fix
			// df0b361 it panicked), go/types does not bound the parts of a
			// complex constant
			return "complex-int-part-over-512-bits"
		case v.kind == "rejects:invalidop" && isShift && (goClass(e.Y) == "tf" || goClass(e.Y) == "tc"):
			// go/types accepts a typed float constant count, the spec and Scriggo do not
			return "shift-count-typed-float"
		}
		if v.near {
			return "float-rounding-visible"
		}
		if v.kind == "value" && e.K == "bin" && (opGroup(e.Op) == "arith" || e.Op == "/") && typedFloatDoubleRounding(e) {
			// typed float or complex operands: every operation on the parts is
			// rounded to 512 bits and the result is then rounded to the type
			return "float-rounding-visible"
		}
		if d.T != "" {
			if w := compare((&Decl{E: e}).Program()); w.kind == "" && w.soft {
				return "float-rounding-visible"
			}
		}
	}
	cls := ""
	switch {
	case d.A != nil:
		cls = "group"
	case d.T != "":
		cls = "decl-" + d.T + "/" + goClass(d.E)
	default:
		cls = exprClass(d.E)
	}
	if (v.kind == "value" || strings.HasPrefix(v.kind, "accepts") || strings.HasPrefix(v.kind, "rejects")) && d.A == nil && softOperand(d.E) {
		return "float-rounding-visible"
	}
	return v.kind + "/" + cls
}

// ---- printing through scriggo.Build and Run

func buildAndPrint(decl string) (out string, err error) {
	src := "package main\n\nimport \"fmt\"\n\n" + decl + "\n\nfunc main() { fmt.Println(C) }\n"
	var buf bytes.Buffer
	pkgs := native.Packages{"fmt": native.Package{Name: "fmt", Declarations: native.Declarations{
		"Println": func(a ...any) { fmt.Fprintln(&buf, a...) },
	}}}
	msg := PanicText(func() {
		var p *scriggo.Program
		p, err = scriggo.Build(scriggo.Files{"main.go": []byte(src)}, &scriggo.BuildOptions{Packages: pkgs})
		if err != nil {
			return
		}
		err = p.Run(nil)
	})
	if msg != "" {
		return "", fmt.Errorf("panic: %s", msg)
	}
	return buf.String(), err
}

// expectedPrint is what gc prints for fmt.Println(C), derived from go/constant.
func expectedPrint(decl string) (string, bool) {
	g := goEval("package main\n\n" + decl + "\n\nvar X interface{} = C\n\nfunc main() {}\n")
	if g.Err != "" {
		return "", false
	}
	// a constant is never a negative zero
	f64 := func(r *big.Rat) float64 { f, _ := r.Float64(); return f + 0 }
	f32 := func(r *big.Rat) float32 { f, _ := r.Float32(); return f + 0 }
	var v any
	switch t := g.Type; t {
	case "untyped bool", "bool":
		v = g.Bool
	case "untyped string", "string":
		v = g.Str
	case "untyped float", "float64":
		v = f64(g.Re)
	case "float32":
		v = f32(g.Re)
	case "untyped complex", "complex128":
		im := g.Im
		if im == nil {
			im = new(big.Rat)
		}
		v = complex(f64(g.Re), f64(im))
	case "complex64":
		im := g.Im
		if im == nil {
			im = new(big.Rat)
		}
		v = complex(f32(g.Re), f32(im))
	default:
		if !g.Re.IsInt() {
			return "", false
		}
		n := g.Re.Num()
		switch {
		case strings.HasPrefix(t, "uint"):
			if !n.IsUint64() {
				return "", false
			}
			v = n.Uint64()
		default:
			if !n.IsInt64() {
				return "", false
			}
			v = n.Int64()
		}
	}
	if f, ok := v.(float64); ok && f == 0 && math.Signbit(f) {
		v = 0.0
	}
	return fmt.Sprintln(v), true
}

func report(c *Ctx, d *Decl, v verdict) {
	md, mv := shrink(d, v)
	if oracleDefect(md, mv) {
		c.Count("oracle-defect-minint64-div-minus1")
		return
	}
	sig := signature(md, mv)
	det := mv.det
	det["decl"] = md.Src()
	det["found_in"] = d.Src()
	c.Fail(sig, det)
}

func sweep(c *Ctx) {
	seenSample := 0
	one := func(d *Decl) {
		c.Count("evaluations")
		prog := d.Program()
		v := compare(prog)
		if v.kind == "generator" {
			c.Count("generator-rejected")
			return
		}
		if v.kind != "" {
			report(c, d, v)
			return
		}
		if v.soft {
			c.Count("agree-within-rounding")
		}
		c.Count("class:" + rootClass(d))
		if g := goEval(prog); g.Err == "" {
			c.Count("nontrivial")
			c.Count("accepted")
			if seenSample < 3 && d.E.K == "bin" {
				seenSample++
				c.Sample(map[string]string{"decl": d.Src(), "go": g.Type + " " + trunc(g.Exact, 80)})
			}
		} else {
			c.Count("rejected-by-both")
			c.Count("goerr:" + goErrClass(g.Err))
		}
	}
	if in := c.ReplayInput(); in != nil {
		if s, ok := in["decl"].(string); ok {
			replayDecl(c, s)
		}
		return
	}
	// fixed corpus of the inputs named in the property and of repaired defects
	for _, s := range corpus {
		replayDecl(c, s)
	}
	// values stated by hand (exact integer arithmetic), for the inputs on which go/constant is itself wrong
	for _, e := range expectCorpus {
		c.Count("evaluations")
		r := scEval("package main\n\n" + e[0] + "\n\nfunc main() { }\n")
		got := "error: " + r.Err
		if r.Err == "" && r.Re != nil && r.Re.IsInt() {
			got = r.Type + " " + r.Re.Num().String()
		}
		if got != e[1] {
			c.Fail("value/expected", map[string]string{"decl": e[0], "scriggo": got, "want": e[1]})
		} else {
			c.Count("nontrivial")
		}
	}
	genDecls(c, c.N, one)
	// printed value through scriggo.Build + Run on a sample
	g := &gen{r: c.Rng}
	np := c.N / 10
	for i := 0; i < np; i++ {
		d := g.decl(1 + i%3)
		if v := compare(d.Program()); v.kind != "" && v.kind != "generator" {
			c.Count("evaluations")
			report(c, d, v)
			continue
		}
		printCheck(c, d.Src())
	}
}

func printCheck(c *Ctx, decl string) {
	want, ok := expectedPrint(decl)
	got, err := buildAndPrint(decl)
	c.Count("evaluations")
	c.Count("printed")
	det := map[string]string{"decl": decl, "want": want, "got": got, "mode": "print"}
	switch {
	case err != nil && strings.HasPrefix(err.Error(), "panic:"):
		det["error"] = err.Error()
		c.Fail("fault/print", det)
	case ok && err != nil:
		det["error"] = err.Error()
		// the declaration-level comparison reports verdict differences; only
		// report here when the type checkers agree on the declaration itself
		if v := compare("package main\n\n" + decl + "\n\nfunc main() { }\n"); v.kind == "" {
			c.Fail("print-rejects", det)
		}
	case !ok && err == nil:
		if v := compare("package main\n\n" + decl + "\n\nfunc main() { }\n"); v.kind == "" && !v.soft {
			c.Fail("print-accepts", det)
		}
	case ok && got != want:
		if v := compare("package main\n\n" + decl + "\n\nfunc main() { }\n"); v.kind == "" && !v.soft {
			c.Fail("print-value", det)
		}
	default:
		if ok {
			c.Count("nontrivial")
		}
	}
}

func replayDecl(c *Ctx, decl string) {
	c.Count("evaluations")
	prog := "package main\n\n" + decl + "\n\nfunc main() { }\n"
	v := compare(prog)
	if d, ok := parseDecl(decl); ok && v.kind != "" && v.kind != "generator" {
		// same attribution as for a generated declaration
		report(c, d, v)
		return
	}
	if v.kind != "" && v.kind != "generator" {
		v.det["decl"] = decl
		c.Fail(v.kind+"/corpus", v.det)
		return
	}
	c.Count("nontrivial")
	printCheck(c, decl)
}

func rootClass(d *Decl) string {
	if d.A != nil {
		return "group"
	}
	if d.E.K == "bin" {
		return opGroup(d.E.Op)
	}
	return d.E.K
}

func trunc(s string, n int) string {
	if len(s) > n {
		return s[:n] + "..."
	}
	return s
}

// expectCorpus: declaration and the exact result (type and value).
var expectCorpus = [][2]string{
	{"const C = (-9223372036854775807 - 1) / -1", "untyped int 9223372036854775808"},
	{"const C = (-9223372036854775807 - 1) % -1", "untyped int 0"},
	{"const C = -(-9223372036854775807 - 1)", "untyped int 9223372036854775808"},
	{"const C = (-9223372036854775807 - 1) * -1", "untyped int 9223372036854775808"},
	{"const C = int64(-9223372036854775807 - 1) / -1", "error: :3:43: invalid operation: int64(-9223372036854775807 - 1) / -1 (constant 9223372036854775808 overflows int64)"},
}

// corpus: the inputs named by the property text and the reproducers of the repaired defects.
var corpus = []string{
	"const C = (3+4i)*(3+4i)",
	"const C = (1+2i)/(3+4i)",
	"const (\n\tn uint8 = 1\n\tC = 1 << 63\n)",
	"const C = 0x1p-2000 * 0x1p2000",
	"const C = float64(9007199254740993) == 9007199254740992",
	"const (\n\tc float32 = 16777217\n\tC = c == 16777216\n)",
	"const C = 9223372036854775807 + 1",
	"const C = -(-9223372036854775808)",
	"const C = ^uint64(0)",
	"const C = ^uint8(3)",
	"const C = ^int8(3)",
	"const C uint64 = 18446744073709551615",
	"const C uintptr = 18446744073709551615",
	"const C uint64 = 18446744073709551616",
	"const C = 1 << 511",
	"const C = 1 << 512",
	"const C = 1 << 511 << 1",
	"const C = 1 / 0",
	"const C = 1.0 / 0",
	"const C = 1 % 0",
	"const C = int8(1) / 0",
	"const C = int(2.5)",
	"const C = int(2.0)",
	"const C = uint8(255) + 1",
	"const C = -7 / 2",
	"const C = -7 % 2",
	"const C = 7 % -2",
	"const C = 3037000500 * 3037000500",
	"const C = 3037000499 * 3037000499",
	"const C = -9223372036854775808 * -1",
	"const C = 1e400 / 1e399",
	"const C = \"a\" + \"b\" < \"b\"",
	"const C = 1 << 3.0",
	"const C = -1 >> 70",
	// regressions of fix df0b361 (these made Build panic); what is left of them
	// is the known finding complex-int-part-over-512-bits
	"const C = (1<<511 + 0i) * (1<<511 + 0i)",
	"const C = 1e3i / ((1 << 256) + 1)",
	"const C = (1<<300 + 1i) * (1<<300 - 1i)",
	"const C = (1 << 511 * 1i) * (1 << 511 * 1i)",
	"const C = (3 + 1 << 300 * 1i) * (5 + 1 << 300 * 1i)",
	"const C = 1 / (1 << 300 * 1i)",
	// regressions of fix 01e9b06 (ordered comparison of complex constants was accepted)
	"const C = complex128(1) < 2",
	"const C = complex64(1) >= complex64(2)",
	"const C = 2 < (1+0i)",
	"const C = complex128(1) == 1",
	// regressions of fix c78e043 (the result of >> was not checked against the 512 bit limit)
	"const C = 0x1p1000 >> 65",
	"const C = 0x1p600 >> 200",
	"const C = 1e400 >> 1",
	"const C = 1e400 >> 1000",
	// regressions of fix 9f165da (a rational that is not a float64 was rounded to 512 bits first, then to the float type)
	"const C = float64(1e-400 + 9007199254740993.0)",
	"const C = float32(1e-400 + 16777217.0)",
	"const C float64 = 1e-400 + 9007199254740993.0",
	"const C = complex64(1e-400 + 16777217.0)",
	"const C = float64(1e400 / 3)",
	"const C = float64(-1e-400 / 3)",
	// regressions of fix d3683c7 (the count limit was 511 for << only, also for a zero operand)
	"const C = 0 << 512",
	"const C = 0 << 1074",
	"const C = 0 << 1075",
	"const C = 1 >> 2000",
	"const C = 1 >> 1074",
	"const C = 1 >> 1075",
	"const C = 1 << 512",
	"const C = 0.0 << 600",
	"const C = int8(0) << 600",
	"const C = uint8(1) << 600",
	"const C = -1 >> 1074",
}

// oracleDefect recognises the one input class on which go/constant itself is
// wrong: its int64 fast path computes MinInt64 / -1 with a wrapping int64
// division and yields MinInt64 instead of 2^63.
func oracleDefect(d *Decl, v verdict) bool {
	if d.A != nil || d.E.K != "bin" || d.E.Op != "/" {
		return false
	}
	a := goEval((&Decl{E: d.E.X}).Program())
	b := goEval((&Decl{E: d.E.Y}).Program())
	if a.Err != "" || b.Err != "" || a.Re == nil || b.Re == nil || a.Kind != constant.Int || b.Kind != constant.Int {
		return false
	}
	return a.Re.Cmp(new(big.Rat).SetInt64(math.MinInt64)) == 0 && b.Re.Cmp(new(big.Rat).SetInt64(-1)) == 0
}

func goType(e *Expr) string {
	if e.HasRef() {
		return "?"
	}
	g := goEval((&Decl{E: e}).Program())
	if g.Err != "" {
		return "?"
	}
	return g.Type
}

func isFloatType(t string) bool {
	return t == "float32" || t == "float64" || t == "complex64" || t == "complex128"
}

// typedFloatDoubleRounding decides, by recomputation, whether the value
// difference of the operation e = X op Y on operands of a float or complex
// type is exactly the recorded finding float-rounding-visible: Scriggo holds
// the operands exactly as go/constant does, and its result is what the
// operations on the parts give when each of them is executed by big.Float at
// 512 bits and the parts are then rounded to the type, while Go rounds the
// exact result once.
func typedFloatDoubleRounding(e *Expr) bool {
	if e.HasRef() {
		return false
	}
	t := goType(e)
	if !isFloatType(t) {
		return false
	}
	zero := new(big.Rat)
	or0 := func(x *big.Rat) *big.Rat {
		if x == nil {
			return zero
		}
		return x
	}
	var val [2][2]*big.Float
	for i, o := range []*Expr{e.X, e.Y} {
		oe := o
		if goType(o) != t {
			oe = &Expr{K: "conv", Kind: t, X: o}
		}
		p := (&Decl{E: oe}).Program()
		sv, gv := scEval(p), goEval(p)
		if sv.Err != "" || gv.Err != "" || !sv.IsNum || gv.Re == nil {
			return false
		}
		if sv.Re.Cmp(gv.Re) != 0 || or0(sv.Im).Cmp(or0(gv.Im)) != 0 {
			return false // an operand differs
		}
		val[i] = [2]*big.Float{new(big.Float).SetPrec(512).SetRat(gv.Re), new(big.Float).SetPrec(512).SetRat(or0(gv.Im))}
		if x, _ := val[i][0].Rat(nil); x.Cmp(gv.Re) != 0 {
			return false // not exact at 512 bits
		}
		if x, _ := val[i][1].Rat(nil); x.Cmp(or0(gv.Im)) != 0 {
			return false
		}
	}
	rp := (&Decl{E: e}).Program()
	r, gr := scEval(rp), goEval(rp)
	if r.Err != "" || gr.Err != "" || !r.IsNum || gr.Re == nil {
		return false
	}
	nf := func() *big.Float { return new(big.Float).SetPrec(512) }
	mul := func(x, y *big.Float) *big.Float { return nf().Mul(x, y) }
	add := func(x, y *big.Float) *big.Float { return nf().Add(x, y) }
	sub := func(x, y *big.Float) *big.Float { return nf().Sub(x, y) }
	a, b, c, d := val[0][0], val[0][1], val[1][0], val[1][1]
	var re, im *big.Float
	switch e.Op {
	case "+":
		re, im = add(a, c), add(b, d)
	case "-":
		re, im = sub(a, c), sub(b, d)
	case "*":
		re, im = sub(mul(a, c), mul(b, d)), add(mul(b, c), mul(a, d))
	case "/":
		sq := add(mul(c, c), mul(d, d))
		if sq.Sign() == 0 {
			return false
		}
		re = nf().Quo(add(mul(a, c), mul(b, d)), sq)
		im = nf().Quo(sub(mul(b, c), mul(a, d)), sq)
		if d.Sign() == 0 && b.Sign() == 0 {
			re, im = nf().Quo(a, c), nf()
		}
	default:
		return false
	}
	is32 := t == "float32" || t == "complex64"
	toType := func(f *big.Float) *big.Rat {
		if is32 {
			x, _ := f.Float32()
			return new(big.Rat).SetFloat64(float64(x))
		}
		x, _ := f.Float64()
		return new(big.Rat).SetFloat64(x)
	}
	wr, wi := toType(re), toType(im)
	if wr == nil || wi == nil {
		return false
	}
	if r.Re.Cmp(wr) != 0 || or0(r.Im).Cmp(wi) != 0 {
		return false // not what the 512 bit operations give
	}
	return r.Re.Cmp(gr.Re) != 0 || or0(r.Im).Cmp(or0(gr.Im)) != 0
}
