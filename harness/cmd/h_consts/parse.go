package main

import (
	"go/ast"
	"go/parser"
	"go/token"
	"strings"
)

// parseDecl reads a declaration of the forms the generator prints back into
// its tree, so that a replayed input is shrunk and attributed like a generated one.
func parseDecl(src string) (*Decl, bool) {
	f, err := parser.ParseFile(token.NewFileSet(), "d.go", "package p\n"+src+"\n", 0)
	if err != nil || len(f.Decls) != 1 {
		return nil, false
	}
	gd, ok := f.Decls[0].(*ast.GenDecl)
	if !ok || gd.Tok != token.CONST || len(gd.Specs) < 1 || len(gd.Specs) > 2 {
		return nil, false
	}
	spec := func(s ast.Spec, name string) (string, *Expr, bool) {
		vs, ok := s.(*ast.ValueSpec)
		if !ok || len(vs.Names) != 1 || vs.Names[0].Name != name || len(vs.Values) != 1 {
			return "", nil, false
		}
		t := ""
		if vs.Type != nil {
			id, ok := vs.Type.(*ast.Ident)
			if !ok {
				return "", nil, false
			}
			t = id.Name
		}
		e, ok := exprOf(vs.Values[0])
		return t, e, ok
	}
	d := &Decl{}
	if len(gd.Specs) == 2 {
		if d.TA, d.A, ok = spec(gd.Specs[0], "a"); !ok {
			return nil, false
		}
	}
	if d.T, d.E, ok = spec(gd.Specs[len(gd.Specs)-1], "C"); !ok {
		return nil, false
	}
	return d, true
}

func exprOf(x ast.Expr) (*Expr, bool) {
	switch x := x.(type) {
	case *ast.ParenExpr:
		return exprOf(x.X)
	case *ast.BasicLit:
		k := map[token.Token]string{token.INT: "int", token.FLOAT: "float", token.IMAG: "imag", token.CHAR: "rune", token.STRING: "str"}[x.Kind]
		if k == "" || k == "rune" && strings.Contains(x.Value, "\\") || k == "str" && strings.ContainsAny(x.Value, "\\`") {
			return nil, false
		}
		return &Expr{K: k, Lit: x.Value}, true
	case *ast.Ident:
		switch x.Name {
		case "true", "false":
			return &Expr{K: "bool", Lit: x.Name}, true
		case "a":
			return &Expr{K: "ref"}, true
		}
	case *ast.UnaryExpr:
		e, ok := exprOf(x.X)
		return &Expr{K: "un", Op: x.Op.String(), X: e}, ok
	case *ast.BinaryExpr:
		a, ok1 := exprOf(x.X)
		b, ok2 := exprOf(x.Y)
		return &Expr{K: "bin", Op: x.Op.String(), X: a, Y: b}, ok1 && ok2
	case *ast.CallExpr:
		if id, ok := x.Fun.(*ast.Ident); ok && len(x.Args) == 1 {
			e, ok := exprOf(x.Args[0])
			return &Expr{K: "conv", Kind: id.Name, X: e}, ok
		}
	}
	return nil, false
}
