package main

import (
	"fmt"
	"math/big"
	"math/rand"
	"strings"
	. "verif/harness/hlib"
)

// Constant expressions: the same tree is rendered as Go source (for Scriggo
// and for go/types) and as a prefix term for the Coq model.

type Expr struct {
	K    string // "int" "rune" "float" "imag" "str" "bool" (literals), "un", "bin", "conv", "ref"
	Lit  string // literal source text
	Op   string
	Kind string // conversion target
	X, Y *Expr
}

func (e *Expr) Src() string {
	switch e.K {
	case "un":
		return "(" + e.Op + e.X.Src() + ")"
	case "bin":
		return "(" + e.X.Src() + " " + e.Op + " " + e.Y.Src() + ")"
	case "conv":
		return e.Kind + "(" + e.X.Src() + ")"
	case "ref":
		return "a"
	}
	return e.Lit
}

// litRat returns the exact value of a float literal text (decimal or hex), as n/d.
func litRat(s string) string {
	s = strings.ReplaceAll(s, "_", "")
	r, ok := new(big.Rat).SetString(s)
	if !ok {
		panic("litRat: " + s)
	}
	return r.Num().String() + "/" + r.Denom().String()
}

func litInt(s string) string {
	s = strings.ReplaceAll(s, "_", "")
	i, ok := new(big.Int).SetString(s, 0)
	if !ok {
		panic("litInt: " + s)
	}
	return i.String()
}

// Term renders the expression for the model driver (space separated prefix form).
func (e *Expr) Term() string {
	switch e.K {
	case "int":
		return "Li " + litInt(e.Lit)
	case "rune":
		r := []rune(e.Lit[1 : len(e.Lit)-1])
		return fmt.Sprintf("Lr %d", r[0])
	case "float":
		return "Lf " + litRat(e.Lit)
	case "imag":
		t := e.Lit[:len(e.Lit)-1]
		if strings.ContainsAny(t, ".eEpP") {
			return "Lif " + litRat(t)
		}
		return "Lii " + litInt(t)
	case "str":
		return "Ls " + Hx(e.Lit[1:len(e.Lit)-1]) + "."
	case "bool":
		if e.Lit == "true" {
			return "Lb t"
		}
		return "Lb f"
	case "un":
		return "U " + e.Op + " " + e.X.Term()
	case "bin":
		return "B " + e.Op + " " + e.X.Term() + " " + e.Y.Term()
	case "conv":
		return "C " + e.Kind + " " + e.X.Term()
	case "ref":
		return "V"
	}
	panic("Term: " + e.K)
}

func (e *Expr) Children() []*Expr {
	var out []*Expr
	if e.X != nil {
		out = append(out, e.X)
	}
	if e.Y != nil {
		out = append(out, e.Y)
	}
	return out
}

func (e *Expr) HasRef() bool {
	if e.K == "ref" {
		return true
	}
	for _, c := range e.Children() {
		if c.HasRef() {
			return true
		}
	}
	return false
}

// Decl is a constant declaration whose last constant is named C.
//
//	const C [T] = E                      (A == nil)
//	const ( a [TA] = A ; C [T] = E )     (E may refer to a)
type Decl struct {
	TA string
	A  *Expr
	T  string
	E  *Expr
}

func (d *Decl) Src() string {
	ty := func(t string) string {
		if t == "" {
			return ""
		}
		return " " + t
	}
	if d.A == nil {
		return "const C" + ty(d.T) + " = " + d.E.Src()
	}
	return "const (\n\ta" + ty(d.TA) + " = " + d.A.Src() + "\n\tC" + ty(d.T) + " = " + d.E.Src() + "\n)"
}

func (d *Decl) Term() string {
	t := func(s string) string {
		if s == "" {
			return "-"
		}
		return s
	}
	if d.A == nil {
		return "D " + t(d.T) + " " + d.E.Term()
	}
	return "G " + t(d.TA) + " " + d.A.Term() + " " + t(d.T) + " " + d.E.Term()
}

func (d *Decl) Program() string {
	return "package main\n\n" + d.Src() + "\n\nfunc main() { }\n"
}

// ---------------------------------------------------------------- generator

var intKinds = []string{"int", "int8", "int16", "int32", "int64", "uint", "uint8", "uint16", "uint32", "uint64", "uintptr"}
var floatKinds = []string{"float32", "float64"}
var complexKinds = []string{"complex64", "complex128"}

var intLits = []string{
	"0", "1", "2", "3", "7", "10", "63", "64", "100", "127", "128", "255", "256", "32767", "32768", "65535", "65536",
	"2147483647", "2147483648", "4294967295", "4294967296", "9007199254740992", "9007199254740993", "16777217",
	"9223372036854775807", "9223372036854775808", "18446744073709551615", "18446744073709551616",
	"0x7fffffffffffffff", "0xffffffffffffffff", "0b1010", "0o17", "1_000",
	"4611686018427387904", "3037000500", "3037000499", "340282366920938463463374607431768211456",
}

var floatLits = []string{
	"0.0", "1.0", "2.0", "0.5", "1.5", "2.5", "0.1", "0.25", "3.0", "1e3", "1e-3", "1e100", "1e400", "1e-400", "0x1p-1074", "0x1p-2",
	"0x1p63", "0x1p64", "1.7976931348623157e308", "3.4028234663852886e38", "3.4028235e38", "1e39", "1e309", "4.9e-324", "1.0000000000000002",
	"16777217.0", "9007199254740993.0", "0.3333333333333333", "6.0", "7.0", "255.0", "256.0", "0x1p1000", "0x1.8p-1000", "1e-50", "123456789.125",
}

var imagLits = []string{"0i", "1i", "2i", "3i", "0.5i", "1.5i", "1e3i", "7i", "0.1i", "4i"}

var strLits = []string{`""`, `"a"`, `"b"`, `"ab"`, `"abc"`, `"A"`, `"é"`, `"a b"`}

var runeLits = []string{"'a'", "'A'", "'0'", "'é'", "'z'", "'€'"}

type gen struct {
	r *rand.Rand
}

func (g *gen) pick(xs []string) string { return xs[g.r.Intn(len(xs))] }

func lit(k, s string) *Expr { return &Expr{K: k, Lit: s} }

func (g *gen) bigPow() *Expr {
	// 1 << n and neighbours, around the interesting widths
	ns := []int{7, 8, 15, 16, 31, 32, 53, 62, 63, 64, 65, 100, 127, 128, 255, 256, 510, 511, 512}
	n := ns[g.r.Intn(len(ns))]
	e := &Expr{K: "bin", Op: "<<", X: lit("int", "1"), Y: lit("int", fmt.Sprint(n))}
	switch g.r.Intn(4) {
	case 0:
		return &Expr{K: "bin", Op: "-", X: e, Y: lit("int", "1")}
	case 1:
		return &Expr{K: "bin", Op: "+", X: e, Y: lit("int", "1")}
	case 2:
		return &Expr{K: "un", Op: "-", X: e}
	}
	return e
}

// untyped integer valued expression
func (g *gen) uint_(d int) *Expr {
	if d <= 0 || g.r.Intn(4) == 0 {
		switch g.r.Intn(12) {
		case 0:
			return g.bigPow()
		case 1:
			return lit("rune", g.pick(runeLits))
		case 2:
			return &Expr{K: "un", Op: "-", X: lit("int", g.pick(intLits))}
		}
		return lit("int", g.pick(intLits))
	}
	switch g.r.Intn(14) {
	case 0, 1:
		return &Expr{K: "un", Op: g.pick([]string{"-", "+", "^", "-"}), X: g.uint_(d - 1)}
	case 2, 3:
		return &Expr{K: "bin", Op: g.pick([]string{"<<", ">>"}), X: g.uint_(d - 1), Y: g.shiftCount()}
	case 4:
		return &Expr{K: "bin", Op: g.pick([]string{"/", "%"}), X: g.uint_(d - 1), Y: g.uint_(d - 1)}
	case 5, 6:
		return &Expr{K: "bin", Op: g.pick([]string{"&", "|", "^", "&^"}), X: g.uint_(d - 1), Y: g.uint_(d - 1)}
	}
	return &Expr{K: "bin", Op: g.pick([]string{"+", "-", "*", "*", "-"}), X: g.uint_(d - 1), Y: g.uint_(d - 1)}
}

func (g *gen) shiftCount() *Expr {
	switch g.r.Intn(20) {
	case 0:
		return lit("int", g.pick([]string{"511", "512", "513", "1000", "1074", "1075", "2000", "18446744073709551615", "18446744073709551616"}))
	case 1:
		return &Expr{K: "un", Op: "-", X: lit("int", "1")}
	case 2:
		return lit("float", g.pick([]string{"2.0", "1.5", "3.0"}))
	case 3:
		return &Expr{K: "conv", Kind: g.pick(intKinds), X: lit("int", g.pick([]string{"1", "3", "8"}))}
	}
	return lit("int", g.pick([]string{"0", "1", "2", "3", "7", "8", "15", "16", "31", "32", "33", "62", "63", "64", "65", "100", "200", "448", "500"}))
}

// untyped float (or int) valued expression
func (g *gen) ufloat(d int) *Expr {
	if d <= 0 || g.r.Intn(4) == 0 {
		if g.r.Intn(5) == 0 {
			return g.uint_(0)
		}
		return lit("float", g.pick(floatLits))
	}
	switch g.r.Intn(8) {
	case 0:
		return &Expr{K: "un", Op: g.pick([]string{"-", "+"}), X: g.ufloat(d - 1)}
	case 1:
		return &Expr{K: "bin", Op: "/", X: g.ufloat(d - 1), Y: g.ufloat(d - 1)}
	case 2:
		return &Expr{K: "bin", Op: g.pick([]string{"+", "*"}), X: g.uint_(d - 1), Y: g.ufloat(d - 1)}
	}
	return &Expr{K: "bin", Op: g.pick([]string{"+", "-", "*", "/"}), X: g.ufloat(d - 1), Y: g.ufloat(d - 1)}
}

func (g *gen) ucomplex(d int) *Expr {
	if d <= 0 || g.r.Intn(4) == 0 {
		switch g.r.Intn(8) {
		case 0, 1:
			return g.ufloat(0)
		case 2, 3:
			return &Expr{K: "bin", Op: g.pick([]string{"+", "-"}), X: g.ufloat(0), Y: lit("imag", g.pick(imagLits))}
		case 4:
			// a large imaginary part (the products of the parts can exceed 512 bits)
			return &Expr{K: "bin", Op: "*", X: g.bigPow(), Y: lit("imag", g.pick(imagLits))}
		}
		return lit("imag", g.pick(imagLits))
	}
	switch g.r.Intn(6) {
	case 0:
		return &Expr{K: "un", Op: g.pick([]string{"-", "+"}), X: g.ucomplex(d - 1)}
	case 1:
		return &Expr{K: "bin", Op: g.pick([]string{"+", "*", "/"}), X: g.ufloat(d - 1), Y: g.ucomplex(d - 1)}
	}
	return &Expr{K: "bin", Op: g.pick([]string{"+", "-", "*", "/"}), X: g.ucomplex(d - 1), Y: g.ucomplex(d - 1)}
}

// typed numeric expression of kind k
func (g *gen) typed(k string, d int) *Expr {
	isInt := !strings.HasPrefix(k, "float") && !strings.HasPrefix(k, "complex")
	isCplx := strings.HasPrefix(k, "complex")
	un := func(d int) *Expr {
		switch {
		case isInt:
			if g.r.Intn(6) == 0 {
				return g.ufloat(0)
			}
			return g.uint_(d)
		case isCplx:
			return g.ucomplex(d)
		}
		return g.ufloat(d)
	}
	if d <= 0 || g.r.Intn(3) == 0 {
		if g.r.Intn(6) == 0 {
			// conversion of another typed constant
			ks := intKinds
			if !isInt && g.r.Intn(2) == 0 {
				ks = floatKinds
			}
			return &Expr{K: "conv", Kind: k, X: g.typed(g.pick(ks), 0)}
		}
		return &Expr{K: "conv", Kind: k, X: un(d - 1)}
	}
	switch g.r.Intn(10) {
	case 0:
		ops := []string{"-", "+"}
		if isInt {
			ops = []string{"-", "+", "^", "^"}
		}
		return &Expr{K: "un", Op: g.pick(ops), X: g.typed(k, d-1)}
	case 1, 2:
		if isInt {
			return &Expr{K: "bin", Op: g.pick([]string{"<<", ">>"}), X: g.typed(k, d-1), Y: g.shiftCount()}
		}
	case 3:
		if isInt {
			return &Expr{K: "bin", Op: g.pick([]string{"&", "|", "^", "&^", "%", "/"}), X: g.typed(k, d-1), Y: g.typed(k, d-1)}
		}
	case 4:
		return &Expr{K: "bin", Op: g.arith(isInt), X: un(d - 1), Y: g.typed(k, d-1)}
	case 5:
		return &Expr{K: "bin", Op: g.arith(isInt), X: g.typed(k, d-1), Y: un(d - 1)}
	}
	return &Expr{K: "bin", Op: g.arith(isInt), X: g.typed(k, d-1), Y: g.typed(k, d-1)}
}

func (g *gen) arith(isInt bool) string {
	if isInt {
		return g.pick([]string{"+", "-", "*", "/", "%", "+", "-", "*"})
	}
	return g.pick([]string{"+", "-", "*", "/"})
}

func (g *gen) str(d int) *Expr {
	if d <= 0 || g.r.Intn(2) == 0 {
		if g.r.Intn(8) == 0 {
			return &Expr{K: "conv", Kind: "string", X: g.pickStrArg()}
		}
		return lit("str", g.pick(strLits))
	}
	return &Expr{K: "bin", Op: "+", X: g.str(d - 1), Y: g.str(d - 1)}
}

func (g *gen) pickStrArg() *Expr {
	switch g.r.Intn(3) {
	case 0:
		return lit("rune", g.pick(runeLits))
	case 1:
		return lit("int", g.pick([]string{"65", "0x20ac", "1114112", "55296", "4294967296"}))
	}
	return lit("str", g.pick(strLits))
}

var cmpOps = []string{"==", "!=", "<", "<=", ">", ">="}

func (g *gen) boolean(d int) *Expr {
	if d <= 0 {
		return lit("bool", g.pick([]string{"true", "false"}))
	}
	switch g.r.Intn(10) {
	case 0:
		return &Expr{K: "un", Op: "!", X: g.boolean(d - 1)}
	case 1:
		return &Expr{K: "bin", Op: g.pick([]string{"&&", "||", "==", "!="}), X: g.boolean(d - 1), Y: g.boolean(d - 1)}
	case 2:
		return &Expr{K: "bin", Op: g.pick(cmpOps), X: g.str(d - 1), Y: g.str(d - 1)}
	case 3:
		return &Expr{K: "bin", Op: g.pick([]string{"==", "!="}), X: g.ucomplex(d - 1), Y: g.ucomplex(d - 1)}
	case 4:
		k := g.pick(append(append([]string{}, intKinds...), floatKinds...))
		return &Expr{K: "bin", Op: g.pick(cmpOps), X: g.typed(k, d-1), Y: g.typed(k, d-1)}
	case 5:
		return &Expr{K: "bin", Op: g.pick(cmpOps), X: g.ufloat(d - 1), Y: g.uint_(d - 1)}
	}
	return &Expr{K: "bin", Op: g.pick(cmpOps), X: g.uint_(d - 1), Y: g.uint_(d - 1)}
}

// anyExpr yields an expression of a random class; with a small probability a
// deliberately ill-typed mixture.
func (g *gen) anyExpr(d int) *Expr {
	switch g.r.Intn(20) {
	case 0, 1, 2, 3, 4:
		return g.uint_(d)
	case 5, 6, 7:
		return g.ufloat(d)
	case 8, 9:
		return g.ucomplex(d)
	case 10, 11, 12, 13:
		return g.typed(g.pick(intKinds), d)
	case 14:
		return g.typed(g.pick(floatKinds), d)
	case 15:
		return g.typed(g.pick(complexKinds), d)
	case 16:
		return g.str(d)
	case 17, 18:
		return g.boolean(d)
	}
	// mixture
	ops := []string{"+", "-", "*", "/", "%", "&", "|", "^", "&^", "<<", ">>", "==", "<", "&&"}
	return &Expr{K: "bin", Op: g.pick(ops), X: g.anyExpr(d - 1), Y: g.anyExpr(d - 1)}
}

func (g *gen) declType() string {
	switch g.r.Intn(8) {
	case 0:
		return g.pick(intKinds)
	case 1:
		return g.pick([]string{"float32", "float64", "complex128", "complex64", "uint8", "int8", "int64", "uint64", "string", "bool"})
	}
	return ""
}

// substRef replaces one random leaf of e by a reference to the constant a.
func (g *gen) substRef(e *Expr) bool {
	if e.X == nil {
		return false
	}
	if e.Y != nil && g.r.Intn(2) == 0 {
		if e.Y.X == nil {
			e.Y = &Expr{K: "ref"}
			return true
		}
		return g.substRef(e.Y)
	}
	if e.X.X == nil {
		e.X = &Expr{K: "ref"}
		return true
	}
	return g.substRef(e.X)
}

func (g *gen) decl(depth int) *Decl {
	d := &Decl{}
	if g.r.Intn(4) == 0 {
		d.TA = g.declType()
		d.A = g.anyExpr(depth - 1)
		d.T = g.declType()
		d.E = g.anyExpr(depth)
		if g.r.Intn(4) != 0 {
			g.substRef(d.E)
		}
		return d
	}
	d.T = g.declType()
	d.E = g.anyExpr(depth)
	return d
}
