package main

import (
	"fmt"
	"go/ast"
	"go/constant"
	"go/parser"
	"go/token"
	"go/types"
	"math/big"
	"strings"

	"github.com/open2b/scriggo/verifhook"
)

// ---- the independent oracle: go/types + go/constant on the same source

type goResult struct {
	Err   string // "" when accepted
	Type  string // "untyped int", "uint8", ...
	Re    *big.Rat
	Im    *big.Rat // nil unless complex
	Str   string
	Bool  bool
	Kind  constant.Kind
	Exact string
}

func goEval(program string) goResult {
	fset := token.NewFileSet()
	f, err := parser.ParseFile(fset, "m.go", program, 0)
	if err != nil {
		return goResult{Err: "parse: " + err.Error()}
	}
	conf := types.Config{}
	pkg, err := conf.Check("main", fset, []*ast.File{f}, nil)
	if err != nil {
		return goResult{Err: err.Error()}
	}
	o, ok := pkg.Scope().Lookup("C").(*types.Const)
	if !ok {
		return goResult{Err: "no constant C"}
	}
	v := o.Val()
	r := goResult{Type: o.Type().String(), Kind: v.Kind(), Exact: v.ExactString()}
	switch v.Kind() {
	case constant.Bool:
		r.Bool = constant.BoolVal(v)
	case constant.String:
		r.Str = constant.StringVal(v)
	case constant.Int, constant.Float:
		r.Re = ratOf(v)
	case constant.Complex:
		r.Re = ratOf(constant.Real(v))
		r.Im = ratOf(constant.Imag(v))
	default:
		r.Err = "unknown constant value"
	}
	return r
}

func ratOf(v constant.Value) *big.Rat {
	switch x := constant.Val(v).(type) {
	case int64:
		return new(big.Rat).SetInt64(x)
	case *big.Int:
		return new(big.Rat).SetInt(x)
	case *big.Rat:
		return new(big.Rat).Set(x)
	case *big.Float:
		r, _ := x.Rat(nil)
		return r
	}
	panic(fmt.Sprintf("ratOf: %T", constant.Val(v)))
}

// ---- Scriggo's answer through the hook

type scResult struct {
	Err     string
	Desc    string
	Type    string // normalised to go/types spelling
	Re, Im  *big.Rat
	Str     string
	Bool    bool
	IsNum   bool
	Inexact bool // a part is a BigF (rounded at 512 bits)
}

func scEval(program string) scResult {
	desc, typ, untyped, err := verifhook.ConstEval(program, "C")
	if err != nil {
		return scResult{Err: err.Error()}
	}
	r := scResult{Desc: desc}
	if untyped {
		switch typ {
		case "int":
			r.Type = "untyped int"
		case "int32":
			r.Type = "untyped rune"
		case "float64":
			r.Type = "untyped float"
		case "complex128":
			r.Type = "untyped complex"
		case "bool":
			r.Type = "untyped bool"
		case "string":
			r.Type = "untyped string"
		default:
			r.Type = "untyped " + typ
		}
	} else {
		r.Type = typ
	}
	switch {
	case strings.HasPrefix(desc, "Bool:"):
		r.Bool = desc == "Bool:t"
	case strings.HasPrefix(desc, "Str:"):
		r.Str = Unhex(desc[4:])
	default:
		r.IsNum = true
		re, im, inexact, ok := descValue(desc)
		if !ok {
			r.Err = "verif: value not finite: " + desc
			return r
		}
		r.Re, r.Im, r.Inexact = re, im, inexact
	}
	return r
}

// descValue returns the exact value of a constant description.
func descValue(desc string) (re, im *big.Rat, inexact bool, ok bool) {
	i := strings.IndexByte(desc, ':')
	tag, v := desc[:i], desc[i+1:]
	switch tag {
	case "I64", "Big":
		n, k := new(big.Int).SetString(v, 10)
		if !k {
			return nil, nil, false, false
		}
		return new(big.Rat).SetInt(n), nil, false, true
	case "Rat":
		r, k := new(big.Rat).SetString(v)
		return r, nil, false, k
	case "F64", "BigF":
		if v == "-0" {
			return new(big.Rat), nil, false, true
		}
		j := strings.IndexByte(v, 'p')
		if j < 0 {
			return nil, nil, false, false
		}
		m, k := new(big.Int).SetString(v[:j], 10)
		if !k {
			return nil, nil, false, false
		}
		var e int
		if _, err := fmt.Sscanf(v[j+1:], "%d", &e); err != nil || e > 20000 || e < -20000 {
			return nil, nil, false, false
		}
		r := new(big.Rat).SetInt(m)
		p := new(big.Int).Lsh(big.NewInt(1), uint(abs(e)))
		if e >= 0 {
			r.Mul(r, new(big.Rat).SetInt(p))
		} else {
			r.Quo(r, new(big.Rat).SetInt(p))
		}
		return r, nil, tag == "BigF", true
	case "Cplx":
		// parts may be nested complex constants with a zero imaginary part
		parts := splitCplx(v)
		if parts == nil {
			return nil, nil, false, false
		}
		r1, i1, x1, k1 := descValue(parts[0])
		r2, i2, x2, k2 := descValue(parts[1])
		if !k1 || !k2 || (i1 != nil && i1.Sign() != 0) || (i2 != nil && i2.Sign() != 0) {
			return nil, nil, false, false
		}
		return r1, r2, x1 || x2, true
	}
	return nil, nil, false, false
}

// splitCplx splits "<re>,<im>" where the parts may themselves be Cplx:..,..
func splitCplx(v string) []string {
	// count: a part is either a simple constant (no comma) or Cplx:<p>,<p>
	var parse func(s string) int // returns the length of one constant at the start of s
	parse = func(s string) int {
		if strings.HasPrefix(s, "Cplx:") {
			n := 5
			a := parse(s[n:])
			if a < 0 || n+a >= len(s) || s[n+a] != ',' {
				return -1
			}
			b := parse(s[n+a+1:])
			if b < 0 {
				return -1
			}
			return n + a + 1 + b
		}
		j := strings.IndexByte(s, ',')
		if j < 0 {
			return len(s)
		}
		return j
	}
	a := parse(v)
	if a < 0 || a >= len(v) || v[a] != ',' {
		return nil
	}
	return []string{v[:a], v[a+1:]}
}

func abs(x int) int {
	if x < 0 {
		return -x
	}
	return x
}

func Unhex(s string) string {
	var b []byte
	for i := 0; i+1 < len(s); i += 2 {
		var x byte
		fmt.Sscanf(s[i:i+2], "%02x", &x)
		b = append(b, x)
	}
	return string(b)
}

// closeEnough: |a-b| <= 2^-480 * max(|a|,|b|)
func closeEnough(a, b *big.Rat) bool { return closeTo(a, b, 480) }

// closeTo: |a-b| <= 2^-bits * max(|a|,|b|)
func closeTo(a, b *big.Rat, bits uint) bool {
	if a.Cmp(b) == 0 {
		return true
	}
	d := new(big.Rat).Sub(a, b)
	d.Abs(d)
	m := new(big.Rat).Abs(a)
	if bb := new(big.Rat).Abs(b); bb.Cmp(m) > 0 {
		m = bb
	}
	tol := new(big.Rat).SetFrac(big.NewInt(1), new(big.Int).Lsh(big.NewInt(1), bits))
	return d.Cmp(m.Mul(m, tol)) <= 0
}

// scErrClass maps a Scriggo type checking error to a small enum.
func scErrClass(msg string) string {
	switch {
	case strings.Contains(msg, "verif: panic"):
		return "fault"
	case strings.Contains(msg, "division by zero"):
		return "div0"
	case strings.Contains(msg, "constant shift overflow"), strings.Contains(msg, "constant addition overflow"),
		strings.Contains(msg, "constant subtraction overflow"), strings.Contains(msg, "constant multiplication overflow"):
		return "bigoverflow"
	case strings.Contains(msg, "shift count too large"), strings.Contains(msg, "negative shift count"):
		return "shiftcount"
	case strings.Contains(msg, "overflows"):
		return "overflow"
	case strings.Contains(msg, "truncated"):
		return "trunc"
	case strings.Contains(msg, "constant too large"):
		return "toolarge"
	case strings.Contains(msg, "mismatched types"):
		return "mismatch"
	case strings.Contains(msg, "not defined on"), strings.Contains(msg, "floating-point % operation"),
		strings.Contains(msg, "shift of type"), strings.Contains(msg, "must be integer"):
		return "invalidop"
	case strings.Contains(msg, "cannot convert"), strings.Contains(msg, "cannot use"), strings.Contains(msg, "in assignment"):
		return "convert"
	case strings.Contains(msg, "invalid operation: ! "), strings.Contains(msg, "invalid operation: - "),
		strings.Contains(msg, "invalid operation: + "), strings.Contains(msg, "invalid operation: ^ "):
		// the operand of a unary operator has the wrong kind
		return "invalidop"
	}
	return "other"
}

func goErrClass(msg string) string {
	switch {
	case strings.Contains(msg, "division by zero"):
		return "div0"
	case strings.Contains(msg, "invalid shift count"), strings.Contains(msg, "negative shift count"):
		return "shiftcount"
	case strings.Contains(msg, "constant shift overflow"), strings.Contains(msg, "constant addition overflow"),
		strings.Contains(msg, "constant subtraction overflow"), strings.Contains(msg, "constant multiplication overflow"),
		strings.Contains(msg, "constant division overflow"), strings.Contains(msg, "excessively large constant"):
		return "bigoverflow"
	case strings.Contains(msg, "overflows"):
		return "overflow"
	case strings.Contains(msg, "truncated"), strings.Contains(msg, "must be integer"):
		return "trunc"
	case strings.Contains(msg, "mismatched types"):
		return "mismatch"
	case strings.Contains(msg, "not defined on"), strings.Contains(msg, "shifted operand"):
		return "invalidop"
	case strings.Contains(msg, "cannot convert"), strings.Contains(msg, "cannot use"):
		return "convert"
	}
	return "other"
}
