package main

// C27 over the primary-expression grammar.
//
//	C27x-cases  correspondence of the model of String and of the expression
//	            parser with the implementation:
//	  xshow    tree -> String(), byte for byte (or panic), with and without
//	           ast.expandedPrint
//	  xtoks    tree -> the tokens that the real lexer reads in the real
//	           String() = the model's tokens (with its reading of an integer
//	           literal before a period)
//	  xparse   token sequence (read by the real lexer from generated sources,
//	           printed trees and damaged token sequences) and flags -> the
//	           tree that parseExpr returns and the number of tokens left, a
//	           syntax error, or a crash
//	  xround   tree -> parseExpr(lexer(String())) on both sides
//	  xclaim   a tree that the model calls printable survives the real round
//	           trip (the theorem, observed on the implementation)

import (
	"fmt"
	"strings"

	. "verif/harness/hlib"

	"github.com/open2b/scriggo/ast"
	hook "github.com/open2b/scriggo/verifhook"
)

var xLitKind = map[string]int{
	"string": int(ast.StringLiteral), "rune": int(ast.RuneLiteral), "int": int(ast.IntLiteral),
	"float": int(ast.FloatLiteral), "imaginary": int(ast.ImaginaryLiteral),
}

var xKeywords = map[string]bool{"map": true, "struct": true, "interface": true, "func": true, "macro": true, "chan": true,
	"type": true, "default": true, "render": true}

// xtoken writes a real token in the driver's notation.
func xtoken(t hook.ExprToken) string {
	switch t.Typ {
	case "identifier":
		return "i:" + xhex(t.Txt)
	case "(", ")", "[", "]", "{", "}", ".", ":", "...":
		return t.Typ
	case "comma":
		return ","
	case "semicolon":
		return ";"
	}
	if k, ok := xLitKind[t.Typ]; ok {
		return fmt.Sprintf("l:%d:%s", k, xhex(t.Txt))
	}
	if xKeywords[t.Typ] {
		return "k:" + t.Typ
	}
	// an operator, or any other token: by the name of its type
	return "s:" + Hx(t.Typ)
}

func xtokens(ts []hook.ExprToken) string {
	var out []string
	for _, t := range ts {
		out = append(out, xtoken(t))
	}
	return strings.Join(out, " ")
}

// the tokens after the expression proper: the semicolon that the lexer adds
// at the end of a program source, the closing braces of a template
func xsplitSuffix(ts []hook.ExprToken, tmpl bool) (body, suffix []hook.ExprToken) {
	n := len(ts)
	if tmpl && n > 0 && ts[n-1].Typ == "}}" {
		return ts[:n-1], ts[n-1:]
	}
	if !tmpl && n > 0 && ts[n-1].Typ == "semicolon" && ts[n-1].Txt == "" {
		return ts[:n-1], ts[n-1:]
	}
	return ts, nil
}

type xparsed struct {
	res  string // the driver's notation of the result
	tree *xn
	ok   bool // an expression was returned and nothing is left but the suffix
}

// xrealParse runs the real parseExpr and writes its result as the driver does.
func xrealParse(src string, tmpl bool, fl [4]bool, suffixLen int) xparsed {
	var e ast.Expression
	var rest int
	var err error
	if m := PanicText(func() { e, rest, err = hook.ParseExprFlags([]byte(src), tmpl, fl[0], fl[1], fl[2], fl[3]) }); m != "" {
		return xparsed{res: "crash"}
	}
	if err != nil {
		return xparsed{res: "syntax-error"}
	}
	if e == nil {
		return xparsed{res: fmt.Sprintf("nil:%d", rest)}
	}
	t := xfromSafe(e)
	if t == nil {
		return xparsed{res: "outside-the-model"}
	}
	if t.hasKind("f") {
		return xparsed{res: "unsupported", tree: t}
	}
	return xparsed{res: fmt.Sprintf("ok:%d:%s", rest, t.text()), tree: t, ok: rest == suffixLen}
}

func xflagString(tmpl bool, fl [4]bool) string {
	return fmt.Sprintf("%d%d%d%d%d", b01(tmpl), b01(fl[0]), b01(fl[1]), b01(fl[2]), b01(fl[3]))
}

// sources whose parse may leave the model: a function literal (decided by
// what follows the function type), an escape in a tag or a path
func xmayLeaveModel(ts []hook.ExprToken) (hasFunc, hasEscape bool) {
	hasQuoted, hasEsc := false, false
	for _, t := range ts {
		switch t.Typ {
		case "func":
			hasFunc = true
		case "render", "struct":
			hasQuoted = true
		case "string":
			if len(t.Txt) > 0 && t.Txt[0] == '"' && strings.Contains(t.Txt, "\\") {
				hasEsc = true
			}
		}
	}
	return hasFunc, hasQuoted && hasEsc
}

func init() {
	Register("C27x-cases", func(c *Ctx) {
		seen := map[string]bool{}
		line := func(fields ...string) {
			k := strings.Join(fields[:len(fields)-1], "\t")
			if seen[k] {
				return
			}
			seen[k] = true
			c.Line(fields...)
			c.Count("cases")
			c.Count(fields[0])
		}

		// the parser alone, on the tokens that the real lexer reads in src
		parseCase := func(src string, tmpl bool, fl [4]bool) {
			ts, ok := hook.LexExpr([]byte(src), tmpl)
			if !ok || len(ts) == 0 {
				c.Count("lexer_errors")
				return
			}
			p := xrealParse(src, tmpl, fl, 0)
			hasFunc, hasEscape := xmayLeaveModel(ts)
			if p.res == "outside-the-model" || hasEscape || hasFunc && p.tree == nil {
				c.Count("skipped_outside_model")
				return
			}
			line("xparse", xflagString(tmpl, fl), xtokens(ts), p.res)
		}

		// a tree: String, the tokens of the string, the round trip
		treeCase := func(t *xn, tmpl bool) {
			txt := t.text()
			var real ast.Expression
			if m := PanicText(func() { real = t.real() }); m != "" {
				c.Count("unbuildable")
				return
			}
			guard := t.K == "A" && t.Y == nil
			// a tag with a backquote is printed between backquotes: how the lexer splits it is outside the model
			tagQuote := false
			t.walk(func(m *xn) {
				for _, f := range m.Fields {
					if strings.Contains(f.Tag, "`") {
						tagQuote = true
					}
				}
			})
			for _, expanded := range []bool{false, true} {
				if expanded && !t.hasKind("K") {
					continue
				}
				fl := fmt.Sprintf("%d%d%d", b01(expanded), b01(tmpl), b01(guard))
				var s string
				old := hook.SetExpandedPrint(expanded)
				m := PanicText(func() { s = real.String() })
				hook.SetExpandedPrint(old)
				if m != "" {
					line("xshow", fl, txt, "panic")
					line("xclaim", fl, txt, "", "0", "ok")
					continue
				}
				line("xshow", fl, txt, "ok:"+xhex(s))
				if tagQuote {
					c.Count("skipped_outside_model")
					continue
				}
				ts, ok := hook.LexExpr([]byte(s), tmpl)
				if !ok {
					line("xtoks", fl, txt, "lex-error")
					line("xclaim", fl, txt, "", "0", "ok")
					continue
				}
				body, suffix := xsplitSuffix(ts, tmpl)
				line("xtoks", fl, txt, "ok:"+xtokens(body))
				hasFunc, hasEscape := xmayLeaveModel(ts)
				p := xrealParse(s, tmpl, [4]bool{guard, false, false, false}, len(suffix))
				if p.res == "outside-the-model" || hasEscape || hasFunc && p.tree == nil {
					c.Count("skipped_outside_model")
					continue
				}
				line("xround", fl, txt, xtokens(suffix), p.res)
				realok := p.ok && p.tree != nil && p.tree.erased() == t.erased()
				if realok {
					c.Count("real_round_trips")
				}
				line("xclaim", fl, txt, xtokens(suffix), fmt.Sprint(b01(realok)), "ok")
				// the printed form read in the other modes
				if c.Rng.Intn(4) == 0 {
					parseCase(s, tmpl, [4]bool{c.Rng.Intn(2) == 0, c.Rng.Intn(4) == 0, c.Rng.Intn(3) == 0, c.Rng.Intn(4) == 0})
				}
			}
		}

		sourceCase := func(src string, tmpl bool) {
			parseCase(src, tmpl, [4]bool{false, false, false, false})
			parseCase(src, tmpl, [4]bool{true, false, false, false})
			parseCase(src, tmpl, [4]bool{false, false, true, false})
			parseCase(src, tmpl, [4]bool{false, true, false, true})
			var e ast.Expression
			var err error
			if PanicText(func() { e, err = hook.ParseExpr([]byte(src), tmpl) }) != "" || err != nil || e == nil {
				return
			}
			if t := xfromSafe(e); t != nil {
				treeCase(t, tmpl)
			}
		}

		if in := c.ReplayInput(); in != nil {
			if s, ok := in["expr"].(string); ok {
				t, _ := in["template"].(bool)
				sourceCase(s, t)
			}
			return
		}
		for _, s := range xFixedSources {
			sourceCase(s, false)
			sourceCase(s, true)
		}
		for _, s := range xFixedTmplSources {
			sourceCase(s, true)
		}
		for _, s := range fixedExprs {
			sourceCase(s, false)
		}
		for _, s := range fixedTmplExprs {
			sourceCase(s, true)
		}
		g := newGen(c.Rng)
		// generated trees
		for i := 0; i < c.N; i++ {
			g.tmpl = i%3 == 0
			var t *xn
			switch i % 5 {
			case 0:
				t = g.xtype(1 + g.r.Intn(3))
			case 1:
				t = g.xpostfix(1 + g.r.Intn(3))
			default:
				t = g.xexpr(1 + g.r.Intn(4))
			}
			treeCase(t, g.tmpl)
		}
		// generated sources, a part of them damaged at the token level
		pool := []string{"(", ")", "[", "]", "{", "}", ".", ",", ":", "...", "*", "<-", "chan", "func", "map", "struct", "interface", "x", "1", "+", "not", "contains", "default", "type", ";"}
		for i := 0; i < c.N; i++ {
			g.tmpl = i%3 == 0
			var src string
			switch i % 4 {
			case 0:
				src = g.typ(1 + g.r.Intn(3))
			case 1:
				src = g.balancedOpExpr(1 + g.r.Intn(4))
			default:
				src = g.expr(1 + g.r.Intn(3))
			}
			if i%3 == 1 {
				ts, ok := hook.LexExpr([]byte(src), g.tmpl)
				if !ok || len(ts) < 2 {
					continue
				}
				body, _ := xsplitSuffix(ts, g.tmpl)
				var words []string
				for _, t := range body {
					words = append(words, t.Txt)
				}
				if len(words) == 0 {
					continue
				}
				j := g.r.Intn(len(words))
				switch g.r.Intn(4) {
				case 0:
					words = append(words[:j], words[j+1:]...)
				case 1:
					words = append(words[:j], append([]string{pool[g.r.Intn(len(pool))]}, words[j:]...)...)
				case 2:
					words[j] = pool[g.r.Intn(len(pool))]
				default:
					words = words[:j]
				}
				src = strings.Join(words, " ")
			}
			fl := [4]bool{g.r.Intn(6) == 0, g.r.Intn(6) == 0, g.r.Intn(4) == 0, g.r.Intn(6) == 0}
			parseCase(src, g.tmpl, fl)
		}
	})
}

// C27x-incoq prints a Coq file that evaluates the model inside Coq
// (vm_compute) on a sample of trees and compares with the implementation:
// the string that String() returns, and the String() of the tree that
// parseExpr reads back from it (None when the round trip does not give one
// expression followed by the suffix only).
func init() {
	Register("C27x-incoq", func(c *Ctx) {
		g := newGen(c.Rng)
		var rows []string
		add := func(t *xn, tmpl bool) {
			var real ast.Expression
			if PanicText(func() { real = t.real() }) != "" {
				return
			}
			old := hook.SetExpandedPrint(true)
			defer hook.SetExpandedPrint(old)
			var s string
			if PanicText(func() { s = real.String() }) != "" {
				rows = append(rows, fmt.Sprintf("  (%s, [], %s, None, None)", coqBool(tmpl), t.coq()))
				return
			}
			ts, ok := hook.LexExpr([]byte(s), tmpl)
			hasFunc, hasEscape := false, false
			if ok {
				hasFunc, hasEscape = xmayLeaveModel(ts)
			}
			if !ok || hasFunc || hasEscape {
				return
			}
			tagQuote := false
			t.walk(func(m *xn) {
				for _, f := range m.Fields {
					if strings.Contains(f.Tag, "`") {
						tagQuote = true
					}
				}
			})
			if tagQuote {
				return
			}
			_, suffix := xsplitSuffix(ts, tmpl)
			re := "None"
			var e2 ast.Expression
			var rest int
			var err error
			if PanicText(func() { e2, rest, err = hook.ParseExprFlags([]byte(s), tmpl, false, false, false, false) }) == "" &&
				err == nil && e2 != nil && rest == len(suffix) {
				var s2 string
				if PanicText(func() { s2 = e2.String() }) == "" {
					re = "(Some " + coqBytes(s2) + ")"
				}
			}
			suf := "[]"
			if len(suffix) == 1 {
				if tmpl {
					suf = "[KSym " + coqBytes("}}") + "]"
				} else {
					suf = "[KSemi]"
				}
			}
			rows = append(rows, fmt.Sprintf("  (%s, %s, %s, Some %s, %s)", coqBool(tmpl), suf, t.coq(), coqBytes(s), re))
		}
		for i := 0; len(rows) < c.N && i < 50*c.N+100; i++ {
			g.tmpl = i%3 == 0
			switch i % 4 {
			case 0:
				add(g.xtype(1+g.r.Intn(2)), g.tmpl)
			case 1:
				add(g.xpostfix(1+g.r.Intn(2)), g.tmpl)
			default:
				add(g.xexpr(1+g.r.Intn(3)), g.tmpl)
			}
		}
		fmt.Println("From Coq Require Import List NArith Bool.")
		fmt.Println("From Verif Require Import Bytes Facts_AstOps Facts_AstPrim ExprFullM ExprFullOk ExprFullInst.")
		fmt.Println("Import ListNotations.\nOpen Scope N_scope.")
		fmt.Println("Definition cases : list (bool * list tk * ex * option bytes * option bytes) := [")
		fmt.Println(strings.Join(rows, ";\n") + "].")
		fmt.Println(`Definition ob_eqb (a b : option bytes) : bool :=
  match a, b with Some x, Some y => bytes_eqb x y | None, None => true | _, _ => false end.
Definition reshow (tmpl : bool) (suffix : list tk) (e : ex) : option bytes :=
  match x_roundtrip true tmpl false suffix e with
  | RtRes (ROk (Some e', r)) => if Nat.eqb (length r) (length suffix) then x_show true e' else None
  | _ => None
  end.
Definition agree (c : bool * list tk * ex * option bytes * option bytes) : bool :=
  let '(tmpl, suffix, e, s, re) := c in
  ob_eqb (x_show true e) s && ob_eqb (reshow tmpl suffix e) re.
Definition mismatches := Eval vm_compute in map (fun c => snd (fst (fst c))) (filter (fun c => negb (agree c)) cases).
Print mismatches.
Definition checked := Eval vm_compute in length cases.
Print checked.`)
	})
}
