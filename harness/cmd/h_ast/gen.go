package main

// Seeded random sources: programs, scripts and templates that are mostly
// syntactically valid (the type checker is not involved: only the parser).

import (
	"math/rand"
	"strconv"
	"strings"
)

type gen struct {
	r    *rand.Rand
	tmpl bool // template expression syntax (and, or, not, contains, default, render)
}

func newGen(r *rand.Rand) *gen { return &gen{r: r} }

func (g *gen) pick(xs ...string) string { return xs[g.r.Intn(len(xs))] }

func (g *gen) ident() string {
	return g.pick("a", "b", "c", "x", "y", "f", "g", "p", "s", "v", "T", "ok", "n", "xs")
}

var binOps = []string{"==", "!=", "<", "<=", ">", ">=", "&", "|", "&&", "||", "+", "-", "*", "/", "%", "^", "&^", "<<", ">>"}
var unOps = []string{"!", "-", "+", "^", "*", "&", "<-"}

func (g *gen) typ(d int) string {
	if d <= 0 {
		return g.pick("int", "string", "T", "pkg.T", "bool", "interface{}", "error")
	}
	switch g.r.Intn(12) {
	case 0:
		return "*" + g.typ(d-1)
	case 1:
		return "[]" + g.typ(d-1)
	case 2:
		return "[" + strconv.Itoa(g.r.Intn(4)) + "]" + g.typ(d-1)
	case 3:
		return "map[" + g.typ(0) + "]" + g.typ(d-1)
	case 4:
		return g.pick("chan ", "<-chan ", "chan<- ") + g.typ(d-1)
	case 5:
		return "func(" + g.params(d-1) + ")" + g.results(d-1)
	case 6:
		n := g.r.Intn(3)
		var fs []string
		for i := 0; i < n; i++ {
			switch g.r.Intn(4) {
			case 0:
				fs = append(fs, g.pick("D", "*E", "pkg.F"))
			case 1:
				fs = append(fs, g.ident()+", "+g.ident()+"2 "+g.typ(d-1))
			case 2:
				fs = append(fs, g.ident()+" "+g.typ(d-1)+" `tag:\"x\"`")
			default:
				fs = append(fs, g.ident()+" "+g.typ(d-1))
			}
		}
		return "struct{ " + strings.Join(fs, "; ") + " }"
	case 7:
		return "(" + g.typ(d-1) + ")"
	default:
		return g.typ(0)
	}
}

func (g *gen) params(d int) string {
	n := g.r.Intn(3)
	var ps []string
	named := g.r.Intn(2) == 0
	for i := 0; i < n; i++ {
		t := g.typ(d)
		if i == n-1 && g.r.Intn(4) == 0 {
			t = "..." + t
		}
		if named {
			ps = append(ps, g.ident()+strconv.Itoa(i)+" "+t)
		} else {
			ps = append(ps, t)
		}
	}
	return strings.Join(ps, ", ")
}

func (g *gen) results(d int) string {
	switch g.r.Intn(4) {
	case 0:
		return ""
	case 1:
		return " " + g.typ(d)
	case 2:
		return " (" + g.typ(d) + ", error)"
	default:
		return " (r " + g.typ(d) + ", err error)"
	}
}

func (g *gen) literal() string {
	switch g.r.Intn(7) {
	case 0:
		return strconv.Itoa(g.r.Intn(100))
	case 1:
		return g.pick("1.5", "0x1F", "1e3", "0b101", "0o17", "1_000", ".5")
	case 2:
		return g.pick("2i", "1.5i")
	case 3:
		return g.pick("'a'", "'\\n'", "'\\x41'", "'\\''")
	case 4:
		return g.pick("\"s\"", "\"a\\\"b\"", "\"\"", "\"{{\"")
	case 5:
		return g.pick("`raw`", "`a\"b`")
	default:
		return g.pick("true", "false", "nil", "iota")
	}
}

func (g *gen) exprs(d, max int) string {
	n := g.r.Intn(max + 1)
	var xs []string
	for i := 0; i < n; i++ {
		xs = append(xs, g.expr(d))
	}
	return strings.Join(xs, ", ")
}

func (g *gen) expr(d int) string {
	if d <= 0 {
		if g.r.Intn(3) == 0 {
			return g.literal()
		}
		return g.ident()
	}
	switch g.r.Intn(26) {
	case 0, 1, 2, 3:
		op := binOps[g.r.Intn(len(binOps))]
		if g.tmpl && g.r.Intn(3) == 0 {
			op = g.pick("and", "or", "contains", "not contains")
		}
		return g.expr(d-1) + " " + op + " " + g.expr(d-1)
	case 4, 5:
		op := unOps[g.r.Intn(len(unOps))]
		if g.tmpl && g.r.Intn(4) == 0 {
			op = "not "
		}
		sp := ""
		if g.r.Intn(3) == 0 {
			sp = " "
		}
		return op + sp + g.expr(d-1)
	case 6, 7:
		return "(" + g.expr(d-1) + ")"
	case 8, 9:
		s := g.expr(d-1) + "(" + g.exprs(d-1, 3)
		if g.r.Intn(6) == 0 && !strings.HasSuffix(s, "(") {
			s += "..."
		}
		return s + ")"
	case 10:
		return g.expr(d-1) + "[" + g.expr(d-1) + "]"
	case 11:
		switch g.r.Intn(4) {
		case 0:
			return g.expr(d-1) + "[:]"
		case 1:
			return g.expr(d-1) + "[" + g.expr(d-1) + ":]"
		case 2:
			return g.expr(d-1) + "[" + g.expr(d-1) + ":" + g.expr(d-1) + "]"
		default:
			return g.expr(d-1) + "[:" + g.expr(d-1) + ":" + g.expr(d-1) + "]"
		}
	case 12, 13:
		return g.expr(d-1) + "." + g.ident()
	case 14:
		return g.expr(d-1) + ".(" + g.typ(d-1) + ")"
	case 15:
		// composite literals
		switch g.r.Intn(5) {
		case 0:
			return "[]" + g.typ(0) + "{" + g.exprs(d-1, 3) + "}"
		case 1:
			return "map[" + g.typ(0) + "]" + g.typ(0) + "{" + g.literal() + ": " + g.expr(d-1) + "}"
		case 2:
			return g.pick("T", "pkg.T") + "{" + g.ident() + ": " + g.expr(d-1) + ", " + g.ident() + ": " + g.expr(d-1) + "}"
		case 3:
			return "[...]" + g.typ(0) + "{{" + g.exprs(d-1, 2) + "}, {" + g.exprs(d-1, 2) + "}}"
		default:
			return g.typ(1) + "{}"
		}
	case 16:
		return "func(" + g.params(1) + ")" + g.results(1) + " { " + g.stmts(d-1, 2) + " }"
	case 17:
		// conversions
		switch g.r.Intn(5) {
		case 0:
			return "[]byte(" + g.expr(d-1) + ")"
		case 1:
			return "(*" + g.typ(0) + ")(" + g.expr(d-1) + ")"
		case 2:
			return "(<-chan int)(" + g.expr(d-1) + ")"
		case 3:
			return "(func())(" + g.expr(d-1) + ")"
		default:
			return g.pick("T", "pkg.T", "[]int", "map[string]T", "[2]byte", "interface{}", "string") + "(" + g.expr(d-1) + ")"
		}
	case 19:
		// a call whose callee is a parenthesised unary expression: (<-c)(x), (*p)(x), (-f)(x)
		op := unOps[g.r.Intn(len(unOps))]
		return "(" + op + g.expr(d-1) + ")(" + g.exprs(d-1, 2) + ")"
	case 18:
		if g.tmpl {
			switch g.r.Intn(3) {
			case 0:
				return g.ident() + " default " + g.expr(d-1)
			case 1:
				// paths may hold characters that need quoting in a string literal
				return "render " + g.pick("\"p.html\"", "\"p.html\"", "\"a\\\"b.html\"", "\"a\\\\b.html\"", "`p.html`")
			default:
				return g.ident() + "() default " + g.expr(d-1)
			}
		}
		return g.literal()
	default:
		return g.expr(0)
	}
}

func (g *gen) simpleStmt(d int) string {
	switch g.r.Intn(9) {
	case 0:
		return g.expr(1) + " = " + g.expr(d)
	case 1:
		return g.ident() + ", " + g.ident() + " := " + g.expr(d) + ", " + g.expr(d)
	case 2:
		return g.ident() + " " + g.pick("+=", "-=", "*=", "/=", "%=", "&=", "|=", "^=", "<<=", ">>=", "&^=") + " " + g.expr(d)
	case 3:
		return g.expr(1) + g.pick("++", "--")
	case 4:
		return g.ident() + " <- " + g.expr(d)
	case 5:
		return g.ident() + " := " + g.expr(d)
	default:
		return g.ident() + "(" + g.exprs(d, 2) + ")"
	}
}

func (g *gen) stmts(d, max int) string {
	n := g.r.Intn(max + 1)
	var xs []string
	for i := 0; i < n; i++ {
		xs = append(xs, g.stmt(d))
	}
	return strings.Join(xs, "; ")
}

func (g *gen) decl(d int) string {
	switch g.r.Intn(6) {
	case 0:
		return "var " + g.ident() + " " + g.typ(d)
	case 1:
		return "var " + g.ident() + ", " + g.ident() + "2 = " + g.expr(d) + ", " + g.expr(d)
	case 2:
		return "const " + g.ident() + " = " + g.expr(d)
	case 3:
		return "type " + g.pick("T", "U") + g.pick(" ", " = ") + g.typ(d)
	case 4:
		return "var " + g.ident() + " " + g.typ(1) + " = " + g.expr(d)
	default:
		return "const " + g.ident() + " " + g.typ(0) + " = " + g.expr(d)
	}
}

func (g *gen) stmt(d int) string {
	if d <= 0 {
		return g.simpleStmt(1)
	}
	switch g.r.Intn(22) {
	case 0:
		s := "if "
		if g.r.Intn(3) == 0 {
			s += g.simpleStmt(1) + "; "
		}
		s += g.expr(d) + " { " + g.stmts(d-1, 2) + " }"
		switch g.r.Intn(3) {
		case 0:
			s += " else { " + g.stmts(d-1, 2) + " }"
		case 1:
			s += " else if " + g.expr(1) + " { " + g.stmts(d-1, 1) + " }"
		}
		return s
	case 1:
		switch g.r.Intn(5) {
		case 0:
			return "for { " + g.stmts(d-1, 2) + " }"
		case 1:
			return "for " + g.expr(1) + " { " + g.stmts(d-1, 2) + " }"
		case 2:
			return "for " + g.simpleStmt(1) + "; " + g.expr(1) + "; " + g.simpleStmt(1) + " { " + g.stmts(d-1, 2) + " }"
		case 3:
			return "for " + g.ident() + ", " + g.ident() + " := range " + g.expr(1) + " { " + g.stmts(d-1, 2) + " }"
		default:
			return "for range " + g.expr(1) + " { " + g.stmts(d-1, 2) + " }"
		}
	case 2:
		s := "switch "
		if g.r.Intn(3) == 0 {
			s += g.simpleStmt(1) + "; "
		}
		if g.r.Intn(4) != 0 {
			s += g.expr(1) + " "
		}
		s += "{ "
		for i, n := 0, g.r.Intn(3); i < n; i++ {
			s += "case " + g.expr(1) + ", " + g.expr(1) + ": " + g.stmts(d-1, 2)
			if g.r.Intn(4) == 0 {
				s += "; fallthrough"
			}
			s += "; "
		}
		if g.r.Intn(2) == 0 {
			s += "default: " + g.stmts(d-1, 1)
		}
		return s + " }"
	case 3:
		s := "switch "
		if g.r.Intn(2) == 0 {
			s += g.ident() + " := "
		}
		s += g.ident() + ".(type) { case " + g.typ(1) + ", nil: " + g.stmts(d-1, 1) + "; default: }"
		return s
	case 4:
		return "select { case " + g.ident() + " := <-" + g.ident() + ": " + g.stmts(d-1, 1) + "; case " + g.ident() + " <- " + g.expr(1) + ": ; case <-" + g.ident() + ": ; default: " + g.stmts(d-1, 1) + " }"
	case 5:
		return g.pick("go ", "defer ") + g.ident() + "(" + g.exprs(1, 2) + ")"
	case 6:
		return "return " + g.exprs(d, 2)
	case 7:
		return g.pick("break", "continue", "break L", "continue L", "goto L")
	case 8:
		return "L: " + g.stmt(d-1)
	case 9:
		return "{ " + g.stmts(d-1, 2) + " }"
	case 10, 11:
		return g.decl(d)
	case 12:
		return "func() { " + g.stmts(d-1, 2) + " }()"
	default:
		return g.simpleStmt(d)
	}
}

func (g *gen) program() string {
	g.tmpl = false
	var b strings.Builder
	b.WriteString("package main\n")
	if g.r.Intn(2) == 0 {
		b.WriteString("import \"fmt\"\nimport ( m \"math\"; . \"os\" )\n")
	}
	for i, n := 0, 1+g.r.Intn(4); i < n; i++ {
		switch g.r.Intn(5) {
		case 0:
			b.WriteString(g.decl(2) + "\n")
		case 1:
			b.WriteString("const ( " + g.ident() + " = " + g.expr(2) + "; " + g.ident() + "1; " + g.ident() + "2 )\n")
		case 2:
			b.WriteString("var ( " + g.ident() + " = " + g.expr(2) + "; " + g.ident() + "3 " + g.typ(2) + " )\n")
		default:
			b.WriteString("func " + g.ident() + strconv.Itoa(i) + "(" + g.params(2) + ")" + g.results(1) + " { " + g.stmts(3, 4) + " }\n")
		}
	}
	return b.String()
}

func (g *gen) script() string {
	g.tmpl = false
	var xs []string
	for i, n := 0, 1+g.r.Intn(5); i < n; i++ {
		xs = append(xs, g.stmt(3))
	}
	return strings.Join(xs, "\n")
}

func (g *gen) tmplNodes(d, max int) string {
	var b strings.Builder
	for i, n := 0, g.r.Intn(max+1); i < n; i++ {
		b.WriteString(g.tmplNode(d))
	}
	return b.String()
}

func (g *gen) tmplNode(d int) string {
	if d <= 0 {
		return g.pick("text ", "<b>x</b>", "\n", " a=b ", "{{ "+g.expr(1)+" }}")
	}
	switch g.r.Intn(20) {
	case 0, 1, 2:
		return "{{ " + g.expr(2) + " }}"
	case 3:
		s := "{% if " + g.expr(2) + " %}" + g.tmplNodes(d-1, 2)
		switch g.r.Intn(3) {
		case 0:
			s += "{% else %}" + g.tmplNodes(d-1, 2)
		case 1:
			s += "{% else if " + g.expr(1) + " %}" + g.tmplNodes(d-1, 1)
		}
		return s + g.pick("{% end %}", "{% end if %}")
	case 4:
		s := "{% for " + g.pick(g.ident()+" in "+g.expr(1), g.ident()+", "+g.ident()+" := range "+g.expr(1), g.expr(1), "i := 0; i < 3; i++") + " %}" + g.tmplNodes(d-1, 2)
		if g.r.Intn(3) == 0 {
			s += "{% else %}" + g.tmplNodes(d-1, 1)
		}
		return s + g.pick("{% end %}", "{% end for %}")
	case 5:
		s := "{% switch " + g.expr(1) + " %}" + g.pick("", " ", " lead ")
		for i, n := 0, g.r.Intn(3); i < n; i++ {
			s += "{% case " + g.expr(1) + " %}" + g.tmplNodes(d-1, 1)
		}
		if g.r.Intn(2) == 0 {
			s += "{% default %}" + g.tmplNodes(d-1, 1)
		}
		return s + "{% end %}"
	case 6:
		return "{% select %}" + g.pick("", " x ") + "{% case <-" + g.ident() + " %}" + g.tmplNodes(d-1, 1) + "{% default %}{% end select %}"
	case 7:
		return "{% " + g.simpleStmt(2) + " %}"
	case 8:
		return "{% " + g.decl(2) + " %}"
	case 9:
		return "{%% " + g.stmts(2, 3) + " %%}"
	case 10:
		return "{# " + g.pick("c", "comment", "") + " #}"
	case 11:
		return "{% show " + g.expr(1) + ", " + g.expr(1) + " %}"
	case 12:
		return "{% " + g.pick("show itea", "var v = itea", "v = itea", "f(itea)") + "; using" + g.pick("", " html", " markdown", " macro", " macro(a int) html") + " %}" + g.tmplNodes(d-1, 2) + g.pick("{% end %}", "{% end using %}")
	case 13:
		return g.pick("{% raw %}", "{% raw %}a {{ b }}") + g.pick("{% end raw %}", "{% end %}")
	case 14:
		return "<a href=\"/x?a={{ " + g.expr(1) + " }}\">" + "<i title={{ " + g.ident() + " }}>"
	case 15:
		return "{% macro M" + strconv.Itoa(g.r.Intn(9)) + g.pick("", "(a int)", "(a, b string) html", "(s ...int)") + " %}" + g.tmplNodes(d-1, 2) + g.pick("{% end %}", "{% end macro %}")
	case 16:
		return "{% " + g.pick("break", "continue", "return", "fallthrough") + " %}"
	default:
		return g.tmplNode(0)
	}
}

func (g *gen) template() string {
	g.tmpl = true
	s := ""
	if g.r.Intn(8) == 0 {
		s += "{% extends " + g.pick("\"l.html\"", "\"l.html\"", "\"l\\\"x.html\"", "\"l\\\\x.html\"") + " %}"
	}
	if g.r.Intn(6) == 0 {
		s += "{% import " + g.pick("", "p ") + "\"i.html\"" + g.pick("", " for A, B") + " %}"
	}
	return s + g.tmplNodes(3, 6)
}
