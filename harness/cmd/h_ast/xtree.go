package main

// Expression trees of the whole primary-expression grammar for C27: one Go
// value that is written in the model driver's prefix notation, built as a
// real ast.Expression with the ast constructors, and read back from a real
// ast.Expression.

import (
	"fmt"
	"strings"

	. "verif/harness/hlib"

	"github.com/open2b/scriggo/ast"
)

type xn struct {
	K              string // I L U B C X S D A K M s a c F T N d R f
	P              int
	Op, LK, Dir    int
	S              string
	V, Full, Macro bool
	X, Y, Z, W     *xn // X: the main child; Y, Z, W: further (optional) children
	Args           []*xn
	KVs            []xkv
	Params, Res    []xparam
	Fields         []xfield
}

type xkv struct{ K, V *xn }
type xparam struct {
	Name *string
	T    *xn
}
type xfield struct {
	Names []string
	T     *xn
	Tag   string
}

func xhex(s string) string {
	if s == "" {
		return "-"
	}
	return Hx(s)
}

func b01(b bool) int {
	if b {
		return 1
	}
	return 0
}

func (n *xn) opt(b *strings.Builder) {
	if n == nil {
		b.WriteString(" ~")
		return
	}
	b.WriteString(" +")
	n.write(b)
}

func writeParams(b *strings.Builder, ps []xparam) {
	fmt.Fprintf(b, " %d", len(ps))
	for _, q := range ps {
		if q.Name == nil {
			b.WriteString(" ~")
		} else {
			b.WriteString(" + " + xhex(*q.Name))
		}
		q.T.opt(b)
	}
}

// write appends the prefix notation of n, each item preceded by a space.
func (n *xn) write(b *strings.Builder) {
	switch n.K {
	case "I", "R":
		fmt.Fprintf(b, " %s %d %s", n.K, n.P, xhex(n.S))
	case "L":
		fmt.Fprintf(b, " L %d %d %s", n.P, n.LK, xhex(n.S))
	case "U":
		fmt.Fprintf(b, " U %d %d", n.P, n.Op)
		n.X.write(b)
	case "B":
		fmt.Fprintf(b, " B %d %d", n.P, n.Op)
		n.X.write(b)
		n.Y.write(b)
	case "C":
		fmt.Fprintf(b, " C %d %d %d", n.P, b01(n.V), len(n.Args))
		n.X.write(b)
		for _, a := range n.Args {
			a.write(b)
		}
	case "X", "d":
		fmt.Fprintf(b, " %s %d", n.K, n.P)
		n.X.write(b)
		n.Y.write(b)
	case "S":
		fmt.Fprintf(b, " S %d %d", n.P, b01(n.Full))
		n.X.write(b)
		n.Y.opt(b)
		n.Z.opt(b)
		n.W.opt(b)
	case "D":
		fmt.Fprintf(b, " D %d %s", n.P, xhex(n.S))
		n.X.write(b)
	case "A":
		fmt.Fprintf(b, " A %d", n.P)
		n.X.write(b)
		n.Y.opt(b)
	case "K":
		fmt.Fprintf(b, " K %d", n.P)
		n.X.opt(b)
		fmt.Fprintf(b, " %d", len(n.KVs))
		for _, kv := range n.KVs {
			kv.K.opt(b)
			kv.V.write(b)
		}
	case "M":
		fmt.Fprintf(b, " M %d", n.P)
		n.Y.opt(b)
		n.X.write(b)
	case "s":
		fmt.Fprintf(b, " s %d", n.P)
		n.X.write(b)
	case "a":
		fmt.Fprintf(b, " a %d", n.P)
		n.Y.opt(b)
		n.X.write(b)
	case "c":
		fmt.Fprintf(b, " c %d %d", n.P, n.Dir)
		n.X.write(b)
	case "F":
		fmt.Fprintf(b, " F %d %d %d", n.P, b01(n.Macro), b01(n.V))
		writeParams(b, n.Params)
		writeParams(b, n.Res)
	case "T":
		fmt.Fprintf(b, " T %d %d", n.P, len(n.Fields))
		for _, f := range n.Fields {
			fmt.Fprintf(b, " %d", len(f.Names))
			for _, a := range f.Names {
				b.WriteString(" " + xhex(a))
			}
			f.T.write(b)
			b.WriteString(" " + xhex(f.Tag))
		}
	case "N", "f":
		fmt.Fprintf(b, " %s %d", n.K, n.P)
	default:
		panic("xn.write: kind " + n.K)
	}
}

func (n *xn) text() string {
	var b strings.Builder
	n.write(&b)
	return strings.TrimSpace(b.String())
}

func optReal(n *xn) ast.Expression {
	if n == nil {
		return nil
	}
	return n.real()
}

func realParams(ps []xparam) []*ast.Parameter {
	var out []*ast.Parameter
	for _, q := range ps {
		var id *ast.Identifier
		if q.Name != nil {
			id = ast.NewIdentifier(nil, *q.Name)
		}
		out = append(out, ast.NewParameter(id, optReal(q.T)))
	}
	return out
}

// real builds the ast.Expression with the constructors of package ast.
func (n *xn) real() ast.Expression {
	var e ast.Expression
	switch n.K {
	case "I":
		e = ast.NewIdentifier(nil, n.S)
	case "L":
		e = ast.NewBasicLiteral(nil, ast.LiteralType(n.LK), n.S)
	case "U":
		e = ast.NewUnaryOperator(nil, ast.OperatorType(n.Op), n.X.real())
	case "B":
		e = ast.NewBinaryOperator(nil, ast.OperatorType(n.Op), n.X.real(), n.Y.real())
	case "C":
		var args []ast.Expression
		for _, a := range n.Args {
			args = append(args, a.real())
		}
		e = ast.NewCall(nil, n.X.real(), args, n.V)
	case "X":
		e = ast.NewIndex(nil, n.X.real(), n.Y.real())
	case "S":
		e = ast.NewSlicing(nil, n.X.real(), optReal(n.Y), optReal(n.Z), optReal(n.W), n.Full)
	case "D":
		e = ast.NewSelector(nil, n.X.real(), n.S)
	case "A":
		e = ast.NewTypeAssertion(nil, n.X.real(), optReal(n.Y))
	case "K":
		var kvs []ast.KeyValue
		for _, kv := range n.KVs {
			kvs = append(kvs, ast.KeyValue{Key: optReal(kv.K), Value: kv.V.real()})
		}
		e = ast.NewCompositeLiteral(nil, optReal(n.X), kvs)
	case "M":
		e = ast.NewMapType(nil, optReal(n.Y), n.X.real())
	case "s":
		e = ast.NewSliceType(nil, n.X.real())
	case "a":
		e = ast.NewArrayType(nil, optReal(n.Y), n.X.real())
	case "c":
		e = ast.NewChanType(nil, ast.ChanDirection(n.Dir), n.X.real())
	case "F":
		e = ast.NewFuncType(nil, n.Macro, realParams(n.Params), realParams(n.Res), n.V)
	case "T":
		var fs []*ast.Field
		for _, f := range n.Fields {
			var ids []*ast.Identifier
			for _, a := range f.Names {
				ids = append(ids, ast.NewIdentifier(nil, a))
			}
			fs = append(fs, ast.NewField(ids, f.T.real(), f.Tag))
		}
		e = ast.NewStructType(nil, fs)
	case "N":
		e = ast.NewInterface(nil)
	case "d":
		e = ast.NewDefault(nil, n.X.real(), n.Y.real())
	case "R":
		e = ast.NewRender(nil, n.S)
	case "f":
		e = ast.NewFunc(nil, nil, ast.NewFuncType(nil, false, nil, nil, false), nil, false, ast.FormatText)
	default:
		panic("xn.real: kind " + n.K)
	}
	e.SetParenthesis(n.P)
	return e
}

type xunsupported string

func optFrom(e ast.Expression) *xn {
	if e == nil {
		return nil
	}
	return xfrom(e)
}

func paramsFrom(ps []*ast.Parameter) []xparam {
	var out []xparam
	for _, q := range ps {
		var name *string
		if q.Ident != nil {
			s := q.Ident.Name
			name = &s
		}
		out = append(out, xparam{Name: name, T: optFrom(q.Type)})
	}
	return out
}

// xfrom reads a real expression; it panics with xunsupported on a node that
// the model does not have (Placeholder, a function declaration).
func xfrom(e ast.Expression) *xn {
	n := &xn{P: e.Parenthesis()}
	switch v := e.(type) {
	case *ast.Identifier:
		n.K, n.S = "I", v.Name
	case *ast.BasicLiteral:
		n.K, n.LK, n.S = "L", int(v.Type), v.Value
	case *ast.UnaryOperator:
		n.K, n.Op, n.X = "U", int(v.Op), xfrom(v.Expr)
	case *ast.BinaryOperator:
		n.K, n.Op, n.X, n.Y = "B", int(v.Op), xfrom(v.Expr1), xfrom(v.Expr2)
	case *ast.Call:
		n.K, n.V, n.X = "C", v.IsVariadic, xfrom(v.Func)
		for _, a := range v.Args {
			n.Args = append(n.Args, xfrom(a))
		}
	case *ast.Index:
		n.K, n.X, n.Y = "X", xfrom(v.Expr), xfrom(v.Index)
	case *ast.Slicing:
		n.K, n.Full, n.X, n.Y, n.Z, n.W = "S", v.IsFull, xfrom(v.Expr), optFrom(v.Low), optFrom(v.High), optFrom(v.Max)
	case *ast.Selector:
		n.K, n.S, n.X = "D", v.Ident, xfrom(v.Expr)
	case *ast.TypeAssertion:
		n.K, n.X, n.Y = "A", xfrom(v.Expr), optFrom(v.Type)
	case *ast.CompositeLiteral:
		n.K, n.X = "K", optFrom(v.Type)
		for _, kv := range v.KeyValues {
			n.KVs = append(n.KVs, xkv{K: optFrom(kv.Key), V: xfrom(kv.Value)})
		}
	case *ast.MapType:
		n.K, n.Y, n.X = "M", optFrom(v.KeyType), xfrom(v.ValueType)
	case *ast.SliceType:
		n.K, n.X = "s", xfrom(v.ElementType)
	case *ast.ArrayType:
		n.K, n.Y, n.X = "a", optFrom(v.Len), xfrom(v.ElementType)
	case *ast.ChanType:
		n.K, n.Dir, n.X = "c", int(v.Direction), xfrom(v.ElementType)
	case *ast.FuncType:
		n.K, n.Macro, n.V, n.Params, n.Res = "F", v.Macro, v.IsVariadic, paramsFrom(v.Parameters), paramsFrom(v.Result)
	case *ast.StructType:
		n.K = "T"
		for _, f := range v.Fields {
			xf := xfield{T: xfrom(f.Type), Tag: f.Tag}
			for _, id := range f.Idents {
				xf.Names = append(xf.Names, id.Name)
			}
			n.Fields = append(n.Fields, xf)
		}
	case *ast.Interface:
		n.K = "N"
	case *ast.Default:
		n.K, n.X, n.Y = "d", xfrom(v.Expr1), xfrom(v.Expr2)
	case *ast.Render:
		n.K, n.S = "R", v.Path
	case *ast.Func:
		if v.Ident != nil || v.Type.Macro {
			panic(xunsupported("function declaration"))
		}
		n.K = "f"
	default:
		panic(xunsupported(fmt.Sprintf("%T", e)))
	}
	return n
}

// xfromSafe returns nil if the expression has a node outside the model.
func xfromSafe(e ast.Expression) (n *xn) {
	defer func() {
		if r := recover(); r != nil {
			if _, ok := r.(xunsupported); ok {
				n = nil
				return
			}
			panic(r)
		}
	}()
	return xfrom(e)
}

func (n *xn) hasKind(k string) bool {
	found := false
	n.walk(func(m *xn) {
		if m.K == k {
			found = true
		}
	})
	return found
}

func (n *xn) walk(f func(*xn)) {
	if n == nil {
		return
	}
	f(n)
	for _, c := range []*xn{n.X, n.Y, n.Z, n.W} {
		c.walk(f)
	}
	for _, a := range n.Args {
		a.walk(f)
	}
	for _, kv := range n.KVs {
		kv.K.walk(f)
		kv.V.walk(f)
	}
	for _, q := range n.Params {
		q.T.walk(f)
	}
	for _, q := range n.Res {
		q.T.walk(f)
	}
	for _, fd := range n.Fields {
		fd.T.walk(f)
	}
}

// erased is the prefix notation without the parenthesis counts.
func (n *xn) erased() string {
	c := n.clone()
	c.walk(func(m *xn) { m.P = 0 })
	return c.text()
}

func (n *xn) clone() *xn {
	if n == nil {
		return nil
	}
	c := *n
	c.X, c.Y, c.Z, c.W = n.X.clone(), n.Y.clone(), n.Z.clone(), n.W.clone()
	c.Args = nil
	for _, a := range n.Args {
		c.Args = append(c.Args, a.clone())
	}
	c.KVs = nil
	for _, kv := range n.KVs {
		c.KVs = append(c.KVs, xkv{kv.K.clone(), kv.V.clone()})
	}
	cp := func(ps []xparam) []xparam {
		var out []xparam
		for _, q := range ps {
			out = append(out, xparam{q.Name, q.T.clone()})
		}
		return out
	}
	c.Params, c.Res = cp(n.Params), cp(n.Res)
	c.Fields = nil
	for _, f := range n.Fields {
		c.Fields = append(c.Fields, xfield{append([]string(nil), f.Names...), f.T.clone(), f.Tag})
	}
	return &c
}

func coqBytes(s string) string {
	var b strings.Builder
	b.WriteString("[")
	for i := 0; i < len(s); i++ {
		if i > 0 {
			b.WriteString("; ")
		}
		fmt.Fprintf(&b, "%d", s[i])
	}
	b.WriteString("]")
	return b.String()
}

func coqBool(b bool) string {
	if b {
		return "true"
	}
	return "false"
}

func coqOpt(n *xn) string {
	if n == nil {
		return "None"
	}
	return "(Some " + n.coq() + ")"
}

func coqParams(ps []xparam) string {
	var out []string
	for _, q := range ps {
		name := "None"
		if q.Name != nil {
			name = "(Some " + coqBytes(*q.Name) + ")"
		}
		out = append(out, "("+name+", "+coqOpt(q.T)+")")
	}
	return "[" + strings.Join(out, "; ") + "]"
}

// coq writes the tree as a Coq term of type ex.
func (n *xn) coq() string {
	switch n.K {
	case "I":
		return fmt.Sprintf("(XIdent %d %s)", n.P, coqBytes(n.S))
	case "L":
		return fmt.Sprintf("(XLit %d %d %s)", n.P, n.LK, coqBytes(n.S))
	case "U":
		return fmt.Sprintf("(XUn %d %d %s)", n.P, n.Op, n.X.coq())
	case "B":
		return fmt.Sprintf("(XBin %d %d %s %s)", n.P, n.Op, n.X.coq(), n.Y.coq())
	case "C":
		var as []string
		for _, a := range n.Args {
			as = append(as, a.coq())
		}
		return fmt.Sprintf("(XCall %d %s [%s] %s)", n.P, n.X.coq(), strings.Join(as, "; "), coqBool(n.V))
	case "X":
		return fmt.Sprintf("(XIndex %d %s %s)", n.P, n.X.coq(), n.Y.coq())
	case "S":
		return fmt.Sprintf("(XSlicing %d %s %s %s %s %s)", n.P, n.X.coq(), coqOpt(n.Y), coqOpt(n.Z), coqOpt(n.W), coqBool(n.Full))
	case "D":
		return fmt.Sprintf("(XSel %d %s %s)", n.P, n.X.coq(), coqBytes(n.S))
	case "A":
		return fmt.Sprintf("(XTypeAssert %d %s %s)", n.P, n.X.coq(), coqOpt(n.Y))
	case "K":
		var kvs []string
		for _, kv := range n.KVs {
			kvs = append(kvs, "("+coqOpt(kv.K)+", "+kv.V.coq()+")")
		}
		return fmt.Sprintf("(XCompLit %d %s [%s])", n.P, coqOpt(n.X), strings.Join(kvs, "; "))
	case "M":
		return fmt.Sprintf("(XMap %d %s %s)", n.P, coqOpt(n.Y), n.X.coq())
	case "s":
		return fmt.Sprintf("(XSlice %d %s)", n.P, n.X.coq())
	case "a":
		return fmt.Sprintf("(XArray %d %s %s)", n.P, coqOpt(n.Y), n.X.coq())
	case "c":
		return fmt.Sprintf("(XChan %d %d %s)", n.P, n.Dir, n.X.coq())
	case "F":
		return fmt.Sprintf("(XFunc %d %s %s %s %s)", n.P, coqBool(n.Macro), coqParams(n.Params), coqParams(n.Res), coqBool(n.V))
	case "T":
		var fs []string
		for _, f := range n.Fields {
			var names []string
			for _, a := range f.Names {
				names = append(names, coqBytes(a))
			}
			fs = append(fs, fmt.Sprintf("([%s], %s, %s)", strings.Join(names, "; "), f.T.coq(), coqBytes(f.Tag)))
		}
		return fmt.Sprintf("(XStruct %d [%s])", n.P, strings.Join(fs, "; "))
	case "N":
		return fmt.Sprintf("(XInterface %d)", n.P)
	case "d":
		return fmt.Sprintf("(XDefault %d %s %s)", n.P, n.X.coq(), n.Y.coq())
	case "R":
		return fmt.Sprintf("(XRender %d %s)", n.P, coqBytes(n.S))
	case "f":
		return fmt.Sprintf("(XFuncLit %d)", n.P)
	}
	panic("xn.coq: kind " + n.K)
}
